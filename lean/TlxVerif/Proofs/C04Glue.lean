/-
C04 — gluing sorted blocks, finished equal ranges, key order vs string order.
-/
import TlxVerif.Proofs.C04Safe
namespace TlxVerif.C04

theorem sortedLcp_iff (input : List Str) (r : Res) :
    SortedLcp input r ↔ r.out.Perm input ∧ r.out.Pairwise (fun a b => strLe a b = true) ∧ lcpOk r.out r.lcp :=
  Iff.rfl

theorem strLe_antisymm : ∀ a b : Str, strLe a b = true → strLe b a = true → a = b
  | [], [], _, _ => rfl
  | [], _ :: _, _, h => by simp [strLe] at h
  | _ :: _, [], h, _ => by simp [strLe] at h
  | a :: as, b :: bs, h1, h2 => by
    simp only [strLe] at h1 h2
    by_cases hab : a < b
    · have := u8_lt_asymm hab
      simp [hab, this] at h2
    · by_cases hba : b < a
      · simp [hab, hba] at h1
      · have := u8_eq_of_not_lt hab hba
        subst this
        simp only [hab, if_false] at h1 h2
        rw [strLe_antisymm as bs h1 h2]

/-- string order implies key order (strings of one range) -/
theorem key_mono {p s t : Str} {ks kt : Key} (hs : InRange p s) (ht : InRange p t)
    (h1 : getKey? s p.length = some ks) (h2 : getKey? t p.length = some kt) (hle : strLe s t = true) : ks ≤ kt := by
  rcases Nat.lt_or_ge kt.toNat ks.toNat with hlt | hge
  · exfalso
    obtain ⟨ns, a, rfl⟩ := hs
    obtain ⟨nt, b, rfl⟩ := ht
    have := key_lt_imp nt ns h2 h1 (BitVec.lt_def.2 hlt)
    exact this.2 (strLe_antisymm _ _ this.1 hle)
  · exact BitVec.le_def.2 hge

theorem lcp_self (s : Str) : lcp s s = s.length := by
  induction s with
  | nil => rfl
  | cons c cs ih => simp [lcp, ih]

/-- a range of equal strings is finished: `fill_lcp(length)` -/
theorem doneRes_good {strs : List Str} {v : Nat} (heq : ∀ a ∈ strs, ∀ b ∈ strs, a = b)
    (hv : ∀ a ∈ strs, a.length = v) : SortedLcp strs (doneRes strs v) := by
  refine ⟨List.Perm.refl _, ?_, ?_, ?_⟩
  · rw [List.pairwise_iff_getElem]
    intro i j hi hj _
    rw [heq _ (List.getElem_mem hi) _ (List.getElem_mem hj)]
    exact strLe_refl _
  · simp only [doneRes]; cases strs <;> simp [fillLcp]
  · intro i h0 hi
    simp only [doneRes] at hi ⊢
    have h1 : strs[i - 1]? = some strs[i - 1] := List.getElem?_eq_getElem (by omega)
    have h2 : strs[i]? = some strs[i] := List.getElem?_eq_getElem hi
    rw [h1, h2]
    simp only [Option.getD_some]
    rw [heq _ (List.getElem_mem (by omega : i - 1 < strs.length)) _ (List.getElem_mem hi), lcp_self,
      hv _ (List.getElem_mem hi)]
    cases strs with
    | nil => simp at hi
    | cons s rest =>
      simp only [List.length_cons, fillLcp]
      cases i with
      | zero => omega
      | succ i =>
        simp only [List.length_cons, Nat.add_lt_add_iff_right] at hi
        simp [List.getElem?_replicate, hi]

theorem empty_good : SortedLcp [] { out := [], lcp := [] } :=
  ⟨List.Perm.refl _, List.Pairwise.nil, rfl, fun i _ h => by simp at h⟩

theorem single_good (s : Str) : SortedLcp [s] { out := [s], lcp := [0] } :=
  ⟨List.Perm.refl _, by simp, rfl, fun i h0 h => by simp at h; omega⟩

/-- gluing two sorted blocks: the seam value is the LCP of the neighbours -/
theorem glue_good {A B : List Str} {ra rb : Res} (ha : SortedLcp A ra) (hb : SortedLcp B rb) (hne : B ≠ [])
    (hcross : ∀ a ∈ A, ∀ b ∈ B, strLe a b = true) (v : Nat)
    (hv : A ≠ [] → v = lcpT (lcp ((ra.out.getLast?).getD []) ((rb.out.head?).getD []))) :
    SortedLcp (A ++ B) { out := ra.out ++ rb.out,
                         lcp := ra.lcp ++ rb.lcp.set 0 (if A = [] then (rb.lcp.head?).getD 0 else v) } := by
  obtain ⟨pa, sa, la, ca⟩ := ha
  obtain ⟨pb, sb, lb, cb⟩ := hb
  have hbne : rb.out ≠ [] := by
    intro e; apply hne
    have := pb.length_eq; rw [e] at this; exact List.length_eq_zero_iff.1 this.symm
  have hAe : A = [] ↔ ra.out = [] := by
    constructor
    · intro e; subst e; exact List.length_eq_zero_iff.1 (by simpa using pa.length_eq)
    · intro e; have := pa.length_eq; rw [e] at this; exact List.length_eq_zero_iff.1 this.symm
  have hlo := lcpOk_append (A := ra.out) (B := rb.out) ⟨la, ca⟩ ⟨lb, cb⟩ hbne v
    (fun h => hv (fun e => h (hAe.1 e)))
  refine ⟨pa.append pb, ?_, ?_⟩
  · rw [List.pairwise_append]
    refine ⟨sa, sb, ?_⟩
    intro a ha' b hb'
    exact hcross a (pa.mem_iff.1 ha') b (pb.mem_iff.1 hb')
  · show lcpOk _ _
    by_cases hA : A = []
    · have h0 : ra.out = [] := hAe.1 hA
      simp only [hA, if_true]
      rw [h0] at hlo ⊢
      simpa using hlo
    · have h0 : ¬ ra.out = [] := fun e => hA (hAe.2 e)
      simp only [hA, if_false]
      simpa [h0] using hlo

end TlxVerif.C04
