/-
C04 — plumbing of the end-to-end proof: the `Safe` predicate on results of the model monad
(an answer with a property, or running out of fuel — never an out-of-bounds / internal
error), the bridge to the C03 insertion sort, keys of a whole range.
-/
import TlxVerif.Proofs.C04Step
import TlxVerif.Proofs.C03Assemble
namespace TlxVerif.C04

/-! ### results that are either good or out of fuel -/

/-- `af = true`: an answer with property `P`, or out of fuel; `af = false`: an answer with `P` -/
def Safe {α} (af : Bool) (x : M α) (P : α → Prop) : Prop :=
  match x with
  | .ok a => P a
  | .error e => af = true ∧ e = Err.fuel

variable {af : Bool}

theorem Safe.total {α} {x : M α} {P : α → Prop} (h : Safe false x P) : ∃ a, x = .ok a ∧ P a := by
  cases x with
  | ok a => exact ⟨a, rfl, h⟩
  | error e => exact absurd h.1 (by decide)

theorem Safe.weaken {α} {x : M α} {P : α → Prop} (h : Safe false x P) : Safe af x P := by
  cases x with
  | ok a => exact h
  | error e => exact absurd h.1 (by decide)

theorem Safe.pure {α} {a : α} {P : α → Prop} (h : P a) : Safe af (pure a : M α) P := h

theorem Safe.ok {α} {a : α} {P : α → Prop} (h : P a) : Safe af (.ok a : M α) P := h

theorem Safe.bind {α β} {x : M α} {f : α → M β} {P : α → Prop} {Q : β → Prop}
    (hx : Safe af x P) (hf : ∀ a, P a → Safe af (f a) Q) : Safe af (x >>= f) Q := by
  cases x with
  | ok a => exact hf a hx
  | error e => exact hx

theorem Safe.mono {α} {x : M α} {P Q : α → Prop} (hx : Safe af x P) (h : ∀ a, P a → Q a) : Safe af x Q := by
  cases x with
  | ok a => exact h a hx
  | error e => exact hx

theorem Safe.of_ok {α} {x : M α} {P : α → Prop} {a : α} (hx : Safe af x P) (h : x = .ok a) : P a := by
  subst h; exact hx

theorem Safe.liftO {α} {o : Option α} {e : Err} {P : α → Prop} (h : ∃ a, o = some a ∧ P a) : Safe af (liftO e o) P := by
  obtain ⟨a, rfl, hp⟩ := h
  exact hp

/-- element-wise relation of two lists of the same length -/
inductive All2 {α β} (P : α → β → Prop) : List α → List β → Prop
  | nil : All2 P [] []
  | cons {a b l bs} : P a b → All2 P l bs → All2 P (a :: l) (b :: bs)

theorem All2.length_eq {α β} {P : α → β → Prop} {l : List α} {bs : List β} (h : All2 P l bs) : l.length = bs.length := by
  induction h with
  | nil => rfl
  | cons _ _ ih => simp [ih]

theorem All2.get {α β} {P : α → β → Prop} {l : List α} {bs : List β} (h : All2 P l bs) :
    ∀ (i : Nat) (a : α) (b : β), l[i]? = some a → bs[i]? = some b → P a b := by
  induction h with
  | nil => intro i a b h; simp at h
  | cons hp _ ih =>
    intro i a b h1 h2
    cases i with
    | zero => simp at h1 h2; subst h1 h2; exact hp
    | succ i => exact ih i a b (by simpa using h1) (by simpa using h2)

theorem All2.imp {α β} {P Q : α → β → Prop} {l : List α} {bs : List β} (h : All2 P l bs)
    (hpq : ∀ a b, a ∈ l → P a b → Q a b) : All2 Q l bs := by
  induction h with
  | nil => exact All2.nil
  | cons hp _ ih =>
    exact All2.cons (hpq _ _ (by simp) hp) (ih (fun a b ha => hpq a b (List.mem_cons_of_mem _ ha)))

/-- `mapM` over a list: every element safe ⇒ the whole list safe, element-wise -/
theorem Safe.mapM {α β} {f : α → M β} {P : α → β → Prop} :
    ∀ (l : List α), (∀ a ∈ l, Safe af (f a) (P a)) →
      Safe af (l.mapM f) (fun bs => All2 P l bs)
  | [], _ => by rw [List.mapM_nil]; exact All2.nil
  | a :: l, h => by
    rw [List.mapM_cons]
    refine Safe.bind (h a (by simp)) (fun b hb => ?_)
    refine Safe.bind (Safe.mapM l (fun a' ha' => h a' (List.mem_cons_of_mem _ ha'))) (fun bs hbs => ?_)
    exact All2.cons hb hbs

/-! ### bridge to C03 -/

theorem lcp_eq_c03 : ∀ (a b : Str), lcp a b = C03.lcp a b
  | [], _ => by simp [lcp, C03.lcp]
  | _ :: _, [] => by simp [lcp, C03.lcp]
  | x :: xs, y :: ys => by
    simp only [lcp, C03.lcp]
    rw [lcp_eq_c03 xs ys]

theorem strLe_iff_le : ∀ (a b : Str), strLe a b = true ↔ a ≤ b
  | [], b => by simp [strLe]
  | _ :: _, [] => by simp [strLe]
  | x :: xs, y :: ys => by
    simp only [strLe]
    rw [C03.cons_le_cons]
    by_cases h1 : x < y
    · simp [h1]
    · by_cases h2 : y < x
      · have hne : ¬ x = y := by intro e; subst e; exact h1 h2
        simp [h1, h2, hne]
      · have := u8_eq_of_not_lt h1 h2
        subst this
        simp only [h1, if_false, false_or, true_and]
        exact strLe_iff_le xs ys

theorem nulFree_iff (s : Str) : nulFree s ↔ (0 : UInt8) ∉ s := by
  unfold nulFree
  constructor
  · intro h hm; exact h 0 hm rfl
  · intro h c hc e; subst e; exact h hc

/-- the strings of a sort range -/
def RangeOk (p : Str) (strs : List Str) : Prop := ∀ s ∈ strs, InRange p s

theorem RangeOk.sub {p : Str} {l l' : List Str} (h : RangeOk p l) (hs : ∀ s ∈ l', s ∈ l) : RangeOk p l' :=
  fun s hs' => h s (hs s hs')

theorem adjLcps_get (xs : List Str) (i : Nat) (h : i + 1 < xs.length) :
    (C03.adjLcps xs)[i]? = some (C03.lcp ((xs[i]?).getD []) ((xs[i + 1]?).getD [])) := by
  induction xs generalizing i with
  | nil => simp at h
  | cons a as ih =>
    cases as with
    | nil => simp at h
    | cons b bs =>
      rw [C03.adjLcps_cons_cons]
      cases i with
      | zero => simp
      | succ i =>
        simp only [List.getElem?_cons_succ]
        exact ih i (by simpa using h)

/-- **The base case**: the C03 insertion sort (LCP overload) on a sort range -/
theorem insSort_good {p : Str} {strs : List Str} (h : RangeOk p strs) : SortedLcp strs (insSort p.length strs) := by
  have hpre : C03.Pre (fun s : Str => s) true p.length strs (List.replicate strs.length 0) := by
    refine ⟨?_, ?_, fun _ => by simp⟩
    · intro a ha b hb
      obtain ⟨_, a', rfl⟩ := h a ha
      obtain ⟨_, b', rfl⟩ := h b hb
      rw [← lcp_eq_c03, lcp_append]; omega
    · intro a ha
      exact (nulFree_iff a).1 (h a ha).1
  obtain ⟨h1, h2, h3⟩ := C03.insertionSort_spec (fun s : Str => s) true p.length strs _ hpre
  have h3 := h3 rfl
  have hlen := h1.length_eq
  refine ⟨h1, ?_, ?_, ?_⟩
  · exact List.Pairwise.imp (fun {a b} hab => (strLe_iff_le a b).2 hab) h2
  · simp only [insSort]
    rw [List.length_map, h3, List.length_append, C03.adjLcps_length, List.length_map, List.length_take, List.length_replicate]
    omega
  · intro i h0 hi
    simp only [insSort] at hi ⊢
    rw [List.getElem?_map, h3]
    have ht : (List.take 1 (List.replicate strs.length 0)).length = 1 := by
      rw [List.length_take, List.length_replicate]; omega
    rw [List.getElem?_append_right (by omega), ht]
    have := adjLcps_get ((C03.insertionSort (fun s : Str => s) true p.length strs
      (List.replicate strs.length 0)).1.map (fun s => s)) (i - 1) (by simpa using (by omega))
    rw [this]
    simp only [List.map_id', lcp_eq_c03, Option.map_some]
    have : i - 1 + 1 = i := by omega
    rw [this]

/-! ### keys of a range -/

theorem getKey_inRange {p s : Str} (h : InRange p s) : ∃ k, getKey? s p.length = some k := getKey_of_inRange h

/-- reading the keys of a sort range succeeds; the keys are aligned with the strings -/
theorem keysOf_safe {p : Str} : ∀ {strs : List Str}, RangeOk p strs →
    Safe af (keysOf strs p.length) (fun keys => All2 (fun s k => getKey? s p.length = some k) strs keys)
  | strs, h => by
    unfold keysOf
    refine Safe.mapM strs (fun s hs => ?_)
    obtain ⟨k, hk⟩ := getKey_inRange (h s hs)
    rw [hk]; exact rfl

end TlxVerif.C04
