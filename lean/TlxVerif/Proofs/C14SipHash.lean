import TlxVerif.Model.C14SipHash
import TlxVerif.Model.C14Spec
import TlxVerif.Proofs.C14Compress
/-!
C14 — `siphash_plain` = SipHash-2-4 of the paper, and `siphash_sse2` = `siphash_plain`.
-/
namespace TlxVerif.C14

open Model.Sip

theorem sip_tables :
    Gen.sipInit = [0x736f6d6570736575#64, 0x646f72616e646f6d#64, 0x6c7967656e657261#64, 0x7465646279746573#64] ∧
    Gen.sipFinalXor = 0xff#64 ∧
    Gen.sipRound = compressModelled ∧ Gen.sipRoundSSE2 = compressSSE2Modelled ∧
    Gen.sipInitSSE2 = [0x736f6d6570736575#64, 0x6c7967656e657261#64, 0x646f72616e646f6d#64, 0x7465646279746573#64] ∧
    Gen.sipFinalSSE2 = [0x0#64, 0xff#64] ∧
    Gen.sipDefaultKey = (List.range 16).map (BitVec.ofNat 8) :=
  ⟨by decide, by decide, by decide, by decide, by decide, by decide, by decide⟩

def toT (v : V) : Word × Word × Word × Word := (v.v0, v.v1, v.v2, v.v3)

/-- the interleaved statement order of the macro computes the paper's SipRound -/
theorem compress_eq (v : V) : toT (compress v) = Spec.SipHash.sipRound (toT v) := by
  cases v; rfl

theorem absorb_eq (v : V) (mi : Word) : toT (absorb v mi) = Spec.SipHash.absorb (toT v) mi := by
  cases v; rfl

theorem finish_eq (v : V) : finish v = Spec.SipHash.finalization (toT v) := by
  unfold finish
  rw [sip_tables.2.1]
  cases v; rfl

theorem foldl_absorb (f : Nat → Word) : ∀ (l : List Nat) (v : V),
    toT (l.foldl (fun v b => absorb v (f b)) v) = l.foldl (fun t b => Spec.SipHash.absorb t (f b)) (toT v)
  | [], v => rfl
  | b :: l, v => by
    simp only [List.foldl_cons]
    rw [foldl_absorb f l, absorb_eq]

theorem leWord_snoc (l : Bytes) (b : Byte) :
    leWord 64 (l ++ [b]) = (b.setWidth 64 <<< (8 * l.length)) ||| leWord 64 l := by
  unfold leWord beWord
  rw [List.reverse_append, List.reverse_singleton, List.singleton_append, List.foldl_cons, beWord_init]
  simp

theorem packFrom_eq (tail : Bytes) : ∀ (k : Nat) (acc : Word), k ≤ tail.length →
    packFrom tail k acc = leWord 64 (tail.take k) ||| acc
  | 0, acc, _ => by simp [packFrom, leWord, beWord]
  | k + 1, acc, h => by
    have hk : k < tail.length := by omega
    rw [packFrom, packFrom_eq tail k _ (by omega)]
    have ht : tail.take (k + 1) = tail.take k ++ [tail.getD k 0] := by
      rw [List.take_add_one]; congr 1
      simp [List.getD, List.getElem?_eq_getElem hk]
    rw [ht, leWord_snoc, List.length_take_of_le (by omega)]
    ac_rfl

/-- the fall-through `switch` packs the remaining bytes little-endian -/
theorem packTail_eq (init : Word) (tail : Bytes) : packTail init tail = leWord 64 tail ||| init := by
  unfold packTail
  rw [packFrom_eq tail tail.length init (Nat.le_refl _), List.take_length]

/-- **siphash_plain = SipHash-2-4** for every key and message -/
theorem siphashPlain_eq_spec (key msg : Bytes) : siphashPlain key msg = Spec.SipHash.hash key msg := by
  unfold siphashPlain Spec.SipHash.hash
  rw [sip_tables.1]
  simp only [List.getD_cons_succ, List.getD_cons_zero]
  have hq : msg.length / 8 * 8 / 8 = msg.length / 8 := Nat.mul_div_cancel _ (by omega)
  rw [hq, toBlocks_eq_map_range (by omega) (msg.length / 8) msg rfl, List.map_map, List.foldl_append,
    List.foldl_map, packTail_eq, finish_eq, absorb_eq, foldl_absorb]
  rfl

/-! ### SSE2 lanes -/

theorem bv_hi_lo (x : BitVec 64) : x.extractLsb' 32 32 ++ x.extractLsb' 0 32 = x := by
  apply BitVec.eq_of_getLsbD_eq
  intro i hi
  simp only [BitVec.getLsbD_append, BitVec.getLsbD_extractLsb']
  by_cases h : i < 32
  · simp [h]
  · have : i - 32 < 32 := by omega
    simp [h, this]; congr 1; omega

theorem bv_lo_hi (x : BitVec 64) : x.extractLsb' 0 32 ++ x.extractLsb' 32 32 = x.rotateLeft 32 := by
  apply BitVec.eq_of_getLsbD_eq
  intro i hi
  simp only [BitVec.getLsbD_append, BitVec.getLsbD_extractLsb', BitVec.getLsbD_rotateLeft]
  by_cases h : i < 32
  · simp [h, hi]
  · have : i - 32 < 32 := by omega
    simp [h, this, hi]

theorem bv_words (x : BitVec 64) :
    x.extractLsb' 32 16 ++ x.extractLsb' 16 16 ++ x.extractLsb' 0 16 ++ x.extractLsb' 48 16 = x.rotateLeft 16 := by
  apply BitVec.eq_of_getLsbD_eq
  intro i hi
  simp only [BitVec.getLsbD_append, BitVec.getLsbD_extractLsb', BitVec.getLsbD_rotateLeft]
  by_cases h1 : i < 16
  · simp [h1, hi]
  · by_cases h2 : i < 32
    · have : i - 16 < 16 := by omega
      simp [h1, this, hi]
    · by_cases h3 : i < 48
      · have a : i - 16 - 16 < 16 := by omega
        have b : ¬ i - 16 < 16 := by omega
        simp [h1, b, a, hi]; congr 1; omega
      · have a : ¬ i - 16 - 16 < 16 := by omega
        have b : ¬ i - 16 < 16 := by omega
        have c : i - 16 - 16 - 16 < 16 := by omega
        simp [h1, b, a, c, hi]; congr 1; omega

theorem bv_split (x : BitVec 64) : (x >>> 32).setWidth 32 ++ x.setWidth 32 = x := by
  apply BitVec.eq_of_getLsbD_eq
  intro i hi
  simp only [BitVec.getLsbD_append, BitVec.getLsbD_setWidth, BitVec.getLsbD_ushiftRight]
  by_cases h : i < 32
  · simp [h]
  · have : i - 32 < 32 := by omega
    simp [h, this]; congr 1; omega

theorem bv_join (x : BitVec 64) :
    ((x.extractLsb' 32 32).setWidth 64 <<< 32) ||| (x.extractLsb' 0 32).setWidth 64 = x := by
  apply BitVec.eq_of_getLsbD_eq
  intro i hi
  simp only [BitVec.getLsbD_or, BitVec.getLsbD_shiftLeft, BitVec.getLsbD_setWidth, BitVec.getLsbD_extractLsb']
  by_cases h : i < 32
  · simp [h, hi]
  · have h1 : i - 32 < 32 := by omega
    have e : 32 + (i - 32) = i := by omega
    simp [h, h1, hi, e]
    intro _; omega

theorem bv_ext_lo (x : BitVec 32) : (x.setWidth 64).extractLsb' 0 32 = x := by
  apply BitVec.eq_of_getLsbD_eq
  intro i hi
  simp [BitVec.getLsbD_setWidth, hi]
  omega

theorem bv_ext_hi (x : BitVec 32) : (x.setWidth 64).extractLsb' 32 32 = 0#32 := by
  apply BitVec.eq_of_getLsbD_eq
  intro i hi
  simp [BitVec.getLsbD_setWidth, hi]

theorem bv_append_lo (a b : BitVec 32) : (a ++ b).extractLsb' 0 32 = b := by
  apply BitVec.eq_of_getLsbD_eq
  intro i hi
  rw [BitVec.getLsbD_extractLsb', BitVec.getLsbD_append]
  simp [hi]

theorem shuffle_1032 (v : M128) : shuffle_epi32 v 1 0 3 2 = ⟨v.hi, v.lo⟩ := by
  simp [shuffle_epi32, ofDwords, dword, bv_hi_lo]

theorem shuffle_0132 (v : M128) : shuffle_epi32 v 0 1 3 2 = ⟨v.hi, v.lo.rotateLeft 32⟩ := by
  simp [shuffle_epi32, ofDwords, dword, bv_hi_lo, bv_lo_hi]

theorem shufflelo_2103 (v : M128) : shufflelo_epi16 v 2 1 0 3 = ⟨v.lo.rotateLeft 16, v.hi⟩ := by
  simp [shufflelo_epi16, word16, bv_words]

theorem rot_lanes (v : M128) (r : Nat) (hr : r < 64) :
    or_si128 (slli_epi64 v r) (srli_epi64 v (64 - r)) = ⟨v.lo.rotateLeft r, v.hi.rotateLeft r⟩ := by
  simp [or_si128, slli_epi64, srli_epi64, BitVec.rotateLeft_def, Nat.mod_eq_of_lt hr]

/-- the two registers of the vectorised variant -/
def pack (v : V) : M128 × M128 := (⟨v.v0, v.v2⟩, ⟨v.v1, v.v3⟩)

/-- the SSE2 macro computes the portable macro lane-wise -/
theorem compressSSE2_pack (v : V) : compressSSE2 (pack v) = pack (compress v) := by
  cases v with
  | mk v0 v1 v2 v3 =>
    simp only [compressSSE2, pack, compress, shuffle_1032, shuffle_0132, shufflelo_2103,
      rot_lanes _ 13 (by omega), rot_lanes _ 17 (by omega), rot_lanes _ 21 (by omega),
      add_epi64, xor_si128, unpacklo_epi64]

theorem absorbSSE2_pack (v : V) (mi : Word) : absorbSSE2 (pack v) ⟨mi, 0⟩ = pack (absorb v mi) := by
  unfold absorbSSE2 absorb
  have h : (⟨v.v0, v.v2⟩, xor_si128 ⟨v.v1, v.v3⟩ (slli_si128_8 ⟨mi, 0⟩)) = pack { v with v3 := v.v3 ^^^ mi } := by
    simp [pack, xor_si128, slli_si128_8]
  simp only [pack] at h ⊢
  rw [h]
  have h2 := compressSSE2_pack (compress { v with v3 := v.v3 ^^^ mi })
  rw [← compressSSE2_pack] at h2
  simp only [pack] at h2
  rw [h2]
  simp [xor_si128]

theorem lastSSE2_eq (x : Word) : lastSSE2 x = ⟨x, 0⟩ := by
  simp [lastSSE2, unpacklo_epi32, cvtsi32_si128, ofDwords, dword, bv_ext_lo, bv_ext_hi, bv_split]

theorem finishSSE2_pack (v : V) : finishSSE2 (pack v) = finish v := by
  unfold finishSSE2 finish
  rw [sip_tables.2.2.2.2.2.1, sip_tables.2.1]
  have h : (xor_si128 ⟨v.v0, v.v2⟩ ⟨[0x0#64, 0xff#64].getD 0 0, [0x0#64, 0xff#64].getD 1 0⟩, (⟨v.v1, v.v3⟩ : M128)) =
      pack { v with v2 := v.v2 ^^^ 0xff#64 } := by
    simp [pack, xor_si128]
  simp only [pack] at h ⊢
  rw [h]
  have h4 := compressSSE2_pack (compress (compress (compress { v with v2 := v.v2 ^^^ 0xff#64 })))
  rw [← compressSSE2_pack, ← compressSSE2_pack, ← compressSSE2_pack] at h4
  simp only [pack] at h4
  rw [h4]
  generalize compress (compress (compress (compress { v with v2 := v.v2 ^^^ 0xff#64 }))) = w
  simp only [xor_si128, shuffle_1032, cvtsi128_si32, srli_si128_4, dword, ofDwords, bv_append_lo]
  rw [bv_join]
  simp only [BitVec.xor_assoc]

theorem foldl_absorbSSE2 (f : Nat → Word) : ∀ (l : List Nat) (v : V),
    l.foldl (fun s b => absorbSSE2 s ⟨f b, 0⟩) (pack v) = pack (l.foldl (fun v b => absorb v (f b)) v)
  | [], v => rfl
  | b :: l, v => by
    simp only [List.foldl_cons]
    rw [absorbSSE2_pack, foldl_absorbSSE2 f l]

/-- **portable = vectorised**: `siphash_sse2` (SSE2 lane semantics as modelled) returns the
    value of `siphash_plain` for every key and message -/
theorem siphashSSE2_eq_plain (key msg : Bytes) : siphashSSE2 key msg = siphashPlain key msg := by
  unfold siphashSSE2 siphashPlain
  rw [sip_tables.1, sip_tables.2.2.2.2.1]
  simp only [List.getD_cons_succ, List.getD_cons_zero]
  have hinit : (xor_si128 ⟨0x736f6d6570736575#64, 0x6c7967656e657261#64⟩ (unpacklo_epi64 (loadu_si128 key) (loadu_si128 key)),
      xor_si128 ⟨0x646f72616e646f6d#64, 0x7465646279746573#64⟩ (unpackhi_epi64 (loadu_si128 key) (loadu_si128 key))) =
      pack ⟨leWord 64 (key.take 8) ^^^ 0x736f6d6570736575#64, leWord 64 ((key.drop 8).take 8) ^^^ 0x646f72616e646f6d#64,
            leWord 64 (key.take 8) ^^^ 0x6c7967656e657261#64, leWord 64 ((key.drop 8).take 8) ^^^ 0x7465646279746573#64⟩ := by
    simp only [pack, xor_si128, unpacklo_epi64, unpackhi_epi64, loadu_si128]
    simp only [BitVec.xor_comm]
  rw [hinit]
  have hload : ∀ b, loadl_epi64 (msg.drop (8 * b)) = ⟨leWord 64 ((msg.drop (8 * b)).take 8), 0⟩ := fun _ => rfl
  simp only [hload, lastSSE2_eq]
  rw [foldl_absorbSSE2 (fun b => leWord 64 ((msg.drop (8 * b)).take 8)), absorbSSE2_pack, finishSSE2_pack]

/-- hence the vectorised variant is SipHash-2-4 as well -/
theorem siphashSSE2_eq_spec (key msg : Bytes) : siphashSSE2 key msg = Spec.SipHash.hash key msg := by
  rw [siphashSSE2_eq_plain, siphashPlain_eq_spec]

end TlxVerif.C14
