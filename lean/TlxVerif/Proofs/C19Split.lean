/-
C19 — lemmas about the split loops.
-/
import TlxVerif.Model.C19Split
import TlxVerif.Model.C19Spec
namespace TlxVerif.C19
open TlxVerif.C18 (Bytes npos)

/-! ### split(string): unfolding lemmas of the main loop -/

theorem splitStrLoop_short (sep : Bytes) (limit : Nat) (rest cur : Bytes) (count : Nat)
    (h : rest.length < sep.length ∨ sep.length = 0) :
    splitStrLoop sep limit rest cur count = [cur ++ rest] := by
  rw [splitStrLoop, dif_pos h]

theorem splitStrLoop_match (sep : Bytes) (limit : Nat) (rest cur : Bytes) (count : Nat)
    (h : ¬ (rest.length < sep.length ∨ sep.length = 0)) (hp : sep.isPrefixOf rest = true) :
    splitStrLoop sep limit rest cur count =
      if count + 1 ≥ limit then [cur ++ rest]
      else cur :: splitStrLoop sep limit (rest.drop sep.length) [] (count + 1) := by
  rw [splitStrLoop, dif_neg h, if_pos hp]

theorem splitStrLoop_step (sep : Bytes) (limit : Nat) (c : UInt8) (rest cur : Bytes) (count : Nat)
    (h : ¬ ((c :: rest).length < sep.length ∨ sep.length = 0)) (hp : sep.isPrefixOf (c :: rest) = false) :
    splitStrLoop sep limit (c :: rest) cur count = splitStrLoop sep limit rest (cur ++ [c]) count := by
  rw [splitStrLoop, dif_neg h, if_neg (by simp [hp])]

/-- a separator that is longer than the text is not a prefix of it -/
theorem not_isPrefixOf_of_length_lt (sep rest : Bytes) (h : rest.length < sep.length) :
    sep.isPrefixOf rest = false := by
  cases hp : sep.isPrefixOf rest
  · rfl
  · have := (List.isPrefixOf_iff_prefix.mp hp).length_le
    omega

/-- scanning a stretch `p` in which no separator starts -/
theorem splitStrLoop_skip (sep : Bytes) (limit : Nat) (hsep : sep ≠ []) : ∀ (p tail cur : Bytes) (count : Nat),
    (∀ k, k < p.length → sep.isPrefixOf ((p ++ tail).drop k) = false) →
    sep.length ≤ tail.length →
    splitStrLoop sep limit (p ++ tail) cur count = splitStrLoop sep limit tail (cur ++ p) count
  | [], tail, cur, count, _, _ => by simp
  | c :: p, tail, cur, count, hno, hlen => by
    have h0 : sep.isPrefixOf (c :: (p ++ tail)) = false := by simpa using hno 0 (by simp)
    have hs : 0 < sep.length := List.length_pos_iff.mpr hsep
    have hcond : ¬ ((c :: (p ++ tail)).length < sep.length ∨ sep.length = 0) := by
      simp only [List.length_cons, List.length_append]; omega
    rw [List.cons_append, splitStrLoop_step sep limit c (p ++ tail) cur count hcond h0]
    rw [splitStrLoop_skip sep limit hsep p tail (cur ++ [c]) count
      (fun k hk => by simpa using hno (k + 1) (by simp; omega)) hlen]
    simp

/-- the last part: no separator starts anywhere in it -/
theorem splitStrLoop_last (sep : Bytes) (limit : Nat) (hsep : sep ≠ []) : ∀ (p cur : Bytes) (count : Nat),
    (∀ k, k < p.length → sep.isPrefixOf (p.drop k) = false) →
    splitStrLoop sep limit p cur count = [cur ++ p]
  | [], cur, count, _ => by
    have hs : 0 < sep.length := List.length_pos_iff.mpr hsep
    rw [splitStrLoop_short]; simp; omega
  | c :: p, cur, count, hno => by
    by_cases hcond : (c :: p).length < sep.length ∨ sep.length = 0
    · rw [splitStrLoop_short _ _ _ _ _ hcond]
    · have h0 : sep.isPrefixOf (c :: p) = false := by simpa using hno 0 (by simp)
      rw [splitStrLoop_step sep limit c p cur count hcond h0]
      rw [splitStrLoop_last sep limit hsep p (cur ++ [c]) count
        (fun k hk => by simpa using hno (k + 1) (by simp; omega))]
      simp

end TlxVerif.C19

namespace TlxVerif.C19
open TlxVerif.C18 (Bytes npos)

/-! ### join -/

theorem join_singleton (sep p : Bytes) : join sep [p] = p := by simp [join]

theorem join_cons_cons (sep p q : Bytes) (ps : List Bytes) :
    join sep (p :: q :: ps) = p ++ (sep ++ join sep (q :: ps)) := by
  simp [join, List.flatMap_cons, List.append_assoc]

/-- "the separator neither occurs in nor straddles the parts", in the form the left-to-right
scan needs it: in the joined text no separator *starts* inside a part (for the last part:
none occurs in it at all) -/
def SepFree (sep : Bytes) : List Bytes → Prop
  | [] => True
  | [p] => ∀ k, k < p.length → sep.isPrefixOf (p.drop k) = false
  | p :: q :: ps =>
    (∀ k, k < p.length → sep.isPrefixOf ((p ++ (sep ++ join sep (q :: ps))).drop k) = false) ∧
    SepFree sep (q :: ps)

/-- the first part of the result is prefixed with what the loop had already scanned -/
def prependFirst (cur : Bytes) : List Bytes → List Bytes
  | [] => [cur]
  | p :: ps => (cur ++ p) :: ps

theorem splitStrLoop_join (sep : Bytes) (limit : Nat) (hsep : sep ≠ []) : ∀ (parts : List Bytes) (cur : Bytes) (count : Nat),
    parts ≠ [] → count + parts.length ≤ limit → SepFree sep parts →
    splitStrLoop sep limit (join sep parts) cur count = prependFirst cur parts
  | [], _, _, h, _, _ => absurd rfl h
  | [p], cur, count, _, _, hfree => by
    rw [join_singleton]
    exact splitStrLoop_last sep limit hsep p cur count hfree
  | p :: q :: ps, cur, count, _, hlim, hfree => by
    have hs : 0 < sep.length := List.length_pos_iff.mpr hsep
    rw [join_cons_cons]
    rw [splitStrLoop_skip sep limit hsep p (sep ++ join sep (q :: ps)) cur count hfree.1 (by simp)]
    have hcond : ¬ ((sep ++ join sep (q :: ps)).length < sep.length ∨ sep.length = 0) := by
      simp only [List.length_append]; omega
    have hp : sep.isPrefixOf (sep ++ join sep (q :: ps)) = true := by
      rw [List.isPrefixOf_iff_prefix]; exact List.prefix_append _ _
    rw [splitStrLoop_match sep limit _ _ count hcond hp]
    have hc : ¬ count + 1 ≥ limit := by simp only [List.length_cons] at hlim; omega
    rw [if_neg hc, List.drop_left]
    rw [splitStrLoop_join sep limit hsep (q :: ps) [] (count + 1) (by simp)
      (by simp only [List.length_cons] at hlim ⊢; omega) hfree.2]
    simp [prependFirst]

/-! ### split(char) is split(string) with a one-byte separator -/

theorem splitCharLoop_eq (c : UInt8) (limit : Nat) : ∀ (s cur : Bytes) (count : Nat),
    splitCharLoop c limit s cur count = splitStrLoop [c] limit s cur count
  | [], cur, count => by
    rw [splitStrLoop_short]
    · simp [splitCharLoop]
    · simp
  | x :: s, cur, count => by
    have hcond : ¬ ((x :: s).length < [c].length ∨ [c].length = 0) := by simp
    by_cases hx : x = c
    · rw [hx] at hcond ⊢
      have hp : [c].isPrefixOf (c :: s) = true := by simp [List.isPrefixOf]
      rw [splitStrLoop_match _ _ _ _ _ hcond hp]
      simp only [splitCharLoop, beq_self_eq_true, if_true, List.length_singleton, List.drop_succ_cons, List.drop_zero]
      split
      · rfl
      · rw [splitCharLoop_eq c limit s [] (count + 1)]
    · have hp : [c].isPrefixOf (x :: s) = false := by
        simp [List.isPrefixOf]; exact fun e => hx e.symm
      rw [splitStrLoop_step _ _ _ _ _ _ hcond hp]
      have : (x == c) = false := by simp [hx]
      simp only [splitCharLoop, this, Bool.false_eq_true, if_false]
      exact splitCharLoop_eq c limit s (cur ++ [x]) count

theorem splitChar_eq_splitStr (c : UInt8) (s : Bytes) (limit : Nat) : splitChar c s limit = splitStr [c] s limit := by
  unfold splitChar splitStr
  split
  · rfl
  · simp [splitCharLoop_eq]

/-- parts that do not contain the separator byte are separator free -/
theorem sepFree_char (c : UInt8) : ∀ parts : List Bytes, (∀ p, p ∈ parts → c ∉ p) → SepFree [c] parts
  | [], _ => trivial
  | [p], h => by
    intro k hk
    have hc : c ∉ p := h p (by simp)
    rw [List.drop_eq_getElem_cons hk]
    have : p[k] ≠ c := fun e => hc (e ▸ List.getElem_mem hk)
    simp [List.isPrefixOf]; exact fun e => this e.symm
  | p :: q :: ps, h => by
    refine ⟨?_, sepFree_char c (q :: ps) (fun x hx => h x (by simp [hx]))⟩
    intro k hk
    have hc : c ∉ p := h p (by simp)
    have hk' : k < (p ++ ([c] ++ join [c] (q :: ps))).length := by simp; omega
    rw [List.drop_eq_getElem_cons hk', List.getElem_append_left hk]
    have : p[k] ≠ c := fun e => hc (e ▸ List.getElem_mem hk)
    simp [List.isPrefixOf]; exact fun e => this e.symm

end TlxVerif.C19

namespace TlxVerif.C19
open TlxVerif.C18 (Bytes npos)

/-! ### split with a limit against the recursive definition -/

theorem prependFirst_append (a b : Bytes) (l : List Bytes) (hl : l ≠ []) :
    prependFirst a (prependFirst b l) = prependFirst (a ++ b) l := by
  cases l with
  | nil => exact absurd rfl hl
  | cons x xs => simp [prependFirst]

theorem prependFirst_nil (l : List Bytes) (hl : l ≠ []) : prependFirst [] l = l := by
  cases l with
  | nil => exact absurd rfl hl
  | cons x xs => simp [prependFirst]

theorem spec_split_ne_nil (sep : Bytes) : ∀ (n : Nat) (s : Bytes), 0 < n → Spec.split sep n s ≠ []
  | 0, _, h => by omega
  | 1, _, _ => by simp [Spec.split]
  | n + 2, s, _ => by
    simp only [Spec.split]
    split <;> simp

theorem firstOcc_none_of_short (sep : Bytes) (hsep : sep ≠ []) : ∀ s : Bytes, s.length < sep.length →
    Spec.firstOcc sep s = none
  | [], _ => rfl
  | c :: t, h => by
    have h1 := not_isPrefixOf_of_length_lt sep (c :: t) h
    simp only [Spec.firstOcc, h1, Bool.false_eq_true, if_false]
    rw [firstOcc_none_of_short sep hsep t (by simp only [List.length_cons] at h; omega)]
    rfl

/-- a byte in front of which no separator starts goes into the first part -/
theorem spec_split_cons (sep : Bytes) (c : UInt8) (t : Bytes) (hp : sep.isPrefixOf (c :: t) = false) :
    ∀ n, 0 < n → Spec.split sep n (c :: t) = prependFirst [c] (Spec.split sep n t)
  | 0, h => by omega
  | 1, _ => by simp [Spec.split, prependFirst]
  | n + 2, _ => by
    simp only [Spec.split, Spec.firstOcc, hp, Bool.false_eq_true, if_false]
    cases Spec.firstOcc sep t with
    | none => simp [prependFirst]
    | some i =>
      simp only [Option.map_some, prependFirst, List.cons_append, List.nil_append]
      have : i + 1 + sep.length = (i + sep.length) + 1 := by omega
      rw [this]
      simp

theorem spec_split_match (sep : Bytes) (s : Bytes) (hs : s ≠ []) (hp : sep.isPrefixOf s = true) (n : Nat) :
    Spec.split sep (n + 2) s = [] :: Spec.split sep (n + 1) (s.drop sep.length) := by
  cases s with
  | nil => exact absurd rfl hs
  | cons c t => simp [Spec.split, Spec.firstOcc, hp]

/-- the loop computes the recursive definition (with what it has already scanned in front) -/
theorem splitStrLoop_eq_spec (sep : Bytes) (limit : Nat) (hsep : sep ≠ []) : ∀ (m : Nat) (rest cur : Bytes) (count : Nat),
    rest.length ≤ m → count < limit →
    splitStrLoop sep limit rest cur count = prependFirst cur (Spec.split sep (limit - count) rest)
  | m, rest, cur, count, hm, hc => by
    have hs : 0 < sep.length := List.length_pos_iff.mpr hsep
    by_cases hcond : rest.length < sep.length ∨ sep.length = 0
    · rw [splitStrLoop_short _ _ _ _ _ hcond]
      have hshort : rest.length < sep.length := by omega
      obtain ⟨n, hn⟩ : ∃ n, limit - count = n + 1 := ⟨limit - count - 1, by omega⟩
      rw [hn]
      cases n with
      | zero => simp [Spec.split, prependFirst]
      | succ n => simp [Spec.split, firstOcc_none_of_short sep hsep rest hshort, prependFirst]
    · cases hr : rest with
      | nil => rw [hr] at hcond; simp at hcond
      | cons c t =>
        rw [← hr]
        by_cases hp : sep.isPrefixOf rest = true
        · rw [splitStrLoop_match _ _ _ _ _ hcond hp]
          by_cases hl : count + 1 ≥ limit
          · have : limit - count = 1 := by omega
            simp [hl, this, Spec.split, prependFirst]
          · obtain ⟨n, hn⟩ : ∃ n, limit - count = n + 2 := ⟨limit - count - 2, by omega⟩
            rw [if_neg hl, hn, spec_split_match sep rest (by rw [hr]; simp) hp]
            have hm' : (rest.drop sep.length).length ≤ m - 1 := by
              simp only [List.length_drop]; omega
            rw [splitStrLoop_eq_spec sep limit hsep (m - 1) _ [] (count + 1) hm' (by omega)]
            have : limit - (count + 1) = n + 1 := by omega
            rw [this, prependFirst_nil _ (spec_split_ne_nil sep _ _ (by omega))]
            simp [prependFirst]
        · have hp' : sep.isPrefixOf rest = false := Bool.eq_false_iff.mpr hp
          rw [hr] at hcond hp' ⊢
          rw [splitStrLoop_step _ _ _ _ _ _ hcond hp']
          have hm' : t.length ≤ m - 1 := by rw [hr] at hm; simp only [List.length_cons] at hm; omega
          rw [splitStrLoop_eq_spec sep limit hsep (m - 1) t (cur ++ [c]) count hm' hc]
          rw [spec_split_cons sep c t hp' _ (by omega)]
          rw [prependFirst_append _ _ _ (spec_split_ne_nil sep _ _ (by omega))]
termination_by m => m
decreasing_by
  all_goals simp_wf
  all_goals (have : 0 < rest.length := by rw [hr]; simp)
  all_goals omega

/-- `split(sep, str, limit)` for a non-empty separator is the recursive definition -/
theorem splitStr_eq_spec (sep s : Bytes) (limit : Nat) (hsep : sep ≠ []) :
    splitStr sep s limit = Spec.split sep limit s := by
  unfold splitStr
  by_cases h0 : limit = 0
  · simp [h0, Spec.split]
  · have he : sep.isEmpty = false := by
      cases sep with
      | nil => exact absurd rfl hsep
      | cons _ _ => rfl
    rw [if_neg h0, he]
    simp only [Bool.false_eq_true, if_false]
    rw [splitStrLoop_eq_spec sep limit hsep s.length s [] 0 (Nat.le_refl _) (by omega)]
    exact prependFirst_nil _ (spec_split_ne_nil sep _ _ (by omega))

/-! ### consequences of the recursive definition -/

/-- at most `limit` parts -/
theorem spec_split_length (sep : Bytes) : ∀ (n : Nat) (s : Bytes), (Spec.split sep n s).length ≤ n
  | 0, _ => by simp [Spec.split]
  | 1, _ => by simp [Spec.split]
  | n + 2, s => by
    simp only [Spec.split]
    cases Spec.firstOcc sep s with
    | none => simp
    | some i =>
      have := spec_split_length sep (n + 1) (s.drop (i + sep.length))
      simp only [List.length_cons]; omega

theorem firstOcc_spec (sep : Bytes) : ∀ (s : Bytes) (i : Nat), Spec.firstOcc sep s = some i →
    i ≤ s.length ∧ sep <+: s.drop i
  | [], i, h => by simp [Spec.firstOcc] at h
  | c :: t, i, h => by
    simp only [Spec.firstOcc] at h
    by_cases hp : sep.isPrefixOf (c :: t) = true
    · simp only [hp, if_true, Option.some.injEq] at h
      subst h
      exact ⟨by omega, List.isPrefixOf_iff_prefix.mp hp⟩
    · have hp' : sep.isPrefixOf (c :: t) = false := Bool.eq_false_iff.mpr hp
      simp only [hp', Bool.false_eq_true, if_false] at h
      cases ho : Spec.firstOcc sep t with
      | none => rw [ho] at h; simp at h
      | some j =>
        rw [ho] at h
        simp only [Option.map_some, Option.some.injEq] at h
        subst h
        obtain ⟨h1, h2⟩ := firstOcc_spec sep t j ho
        exact ⟨by simp only [List.length_cons]; omega, by simpa using h2⟩

/-- joining the parts with the separator gives the text back -/
theorem join_spec_split (sep : Bytes) : ∀ (n : Nat) (s : Bytes), 0 < n → join sep (Spec.split sep n s) = s
  | 0, _, h => by omega
  | 1, s, _ => by simp [Spec.split, join]
  | n + 2, s, _ => by
    simp only [Spec.split]
    cases ho : Spec.firstOcc sep s with
    | none => simp [join]
    | some i =>
      obtain ⟨hi, hp⟩ := firstOcc_spec sep s i ho
      simp only
      have hne := spec_split_ne_nil sep (n + 1) (s.drop (i + sep.length)) (by omega)
      cases hsp : Spec.split sep (n + 1) (s.drop (i + sep.length)) with
      | nil => exact absurd hsp hne
      | cons q qs =>
        rw [join_cons_cons, ← hsp, join_spec_split sep (n + 1) _ (by omega)]
        obtain ⟨t, ht⟩ := hp
        have hdrop : s.drop (i + sep.length) = t := by
          rw [← List.drop_drop, ← ht]; simp
        rw [hdrop, ht]
        exact List.take_append_drop i s

end TlxVerif.C19
