import TlxVerif.Model.C13Addr
import TlxVerif.Proofs.C13DAry
/-! The addressable heap: its loops compute the same array as the plain loops and keep
`handles_` the inverse of `heap_`. -/
namespace TlxVerif.C13

theorem wrH_eq_some {hd : Handles} {key : Nat} (val : Option Nat) (h : key < hd.size) :
    wrH hd key val = some (hd.set key val) := by simp [wrH, h]

theorem wrH_get {hd hd' : Handles} {key : Nat} {val : Option Nat} (h : wrH hd key val = some hd') (x : Nat) :
    hd'[x]? = if x = key then (if key < hd.size then some val else none) else hd[x]? := by
  unfold wrH at h
  split at h
  · rename_i hk
    cases h
    simp only [hk, if_true]
    rw [Array.getElem?_set]
    by_cases hx : key = x
    · subst hx; simp [hk]
    · have : ¬ x = key := fun e => hx e.symm
      simp [hx, this]
  · cases h

theorem wrH_size {hd hd' : Handles} {key : Nat} {val : Option Nat} (h : wrH hd key val = some hd') :
    hd'.size = hd.size := by
  unfold wrH at h
  split at h
  · cases h; simp
  · cases h

def Distinct {n : Nat} (b : Vector Nat n) : Prop :=
  ∀ i j (hi : i < n) (hj : j < n), b[i] = b[j] → i = j

/-- `handles_` is the inverse of the array `b` except for the value `v` sitting in the hole `k` -/
structure HoleInv {n : Nat} (b : Vector Nat n) (hd : Handles) (k v : Nat) : Prop where
  inb : ∀ i (hi : i < n), b[i] < hd.size
  fwd : ∀ i (hi : i < n), i ≠ k → hd[b[i]]? = some (some i)
  bwd : ∀ key pos, key ≠ v → hd[key]? = some (some pos) → ∃ h : pos < n, b[pos] = key ∧ pos ≠ k

/-- `handles_` is the inverse of `heap_`: present exactly for the stored keys, with their slot -/
structure AInv {n : Nat} (b : Vector Nat n) (hd : Handles) : Prop where
  inb : ∀ i (hi : i < n), b[i] < hd.size
  fwd : ∀ i (hi : i < n), hd[b[i]]? = some (some i)
  bwd : ∀ key pos, hd[key]? = some (some pos) → ∃ h : pos < n, b[pos] = key

theorem AInv.distinct {n : Nat} {b : Vector Nat n} {hd : Handles} (h : AInv b hd) : Distinct b := by
  intro i j hi hj e
  have h1 := h.fwd i hi
  have h2 := h.fwd j hj
  rw [e] at h1
  rw [h1] at h2
  simpa using h2

/-- closing the hole: after `handles_[v] = k` everything is consistent -/
theorem HoleInv.close {n : Nat} {b : Vector Nat n} {hd hd' : Handles} {k v : Nat} (hk : k < n)
    (hbk : b[k] = v) (hdist : Distinct b) (h : HoleInv b hd k v) (hw : wrH hd v (some k) = some hd') :
    AInv b hd' := by
  have hsz := wrH_size hw
  have hv : v < hd.size := hbk ▸ h.inb k hk
  constructor
  · intro i hi; rw [hsz]; exact h.inb i hi
  · intro i hi
    rw [wrH_get hw]
    by_cases hik : i = k
    · subst hik; simp [hbk, hv]
    · have : b[i] ≠ v := by
        intro e; rw [← hbk] at e; exact hik (hdist i k hi hk e)
      simp [this, h.fwd i hi hik]
  · intro key pos hkp
    rw [wrH_get hw] at hkp
    by_cases hkv : key = v
    · subst hkv
      simp [hv] at hkp
      subst hkp
      exact ⟨hk, hbk⟩
    · simp [hkv] at hkp
      obtain ⟨hp, e, _⟩ := h.bwd key pos hkv hkp
      exact ⟨hp, e⟩

/-- the sift-up loop of the addressable heap computes the array of the plain loop and leaves
`handles_` the inverse of it -/
theorem aSiftUpFrom_spec (lt : Nat → Nat → Bool) (d v : Nat) {n : Nat} (a : Vector Nat n) (hd : Handles)
    (k : Nat) (hk : k < n) (hdist : Distinct (a.set k v)) (h : HoleInv (a.set k v) hd k v) :
    ∃ hd', aSiftUpFrom lt d v a hd k hk = some (siftUpFrom lt d v a k hk, hd') ∧
      AInv (siftUpFrom lt d v a k hk) hd' ∧ hd'.size = hd.size := by
  fun_induction siftUpFrom lt d v a k hk generalizing hd with
  | case1 a hk =>
    have hv : v < hd.size := by have := h.inb 0 hk; simpa using this
    rw [aSiftUpFrom]
    simp only [dite_true, wrH_eq_some _ hv, Option.map_some]
    exact ⟨_, rfl, h.close hk (by simp) hdist (wrH_eq_some _ hv), by simp⟩
  | case2 a k hk h0 hp hlt =>
    have hv : v < hd.size := by have := h.inb k hk; simpa using this
    rw [aSiftUpFrom]
    simp only [h0, dite_false, hlt, if_true, wrH_eq_some _ hv, Option.map_some]
    exact ⟨_, rfl, h.close hk (by simp) hdist (wrH_eq_some _ hv), by simp⟩
  | case3 a k hk h0 hp hlt ih =>
    have hpk : parent d k < k := parent_lt (by omega)
    have hx : a[parent d k] < hd.size := by
      have := h.inb (parent d k) hp
      have e : ¬ k = parent d k := by omega
      simpa [Vector.getElem_set, e] using this
    rw [aSiftUpFrom]
    simp only [h0, dite_false, hlt, Bool.false_eq_true, if_false, wrH_eq_some _ hx]
    have hw : wrH hd a[parent d k] (some k) = some (hd.set (a[parent d k]) (some k)) := wrH_eq_some _ hx
    have hswap := set_set_eq_swap a k (parent d k) v hk hp (by omega)
    have hdist' : Distinct ((a.set k a[parent d k]).set (parent d k) v) := by
      rw [hswap]
      intro i j hi hj e
      have := hdist (if i = k then parent d k else if i = parent d k then k else i)
        (if j = k then parent d k else if j = parent d k then k else j) (by grind) (by grind)
        (by simp only [Vector.getElem_swap] at e; grind)
      grind
    obtain ⟨hd', e1, e2, e3⟩ := ih (hd.set (a[parent d k]) (some k)) hdist' (by
      constructor
      · intro i hi
        have := h.inb (if i = k then parent d k else if i = parent d k then k else i) (by grind)
        simp only [Array.size_set]
        grind
      · intro i hi hip
        rw [wrH_get hw]
        by_cases hik : i = k
        · subst hik; simp [Vector.getElem_set, hx]; grind
        · have h1 := h.fwd i hi hik
          have hne : a[i] ≠ a[parent d k] := by
            intro e
            have := hdist i (parent d k) hi hp (by grind)
            omega
          grind
      · intro key pos hkv hkp
        rw [wrH_get hw] at hkp
        by_cases hkx : key = a[parent d k]
        · subst hkx
          simp [hx] at hkp
          subst hkp
          exact ⟨hk, by grind, by omega⟩
        · simp [hkx] at hkp
          obtain ⟨hpn, e, hpk'⟩ := h.bwd key pos hkv hkp
          refine ⟨hpn, ?_, ?_⟩
          · grind
          · intro e2; subst e2; grind)
    exact ⟨hd', e1, e2, by simpa using e3⟩


/-- moving the slot `j` into the hole `k` (and writing its handle) keeps the hole invariant -/
theorem HoleInv.move {n : Nat} (a : Vector Nat n) (hd : Handles) (k j v : Nat) (hk : k < n) (hj : j < n) (hjk : j ≠ k)
    (hdist : Distinct (a.set k v)) (h : HoleInv (a.set k v) hd k v) :
    a[j] < hd.size ∧
    Distinct ((a.set k a[j]).set j v) ∧
    HoleInv ((a.set k a[j]).set j v) (hd.set (a[j]) (some k) (by
      have := h.inb j hj; have e : ¬ k = j := fun e => hjk e.symm
      simpa [Vector.getElem_set, e] using this)) j v := by
  have hx : a[j] < hd.size := by
    have := h.inb j hj
    have e : ¬ k = j := fun e => hjk e.symm
    simpa [Vector.getElem_set, e] using this
  have hw : wrH hd a[j] (some k) = some (hd.set (a[j]) (some k)) := wrH_eq_some _ hx
  have hswap := set_set_eq_swap a k j v hk hj hjk
  refine ⟨hx, ?_, ?_⟩
  · rw [hswap]
    intro i i' hi hi' e
    have := hdist (if i = k then j else if i = j then k else i)
      (if i' = k then j else if i' = j then k else i') (by grind) (by grind)
      (by simp only [Vector.getElem_swap] at e; grind)
    grind
  · constructor
    · intro i hi
      have := h.inb (if i = k then j else if i = j then k else i) (by grind)
      simp only [Array.size_set]
      grind
    · intro i hi hip
      rw [wrH_get hw]
      by_cases hik : i = k
      · subst hik; simp [Vector.getElem_set, hx]; grind
      · have h1 := h.fwd i hi hik
        have hne : a[i] ≠ a[j] := by
          intro e
          have := hdist i j hi hj (by grind)
          omega
        grind
    · intro key pos hkv hkp
      rw [wrH_get hw] at hkp
      by_cases hkx : key = a[j]
      · subst hkx
        simp [hx] at hkp
        subst hkp
        exact ⟨hk, by grind, fun e => hjk e.symm⟩
      · simp [hkx] at hkp
        obtain ⟨hpn, e, hpk'⟩ := h.bwd key pos hkv hkp
        refine ⟨hpn, ?_, ?_⟩
        · grind
        · intro e2; subst e2; grind

theorem aSiftDownFrom_spec (lt : Nat → Nat → Bool) (d : Nat) (hd0 : 0 < d) (v : Nat) {n : Nat} (a : Vector Nat n)
    (hd : Handles) (k : Nat) (hk : k < n) (hdist : Distinct (a.set k v)) (h : HoleInv (a.set k v) hd k v) :
    ∃ hd', aSiftDownFrom lt d hd0 v a hd k hk = some (siftDownFrom lt d hd0 v a k hk, hd') ∧
      AInv (siftDownFrom lt d hd0 v a k hk) hd' ∧ hd'.size = hd.size := by
  fun_induction siftDownFrom lt d hd0 v a k hk generalizing hd with
  | case1 a k hk hl c hlt ih =>
    have hck : k < c.1 := by have := c.2.1; have := @left_gt d k hd0; omega
    obtain ⟨hx, hdist', hinv'⟩ := HoleInv.move a hd k c.1 v hk c.2.2 (by omega) hdist h
    obtain ⟨hd', e1, e2, e3⟩ := ih _ hdist' hinv'
    rw [aSiftDownFrom]
    have hlt' : lt (a[(minChild lt d a k hl).1]'((minChild lt d a k hl).2.2)) v = true := hlt
    have hx' : a[(minChild lt d a k hl).1]'((minChild lt d a k hl).2.2) < hd.size := hx
    simp only [hl, dite_true, hlt', if_true, wrH_eq_some _ hx']
    exact ⟨hd', e1, e2, by simpa using e3⟩
  | case2 a k hk hl c hlt =>
    have hv : v < hd.size := by have := h.inb k hk; simpa using this
    rw [aSiftDownFrom]
    have hlt' : ¬ lt (a[(minChild lt d a k hl).1]'((minChild lt d a k hl).2.2)) v = true := hlt
    simp only [hl, dite_true, hlt', if_false, wrH_eq_some _ hv, Option.map_some]
    exact ⟨_, rfl, h.close hk (by simp) hdist (wrH_eq_some _ hv), by simp⟩
  | case3 a k hk hl =>
    have hv : v < hd.size := by have := h.inb k hk; simpa using this
    rw [aSiftDownFrom]
    simp only [hl, dite_false, wrH_eq_some _ hv, Option.map_some]
    exact ⟨_, rfl, h.close hk (by simp) hdist (wrH_eq_some _ hv), by simp⟩

/-- opening a hole at `k` in a consistent state -/
theorem AInv.open {n : Nat} {b : Vector Nat n} {hd : Handles} (h : AInv b hd) (k : Nat) (hk : k < n) :
    Distinct (b.set k b[k]) ∧ HoleInv (b.set k b[k]) hd k b[k] := by
  rw [set_self]
  refine ⟨h.distinct, h.inb, fun i hi _ => h.fwd i hi, ?_⟩
  intro key pos hkv hkp
  obtain ⟨hp, e⟩ := h.bwd key pos hkp
  exact ⟨hp, e, fun e2 => by subst e2; exact hkv e.symm⟩

theorem aSiftUp_spec (lt : Nat → Nat → Bool) (d : Nat) {n : Nat} (a : Vector Nat n) (hd : Handles)
    (k : Nat) (hk : k < n) (h : AInv a hd) :
    ∃ hd', aSiftUp lt d a hd k hk = some (siftUp lt d a k hk, hd') ∧ AInv (siftUp lt d a k hk) hd' ∧
      hd'.size = hd.size := by
  obtain ⟨h1, h2⟩ := h.open k hk
  exact aSiftUpFrom_spec lt d a[k] a hd k hk h1 h2

theorem aSiftDown_spec (lt : Nat → Nat → Bool) (d : Nat) (hd0 : 0 < d) {n : Nat} (a : Vector Nat n) (hd : Handles)
    (k : Nat) (hk : k < n) (h : AInv a hd) :
    ∃ hd', aSiftDown lt d hd0 a hd k hk = some (siftDown lt d hd0 a k hk, hd') ∧
      AInv (siftDown lt d hd0 a k hk) hd' ∧ hd'.size = hd.size := by
  obtain ⟨h1, h2⟩ := h.open k hk
  exact aSiftDownFrom_spec lt d hd0 a[k] a hd k hk h1 h2


/-! ### interface level -/

theorem growH_size (hd : Handles) (m : Nat) : (growH hd m).size = max hd.size m := by
  simp [growH]; omega

theorem growH_get (hd : Handles) (m x : Nat) :
    (growH hd m)[x]? = if x < hd.size then hd[x]? else if x < m then some none else none := by
  unfold growH
  rw [Array.getElem?_append]
  split
  · rfl
  · rename_i hx
    rw [Array.getElem?_replicate]
    by_cases h2 : x < m
    · have : x - hd.size < m - hd.size := by omega
      simp [this, h2]
    · have : ¬ x - hd.size < m - hd.size := by omega
      simp [this, h2]

/-- consistency of the two members -/
def AOk (s : AH) : Prop := AInv (n := s.heap.size) ⟨s.heap, rfl⟩ s.handles

theorem aok_toArray {n : Nat} (v : Vector Nat n) (hd : Handles) :
    AOk { heap := v.toArray, handles := hd } ↔ AInv v hd := by
  rcases v with ⟨arr, rfl⟩
  exact Iff.rfl

/-- `contains(key)` answers exactly whether `key` is stored -/
theorem contains_iff (s : AH) (h : AOk s) (key : Nat) : s.contains key = true ↔ key ∈ s.heap := by
  unfold AH.contains
  constructor
  · intro hc
    split at hc
    · rename_i pos hk
      obtain ⟨hp, e⟩ := h.bwd key pos hk
      exact Array.mem_iff_getElem.mpr ⟨pos, hp, e⟩
    · cases hc
  · intro hm
    obtain ⟨i, hi, rfl⟩ := Array.mem_iff_getElem.mp hm
    have := h.fwd i hi
    simp only [Vector.getElem_mk] at this
    simp [this]

/-- **push** of an absent key: succeeds, stays consistent, and `heap_` is what the plain heap computes -/
theorem apush_spec (lt : Nat → Nat → Bool) (d : Nat) (s : AH) (key : Nat) (h : AOk s)
    (hc : s.contains key = false) :
    ∃ s', s.push lt d key = some s' ∧ AOk s' ∧ s'.heap = push lt d s.heap key := by
  unfold AH.push
  simp only [hc, Bool.false_eq_true, if_false]
  have hnot : ∀ pos, s.handles[key]? ≠ some (some pos) := by
    intro pos hk
    have : s.contains key = true := by simp [AH.contains, hk]
    simp [hc] at this
  generalize hhs : (if key ≥ s.handles.size then growH s.handles (key + 1) else s.handles) = hs
  have hsz : key < hs.size := by
    rw [← hhs]; split
    · rw [growH_size]; omega
    · omega
  have hget : ∀ x, x ≠ key → (∀ pos, hs[x]? = some (some pos) ↔ s.handles[x]? = some (some pos)) := by
    intro x hx pos
    rw [← hhs]; split
    · rw [growH_get]
      by_cases h1 : x < s.handles.size
      · simp [h1]
      · have : s.handles[x]? = none := Array.getElem?_eq_none (by omega)
        simp [h1, this]
    · rfl
  have hge : s.handles.size ≤ hs.size := by
    rw [← hhs]; split
    · rw [growH_size]; omega
    · omega
  rw [wrH_eq_some _ hsz]
  simp only
  have hinv : AInv (n := s.heap.size + 1) ⟨s.heap.push key, by simp⟩ (hs.set key (some s.heap.size)) := by
    have hw : wrH hs key (some s.heap.size) = some (hs.set key (some s.heap.size)) := wrH_eq_some _ hsz
    constructor
    · intro i hi
      simp only [Vector.getElem_mk, Array.size_set]
      by_cases hil : i < s.heap.size
      · rw [Array.getElem_push_lt hil]
        have := h.inb i hil
        simp only [Vector.getElem_mk] at this
        omega
      · have : i = s.heap.size := by omega
        subst this; simpa using hsz
    · intro i hi
      simp only [Vector.getElem_mk]
      rw [wrH_get hw]
      by_cases hil : i < s.heap.size
      · rw [Array.getElem_push_lt hil]
        have hf := h.fwd i hil
        simp only [Vector.getElem_mk] at hf
        have hne : s.heap[i] ≠ key := by
          intro e; rw [e] at hf; exact hnot _ hf
        simp only [hne, if_false]
        exact (hget _ hne i).mpr hf
      · have : i = s.heap.size := by omega
        subst this; simp [hsz]
    · intro k' pos hk
      rw [wrH_get hw] at hk
      by_cases hkk : k' = key
      · subst hkk
        simp [hsz] at hk
        subst hk
        exact ⟨by simp, by simp⟩
      · simp only [hkk, if_false] at hk
        obtain ⟨hp, e⟩ := h.bwd k' pos ((hget _ hkk pos).mp hk)
        refine ⟨by omega, ?_⟩
        simp only [Vector.getElem_mk] at e ⊢
        rw [Array.getElem_push_lt hp]; exact e
  obtain ⟨hd', e1, e2, _⟩ := aSiftUp_spec lt d (n := s.heap.size + 1) ⟨s.heap.push key, by simp⟩ _ s.heap.size
    (Nat.lt_succ_self _) hinv
  rw [e1]
  exact ⟨_, rfl, (aok_toArray _ _).mpr e2, rfl⟩


/-- the first half of `remove`: swap with the last slot, fix both handles, `pop_back` -/
theorem remove_mid (heap : Array Nat) (handles : Handles) (hok : AInv (n := heap.size) ⟨heap, rfl⟩ handles)
    (h : Nat) (hh : h < heap.size) (hs1 hs2 : Handles)
    (e1 : wrH handles ((heap.swap h (heap.size - 1) hh (by omega))[h]'(by simp; omega)) (some h) = some hs1)
    (e2 : wrH hs1 ((heap.swap h (heap.size - 1) hh (by omega))[heap.size - 1]'(by simp; omega)) none = some hs2) :
    AInv (n := (heap.swap h (heap.size - 1) hh (by omega)).pop.size)
      ⟨(heap.swap h (heap.size - 1) hh (by omega)).pop, rfl⟩ hs2 := by
  have hdist := hok.distinct
  have hlast : heap.size - 1 < heap.size := by omega
  have g1 : (heap.swap h (heap.size - 1) hh (by omega))[h]'(by simp; omega) = heap[heap.size - 1] := by
    simp [Array.getElem_swap]
  have g2 : (heap.swap h (heap.size - 1) hh (by omega))[heap.size - 1]'(by simp; omega) = heap[h] := by
    simp [Array.getElem_swap]
  rw [g1] at e1
  rw [g2] at e2
  have hsz1 := wrH_size e1
  have hsz2 := wrH_size e2
  have hy : heap[heap.size - 1] < handles.size := by simpa using hok.inb (heap.size - 1) hlast
  have hkey : heap[h] < handles.size := by simpa using hok.inb h hh
  have hget : ∀ x, hs2[x]? = if x = heap[h] then some none
      else if x = heap[heap.size - 1] then some (some h) else handles[x]? := by
    intro x
    rw [wrH_get e2, wrH_get e1]
    by_cases hx : x = heap[h]
    · simp [hx, hsz1, hkey]
    · simp [hx, hy]
  have hinj : ∀ i j (hi : i < heap.size) (hj : j < heap.size), heap[i] = heap[j] → i = j := by
    intro i j hi hj e
    exact hdist i j hi hj (by simpa using e)
  have hpsz : (heap.swap h (heap.size - 1) hh (by omega)).pop.size = heap.size - 1 := by simp
  constructor
  · intro i hi
    have hi' : i < heap.size - 1 := by omega
    simp only [Vector.getElem_mk, Array.getElem_pop, Array.getElem_swap]
    rw [hsz2, hsz1]
    split
    · exact hy
    · split
      · exact hkey
      · have := hok.inb i (by omega)
        simp only [Vector.getElem_mk] at this
        exact this
  · intro i hi
    have hi' : i < heap.size - 1 := by omega
    simp only [Vector.getElem_mk, Array.getElem_pop, Array.getElem_swap]
    rw [hget]
    by_cases hih : i = h
    · subst hih
      have hne : heap[heap.size - 1] ≠ heap[i] := fun e => by have := hinj _ _ hlast hh e; omega
      simp [hne]
    · have e3 : ¬ i = heap.size - 1 := by omega
      simp only [hih, e3, if_false]
      have hne1 : heap[i] ≠ heap[h] := fun e => hih (hinj _ _ (by omega) hh e)
      have hne2 : heap[i] ≠ heap[heap.size - 1] := fun e => e3 (hinj _ _ (by omega) hlast e)
      simp only [hne1, hne2, if_false]
      have := hok.fwd i (by omega)
      simp only [Vector.getElem_mk] at this
      exact this
  · intro k' pos hk
    rw [hget] at hk
    by_cases hk1 : k' = heap[h]
    · simp [hk1] at hk
    · simp only [hk1, if_false] at hk
      by_cases hk2 : k' = heap[heap.size - 1]
      · simp only [hk2, if_true, Option.some.injEq] at hk
        have hne : h ≠ heap.size - 1 := by
          intro e; apply hk1; rw [hk2]; simp [e]
        subst hk
        refine ⟨by omega, ?_⟩
        simp only [Vector.getElem_mk, Array.getElem_pop, Array.getElem_swap, if_true]
        exact hk2.symm
      · simp only [hk2, if_false] at hk
        obtain ⟨hp, e⟩ := hok.bwd k' pos hk
        simp only [Vector.getElem_mk] at e
        have hne1 : pos ≠ h := fun e' => hk1 (by subst e'; exact e.symm)
        have hne2 : pos ≠ heap.size - 1 := fun e' => hk2 (by subst e'; exact e.symm)
        refine ⟨by omega, ?_⟩
        simp only [Vector.getElem_mk, Array.getElem_pop, Array.getElem_swap, hne1, hne2, if_false]
        exact e


theorem siftUp_perm (lt : Nat → Nat → Bool) (d : Nat) {n : Nat} (a : Vector Nat n) (k : Nat) (hk : k < n) :
    (siftUp lt d a k hk).Perm a := by
  have := siftUpFrom_perm lt d a[k] a k hk
  rwa [set_self] at this

theorem siftDown_perm (lt : Nat → Nat → Bool) (d : Nat) (hd : 0 < d) {n : Nat} (a : Vector Nat n) (k : Nat) (hk : k < n) :
    (siftDown lt d hd a k hk).Perm a := by
  have := siftDownFrom_perm lt d hd a[k] a k hk
  rwa [set_self] at this

/-- the conditional re-sift of slot `h` used by `remove` and `update` -/
theorem siftAt_spec {lt : Nat → Nat → Bool} (wo : WeakOrd lt) (d : Nat) (hd0 : 0 < d) {m : Nat} (v : Vector Nat m)
    (hs : Handles) (h : Nat) (hlt : h < m) (hinv : AInv v hs) (hex : HeapExcept lt d v h hlt) :
    ∃ r, (if (if hz : h = 0 then false
              else lt v[h] (v[parent d h]'(Nat.lt_trans (parent_lt (Nat.pos_of_ne_zero hz)) hlt)))
          then aSiftUp lt d v hs h hlt else aSiftDown lt d hd0 v hs h hlt) = some r ∧
      AInv r.1 r.2 ∧ HeapOrd lt d r.1 ∧ r.1.Perm v ∧ r.2.size = hs.size := by
  by_cases hz : h = 0
  · subst hz
    simp only [dite_true, Bool.false_eq_true, if_false]
    obtain ⟨hd', e1, e2, e3⟩ := aSiftDown_spec lt d hd0 v hs 0 hlt hinv
    refine ⟨_, e1, e2, ?_, siftDown_perm lt d hd0 v 0 hlt, e3⟩
    exact siftAt_down wo d hd0 v 0 hlt hex (by simp)
  · simp only [hz, dite_false]
    by_cases hc : lt v[h] (v[parent d h]'(Nat.lt_trans (parent_lt (Nat.pos_of_ne_zero hz)) hlt)) = true
    · simp only [hc, if_true]
      obtain ⟨hd', e1, e2, e3⟩ := aSiftUp_spec lt d v hs h hlt hinv
      refine ⟨_, e1, e2, ?_, siftUp_perm lt d v h hlt, e3⟩
      exact siftAt_up wo d v h hlt hex (Nat.pos_of_ne_zero hz) hc
    · simp only [hc, Bool.false_eq_true, if_false]
      obtain ⟨hd', e1, e2, e3⟩ := aSiftDown_spec lt d hd0 v hs h hlt hinv
      refine ⟨_, e1, e2, ?_, siftDown_perm lt d hd0 v h hlt, e3⟩
      exact siftAt_down wo d hd0 v h hlt hex (fun hh => hc hh.2)

/-- **remove(key)** of a stored key: succeeds, stays consistent and in heap order, and removes
exactly `key` -/
theorem aremove_spec {lt : Nat → Nat → Bool} (wo : WeakOrd lt) (d : Nat) (hd0 : 0 < d) (s : AH) (key : Nat)
    (hok : AOk s) (hheap : HeapOrd lt d (n := s.heap.size) ⟨s.heap, rfl⟩) (hc : s.contains key = true) :
    ∃ s', s.remove lt d hd0 key = some s' ∧ AOk s' ∧ HeapOrd lt d (n := s'.heap.size) ⟨s'.heap, rfl⟩ ∧
      (s'.heap.push key).Perm s.heap := by
  obtain ⟨heap, handles⟩ := s
  simp only at hok hheap ⊢
  have hok' : AInv (n := heap.size) ⟨heap, rfl⟩ handles := hok
  unfold AH.contains at hc
  simp only at hc
  split at hc
  · rename_i h hkh
    obtain ⟨hh, hkey⟩ := hok'.bwd key h hkh
    simp only [Vector.getElem_mk] at hkey
    have hlast : heap.size - 1 < heap.size := by omega
    have g1 : (heap.swap h (heap.size - 1) hh hlast)[h]'(by simp; omega) = heap[heap.size - 1] := by
      simp [Array.getElem_swap]
    have g2 : (heap.swap h (heap.size - 1) hh hlast)[(heap.swap h (heap.size - 1) hh hlast).size - 1]'(by simp; omega)
        = heap[h] := by
      simp [Array.getElem_swap]
    have hy : heap[heap.size - 1] < handles.size := by
      have := hok'.inb (heap.size - 1) hlast; simp only [Vector.getElem_mk] at this; exact this
    have hk' : heap[h] < handles.size := by
      have := hok'.inb h hh; simp only [Vector.getElem_mk] at this; exact this
    have hw1 := wrH_eq_some (hd := handles) (some h) hy
    have hk'' : heap[h] < (handles.set (heap[heap.size - 1]) (some h)).size := by simpa using hk'
    have hw2 := wrH_eq_some (hd := handles.set (heap[heap.size - 1]) (some h)) none hk''
    have hmid := remove_mid heap handles hok' h hh _ _ (by rw [g1]; exact hw1)
      (by
        have : (heap.swap h (heap.size - 1) hh hlast)[heap.size - 1]'(by simp; omega) = heap[h] := by
          simp [Array.getElem_swap]
        rw [this]; exact hw2)
    -- the array after swap + pop_back
    have hpp := array_eq_pop_push (heap.swap h (heap.size - 1) hh hlast) (by simp; omega)
    rw [g2, hkey] at hpp
    have hswp : (heap.swap h (heap.size - 1) hh hlast).Perm heap := Array.swap_perm hh hlast
    have hperm : ((heap.swap h (heap.size - 1) hh hlast).pop.push key).Perm heap := by rw [← hpp]; exact hswp
    have hget : ∀ i (hi : i < heap.size - 1),
        ((heap.swap h (heap.size - 1) hh hlast).pop)[i]'(by simpa using hi) =
          if i = h then heap[heap.size - 1] else heap[i] := by
      intro i hi
      simp only [Array.getElem_pop, Array.getElem_swap]
      have : ¬ i = heap.size - 1 := by omega
      simp [this]
    unfold AH.remove
    simp only [hkh, hh, dite_true, g1, g2, hw1, hw2]
    split
    · rename_i hlt
      have hlt' : h < heap.size - 1 := by simpa using hlt
      have hex : HeapExcept lt d (m := (heap.swap h (heap.size - 1) hh hlast).pop.size)
          ⟨(heap.swap h (heap.size - 1) hh hlast).pop, rfl⟩ h hlt := by
        constructor
        · intro i hi hi0 hih hp
          have hi' : i < heap.size - 1 := by simpa using hi
          have hpi : parent d i < i := parent_lt hi0
          have := hheap i (by omega) hi0
          simp only [atParent, Vector.getElem_mk] at this ⊢
          rw [hget i hi', hget (parent d i) (by omega)]
          simp only [hih, hp, if_false]
          exact this
        · intro h0 c hc' hc0 hp
          have hc'' : c < heap.size - 1 := by simpa using hc'
          have hph : parent d h < h := parent_lt h0
          have hpc : parent d c < c := parent_lt hc0
          have h1 := hheap c (by omega) hc0
          have h2 := hheap h hh h0
          simp only [atParent, Vector.getElem_mk] at h1 h2 ⊢
          rw [hget c hc'', hget (parent d h) (by omega)]
          have e1 : ¬ c = h := by omega
          have e2 : ¬ parent d h = h := by omega
          simp only [e1, e2, if_false]
          simp only [hp] at h1
          exact wo.le_trans h2 h1
      obtain ⟨r, e1, e2, e3, e4, _⟩ := siftAt_spec wo d hd0
        (⟨(heap.swap h (heap.size - 1) hh hlast).pop, rfl⟩ : Vector Nat (heap.swap h (heap.size - 1) hh hlast).pop.size)
        _ h hlt hmid hex
      rw [e1]
      refine ⟨_, rfl, (aok_toArray _ _).mpr e2, ?_, ?_⟩
      · exact (heapOrd_toArray r.1).mpr e3
      · have := Vector.perm_iff_toArray_perm.mp e4
        exact (Array.Perm.push key this).trans hperm
    · rename_i hlt
      have hlt' : ¬ h < heap.size - 1 := by simpa using hlt
      have hhl : h = heap.size - 1 := by omega
      refine ⟨_, rfl, hmid, ?_, hperm⟩
      intro i hi hi0
      have hi' : i < heap.size - 1 := by simpa using hi
      have hpi : parent d i < i := parent_lt hi0
      have := hheap i (by omega) hi0
      simp only [atParent, Vector.getElem_mk] at this ⊢
      rw [hget i hi', hget (parent d i) (by omega)]
      have e1 : ¬ i = h := by omega
      have e2 : ¬ parent d i = h := by omega
      simp only [e1, e2, if_false]
      exact this
  · cases hc


/-- when only the priority of the key in slot `h` changed, all other pairs keep their order -/
theorem heapExcept_of_changed_key {lt lt' : Nat → Nat → Bool} (wo : WeakOrd lt) (d : Nat) {m : Nat}
    (b : Vector Nat m) (h : Nat) (hh : h < m) (hheap : HeapOrd lt d b) (hdist : Distinct b)
    (hagree : ∀ x y, x ≠ b[h] → y ≠ b[h] → lt' x y = lt x y) : HeapExcept lt' d b h hh := by
  have hne : ∀ i (hi : i < m), i ≠ h → b[i] ≠ b[h] := fun i hi hih e => hih (hdist i h hi hh e)
  constructor
  · intro i hi hi0 hih hp
    have hpi : parent d i < i := parent_lt hi0
    unfold atParent
    rw [hagree _ _ (hne i hi hih) (hne (parent d i) (by omega) hp)]
    exact hheap i hi hi0
  · intro h0 c hc hc0 hp
    have hph : parent d h < h := parent_lt h0
    have hpc : parent d c < c := parent_lt hc0
    unfold atParent
    rw [hagree _ _ (hne c hc (by omega)) (hne (parent d h) (by omega) (by omega))]
    have h1 := hheap c hc hc0
    have h2 := hheap h hh h0
    simp only [atParent, hp] at h1 h2
    exact wo.le_trans h2 h1

/-- **update(key)** of a stored key whose priority changed: succeeds, stays consistent, restores the
heap order, keeps the stored keys -/
theorem aupdate_present_spec {lt : Nat → Nat → Bool} (wo : WeakOrd lt) (d : Nat) (hd0 : 0 < d) (s : AH) (key h : Nat)
    (hok : AOk s) (hkh : s.handles[key]? = some (some h))
    (hex : ∀ hh : h < s.heap.size, HeapExcept lt d (m := s.heap.size) ⟨s.heap, rfl⟩ h hh) :
    ∃ s', s.update lt d hd0 key = some s' ∧ AOk s' ∧ HeapOrd lt d (n := s'.heap.size) ⟨s'.heap, rfl⟩ ∧
      s'.heap.Perm s.heap := by
  obtain ⟨hh, _⟩ := hok.bwd key h hkh
  unfold AH.update
  simp only [hkh, hh, dite_true]
  obtain ⟨r, e1, e2, e3, e4, _⟩ := siftAt_spec wo d hd0 (⟨s.heap, rfl⟩ : Vector Nat s.heap.size) s.handles h hh hok (hex hh)
  rw [e1]
  exact ⟨_, rfl, (aok_toArray _ _).mpr e2, (heapOrd_toArray r.1).mpr e3, Vector.perm_iff_toArray_perm.mp e4⟩

/-- **update(key)** of an absent key is `push(key)` -/
theorem aupdate_absent (lt : Nat → Nat → Bool) (d : Nat) (hd0 : 0 < d) (s : AH) (key : Nat)
    (hc : s.contains key = false) : s.update lt d hd0 key = s.push lt d key := by
  unfold AH.update
  unfold AH.contains at hc
  split
  · rename_i h hkh; simp [hkh] at hc
  · rfl

/-- `clear()` -/
theorem aclear_spec (s : AH) : AOk s.clear := by
  unfold AH.clear AOk
  constructor
  · intro i hi; simp at hi
  · intro i hi; simp at hi
  · intro key pos hk
    simp only [Array.getElem?_replicate] at hk
    split at hk <;> simp at hk


/-! ### `heapify()` of the addressable heap: same array as the plain loops, and `max_key` bounds every key -/

theorem aMinChildFrom_spec (lt : Nat → Nat → Bool) {n : Nat} (a : Vector Nat n) (lo right : Nat) (hr : right ≤ n)
    (l : Nat) (c : { c : Nat // lo ≤ c ∧ c < n }) (hl : lo ≤ l) (mk : Nat) :
    (aMinChildFrom lt a lo right hr l c hl mk).1 = minChildFrom lt a lo right hr l c hl ∧
    mk ≤ (aMinChildFrom lt a lo right hr l c hl mk).2 ∧
    ∀ j (hj : j < n), l < j → j < right → a[j] ≤ (aMinChildFrom lt a lo right hr l c hl mk).2 := by
  fun_induction aMinChildFrom lt a lo right hr l c hl mk with
  | case1 l c hl mk h hl1 ih =>
    simp only [dite_eq_ite] at ih ⊢
    obtain ⟨i1, i2, i3⟩ := ih
    rw [minChildFrom]
    simp only [h, dite_true]
    refine ⟨i1, by omega, ?_⟩
    intro j hj hlj hjr
    by_cases e : j = l + 1
    · subst e; omega
    · exact i3 j hj (by omega) hjr
  | case2 l c hl mk h =>
    rw [minChildFrom]
    simp only [h, dite_false]
    exact ⟨by first | rfl | trivial, Nat.le_refl _, fun j hj h1 h2 => by omega⟩

theorem aHeapifyDown_spec (lt : Nat → Nat → Bool) (d : Nat) (hd : 0 < d) (v : Nat) {n : Nat} (h2 : 2 ≤ n)
    (a : Vector Nat n) (cur : Nat) (hcur : cur ≤ (n - 2) / d) (mk : Nat) (hv : v ≤ mk) :
    (aHeapifyDown lt d hd v h2 a cur hcur mk).1 = heapifyDown lt d hd v h2 a cur hcur ∧
    mk ≤ (aHeapifyDown lt d hd v h2 a cur hcur mk).2 ∧
    (∀ j (hj : j < n), (aHeapifyDown lt d hd v h2 a cur hcur mk).1[j] = a[j] ∨
        (aHeapifyDown lt d hd v h2 a cur hcur mk).1[j] ≤ (aHeapifyDown lt d hd v h2 a cur hcur mk).2) ∧
    (∀ c (hc : c < n), 0 < c → parent d c = cur → a[c] ≤ (aHeapifyDown lt d hd v h2 a cur hcur mk).2) := by
  fun_induction aHeapifyDown lt d hd v h2 a cur hcur mk with
  | case1 a cur hcur mk hl hc r hlt hm ih =>
    have hr : r = aMinChildFrom lt a (left d cur) (min n (left d cur + d)) (Nat.min_le_left _ _) (left d cur)
            ⟨left d cur, Nat.le_refl _, hl⟩ (Nat.le_refl _) (max mk a[left d cur]) := rfl
    obtain ⟨m1, m2, m3⟩ := aMinChildFrom_spec lt a (left d cur) (min n (left d cur + d)) (Nat.min_le_left _ _)
      (left d cur) ⟨left d cur, Nat.le_refl _, hl⟩ (Nat.le_refl _) (max mk a[left d cur])
    rw [← hr] at m1 m2 m3
    obtain ⟨i1, i2, i3, i4⟩ := ih (by omega)
    have hread : ∀ c (hc : c < n), 0 < c → parent d c = cur → a[c] ≤ r.2 := by
      intro c hc hc0 hp
      have := (parent_eq_iff hd hc0 cur).mp hp
      by_cases e : c = left d cur
      · subst e; omega
      · exact m3 c hc (by omega) (by omega)
    have hrm : a[r.1.1]'(r.1.2.2) ≤ r.2 := by
      have h1 := r.1.2.1
      have : parent d r.1.1 = cur := by
        have hm1 : r.1 = minChild lt d a cur hl := m1
        rw [hm1]
        -- the chosen child is a child of `cur` (range of the scan)
        have hge := (minChild lt d a cur hl).2.1
        have hpos : 0 < (minChild lt d a cur hl).1 := by unfold left at hge; omega
        refine (parent_eq_iff hd hpos cur).mpr ⟨hge, ?_⟩
        have hs := (minChildFrom_bound lt a (left d cur) (min n (left d cur + d)) (Nat.min_le_left _ _) (left d cur)
          ⟨left d cur, Nat.le_refl _, hl⟩ (Nat.le_refl _) (by omega) (Nat.le_refl _))
        unfold minChild; omega
      exact hread _ r.1.2.2 (by have := @left_gt d cur hd; omega) this
    rw [heapifyDown]
    have hmc : minChild lt d a cur hl = r.1 := m1.symm
    simp only [hmc, hlt, if_true, hm, dite_true]
    refine ⟨i1, by omega, ?_, fun c hc hc0 hp => Nat.le_trans (hread c hc hc0 hp) i2⟩
    intro j hj
    rcases i3 j hj with e | e
    · by_cases hjc : j = cur
      · subst hjc
        right
        rw [e]; simp only [Vector.getElem_set_self]; omega
      · left; rw [e]; simp [Vector.getElem_set, Ne.symm hjc]
    · right; exact e
  | case2 a cur hcur mk hl hc r hlt hm =>
    have hr : r = aMinChildFrom lt a (left d cur) (min n (left d cur + d)) (Nat.min_le_left _ _) (left d cur)
            ⟨left d cur, Nat.le_refl _, hl⟩ (Nat.le_refl _) (max mk a[left d cur]) := rfl
    obtain ⟨m1, m2, m3⟩ := aMinChildFrom_spec lt a (left d cur) (min n (left d cur + d)) (Nat.min_le_left _ _)
      (left d cur) ⟨left d cur, Nat.le_refl _, hl⟩ (Nat.le_refl _) (max mk a[left d cur])
    rw [← hr] at m1 m2 m3
    have hread : ∀ c (hc : c < n), 0 < c → parent d c = cur → a[c] ≤ r.2 := by
      intro c hc hc0 hp
      have := (parent_eq_iff hd hc0 cur).mp hp
      by_cases e : c = left d cur
      · subst e; omega
      · exact m3 c hc (by omega) (by omega)
    have hrm : a[r.1.1]'(r.1.2.2) ≤ r.2 := by
      have : parent d r.1.1 = cur := by
        have hm1 : r.1 = minChild lt d a cur hl := m1
        rw [hm1]
        have hge := (minChild lt d a cur hl).2.1
        have hpos : 0 < (minChild lt d a cur hl).1 := by unfold left at hge; omega
        refine (parent_eq_iff hd hpos cur).mpr ⟨hge, ?_⟩
        have hs := (minChildFrom_bound lt a (left d cur) (min n (left d cur + d)) (Nat.min_le_left _ _) (left d cur)
          ⟨left d cur, Nat.le_refl _, hl⟩ (Nat.le_refl _) (by omega) (Nat.le_refl _))
        unfold minChild; omega
      exact hread _ r.1.2.2 (by have := r.1.2.1; have := @left_gt d cur hd; omega) this
    rw [heapifyDown]
    have hmc : minChild lt d a cur hl = r.1 := m1.symm
    simp only [hmc, hlt, if_true, hm, dite_false]
    refine ⟨by first | rfl | trivial, by omega, ?_, hread⟩
    intro j hj
    simp only [Vector.getElem_set]
    by_cases e1 : r.1.1 = j
    · right; simp [e1]; omega
    · by_cases e2 : cur = j
      · right; simp [e1, e2]; subst e2; exact hrm
      · left; simp [e1, e2]
  | case3 a cur hcur mk hl hc r hlt =>
    have hr : r = aMinChildFrom lt a (left d cur) (min n (left d cur + d)) (Nat.min_le_left _ _) (left d cur)
            ⟨left d cur, Nat.le_refl _, hl⟩ (Nat.le_refl _) (max mk a[left d cur]) := rfl
    obtain ⟨m1, m2, m3⟩ := aMinChildFrom_spec lt a (left d cur) (min n (left d cur + d)) (Nat.min_le_left _ _)
      (left d cur) ⟨left d cur, Nat.le_refl _, hl⟩ (Nat.le_refl _) (max mk a[left d cur])
    rw [← hr] at m1 m2 m3
    have hread : ∀ c (hc : c < n), 0 < c → parent d c = cur → a[c] ≤ r.2 := by
      intro c hc hc0 hp
      have := (parent_eq_iff hd hc0 cur).mp hp
      by_cases e : c = left d cur
      · subst e; omega
      · exact m3 c hc (by omega) (by omega)
    rw [heapifyDown]
    have hmc : minChild lt d a cur hl = r.1 := m1.symm
    simp only [hmc, hlt, if_false]
    refine ⟨by first | rfl | trivial, by omega, ?_, hread⟩
    intro j hj
    simp only [Vector.getElem_set]
    by_cases e2 : cur = j
    · right; simp [e2]; omega
    · left; simp [e2]


/-- the keys `max_key` has been compared with so far: the internal nodes from `i` on and everything
below them -/
def SeenBy (d : Nat) {n : Nat} (a : Vector Nat n) (i mk : Nat) : Prop :=
  ∀ j (hj : j < n), ((i ≤ j ∧ j ≤ (n - 2) / d) ∨ (0 < j ∧ i ≤ parent d j)) → a[j] ≤ mk

theorem aHeapifyLoop_spec (lt : Nat → Nat → Bool) (d : Nat) (hd : 0 < d) {n : Nat} (h2 : 2 ≤ n)
    (a : Vector Nat n) (i : Nat) (hi : i ≤ (n - 2) / d + 1) (mk : Nat) (hseen : SeenBy d a i mk) :
    (aHeapifyLoop lt d hd h2 a i hi mk).1 = heapifyLoop lt d hd h2 a i hi ∧
    ∀ j (hj : j < n), (aHeapifyLoop lt d hd h2 a i hi mk).1[j] ≤ (aHeapifyLoop lt d hd h2 a i hi mk).2 := by
  induction i generalizing a mk with
  | zero =>
    simp only [aHeapifyLoop, heapifyLoop]
    refine ⟨by first | rfl | trivial, ?_⟩
    intro j hj
    apply hseen j hj
    by_cases hj0 : j = 0
    · left; subst hj0; exact ⟨Nat.le_refl _, Nat.zero_le _⟩
    · right; exact ⟨by omega, Nat.zero_le _⟩
  | succ i ih =>
    have hcur : i ≤ (n - 2) / d := Nat.le_of_succ_le_succ hi
    have hin : i < n := Nat.lt_trans (left_gt hd) (left_le_of_le_last h2 hcur)
    obtain ⟨s1, s2, s3, s4⟩ := aHeapifyDown_spec lt d hd a[i] h2 a i hcur (max mk a[i]) (by omega)
    simp only [aHeapifyLoop, heapifyLoop]
    have := ih (aHeapifyDown lt d hd a[i] h2 a i hcur (max mk a[i])).1 (Nat.le_succ_of_le hcur)
      (aHeapifyDown lt d hd a[i] h2 a i hcur (max mk a[i])).2 (by
        intro j hj hcond
        rcases s3 j hj with e | e
        · rw [e]
          rcases hcond with ⟨h1, h3⟩ | ⟨h1, h3⟩
          · by_cases hji : j = i
            · subst hji; omega
            · have := hseen j hj (Or.inl ⟨by omega, h3⟩); omega
          · by_cases hpi : parent d j = i
            · exact s4 j hj h1 hpi
            · have := hseen j hj (Or.inr ⟨h1, by omega⟩); omega
        · exact e)
    obtain ⟨t1, t2⟩ := this
    exact ⟨t1.trans (by rw [s1]), t2⟩

/-- the final loop of `heapify`: writes the slot of every key -/
theorem setHandles_spec (l : List Nat) (i : Nat) (hs : Handles) (hb : ∀ k ∈ l, k < hs.size) (hnd : l.Nodup) :
    ∃ hs', setHandles l i hs = some hs' ∧ hs'.size = hs.size ∧
      (∀ p (hp : p < l.length), hs'[l[p]]? = some (some (i + p))) ∧
      (∀ x, x ∉ l → hs'[x]? = hs[x]?) := by
  induction l generalizing i hs with
  | nil => exact ⟨hs, rfl, rfl, fun p hp => by simp at hp, fun x _ => rfl⟩
  | cons k rest ih =>
    simp only [List.nodup_cons] at hnd
    have hk : k < hs.size := hb k (by simp)
    have hw := wrH_eq_some (hd := hs) (some i) hk
    obtain ⟨hs', e1, e2, e3, e4⟩ := ih (i + 1) (hs.set k (some i)) (by
      intro k' hk'; simp only [Array.size_set]; exact hb k' (by simp [hk'])) hnd.2
    refine ⟨hs', by simp only [setHandles, hw]; exact e1, by simpa using e2, ?_, ?_⟩
    · intro p hp
      cases p with
      | zero =>
        simp only [List.getElem_cons_zero, Nat.add_zero]
        rw [e4 k hnd.1]
        simp [hk]
      | succ p =>
        simp only [List.getElem_cons_succ]
        have := e3 p (by simpa using hp)
        rw [this]; congr 2; omega
    · intro x hx
      simp only [List.mem_cons, not_or] at hx
      rw [e4 x hx.2]
      have : ¬ k = x := fun e => hx.1 e.symm
      simp [Array.getElem?_set, this]

/-- `reset_handles()` -/
theorem resetHandles_spec (l : List Nat) (hs : Handles) (hb : ∀ k ∈ l, k < hs.size) :
    ∃ hs', resetHandles l hs = some hs' ∧ hs'.size = hs.size ∧
      ∀ x, hs'[x]? = if x ∈ l then some none else hs[x]? := by
  induction l generalizing hs with
  | nil => exact ⟨hs, rfl, rfl, fun x => by simp⟩
  | cons k rest ih =>
    have hk : k < hs.size := hb k (by simp)
    have hw := wrH_eq_some (hd := hs) none hk
    obtain ⟨hs', e1, e2, e3⟩ := ih (hs.set k none) (by
      intro k' hk'; simp only [Array.size_set]; exact hb k' (by simp [hk']))
    refine ⟨hs', by simp only [resetHandles, hw]; exact e1, by simpa using e2, ?_⟩
    intro x
    rw [e3]
    by_cases hxr : x ∈ rest
    · simp [hxr]
    · by_cases hxk : x = k
      · subst hxk; simp [hxr, hk]
      · have hkx : ¬ k = x := fun e => hxk e.symm
        simp [hxr, hxk, Array.getElem?_set, hkx]


theorem aHeapifyArr_spec (lt : Nat → Nat → Bool) (d : Nat) (hd : 0 < d) {n : Nat} (a : Vector Nat n) (mk0 : Nat)
    (h0 : ∀ h : 0 < n, a[0] ≤ mk0) :
    (aHeapifyArr lt d hd a mk0).1 = heapify lt d hd a ∧
    ∀ j (hj : j < n), (aHeapifyArr lt d hd a mk0).1[j] ≤ (aHeapifyArr lt d hd a mk0).2 := by
  unfold aHeapifyArr heapify
  by_cases h2 : 2 ≤ n
  · simp only [h2, dite_true]
    apply aHeapifyLoop_spec lt d hd h2 a ((n - 2) / d + 1) (Nat.le_refl _) mk0
    intro j hj hcond
    exfalso
    rcases hcond with ⟨h1, h3⟩ | ⟨h1, h3⟩
    · omega
    · have h4 : left d (parent d j) ≤ j := ((parent_eq_iff hd h1 _).mp rfl).1
      have h5 : ¬ (parent d j ≤ (n - 2) / d) := by omega
      rw [← left_lt_iff hd h2] at h5
      omega
  · simp only [h2, dite_false]
    refine ⟨trivial, ?_⟩
    intro j hj
    have hj0 : j = 0 := by omega
    subst hj0
    exact h0 hj

/-- **heapify()** (`update_all`, and the second half of `build_heap`): succeeds for distinct keys
when every present handle belongs to one of them; the result is consistent and `heap_` is what the
plain heap computes -/
theorem aheapify_spec (lt : Nat → Nat → Bool) (d : Nat) (hd : 0 < d) (s : AH) (hnd : s.heap.toList.Nodup)
    (hstale : ∀ key pos, s.handles[key]? = some (some pos) → key ∈ s.heap) :
    ∃ s', s.heapify lt d hd = some s' ∧ AOk s' ∧ s'.heap = build lt d hd s.heap := by
  unfold AH.heapify
  simp only
  obtain ⟨r1, r2⟩ := aHeapifyArr_spec lt d hd (⟨s.heap, rfl⟩ : Vector Nat s.heap.size)
    (match s.heap[0]? with | some x => x | none => 0) (by
      intro h
      simp [Array.getElem?_eq_getElem h])
  generalize aHeapifyArr lt d hd (⟨s.heap, rfl⟩ : Vector Nat s.heap.size)
    (match s.heap[0]? with | some x => x | none => 0) = r at r1 r2
  obtain ⟨v, mk⟩ := r
  simp only at r1 r2
  subst r1
  have hperm := (heapify_perm lt d hd (⟨s.heap, rfl⟩ : Vector Nat s.heap.size))
  have hnd' : (heapify lt d hd (⟨s.heap, rfl⟩ : Vector Nat s.heap.size)).toList.Nodup :=
    (Vector.Perm.toList hperm).nodup_iff.mpr hnd
  obtain ⟨hs', e1, e2, e3, e4⟩ := setHandles_spec (heapify lt d hd (⟨s.heap, rfl⟩ : Vector Nat s.heap.size)).toList 0
    (growH s.handles (mk + 1)) (by
      intro k hk
      obtain ⟨j, hj, rfl⟩ := List.mem_iff_getElem.mp hk
      have hj' : j < s.heap.size := by simpa using hj
      have : (heapify lt d hd (⟨s.heap, rfl⟩ : Vector Nat s.heap.size))[j] ≤ mk := r2 j hj'
      rw [growH_size]
      simp only [Vector.getElem_toList]
      omega) hnd'
  rw [e1]
  refine ⟨_, rfl, ?_, rfl⟩
  rw [aok_toArray]
  constructor
  · intro i hi
    have : (heapify lt d hd (⟨s.heap, rfl⟩ : Vector Nat s.heap.size))[i] ≤ mk := r2 i hi
    show (heapify lt d hd (⟨s.heap, rfl⟩ : Vector Nat s.heap.size))[i] < hs'.size
    rw [e2, growH_size]; omega
  · intro i hi
    have := e3 i (by simpa using hi)
    simpa using this
  · intro key pos hk
    by_cases hmem : key ∈ (heapify lt d hd (⟨s.heap, rfl⟩ : Vector Nat s.heap.size)).toList
    · obtain ⟨j, hj, hkj⟩ := List.mem_iff_getElem.mp hmem
      have := e3 j hj
      rw [hkj, hk] at this
      have hpj : pos = j := by simpa using this
      subst hpj
      refine ⟨by simpa using hj, ?_⟩
      simpa using hkj
    · exfalso
      rw [e4 key hmem, growH_get] at hk
      by_cases hks : key < s.handles.size
      · simp only [hks, if_true] at hk
        have := hstale key pos hk
        apply hmem
        have h1 : key ∈ s.heap.toList := by simpa using this
        exact (Vector.Perm.toList hperm).symm.subset (by simpa using h1)
      · simp only [hks, if_false] at hk
        split at hk <;> simp at hk


theorem nodup_of_aok (s : AH) (hok : AOk s) : s.heap.toList.Nodup := by
  have hd := hok.distinct
  rw [List.Nodup, List.pairwise_iff_getElem]
  intro i j hi hj hij e
  have hi' : i < s.heap.size := by simpa using hi
  have hj' : j < s.heap.size := by simpa using hj
  have := hd i j hi' hj' (by simpa using e)
  omega

/-- **build_heap(keys)** on ANY consistent state (empty or not): the old keys are forgotten, the
new distinct keys are stored, `heap_` is what the plain heap computes -/
theorem abuild_spec (lt : Nat → Nat → Bool) (d : Nat) (hd : 0 < d) (s : AH) (hok : AOk s) (keys : Array Nat)
    (hnd : keys.toList.Nodup) :
    ∃ s', s.build lt d hd keys = some s' ∧ AOk s' ∧ s'.heap = build lt d hd keys := by
  unfold AH.build
  obtain ⟨hs, e1, e2, e3⟩ := resetHandles_spec s.heap.toList s.handles (by
    intro k hk
    obtain ⟨i, hi, rfl⟩ := List.mem_iff_getElem.mp hk
    have := hok.inb i (by simpa using hi)
    simpa using this)
  rw [e1]
  simp only
  apply aheapify_spec lt d hd { heap := keys, handles := hs } hnd
  intro key pos hk
  exfalso
  simp only at hk
  rw [e3] at hk
  by_cases hm : key ∈ s.heap.toList
  · simp [hm] at hk
  · simp only [hm, if_false] at hk
    obtain ⟨hp, e⟩ := hok.bwd key pos hk
    apply hm
    rw [← e]
    simp

/-- **update_all()** -/
theorem aupdateAll_spec (lt : Nat → Nat → Bool) (d : Nat) (hd : 0 < d) (s : AH) (hok : AOk s) :
    ∃ s', s.updateAll lt d hd = some s' ∧ AOk s' ∧ s'.heap = build lt d hd s.heap := by
  unfold AH.updateAll
  apply aheapify_spec lt d hd s (nodup_of_aok s hok)
  intro key pos hk
  obtain ⟨hp, e⟩ := hok.bwd key pos hk
  rw [← e]
  simp


/-- **reserve(n)**: the handle table only grows, so the state stays consistent and the heap is untouched
(a `resize` that could shrink `handles_` would drop the handles of stored keys `≥ n`: not provable then) -/
theorem areserve_spec (s : AH) (hok : AOk s) (n : Nat) : AOk (s.reserve n) ∧ (s.reserve n).heap = s.heap := by
  unfold AH.reserve
  split
  · refine ⟨?_, rfl⟩
    have hget : ∀ (x pos : Nat), (growH s.handles n)[x]? = some (some pos) ↔ s.handles[x]? = some (some pos) := by
      intro x pos
      rw [growH_get]
      by_cases h1 : x < s.handles.size
      · simp [h1]
      · have : s.handles[x]? = none := Array.getElem?_eq_none (by omega)
        simp [h1, this]
    constructor
    · intro i hi
      have := hok.inb i hi
      show (⟨s.heap, rfl⟩ : Vector Nat s.heap.size)[i] < (growH s.handles n).size
      rw [growH_size]; omega
    · intro i hi
      exact (hget _ i).mpr (hok.fwd i hi)
    · intro key pos hk
      exact hok.bwd key pos ((hget key pos).mp hk)
  · exact ⟨hok, rfl⟩

end TlxVerif.C13
