/-
C07/C06 — discharging the hypothesis `PartSpec` with the C08 correctness theorem: the end-to-end statements
for the executable models of parallel_multiway_merge_base / parallel_mergesort_base without any assumption
about multisequence_partition.
-/
import TlxVerif.Proofs.C07Refine
import TlxVerif.Proofs.C06Refine
import TlxVerif.Proofs.C08Correct
namespace TlxVerif.C07
open TlxVerif.C08 (StrictWeak IsPartition)

theorem partSpec_holds {lt : Int → Int → Bool} (hlt : StrictWeak lt) {seqs : List (List Elem)}
    (hne : ∀ r ∈ seqs, r ≠ []) (hk : KeySorted lt seqs) : PartSpec lt seqs := by
  have hctx : ({ lt := lt, runs := (seqs.map fun r => (r.map (·.key)).toArray).toArray } : C08.Ctx) =
      C08.ctxOf lt (keyRuns seqs) := by
    simp [C08.ctxOf, keyRuns, List.map_map, Function.comp_def]
  have hne' : ∀ r ∈ keyRuns seqs, r ≠ [] := by
    intro r hr
    obtain ⟨r', hr', rfl⟩ := List.mem_map.mp hr
    intro e
    exact hne r' hr' (List.map_eq_nil_iff.mp e)
  have hs' : ∀ r ∈ keyRuns seqs, C08.SortedRun lt r := by
    intro r hr
    obtain ⟨r', hr', rfl⟩ := List.mem_map.mp hr
    unfold C08.SortedRun
    rw [List.pairwise_map]
    exact hk r' hr'
  have htot : ((keyRuns seqs).map List.length).sum = (seqs.map List.length).sum := by
    simp [keyRuns, List.map_map, Function.comp_def]
  refine ⟨fun rank => match C08.runM (C08.partitionM (C08.ctxOf lt (keyRuns seqs)) rank) with
    | .ok (o, _) => o.toList.map Int.toNat
    | .error _ => [], ?_⟩
  intro rank hr
  obtain ⟨offs, tr, hrun, hnn, hp⟩ := C08.msp_correct_lists hlt hne' hs' (rank := rank) (by rw [htot]; exact hr)
  constructor
  · unfold partOffsets
    have hneg : ¬ ((rank : Int) < 0) := by omega
    rw [if_neg hneg]
    simp only [Int.toNat_natCast, hctx, hrun, hnn, if_true]
    rfl
  · simp only [hrun]
    exact hp

/-- `pmmBase` refines its specification — no hypothesis about multisequence_partition -/
theorem pmmBase_correct (P : Params) (hlt : StrictWeak P.lt) (seqsAll : List (List Elem))
    (hw : WellTagged seqsAll) (hk : KeySorted P.lt seqsAll) (size : Nat) (hsize : size ≤ seqsAll.flatten.length)
    (hthr : 1 ≤ P.threads) (hosf : 1 ≤ P.osf)
    (hidx : ∀ (len i ns : Nat), i < ns → 0 < len → P.sampleIdx len i ns size size < len) :
    ∃ r, pmmBase P seqsAll size = .ok r ∧ r.out = (kMerge P.lt seqsAll).take size ∧ r.ret = (size : Int) ∧
      (∃ o, IsPartition P.lt (keyRuns (nonEmpty seqsAll)) size o ∧ r.begins = scatterBegins seqsAll o) ∧
      TileFrom 0 size r.windows :=
  pmmBase_refines_spec P hlt seqsAll hw hk size hsize hthr hosf hidx
    (partSpec_holds hlt (nonEmpty_ne seqsAll) (fun r hr => hk r (List.mem_filter.mp hr).1))

theorem pmm_correct (P : Params) (hlt : StrictWeak P.lt) (fs fp : Bool) (mk mn : Nat)
    (seqsAll : List (List Elem)) (hw : WellTagged seqsAll) (hk : KeySorted P.lt seqsAll) (size : Nat)
    (hsize : size ≤ seqsAll.flatten.length) (hthr : 1 ≤ P.threads) (hosf : 1 ≤ P.osf)
    (hidx : ∀ (len i ns : Nat), i < ns → 0 < len → P.sampleIdx len i ns size size < len) :
    ∃ r, pmm P fs fp mk mn seqsAll size = .ok r ∧ r.out = (kMerge P.lt seqsAll).take size ∧ r.ret = (size : Int) :=
  pmm_refines_spec P hlt fs fp mk mn seqsAll hw hk size hsize hthr hosf hidx
    (partSpec_holds hlt (nonEmpty_ne seqsAll) (fun r hr => hk r (List.mem_filter.mp hr).1))

end TlxVerif.C07

namespace TlxVerif.C06
open TlxVerif.C08 (StrictWeak)
open TlxVerif.C07 (Elem sortStable)

/-- `pmsort` refines its specification — no hypothesis about multisequence_partition -/
theorem pmsort_correct (P : Params) (hlt : StrictWeak P.lt) (input : List Elem) (hpos : input.Pairwise posLt)
    (hthr : 1 ≤ P.threads) (hosf : 1 ≤ P.osf) :
    ∃ r, pmsort P input = .ok r ∧ r.out = sortStable P.lt input ∧ r.constructed = r.destroyed ∧
      (2 ≤ input.length → C07.TileFrom 0 input.length r.mergeWindows ∧ r.constructed = input.length) := by
  refine pmsort_refines_spec P hlt input hpos hthr hosf ?_
  intro _
  by_cases hn : input.length = 0
  · -- no elements: no temporaries, PartSpec of the empty list of runs
    have hnil : input = [] := List.length_eq_zero_iff.mp hn
    subst hnil
    have hu : usedThreads P ([] : List Elem).length = 0 := by
      unfold usedThreads; simp only [List.length_nil]; split <;> omega
    rw [hu]
    have hs : slicesBy ([] : List Elem) (startsOf ([] : List Elem).length 0) = [] := rfl
    rw [hs]
    exact C07.partSpec_holds hlt (by simp) (by intro r hr; cases hr)
  · have hp1 : 1 ≤ usedThreads P input.length := by unfold usedThreads; split <;> omega
    have hpn : usedThreads P input.length ≤ input.length := by unfold usedThreads; split <;> omega
    obtain ⟨_, h0, hl, hmono⟩ := startsOf_spec input.length (usedThreads P input.length) hp1
    have hfl : (slicesBy input (startsOf input.length (usedThreads P input.length))).flatten = input := by
      rw [slicesBy_flatten input _ 0 h0 hmono _ hl]; simp
    have hg := goodRuns_temps hlt hpos hfl
    refine C07.partSpec_holds hlt ?_ (fun r hr => List.Pairwise.imp (fun hab => hab.1) (hg.inner r hr))
    -- every slice, hence every temporary, is non-empty (p ≤ n)
    intro r hr
    obtain ⟨s, hs, rfl⟩ := List.mem_map.mp hr
    intro e
    have hlen : s.length = 0 := by
      have := C07.sortStable_length P.lt s
      rw [e] at this; simpa using this.symm
    -- slices of startsOf have positive length
    have : ∀ (bs : List Nat) (k : Nat), bs = (List.range' k (bs.length)).map (startAt input.length (usedThreads P input.length)) →
        k + bs.length ≤ usedThreads P input.length + 1 → ∀ s ∈ slicesBy input bs, 0 < s.length := by
      intro bs
      induction bs with
      | nil => intro k _ _ s hs; simp [slicesBy] at hs
      | cons a bs ih =>
        intro k hbs hk s hs
        cases bs with
        | nil => simp [slicesBy] at hs
        | cons b rest =>
          simp only [slicesBy, List.mem_cons] at hs
          simp only [List.length_cons, List.range'_succ, List.map_cons, List.cons.injEq] at hbs
          obtain ⟨ha, hb, hrest⟩ := hbs
          rcases hs with hs | hs
          · subst hs
            have hstep := startAt_step input.length (usedThreads P input.length) hp1 hpn k
            have hle := startAt_le input.length (usedThreads P input.length) hp1 (i := k + 1) (by simp at hk; omega)
            rw [List.length_take, List.length_drop, ha, hb]
            omega
          · refine ih (k + 1) ?_ (by simp at hk ⊢; omega) s hs
            simp only [List.length_cons, List.range'_succ, List.map_cons, List.cons.injEq]
            exact ⟨hb, hrest⟩
    have hpos' := this (startsOf input.length (usedThreads P input.length)) 0 (by
      rw [startsOf_eq, List.length_map, List.length_range, List.range_eq_range']) (by
      rw [startsOf_eq]; simp) s hs
    omega

end TlxVerif.C06
