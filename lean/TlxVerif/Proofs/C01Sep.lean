/-
C01/C02 — `insert_descend` on an ordered tree: the rank it inserts at is the global lower bound,
and every separator stays equivalent to the largest key below it (including the keys that a
leaf split / inner split hands to the parent).
-/
import TlxVerif.Model.C01Tree
import TlxVerif.Proofs.C01Basic
import TlxVerif.Proofs.C01Inv
import TlxVerif.Proofs.C01Flatten
import TlxVerif.Proofs.C01Absorb
import TlxVerif.Proofs.C01Order
namespace TlxVerif.C01

variable {K V : Type}

/-! ### separators of an ordered node are ordered -/

theorem keys_sorted_of_sep (p : Params K) (sw : StrictWeak p.lt) (h : Nat) (keys : List K) (kids : List (BNode K V))
    (hk : kids.length = keys.length + 1) (hs : SortedE p.lt (kids.flatMap (flatten h))) (hseq : SepSeq p h keys kids) :
    SortedK p.lt keys := by
  unfold SortedK
  rw [List.pairwise_iff_getElem]
  intro i j hi hj hij
  have hi' : i < kids.length := by omega
  have hj' : j < kids.length := by omega
  obtain ⟨ei, hei, hqi⟩ := hseq i keys[i] kids[i] (List.getElem?_eq_getElem hi) (List.getElem?_eq_getElem hi')
  obtain ⟨ej, hej, hqj⟩ := hseq j keys[j] kids[j] (List.getElem?_eq_getElem hj) (List.getElem?_eq_getElem hj')
  have hc := sortedE_flatMap_cross hs i j hij kids[i] kids[j] (List.getElem?_eq_getElem hi')
    (List.getElem?_eq_getElem hj') ei ej (List.mem_of_getLast? hei) (List.mem_of_getLast? hej)
  -- keys[i] ≤ last_i ≤ last_j ≤ keys[j]
  have h1 : p.lt ei.1 keys[i] = false := eqv_le_left hqi
  have h2 : p.lt keys[j] ej.1 = false := eqv_le_right hqj
  exact sw.le_trans _ _ _ (sw.le_trans _ _ _ h1 hc) h2

/-! ### the rank of the insertion is the lower bound -/

theorem insRank_eq_rankBy (p : Params K) (sw : StrictWeak p.lt) (k : K) :
    ∀ (h : Nat) (n : BNode K V) (ml mi : Nat), ShapeTop p ml mi h n → SortedE p.lt (flatten h n) → SepOk p h n →
      insRank p k h n = rankBy (fun x => !p.lt x k) h n := by
  intro h
  induction h with
  | zero =>
    intro n ml mi hs hsort _
    cases n with
    | inner l ks kids => simp [ShapeTop] at hs
    | leaf es =>
      simp only [insRank, rankBy]
      exact findLower_eq_lin p sw _ (sortedE_keys hsort) k
  | succ h ih =>
    intro n ml mi hs hsort hsep
    cases n with
    | leaf es => simp [ShapeTop] at hs
    | inner l keys kids =>
      simp only [ShapeTop] at hs
      obtain ⟨hl, hk, hmin, hmax, hkids⟩ := hs
      simp only [SepOk] at hsep
      obtain ⟨hseq, hsepk⟩ := hsep
      simp only [flatten] at hsort
      simp only [insRank, rankBy]
      rw [findLower_eq_lin p sw keys (keys_sorted_of_sep p sw h keys kids hk hsort hseq) k]
      generalize linIdx (fun x => !p.lt x k) keys = slot
      cases hc : kids[slot]? with
      | none => rfl
      | some c =>
        have hcm : c ∈ kids := List.mem_of_getElem? hc
        simp only
        rw [ih c _ _ (hkids c hcm).top (sortedE_flatMap_child hsort c hcm) (hsepk c hcm)]

/-- on an ordered tree `insert_descend` inserts at the lower bound of the key -/
theorem insRank_eq_lbIdx (p : Params K) (sw : StrictWeak p.lt) (k : K) (h : Nat) (n : BNode K V) (ml mi : Nat)
    (hs : ShapeTop p ml mi h n) (hsort : SortedE p.lt (flatten h n)) (hsep : SepOk p h n) :
    insRank p k h n = lbIdx p.lt k (flatten h n) := by
  rw [insRank_eq_rankBy p sw k h n ml mi hs hsort hsep,
    rankBy_eq_findIdx p sw _ (upClosed_lower sw k) h n ml mi hs hsort hsep]
  rfl

/-! ### last entries -/

theorem getLast?_insertAt_lt {α : Type} (l : List α) (i : Nat) (x : α) (h : i < l.length) :
    (insertAt l i x).getLast? = l.getLast? := by
  unfold insertAt
  have hd : List.drop i l ≠ [] := by
    intro he
    have := congrArg List.length he
    simp only [List.length_drop, List.length_nil] at this
    omega
  rw [List.getLast?_append]
  obtain ⟨y, ys, hy⟩ := List.exists_cons_of_ne_nil hd
  rw [hy, List.getLast?_cons_cons]
  have h2 : l.getLast? = (List.drop i l).getLast? := by
    rw [List.getLast?_drop, if_neg (by omega)]
  rw [h2, hy]
  cases hys : (y :: ys).getLast? with
  | none => simp at hys
  | some z => rfl

theorem getLast?_flatMap_take {α β : Type} (f : α → List β) (l : List α) (m : Nat) (c : α) (e : β)
    (hc : l[m]? = some c) (he : (f c).getLast? = some e) :
    ((l.take (m + 1)).flatMap f).getLast? = some e := by
  rw [List.take_add_one, hc, List.flatMap_append]
  simp only [Option.toList, List.flatMap_cons, List.flatMap_nil, List.append_nil]
  rw [List.getLast?_append, he]
  rfl

/-! ### separators after `insert_descend` -/

theorem eqv_refl {p : Params K} (sw : StrictWeak p.lt) (a : K) : p.eqv a a = true := by
  simp [Params.eqv, sw.irrefl]

theorem leafInsert_sep (p : Params K) (sw : StrictWeak p.lt) (es : List (K × V)) (k : K) (v : V)
    (r : InsOut K V) (hr : leafInsert p es k v = some r) :
    ∀ sk sn, r.split = some (sk, sn) → ∃ e, (flatten 0 r.node).getLast? = some e ∧ p.eqv sk e.1 = true := by
  unfold leafInsert at hr
  simp only at hr
  split at hr
  · cases hr; intro sk sn h; cases h
  · split at hr
    · unfold splitLeafInsert at hr
      simp only at hr
      split at hr
      · cases hr
      · rename_i lastL hlast
        split at hr
        · cases hr
          intro sk sn h
          cases h
          exact ⟨lastL, hlast, eqv_refl sw _⟩
        · rename_i hlt
          cases hr
          intro sk sn h
          cases h
          have hlen : findLower p (keysOf es) k < (List.take (es.length / 2) es).length := by
            simp only [List.length_take]
            have := findLower_le p (keysOf es) k
            simp only [keysOf, List.length_map] at this
            omega
          refine ⟨lastL, ?_, ?_⟩
          · simp only [flatten]
            rw [getLast?_insertAt_lt _ _ _ hlen]; exact hlast
          · rw [if_neg]
            · exact eqv_refl sw _
            · simp only [length_insertAt]; omega
    · cases hr; intro sk sn h; cases h

theorem insertDescend_sep (p : Params K) (pv : p.Valid) (sw : StrictWeak p.lt) (k : K) (v : V) :
    ∀ (h : Nat) (n : BNode K V) (ml mi : Nat), ml ≤ p.leafMin → mi ≤ p.innerMin →
      ShapeTop p ml mi h n → SortedE p.lt (flatten h n) → SepOk p h n →
      ∀ r, insertDescend p k v h n = some r →
        SepOk p h r.node ∧
        ∀ sk sn, r.split = some (sk, sn) →
          SepOk p h sn ∧ ∃ e, (flatten h r.node).getLast? = some e ∧ p.eqv sk e.1 = true := by
  intro h
  induction h with
  | zero =>
    intro n ml mi _ _ hs _ _ r hr
    cases n with
    | inner l ks kids => simp [ShapeTop] at hs
    | leaf es =>
      unfold insertDescend at hr
      have h1 := leafInsert_sep p sw es k v r hr
      have h2 := leafInsert_shape p pv ml (by assumption) mi es k v hs r hr
      refine ⟨?_, ?_⟩
      · cases hsp : r.split with
        | none => have := h2.1 hsp; cases hn : r.node <;> simp [SepOk, hn, ShapeTop] at this ⊢
        | some kv =>
          obtain ⟨sk, sn⟩ := kv
          have := (h2.2 sk sn hsp).1
          cases hn : r.node <;> simp [SepOk, hn, Shape] at this ⊢
      · intro sk sn hsp
        refine ⟨?_, h1 sk sn hsp⟩
        have := (h2.2 sk sn hsp).2
        cases sn <;> simp [SepOk, Shape] at this ⊢
  | succ h ih =>
    intro n ml mi hml hmi hs hsort hsep r hr
    cases n with
    | leaf es => simp [ShapeTop] at hs
    | inner l keys kids =>
      have hs0 := hs
      simp only [ShapeTop] at hs
      obtain ⟨hl, hk, hmin, hmax, hkids⟩ := hs
      simp only [SepOk] at hsep
      obtain ⟨hseq, hsepk⟩ := hsep
      simp only [flatten] at hsort
      have hks := keys_sorted_of_sep p sw h keys kids hk hsort hseq
      unfold insertDescend at hr
      simp only at hr
      have hfl := findLower_eq_lin p sw keys hks k
      have hslot := findLower_le p keys k
      generalize hsl : findLower p keys k = slot at hr hslot hfl
      have hlt : slot < kids.length := by omega
      rw [List.getElem?_eq_getElem hlt] at hr
      simp only at hr
      have hcm : kids[slot] ∈ kids := List.getElem_mem hlt
      have hcs := hkids _ hcm
      have hcsort := sortedE_flatMap_child hsort _ hcm
      have hcsep := hsepk _ hcm
      cases hrec : insertDescend p k v h kids[slot] with
      | none => rw [hrec] at hr; cases hr
      | some r' =>
        rw [hrec] at hr
        simp only at hr
        obtain ⟨ih1, ih2⟩ := ih kids[slot] _ _ (Nat.le_refl _) (Nat.le_refl _) hcs.top hcsort hcsep r' hrec
        have hshape := insertDescend_shape p pv k v h kids[slot] _ _ (Nat.le_refl _) (Nat.le_refl _) hcs.top r' hrec
        have hflat := insertDescend_flatten p pv k v h kids[slot] _ _ hcs.top r' hrec
        -- F: when the chosen child has a separator, the last entry below it does not change
        have hF : slot < keys.length →
            (flatten h r'.node ++ optFlat h r'.split).getLast? = (flatten h kids[slot]).getLast? := by
          intro hsk
          rw [hflat]
          split
          · obtain ⟨last, hlast, heq⟩ := hseq slot keys[slot] kids[slot] (List.getElem?_eq_getElem hsk)
              (List.getElem?_eq_getElem hlt)
            have hidx : keys.findIdx (fun x => !p.lt x k) = slot := by rw [hfl]; rfl
            have hstop : (!p.lt keys[slot] k) = true := ((List.findIdx_eq hsk).mp hidx).1
            have hsl' : (!p.lt last.1 k) = true := upClosed_lower sw k _ _ (eqv_le_left heq) hstop
            have hrank : insRank p k h kids[slot] < (flatten h kids[slot]).length := by
              rw [insRank_eq_lbIdx p sw k h kids[slot] _ _ hcs.top hcsort hcsep]
              unfold lbIdx
              rw [List.findIdx_lt_length]
              exact ⟨last, List.mem_of_getLast? hlast, hsl'⟩
            exact getLast?_insertAt_lt _ _ _ hrank
          · rfl
        cases hsp : r'.split with
        | none =>
          rw [hsp] at hr hF
          cases hr
          simp only [optFlat, List.append_nil] at hF
          refine ⟨?_, (by intro sk sn hh; cases hh)⟩
          simp only [SepOk]
          refine ⟨?_, ?_⟩
          · intro i k' c hki hci
            rw [List.getElem?_set] at hci
            by_cases his : slot = i
            · subst his
              rw [if_pos rfl, if_pos hlt] at hci
              cases hci
              have hsk : slot < keys.length := (List.getElem?_eq_some_iff.mp hki).1
              rw [hF hsk]
              exact hseq slot k' kids[slot] hki (List.getElem?_eq_getElem hlt)
            · rw [if_neg his] at hci
              exact hseq i k' c hki hci
          · intro c hc
            rcases List.mem_or_eq_of_mem_set hc with hc | hc
            · exact hsepk c hc
            · subst hc; exact ih1
        | some kv =>
          obtain ⟨nk, nc⟩ := kv
          rw [hsp] at hr hF
          simp only at hr
          obtain ⟨ihs, ⟨elast, helast, heqnk⟩⟩ := ih2 nk nc hsp
          obtain ⟨hsh1, hsh2⟩ := hshape.2 nk nc hsp
          have hncne := flatten_ne_nil p pv h nc hsh2
          simp only [optFlat] at hF
          cases hab : innerAbsorb p l keys (kids.set slot r'.node) slot nk nc with
          | none => rw [hab] at hr; cases hr
          | some res =>
            obtain ⟨node, split, ni⟩ := res
            rw [hab] at hr
            cases hr
            simp only
            have hk1 : (kids.set slot r'.node).length = keys.length + 1 := by rw [List.length_set]; exact hk
            -- separators of the combined sequence
            have hseqC : SepSeq p h (insertAt keys slot nk) (insertAt (kids.set slot r'.node) (slot + 1) nc) := by
              intro i k' c hki hci
              rw [getElem?_insertAt _ _ _ _ hslot] at hki
              rw [getElem?_insertAt _ _ _ _ (by omega)] at hci
              by_cases h1 : i < slot
              · rw [if_pos h1] at hki
                rw [if_pos (by omega), List.getElem?_set, if_neg (by omega)] at hci
                exact hseq i k' c hki hci
              · rw [if_neg h1] at hki
                by_cases h2 : i = slot
                · subst h2
                  rw [if_pos rfl] at hki
                  rw [if_pos (by omega), List.getElem?_set, if_pos rfl, if_pos hlt] at hci
                  cases hki; cases hci
                  exact ⟨elast, helast, heqnk⟩
                · rw [if_neg h2] at hki
                  rw [if_neg (by omega)] at hci
                  by_cases h3 : i = slot + 1
                  · subst h3
                    rw [if_pos rfl] at hci
                    cases hci
                    simp only [Nat.add_sub_cancel] at hki
                    have hsk : slot < keys.length := (List.getElem?_eq_some_iff.mp hki).1
                    obtain ⟨last, hlast, heq⟩ := hseq slot k' kids[slot] hki (List.getElem?_eq_getElem hlt)
                    refine ⟨last, ?_, heq⟩
                    have := hF hsk
                    rw [List.getLast?_append] at this
                    cases hl2 : (flatten h nc).getLast? with
                    | none => exact absurd (List.getLast?_eq_none_iff.mp hl2) hncne
                    | some z => rw [hl2] at this; change some z = _ at this; rw [← this] at hlast; exact hlast
                  · rw [if_neg h3, List.getElem?_set, if_neg (by omega)] at hci
                    exact hseq (i - 1) k' c hki hci
            have hmemC : ∀ c ∈ insertAt (kids.set slot r'.node) (slot + 1) nc, SepOk p h c := by
              intro c hc
              rcases mem_insertAt hc with hc | hc
              · subst hc; exact ihs
              · rcases List.mem_or_eq_of_mem_set hc with hc | hc
                · exact hsepk c hc
                · subst hc; exact ih1
            rcases innerAbsorb_char p l keys (kids.set slot r'.node) slot nk nc hk1 hslot node split ni hab with
              ⟨hs1, hn1⟩ | ⟨m, up, hup, hn1, hs1⟩
            · subst hs1; subst hn1
              refine ⟨?_, (by intro sk sn hh; cases hh)⟩
              simp only [SepOk]
              exact ⟨hseqC, hmemC⟩
            · subst hs1; subst hn1
              have hmlt : m < (insertAt keys slot nk).length := (List.getElem?_eq_some_iff.mp hup).1
              have hmc : m < (insertAt (kids.set slot r'.node) (slot + 1) nc).length := by
                rw [length_insertAt] at hmlt ⊢; omega
              obtain ⟨elm, helm, heqm⟩ := hseqC m up _ hup (List.getElem?_eq_getElem hmc)
              refine ⟨?_, ?_⟩
              · simp only [SepOk]
                refine ⟨?_, fun c hc => hmemC c (List.mem_of_mem_take hc)⟩
                intro i k' c hki hci
                rw [List.getElem?_take] at hki hci
                split at hki
                · split at hci
                  · exact hseqC i k' c hki hci
                  · cases hci
                · cases hki
              · intro sk sn hh
                cases hh
                refine ⟨?_, ?_⟩
                · simp only [SepOk]
                  refine ⟨?_, fun c hc => hmemC c (List.mem_of_mem_drop hc)⟩
                  intro i k' c hki hci
                  rw [List.getElem?_drop] at hki hci
                  exact hseqC (m + 1 + i) k' c hki hci
                · refine ⟨elm, ?_, heqm⟩
                  simp only [flatten]
                  exact getLast?_flatMap_take (flatten h) _ m _ elm (List.getElem?_eq_getElem hmc) helm

end TlxVerif.C01
