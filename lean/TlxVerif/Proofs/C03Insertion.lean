/-
C03 — correctness of both insertion sorts (insertion_sort.hpp) for all inputs.
-/
import TlxVerif.Model.C03Insertion
import TlxVerif.Proofs.C03Order
namespace TlxVerif.C03

variable {α : Type} (str : α → Str)

/-- non-decreasing unsigned-byte lexicographic order -/
def Sorted (l : List α) : Prop := l.Pairwise fun a b => str a ≤ str b

/-- all strings share their first `d` characters (precondition of the `depth` argument) -/
def CommonPrefix (d : Nat) (l : List α) : Prop := ∀ a ∈ l, ∀ b ∈ l, d ≤ lcp (str a) (str b)

/-- no string contains the byte 0 -/
def NulFree (l : List α) : Prop := ∀ a ∈ l, (0 : UInt8) ∉ str a

theorem CommonPrefix.mono {d : Nat} {l l' : List α} (h : CommonPrefix str d l) (hs : ∀ a ∈ l', a ∈ l) :
    CommonPrefix str d l' := fun a ha b hb => h a (hs a ha) b (hs b hb)

/-! ### plain insertion sort -/

theorem leqFrom_iff (d : Nat) (p t : Str) (h : d ≤ lcp p t) : leqFrom d p t = true ↔ p ≤ t := by
  unfold leqFrom
  simp only
  rw [isLeq_drop_lcp, ← le_of_drop d p t h]

theorem insPlain_perm (d : Nat) (tmp : α) (r : List α) : (insPlain str d tmp r).Perm (tmp :: r) := by
  induction r with
  | nil => simp [insPlain]
  | cons p rest ih =>
    simp only [insPlain]
    split
    · exact List.Perm.refl _
    · exact (List.Perm.cons p ih).trans (List.Perm.swap tmp p rest)

theorem insPlain_desc (d : Nat) (tmp : α) (r : List α)
    (hd : r.Pairwise fun a b => str b ≤ str a)
    (hcp : ∀ p ∈ r, d ≤ lcp (str p) (str tmp)) :
    (insPlain str d tmp r).Pairwise fun a b => str b ≤ str a := by
  induction r with
  | nil => simp [insPlain]
  | cons p rest ih =>
    rw [List.pairwise_cons] at hd
    simp only [insPlain]
    split
    · rename_i hle
      rw [leqFrom_iff d _ _ (hcp p (by simp))] at hle
      rw [List.pairwise_cons]
      refine ⟨?_, List.pairwise_cons.mpr hd⟩
      intro y hy
      rcases List.mem_cons.mp hy with e | hy
      · subst e; exact hle
      · exact List.le_trans (hd.1 y hy) hle
    · rename_i hle
      rw [leqFrom_iff d _ _ (hcp p (by simp))] at hle
      have hle' := not_le_imp_le _ _ hle
      rw [List.pairwise_cons]
      refine ⟨?_, ih hd.2 (fun q hq => hcp q (by simp [hq]))⟩
      intro y hy
      have := (insPlain_perm str d tmp rest).mem_iff.mp hy
      rcases List.mem_cons.mp this with e | hy
      · subst e; exact hle'
      · exact hd.1 y hy

theorem foldl_insPlain (d : Nat) (ss r : List α)
    (hd : r.Pairwise fun a b => str b ≤ str a) (hcp : CommonPrefix str d (ss ++ r)) :
    (ss.foldl (fun r x => insPlain str d x r) r).Perm (ss ++ r) ∧
    (ss.foldl (fun r x => insPlain str d x r) r).Pairwise fun a b => str b ≤ str a := by
  induction ss generalizing r with
  | nil => exact ⟨List.Perm.refl _, hd⟩
  | cons x xs ih =>
    simp only [List.foldl_cons]
    have hp := insPlain_perm str d x r
    have hd' := insPlain_desc str d x r hd (fun p hp => hcp p (by simp [hp]) x (by simp))
    have hcp' : CommonPrefix str d (xs ++ insPlain str d x r) := by
      apply CommonPrefix.mono str hcp
      intro a ha
      rcases List.mem_append.mp ha with h | h
      · simp [h]
      · have := hp.mem_iff.mp h
        rcases List.mem_cons.mp this with e | h
        · simp [e]
        · simp [h]
    obtain ⟨p1, p2⟩ := ih (insPlain str d x r) hd' hcp'
    refine ⟨p1.trans ?_, p2⟩
    exact (List.Perm.append_left xs hp).trans (List.perm_middle)

/-- `insertion_sort` without LCP: a sorted permutation, for every input with the common prefix -/
theorem insertionSortPlain_spec (d : Nat) (ss : List α) (hcp : CommonPrefix str d ss) :
    (insertionSortPlain str d ss).Perm ss ∧ Sorted str (insertionSortPlain str d ss) := by
  obtain ⟨p1, p2⟩ := foldl_insPlain str d ss [] List.Pairwise.nil (by simpa using hcp)
  unfold insertionSortPlain Sorted
  constructor
  · exact (List.reverse_perm _).trans (by simpa using p1)
  · rw [List.pairwise_reverse]; exact p2

/-! ### LCP insertion sort -/

/-- invariant of the reversed `(string, lcp to successor)` list: neighbours are in order and carry
their exact LCP (the LCP stored with the last string — the head — is not constrained) -/
def DescL : List (α × Nat) → Prop
  | [] => True
  | [_] => True
  | (e2, _) :: (e1, l1) :: rest => str e1 ≤ str e2 ∧ l1 = lcp (str e1) (str e2) ∧ DescL ((e1, l1) :: rest)

theorem DescL_head_irrel (e : α) (l l' : Nat) (rest : List (α × Nat)) :
    DescL str ((e, l) :: rest) → DescL str ((e, l') :: rest) := by
  cases rest with
  | nil => simp [DescL]
  | cons p rest => obtain ⟨e1, l1⟩ := p; simp [DescL]

theorem DescL_tail (p : α × Nat) (rest : List (α × Nat)) : DescL str (p :: rest) → DescL str rest := by
  cases rest with
  | nil => simp [DescL]
  | cons q rest =>
    obtain ⟨e2, l2⟩ := p
    obtain ⟨e1, l1⟩ := q
    intro h; exact h.2.2

/-- the head of the list (the string right before the hole) is below `x` with known LCP -/
def HeadOk (x : Str) : List (α × Nat) → Prop
  | [] => True
  | (cur, cl) :: _ => str cur ≤ x ∧ cl = lcp (str cur) x

theorem DescL_cons (e : α) (l : Nat) (r : List (α × Nat)) (hd : DescL str r) (hh : HeadOk str (str e) r) :
    DescL str ((e, l) :: r) := by
  cases r with
  | nil => simp [DescL]
  | cons q rest => obtain ⟨e1, l1⟩ := q; exact ⟨hh.1, hh.2, hd⟩

theorem HeadOk_of_DescL (e : α) (l : Nat) (r : List (α × Nat)) (hd : DescL str ((e, l) :: r)) :
    HeadOk str (str e) r := by
  cases r with
  | nil => simp [HeadOk]
  | cons q rest => obtain ⟨e1, l1⟩ := q; exact ⟨hd.1, hd.2.1⟩

/-- the inner loop below a real successor `x`: the three cases of the code are exactly right -/
theorem insLcp_inner (new : α) (r : List (α × Nat)) (nl : Nat) (x : Str)
    (hd : DescL str r) (hh : HeadOk str x r) (hn : str new ≤ x) (hnl : nl = lcp (str new) x) :
    DescL str (insLcp str new nl r) ∧ ((insLcp str new nl r).map Prod.fst).Perm (new :: r.map Prod.fst) ∧
    HeadOk str x (insLcp str new nl r) ∧ insLcp str new nl r ≠ [] := by
  induction r generalizing nl x with
  | nil => simp [insLcp, DescL, HeadOk, hn, hnl]
  | cons p rest ih =>
    obtain ⟨cur, cl⟩ := p
    obtain ⟨hcx, hcl⟩ := hh
    simp only [insLcp]
    split
    · -- CASE 1
      rename_i hlt
      have := tri_lt (str cur) (str new) x hcx (by omega)
      refine ⟨?_, List.Perm.refl _, ⟨hn, hnl⟩, by simp⟩
      exact ⟨this.1, by rw [this.2]; exact hcl, hd⟩
    · split
      · -- CASE 2
        rename_i hnlt heq
        have hge : nl ≤ lcp (str new) (str cur) := by
          have := tri_eq (str cur) (str new) x (by omega)
          omega
        have hk := lcp_drop nl (str new) (str cur) hge
        have hiff : isLess (((str new).drop nl).drop (lcp ((str new).drop nl) ((str cur).drop nl)))
            (((str cur).drop nl).drop (lcp ((str new).drop nl) ((str cur).drop nl))) = true ↔ str new ≤ str cur := by
          rw [isLess_drop_lcp, ← le_of_drop nl _ _ hge]
        split
        · rename_i hnl'
          rw [hiff] at hnl'
          have hcn := not_le_imp_le _ _ hnl'
          refine ⟨?_, List.Perm.refl _, ⟨hn, hnl⟩, by simp⟩
          refine ⟨hcn, ?_, DescL_head_irrel str cur cl _ rest hd⟩
          rw [lcp_comm (str cur) (str new)]; omega
        · rename_i hnl'
          have hnc : str new ≤ str cur := by
            apply Classical.byContradiction
            intro hc; exact hnl' (by rw [hiff]; exact hc)
          obtain ⟨i1, i2, i3, i4⟩ := ih (nl + lcp ((str new).drop nl) ((str cur).drop nl)) (str cur)
            (DescL_tail str _ _ hd) (HeadOk_of_DescL str cur cl rest hd) hnc (by omega)
          refine ⟨DescL_cons str cur cl _ i1 i3, ?_, ⟨hcx, hcl⟩, by simp⟩
          simp only [List.map_cons]
          exact (List.Perm.cons cur i2).trans (List.Perm.swap new cur _)
      · -- CASE 3
        rename_i hnlt hne
        have := tri_lt (str new) (str cur) x hn (by omega)
        obtain ⟨i1, i2, i3, i4⟩ := ih nl (str cur)
          (DescL_tail str _ _ hd) (HeadOk_of_DescL str cur cl rest hd) this.1 (by rw [this.2]; exact hnl)
        refine ⟨DescL_cons str cur cl _ i1 i3, ?_, ⟨hcx, hcl⟩, by simp⟩
        simp only [List.map_cons]
        exact (List.Perm.cons cur i2).trans (List.Perm.swap new cur _)

/-- the LCP travelling with the last string is the placeholder `depth` -/
def HeadDepth (d : Nat) : List (α × Nat) → Prop
  | [] => True
  | (_, l) :: _ => l = d

/-- one iteration of the outer loop (`new_lcp = depth`, no successor yet) -/
theorem insLcp_top (d : Nat) (new : α) (r : List (α × Nat))
    (hd : DescL str r) (hh : HeadDepth d r) (hcp : ∀ p ∈ r, d ≤ lcp (str new) (str p.1)) :
    DescL str (insLcp str new d r) ∧ ((insLcp str new d r).map Prod.fst).Perm (new :: r.map Prod.fst) ∧
    HeadDepth d (insLcp str new d r) := by
  cases r with
  | nil => simp [insLcp, DescL, HeadDepth]
  | cons p rest =>
    obtain ⟨cur, cl⟩ := p
    have hcl : cl = d := hh
    subst hcl
    have hge : cl ≤ lcp (str new) (str cur) := hcp (cur, cl) (by simp)
    have hk := lcp_drop cl (str new) (str cur) hge
    have hiff : isLess (((str new).drop cl).drop (lcp ((str new).drop cl) ((str cur).drop cl)))
        (((str cur).drop cl).drop (lcp ((str new).drop cl) ((str cur).drop cl))) = true ↔ str new ≤ str cur := by
      rw [isLess_drop_lcp, ← le_of_drop cl _ _ hge]
    simp only [insLcp, Nat.lt_irrefl, if_false, if_true]
    split
    · rename_i hnl'
      rw [hiff] at hnl'
      have hcn := not_le_imp_le _ _ hnl'
      refine ⟨?_, List.Perm.refl _, rfl⟩
      refine ⟨hcn, ?_, DescL_head_irrel str cur cl _ rest hd⟩
      rw [lcp_comm (str cur) (str new)]; omega
    · rename_i hnl'
      have hnc : str new ≤ str cur := by
        apply Classical.byContradiction
        intro hc; exact hnl' (by rw [hiff]; exact hc)
      obtain ⟨i1, i2, i3, i4⟩ := insLcp_inner str new rest (cl + lcp ((str new).drop cl) ((str cur).drop cl)) (str cur)
        (DescL_tail str _ _ hd) (HeadOk_of_DescL str cur cl rest hd) hnc (by omega)
      refine ⟨DescL_cons str cur cl _ i1 i3, ?_, rfl⟩
      simp only [List.map_cons]
      exact (List.Perm.cons cur i2).trans (List.Perm.swap new cur _)

theorem foldl_insLcp (d : Nat) (ss : List α) (r : List (α × Nat))
    (hd : DescL str r) (hh : HeadDepth d r) (hcp : CommonPrefix str d (ss ++ r.map Prod.fst)) :
    DescL str (ss.foldl (fun r x => insLcp str x d r) r) ∧
    ((ss.foldl (fun r x => insLcp str x d r) r).map Prod.fst).Perm (ss ++ r.map Prod.fst) := by
  induction ss generalizing r with
  | nil => exact ⟨hd, List.Perm.refl _⟩
  | cons x xs ih =>
    simp only [List.foldl_cons]
    obtain ⟨t1, t2, t3⟩ := insLcp_top str d x r hd hh
      (fun p hp => hcp x (by simp) p.1 (by simp; right; right; exact ⟨p.2, hp⟩))
    have hcp' : CommonPrefix str d (xs ++ (insLcp str x d r).map Prod.fst) := by
      apply CommonPrefix.mono str hcp
      intro a ha
      rcases List.mem_append.mp ha with h | h
      · simp [h]
      · have := t2.mem_iff.mp h
        rcases List.mem_cons.mp this with e | h
        · simp [e]
        · simp only [List.cons_append, List.mem_cons, List.mem_append]; right; right; exact h
    obtain ⟨p1, p2⟩ := ih (insLcp str x d r) t1 t3 hcp'
    refine ⟨p1, p2.trans ?_⟩
    exact (List.Perm.append_left xs t2).trans (List.perm_middle)

/-! ### from the invariant to the result -/

theorem adjLcps_snoc (xs : List Str) (y s : Str) :
    adjLcps (xs ++ [y] ++ [s]) = adjLcps (xs ++ [y]) ++ [lcp y s] := by
  induction xs with
  | nil => simp [adjLcps]
  | cons a as ih =>
    cases as with
    | nil => simp [adjLcps]
    | cons b bs =>
      simp only [List.cons_append, adjLcps] at ih ⊢
      rw [ih]

theorem DescL_sorted (r : List (α × Nat)) (hd : DescL str r) :
    (r.map Prod.fst).Pairwise fun a b => str b ≤ str a := by
  induction r with
  | nil => simp
  | cons p rest ih =>
    obtain ⟨e2, l2⟩ := p
    have iht := ih (DescL_tail str _ _ hd)
    simp only [List.map_cons, List.pairwise_cons]
    refine ⟨?_, iht⟩
    cases rest with
    | nil => simp
    | cons q rest' =>
      obtain ⟨e1, l1⟩ := q
      intro y hy
      simp only [List.map_cons, List.mem_cons] at hy
      rcases hy with e | hy
      · subst e; exact hd.1
      · simp only [List.map_cons, List.pairwise_cons] at iht
        exact List.le_trans (iht.1 y hy) hd.1

theorem DescL_lcps (r : List (α × Nat)) (hd : DescL str r) :
    adjLcps ((r.map Prod.fst).reverse.map str) = ((r.map Prod.snd).reverse).dropLast := by
  induction r with
  | nil => simp [adjLcps]
  | cons p rest ih =>
    obtain ⟨e2, l2⟩ := p
    cases rest with
    | nil => simp [adjLcps]
    | cons q rest' =>
      obtain ⟨e1, l1⟩ := q
      have iht := ih (DescL_tail str _ _ hd)
      simp only [List.map_cons, List.reverse_cons, List.map_append, List.map_nil] at iht ⊢
      rw [adjLcps_snoc, iht]
      simp only [List.dropLast_concat]
      rw [hd.2.1]

/-- `insertion_sort` with LCP: a sorted permutation and the exact LCP array (entry 0 untouched),
for every input with the common prefix `depth` -/
theorem insertionSortLcp_spec (d : Nat) (ss : List α) (l : List Nat)
    (hcp : CommonPrefix str d ss) (hl : l.length = ss.length) :
    (insertionSortLcp str d ss l).1.Perm ss ∧ Sorted str (insertionSortLcp str d ss l).1 ∧
    (insertionSortLcp str d ss l).2 = l.take 1 ++ adjLcps ((insertionSortLcp str d ss l).1.map str) := by
  unfold insertionSortLcp
  split
  · rename_i h1
    refine ⟨List.Perm.refl _, ?_, ?_⟩
    · unfold Sorted
      match ss, h1 with
      | [], _ => simp
      | [a], _ => simp
    · match ss, h1 with
      | [], _ =>
        simp only [List.map_nil, adjLcps, List.append_nil]
        simp at hl
        rw [List.take_of_length_le (by simp [hl])]
      | [a], _ =>
        simp only [List.map_cons, List.map_nil, adjLcps, List.append_nil]
        simp at hl
        rw [List.take_of_length_le (by omega)]
  · rename_i h1
    obtain ⟨p1, p2⟩ := foldl_insLcp str d ss [] (by simp [DescL]) (by simp [HeadDepth]) (by simpa using hcp)
    simp only [List.map_nil, List.append_nil] at p2
    generalize hr : ss.foldl (fun r x => insLcp str x d r) [] = r at p1 p2
    have hlen : r.length = ss.length := by
      have := p2.length_eq; simpa using this
    simp only
    refine ⟨?_, ?_, ?_⟩
    · rw [List.map_reverse]
      exact (List.reverse_perm _).trans p2
    · unfold Sorted
      rw [List.map_reverse, List.pairwise_reverse]
      exact DescL_sorted str r p1
    · have hlc := DescL_lcps str r p1
      simp only [List.map_reverse] at hlc ⊢
      rw [hlc]
      rw [List.drop_of_length_le (by omega), List.append_nil]
      congr 1
      rw [List.dropLast_eq_take]
      simp [hlen]

end TlxVerif.C03
