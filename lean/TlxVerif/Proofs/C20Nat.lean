import TlxVerif.Model.C20Bits
/-!
Natural-number facts about the specification functions `bitLen`, `ctzB`, `popc` of C20.
-/
namespace TlxVerif.C20

/-! ### bitLen -/

theorem bitLen_le (w n : Nat) : bitLen w n ≤ w := by
  induction w generalizing n with
  | zero => simp [bitLen]
  | succ w ih =>
    simp only [bitLen]
    split
    · omega
    · have := ih (n / 2); omega

@[simp] theorem bitLen_zero (w : Nat) : bitLen w 0 = 0 := by
  cases w <;> simp [bitLen]

theorem bitLen_pos {w n : Nat} (hn : n ≠ 0) (hw : w ≠ 0) : 0 < bitLen w n := by
  cases w with
  | zero => exact absurd rfl hw
  | succ w => simp [bitLen, hn]; omega

/-- for `n < 2^w`: `2^(bitLen − 1) ≤ n < 2^bitLen` -/
theorem bitLen_spec {w n : Nat} (hn : n ≠ 0) (hlt : n < 2 ^ w) :
    2 ^ (bitLen w n - 1) ≤ n ∧ n < 2 ^ bitLen w n := by
  induction w generalizing n with
  | zero => simp at hlt; omega
  | succ w ih =>
    simp only [bitLen, hn, if_false]
    by_cases h2 : n / 2 = 0
    · have : n = 1 := by omega
      subst this; simp
    · have hlt' : n / 2 < 2 ^ w := by
        have : 2 ^ (w + 1) = 2 * 2 ^ w := by rw [Nat.pow_succ]; omega
        omega
      obtain ⟨h1, h3⟩ := ih h2 hlt'
      have hw0 : w ≠ 0 := by
        intro h; subst h; simp at hlt'; omega
      have hp := bitLen_pos h2 hw0
      have e1 : 1 + bitLen w (n / 2) - 1 = (bitLen w (n / 2) - 1) + 1 := by omega
      have e2 : 1 + bitLen w (n / 2) = bitLen w (n / 2) + 1 := by omega
      rw [e1, e2, Nat.pow_succ, Nat.pow_succ]
      constructor <;> omega

/-- the interval characterises `bitLen` -/
theorem bitLen_unique {w n k : Nat} (hlt : n < 2 ^ w) (h1 : 2 ^ (k - 1) ≤ n) (h2 : n < 2 ^ k)
    (hk : 1 ≤ k) : bitLen w n = k := by
  have hn : n ≠ 0 := by
    have : 0 < 2 ^ (k - 1) := Nat.pow_pos (by omega)
    omega
  obtain ⟨s1, s2⟩ := bitLen_spec hn hlt
  have hw : w ≠ 0 := by intro h; subst h; simp at hlt; omega
  have hp := bitLen_pos hn hw
  -- 2^(b-1) ≤ n < 2^k and 2^(k-1) ≤ n < 2^b
  have a : bitLen w n - 1 < k := (Nat.pow_lt_pow_iff_right (by omega : 1 < 2)).mp (Nat.lt_of_le_of_lt s1 h2)
  have b : k - 1 < bitLen w n := (Nat.pow_lt_pow_iff_right (by omega : 1 < 2)).mp (Nat.lt_of_le_of_lt h1 s2)
  omega

theorem bitLen_eq_log2 {w n : Nat} (hn : n ≠ 0) (hlt : n < 2 ^ w) : bitLen w n = Nat.log2 n + 1 :=
  bitLen_unique hlt (by simpa using Nat.log2_self_le hn) Nat.lt_log2_self (by omega)

/-- `bitLen` does not depend on the width once the number fits -/
theorem bitLen_width {w w' n : Nat} (h : n < 2 ^ w) (h' : n < 2 ^ w') : bitLen w n = bitLen w' n := by
  by_cases hn : n = 0
  · subst hn; simp
  · rw [bitLen_eq_log2 hn h, bitLen_eq_log2 hn h']

theorem bitLen_double {w n : Nat} (hn : n ≠ 0) (hlt : 2 * n < 2 ^ w) :
    bitLen w (2 * n) = bitLen w n + 1 := by
  have hlt' : n < 2 ^ w := by omega
  obtain ⟨s1, s2⟩ := bitLen_spec hn hlt'
  have hw : w ≠ 0 := by intro h; subst h; simp at hlt'; omega
  have hp := bitLen_pos hn hw
  apply bitLen_unique hlt
  · have : bitLen w n + 1 - 1 = (bitLen w n - 1) + 1 := by omega
    rw [this, Nat.pow_succ]; omega
  · rw [Nat.pow_succ]; omega
  · omega

theorem bitLen_top {w n : Nat} (hw : w ≠ 0) (h1 : 2 ^ (w - 1) ≤ n) (hlt : n < 2 ^ w) : bitLen w n = w :=
  bitLen_unique hlt h1 hlt (by omega)

theorem bitLen_half {w n : Nat} (hlt : n < 2 ^ w) : bitLen w (n / 2) = bitLen w n - 1 := by
  cases w with
  | zero => simp at hlt; subst hlt; simp
  | succ w =>
    by_cases hn : n = 0
    · subst hn; simp
    · have h2 : n / 2 < 2 ^ w := by
        have : 2 ^ (w + 1) = 2 * 2 ^ w := by rw [Nat.pow_succ]; omega
        omega
      have : bitLen (w + 1) n = 1 + bitLen w (n / 2) := by simp [bitLen, hn]
      rw [this, bitLen_width (w := w + 1) (w' := w) (by omega) h2]
      omega

theorem lt_two_pow_bitLen {w n : Nat} (hlt : n < 2 ^ w) : n < 2 ^ bitLen w n := by
  by_cases hn : n = 0
  · subst hn; simp
  · exact (bitLen_spec hn hlt).2

/-! ### ctzB -/

@[simp] theorem ctzB_zero (w : Nat) : ctzB w 0 = w := by
  induction w with
  | zero => simp [ctzB]
  | succ w ih => simp [ctzB, ih]; omega

theorem ctzB_le (w n : Nat) : ctzB w n ≤ w := by
  induction w generalizing n with
  | zero => simp [ctzB]
  | succ w ih =>
    simp only [ctzB]; split
    · omega
    · have := ih (n / 2); omega

/-- `ctzB` only looks at the low bits: if the low `k` bits agree and are not all zero,
    the widths do not matter -/
theorem ctzB_congr {k w w' a b : Nat} (hk : k ≤ w) (hk' : k ≤ w') (h : a % 2 ^ k = b % 2 ^ k)
    (hne : a % 2 ^ k ≠ 0) : ctzB w a = ctzB w' b := by
  induction k generalizing w w' a b with
  | zero => simp [Nat.mod_one] at hne
  | succ k ih =>
    obtain ⟨w0, rfl⟩ : ∃ w0, w = w0 + 1 := ⟨w - 1, by omega⟩
    obtain ⟨w0', rfl⟩ : ∃ w0', w' = w0' + 1 := ⟨w' - 1, by omega⟩
    have hp : 2 ^ (k + 1) = 2 * 2 ^ k := by rw [Nat.pow_succ]; omega
    have hmod2 : a % 2 = b % 2 := by
      have h1 : a % 2 ^ (k + 1) % 2 = a % 2 := Nat.mod_mod_of_dvd a ⟨2 ^ k, hp⟩
      have h2 : b % 2 ^ (k + 1) % 2 = b % 2 := Nat.mod_mod_of_dvd b ⟨2 ^ k, hp⟩
      rw [← h1, ← h2, h]
    simp only [ctzB]
    by_cases ha : a % 2 = 1
    · simp [ha, ← hmod2]
    · have hb : ¬ b % 2 = 1 := by omega
      simp only [ha, hb, if_false]
      congr 1
      have e1 : a / 2 % 2 ^ k = a % 2 ^ (k + 1) / 2 := by
        rw [hp, Nat.mod_mul_right_div_self]
      have e2 : b / 2 % 2 ^ k = b % 2 ^ (k + 1) / 2 := by
        rw [hp, Nat.mod_mul_right_div_self]
      apply ih (by omega) (by omega)
      · rw [e1, e2, h]
      · rw [e1]
        have h3 : a % 2 ^ (k + 1) % 2 = a % 2 := Nat.mod_mod_of_dvd a ⟨2 ^ k, hp⟩
        omega

/-- `2^ctzB` is the largest power of two dividing a non-zero `n < 2^w` -/
theorem ctzB_spec {w n : Nat} (hn : n ≠ 0) (hlt : n < 2 ^ w) :
    2 ^ ctzB w n ∣ n ∧ ¬ 2 ^ (ctzB w n + 1) ∣ n := by
  induction w generalizing n with
  | zero => simp at hlt; omega
  | succ w ih =>
    simp only [ctzB]
    by_cases h1 : n % 2 = 1
    · simp only [h1, if_true]
      refine ⟨by simp, ?_⟩
      intro h; have := Nat.mod_eq_zero_of_dvd h; simp at this; omega
    · simp only [h1, if_false]
      have h2 : n / 2 ≠ 0 := by omega
      have hlt' : n / 2 < 2 ^ w := by
        have : 2 ^ (w + 1) = 2 * 2 ^ w := by rw [Nat.pow_succ]; omega
        omega
      obtain ⟨d1, d2⟩ := ih h2 hlt'
      have hn2 : n = 2 * (n / 2) := by omega
      generalize n / 2 = m at *
      subst hn2
      constructor
      · rw [Nat.add_comm, Nat.pow_succ, Nat.mul_comm]
        exact Nat.mul_dvd_mul_left 2 d1
      · intro h
        apply d2
        have e : 2 ^ (1 + ctzB w m + 1) = 2 * 2 ^ (ctzB w m + 1) := by
          rw [show 1 + ctzB w m + 1 = (ctzB w m + 1) + 1 by omega, Nat.pow_succ]; omega
        rw [e] at h
        exact (Nat.mul_dvd_mul_iff_left (by omega : 0 < 2)).mp h


/-! ### bit smearing: `n |= n >> 1; n |= n >> 2; n |= n >> 4; …` -/

/-- `n ||| n>>>1 ||| … ||| n>>>(s-1)` -/
def orShifts (n : Nat) : Nat → Nat
  | 0 => 0
  | s + 1 => orShifts n s ||| (n >>> s)

theorem testBit_orShifts (n s i : Nat) :
    (orShifts n s).testBit i = true ↔ ∃ t, t < s ∧ n.testBit (i + t) = true := by
  induction s with
  | zero => simp [orShifts]
  | succ s ih =>
    simp only [orShifts, Nat.testBit_or, Bool.or_eq_true, ih, Nat.testBit_shiftRight]
    constructor
    · rintro (⟨t, ht, hb⟩ | hb)
      · exact ⟨t, by omega, hb⟩
      · exact ⟨s, by omega, by rw [Nat.add_comm]; exact hb⟩
    · rintro ⟨t, ht, hb⟩
      by_cases e : t = s
      · subst e; right; rw [Nat.add_comm]; exact hb
      · left; exact ⟨t, by omega, hb⟩

theorem orShifts_one (n : Nat) : orShifts n 1 = n := by simp [orShifts]

/-- one smearing stage doubles the window -/
theorem orShifts_double (n s : Nat) :
    orShifts n s ||| (orShifts n s >>> s) = orShifts n (2 * s) := by
  apply Nat.eq_of_testBit_eq
  intro i
  rw [Bool.eq_iff_iff]
  simp only [Nat.testBit_or, Bool.or_eq_true, Nat.testBit_shiftRight, testBit_orShifts]
  constructor
  · rintro (⟨t, ht, hb⟩ | ⟨t, ht, hb⟩)
    · exact ⟨t, by omega, hb⟩
    · exact ⟨s + t, by omega, by rw [← Nat.add_assoc, Nat.add_comm i s]; exact hb⟩
  · rintro ⟨t, ht, hb⟩
    by_cases e : t < s
    · left; exact ⟨t, e, hb⟩
    · right
      refine ⟨t - s, by omega, ?_⟩
      have : s + i + (t - s) = i + t := by omega
      rw [this]; exact hb

theorem testBit_bitLen_pred {w n : Nat} (hn : n ≠ 0) (hlt : n < 2 ^ w) :
    n.testBit (bitLen w n - 1) = true := by
  obtain ⟨h1, h2⟩ := bitLen_spec hn hlt
  have hw : w ≠ 0 := by intro h; subst h; simp at hlt; omega
  have hp := bitLen_pos hn hw
  rw [Nat.testBit_eq_decide_div_mod_eq]
  have hpos : 0 < 2 ^ (bitLen w n - 1) := Nat.pow_pos (by omega)
  have e : 2 ^ bitLen w n = 2 * 2 ^ (bitLen w n - 1) := by
    have : bitLen w n = (bitLen w n - 1) + 1 := by omega
    rw [this, Nat.pow_succ]; simp; omega
  have hq : n / 2 ^ (bitLen w n - 1) < 2 := by apply Nat.div_lt_of_lt_mul; omega
  have : 1 ≤ n / 2 ^ (bitLen w n - 1) := (Nat.one_le_div_iff hpos).mpr h1
  simp; omega

/-- smearing over the whole width sets exactly the bits below the most significant one -/
theorem orShifts_full {w n : Nat} (hlt : n < 2 ^ w) : orShifts n w = 2 ^ bitLen w n - 1 := by
  apply Nat.eq_of_testBit_eq
  intro i
  rw [Nat.testBit_two_pow_sub_one, Bool.eq_iff_iff, testBit_orShifts]
  simp only [decide_eq_true_eq]
  constructor
  · rintro ⟨t, _, hb⟩
    rcases Nat.lt_or_ge (i + t) (bitLen w n) with h | h
    · omega
    · have : n < 2 ^ (i + t) :=
        Nat.lt_of_lt_of_le (lt_two_pow_bitLen hlt) (Nat.pow_le_pow_right (by omega) h)
      rw [Nat.testBit_lt_two_pow this] at hb; cases hb
  · intro hi
    have hn : n ≠ 0 := by intro h; subst h; simp at hi
    have hb := bitLen_le w n
    refine ⟨bitLen w n - 1 - i, by omega, ?_⟩
    have : i + (bitLen w n - 1 - i) = bitLen w n - 1 := by omega
    rw [this]; exact testBit_bitLen_pred hn hlt

theorem orShifts_lt {w n : Nat} (hlt : n < 2 ^ w) (s : Nat) : orShifts n s < 2 ^ w := by
  apply Nat.lt_pow_two_of_testBit
  intro i hi
  cases h : (orShifts n s).testBit i with
  | false => rfl
  | true =>
    obtain ⟨t, _, hb⟩ := (testBit_orShifts n s i).mp h
    have : n < 2 ^ (i + t) := Nat.lt_of_lt_of_le hlt (Nat.pow_le_pow_right (by omega) (by omega))
    rw [Nat.testBit_lt_two_pow this] at hb; cases hb

/-- the smearing loop on natural numbers (`k` doubles until it equals the width) -/
def smearNat (w : Nat) : Nat → Nat → Nat → Option Nat
  | 0, _, _ => none
  | fuel + 1, k, n => if k = w then some n else smearNat w fuel (k <<< 1) (n ||| n >>> k)

theorem smearNat_spec (m : Nat) (n0 : Nat) (j fuel : Nat) (hj : j ≤ m) (hf : m - j < fuel) :
    smearNat (2 ^ m) fuel (2 ^ j) (orShifts n0 (2 ^ j)) = some (orShifts n0 (2 ^ m)) := by
  induction fuel generalizing j with
  | zero => omega
  | succ fuel ih =>
    simp only [smearNat]
    by_cases e : j = m
    · subst e; simp
    · have hne : ¬ 2 ^ j = 2 ^ m := by
        intro h
        rcases Nat.lt_or_ge j m with h' | h'
        · have := Nat.pow_lt_pow_right (a := 2) (by omega) h'; omega
        · omega
      simp only [hne, if_false]
      have e1 : 2 ^ j <<< 1 = 2 ^ (j + 1) := by rw [Nat.shiftLeft_eq, Nat.pow_one, Nat.pow_succ]
      rw [e1, orShifts_double, show 2 * 2 ^ j = 2 ^ (j + 1) by rw [Nat.pow_succ]; omega]
      exact ih (j + 1) (by omega) (by omega)

/-- for a width that is a power of two the loop terminates and smears over the whole width -/
theorem smearNat_eq (m n : Nat) (hlt : n < 2 ^ 2 ^ m) :
    smearNat (2 ^ m) (2 ^ m + 1) 1 n = some (2 ^ bitLen (2 ^ m) n - 1) := by
  have h := smearNat_spec m n 0 (2 ^ m + 1) (by omega) (by
    have : m < 2 ^ m := Nat.lt_two_pow_self
    omega)
  simp only [Nat.pow_zero, orShifts_one] at h
  rw [h, orShifts_full hlt]


/-! ### ceiling division -/

/-- `q` is `⌈n / k⌉`: the least `q` with `n ≤ q * k` -/
def IsCeilDiv (q n k : Nat) : Prop := n ≤ q * k ∧ ∀ q', n ≤ q' * k → q ≤ q'

theorem ceil_eq (n k : Nat) (hk : 0 < k) :
    n / k + (if 0 < n % k then 1 else 0) = (n + k - 1) / k := by
  have h := Nat.div_add_mod n k
  have hr := Nat.mod_lt n hk
  symm
  generalize n / k = q at *
  generalize n % k = r at *
  apply Nat.div_eq_of_lt_le
  · rw [Nat.add_mul, Nat.mul_comm q k]
    split <;> omega
  · rw [Nat.add_mul, Nat.add_mul, Nat.mul_comm q k]
    split <;> omega

theorem ceil_spec (n k : Nat) (hk : 0 < k) :
    IsCeilDiv (n / k + (if 0 < n % k then 1 else 0)) n k := by
  have h := Nat.div_add_mod n k
  have hr := Nat.mod_lt n hk
  constructor
  · rw [Nat.add_mul, Nat.mul_comm (n / k) k]
    split <;> omega
  · intro q' hq'
    -- q' * k ≥ n = k * (n/k) + r  ⟹  q' ≥ n/k, and > n/k when r > 0
    have h1 : n / k ≤ q' := by
      rcases Nat.lt_or_ge q' (n / k) with hlt | hge
      · have : (q' + 1) * k ≤ (n / k) * k := Nat.mul_le_mul_right k hlt
        rw [Nat.add_mul, Nat.mul_comm (n / k) k] at this
        omega
      · exact hge
    split
    · next hpos =>
      rcases Nat.lt_or_ge (n / k) q' with hlt | hge
      · omega
      · have : q' = n / k := by omega
        subst this
        rw [Nat.mul_comm] at hq'
        omega
    · omega

theorem ceil_le_self (n k : Nat) (hk : 0 < k) : n / k + (if 0 < n % k then 1 else 0) ≤ n := by
  have h := Nat.div_add_mod n k
  have hr := Nat.mod_lt n hk
  split
  · next hpos =>
    -- r > 0 ⟹ k ≥ 2 or ... : n = k*q + r ≥ q + 1
    have : n / k ≤ k * (n / k) := Nat.le_mul_of_pos_left _ hk
    omega
  · have : n / k ≤ k * (n / k) := Nat.le_mul_of_pos_left _ hk
    omega


theorem bitLen_shiftRight {w n : Nat} (hlt : n < 2 ^ w) (s : Nat) :
    bitLen w (n >>> s) = bitLen w n - s := by
  induction s with
  | zero => simp
  | succ s ih =>
    have hs : n >>> s < 2 ^ w := Nat.lt_of_le_of_lt (Nat.shiftRight_le n s) hlt
    rw [Nat.shiftRight_succ, bitLen_half hs, ih]; omega

theorem bitLen_ge_of_le {w n k : Nat} (hlt : n < 2 ^ w) (h : 2 ^ k ≤ n) : k + 1 ≤ bitLen w n := by
  have hn : n ≠ 0 := by have : 0 < 2 ^ k := Nat.pow_pos (by omega); omega
  have := (bitLen_spec hn hlt).2
  have := (Nat.pow_lt_pow_iff_right (by omega : 1 < 2)).mp (Nat.lt_of_le_of_lt h this)
  omega


/-! ### `n & (n-1) == 0` -/

theorem eq_zero_iff_half_and_parity (x : Nat) : x = 0 ↔ x / 2 = 0 ∧ x % 2 = 0 := by omega

theorem and_pred_eq_zero_iff (n : Nat) (hn : 0 < n) : n &&& (n - 1) = 0 ↔ ∃ k, n = 2 ^ k := by
  induction n using Nat.strongRecOn with
  | _ n ih =>
    rw [eq_zero_iff_half_and_parity, Nat.and_div_two]
    have hmod : (n &&& (n - 1)) % 2 = (n % 2) &&& ((n - 1) % 2) := by
      have := @Nat.and_mod_two_pow n (n - 1) 1
      simpa using this
    rw [hmod]
    rcases Nat.mod_two_eq_zero_or_one n with he | ho
    · -- even: n = 2m, m ≥ 1
      have hm : 0 < n / 2 := by omega
      have e1 : (n - 1) / 2 = n / 2 - 1 := by omega
      have e2 : (n - 1) % 2 = 1 := by omega
      rw [e1, he, e2]
      simp only [Nat.zero_and, and_true]
      rw [ih (n / 2) (by omega) hm]
      constructor
      · rintro ⟨k, hk⟩
        exact ⟨k + 1, by rw [Nat.pow_succ]; omega⟩
      · rintro ⟨k, hk⟩
        cases k with
        | zero => simp at hk; omega
        | succ k => exact ⟨k, by rw [Nat.pow_succ] at hk; omega⟩
    · -- odd: n = 2m + 1
      have e1 : (n - 1) / 2 = n / 2 := by omega
      have e2 : (n - 1) % 2 = 0 := by omega
      rw [e1, ho, e2, Nat.and_self]
      simp only [Nat.and_zero, and_true]
      constructor
      · intro h0
        exact ⟨0, by simp; omega⟩
      · rintro ⟨k, hk⟩
        cases k with
        | zero => simp at hk; omega
        | succ k => rw [Nat.pow_succ] at hk; omega

end TlxVerif.C20
