import TlxVerif.Model.C17Splay
/-! Helper lemmas for the splay-tree theorems of Props/C17. -/
namespace TlxVerif.C17
open Tree

/-- in-order keys of the left tree under construction (frames innermost first) -/
def inL : List LFrame → List Int
  | [] => []
  | f :: rest => inL rest ++ inorder f.1 ++ [f.2]

/-- in-order keys of the right tree under construction (frames innermost first) -/
def inR : List RFrame → List Int
  | [] => []
  | f :: rest => f.1 :: inorder f.2 ++ inR rest

theorem inorder_assembleL (hole : Tree) (L : List LFrame) :
    inorder (assembleL hole L) = inL L ++ inorder hole := by
  induction L generalizing hole with
  | nil => simp [assembleL, inL]
  | cons f rest ih =>
    simp only [assembleL, List.foldl_cons] at ih ⊢
    rw [ih]; simp [inL, inorder]

theorem inorder_assembleR (hole : Tree) (R : List RFrame) :
    inorder (assembleR hole R) = inorder hole ++ inR R := by
  induction R generalizing hole with
  | nil => simp [assembleR, inR]
  | cons f rest ih =>
    simp only [assembleR, List.foldl_cons] at ih ⊢
    rw [ih]; simp [inR, inorder]

/-- the loop never loses or reorders a key -/
theorem splayLoop_inorder (lt : Int → Int → Bool) (k : Int) (t : Tree) (L : List LFrame) (R : List RFrame) :
    inL (splayLoop lt k t L R).2.1 ++ inorder (splayLoop lt k t L R).1 ++ inR (splayLoop lt k t L R).2.2
      = inL L ++ inorder t ++ inR R := by
  fun_induction splayLoop lt k t L R <;> simp_all [inL, inR, inorder]

theorem splayLoop_ne_nil (lt : Int → Int → Bool) (k : Int) (t : Tree) (L : List LFrame) (R : List RFrame)
    (h : t ≠ .nil) : (splayLoop lt k t L R).1 ≠ .nil := by
  fun_induction splayLoop lt k t L R <;> simp_all

end TlxVerif.C17

namespace TlxVerif.C17
open Tree

theorem splay_node (lt : Int → Int → Bool) (k : Int) (l : Tree) (x : Int) (r : Tree) :
    splay lt k (.node l x r) =
      match splayLoop lt k (.node l x r) [] [] with
      | (.nil, _, _) => .nil
      | (.node l' x' r', L, R) => .node (assembleL l' L) x' (assembleR r' R) := by
  rfl

theorem splay_inorder (lt : Int → Int → Bool) (k : Int) (t : Tree) :
    inorder (splay lt k t) = inorder t := by
  cases t with
  | nil => simp [splay]
  | node l x r =>
    rw [splay_node]
    have h1 := splayLoop_inorder lt k (.node l x r) [] []
    have h2 := splayLoop_ne_nil lt k (.node l x r) [] [] (by simp)
    generalize splayLoop lt k (.node l x r) [] [] = res at h1 h2
    obtain ⟨t', L, R⟩ := res
    cases t' with
    | nil => simp at h2
    | node l' x' r' =>
      simp [inL, inR] at h1
      simp [inorder, inorder_assembleL, inorder_assembleR]
      simpa [inorder] using h1

/-- `Compare` is a strict weak order -/
structure StrictWeak (lt : Int → Int → Bool) : Prop where
  irrefl : ∀ a, lt a a = false
  trans : ∀ a b c, lt a b = true → lt b c = true → lt a c = true
  negTrans : ∀ a b c, lt a c = true → lt a b = true ∨ lt b c = true

namespace StrictWeak
variable {lt : Int → Int → Bool} (sw : StrictWeak lt)
include sw

theorem asymm {a b : Int} (h : lt a b = true) : lt b a = false := by
  cases hba : lt b a with
  | false => rfl
  | true => have := sw.trans a b a h hba; simp [sw.irrefl] at this

theorem le_trans {a b c : Int} (h1 : lt b a = false) (h2 : lt c b = false) : lt c a = false := by
  cases h : lt c a with
  | false => rfl
  | true => rcases sw.negTrans c b a h with h' | h' <;> simp_all

theorem le_lt {a b c : Int} (h1 : lt b a = false) (h2 : lt b c = true) : lt a c = true := by
  rcases sw.negTrans b a c h2 with h' | h' <;> simp_all

theorem lt_le {a b c : Int} (h1 : lt a b = true) (h2 : lt c b = false) : lt a c = true := by
  rcases sw.negTrans a c b h1 with h' | h' <;> simp_all

end StrictWeak

/-- search-tree invariant (non-strict: duplicates allowed) -/
def Bst (lt : Int → Int → Bool) : Tree → Prop
  | .nil => True
  | .node l x r => Bst lt l ∧ Bst lt r ∧ (∀ a ∈ inorder l, lt x a = false) ∧ (∀ b ∈ inorder r, lt b x = false)

def FramesLt (lt : Int → Int → Bool) (k : Int) (L : List LFrame) : Prop :=
  ∀ f ∈ L, lt f.2 k = true ∧ ∀ a ∈ inorder f.1, lt a k = true
def FramesGt (lt : Int → Int → Bool) (k : Int) (R : List RFrame) : Prop :=
  ∀ f ∈ R, lt k f.1 = true ∧ ∀ b ∈ inorder f.2, lt k b = true

theorem mem_inL {a : Int} {L : List LFrame} : a ∈ inL L ↔ ∃ f ∈ L, a = f.2 ∨ a ∈ inorder f.1 := by
  induction L with
  | nil => simp [inL]
  | cons f rest ih => simp [inL, ih]; grind

theorem mem_inR {a : Int} {R : List RFrame} : a ∈ inR R ↔ ∃ f ∈ R, a = f.1 ∨ a ∈ inorder f.2 := by
  induction R with
  | nil => simp [inR]
  | cons f rest ih => simp [inR, ih]; grind

end TlxVerif.C17

namespace TlxVerif.C17
open Tree

/-- what the loop guarantees about the node it stops at -/
def StopAt (lt : Int → Int → Bool) (k : Int) : Tree → Prop
  | .nil => False
  | .node l x r => (lt k x = true → l = .nil) ∧ (lt x k = true → r = .nil)

theorem splayLoop_spec {lt : Int → Int → Bool} (sw : StrictWeak lt) (k : Int) (t : Tree)
    (L : List LFrame) (R : List RFrame) (hne : t ≠ .nil)
    (hb : Bst lt t) (hL : FramesLt lt k L) (hR : FramesGt lt k R) :
    FramesLt lt k (splayLoop lt k t L R).2.1 ∧ FramesGt lt k (splayLoop lt k t L R).2.2 ∧
    Bst lt (splayLoop lt k t L R).1 ∧ StopAt lt k (splayLoop lt k t L R).1 := by
  fun_induction splayLoop lt k t L R with
  | case1 => simp at hne
  | case2 x r L R h => have := sw.asymm h; simp_all [StopAt, Bst]
  | case3 x r L R h1 y b h2 =>
    -- break after the right rotation
    refine ⟨hL, hR, ?_, ?_⟩
    · simp only [Bst, inorder] at hb ⊢
      obtain ⟨⟨-, hbb, -, hyb⟩, hr, hlx, hrx⟩ := hb
      refine ⟨trivial, ⟨hbb, hr, ?_, hrx⟩, by simp, ?_⟩
      · intro c hc; exact hlx c (by simp [hc])
      · intro c hc
        simp at hc
        have hxy : lt x y = false := hlx y (by simp)
        rcases hc with hc | rfl | hc
        · exact hyb c hc
        · exact hxy
        · exact sw.le_trans hxy (hrx c hc)
    · have := sw.asymm h2; simp_all [StopAt]
  | case4 x r L R h1 y b h2 a1 z a2 ih =>
    -- right rotation, then link right
    simp only [Bst, inorder] at hb
    obtain ⟨⟨ha, hbb, hya, hyb⟩, hr, hlx, hrx⟩ := hb
    apply ih (by simp) ha hL
    intro f hf
    simp at hf
    rcases hf with rfl | hf
    · refine ⟨h2, ?_⟩
      intro c hc
      simp [inorder] at hc
      have hxy : lt x y = false := hlx y (by simp)
      rcases hc with hc | rfl | hc
      · exact sw.lt_le h2 (hyb c hc)
      · exact h1
      · exact sw.lt_le h1 (hrx c hc)
    · exact hR f hf
  | case5 x r L R h1 a y b h2 ih =>
    -- link right
    simp only [Bst, inorder] at hb
    obtain ⟨hl, hr, hlx, hrx⟩ := hb
    apply ih (by simp) hl hL
    intro f hf
    simp at hf
    rcases hf with rfl | hf
    · exact ⟨h1, fun c hc => sw.lt_le h1 (hrx c hc)⟩
    · exact hR f hf
  | case6 l x L R h1 h2 => simp_all [StopAt, Bst]
  | case7 l x L R h1 h2 a y h3 =>
    -- break after the left rotation
    refine ⟨hL, hR, ?_, ?_⟩
    · simp only [Bst, inorder] at hb ⊢
      obtain ⟨hl, ⟨haa, -, hya, -⟩, hlx, hrx⟩ := hb
      refine ⟨⟨hl, haa, hlx, ?_⟩, trivial, ?_, by simp⟩
      · intro c hc; exact hrx c (by simp [hc])
      · intro c hc
        simp at hc
        have hxy : lt y x = false := hrx y (by simp)
        rcases hc with hc | rfl | hc
        · exact sw.le_trans (hlx c hc) hxy
        · exact hxy
        · exact hya c hc
    · have := sw.asymm h3; simp_all [StopAt]
  | case8 l x L R h1 h2 a y h3 b1 z b2 ih =>
    simp only [Bst, inorder] at hb
    obtain ⟨hl, ⟨haa, hb', hya, hyb⟩, hlx, hrx⟩ := hb
    apply ih (by simp) hb' ?_ hR
    intro f hf
    simp at hf
    rcases hf with rfl | hf
    · refine ⟨h3, ?_⟩
      intro c hc
      simp [inorder] at hc
      rcases hc with hc | rfl | hc
      · exact sw.le_lt (hlx c hc) h2
      · exact h2
      · exact sw.le_lt (hya c hc) h3
    · exact hL f hf
  | case9 l x L R h1 h2 a y b h3 ih =>
    simp only [Bst, inorder] at hb
    obtain ⟨hl, hr, hlx, hrx⟩ := hb
    apply ih (by simp) hr ?_ hR
    intro f hf
    simp at hf
    rcases hf with rfl | hf
    · exact ⟨h2, fun c hc => sw.le_lt (hlx c hc) h2⟩
    · exact hL f hf
  | case10 l x r L R h1 h2 => simp_all [StopAt]

end TlxVerif.C17

namespace TlxVerif.C17
open Tree

/-- non-strictly sorted by `lt` -/
def SortedLe (lt : Int → Int → Bool) (l : List Int) : Prop := l.Pairwise (fun a b => lt b a = false)

theorem bst_iff_sorted {lt : Int → Int → Bool} (sw : StrictWeak lt) (t : Tree) :
    Bst lt t ↔ SortedLe lt (inorder t) := by
  induction t with
  | nil => simp [Bst, SortedLe, inorder]
  | node l x r ihl ihr =>
    simp only [Bst, inorder, SortedLe, List.pairwise_append, List.pairwise_cons, List.mem_cons] at *
    rw [ihl, ihr]
    constructor
    · rintro ⟨hl, hr, hlx, hrx⟩
      refine ⟨hl, ⟨hrx, hr⟩, ?_⟩
      intro a ha b hb
      rcases hb with rfl | hb
      · exact hlx a ha
      · exact sw.le_trans (hlx a ha) (hrx b hb)
    · rintro ⟨hl, ⟨hrx, hr⟩, h⟩
      exact ⟨hl, hr, fun a ha => h a ha x (Or.inl rfl), hrx⟩

theorem splay_bst {lt : Int → Int → Bool} (sw : StrictWeak lt) (k : Int) (t : Tree) (h : Bst lt t) :
    Bst lt (splay lt k t) := by
  rw [bst_iff_sorted sw] at h ⊢
  rwa [splay_inorder]

/-- the root of a splayed tree separates the keys around `k` -/
structure Parted (lt : Int → Int → Bool) (k : Int) (l : Tree) (x : Int) (r : Tree) : Prop where
  left_le : ∀ a ∈ inorder l, lt k a = false
  right_ge : ∀ b ∈ inorder r, lt b k = false
  left_lt : (lt k x = true ∨ lt x k = true) → ∀ a ∈ inorder l, lt a k = true
  right_gt : (lt k x = true ∨ lt x k = true) → ∀ b ∈ inorder r, lt k b = true

theorem splay_parted {lt : Int → Int → Bool} (sw : StrictWeak lt) (k : Int) (t : Tree) (hne : t ≠ .nil)
    (hb : Bst lt t) : ∃ l x r, splay lt k t = .node l x r ∧ Parted lt k l x r := by
  cases t with
  | nil => simp at hne
  | node l0 x0 r0 =>
    rw [splay_node]
    have hs := splayLoop_spec sw k (.node l0 x0 r0) [] [] (by simp) hb
      (by intro f hf; simp at hf) (by intro f hf; simp at hf)
    generalize splayLoop lt k (.node l0 x0 r0) [] [] = res at hs
    obtain ⟨t', L, R⟩ := res
    obtain ⟨hL, hR, hbt, hstop⟩ := hs
    cases t' with
    | nil => simp [StopAt] at hstop
    | node l x r =>
      simp only [StopAt] at hstop
      simp only [Bst] at hbt
      obtain ⟨-, -, hlx, hrx⟩ := hbt
      refine ⟨_, _, _, rfl, ?_⟩
      have hLlt : ∀ a ∈ inL L, lt a k = true := by
        intro a ha
        obtain ⟨f, hf, h⟩ := mem_inL.mp ha
        rcases h with rfl | h
        · exact (hL f hf).1
        · exact (hL f hf).2 a h
      have hRgt : ∀ b ∈ inR R, lt k b = true := by
        intro b hb'
        obtain ⟨f, hf, h⟩ := mem_inR.mp hb'
        rcases h with rfl | h
        · exact (hR f hf).1
        · exact (hR f hf).2 b h
      constructor
      · intro a ha
        simp only [inorder_assembleL, List.mem_append] at ha
        rcases ha with ha | ha
        · exact sw.asymm (hLlt a ha)
        · cases hkx : lt k x with
          | true => simp [hstop.1 hkx, inorder] at ha
          | false => exact sw.le_trans (hlx a ha) hkx
      · intro b hb'
        simp only [inorder_assembleR, List.mem_append] at hb'
        rcases hb' with hb' | hb'
        · cases hxk : lt x k with
          | true => simp [hstop.2 hxk, inorder] at hb'
          | false => exact sw.le_trans hxk (hrx b hb')
        · exact sw.asymm (hRgt b hb')
      · intro hor a ha
        simp only [inorder_assembleL, List.mem_append] at ha
        rcases ha with ha | ha
        · exact hLlt a ha
        · rcases hor with hkx | hxk
          · simp [hstop.1 hkx, inorder] at ha
          · exact sw.le_lt (hlx a ha) hxk
      · intro hor b hb'
        simp only [inorder_assembleR, List.mem_append] at hb'
        rcases hb' with hb' | hb'
        · rcases hor with hkx | hxk
          · exact sw.lt_le hkx (hrx b hb')
          · simp [hstop.2 hxk, inorder] at hb'
        · exact hRgt b hb'

theorem attachRightmost_inorder (x r : Tree) : inorder (attachRightmost x r) = inorder x ++ inorder r := by
  induction x with
  | nil => simp [attachRightmost, inorder]
  | node a y b _ ihb => simp [attachRightmost, inorder, ihb]

theorem size_eq_length (t : Tree) : t.size = (inorder t).length := by
  induction t with
  | nil => rfl
  | node l x r ihl ihr => simp [Tree.size, inorder, ihl, ihr]; omega

end TlxVerif.C17

namespace TlxVerif.C17
open Tree

theorem pairwise_insert_middle {R : Int → Int → Prop} {p s : List Int} {k : Int}
    (h : (p ++ s).Pairwise R) (hp : ∀ a ∈ p, R a k) (hs : ∀ b ∈ s, R k b) :
    (p ++ k :: s).Pairwise R := by
  simp only [List.pairwise_append, List.pairwise_cons, List.mem_cons] at *
  obtain ⟨h1, h2, h3⟩ := h
  refine ⟨h1, ⟨hs, h2⟩, ?_⟩
  intro a ha b hb
  rcases hb with rfl | hb
  · exact hp a ha
  · exact h3 a ha b hb

theorem splayInsert_perm (lt : Int → Int → Bool) (k : Int) (t : Tree) :
    (inorder (splayInsert lt k t)).Perm (k :: inorder t) := by
  cases t with
  | nil => simp [splayInsert, inorder]
  | node l x r =>
    simp only [splayInsert]
    split
    · simp only [inorder]; exact List.perm_middle
    · simp only [inorder]
      refine List.perm_middle.trans ?_
      simp

theorem splayInsert_sorted {lt : Int → Int → Bool} (sw : StrictWeak lt) (k : Int) (l : Tree) (x : Int) (r : Tree)
    (hp : Parted lt k l x r) (hb : Bst lt (.node l x r)) :
    SortedLe lt (inorder (splayInsert lt k (.node l x r))) := by
  have hs := (bst_iff_sorted sw _).mp hb
  simp only [inorder, SortedLe] at hs
  simp only [splayInsert]
  split
  · rename_i hkx
    simp only [inorder, SortedLe, List.nil_append]
    apply pairwise_insert_middle hs hp.left_le
    intro b hb'
    simp only [List.mem_cons] at hb'
    rcases hb' with rfl | hb'
    · exact sw.asymm hkx
    · exact hp.right_ge b hb'
  · rename_i hkx
    simp only [inorder, SortedLe]
    apply pairwise_insert_middle (by simpa using hs)
    · intro a ha
      simp only [List.mem_append, List.mem_singleton] at ha
      rcases ha with ha | rfl
      · exact hp.left_le a ha
      · simpa using hkx
    · exact hp.right_ge

/-- tree-level specification of `splay_erase` -/
theorem splayErase_spec {lt : Int → Int → Bool} (sw : StrictWeak lt) (k : Int) (t : Tree) (hne : t ≠ .nil)
    (hb : Bst lt t) :
    ((splayErase lt k t).2 = true →
        ∃ pre x post, inorder t = pre ++ x :: post ∧ lt k x = false ∧ lt x k = false ∧
          inorder (splayErase lt k t).1 = pre ++ post) ∧
    ((splayErase lt k t).2 = false →
        inorder (splayErase lt k t).1 = inorder t ∧ ∀ a ∈ inorder t, lt a k = true ∨ lt k a = true) := by
  obtain ⟨l, x, r, hsp, hp⟩ := splay_parted sw k t hne hb
  have hin := splay_inorder lt k t
  rw [hsp] at hin
  simp only [inorder] at hin
  unfold splayErase
  rw [hsp]
  simp only
  cases hkx : lt k x <;> cases hxk : lt x k <;> simp only [Bool.not_false, Bool.not_true, Bool.and_self,
    Bool.and_false, Bool.false_and, if_true, if_false, Bool.true_and, Bool.and_true]
  · -- found
    cases l with
    | nil =>
      simp only [inorder, List.nil_append] at hin
      exact ⟨fun _ => ⟨[], x, inorder r, by simp [← hin], hkx, hxk, by simp⟩, by simp⟩
    | node a y b =>
      refine ⟨fun _ => ⟨inorder (.node a y b), x, inorder r, hin.symm, hkx, hxk, ?_⟩, by simp⟩
      simp [attachRightmost_inorder, splay_inorder]
  · refine ⟨by simp, fun _ => ⟨by simp [inorder, hin], ?_⟩⟩
    intro c hc
    rw [← hin] at hc
    simp only [List.mem_append, List.mem_cons] at hc
    rcases hc with hc | rfl | hc
    · exact Or.inl (hp.left_lt (Or.inr hxk) c hc)
    · exact Or.inl hxk
    · exact Or.inr (hp.right_gt (Or.inr hxk) c hc)
  · refine ⟨by simp, fun _ => ⟨by simp [inorder, hin], ?_⟩⟩
    intro c hc
    rw [← hin] at hc
    simp only [List.mem_append, List.mem_cons] at hc
    rcases hc with hc | rfl | hc
    · exact Or.inl (hp.left_lt (Or.inl hkx) c hc)
    · exact Or.inr hkx
    · exact Or.inr (hp.right_gt (Or.inl hkx) c hc)
  · have := sw.asymm hkx; simp_all


/-- `mn` is a least and `mx` a greatest key of `t` -/
def Ext (lt : Int → Int → Bool) (t : Tree) (mn mx : Int) : Prop :=
  mn ∈ inorder t ∧ mx ∈ inorder t ∧ ∀ a ∈ inorder t, lt a mn = false ∧ lt mx a = false

/-- what `splay_check` computes: `none` exactly for trees that are not search trees, otherwise the
extreme keys of the tree -/
theorem splayCheck_spec {lt : Int → Int → Bool} (sw : StrictWeak lt) (t : Tree) :
    match splayCheck lt t with
    | none => ¬ Bst lt t
    | some none => t = .nil
    | some (some (mn, mx)) => Bst lt t ∧ Ext lt t mn mx := by
  have letr : ∀ a b c, lt b a = false → lt c b = false → lt c a = false := fun a b c => sw.le_trans
  have irr := sw.irrefl
  induction t with
  | nil => simp [splayCheck]
  | node l x r ihl ihr =>
    simp only [splayCheck]
    cases hl : splayCheck lt l with
    | none =>
      simp only [hl] at ihl
      simp only [Bst]
      intro h; exact ihl h.1
    | some bl =>
      cases hr : splayCheck lt r with
      | none =>
        simp only [hr] at ihr
        simp only [Bst]
        intro h; exact ihr h.2.1
      | some br =>
        simp only [hl, hr] at ihl ihr
        rcases bl with _ | ⟨mnl, mxl⟩ <;> rcases br with _ | ⟨mnr, mxr⟩
        · simp only at ihl ihr; subst ihl; subst ihr
          simp [Bst, Ext, inorder, irr]
        · simp only at ihl ihr; subst ihl
          obtain ⟨bR, m1, m2, m3⟩ := ihr
          by_cases hc : lt mnr x = true
          · simp only [hc, Bool.not_true, Bool.and_false, Bool.false_eq_true, if_false, Bst]
            intro h; have := h.2.2.2 mnr m1; simp [hc] at this
          · have hc' : lt mnr x = false := by simpa using hc
            simp only [hc', Bool.not_false, Bool.and_self, if_true, Bst, Ext, inorder, List.nil_append,
              List.mem_cons, List.not_mem_nil]
            refine ⟨⟨trivial, bR, by simp, fun b hb => letr _ _ _ hc' (m3 b hb).1⟩, Or.inl trivial, Or.inr m2, ?_⟩
            rintro a (rfl | ha)
            · exact ⟨irr _, letr _ _ _ hc' (m3 mnr m1).2⟩
            · exact ⟨letr _ _ _ hc' (m3 a ha).1, (m3 a ha).2⟩
        · simp only at ihl ihr; subst ihr
          obtain ⟨bL, m1, m2, m3⟩ := ihl
          by_cases hc : lt x mxl = true
          · simp only [hc, Bool.not_true, Bool.false_and, Bool.false_eq_true, if_false, Bst]
            intro h; have := h.2.2.1 mxl m2; simp [hc] at this
          · have hc' : lt x mxl = false := by simpa using hc
            simp only [hc', Bool.not_false, Bool.and_self, if_true, Bst, Ext, inorder, List.mem_append,
              List.mem_cons, List.not_mem_nil, or_false]
            refine ⟨⟨bL, trivial, fun a ha => letr _ _ _ (m3 a ha).2 hc', by simp⟩, Or.inl m1, Or.inr trivial, ?_⟩
            rintro a (ha | rfl)
            · exact ⟨(m3 a ha).1, letr _ _ _ (m3 a ha).2 hc'⟩
            · exact ⟨letr _ _ _ (m3 mnl m1).2 hc', irr _⟩
        · obtain ⟨bL, l1, l2, l3⟩ := ihl
          obtain ⟨bR, r1, r2, r3⟩ := ihr
          by_cases hc1 : lt x mxl = true
          · simp only [hc1, Bool.not_true, Bool.false_and, Bool.false_eq_true, if_false, Bst]
            intro h; have := h.2.2.1 mxl l2; simp [hc1] at this
          · have hc1' : lt x mxl = false := by simpa using hc1
            by_cases hc2 : lt mnr x = true
            · simp only [hc1', hc2, Bool.not_true, Bool.not_false, Bool.and_false, Bool.false_eq_true, if_false, Bst]
              intro h; have := h.2.2.2 mnr r1; simp [hc2] at this
            · have hc2' : lt mnr x = false := by simpa using hc2
              have hlx : ∀ a ∈ inorder l, lt x a = false := fun a ha => letr _ _ _ (l3 a ha).2 hc1'
              have hrx : ∀ b ∈ inorder r, lt b x = false := fun b hb => letr _ _ _ hc2' (r3 b hb).1
              simp only [hc1', hc2', Bool.not_false, Bool.and_self, if_true, Bst, Ext, inorder, List.mem_append,
                List.mem_cons]
              refine ⟨⟨bL, bR, hlx, hrx⟩, Or.inl l1, Or.inr (Or.inr r2), ?_⟩
              rintro a (ha | rfl | ha)
              · exact ⟨(l3 a ha).1, letr _ _ _ (hlx a ha) (hrx mxr r2)⟩
              · exact ⟨hlx mnl l1, hrx mxr r2⟩
              · exact ⟨letr _ _ _ (hlx mnl l1) (hrx a ha), (r3 a ha).2⟩

/-- **`check()` is true exactly for search trees** (non-strict order, so also for duplicates) -/
theorem splayCheck_iff {lt : Int → Int → Bool} (sw : StrictWeak lt) (t : Tree) :
    (splayCheck lt t).isSome = true ↔ Bst lt t := by
  have := splayCheck_spec sw t
  cases h : splayCheck lt t with
  | none => simp only [h] at this; simp [this]
  | some b =>
    simp only [h] at this
    rcases b with _ | ⟨mn, mx⟩
    · simp only at this; subst this; simp [Bst]
    · simp [this.1]

end TlxVerif.C17
