/-
C01 — reverse iteration: `reverse_iterator::operator++` from `rbegin()` walks the entry sequence backwards;
`*rit` is the entry just before the position `(curr_leaf, curr_slot)`.
-/
import TlxVerif.Model.C01Tree
import TlxVerif.Proofs.C01Iter
namespace TlxVerif.C01

variable {K V : Type}

/-- a reverse position that refers to an entry: `1 ≤ curr_slot ≤ slotuse` -/
def RValidPos (ch : List (List (K × V))) (pos : Nat × Nat) : Prop :=
  ∃ leaf, ch[pos.1]? = some leaf ∧ 1 ≤ pos.2 ∧ pos.2 ≤ leaf.length

/-- `*rit` is the entry just below the rank of `(curr_leaf, curr_slot)` -/
theorem rderef_valid (ch : List (List (K × V))) (pos : Nat × Nat) (hv : RValidPos ch pos) :
    rderef ch pos = ch.flatten[rankOf ch (some pos) - 1]? := by
  obtain ⟨li, s⟩ := pos
  obtain ⟨leaf, hl, h1, h2⟩ := hv
  simp only at hl h1 h2
  have hfw : ValidPos ch (li, s - 1) := ⟨leaf, hl, by simp only; omega⟩
  have := deref_valid ch (li, s - 1) hfw
  have hr : rankOf ch (some (li, s - 1)) = rankOf ch (some (li, s)) - 1 := by
    simp only [rankOf_eq]; omega
  rw [hr] at this
  rw [← this]
  simp only [rderef, deref]
  rw [if_neg (by omega)]

/-- `++rit` moves one rank down and stays on entries until `rend()` -/
theorem ritInc_spec (ch : List (List (K × V))) (hne : ∀ l ∈ ch, l ≠ []) (pos : Nat × Nat) (hv : RValidPos ch pos) :
    rankOf ch (some (ritInc ch pos)) + 1 = rankOf ch (some pos) ∧
      (1 < rankOf ch (some pos) → RValidPos ch (ritInc ch pos)) := by
  obtain ⟨li, s⟩ := pos
  obtain ⟨leaf, hl, h1, h2⟩ := hv
  simp only at hl h1 h2
  simp only [ritInc]
  by_cases hs : s > 1
  · rw [if_pos hs]
    exact ⟨by simp only [rankOf_eq]; omega, fun _ => ⟨leaf, hl, by simp only; omega, by simp only; omega⟩⟩
  · rw [if_neg hs]
    have hs1 : s = 1 := by omega
    subst hs1
    by_cases hli : li > 0
    · rw [if_pos hli]
      obtain ⟨m, rfl⟩ : ∃ m, li = m + 1 := ⟨li - 1, by omega⟩
      simp only [Nat.add_sub_cancel]
      have hlt : m + 1 < ch.length := (List.getElem?_eq_some_iff.mp hl).1
      have hp : m < ch.length := by omega
      have hprev : ch[m]? = some ch[m] := List.getElem?_eq_getElem hp
      have hnn : ch[m] ≠ [] := hne _ (List.getElem_mem hp)
      have hpos : 0 < ch[m].length := List.length_pos_iff.mpr hnn
      simp only [hprev, Option.map_some, Option.getD_some]
      have hsum : ((ch.take (m + 1)).flatten).length = ((ch.take m).flatten).length + ch[m].length := by
        rw [List.take_add_one, hprev]
        simp only [Option.toList, List.flatten_append, List.length_append, List.flatten_cons, List.flatten_nil,
          List.append_nil]
      refine ⟨by simp only [rankOf_eq, hsum], fun _ => ⟨ch[m], hprev, by simp only; omega, by simp only; omega⟩⟩
    · rw [if_neg hli]
      have : li = 0 := by omega
      subst this
      refine ⟨by simp [rankOf], ?_⟩
      intro h; simp [rankOf] at h

/-- reverse iteration: `r` increments from `rbegin()` reach the `r`-th entry from the back -/
theorem iterate_rev (ch : List (List (K × V))) (hne : ∀ l ∈ ch, l ≠ []) (e : Nat × Nat) (he : IsEnd ch e)
    (htot : 0 < ch.flatten.length) :
    ∀ r, r < ch.flatten.length →
      RValidPos ch (iterN (ritInc ch) r e) ∧ rankOf ch (some (iterN (ritInc ch) r e)) + r = ch.flatten.length := by
  have hre := rankOf_isEnd ch e he
  have hev : RValidPos ch e := by
    obtain ⟨li, s⟩ := e
    obtain ⟨leaf, h1, h2, h3⟩ := he
    simp only at h1 h2 h3
    have hnn : leaf ≠ [] := hne leaf (List.mem_of_getElem? h1)
    have := List.length_pos_iff.mpr hnn
    exact ⟨leaf, h1, by simp only; omega, by simp only; omega⟩
  intro r
  induction r with
  | zero => intro _; exact ⟨hev, by simp [iterN, hre]⟩
  | succ r ih =>
    intro h
    obtain ⟨hv, hr⟩ := ih (by omega)
    simp only [iterN]
    obtain ⟨h1, h2⟩ := ritInc_spec ch hne _ hv
    exact ⟨h2 (by omega), by omega⟩

/-- the converting constructor leaves `end()` of a non-empty tree unchanged: `rbegin() = reverse_iterator(end())` -/
theorem toReverse_end (ch : List (List (K × V))) (hne : ∀ l ∈ ch, l ≠ []) (e : Nat × Nat) (he : IsEnd ch e) :
    toReverse ch e = e := by
  obtain ⟨li, s⟩ := e
  obtain ⟨leaf, h1, h2, h3⟩ := he
  simp only at h1 h2 h3
  have hnn : leaf ≠ [] := hne leaf (List.mem_of_getElem? h1)
  have := List.length_pos_iff.mpr hnn
  simp only [toReverse]
  rw [if_neg (by omega)]

/-- **reverse iteration** from `rbegin()` with `++` visits the entry sequence backwards -/
theorem iteration_rev_spec (p : Params K) (pv : p.Valid) (t : Tree K V) (ht : TreeInv p t) (e : Nat × Nat)
    (he : endPos t.leafChain = some e) (r : Nat) (hr : r < t.toList.length) :
    rderef t.leafChain (iterN (ritInc t.leafChain) r (toReverse t.leafChain e)) = t.toList[t.toList.length - 1 - r]? := by
  have hne := tree_chain_ne_nil p pv t ht
  have hend : IsEnd t.leafChain e := by
    unfold endPos at he
    cases hl : t.leafChain.getLast? with
    | none => rw [hl] at he; cases he
    | some l =>
      rw [hl] at he
      simp only [Option.some.injEq] at he
      subst he
      refine ⟨l, ?_, rfl, ?_⟩
      · simp only; rw [← hl, List.getLast?_eq_getElem?]
      · simp only
        have : t.leafChain ≠ [] := by intro hh; rw [hh] at hl; cases hl
        have := List.length_pos_iff.mpr this
        omega
  rw [toReverse_end _ hne e hend]
  rw [← tree_chain_flatten] at hr ⊢
  obtain ⟨hv, hrk⟩ := iterate_rev t.leafChain hne e hend (by omega) r hr
  rw [rderef_valid _ _ hv]
  congr 1
  omega

/-! ### the converting constructors (after the repair of B1) -/

/-- a forward position on an entry or one past the last slot of its leaf -/
def FwdForm (ch : List (List (K × V))) (pos : Nat × Nat) : Prop :=
  ∃ leaf, ch[pos.1]? = some leaf ∧ pos.2 ≤ leaf.length

theorem itInc_form (ch : List (List (K × V))) (pos : Nat × Nat) (hv : ValidPos ch pos) : FwdForm ch (itInc ch pos) := by
  obtain ⟨li, s⟩ := pos
  obtain ⟨leaf, hl, hs⟩ := hv
  simp only at hl hs
  simp only [itInc, hl, Option.map_some, Option.getD_some]
  by_cases h1 : s + 1 < leaf.length
  · rw [if_pos h1]; exact ⟨leaf, hl, by simp only; omega⟩
  · rw [if_neg h1]
    by_cases h2 : li + 1 < ch.length
    · rw [if_pos h2]; exact ⟨ch[li + 1], List.getElem?_eq_getElem h2, by simp⟩
    · rw [if_neg h2]; exact ⟨leaf, hl, by simp⟩

/-- `reverse_iterator(it)`: same rank, and it refers to the entry before `it` (std: `*prev(it)`) -/
theorem toReverse_spec (ch : List (List (K × V))) (hne : ∀ l ∈ ch, l ≠ []) (pos : Nat × Nat) (hf : FwdForm ch pos)
    (hr : 0 < rankOf ch (some pos)) :
    RValidPos ch (toReverse ch pos) ∧ rankOf ch (some (toReverse ch pos)) = rankOf ch (some pos) := by
  obtain ⟨li, s⟩ := pos
  obtain ⟨leaf, hl, hs⟩ := hf
  simp only at hl hs
  simp only [toReverse]
  by_cases h0 : s = 0 ∧ li > 0
  · rw [if_pos h0]
    obtain ⟨hs0, hli⟩ := h0
    subst hs0
    obtain ⟨m, rfl⟩ : ∃ m, li = m + 1 := ⟨li - 1, by omega⟩
    simp only [Nat.add_sub_cancel]
    have hlt : m + 1 < ch.length := (List.getElem?_eq_some_iff.mp hl).1
    have hp : m < ch.length := by omega
    have hprev : ch[m]? = some ch[m] := List.getElem?_eq_getElem hp
    have hnn : ch[m] ≠ [] := hne _ (List.getElem_mem hp)
    have hpos : 0 < ch[m].length := List.length_pos_iff.mpr hnn
    simp only [hprev, Option.map_some, Option.getD_some]
    have hsum : ((ch.take (m + 1)).flatten).length = ((ch.take m).flatten).length + ch[m].length := by
      rw [List.take_add_one, hprev]
      simp only [Option.toList, List.flatten_append, List.length_append, List.flatten_cons, List.flatten_nil,
        List.append_nil]
    exact ⟨⟨ch[m], hprev, by simp only; omega, by simp only; omega⟩, by simp only [rankOf_eq, hsum, Nat.add_zero]⟩
  · rw [if_neg h0]
    refine ⟨⟨leaf, hl, ?_, hs⟩, rfl⟩
    simp only
    rcases Nat.eq_zero_or_pos s with hs0 | hs0
    · subst hs0
      have : li = 0 := by omega
      subst this
      simp [rankOf] at hr
    · exact hs0

/-- **`*reverse_iterator(it)` is the entry before `it`** (B1): for the iterator `r ≥ 1` steps behind `begin()` -/
theorem rconv_spec (p : Params K) (pv : p.Valid) (t : Tree K V) (ht : TreeInv p t) (r : Nat) (h1 : 1 ≤ r)
    (h2 : r ≤ t.toList.length) :
    rderef t.leafChain (toReverse t.leafChain (iterN (itInc t.leafChain) r (0, 0))) = t.toList[r - 1]? := by
  have hne := tree_chain_ne_nil p pv t ht
  rw [← tree_chain_flatten] at h2 ⊢
  obtain ⟨m, rfl⟩ : ∃ m, r = m + 1 := ⟨r - 1, by omega⟩
  obtain ⟨hv, hrk⟩ := iterate_fwd t.leafChain hne m (by omega)
  simp only [iterN]
  obtain ⟨i1, _⟩ := itInc_spec t.leafChain hne _ hv
  have hform := itInc_form t.leafChain _ hv
  obtain ⟨q1, q2⟩ := toReverse_spec t.leafChain hne _ hform (by omega)
  rw [rderef_valid _ _ q1, q2, i1, hrk]

end TlxVerif.C01
