/-
C07 — sampling splitting: chunk boundaries are `upper_bound`s of a non-decreasing sequence of splitter
values, the last boundary is the end of every run.  Any such splitters give cross-ordered nested chunk
rows, hence (for size = total) the concatenation of the per-thread merges is the whole k-merge.
-/
import TlxVerif.Proofs.C07Exact
namespace TlxVerif.C07
open TlxVerif.C08 (StrictWeak)

theorem upperBound_le (lt : Int → Int → Bool) (v : Int) : ∀ r : List Elem, upperBound lt r v ≤ r.length
  | [] => by simp [upperBound]
  | a :: r => by
    have ih := upperBound_le lt v r
    unfold upperBound at ih ⊢
    simp only [List.takeWhile_cons]
    split <;> simp <;> omega

theorem upperBound_cons (lt : Int → Int → Bool) (v : Int) (a : Elem) (r : List Elem) :
    upperBound lt (a :: r) v = if lt v a.key then 0 else upperBound lt r v + 1 := by
  unfold upperBound
  simp only [List.takeWhile_cons]
  cases lt v a.key <;> simp

theorem mem_take_upperBound {lt : Int → Int → Bool} {v : Int} : ∀ {r : List Elem} {x : Elem},
    x ∈ r.take (upperBound lt r v) → lt v x.key = false
  | [], _, h => by simp at h
  | a :: r, x, h => by
    rw [upperBound_cons] at h
    cases hva : lt v a.key with
    | true => simp [hva] at h
    | false =>
      simp only [hva, Bool.false_eq_true, if_false, List.take_succ_cons, List.mem_cons] at h
      rcases h with h | h
      · subst h; exact hva
      · exact mem_take_upperBound h

theorem mem_drop_upperBound {lt : Int → Int → Bool} (hlt : StrictWeak lt) {v : Int} : ∀ {r : List Elem} {y : Elem},
    r.Pairwise (fun a b => lt b.key a.key = false) → y ∈ r.drop (upperBound lt r v) → lt v y.key = true
  | [], _, _, h => by simp at h
  | a :: r, y, hs, h => by
    have hs' := List.pairwise_cons.mp hs
    rw [upperBound_cons] at h
    cases hva : lt v a.key with
    | true =>
      simp only [hva, if_true, List.drop_zero, List.mem_cons] at h
      rcases h with h | h
      · subst h; exact hva
      · exact hlt.lt_of_lt_of_le hva (hs'.1 y h)
    | false =>
      simp only [hva, Bool.false_eq_true, if_false, List.drop_succ_cons] at h
      exact mem_drop_upperBound hlt hs'.2 h

theorem upperBound_mono {lt : Int → Int → Bool} (hlt : StrictWeak lt) {v v' : Int} (hv : lt v' v = false) :
    ∀ r : List Elem, upperBound lt r v ≤ upperBound lt r v'
  | [] => by simp [upperBound]
  | a :: r => by
    rw [upperBound_cons, upperBound_cons]
    cases hva : lt v a.key with
    | true => simp
    | false =>
      have : lt v' a.key = false := hlt.le_trans hva hv
      simp [this, upperBound_mono hlt hv r]

/-- the offset vector of one splitter value -/
def ubOffs (lt : Int → Int → Bool) (runs : List (List Elem)) (v : Int) : List Nat :=
  runs.map (fun r => upperBound lt r v)

def lens (runs : List (List Elem)) : List Nat := runs.map List.length

theorem crossOrdered_ub {lt : Int → Int → Bool} (hlt : StrictWeak lt) (tl : Elem → Elem → Prop)
    {runs : List (List Elem)} (hk : KeySorted lt runs) (v : Int) : CrossOrdered lt tl runs (ubOffs lt runs v) := by
  intro x hx y hy
  obtain ⟨i, ri, oi, hri, hoi, hxi⟩ := mem_takes_flatten hx
  obtain ⟨j, rj, oj, hrj, hoj, hyj⟩ := mem_drops_flatten hy
  have e1 : oi = upperBound lt ri v := by
    simp [ubOffs, hri] at hoi; exact hoi.symm
  have e2 : oj = upperBound lt rj v := by
    simp [ubOffs, hrj] at hoj; exact hoj.symm
  subst e1; subst e2
  have h1 := mem_take_upperBound hxi
  have h2 := mem_drop_upperBound hlt (hk rj (List.mem_of_getElem? hrj)) hyj
  exact Or.inl (hlt.lt_of_le_of_lt h1 h2)

theorem leAll_ub_ub {lt : Int → Int → Bool} (hlt : StrictWeak lt) {v v' : Int} (hv : lt v' v = false) :
    ∀ runs : List (List Elem), LeAll (ubOffs lt runs v) (ubOffs lt runs v')
  | [] => trivial
  | r :: rs => ⟨upperBound_mono hlt hv r, leAll_ub_ub hlt hv rs⟩

theorem leAll_ub_lens (lt : Int → Int → Bool) (v : Int) : ∀ runs : List (List Elem), LeAll (ubOffs lt runs v) (lens runs)
  | [] => trivial
  | r :: rs => ⟨upperBound_le lt v r, leAll_ub_lens lt v rs⟩

theorem leAll_zero : ∀ (o : List Nat), LeAll (List.replicate o.length 0) o
  | [] => trivial
  | _ :: o => ⟨Nat.zero_le _, leAll_zero o⟩

theorem takes_lens : ∀ runs : List (List Elem), takes runs (lens runs) = runs
  | [] => rfl
  | r :: rs => by
    have ih := takes_lens rs
    simp only [takes, lens, List.map_cons, List.zipWith_cons_cons, List.take_length] at ih ⊢
    rw [ih]

theorem drops_lens_flatten : ∀ runs : List (List Elem), (drops runs (lens runs)).flatten = []
  | [] => rfl
  | r :: rs => by
    have ih := drops_lens_flatten rs
    simp only [drops, lens, List.map_cons, List.zipWith_cons_cons, List.drop_length, List.flatten_cons,
      List.nil_append] at ih ⊢
    exact ih

theorem crossOrdered_lens (lt : Int → Int → Bool) (tl : Elem → Elem → Prop) (runs : List (List Elem)) :
    CrossOrdered lt tl runs (lens runs) := by
  intro x _ y hy
  rw [drops_lens_flatten] at hy; cases hy

theorem crossOrdered_zero (lt : Int → Int → Bool) (tl : Elem → Elem → Prop) (runs : List (List Elem)) (n : Nat) :
    CrossOrdered lt tl runs (List.replicate n 0) := by
  intro x hx
  rw [takes_zero_flatten] at hx; cases hx

/-- offset vectors of the sampling splitter: one per splitter value, then the ends of the runs -/
def samplingOffs (lt : Int → Int → Bool) (runs : List (List Elem)) (vs : List Int) : List (List Nat) :=
  vs.map (ubOffs lt runs) ++ [lens runs]

theorem chain_sampling {lt : Int → Int → Bool} (hlt : StrictWeak lt) (runs : List (List Elem)) :
    ∀ (vs : List Int) (v0 : Int), (v0 :: vs).Pairwise (fun a b => lt b a = false) →
      Chain (ubOffs lt runs v0) (samplingOffs lt runs vs)
  | [], v0, _ => ⟨leAll_ub_lens lt v0 runs, trivial⟩
  | v :: vs, v0, h => by
    have h' := List.pairwise_cons.mp h
    exact ⟨leAll_ub_ub hlt (h'.1 v List.mem_cons_self) runs, chain_sampling hlt runs vs v h'.2⟩

theorem lastOffs_append_singleton : ∀ (os : List (List Nat)) (prev last : List Nat), lastOffs prev (os ++ [last]) = last
  | [], _, _ => rfl
  | o :: os, _, last => lastOffs_append_singleton os o last

/-- **Sampling splitting theorem** (size = total): for every non-decreasing sequence of splitter values the
concatenation of the per-thread stable merges is the stable k-merge of the whole input. -/
theorem sampling_concat_eq_kMerge {lt : Int → Int → Bool} {tl : Elem → Elem → Prop} (hlt : StrictWeak lt)
    (htl : TagOrder tl) {runs : List (List Elem)} (hg : GoodRuns lt tl runs) (vs : List Int)
    (hvs : vs.Pairwise (fun a b => lt b a = false)) :
    ((chunkRows runs (List.replicate runs.length 0) (samplingOffs lt runs vs)).map (fun row => kMerge lt row)).flatten =
      kMerge lt runs := by
  have hc : runs.flatten.Pairwise (Cond lt tl) := hg.cond
  have hk : KeySorted lt runs := fun r hr => List.Pairwise.imp (fun hab => hab.1) (hg.inner r hr)
  have hchain : Chain (List.replicate runs.length 0) (samplingOffs lt runs vs) := by
    cases vs with
    | nil =>
      have := leAll_zero (lens runs)
      simp only [lens, List.length_map] at this
      exact ⟨this, trivial⟩
    | cons v vs =>
      have := leAll_zero (ubOffs lt runs v)
      simp only [ubOffs, List.length_map] at this
      exact ⟨this, chain_sampling hlt runs vs v hvs⟩
  have hcc := concat_chunks hlt htl hc (samplingOffs lt runs vs) (List.replicate runs.length 0) hchain
    (crossOrdered_zero lt tl runs _)
    (by
      intro o ho
      rcases List.mem_append.mp ho with ho | ho
      · obtain ⟨v, _, rfl⟩ := List.mem_map.mp ho
        exact ⟨by simp [ubOffs], crossOrdered_ub hlt tl hk v⟩
      · simp at ho; subst ho
        exact ⟨by simp [lens], crossOrdered_lens lt tl runs⟩)
  rw [takes_zero_flatten] at hcc
  simp only [sortStable, List.foldr_nil, List.nil_append] at hcc
  unfold samplingOffs at hcc
  rw [lastOffs_append_singleton, takes_lens] at hcc
  exact hcc.symm

/-! ### the splitters the code uses are non-decreasing -/

theorem sortKeys_perm (lt : Int → Int → Bool) (l : List Int) : (sortKeys lt l).Perm l :=
  List.mergeSort_perm l _

/-- model component: the sorted samples (`std::(stable_)sort(samples, comp)`) are non-decreasing, so the
splitter values read at non-decreasing indices satisfy the hypothesis of `sampling_concat_eq_kMerge` -/
theorem sortKeys_sorted {lt : Int → Int → Bool} (hlt : StrictWeak lt) (l : List Int) :
    (sortKeys lt l).Pairwise (fun a b => lt b a = false) := by
  have h := List.pairwise_mergeSort (le := fun a b => !lt b a)
    (by
      intro a b c hab hbc
      simp only [Bool.not_eq_true'] at hab hbc ⊢
      exact hlt.le_trans hab hbc)
    (by
      intro a b
      cases hba : lt b a with
      | false => simp
      | true => simp [hlt.asymm _ _ hba])
    l
  exact List.Pairwise.imp (fun hab => by simpa using hab) h

/-- values read from a non-decreasing list at non-decreasing positions are non-decreasing -/
theorem pairwise_map_getD {lt : Int → Int → Bool} (hlt : StrictWeak lt) {sorted : List Int}
    (hs : sorted.Pairwise (fun a b => lt b a = false)) :
    ∀ (idx : List Nat), idx.Pairwise (· ≤ ·) → (∀ i ∈ idx, i < sorted.length) →
      (idx.map (fun i => sorted.getD i 0)).Pairwise (fun a b => lt b a = false) := by
  intro idx hidx hb
  rw [List.pairwise_map]
  refine List.Pairwise.imp_of_mem ?_ hidx
  intro i j hi hj hij
  have hi' := hb i hi
  have hj' := hb j hj
  have e1 : sorted.getD i 0 = sorted[i] := by simp [List.getD, List.getElem?_eq_getElem hi']
  have e2 : sorted.getD j 0 = sorted[j] := by simp [List.getD, List.getElem?_eq_getElem hj']
  rw [e1, e2]
  rcases Nat.lt_or_eq_of_le hij with h | h
  · exact (List.pairwise_iff_getElem.mp hs) i j hi' hj' h
  · subst h; exact hlt.irrefl _

end TlxVerif.C07
