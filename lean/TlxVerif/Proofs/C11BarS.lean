import TlxVerif.Model.C11BarS
import TlxVerif.Proofs.C11BarM
/-!
Invariants of the ThreadBarrierSpin transition system over all interleavings,
for every thread count `n ≥ 1`, every number of generations, `wait()` and `wait_yield()`.
-/
namespace TlxVerif.C11.BarS
set_option linter.unusedSimpArgs false
open TlxVerif.C11.BarM (countP_modify countP_modify_same)

/-- states reachable under every schedule -/
inductive Reachable (n gens : Nat) (y : Bool) : State → Prop
  | init (ay : Nat) : Reachable n gens y (BarS.init n gens y ay)
  | step {s t c o} : Reachable n gens y s → step s t c = some o → Reachable n gens y o.st

/-! ### thread table accessors (as in Proofs/C11BarM.lean) -/

def dflt : Thread := { pc := .finished }
def getT (thr : List Thread) (t : Nat) : Thread := thr.getD t dflt

theorem getT_modify (thr : List Thread) (t u : Nat) (f : Thread → Thread) :
    getT (thr.modify t f) u = if t = u ∧ u < thr.length then f (getT thr u) else getT thr u := by
  unfold getT
  simp only [List.getD_eq_getElem?_getD, List.getElem?_modify]
  by_cases h : t = u
  · subst h
    by_cases hl : t < thr.length
    · simp [hl]
    · simp [hl]
  · simp [h]

theorem getT_of_getElem? {thr : List Thread} {t : Nat} {th : Thread} (h : thr[t]? = some th) : getT thr t = th := by
  simp [getT, List.getD_eq_getElem?_getD, h]

theorem lt_of_getElem? {thr : List Thread} {t : Nat} {th : Thread} (h : thr[t]? = some th) : t < thr.length :=
  (List.getElem?_eq_some_iff.mp h).1

theorem getElem_eq_getT {thr : List Thread} {t : Nat} (h : t < thr.length) : thr[t] = getT thr t := by
  simp [getT, List.getD_eq_getElem?_getD, List.getElem?_eq_getElem h]

theorem pcOf_eq (s : State) (t : Nat) : pcOf s t = (getT s.thr t).pc := by
  unfold pcOf getT
  simp only [List.getD_eq_getElem?_getD]
  cases s.thr[t]? <;> simp [dflt]

@[simp] theorem upd_thr (s : State) (t : Nat) (f : Thread → Thread) : (upd s t f).thr = s.thr.modify t f := rfl
@[simp] theorem upd_n (s : State) (t : Nat) (f : Thread → Thread) : (upd s t f).n = s.n := rfl
@[simp] theorem upd_gens (s : State) (t : Nat) (f : Thread → Thread) : (upd s t f).gens = s.gens := rfl
@[simp] theorem upd_waiting (s : State) (t : Nat) (f : Thread → Thread) : (upd s t f).waiting = s.waiting := rfl
@[simp] theorem upd_step (s : State) (t : Nat) (f : Thread → Thread) : (upd s t f).step = s.step := rfl
@[simp] theorem upd_spawned (s : State) (t : Nat) (f : Thread → Thread) : (upd s t f).spawned = s.spawned := rfl
@[simp] theorem upd_actions (s : State) (t : Nat) (f : Thread → Thread) : (upd s t f).actions = s.actions := rfl
@[simp] theorem upd_begun (s : State) (t : Nat) (f : Thread → Thread) : (upd s t f).begun = s.begun := rfl
@[simp] theorem upd_actYields (s : State) (t : Nat) (f : Thread → Thread) : (upd s t f).actYields = s.actYields := rfl
@[simp] theorem upd_yielding (s : State) (t : Nat) (f : Thread → Thread) : (upd s t f).yielding = s.yielding := rfl

theorem countP_eq_zero_of_getT {thr : List Thread} {p : Thread → Bool}
    (h : ∀ u, u < thr.length → p (getT thr u) = false) : thr.countP p = 0 := by
  rw [List.countP_eq_zero]
  intro a ha
  obtain ⟨i, hi, rfl⟩ := List.mem_iff_getElem.mp ha
  rw [getElem_eq_getT hi, h i hi]
  simp

theorem all_of_countP {thr : List Thread} {n : Nat} {p : Thread → Bool} (hlen : thr.length = n + 1)
    (hmain : p (getT thr 0) = false) (hc : n ≤ thr.countP p) : ∀ u, 1 ≤ u → u ≤ n → p (getT thr u) = true := by
  match thr, hlen with
  | x :: tail, hlen =>
    have hx : getT (x :: tail) 0 = x := by simp [getT]
    rw [hx] at hmain
    have htl : tail.length = n := by simpa using hlen
    rw [List.countP_cons, hmain] at hc
    simp at hc
    have hle := List.countP_le_length (p := p) (l := tail)
    have heq : List.countP p tail = tail.length := by omega
    have hall := List.countP_eq_length.mp heq
    intro u h1 h2
    have hu : getT (x :: tail) u = tail[u - 1]'(by omega) := by
      unfold getT
      obtain ⟨k, rfl⟩ : ∃ k, u = k + 1 := ⟨u - 1, by omega⟩
      simp [List.getD_eq_getElem?_getD, List.getElem?_eq_getElem (show k < tail.length by omega)]
    rw [hu]
    exact hall _ (List.getElem_mem _)

theorem countP_ge_of_all {thr : List Thread} {n : Nat} {p : Thread → Bool} (hlen : thr.length = n + 1)
    (hall : ∀ u, 1 ≤ u → u ≤ n → p (getT thr u) = true) : n ≤ thr.countP p := by
  match thr, hlen with
  | x :: tail, hlen =>
    have htl : tail.length = n := by simpa using hlen
    have : List.countP p tail = tail.length := by
      rw [List.countP_eq_length]
      intro a ha
      obtain ⟨i, hi, rfl⟩ := List.mem_iff_getElem.mp ha
      have := hall (i + 1) (by omega) (by omega)
      simpa [getT, List.getD_eq_getElem?_getD, List.getElem?_eq_getElem hi] using this
    rw [List.countP_cons]
    omega

/-- unfold `step`, split all its branches, normalise the result state -/
syntax "bars_step_cases " ident : tactic
macro_rules
  | `(tactic| bars_step_cases $h) => `(tactic|
      (unfold step at $h:ident
       repeat' split at $h:ident
       all_goals (first | (simp [out, setPc] at $h:ident) | skip)
       all_goals (try (repeat' split at $h:ident))
       all_goals (try (simp only [Option.some.injEq] at $h:ident))
       all_goals (try subst $h:ident)))

/-! ### the invariant -/

def isBar (s : State) (u : Nat) : Prop := 1 ≤ u ∧ u ≤ s.n

/-- the thread is the releaser: between its completing `fetch_add` and its bump of `step_` -/
def rel : Pc → Bool
  | .storeWaiting | .act _ | .bumpStep => true
  | _ => false

@[simp] theorem rel_storeWaiting : rel .storeWaiting = true := rfl
@[simp] theorem rel_bumpStep : rel .bumpStep = true := rfl
@[simp] theorem rel_act (j : Nat) : rel (.act j) = true := rfl
@[simp] theorem rel_beginPc (s : State) : rel (beginPc s) = true := by unfold beginPc; split <;> rfl
@[simp] theorem rel_start : rel .start = false := rfl
@[simp] theorem rel_finished : rel .finished = false := rfl
@[simp] theorem rel_mSpawn (i : Nat) : rel (.mSpawn i) = false := rfl
@[simp] theorem rel_mJoin (i : Nat) : rel (.mJoin i) = false := rfl
@[simp] theorem rel_loadStep : rel .loadStep = false := rfl
@[simp] theorem rel_fetchAdd (ts : Nat) : rel (.fetchAdd ts) = false := rfl
@[simp] theorem rel_spin (ts : Nat) (b : Bool) : rel (.spin ts b) = false := rfl
@[simp] theorem rel_yield (ts : Nat) : rel (.yield ts) = false := rfl

def pcOk (s : State) (th : Thread) : Prop :=
  match th.pc with
  | .start => th.arrived = 0 ∧ th.left = 0
  | .loadStep => th.arrived = th.left ∧ th.left < s.gens
  | .fetchAdd ts => th.arrived = th.left ∧ th.left < s.gens ∧ ts = th.left
  | .spin ts _ => th.arrived = th.left + 1 ∧ th.left < s.gens ∧ ts = th.left
  | .yield ts => th.arrived = th.left + 1 ∧ th.left < s.gens ∧ ts = th.left
  | .storeWaiting => th.arrived = th.left + 1 ∧ th.left < s.gens ∧ th.left = s.step ∧ s.waiting = s.n ∧ s.actions = s.step ∧
      s.begun = s.step
  | .act _ => th.arrived = th.left + 1 ∧ th.left < s.gens ∧ th.left = s.step ∧ s.waiting = 0 ∧ s.actions = s.step ∧
      s.begun = s.step + 1
  | .bumpStep => th.arrived = th.left + 1 ∧ th.left < s.gens ∧ th.left = s.step ∧ s.waiting = 0 ∧ s.actions = s.step + 1 ∧
      s.begun = s.step + 1
  | .finished => th.arrived = th.left ∧ th.left = s.gens
  | .mSpawn _ | .mJoin _ => False

def mainOk (s : State) (th : Thread) : Prop :=
  th.arrived = 0 ∧ th.left = 0 ∧
  match th.pc with
  | .start => s.spawned = 0
  | .mSpawn i => s.spawned = i ∧ i < s.n
  | .mJoin i => s.spawned = s.n ∧ i < s.n
  | .finished => s.spawned = s.n
  | _ => False

structure Inv (s : State) : Prop where
  npos : 1 ≤ s.n
  len : s.thr.length = s.n + 1
  main : mainOk s (getT s.thr 0)
  bnd : ∀ u, isBar s u → s.step ≤ (getT s.thr u).arrived ∧ (getT s.thr u).arrived ≤ s.step + 1 ∧
          (getT s.thr u).left ≤ s.step
  pcs : ∀ u, isBar s u → pcOk s (getT s.thr u)
  relAll : ∀ x, isBar s x → rel (getT s.thr x).pc = true → ∀ u, isBar s u → (getT s.thr u).arrived = s.step + 1
  relUniq : ∀ x y, isBar s x → isBar s y → rel (getT s.thr x).pc = true → rel (getT s.thr y).pc = true → x = y
  noRel : (∀ x, isBar s x → rel (getT s.thr x).pc = false) →
    s.waiting = s.thr.countP (fun th => decide (th.arrived = s.step + 1)) ∧ s.waiting < s.n ∧ s.actions = s.step ∧
      s.begun = s.step

theorem getT_init (n gens u : Nat) (y : Bool) (ay : Nat) :
    getT (BarS.init n gens y ay).thr u = if u ≤ n then { pc := .start } else dflt := by
  unfold getT BarS.init
  simp only [List.getD_eq_getElem?_getD]
  cases u with
  | zero => simp
  | succ k =>
    simp only [List.getElem?_cons_succ, List.getElem?_replicate]
    by_cases h : k < n
    · simp [h]; omega
    · simp [h]; omega

theorem inv_init (n gens : Nat) (y : Bool) (ay : Nat) (hn : 1 ≤ n) : Inv (BarS.init n gens y ay) := by
  refine ⟨hn, by simp [BarS.init], ?_, ?_, ?_, ?_, ?_, ?_⟩
  · rw [getT_init]; simp [mainOk, BarS.init]
  · intro u hu; rw [getT_init]; simp [BarS.init, isBar] at hu ⊢; simp [hu.2]
  · intro u hu; rw [getT_init]; simp [BarS.init, isBar] at hu ⊢; simp [hu.2, pcOk]
  · intro x hx hr; rw [getT_init] at hr; simp [BarS.init, isBar] at hx; simp [hx.2] at hr
  · intro x y hx _ hr; rw [getT_init] at hr; simp [BarS.init, isBar] at hx; simp [hx.2] at hr
  · intro _; simp [BarS.init, List.countP_replicate]; omega

theorem frame_step {s : State} {t c : Nat} {o} (h : step s t c = some o) :
    o.st.n = s.n ∧ o.st.gens = s.gens ∧ o.st.yielding = s.yielding ∧ o.st.thr.length = s.thr.length := by
  bars_step_cases h
  all_goals (first | (simp; done) | (simp; omega) | omega)

theorem isBar_of_pc {s : State} (hi : Inv s) {t : Nat} (hlt : t < s.thr.length)
    (hpc : match (getT s.thr t).pc with
      | .loadStep | .fetchAdd _ | .storeWaiting | .act _ | .bumpStep | .spin _ _ | .yield _ => True | _ => False) :
    isBar s t := by
  have hlen := hi.len
  by_cases h0 : t = 0
  · subst h0
    have hm := hi.main
    unfold mainOk at hm
    cases hp : (getT s.thr 0).pc <;> simp [hp] at hpc hm
  · exact ⟨by omega, by omega⟩

theorem main_step {s : State} {t c : Nat} {o} (h : step s t c = some o) (hi : Inv s) :
    mainOk o.st (getT o.st.thr 0) := by
  have hm := hi.main
  have hp := hi.pcs
  have hlen := hi.len
  have hn := hi.npos
  bars_step_cases h
  all_goals (
    have hlt := lt_of_getElem? ‹s.thr[t]? = some _›
    have hth := getT_of_getElem? ‹s.thr[t]? = some _›
    simp only [upd_thr, getT_modify]
    by_cases ht0 : t = 0
    · subst ht0; simp_all [mainOk]; all_goals omega
    · have hb : isBar s t := ⟨by omega, by omega⟩
      have hpt := hp t hb
      simp_all [mainOk, pcOk])

/-- a barrier thread that has not yet arrived in its current call is in the current generation -/
theorem pre_cur {s : State} (hi : Inv s) {u : Nat} (hb : isBar s u)
    (hal : (getT s.thr u).arrived = (getT s.thr u).left) :
    (getT s.thr u).arrived = s.step ∧ (getT s.thr u).left = s.step := by
  have h1 := hi.bnd u hb
  omega

/-- while some barrier thread has not arrived in the current generation there is no releaser -/
theorem no_rel {s : State} (hi : Inv s) {u : Nat} (hb : isBar s u) (hne : (getT s.thr u).arrived ≠ s.step + 1) :
    ∀ x, isBar s x → rel (getT s.thr x).pc = false := by
  intro x hx
  cases hr : rel (getT s.thr x).pc with
  | false => rfl
  | true => exact absurd (hi.relAll x hx hr u hb) hne

theorem bnd_step {s : State} {t c : Nat} {o} (h : step s t c = some o) (hi : Inv s) :
    ∀ u, isBar o.st u → o.st.step ≤ (getT o.st.thr u).arrived ∧ (getT o.st.thr u).arrived ≤ o.st.step + 1 ∧
          (getT o.st.thr u).left ≤ o.st.step := by
  have hp := hi.bnd
  have hpc := hi.pcs
  have hlen := hi.len
  bars_step_cases h
  all_goals (
    have hlt := lt_of_getElem? ‹s.thr[t]? = some _›
    have hth := getT_of_getElem? ‹s.thr[t]? = some _›)
  all_goals (first
    | (intro u hu
       have hu' : isBar s u := hu
       have h1 := hp u hu'
       have h2 := hpc u hu'
       simp only [upd_thr, getT_modify, upd_step]
       by_cases hut : t = u
       · subst hut; simp_all [pcOk]; done
       · simp_all; done)
    | (intro u hu
       have hu' : isBar s u := hu
       have h1 := hp u hu'
       have h2 := hpc u hu'
       simp only [upd_thr, getT_modify, upd_step]
       by_cases hut : t = u
       · subst hut; simp_all [pcOk]; all_goals omega
       · simp_all; all_goals omega)
    | skip)
  -- fetch_add (both outcomes): the thread arrives in the current generation
  iterate 2 (
    · have hb : isBar s t := isBar_of_pc hi hlt (by simp [*])
      have hpcT := (congrArg Thread.pc hth).trans ‹_ = Pc.fetchAdd _›
      have hpt := hpc t hb
      simp [pcOk, hpcT] at hpt
      have hcur := pre_cur hi hb hpt.1
      intro u hu
      have h1 := hp u hu
      simp only [upd_thr, getT_modify, upd_step]
      by_cases hut : t = u
      · subst hut; simp [hlt]; omega
      · simp [hut]; exact h1)
  · -- bump of step_: everybody has arrived
    have hb : isBar s t := isBar_of_pc hi hlt (by simp [*])
    have hpcT := (congrArg Thread.pc hth).trans ‹_ = Pc.bumpStep›
    have hall := hi.relAll t hb (by simp [hpcT])
    have hpt := hpc t hb
    simp [pcOk, hpcT] at hpt
    intro u hu
    have h1 := hp u hu
    have h3 := hall u hu
    simp only [upd_thr, getT_modify, upd_step]
    by_cases hut : t = u
    · subst hut; simp [hlt]; omega
    · simp [hut]; omega
  · -- a spinner sees the new generation and leaves
    have hb : isBar s t := isBar_of_pc hi hlt (by simp [*])
    have hpcT := (congrArg Thread.pc hth).trans ‹_ = Pc.spin _ _›
    have hpt := hpc t hb
    simp [pcOk, hpcT] at hpt
    have hne : s.step ≠ (getT s.thr t).left := by
      have := ‹(s.step != _) = true›
      simp at this; rw [← hpt.2.2]; exact this
    intro u hu
    have h1 := hp u hu
    have h1t := hp t hb
    simp only [upd_thr, getT_modify, upd_step]
    by_cases hut : t = u
    · subst hut; simp [hlt]; omega
    · simp [hut]; exact h1


/-- for threads that are not the releaser `pcOk` depends on the state only through `gens` -/
theorem pcOk_of_not_rel {s s' : State} {th : Thread} (hg : s'.gens = s.gens) (hr : rel th.pc = false)
    (h : pcOk s th) : pcOk s' th := by
  unfold pcOk at h ⊢
  cases hp : th.pc <;> simp [hp, hg] at h hr ⊢ <;> exact h

theorem pcs_step {s : State} {t c : Nat} {o} (h : step s t c = some o) (hi : Inv s) :
    ∀ u, isBar o.st u → pcOk o.st (getT o.st.thr u) := by
  have hp := hi.bnd
  have hpc := hi.pcs
  have hlen := hi.len
  have hmain := hi.main
  bars_step_cases h
  all_goals (
    have hlt := lt_of_getElem? ‹s.thr[t]? = some _›
    have hth := getT_of_getElem? ‹s.thr[t]? = some _›)
  all_goals (first
    | (intro u hu
       have hu' : isBar s u := hu
       have h1 := hp u hu'
       have h2 := hpc u hu'
       simp only [upd_thr, getT_modify]
       by_cases hut : t = u
       · subst hut; simp_all [pcOk, mainOk, isBar]; done
       · simp only [hut, false_and, if_false]; exact h2)
    | (intro u hu
       have hu' : isBar s u := hu
       have h1 := hp u hu'
       have h2 := hpc u hu'
       simp only [upd_thr, getT_modify]
       by_cases hut : t = u
       · subst hut; simp_all [pcOk, mainOk, isBar, nextCall]; all_goals omega
       · simp only [hut, false_and, if_false]; exact h2)
    | skip)
  · -- this_step = step_.load()
    have hb : isBar s t := isBar_of_pc hi hlt (by simp [*])
    have hpcT := (congrArg Thread.pc hth).trans ‹_ = Pc.loadStep›
    have hpt := hpc t hb
    simp [pcOk, hpcT] at hpt
    have hcur := pre_cur hi hb hpt.1
    intro u hu
    have h2 := hpc u hu
    simp only [upd_thr, getT_modify]
    by_cases hut : t = u
    · subst hut; simp [hlt, pcOk]; omega
    · simp only [hut, false_and, if_false]; exact h2
  -- fetch_add (both outcomes)
  iterate 2 (
    · have hb : isBar s t := isBar_of_pc hi hlt (by simp [*])
      have hpcT := (congrArg Thread.pc hth).trans ‹_ = Pc.fetchAdd _›
      have hpt := hpc t hb
      simp [pcOk, hpcT] at hpt
      have hcur := pre_cur hi hb hpt.1
      have hnr := no_rel hi hb (by omega)
      have hno := hi.noRel hnr
      have hn := hi.npos
      intro u hu
      have h2 := hpc u hu
      simp only [upd_thr, getT_modify]
      by_cases hut : t = u
      · subst hut; simp [hlt, pcOk]; omega
      · simp only [hut, false_and, if_false]
        exact pcOk_of_not_rel (s := s) rfl (hnr u hu) h2)
  · -- waiting_.store(0); lambda(): nobody else is the releaser
    have hb : isBar s t := isBar_of_pc hi hlt (by simp [*])
    have hpcT := (congrArg Thread.pc hth).trans ‹_ = Pc.storeWaiting›
    have hrt : rel (getT s.thr t).pc = true := by simp [hpcT]
    have hpt := hpc t hb
    simp [pcOk, hpcT] at hpt
    intro u hu
    have h2 := hpc u hu
    simp only [upd_thr, getT_modify]
    by_cases hut : t = u
    · subst hut
      unfold beginPc beginEnded
      split <;> simp [hlt, pcOk] <;> omega
    · simp only [hut, false_and, if_false]
      have hru : rel (getT s.thr u).pc = false := by
        cases hr : rel (getT s.thr u).pc with
        | false => rfl
        | true => exact absurd (hi.relUniq t u hb hu hrt hr) hut
      exact pcOk_of_not_rel (s := s) rfl hru h2
  · -- the action ends: nobody else is the releaser
    have hb : isBar s t := isBar_of_pc hi hlt (by simp [*])
    have hpcT := (congrArg Thread.pc hth).trans ‹_ = Pc.act _›
    have hrt : rel (getT s.thr t).pc = true := by simp [hpcT]
    have hpt := hpc t hb
    simp [pcOk, hpcT] at hpt
    intro u hu
    have h2 := hpc u hu
    simp only [upd_thr, getT_modify]
    by_cases hut : t = u
    · subst hut; simp [hlt, pcOk]; omega
    · simp only [hut, false_and, if_false]
      have hru : rel (getT s.thr u).pc = false := by
        cases hr : rel (getT s.thr u).pc with
        | false => rfl
        | true => exact absurd (hi.relUniq t u hb hu hrt hr) hut
      exact pcOk_of_not_rel (s := s) rfl hru h2
  · -- step_.fetch_add(1): the releaser returns
    have hb : isBar s t := isBar_of_pc hi hlt (by simp [*])
    have hpcT := (congrArg Thread.pc hth).trans ‹_ = Pc.bumpStep›
    have hrt : rel (getT s.thr t).pc = true := by simp [hpcT]
    have hpt := hpc t hb
    simp [pcOk, hpcT] at hpt
    intro u hu
    have h2 := hpc u hu
    simp only [upd_thr, getT_modify]
    by_cases hut : t = u
    · subst hut
      by_cases hl : (getT s.thr t).left + 1 < s.gens <;> simp [hlt, pcOk, nextCall, hl] <;> omega
    · simp only [hut, false_and, if_false]
      have hru : rel (getT s.thr u).pc = false := by
        cases hr : rel (getT s.thr u).pc with
        | false => rfl
        | true => exact absurd (hi.relUniq t u hb hu hrt hr) hut
      exact pcOk_of_not_rel (s := s) rfl hru h2
  · -- a spinner leaves
    have hb : isBar s t := isBar_of_pc hi hlt (by simp [*])
    have hpcT := (congrArg Thread.pc hth).trans ‹_ = Pc.spin _ _›
    have hpt := hpc t hb
    simp [pcOk, hpcT] at hpt
    intro u hu
    have h2 := hpc u hu
    simp only [upd_thr, getT_modify]
    by_cases hut : t = u
    · subst hut
      by_cases hl : (getT s.thr t).left + 1 < s.gens <;> simp [hlt, pcOk, nextCall, hl] <;> omega
    · simp only [hut, false_and, if_false]; exact h2


@[simp] theorem rel_nextCall (s : State) (th : Thread) : rel (nextCall s th) = false := by
  unfold nextCall; split <;> rfl

/-- the pre-state facts of a `fetch_add` step -/
theorem fetchAdd_pre {s : State} (hi : Inv s) {t ts : Nat} (hb : isBar s t) (hpcT : (getT s.thr t).pc = .fetchAdd ts) :
    (getT s.thr t).arrived = s.step ∧ (∀ x, isBar s x → rel (getT s.thr x).pc = false) ∧
    s.waiting = s.thr.countP (fun th => decide (th.arrived = s.step + 1)) ∧ s.waiting < s.n ∧ s.actions = s.step ∧
      s.begun = s.step := by
  have hpt := hi.pcs t hb
  simp [pcOk, hpcT] at hpt
  have hcur := pre_cur hi hb hpt.1
  have hnr := no_rel hi hb (by omega)
  exact ⟨hcur.1, hnr, hi.noRel hnr⟩

/-- after the arrival of `t` the number of threads arrived in the current generation is one higher -/
theorem countP_arrive {s : State} {t : Nat} (hlt : t < s.thr.length) (hcur : (getT s.thr t).arrived = s.step) (pc : Pc) :
    (s.thr.modify t fun th => { th with pc := pc, arrived := th.arrived + 1 }).countP
        (fun th => decide (th.arrived = s.step + 1)) =
      s.thr.countP (fun th => decide (th.arrived = s.step + 1)) + 1 := by
  have hcm := TlxVerif.C11.BarM.countP_modify (fun th : Thread => decide (th.arrived = s.step + 1))
    (fun th => { th with pc := pc, arrived := th.arrived + 1 }) s.thr t hlt
  rw [getElem_eq_getT hlt] at hcm
  simp [hcur] at hcm
  exact hcm

theorem relAll_step {s : State} {t c : Nat} {o} (h : step s t c = some o) (hi : Inv s) :
    ∀ x, isBar o.st x → rel (getT o.st.thr x).pc = true → ∀ u, isBar o.st u → (getT o.st.thr u).arrived = o.st.step + 1 := by
  have hp := hi.bnd
  have hpc := hi.pcs
  have hlen := hi.len
  have hra := hi.relAll
  bars_step_cases h
  all_goals (
    have hlt := lt_of_getElem? ‹s.thr[t]? = some _›
    have hth := getT_of_getElem? ‹s.thr[t]? = some _›)
  all_goals (first
    | (intro x hx hrx u hu
       have hx' : isBar s x := hx
       have hu' : isBar s u := hu
       simp only [upd_thr, getT_modify, upd_step] at hrx ⊢
       have hrx' : rel (getT s.thr x).pc = true := by
         by_cases hxt : t = x
         · subst hxt; simp [hlt] at hrx; done
         · simpa [hxt] using hrx
       have := hra x hx' hrx' u hu'
       by_cases hut : t = u
       · subst hut; simp [hlt]; exact this
       · simp [hut]; exact this)
    | -- the releaser stays the releaser (waiting_.store(0), inside the action): same arrivals
      (intro x hx hrx u hu
       have hb : isBar s t := isBar_of_pc hi hlt (by simp [*])
       have := hra t hb (by rw [hth]; simp [*]) u hu
       simp only [upd_thr, getT_modify, upd_step]
       by_cases hut : t = u
       · subst hut; simp [hlt]; exact this
       · simp [hut]; exact this)
    | skip)
  · -- the completing fetch_add: by counting, everybody has arrived
    have hb : isBar s t := isBar_of_pc hi hlt (by simp [*])
    have hpcT := (congrArg Thread.pc hth).trans ‹_ = Pc.fetchAdd _›
    obtain ⟨hcur, hnr, hw, hwlt, hact⟩ := fetchAdd_pre hi hb hpcT
    have hcnt := countP_arrive hlt hcur Pc.storeWaiting
    have hn := hi.npos
    have hall := all_of_countP (p := fun th : Thread => decide (th.arrived = s.step + 1))
      (thr := s.thr.modify t fun th => { th with pc := Pc.storeWaiting, arrived := th.arrived + 1 }) (n := s.n)
      (by simp [hlen])
      (by
        rw [getT_modify]
        have ht0 : t ≠ 0 := by have := hb.1; omega
        have := hi.main
        simp [mainOk] at this
        simp [ht0, this.1])
      (by rw [hcnt, ← hw]; omega)
    intro x hx hrx u hu
    have := hall u hu.1 hu.2
    simpa using this
  · -- a fetch_add that does not complete the generation: there is no releaser
    have hb : isBar s t := isBar_of_pc hi hlt (by simp [*])
    have hpcT := (congrArg Thread.pc hth).trans ‹_ = Pc.fetchAdd _›
    obtain ⟨hcur, hnr, hw, hwlt, hact⟩ := fetchAdd_pre hi hb hpcT
    intro x hx hrx u hu
    exfalso
    simp only [upd_thr, getT_modify] at hrx
    by_cases hxt : t = x
    · subst hxt; simp [hlt] at hrx
    · have := hnr x hx
      simp [hxt] at hrx
      rw [hrx] at this; simp at this
  · -- step_.fetch_add(1): afterwards there is no releaser
    have hb : isBar s t := isBar_of_pc hi hlt (by simp [*])
    have hpcT := (congrArg Thread.pc hth).trans ‹_ = Pc.bumpStep›
    intro x hx hrx u hu
    exfalso
    simp only [upd_thr, getT_modify] at hrx
    by_cases hxt : t = x
    · subst hxt; simp [hlt] at hrx
    · simp [hxt] at hrx
      exact hxt (hi.relUniq t x hb hx (by simp [hpcT]) hrx)


/-- how the releaser status of the threads changes in a step: only the acting thread's status can change -/
theorem rel_other {s : State} {t c : Nat} {o} (h : step s t c = some o) (x : Nat) (hxt : t ≠ x) :
    (getT o.st.thr x).pc = (getT s.thr x).pc := by
  bars_step_cases h
  all_goals (simp only [upd_thr, getT_modify]; simp [hxt])

/-- the acting thread is a releaser after its step only if it was one before or nobody was -/
theorem rel_after {s : State} {t c : Nat} {o} (h : step s t c = some o) (hi : Inv s)
    (hr : rel (getT o.st.thr t).pc = true) :
    (isBar s t ∧ rel (getT s.thr t).pc = true) ∨ (∀ x, isBar s x → rel (getT s.thr x).pc = false) := by
  bars_step_cases h
  all_goals (
    have hlt := lt_of_getElem? ‹s.thr[t]? = some _›
    have hth := getT_of_getElem? ‹s.thr[t]? = some _›
    simp only [upd_thr, getT_modify] at hr)
  all_goals (first
    | (simp [hlt] at hr; done)
    | (left; refine ⟨isBar_of_pc hi hlt ?_, ?_⟩
       · simp [*]; done
       · rw [hth]; simp [*]; done)
    | skip)
  all_goals (
    right
    have hb : isBar s t := isBar_of_pc hi hlt (by simp [*])
    have hpcT := (congrArg Thread.pc hth).trans ‹_ = Pc.fetchAdd _›
    exact (fetchAdd_pre hi hb hpcT).2.1)

theorem relUniq_step {s : State} {t c : Nat} {o} (h : step s t c = some o) (hi : Inv s) :
    ∀ x y, isBar o.st x → isBar o.st y → rel (getT o.st.thr x).pc = true → rel (getT o.st.thr y).pc = true → x = y := by
  have hfr := frame_step h
  intro x y hx hy hrx hry
  have hx' : isBar s x := by unfold isBar at hx ⊢; rw [hfr.1] at hx; exact hx
  have hy' : isBar s y := by unfold isBar at hy ⊢; rw [hfr.1] at hy; exact hy
  by_cases hxt : t = x
  · by_cases hyt : t = y
    · rw [← hxt, ← hyt]
    · -- t is a releaser afterwards, y ≠ t was one before: then t was one before as well, or t just arrived
      rw [rel_other h y hyt] at hry
      exfalso
      subst hxt
      rcases rel_after h hi hrx with ⟨hb, hr⟩ | hnr
      · exact hyt (hi.relUniq t y hb hy' hr hry)
      · have := hnr y hy'; rw [hry] at this; simp at this
  · rw [rel_other h x hxt] at hrx
    by_cases hyt : t = y
    · exfalso
      subst hyt
      rcases rel_after h hi hry with ⟨hb, hr⟩ | hnr
      · exact hxt (hi.relUniq t x hb hx' hr hrx)
      · have := hnr x hx'; rw [hrx] at this; simp at this
    · rw [rel_other h y hyt] at hry
      exact hi.relUniq x y hx' hy' hrx hry

theorem noRel_step {s : State} {t c : Nat} {o} (h : step s t c = some o) (hi : Inv s) :
    (∀ x, isBar o.st x → rel (getT o.st.thr x).pc = false) →
    o.st.waiting = o.st.thr.countP (fun th => decide (th.arrived = o.st.step + 1)) ∧ o.st.waiting < o.st.n ∧
      o.st.actions = o.st.step ∧ o.st.begun = o.st.step := by
  have hp := hi.bnd
  have hpc := hi.pcs
  have hlen := hi.len
  have hnr := hi.noRel
  bars_step_cases h
  all_goals (
    have hlt := lt_of_getElem? ‹s.thr[t]? = some _›
    have hth := getT_of_getElem? ‹s.thr[t]? = some _›)
  all_goals (first
    | (intro hno
       simp only [upd_thr, getT_modify, upd_step, upd_waiting, upd_actions, upd_begun, upd_n] at hno ⊢
       have hno' : ∀ x, isBar s x → rel (getT s.thr x).pc = false := by
         intro x hx
         have hx' := hno x hx
         by_cases hxt : t = x
         · subst hxt; rw [hth]; simp [*]; done
         · simpa [hxt] using hx'
       rw [TlxVerif.C11.BarM.countP_modify_same _ _ (by intro x; rfl)]
       exact hnr hno')
    | -- t is the releaser afterwards (completing fetch_add, waiting_.store(0), inside the action): nothing to show
      (intro hno
       exfalso
       have hb : isBar s t := isBar_of_pc hi hlt (by simp [*])
       have := hno t hb
       simp [getT_modify, hlt] at this
       done)
    | skip)
  · -- an ordinary arrival
    have hb : isBar s t := isBar_of_pc hi hlt (by simp [*])
    have hpcT := (congrArg Thread.pc hth).trans ‹_ = Pc.fetchAdd _›
    obtain ⟨hcur, hnr', hw, hwlt, hact⟩ := fetchAdd_pre hi hb hpcT
    have hcnt := countP_arrive hlt hcur (Pc.spin ‹Nat› false)
    intro _
    simp only [upd_thr, upd_step, upd_waiting, upd_actions, upd_begun, upd_n]
    refine ⟨?_, ?_, hact⟩
    · rw [hw]; exact hcnt.symm
    · have := ‹¬s.waiting = s.n - 1›; simp; omega
  · -- step_.fetch_add(1): nobody has arrived in the new generation
    have hb : isBar s t := isBar_of_pc hi hlt (by simp [*])
    have hpcT := (congrArg Thread.pc hth).trans ‹_ = Pc.bumpStep›
    have hpt := hpc t hb
    simp [pcOk, hpcT] at hpt
    have hall := hi.relAll t hb (by simp [hpcT])
    have hn := hi.npos
    intro _
    simp only [upd_thr, upd_step, upd_waiting, upd_actions, upd_begun, upd_n]
    refine ⟨?_, by omega, by omega, by omega⟩
    simp only [hpt.2.2.2.1]
    symm
    apply countP_eq_zero_of_getT
    intro u hu
    rw [getT_modify]
    have hlen' : (s.thr.modify t fun th => { th with left := th.left + 1, pc := nextCall s th }).length = s.thr.length := by simp
    rw [hlen'] at hu
    by_cases hut : t = u
    · subst hut; have := hall t hb; simp [hu]; omega
    · simp only [hut, false_and, if_false]
      by_cases hu0 : u = 0
      · subst hu0; have := hi.main; simp [mainOk] at this; simp [this.1]
      · have := hall u ⟨by omega, by omega⟩
        simp; omega


theorem inv_step {s : State} {t c : Nat} {o} (h : step s t c = some o) (hi : Inv s) : Inv o.st := by
  have hf := frame_step h
  exact {
    npos := by rw [hf.1]; exact hi.npos
    len := by rw [hf.2.2.2, hf.1]; exact hi.len
    main := main_step h hi
    bnd := bnd_step h hi
    pcs := pcs_step h hi
    relAll := relAll_step h hi
    relUniq := relUniq_step h hi
    noRel := noRel_step h hi }

theorem reachable_inv {n gens : Nat} {y : Bool} (hn : 1 ≤ n) {s : State} (h : Reachable n gens y s) : Inv s := by
  induction h with
  | init ay => exact inv_init n gens y ay hn
  | step _ hs ih => exact inv_step hs ih

theorem reachable_params {n gens : Nat} {y : Bool} {s : State} (h : Reachable n gens y s) :
    s.n = n ∧ s.gens = gens ∧ s.yielding = y := by
  induction h with
  | init ay => exact ⟨rfl, rfl, rfl⟩
  | step _ hs ih =>
    have := frame_step hs
    exact ⟨this.1.trans ih.1, this.2.1.trans ih.2.1, this.2.2.1.trans ih.2.2⟩

/-- `step ≤ actions ≤ step + 1`, and the action of the current generation has run only if everybody arrived -/
theorem actions_bounds {s : State} (hi : Inv s) :
    s.step ≤ s.actions ∧ s.actions ≤ s.step + 1 ∧ ∀ u, isBar s u → s.actions ≤ (getT s.thr u).arrived := by
  by_cases hno : ∀ x, isBar s x → rel (getT s.thr x).pc = false
  · have := hi.noRel hno
    refine ⟨by omega, by omega, ?_⟩
    intro u hu
    have := hi.bnd u hu
    omega
  · have ⟨x, hx⟩ : ∃ x, isBar s x ∧ rel (getT s.thr x).pc = true := by
      apply Classical.byContradiction
      intro hne
      apply hno
      intro x hx
      cases hr : rel (getT s.thr x).pc with
      | false => rfl
      | true => exact absurd ⟨x, hx, hr⟩ hne
    have hall := hi.relAll x hx.1 hx.2
    have hpx := hi.pcs x hx.1
    unfold pcOk at hpx
    cases hp : (getT s.thr x).pc <;> simp [hp] at hpx hx
    all_goals (
      refine ⟨by omega, by omega, ?_⟩
      intro u hu
      have := hall u hu
      omega)

/-- `actions ≤ begun ≤ actions + 1`, `begun ≤ step + 1`, and the action of the current generation has begun only
    if everybody arrived -/
theorem begun_bounds {s : State} (hi : Inv s) :
    s.actions ≤ s.begun ∧ s.begun ≤ s.actions + 1 ∧ s.begun ≤ s.step + 1 ∧
      ∀ u, isBar s u → s.begun ≤ (getT s.thr u).arrived := by
  by_cases hno : ∀ x, isBar s x → rel (getT s.thr x).pc = false
  · have := hi.noRel hno
    refine ⟨by omega, by omega, by omega, ?_⟩
    intro u hu
    have := hi.bnd u hu
    omega
  · have ⟨x, hx⟩ : ∃ x, isBar s x ∧ rel (getT s.thr x).pc = true := by
      apply Classical.byContradiction
      intro hne
      apply hno
      intro x hx
      cases hr : rel (getT s.thr x).pc with
      | false => rfl
      | true => exact absurd ⟨x, hx, hr⟩ hne
    have hall := hi.relAll x hx.1 hx.2
    have hpx := hi.pcs x hx.1
    unfold pcOk at hpx
    cases hp : (getT s.thr x).pc <;> simp [hp] at hpx hx
    all_goals (
      refine ⟨by omega, by omega, by omega, ?_⟩
      intro u hu
      have := hall u hu
      omega)

/-- run a list of (thread, draw) choices; `none` if some chosen thread cannot step -/
def runChoices (s : State) : List (Nat × Nat) → Option State
  | [] => some s
  | (t, c) :: rest =>
    match step s t c with
    | some o => runChoices o.st rest
    | none => none

theorem reachable_runChoices {n gens : Nat} {y : Bool} {s s' : State} (l : List (Nat × Nat))
    (h : Reachable n gens y s) (hr : runChoices s l = some s') : Reachable n gens y s' := by
  induction l generalizing s with
  | nil => simp [runChoices] at hr; subst hr; exact h
  | cons p rest ih =>
    obtain ⟨t, c⟩ := p
    simp only [runChoices] at hr
    split at hr
    · rename_i o ho
      exact ih (Reachable.step h ho) hr
    · simp at hr

/-- an enabled thread has a transition -/
theorem enabled_step {s : State} {t : Nat} (c : Nat) (he : enabled s t = true) :
    ∃ o, step s t c = some o := by
  unfold enabled pcOf at he
  unfold step
  cases hth : s.thr[t]? with
  | none => simp [hth] at he
  | some th =>
    simp only [hth, Option.map_some, Option.getD_some] at he ⊢
    cases hp : th.pc <;> simp [hp, out, pcOf] at he ⊢
    all_goals (try (simp_all; done))
    all_goals (try (repeat' split) <;> simp_all <;> done)


end TlxVerif.C11.BarS
