/-
C01 — iteration and counting: `++` from `begin()` walks the entry sequence in order, `--` from `end()`
walks it backwards, `*it` is the entry at the iterator's rank; `count(key)` is the number of
entries equivalent to the key.
-/
import TlxVerif.Model.C01Tree
import TlxVerif.Proofs.C01Query
import TlxVerif.Proofs.C01EraseG
namespace TlxVerif.C01

variable {K V : Type}

/-- a position that refers to an entry -/
def ValidPos (ch : List (List (K × V))) (pos : Nat × Nat) : Prop :=
  ∃ leaf, ch[pos.1]? = some leaf ∧ pos.2 < leaf.length

theorem flatten_split {α : Type} (ch : List (List α)) (li : Nat) (leaf : List α) (h : ch[li]? = some leaf) :
    ch.flatten = (ch.take li).flatten ++ (leaf ++ (ch.drop (li + 1)).flatten) := by
  obtain ⟨hlt, hget⟩ := List.getElem?_eq_some_iff.mp h
  conv => lhs; rw [← List.take_append_drop li ch, List.drop_eq_getElem_cons hlt, hget]
  simp

/-- `*it` is the entry at the iterator's rank -/
theorem deref_valid (ch : List (List (K × V))) (pos : Nat × Nat) (hv : ValidPos ch pos) :
    deref ch pos = ch.flatten[rankOf ch (some pos)]? := by
  obtain ⟨li, s⟩ := pos
  obtain ⟨leaf, hl, hs⟩ := hv
  simp only at hl hs
  rw [rankOf_eq, flatten_split ch li leaf hl, List.getElem?_append_right (by omega), Nat.add_sub_cancel_left,
    List.getElem?_append_left hs]
  simp [deref, hl]

theorem rankOf_endPos' (ch : List (List (K × V))) (li : Nat) (leaf : List (K × V)) (hl : ch[li]? = some leaf)
    (hlast : li + 1 = ch.length) : rankOf ch (some (li, leaf.length)) = ch.flatten.length := by
  rw [rankOf_eq, flatten_split ch li leaf hl]
  have : List.drop (li + 1) ch = [] := List.drop_eq_nil_of_le (by omega)
  rw [this]; simp

/-- `++it` moves to the next rank; it stays on entries until it becomes `end()` -/
theorem itInc_spec (ch : List (List (K × V))) (hne : ∀ l ∈ ch, l ≠ []) (pos : Nat × Nat) (hv : ValidPos ch pos) :
    rankOf ch (some (itInc ch pos)) = rankOf ch (some pos) + 1 ∧
      (ValidPos ch (itInc ch pos) ∨ rankOf ch (some (itInc ch pos)) = ch.flatten.length) := by
  obtain ⟨li, s⟩ := pos
  obtain ⟨leaf, hl, hs⟩ := hv
  simp only at hl hs
  obtain ⟨hlt, hget⟩ := List.getElem?_eq_some_iff.mp hl
  simp only [itInc, hl, Option.map_some, Option.getD_some]
  by_cases h1 : s + 1 < leaf.length
  · rw [if_pos h1]
    refine ⟨by simp only [rankOf_eq]; omega, Or.inl ⟨leaf, hl, h1⟩⟩
  · rw [if_neg h1]
    have hs1 : s + 1 = leaf.length := by omega
    by_cases h2 : li + 1 < ch.length
    · rw [if_pos h2]
      have hnext : ch[li + 1]? = some ch[li + 1] := List.getElem?_eq_getElem h2
      have hnn : ch[li + 1] ≠ [] := hne _ (List.getElem_mem h2)
      refine ⟨?_, Or.inl ⟨ch[li + 1], hnext, List.length_pos_iff.mpr hnn⟩⟩
      simp only [rankOf_eq, Nat.add_zero]
      rw [List.take_add_one, hl]
      simp; omega
    · rw [if_neg h2]
      have hr := rankOf_endPos' ch li leaf hl (by omega)
      refine ⟨?_, Or.inr hr⟩
      rw [hr, rankOf_eq, flatten_split ch li leaf hl]
      have : List.drop (li + 1) ch = [] := List.drop_eq_nil_of_le (by omega)
      rw [this]; simp; omega

/-- forward iteration: `r` increments from `begin()` reach the entry of rank `r` -/
theorem iterate_fwd (ch : List (List (K × V))) (hne : ∀ l ∈ ch, l ≠ []) :
    ∀ r, r < ch.flatten.length →
      ValidPos ch (iterN (itInc ch) r (0, 0)) ∧ rankOf ch (some (iterN (itInc ch) r (0, 0))) = r := by
  intro r
  induction r with
  | zero =>
    intro h
    cases ch with
    | nil => simp at h
    | cons l ls =>
      have hl : l ≠ [] := hne l List.mem_cons_self
      exact ⟨⟨l, rfl, List.length_pos_iff.mpr hl⟩, by simp [rankOf, iterN]⟩
  | succ r ih =>
    intro h
    obtain ⟨hv, hr⟩ := ih (by omega)
    simp only [iterN]
    obtain ⟨h1, h2⟩ := itInc_spec ch hne _ hv
    rw [hr] at h1
    refine ⟨?_, h1⟩
    rcases h2 with h2 | h2
    · exact h2
    · omega

/-- `end()` of a non-empty chain -/
def IsEnd (ch : List (List (K × V))) (pos : Nat × Nat) : Prop :=
  ∃ leaf, ch[pos.1]? = some leaf ∧ pos.2 = leaf.length ∧ pos.1 + 1 = ch.length

/-- `--it` moves to the previous rank and lands on an entry -/
theorem itDec_spec (ch : List (List (K × V))) (hne : ∀ l ∈ ch, l ≠ []) (pos : Nat × Nat)
    (hv : ValidPos ch pos ∨ IsEnd ch pos) (hr : 0 < rankOf ch (some pos)) :
    rankOf ch (some (itDec ch pos)) + 1 = rankOf ch (some pos) ∧ ValidPos ch (itDec ch pos) := by
  obtain ⟨li, s⟩ := pos
  have hleaf : ∃ leaf, ch[li]? = some leaf ∧ s ≤ leaf.length := by
    rcases hv with ⟨leaf, h1, h2⟩ | ⟨leaf, h1, h2, _⟩
    · exact ⟨leaf, h1, by simp only at h2; omega⟩
    · exact ⟨leaf, h1, by simp only at h2; omega⟩
  obtain ⟨leaf, hl, hs⟩ := hleaf
  obtain ⟨hlt, hget⟩ := List.getElem?_eq_some_iff.mp hl
  simp only [itDec]
  by_cases h1 : s > 0
  · rw [if_pos h1]
    exact ⟨by simp only [rankOf_eq]; omega, ⟨leaf, hl, by simp only; omega⟩⟩
  · rw [if_neg h1]
    have hs0 : s = 0 := by omega
    subst hs0
    by_cases h2 : li > 0
    · rw [if_pos h2]
      obtain ⟨m, rfl⟩ : ∃ m, li = m + 1 := ⟨li - 1, by omega⟩
      simp only [Nat.add_sub_cancel]
      have hp : m < ch.length := by omega
      have hprev : ch[m]? = some ch[m] := List.getElem?_eq_getElem hp
      have hnn : ch[m] ≠ [] := hne _ (List.getElem_mem hp)
      have hpos : 0 < ch[m].length := List.length_pos_iff.mpr hnn
      simp only [hprev, Option.map_some, Option.getD_some]
      refine ⟨?_, ⟨ch[m], hprev, by simp only; omega⟩⟩
      have hsum : ((ch.take (m + 1)).flatten).length = ((ch.take m).flatten).length + ch[m].length := by
        rw [List.take_add_one, hprev]
        simp only [Option.toList, List.flatten_append, List.length_append, List.flatten_cons, List.flatten_nil,
          List.append_nil]
      simp only [rankOf_eq, Nat.add_zero, hsum]
      omega
    · exfalso
      have : li = 0 := by omega
      subst this
      simp [rankOf] at hr

theorem rankOf_isEnd (ch : List (List (K × V))) (pos : Nat × Nat) (h : IsEnd ch pos) :
    rankOf ch (some pos) = ch.flatten.length := by
  obtain ⟨li, s⟩ := pos
  obtain ⟨leaf, h1, h2, h3⟩ := h
  simp only at h1 h2 h3
  subst h2
  exact rankOf_endPos' ch li leaf h1 h3

/-- backward iteration: `r ≥ 1` decrements from `end()` reach the entry of rank `size − r` -/
theorem iterate_bwd (ch : List (List (K × V))) (hne : ∀ l ∈ ch, l ≠ []) (e : Nat × Nat) (he : IsEnd ch e) :
    ∀ r, 1 ≤ r → r ≤ ch.flatten.length →
      ValidPos ch (iterN (itDec ch) r e) ∧ rankOf ch (some (iterN (itDec ch) r e)) + r = ch.flatten.length := by
  intro r
  induction r with
  | zero => intro h; omega
  | succ r ih =>
    intro _ h
    simp only [iterN]
    by_cases hr0 : r = 0
    · subst hr0
      simp only [iterN]
      have hre := rankOf_isEnd ch e he
      obtain ⟨h1, h2⟩ := itDec_spec ch hne e (Or.inr he) (by omega)
      exact ⟨h2, by omega⟩
    · obtain ⟨hv, hr⟩ := ih (by omega) (by omega)
      obtain ⟨h1, h2⟩ := itDec_spec ch hne _ (Or.inl hv) (by omega)
      exact ⟨h2, by omega⟩

/-! ### on trees -/

theorem chain_leaves_ne_nil (p : Params K) (pv : p.Valid) :
    ∀ (h : Nat) (n : BNode K V), Shape p h n → ∀ l ∈ chain h n, l ≠ [] := by
  have hv := pv.leaf4
  intro h
  induction h with
  | zero =>
    intro n hs l hl
    cases n with
    | leaf es =>
      simp only [chain, List.mem_singleton] at hl
      subst hl
      simp only [Shape, Params.leafMin, Gen.leafSlotmin] at hs
      intro he; subst he; simp at hs; omega
    | inner lv ks kids => simp [Shape] at hs
  | succ h ih =>
    intro n hs l hl
    cases n with
    | leaf es => simp [Shape] at hs
    | inner lv ks kids =>
      simp only [Shape] at hs
      simp only [chain, List.mem_flatMap] at hl
      obtain ⟨c, hc, hlc⟩ := hl
      exact ih c (hs.2.2.2.2 c hc) l hlc

theorem tree_chain_ne_nil (p : Params K) (pv : p.Valid) (t : Tree K V) (ht : TreeInv p t) :
    ∀ l ∈ t.leafChain, l ≠ [] := by
  obtain ⟨hs, _, _⟩ := ht
  unfold TreeShape at hs
  cases hroot : t.root with
  | none => simp [Tree.leafChain, hroot]
  | some r =>
    rw [hroot] at hs
    simp only [Tree.leafChain, hroot]
    obtain ⟨hst, _⟩ := hs
    generalize r.level = h at hst
    cases h with
    | zero =>
      obtain ⟨es, rfl, h1, _⟩ := shapeTop0_leaf hst
      intro l hl
      simp only [chain, List.mem_singleton] at hl
      subst hl
      intro he; subst he; simp at h1
    | succ h =>
      obtain ⟨lv, ks, kids, rfl, _, _, _, _, hkids⟩ := shapeTopS_inner hst
      intro l hl
      simp only [chain, List.mem_flatMap] at hl
      obtain ⟨c, hc, hlc⟩ := hl
      exact chain_leaves_ne_nil p pv h c (hkids c hc) l hlc

theorem tree_chain_flatten (t : Tree K V) : t.leafChain.flatten = t.toList := by
  cases hroot : t.root with
  | none => simp [Tree.leafChain, Tree.toList, hroot]
  | some r => simp [Tree.leafChain, Tree.toList, hroot, chain_flatten]

/-- **forward iteration** with `++` from `begin()` visits the entry sequence in order … -/
theorem iteration_fwd_spec (p : Params K) (pv : p.Valid) (t : Tree K V) (ht : TreeInv p t) (r : Nat)
    (hr : r < t.toList.length) :
    deref t.leafChain (iterN (itInc t.leafChain) r (0, 0)) = t.toList[r]? := by
  have hne := tree_chain_ne_nil p pv t ht
  rw [← tree_chain_flatten] at hr ⊢
  obtain ⟨hv, hrk⟩ := iterate_fwd t.leafChain hne r hr
  rw [deref_valid _ _ hv, hrk]

/-- … and **backward iteration** with `--` from `end()` visits it in reverse -/
theorem iteration_bwd_spec (p : Params K) (pv : p.Valid) (t : Tree K V) (ht : TreeInv p t) (e : Nat × Nat)
    (he : endPos t.leafChain = some e) (r : Nat) (h1 : 1 ≤ r) (h2 : r ≤ t.toList.length) :
    deref t.leafChain (iterN (itDec t.leafChain) r e) = t.toList[t.toList.length - r]? := by
  have hne := tree_chain_ne_nil p pv t ht
  have hend : IsEnd t.leafChain e := by
    unfold endPos at he
    cases hl : t.leafChain.getLast? with
    | none => rw [hl] at he; cases he
    | some l =>
      rw [hl] at he
      simp only [Option.some.injEq] at he
      subst he
      refine ⟨l, ?_, rfl, ?_⟩
      · simp only; rw [← hl, List.getLast?_eq_getElem?]
      · simp only
        have : t.leafChain ≠ [] := by intro hh; rw [hh] at hl; cases hl
        have := List.length_pos_iff.mpr this
        omega
  rw [← tree_chain_flatten] at h2 ⊢
  obtain ⟨hv, hrk⟩ := iterate_bwd t.leafChain hne e hend r h1 h2
  rw [deref_valid _ _ hv]
  congr 1
  omega

theorem getElem?_of_rank (ch : List (List (K × V))) (pos : Nat × Nat) (hv : ValidPos ch pos) :
    ∃ e, ch.flatten[rankOf ch (some pos)]? = some e ∧ deref ch pos = some e := by
  obtain ⟨leaf, hl, hs⟩ := hv
  have hd : deref ch pos = some leaf[pos.2] := by
    obtain ⟨li, s⟩ := pos
    simp only at hl hs
    simp [deref, hl, List.getElem?_eq_getElem hs]
  exact ⟨_, by rw [← deref_valid ch pos ⟨leaf, hl, hs⟩]; exact hd, hd⟩

/-- the counting loop of `count()` counts the run of equivalent entries that starts at its position -/
theorem countLoop_spec (p : Params K) (ch : List (List (K × V))) (hne : ∀ l ∈ ch, l ≠ []) (k : K) :
    ∀ (fuel li slot num r : Nat),
      ((ValidPos ch (li, slot) ∧ rankOf ch (some (li, slot)) = r) ∨ (¬ ValidPos ch (li, slot) ∧ r = ch.flatten.length)) →
      ((ch.flatten.drop r).takeWhile (fun e => p.eqv k e.1)).length < fuel →
      countLoop p ch k fuel li slot num = num + ((ch.flatten.drop r).takeWhile (fun e => p.eqv k e.1)).length := by
  intro fuel
  induction fuel with
  | zero => intro li slot num r _ h; omega
  | succ fuel ih =>
    intro li slot num r hpos hfuel
    unfold countLoop
    rcases hpos with ⟨hv, hr⟩ | ⟨hnv, hr⟩
    · obtain ⟨leaf, hl, hs⟩ := hv
      simp only at hl hs
      obtain ⟨e, hfe, hde⟩ := getElem?_of_rank ch (li, slot) ⟨leaf, hl, hs⟩
      rw [hr] at hfe
      have hle : leaf[slot]? = some e := by simpa [deref, hl] using hde
      rw [hl]
      simp only [hle]
      have hrlt : r < ch.flatten.length := (List.getElem?_eq_some_iff.mp hfe).1
      have hdrop : ch.flatten.drop r = e :: ch.flatten.drop (r + 1) := by
        rw [List.drop_eq_getElem_cons hrlt]
        congr 1
        exact (List.getElem?_eq_some_iff.mp hfe).2
      by_cases hq : p.eqv k e.1 = true
      · rw [if_pos hq]
        rw [hdrop, List.takeWhile_cons_of_pos (by simpa using hq)] at hfuel ⊢
        simp only [List.length_cons] at hfuel ⊢
        obtain ⟨h1, h2⟩ := itInc_spec ch hne (li, slot) ⟨leaf, hl, hs⟩
        rw [hr] at h1
        by_cases hnext : slot + 1 ≥ leaf.length
        · rw [if_pos hnext]
          -- next leaf (or past the chain)
          have hnp : (ValidPos ch (li + 1, 0) ∧ rankOf ch (some (li + 1, 0)) = r + 1) ∨
              (¬ ValidPos ch (li + 1, 0) ∧ r + 1 = ch.flatten.length) := by
            simp only [itInc, hl, Option.map_some, Option.getD_some] at h1 h2
            rw [if_neg (by omega)] at h1 h2
            by_cases hlen : li + 1 < ch.length
            · rw [if_pos hlen] at h1 h2
              left
              refine ⟨?_, h1⟩
              rcases h2 with h2 | h2
              · exact h2
              · exact ⟨ch[li + 1], List.getElem?_eq_getElem hlen,
                  List.length_pos_iff.mpr (hne _ (List.getElem_mem hlen))⟩
            · rw [if_neg hlen] at h1 h2
              right
              refine ⟨?_, ?_⟩
              · intro ⟨lf, hlf, _⟩
                simp only at hlf
                rw [List.getElem?_eq_none (by omega)] at hlf; cases hlf
              · rcases h2 with ⟨lf, hlf, hlt⟩ | h2
                · simp only at hlf hlt
                  rw [hl] at hlf; cases hlf; omega
                · omega
          rw [ih (li + 1) 0 (num + 1) (r + 1) hnp (by omega)]
          omega
        · rw [if_neg hnext]
          have hnp : ValidPos ch (li, slot + 1) ∧ rankOf ch (some (li, slot + 1)) = r + 1 := by
            refine ⟨⟨leaf, hl, by simp only; omega⟩, ?_⟩
            simp only [rankOf_eq] at hr ⊢; omega
          rw [ih li (slot + 1) (num + 1) (r + 1) (Or.inl hnp) (by omega)]
          omega
      · rw [if_neg hq]
        rw [hdrop, List.takeWhile_cons_of_neg (by simpa using hq)]
        simp
    · subst hr
      have : (ch.flatten.drop ch.flatten.length) = [] := List.drop_eq_nil_of_le (Nat.le_refl _)
      rw [this]
      simp only [List.takeWhile_nil, List.length_nil, Nat.add_zero]
      cases hl : ch[li]? with
      | none => rfl
      | some leaf =>
        simp only
        cases hs : leaf[slot]? with
        | none => rfl
        | some e =>
          exfalso
          exact hnv ⟨leaf, hl, (List.getElem?_eq_some_iff.mp hs).1⟩

/-- in an ordered sequence the entries equivalent to `k` are exactly the run that starts at the lower bound -/
theorem run_eq_filter (p : Params K) (sw : StrictWeak p.lt) (l : List (K × V)) (hs : SortedE p.lt l) (k : K) :
    ((l.drop (lbIdx p.lt k l)).takeWhile (fun e => p.eqv k e.1)).length = (l.filter (fun e => p.eqv k e.1)).length := by
  have hsplit : l = l.take (lbIdx p.lt k l) ++ l.drop (lbIdx p.lt k l) := (List.take_append_drop _ _).symm
  -- nothing before the lower bound is equivalent
  have hpre : (l.take (lbIdx p.lt k l)).filter (fun e => p.eqv k e.1) = [] := by
    rw [List.filter_eq_nil_iff]
    intro a ha
    obtain ⟨j, hj, rfl⟩ := List.mem_take_iff_getElem.mp ha
    have hj' : j < lbIdx p.lt k l := by omega
    have : (!p.lt (l[j]'(by omega)).1 k) = false := List.not_of_lt_findIdx hj'
    simp only [Bool.not_eq_false'] at this
    simp [Params.eqv, this]
  -- behind the run nothing is equivalent either
  generalize hd : l.drop (lbIdx p.lt k l) = d
  have hds : SortedE p.lt d := by
    rw [← hd]; exact List.Pairwise.sublist (List.drop_sublist _ _) hs
  have hge : ∀ a ∈ d, p.lt a.1 k = false := by
    intro a ha
    rw [← hd] at ha
    obtain ⟨j, hj, rfl⟩ := List.getElem_of_mem ha
    simp only [List.getElem_drop]
    simp only [List.length_drop] at hj
    have hidx : lbIdx p.lt k l < l.length := by omega
    have h0 : (!p.lt (l[lbIdx p.lt k l]).1 k) = true := List.findIdx_getElem (w := hidx)
    simp only [Bool.not_eq_true'] at h0
    by_cases hj0 : j = 0
    · subst hj0; simpa using h0
    · have hp := List.pairwise_iff_getElem.mp hs (lbIdx p.lt k l) (lbIdx p.lt k l + j) hidx (by omega) (by omega)
      cases hx : p.lt (l[lbIdx p.lt k l + j]).1 k with
      | false => rfl
      | true => have := sw.lt_of_le_of_lt hp hx; rw [h0] at this; cases this
  have hrun : ∀ (d : List (K × V)), SortedE p.lt d → (∀ a ∈ d, p.lt a.1 k = false) →
      (d.takeWhile (fun e => p.eqv k e.1)).length = (d.filter (fun e => p.eqv k e.1)).length := by
    intro d
    induction d with
    | nil => intro _ _; rfl
    | cons a d ih =>
      intro hsd hged
      have hsd' := List.pairwise_cons.mp hsd
      by_cases hq : p.eqv k a.1 = true
      · rw [List.takeWhile_cons_of_pos (by simpa using hq), List.filter_cons_of_pos (by simpa using hq)]
        simp only [List.length_cons]
        rw [ih hsd'.2 (fun x hx => hged x (List.mem_cons_of_mem _ hx))]
      · rw [List.takeWhile_cons_of_neg (by simpa using hq), List.filter_cons_of_neg (by simpa using hq)]
        -- a > k, hence everything behind it is > k
        have hak : p.lt k a.1 = true := by
          have h1 := hged a List.mem_cons_self
          simp only [Params.eqv, Bool.and_eq_true, Bool.not_eq_true', not_and, Bool.not_eq_false] at hq
          cases hx : p.lt k a.1 with
          | true => rfl
          | false => exact absurd (hq hx) (by simp [h1])
        symm
        simp only [List.length_nil]
        rw [List.length_eq_zero_iff, List.filter_eq_nil_iff]
        intro b hb
        have hab := hsd'.1 b hb
        have : p.lt k b.1 = true := sw.lt_of_lt_of_le hak hab
        simp [Params.eqv, this]
  conv => rhs; rw [hsplit, List.filter_append, hpre, List.nil_append, hd]
  exact hrun d hds hge

/-- **`count(key)`** = the number of entries equivalent to the key -/
theorem count_spec (p : Params K) (pv : p.Valid) (sw : StrictWeak p.lt) (t : Tree K V) (ht : TreeInv p t) (k : K) :
    count p t k = some (t.toList.filter (fun e => p.eqv k e.1)).length := by
  have hne := tree_chain_ne_nil p pv t ht
  have hcf := tree_chain_flatten t
  obtain ⟨hshape, hsort, hsep⟩ := ht
  unfold count
  cases hroot : t.root with
  | none => simp [Tree.toList, hroot]
  | some r =>
    simp only
    have hshape' := hshape
    unfold TreeShape at hshape'
    rw [hroot] at hshape' hsep
    simp only at hsep
    have htl : t.toList = flatten r.level r := by simp [Tree.toList, hroot]
    have hch : t.leafChain = chain r.level r := by simp [Tree.leafChain, hroot]
    have hsort' : SortedE p.lt (flatten r.level r) := by rw [← htl]; exact hsort
    obtain ⟨li, es, hd⟩ := descend_total p (V := V) (fun ks => findLower p ks k) (fun ks => findLower_le p ks k)
      r.level r 1 1 hshape'.1
    rw [hd]
    simp only
    obtain ⟨hd1, hd2⟩ := descend_spec (fun ks => findLower p ks k) r.level r li es hd
    have hlb := insRank_eq_lbIdx p sw k r.level r 1 1 hshape'.1 hsort' hsep
    have hrank : rankOf t.leafChain (some (li, findLower p (keysOf es) k)) = lbIdx p.lt k t.toList := by
      rw [hch, hd2, ← insRank_eq_rankSel, hlb, htl]
    have hpr : t.toList[lbIdx p.lt k t.toList]? = es[findLower p (keysOf es) k]? := by
      rw [htl, ← hlb, flatten_at_insRank p sw k r.level r 1 1 hshape'.1 hsort' hsep, descend_probe p k r.level r li es hd]
    have hpos : (ValidPos t.leafChain (li, findLower p (keysOf es) k) ∧
          rankOf t.leafChain (some (li, findLower p (keysOf es) k)) = lbIdx p.lt k t.toList) ∨
        (¬ ValidPos t.leafChain (li, findLower p (keysOf es) k) ∧ lbIdx p.lt k t.toList = t.leafChain.flatten.length) := by
      by_cases hv : findLower p (keysOf es) k < es.length
      · exact Or.inl ⟨⟨es, by rw [hch]; exact hd1, hv⟩, hrank⟩
      · right
        refine ⟨?_, ?_⟩
        · intro ⟨lf, hlf, hlt⟩
          rw [hch] at hlf
          simp only at hlf hlt
          rw [hd1] at hlf; cases hlf; omega
        · rw [hcf]
          have hnone : es[findLower p (keysOf es) k]? = none := List.getElem?_eq_none (by omega)
          rw [hnone] at hpr
          have hle : lbIdx p.lt k t.toList ≤ t.toList.length := List.findIdx_le_length
          rcases Nat.lt_or_ge (lbIdx p.lt k t.toList) t.toList.length with h1 | h1
          · rw [List.getElem?_eq_getElem h1] at hpr; cases hpr
          · omega
    have hrunle : ((t.leafChain.flatten.drop (lbIdx p.lt k t.toList)).takeWhile (fun e => p.eqv k e.1)).length ≤
        t.stats.size := by
      have h1 : t.stats.size = t.toList.length := by rw [htl]; exact hshape'.2.2.2
      rw [hcf, h1]
      exact Nat.le_trans (List.Sublist.length_le (List.takeWhile_sublist _)) (by simp)
    rw [countLoop_spec p t.leafChain hne k _ li _ 0 (lbIdx p.lt k t.toList) hpos (by omega)]
    rw [hcf, Nat.zero_add, run_eq_filter p sw t.toList hsort k]

end TlxVerif.C01
