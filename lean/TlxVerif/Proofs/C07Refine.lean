/-
C07 — the executable model `pmmBase` refines its specification: for all inputs, thread counts and both
splitting strategies the model of `parallel_multiway_merge_base` returns the first `size` elements of the
stable k-merge, `target + size`, and begins advanced to the partition at rank `size`.
The only hypothesis about `multisequence_partition` is `PartSpec` (the C08 model returns the partition).
-/
import TlxVerif.Proofs.C07Glue
import TlxVerif.Proofs.C07Split
namespace TlxVerif.C07
open TlxVerif.C08 (StrictWeak IsPartition)

/-- what the parallel merge needs of `multisequence_partition` on these sequences: at every rank up to
the total size it returns the offsets of the partition (C08) -/
def PartSpec (lt : Int → Int → Bool) (seqs : List (List Elem)) : Prop :=
  ∃ O : Nat → List Nat, ∀ rank : Nat, rank ≤ (seqs.map List.length).sum →
    partOffsets lt seqs (rank : Int) = .ok (O rank) ∧ IsPartition lt (keyRuns seqs) rank (O rank)

theorem isPartition_lens' (lt : Int → Int → Bool) (runs : List (List Elem)) :
    IsPartition lt (keyRuns runs) (runs.map List.length).sum (runs.map List.length) := by
  refine ⟨by simp [keyRuns], ?_, rfl, ?_⟩
  · intro i r o hr ho
    simp only [keyRuns, List.getElem?_map, Option.map_eq_some_iff] at hr
    obtain ⟨r', hr', rfl⟩ := hr
    simp only [List.getElem?_map, hr', Option.map_some, Option.some.injEq] at ho
    subst ho; simp
  · intro i j ri rj oi oj _ _ hrj _ hoj x _ y hy
    simp only [keyRuns, List.getElem?_map, Option.map_eq_some_iff] at hrj
    obtain ⟨r', hr', rfl⟩ := hrj
    simp only [List.getElem?_map, hr', Option.map_some, Option.some.injEq] at hoj
    subst hoj
    rw [List.drop_of_length_le (by simp)] at hy
    cases hy

theorem bounded_of_partition {lt : Int → Int → Bool} {runs : List (List Elem)} {rank : Nat} {o : List Nat}
    (h : IsPartition lt (keyRuns runs) rank o) : Bounded runs o := by
  intro i r x hr hx
  have := h.bound i (r.map (·.key)) x (by simp [keyRuns, hr]) hx
  simpa using this

/-! ### the threads and `assemble`, for any chain of slab ends -/

theorem pmmRun_ok (lt : Int → Int → Bool) {seqsAll seqs : List (List Elem)} {size : Nat} {ends : List (List Nat)}
    (hch : Chain (List.replicate seqs.length 0) ends)
    (hall : ∀ o ∈ ends, o.length = seqs.length ∧ Bounded seqs o ∧ o.sum ≤ size)
    (hlast : (lastOffs (List.replicate seqs.length 0) ends).sum = size) :
    pmmRun lt seqsAll seqs size ends = .ok
      { out := ((chunkRows seqs (List.replicate seqs.length 0) ends).map (fun row => kMerge lt row)).flatten,
        ret := size, begins := scatterBegins seqsAll (ends.getLastD []),
        windows := (blocksFrom lt seqs (List.replicate seqs.length 0) ends).map (fun w => (w.1, w.2.length)),
        parallel := true } := by
  have hall' : ∀ o ∈ ends, o.length = seqs.length ∧ Bounded seqs o := fun o ho => ⟨(hall o ho).1, (hall o ho).2.1⟩
  have hrows := rows_mapM lt (size := size) ends (List.replicate seqs.length 0) hch hall
  have hcons := blocksFrom_consec lt ends _ hch hall'
  have htot := blocks_total_length lt ends _ hch hall'
  have hz : (List.replicate seqs.length 0).sum = 0 := by simp
  rw [hz] at hcons htot
  have hasm := assemble_consec hcons (by omega : _ = size)
  unfold pmmRun
  simp only [hrows, hasm, bind, Except.bind, pure, Except.pure, blocksFrom_snd]

/-! ### exact splitting -/

theorem getD_of_lt {l : List Int} {i : Nat} (h : i < l.length) (d : Int) : l.getD i d = l[i] := by
  simp [List.getD, List.getElem?_eq_getElem h]

/-- the ranks requested by exact splitting, as natural numbers -/
def rankAt (size p s : Nat) : Nat := ((equallySplit size p).getD (s + 1) (-1)).toNat

theorem rankAt_props {size p : Nat} (hs : 1 ≤ size) (hp : 1 ≤ p) :
    (∀ s, s < p - 1 → ((equallySplit size p).getD (s + 1) (-1)) = (rankAt size p s : Int) ∧ rankAt size p s ≤ size) ∧
    (∀ s t, s < t → t < p - 1 → rankAt size p s ≤ rankAt size p t) := by
  obtain ⟨hlen, _, _, hpw, hbd⟩ := equallySplit_spec size p hs hp
  have hin : ∀ s (h1 : s + 1 < (equallySplit size p).length), 0 ≤ (equallySplit size p)[s + 1] ∧
      (equallySplit size p)[s + 1] ≤ size := by
    intro s h1
    exact hbd _ (List.getElem_mem _)
  constructor
  · intro s hsp
    have h1 : s + 1 < (equallySplit size p).length := by omega
    have := hin s h1
    unfold rankAt
    rw [getD_of_lt h1]
    constructor <;> omega
  · intro s t hst htp
    have h1 : s + 1 < (equallySplit size p).length := by omega
    have h2 : t + 1 < (equallySplit size p).length := by omega
    have := (List.pairwise_iff_getElem.mp hpw) (s + 1) (t + 1) h1 h2 (by omega)
    unfold rankAt
    rw [getD_of_lt h1, getD_of_lt h2]
    have a := hin s h1
    omega

/-- the (rank, offsets) list of the slabs of exact splitting -/
def exactPs (O : Nat → List Nat) (size p : Nat) (last : List Nat) : List (Nat × List Nat) :=
  (List.range (p - 1)).map (fun s => (rankAt size p s, O (rankAt size p s))) ++ [(size, last)]

theorem exactEnds_ok {lt : Int → Int → Bool} {seqs : List (List Elem)} {size p : Nat}
    (hs : 1 ≤ size) (hst : size ≤ (seqs.map List.length).sum) (hp : 1 ≤ p) (O : Nat → List Nat)
    (hO : ∀ rank : Nat, rank ≤ (seqs.map List.length).sum →
      partOffsets lt seqs (rank : Int) = .ok (O rank) ∧ IsPartition lt (keyRuns seqs) rank (O rank)) :
    ∃ last, IsPartition lt (keyRuns seqs) size last ∧
      exactEnds (partOffsets lt seqs) seqs size (seqs.map List.length).sum p =
        .ok ((exactPs O size p last).map (·.2)) := by
  obtain ⟨hr1, _⟩ := rankAt_props hs hp
  have hinner : (List.range (p - 1)).mapM (fun s => partOffsets lt seqs ((equallySplit size p).getD (s + 1) (-1))) =
      .ok ((List.range (p - 1)).map (fun s => O (rankAt size p s))) := by
    apply mapM_ok
    intro s hs'
    have hsp : s < p - 1 := List.mem_range.mp hs'
    rw [(hr1 s hsp).1]
    exact (hO _ (by have := (hr1 s hsp).2; omega)).1
  by_cases htight : (seqs.map List.length).sum = size
  · refine ⟨seqs.map List.length, ?_, ?_⟩
    · have := isPartition_lens' lt seqs; rwa [htight] at this
    · unfold exactEnds
      simp only [hinner, bind, Except.bind, htight, beq_self_eq_true, if_true, pure, Except.pure, exactPs,
        List.map_append, List.map_map, List.map_cons, List.map_nil]
      rfl
  · refine ⟨O size, (hO size hst).2, ?_⟩
    unfold exactEnds
    have hne : ((seqs.map List.length).sum == size) = false := by simpa using htight
    simp only [hinner, bind, Except.bind, hne, (hO size hst).1, pure, Except.pure, exactPs,
      List.map_append, List.map_map, List.map_cons, List.map_nil]
    rfl

theorem exactPs_props {lt : Int → Int → Bool} {seqs : List (List Elem)} {size p : Nat}
    (hs : 1 ≤ size) (hst : size ≤ (seqs.map List.length).sum) (hp : 1 ≤ p) (O : Nat → List Nat)
    (hO : ∀ rank : Nat, rank ≤ (seqs.map List.length).sum →
      partOffsets lt seqs (rank : Int) = .ok (O rank) ∧ IsPartition lt (keyRuns seqs) rank (O rank))
    {last : List Nat} (hlast : IsPartition lt (keyRuns seqs) size last) :
    (0 :: (exactPs O size p last).map (·.1)).Pairwise (· ≤ ·) ∧
    (∀ q ∈ exactPs O size p last, IsPartition lt (keyRuns seqs) q.1 q.2 ∧ q.1 ≤ size) ∧
    lastRank 0 (exactPs O size p last) = size ∧
    lastOffs (List.replicate seqs.length 0) ((exactPs O size p last).map (·.2)) = last := by
  obtain ⟨hr1, hr2⟩ := rankAt_props hs hp
  refine ⟨?_, ?_, ?_, ?_⟩
  · refine List.pairwise_cons.mpr ⟨fun _ _ => Nat.zero_le _, ?_⟩
    simp only [exactPs, List.map_append, List.map_map, List.map_cons, List.map_nil]
    rw [List.pairwise_append]
    refine ⟨?_, List.pairwise_singleton _ _, ?_⟩
    · rw [List.pairwise_map]
      refine List.Pairwise.imp_of_mem ?_ (List.pairwise_lt_range (n := p - 1))
      intro s t hs' ht' hst'
      exact hr2 s t hst' (List.mem_range.mp ht')
    · intro x hx y hy
      obtain ⟨s, hs', rfl⟩ := List.mem_map.mp hx
      simp at hy; subst hy
      exact (hr1 s (List.mem_range.mp hs')).2
  · intro q hq
    simp only [exactPs, List.mem_append, List.mem_map, List.mem_range, List.mem_cons, List.mem_nil_iff,
      or_false] at hq
    rcases hq with ⟨s, hs', rfl⟩ | rfl
    · exact ⟨(hO _ (by have := (hr1 s hs').2; omega)).2, (hr1 s hs').2⟩
    · exact ⟨hlast, Nat.le_refl _⟩
  · -- last rank
    have : ∀ (l : List (Nat × List Nat)) (r0 : Nat) (x : Nat × List Nat), lastRank r0 (l ++ [x]) = x.1 := by
      intro l
      induction l with
      | nil => intro r0 x; rfl
      | cons a l ih => intro r0 x; exact ih a.1 x
    exact this _ 0 _
  · simp only [exactPs, List.map_append, List.map_cons, List.map_nil]
    exact lastOffs_append_singleton _ _ _

/-! ### the specification of a run of the parallel merge -/

/-- windows `(target_position, length)` in thread order are adjacent and cover `[k, n)` -/
def TileFrom : Nat → Nat → List (Nat × Nat) → Prop
  | k, n, [] => k = n
  | k, n, (tp, len) :: rest => tp = k ∧ TileFrom (k + len) n rest

theorem tileFrom_of_consec : ∀ (wins : List (Nat × List Elem)) (k : Nat), Consec k wins →
    TileFrom k (k + (wins.map (·.2.length)).sum) (wins.map (fun w => (w.1, w.2.length)))
  | [], k, _ => by simp [TileFrom]
  | (tp, es) :: rest, k, hc => by
    refine ⟨hc.1, ?_⟩
    have := tileFrom_of_consec rest (k + es.length) hc.2
    simp only [List.map_cons, List.sum_cons]
    rw [← Nat.add_assoc]; exact this

/-- what `parallel_multiway_merge_base` has to deliver -/
structure MergeSpec (lt : Int → Int → Bool) (seqsAll seqs : List (List Elem)) (size : Nat) (r : Result) : Prop where
  out : r.out = (kMerge lt seqs).take size
  ret : r.ret = (size : Int)
  begins : ∃ o, IsPartition lt (keyRuns seqs) size o ∧ r.begins = scatterBegins seqsAll o
  windows : TileFrom 0 size r.windows

theorem getLastD_append_singleton {α : Type} (l : List α) (x d : α) : (l ++ [x]).getLastD d = x := by
  rw [List.getLastD_eq_getLast?, List.getLast?_append]
  simp

/-- **exact splitting, end to end** -/
theorem pmm_exact_refines {lt : Int → Int → Bool} (hlt : StrictWeak lt) {seqsAll seqs : List (List Elem)}
    (hg : GoodRuns lt tagLt seqs) {size p : Nat} (hs : 1 ≤ size) (hst : size ≤ (seqs.map List.length).sum)
    (hp : 1 ≤ p) (hpart : PartSpec lt seqs) :
    ∃ r, (exactEnds (partOffsets lt seqs) seqs size (seqs.map List.length).sum p >>= pmmRun lt seqsAll seqs size) = .ok r ∧
      MergeSpec lt seqsAll seqs size r := by
  obtain ⟨O, hO⟩ := hpart
  obtain ⟨last, hlastP, hends⟩ := exactEnds_ok hs hst hp O hO
  obtain ⟨hm, hallp, hlr, hlo⟩ := exactPs_props hs hst hp O hO hlastP
  have hkl : (keyRuns seqs).length = seqs.length := by simp [keyRuns]
  have hz : IsPartition lt (keyRuns seqs) 0 (List.replicate seqs.length 0) := by
    have := isPartition_zero lt (keyRuns seqs); rwa [hkl] at this
  have hall' : ∀ q ∈ exactPs O size p last, IsPartition lt (keyRuns seqs) q.1 q.2 := fun q hq => (hallp q hq).1
  have hch := chain_of_partitions hlt (exactPs O size p last) 0 _ hz hm hall'
  have hall : ∀ o ∈ (exactPs O size p last).map (·.2), o.length = seqs.length ∧ Bounded seqs o ∧ o.sum ≤ size := by
    intro o ho
    obtain ⟨q, hq, rfl⟩ := List.mem_map.mp ho
    have := hallp q hq
    exact ⟨by rw [this.1.len, hkl], bounded_of_partition this.1, by rw [this.1.sum]; exact this.2⟩
  have hrun := pmmRun_ok lt (seqsAll := seqsAll) hch hall (by rw [hlo, hlastP.sum])
  refine ⟨_, by rw [hends]; exact hrun, ?_, rfl, ⟨last, hlastP, ?_⟩, ?_⟩
  · show ((chunkRows seqs _ _).map (fun row => kMerge lt row)).flatten = _
    rw [exact_concat_eq_take_kMerge hlt tagOrder_tagLt hg _ hm hall', hlr]
  · show scatterBegins seqsAll _ = _
    simp only [exactPs, List.map_append, List.map_cons, List.map_nil, getLastD_append_singleton]
  · show TileFrom 0 size ((blocksFrom lt seqs _ _).map _)
    have hall2 : ∀ o ∈ (exactPs O size p last).map (·.2), o.length = seqs.length ∧ Bounded seqs o :=
      fun o ho => ⟨(hall o ho).1, (hall o ho).2.1⟩
    have hc := blocksFrom_consec lt _ _ hch hall2
    have ht := blocks_total_length lt _ _ hch hall2
    have hz0 : (List.replicate seqs.length 0).sum = 0 := by simp
    rw [hz0] at hc ht
    rw [hlo, hlastP.sum] at ht
    have := tileFrom_of_consec _ 0 hc
    rw [Nat.zero_add] at this
    have e : ((blocksFrom lt seqs (List.replicate seqs.length 0) ((exactPs O size p last).map (·.2))).map
        (·.2.length)).sum = size := by omega
    rw [e] at this
    exact this

/-! ### sampling splitting -/

theorem sum_le_of_bounded : ∀ (runs : List (List Elem)) (o : List Nat), o.length = runs.length → Bounded runs o →
    o.sum ≤ (runs.map List.length).sum
  | [], [], _, _ => by simp
  | [], _ :: _, h, _ => by simp at h
  | _ :: _, [], h, _ => by simp at h
  | r :: rs, x :: o, hl, hb => by
    have h0 := hb 0 r x rfl rfl
    have ih := sum_le_of_bounded rs o (by simpa using hl)
      (fun i r' y h1 h2 => hb (i + 1) r' y (by simpa using h1) (by simpa using h2))
    simp only [List.sum_cons, List.map_cons]; omega

theorem bounded_ub (lt : Int → Int → Bool) (runs : List (List Elem)) (v : Int) : Bounded runs (ubOffs lt runs v) := by
  intro i r x hr hx
  simp only [ubOffs, List.getElem?_map, hr, Option.map_some, Option.some.injEq] at hx
  subst hx; exact upperBound_le lt v r

theorem bounded_lens (runs : List (List Elem)) : Bounded runs (lens runs) := by
  intro i r x hr hx
  simp only [lens, List.getElem?_map, hr, Option.map_some, Option.some.injEq] at hx
  omega

theorem sampling_chain {lt : Int → Int → Bool} (hlt : StrictWeak lt) (runs : List (List Elem)) (vs : List Int)
    (hvs : vs.Pairwise (fun a b => lt b a = false)) :
    Chain (List.replicate runs.length 0) (samplingOffs lt runs vs) ∧
    ∀ o ∈ samplingOffs lt runs vs, o.length = runs.length ∧ Bounded runs o := by
  constructor
  · cases vs with
    | nil =>
      have := leAll_zero (lens runs)
      simp only [lens, List.length_map] at this
      exact ⟨this, trivial⟩
    | cons v vs =>
      have := leAll_zero (ubOffs lt runs v)
      simp only [ubOffs, List.length_map] at this
      exact ⟨this, chain_sampling hlt runs vs v hvs⟩
  · intro o ho
    rcases List.mem_append.mp ho with ho | ho
    · obtain ⟨v, _, rfl⟩ := List.mem_map.mp ho
      exact ⟨by simp [ubOffs], bounded_ub lt runs v⟩
    · simp at ho; subst ho
      exact ⟨by simp [lens], bounded_lens runs⟩

/-- the index of the splitter of slab `slab` in the sorted samples -/
def splitIdx (ns k p slab : Nat) : Nat := ns * k * (slab + 1) / p

def keyAt (run : List Elem) (j : Nat) : Int :=
  match run[j]? with
  | some e => e.key
  | none => 0

/-- the unsorted samples as a pure function -/
def rawSamples (P : Params) (seqs : List (List Elem)) (size total ns : Nat) : List Int :=
  (seqs.map (fun run => (List.range ns).map (fun i => keyAt run (P.sampleIdx run.length i ns size total)))).flatten

theorem rawSamples_length (P : Params) (size total ns : Nat) : ∀ (seqs : List (List Elem)),
    (rawSamples P seqs size total ns).length = seqs.length * ns
  | [] => by simp [rawSamples]
  | r :: rs => by
    have ih := rawSamples_length P size total ns rs
    simp only [rawSamples, List.map_cons, List.flatten_cons, List.length_append, List.length_map,
      List.length_range, List.length_cons] at ih ⊢
    rw [ih, Nat.succ_mul]; omega

theorem samplesOf_ok (P : Params) {seqs : List (List Elem)} {size total ns : Nat}
    (hne : ∀ r ∈ seqs, r ≠ [])
    (hidx : ∀ (len i ns : Nat), i < ns → 0 < len → P.sampleIdx len i ns size total < len) :
    samplesOf P seqs size total ns = .ok (sortKeys P.lt (rawSamples P seqs size total ns)) := by
  unfold samplesOf
  have hrows : seqs.mapM (fun run => (List.range ns).mapM (fun i =>
      sampleKey run (P.sampleIdx run.length i ns size total))) =
      .ok (seqs.map (fun run => (List.range ns).map (fun i => keyAt run (P.sampleIdx run.length i ns size total)))) := by
    apply mapM_ok
    intro run hrun
    apply mapM_ok
    intro i hi
    have hlen : 0 < run.length := List.length_pos_iff.mpr (hne run hrun)
    have hlt := hidx run.length i ns (List.mem_range.mp hi) hlen
    simp only [sampleKey, keyAt, List.getElem?_eq_getElem hlt]
    rfl
  rw [hrows]
  rfl

/-- the splitter values the sampling splitter reads -/
def splitVals (lt : Int → Int → Bool) (raw : List Int) (ns k p : Nat) : List Int :=
  (List.range (p - 1)).map (fun slab => (sortKeys lt raw).getD (splitIdx ns k p slab) 0)

theorem splitIdx_lt {ns k p slab : Nat} (hnk : 0 < ns * k) (hs : slab < p - 1) : splitIdx ns k p slab < ns * k := by
  unfold splitIdx
  apply Nat.div_lt_of_lt_mul
  rw [Nat.mul_comm p]
  exact Nat.mul_lt_mul_of_pos_left (by omega) hnk

theorem splitIdx_mono {ns k p s t : Nat} (hst : s ≤ t) : splitIdx ns k p s ≤ splitIdx ns k p t := by
  unfold splitIdx
  exact Nat.div_le_div_right (Nat.mul_le_mul_left _ (by omega))

theorem samplingEnds_ok (P : Params) {seqs : List (List Elem)} {size total p : Nat}
    (hne : ∀ r ∈ seqs, r ≠ []) (hk : 0 < seqs.length) (hp : 1 ≤ p) (hosf : 1 ≤ P.osf)
    (hidx : ∀ (len i ns : Nat), i < ns → 0 < len → P.sampleIdx len i ns size total < len) :
    samplingEnds P seqs size total p =
      .ok (samplingOffs P.lt seqs (splitVals P.lt (rawSamples P seqs size total (p * P.osf)) (p * P.osf) seqs.length p)) := by
  unfold samplingEnds
  have hns : 0 < p * P.osf := Nat.mul_pos (by omega) (by omega)
  have hlen : (sortKeys P.lt (rawSamples P seqs size total (p * P.osf))).length = p * P.osf * seqs.length := by
    rw [(sortKeys_perm P.lt _).length_eq, rawSamples_length, Nat.mul_comm]
  dsimp only
  rw [samplesOf_ok P hne hidx, ok_bind]
  have hinner : (List.range (p - 1)).mapM (fun slab => do
      let v ← splitterAt (sortKeys P.lt (rawSamples P seqs size total (p * P.osf))) (p * P.osf * seqs.length * (slab + 1) / p)
      (pure (seqs.map fun run => upperBound P.lt run v) : R (List Nat))) =
      .ok ((List.range (p - 1)).map (fun slab => ubOffs P.lt seqs
        ((sortKeys P.lt (rawSamples P seqs size total (p * P.osf))).getD (splitIdx (p * P.osf) seqs.length p slab) 0))) := by
    apply mapM_ok
    intro slab hslab
    have hlt := splitIdx_lt (ns := p * P.osf) (k := seqs.length) (Nat.mul_pos hns hk) (List.mem_range.mp hslab)
    have hlt' : p * P.osf * seqs.length * (slab + 1) / p <
        (sortKeys P.lt (rawSamples P seqs size total (p * P.osf))).length := by rw [hlen]; exact hlt
    simp only [splitterAt, List.getElem?_eq_getElem hlt', splitIdx, List.getD, Option.getD_some, ubOffs]
    rfl
  rw [hinner, ok_bind]
  simp only [samplingOffs, splitVals, List.map_map, lens]
  rfl

theorem splitVals_sorted {lt : Int → Int → Bool} (hlt : StrictWeak lt) (raw : List Int) {ns k p : Nat}
    (hlen : raw.length = k * ns) (hnk : 0 < ns * k) :
    (splitVals lt raw ns k p).Pairwise (fun a b => lt b a = false) := by
  unfold splitVals
  have h := pairwise_map_getD hlt (sortKeys_sorted hlt raw) ((List.range (p - 1)).map (splitIdx ns k p))
    (by
      rw [List.pairwise_map]
      refine List.Pairwise.imp_of_mem ?_ (List.pairwise_lt_range (n := p - 1))
      intro s t _ _ hst
      exact splitIdx_mono (Nat.le_of_lt hst))
    (by
      intro i hi
      obtain ⟨s, hs, rfl⟩ := List.mem_map.mp hi
      rw [(sortKeys_perm lt raw).length_eq, hlen, Nat.mul_comm]
      exact splitIdx_lt hnk (List.mem_range.mp hs))
  simpa [List.map_map, Function.comp_def] using h

/-- **sampling splitting, end to end** (size = total) -/
theorem pmm_sampling_refines (P : Params) (hlt : StrictWeak P.lt) {seqsAll seqs : List (List Elem)}
    (hg : GoodRuns P.lt tagLt seqs) (hne : ∀ r ∈ seqs, r ≠ []) (hk : 0 < seqs.length) {p : Nat} (hp : 1 ≤ p)
    (hosf : 1 ≤ P.osf)
    (hidx : ∀ (len i ns : Nat), i < ns → 0 < len →
      P.sampleIdx len i ns (seqs.map List.length).sum (seqs.map List.length).sum < len) :
    ∃ r, (samplingEnds P seqs (seqs.map List.length).sum (seqs.map List.length).sum p >>=
        pmmRun P.lt seqsAll seqs (seqs.map List.length).sum) = .ok r ∧
      MergeSpec P.lt seqsAll seqs (seqs.map List.length).sum r := by
  have hns : 0 < p * P.osf := Nat.mul_pos (by omega) (by omega)
  have hvs := splitVals_sorted hlt (rawSamples P seqs (seqs.map List.length).sum (seqs.map List.length).sum (p * P.osf))
    (ns := p * P.osf) (k := seqs.length) (p := p) (rawSamples_length _ _ _ _ _) (Nat.mul_pos hns hk)
  obtain ⟨hch, hall0⟩ := sampling_chain hlt seqs _ hvs
  have hall : ∀ o ∈ samplingOffs P.lt seqs (splitVals P.lt
      (rawSamples P seqs (seqs.map List.length).sum (seqs.map List.length).sum (p * P.osf)) (p * P.osf) seqs.length p),
      o.length = seqs.length ∧ Bounded seqs o ∧ o.sum ≤ (seqs.map List.length).sum :=
    fun o ho => ⟨(hall0 o ho).1, (hall0 o ho).2, sum_le_of_bounded seqs o (hall0 o ho).1 (hall0 o ho).2⟩
  have hlo : lastOffs (List.replicate seqs.length 0) (samplingOffs P.lt seqs (splitVals P.lt
      (rawSamples P seqs (seqs.map List.length).sum (seqs.map List.length).sum (p * P.osf)) (p * P.osf) seqs.length p)) =
      lens seqs := by
    unfold samplingOffs; exact lastOffs_append_singleton _ _ _
  have hrun := pmmRun_ok P.lt (seqsAll := seqsAll) hch hall (by rw [hlo]; rfl)
  refine ⟨_, by rw [samplingEnds_ok P hne hk hp hosf hidx]; exact hrun, ?_, rfl,
    ⟨lens seqs, isPartition_lens' P.lt seqs, ?_⟩, ?_⟩
  · show ((chunkRows seqs _ _).map (fun row => kMerge P.lt row)).flatten = _
    rw [sampling_concat_eq_kMerge hlt tagOrder_tagLt hg _ hvs, List.take_of_length_le]
    rw [kMerge_eq_sortStable, sortStable_length, List.length_flatten]
    exact Nat.le_refl _
  · show scatterBegins seqsAll _ = _
    unfold samplingOffs
    rw [getLastD_append_singleton]
  · show TileFrom 0 _ ((blocksFrom P.lt seqs _ _).map _)
    have hc := blocksFrom_consec P.lt _ _ hch hall0
    have ht := blocks_total_length P.lt _ _ hch hall0
    have hz0 : (List.replicate seqs.length 0).sum = 0 := by simp
    rw [hz0] at hc ht
    rw [hlo] at ht
    have := tileFrom_of_consec _ 0 hc
    rw [Nat.zero_add] at this
    have e : ((blocksFrom P.lt seqs (List.replicate seqs.length 0) (samplingOffs P.lt seqs (splitVals P.lt
        (rawSamples P seqs (seqs.map List.length).sum (seqs.map List.length).sum (p * P.osf)) (p * P.osf)
        seqs.length p))).map (·.2.length)).sum = (seqs.map List.length).sum := by
      simp only [lens] at ht; omega
    rw [e] at this
    exact this

/-! ### the whole model -/

/-- the non-empty sequences (`seqs_ne`) -/
def nonEmpty (seqsAll : List (List Elem)) : List (List Elem) := seqsAll.filter (fun r => !r.isEmpty)

theorem nonEmpty_flatten : ∀ (l : List (List Elem)), (nonEmpty l).flatten = l.flatten
  | [] => rfl
  | r :: rs => by
    have ih := nonEmpty_flatten rs
    unfold nonEmpty at ih ⊢
    cases r with
    | nil => simpa [List.filter] using ih
    | cons a r => simp [List.filter, ih]

theorem nonEmpty_ne (l : List (List Elem)) : ∀ r ∈ nonEmpty l, r ≠ [] := by
  intro r hr
  have := (List.mem_filter.mp hr).2
  intro e; subst e; simp at this

theorem scatterBegins_zero : ∀ (l : List (List Elem)), scatterBegins l (List.replicate (nonEmpty l).length 0) = l.map (fun _ => 0)
  | [] => rfl
  | r :: rs => by
    have ih := scatterBegins_zero rs
    cases r with
    | nil =>
      simp only [scatterBegins, List.isEmpty_nil, if_true, List.map_cons]
      have : nonEmpty ([] :: rs) = nonEmpty rs := by simp [nonEmpty, List.filter]
      rw [this, ih]
    | cons a r =>
      have : nonEmpty ((a :: r) :: rs) = (a :: r) :: nonEmpty rs := by simp [nonEmpty, List.filter]
      rw [this]
      simp only [List.length_cons, List.replicate_succ, scatterBegins, List.isEmpty_cons, Bool.false_eq_true,
        if_false, List.map_cons]
      rw [ih]

theorem pmmBase_unfold (P : Params) (seqsAll : List (List Elem)) (size : Nat) :
    pmmBase P seqsAll size =
      if (((nonEmpty seqsAll).map List.length).sum == 0 || (nonEmpty seqsAll).length == 0 || size == 0) = true then
        .ok { out := [], ret := 0, begins := seqsAll.map (fun _ => 0), windows := [], parallel := true }
      else if ((if P.threads > ((nonEmpty seqsAll).map List.length).sum then ((nonEmpty seqsAll).map List.length).sum
                else P.threads) == 0) = true then throw "zero threads"
      else if (!P.exact && size == ((nonEmpty seqsAll).map List.length).sum) = true then
        samplingEnds P (nonEmpty seqsAll) size ((nonEmpty seqsAll).map List.length).sum
            (if P.threads > ((nonEmpty seqsAll).map List.length).sum then ((nonEmpty seqsAll).map List.length).sum
             else P.threads) >>=
          pmmRun P.lt seqsAll (nonEmpty seqsAll) size
      else
        exactEnds (partOffsets P.lt (nonEmpty seqsAll)) (nonEmpty seqsAll) size ((nonEmpty seqsAll).map List.length).sum
            (if P.threads > ((nonEmpty seqsAll).map List.length).sum then ((nonEmpty seqsAll).map List.length).sum
             else P.threads) >>=
          pmmRun P.lt seqsAll (nonEmpty seqsAll) size := rfl

/-- **The executable model of `parallel_multiway_merge_base` refines its specification**: for all
well-tagged key-sorted inputs (empty sequences allowed), every `size` up to the total, every thread count
≥ 1, both splitting strategies and every oversampling factor ≥ 1 the model succeeds and returns the first
`size` elements of the stable k-merge, `target + size`, the begins advanced to the partition at rank `size`,
and adjacent per-thread windows that tile `[0, size)`. -/
theorem pmmBase_refines_spec (P : Params) (hlt : StrictWeak P.lt) (seqsAll : List (List Elem))
    (hw : WellTagged seqsAll) (hk : KeySorted P.lt seqsAll) (size : Nat) (hsize : size ≤ seqsAll.flatten.length)
    (hthr : 1 ≤ P.threads) (hosf : 1 ≤ P.osf)
    (hidx : ∀ (len i ns : Nat), i < ns → 0 < len → P.sampleIdx len i ns size size < len)
    (hpart : PartSpec P.lt (nonEmpty seqsAll)) :
    ∃ r, pmmBase P seqsAll size = .ok r ∧ r.out = (kMerge P.lt seqsAll).take size ∧ r.ret = (size : Int) ∧
      (∃ o, IsPartition P.lt (keyRuns (nonEmpty seqsAll)) size o ∧ r.begins = scatterBegins seqsAll o) ∧
      TileFrom 0 size r.windows := by
  have hfl := nonEmpty_flatten seqsAll
  have htot : ((nonEmpty seqsAll).map List.length).sum = seqsAll.flatten.length := by
    rw [← hfl, List.length_flatten]
  have hkm : kMerge P.lt (nonEmpty seqsAll) = kMerge P.lt seqsAll := by
    simp only [kMerge, hfl]
  have hw' : WellTagged (nonEmpty seqsAll) := by unfold WellTagged; rw [hfl]; exact hw
  have hk' : KeySorted P.lt (nonEmpty seqsAll) := fun r hr => hk r (List.mem_filter.mp hr).1
  have hg := goodRuns_of_wellTagged hw' hk'
  rw [pmmBase_unfold]
  by_cases h0 : (((nonEmpty seqsAll).map List.length).sum == 0 || (nonEmpty seqsAll).length == 0 || size == 0) = true
  · rw [if_pos h0]
    have hsz : size = 0 := by
      simp only [Bool.or_eq_true, beq_iff_eq] at h0
      rcases h0 with (h0 | h0) | h0
      · omega
      · have hnil : nonEmpty seqsAll = [] := List.length_eq_zero_iff.mp h0
        have h2 : ((nonEmpty seqsAll).map List.length).sum = 0 := by rw [hnil]; rfl
        omega
      · exact h0
    subst hsz
    refine ⟨_, rfl, by simp, rfl, ⟨List.replicate (nonEmpty seqsAll).length 0, ?_, (scatterBegins_zero seqsAll).symm⟩, rfl⟩
    have := isPartition_zero P.lt (keyRuns (nonEmpty seqsAll))
    simpa [keyRuns] using this
  · rw [if_neg h0]
    simp only [Bool.or_eq_true, beq_iff_eq, not_or] at h0
    obtain ⟨⟨ht0, hk0⟩, hs0⟩ := h0
    have hp1 : 1 ≤ (if P.threads > ((nonEmpty seqsAll).map List.length).sum then ((nonEmpty seqsAll).map List.length).sum
        else P.threads) := by split <;> omega
    have hpne : ¬ ((if P.threads > ((nonEmpty seqsAll).map List.length).sum then ((nonEmpty seqsAll).map List.length).sum
        else P.threads) == 0) = true := by
      simp only [beq_iff_eq]; omega
    rw [if_neg hpne]
    by_cases hsamp : (!P.exact && size == ((nonEmpty seqsAll).map List.length).sum) = true
    · rw [if_pos hsamp]
      have hst : size = ((nonEmpty seqsAll).map List.length).sum := by
        simp only [Bool.and_eq_true, beq_iff_eq] at hsamp; exact hsamp.2
      obtain ⟨r, hr, hspec⟩ := pmm_sampling_refines P hlt (seqsAll := seqsAll) hg (nonEmpty_ne seqsAll)
        (by omega) hp1 hosf (by rw [← hst]; exact hidx)
      rw [← hst] at hr hspec
      rw [← hst]
      exact ⟨r, hr, by rw [hspec.out, hkm], hspec.ret, hspec.begins, hspec.windows⟩
    · rw [if_neg hsamp]
      obtain ⟨r, hr, hspec⟩ := pmm_exact_refines hlt (seqsAll := seqsAll) hg (size := size) (by omega)
        (by omega) hp1 hpart
      exact ⟨r, hr, by rw [hspec.out, hkm], hspec.ret, hspec.begins, hspec.windows⟩

/-- **The four front ends**: whichever path the switch takes (sequential fall-back = its specification,
or the parallel base), the result is the first `size` elements of the stable k-merge and `target + size`. -/
theorem pmm_refines_spec (P : Params) (hlt : StrictWeak P.lt) (fs fp : Bool) (mk mn : Nat)
    (seqsAll : List (List Elem)) (hw : WellTagged seqsAll) (hk : KeySorted P.lt seqsAll) (size : Nat)
    (hsize : size ≤ seqsAll.flatten.length) (hthr : 1 ≤ P.threads) (hosf : 1 ≤ P.osf)
    (hidx : ∀ (len i ns : Nat), i < ns → 0 < len → P.sampleIdx len i ns size size < len)
    (hpart : PartSpec P.lt (nonEmpty seqsAll)) :
    ∃ r, pmm P fs fp mk mn seqsAll size = .ok r ∧ r.out = (kMerge P.lt seqsAll).take size ∧ r.ret = (size : Int) := by
  unfold pmm
  by_cases he : seqsAll.isEmpty = true
  · rw [if_pos he]
    have : seqsAll = [] := List.isEmpty_iff.mp he
    subst this
    simp at hsize; subst hsize
    exact ⟨_, rfl, by simp [kMerge], rfl⟩
  · rw [if_neg he]
    by_cases hpar : usesParallel fs fp P.threads seqsAll.length size mk mn = true
    · rw [if_pos hpar]
      obtain ⟨r, hr, hout, hret, _, _⟩ := pmmBase_refines_spec P hlt seqsAll hw hk size hsize hthr hosf hidx hpart
      exact ⟨r, hr, hout, hret⟩
    · rw [if_neg hpar]
      refine ⟨_, rfl, rfl, ?_⟩
      show ((kMergeTake P.lt seqsAll size).length : Int) = size
      unfold kMergeTake
      rw [List.length_take, kMerge_eq_sortStable, sortStable_length, Nat.min_eq_left hsize]

end TlxVerif.C07
