/-
C03 — the LCP stores of a 16-bit radix step (`stepLcp16`, radix_sort.hpp:391-412 / 762-783):
bucket 0 is filled with `depth`, and the first entry of every non-empty bucket `k` whose nearest
non-empty predecessor is `i` receives `depth + [i >> 8 = k >> 8]`.
-/
import TlxVerif.Proofs.C03Blocks16
namespace TlxVerif.C03

def flag16 (i k : Nat) : Nat := if i >>> 8 = k >>> 8 then 1 else 0

/-- `stepLcp16` seen from the start of the remaining range -/
def relB16 (d : Nat) : Option Nat → Nat → List Nat → List Nat → List Nat
  | _, _, [], l => l
  | prev, k, s :: rest, l =>
    if s = 0 then relB16 d prev (k + 1) rest l
    else
      (match prev with
        | none => l.take s
        | some i => (l.take s).set 0 (d + flag16 i k)) ++ relB16 d (some k) (k + 1) rest (l.drop s)

theorem relB16_length (d : Nat) (prev : Option Nat) (k : Nat) (sizes l : List Nat) (h : l.length = sizes.sum) :
    (relB16 d prev k sizes l).length = l.length := by
  induction sizes generalizing prev k l with
  | nil => simp [relB16]
  | cons s rest ih =>
    simp only [relB16]
    simp only [List.sum_cons] at h
    split
    · rename_i hs; subst hs; exact ih prev (k + 1) l (by omega)
    · rw [List.length_append, ih (some k) (k + 1) (l.drop s) (by simp; omega)]
      cases prev <;> simp <;> omega

theorem relB16_nil (d : Nat) (prev : Option Nat) (k : Nat) (sizes : List Nat) : relB16 d prev k sizes [] = [] := by
  induction sizes generalizing prev k with
  | nil => simp [relB16]
  | cons s rest ih =>
    simp only [relB16]
    split
    · exact ih prev (k + 1)
    · cases prev <;> simp [ih]

/-- non-empty buckets `(index, size)` of a suffix of the size vector that starts at index `k` -/
def neList (sizes : List Nat) (k : Nat) : List (Nat × Nat) :=
  ((sizes.zipIdx k).filter (fun p => p.1 ≠ 0)).map (fun p => (p.2, p.1))

theorem neList_nil (k : Nat) : neList [] k = [] := by simp [neList]

theorem neList_cons (s : Nat) (rest : List Nat) (k : Nat) :
    neList (s :: rest) k = if s ≠ 0 then (k, s) :: neList rest (k + 1) else neList rest (k + 1) := by
  simp only [neList, List.zipIdx_cons, List.filter_cons]
  by_cases h : s = 0 <;> simp [h]

theorem setPairs_nil (l : List Nat) (d : Nat) : setPairs l [] d = l := by simp [setPairs]

theorem setPairs_cons (l : List Nat) (p : Nat × Nat) (ps : List (Nat × Nat)) (d : Nat) :
    setPairs l (p :: ps) d = setPairs (l.set p.1 (d + p.2)) ps d := by simp [setPairs]

theorem border16_single (p : Nat × Nat) (bkt : Nat) : border16 [p] bkt = [] := by
  obtain ⟨a, b⟩ := p
  simp [border16]

theorem border16_two (i1 s1 i2 s2 : Nat) (rest : List (Nat × Nat)) (bkt : Nat) :
    border16 ((i1, s1) :: (i2, s2) :: rest) bkt
      = (bkt, flag16 i1 i2) :: border16 ((i2, s2) :: rest) (bkt + s2) := by
  simp [border16, flag16]

theorem border16_rel (d : Nat) (rest : List Nat) (k i1 s1 : Nat) (pre l : List Nat)
    (hl : l.length = rest.sum) :
    setPairs (pre ++ l) (border16 ((i1, s1) :: neList rest k) pre.length) d
      = pre ++ relB16 d (some i1) k rest l := by
  induction rest generalizing k i1 s1 pre l with
  | nil => simp [neList_nil, border16_single, setPairs_nil, relB16]
  | cons s rest ih =>
    simp only [List.sum_cons] at hl
    rw [neList_cons]
    by_cases hs : s = 0
    · subst hs
      simp only [ne_eq, not_true_eq_false, if_false, relB16, if_true]
      exact ih (k + 1) i1 s1 pre l (by omega)
    · simp only [ne_eq, hs, not_false_eq_true, if_true, relB16, if_false]
      rw [border16_two, setPairs_cons]
      simp only
      cases l with
      | nil => simp at hl; omega
      | cons x xs =>
        cases s with
        | zero => exact absurd rfl hs
        | succ s' =>
          have e1 : (pre ++ x :: xs).set pre.length (d + flag16 i1 k)
              = (pre ++ (d + flag16 i1 k) :: xs.take s') ++ xs.drop s' := by
            rw [List.set_append_right _ _ (by omega)]
            simp
          rw [e1]
          have e2 : pre.length + (s' + 1) = (pre ++ (d + flag16 i1 k) :: xs.take s').length := by
            simp only [List.length_append, List.length_cons, List.length_take]
            simp only [List.length_cons] at hl
            omega
          rw [e2, ih (k + 1) k (s' + 1) _ (xs.drop s') (by simp at hl ⊢; omega)]
          simp

theorem stepLcp16_rel_none (d : Nat) (rest : List Nat) (k : Nat) (l : List Nat) (hl : l.length = rest.sum) :
    (match neList rest k with
      | [] => l
      | (_, s1) :: _ => setPairs l (border16 (neList rest k) s1) d) = relB16 d none k rest l := by
  induction rest generalizing k l with
  | nil => simp [neList_nil, relB16]
  | cons s rest ih =>
    simp only [List.sum_cons] at hl
    rw [neList_cons]
    by_cases hs : s = 0
    · subst hs
      simp only [ne_eq, not_true_eq_false, if_false, relB16, if_true]
      exact ih (k + 1) l (by omega)
    · simp only [ne_eq, hs, not_false_eq_true, if_true, relB16, if_false]
      have hts : (l.take s).length = s := by rw [List.length_take]; omega
      have := border16_rel d rest (k + 1) k s (l.take s) (l.drop s) (by simp; omega)
      rw [List.take_append_drop, hts] at this
      exact this

/-- chunks of a `relB16` result carry the border values at their heads -/
def ChunksMarked (d : Nat) : Option Nat → Nat → List Nat → List (List Nat) → Prop
  | _, _, [], [] => True
  | prev, k, s :: ss, c :: cs =>
    (s ≠ 0 → ∀ i, prev = some i → c.head? = some (d + flag16 i k)) ∧
      ChunksMarked d (if s ≠ 0 then some k else prev) (k + 1) ss cs
  | _, _, _, _ => False

theorem relB16_marked (d : Nat) (prev : Option Nat) (k : Nat) (rest l : List Nat) (hl : l.length = rest.sum) :
    ChunksMarked d prev k rest (splitBy rest (relB16 d prev k rest l)) := by
  induction rest generalizing prev k l with
  | nil => simp [splitBy, ChunksMarked]
  | cons s rest ih =>
    simp only [List.sum_cons] at hl
    simp only [relB16]
    by_cases hs : s = 0
    · subst hs
      simp only [if_true, splitBy, List.take_zero, List.drop_zero, ChunksMarked, ne_eq, not_true_eq_false,
        if_false]
      exact ⟨by simp, ih prev (k + 1) l (by omega)⟩
    · simp only [hs, if_false, splitBy, ChunksMarked, ne_eq, not_false_eq_true, if_true]
      generalize hc : (match prev with
        | none => l.take s
        | some i => (l.take s).set 0 (d + flag16 i k)) = c
      have hcl : c.length = s := by
        rw [← hc]; cases prev <;> simp <;> omega
      rw [List.take_left' hcl, List.drop_left' hcl]
      refine ⟨?_, ih (some k) (k + 1) (l.drop s) (by simp; omega)⟩
      intro _ i hi
      subst hi
      rw [← hc]
      simp only
      cases hlt : l.take s with
      | nil =>
        have : (l.take s).length = 0 := by rw [hlt]; rfl
        rw [List.length_take] at this
        omega
      | cons a as => simp

theorem stepLcp16_eq (s0 : Nat) (rest : List Nat) (d : Nat) (l : List Nat) (hl : l.length = s0 + rest.sum) :
    stepLcp16 (s0 :: rest) d l
      = ((l.take s0).take 1 ++ List.replicate (s0 - 1) d)
          ++ relB16 d (if s0 ≠ 0 then some 0 else none) 1 rest (l.drop s0) := by
  have hs0 : s0 ≤ l.length := by omega
  generalize hpre' : (l.take s0).take 1 ++ List.replicate (s0 - 1) d = pre
  have hpre : pre.length = s0 := by
    rw [← hpre']
    simp only [List.length_append, List.length_take, List.length_replicate]
    omega
  have hl0 : setRange l 1 s0 d = pre ++ l.drop s0 := by
    conv => lhs; rw [← List.take_append_drop s0 (setRange l 1 s0 d)]
    rw [setRange_take l s0 d hs0, setRange_drop, hpre']
  have hne : ((s0 :: rest).zipIdx.filter (fun p => p.1 ≠ 0)).map (fun p => (p.2, p.1)) = neList (s0 :: rest) 0 := rfl
  unfold stepLcp16
  simp only [List.headD_cons, hne, hl0]
  rw [neList_cons]
  by_cases h0 : s0 = 0
  · subst h0
    have hp : pre = [] := List.eq_nil_of_length_eq_zero hpre
    subst hp
    simp only [ne_eq, not_true_eq_false, if_false, List.drop_zero, List.nil_append, Nat.zero_add]
    exact stepLcp16_rel_none d rest 1 l (by simpa using hl)
  · simp only [ne_eq, h0, not_false_eq_true, if_true, Nat.zero_add]
    have := border16_rel d rest 1 0 s0 pre (l.drop s0) (by simp; omega)
    rw [hpre] at this
    exact this

/-- the result of `stepLcp16` cut at the bucket boundaries -/
theorem stepLcp16_chunks (s0 : Nat) (rest : List Nat) (d : Nat) (l : List Nat)
    (hl : l.length = (s0 :: rest).sum) :
    ∃ tail, splitBy (s0 :: rest) (stepLcp16 (s0 :: rest) d l)
        = ((l.take s0).take 1 ++ List.replicate (s0 - 1) d) :: tail ∧
      ChunksMarked d (if s0 ≠ 0 then some 0 else none) 1 rest tail ∧
      (stepLcp16 (s0 :: rest) d l).length = l.length ∧
      (stepLcp16 (s0 :: rest) d l).take 1 = l.take 1 := by
  simp only [List.sum_cons] at hl
  have hs0 : s0 ≤ l.length := by omega
  rw [stepLcp16_eq s0 rest d l hl]
  generalize hpre' : (l.take s0).take 1 ++ List.replicate (s0 - 1) d = pre
  have hpre : pre.length = s0 := by
    rw [← hpre']
    simp only [List.length_append, List.length_take, List.length_replicate]
    omega
  have hdl : (l.drop s0).length = rest.sum := by simp; omega
  refine ⟨splitBy rest (relB16 d (if s0 ≠ 0 then some 0 else none) 1 rest (l.drop s0)), ?_, ?_, ?_, ?_⟩
  · simp only [splitBy]
    rw [List.take_left' hpre, List.drop_left' hpre]
  · exact relB16_marked d _ 1 rest (l.drop s0) hdl
  · rw [List.length_append, relB16_length d _ 1 rest _ hdl, hpre]
    simp; omega
  · by_cases h0 : s0 = 0
    · subst h0
      have hp : pre = [] := List.eq_nil_of_length_eq_zero hpre
      subst hp
      simp only [ne_eq, not_true_eq_false, if_false, List.drop_zero, List.nil_append]
      -- the first entry survives
      have : ∀ (k : Nat) (sizes l : List Nat), (relB16 d none k sizes l).take 1 = l.take 1 := by
        intro k sizes
        induction sizes generalizing k with
        | nil => intro l; simp [relB16]
        | cons s ss ih =>
          intro l
          simp only [relB16]
          split
          · exact ih (k + 1) l
          · rename_i h1
            cases l with
            | nil => simp [relB16_nil]
            | cons x xs =>
              cases s with
              | zero => exact absurd rfl h1
              | succ s => simp
      exact this 1 rest l
    · rw [← hpre']
      cases l with
      | nil => simp at hs0; omega
      | cons a as =>
        cases s0 with
        | zero => exact absurd rfl h0
        | succ s => simp

end TlxVerif.C03
