/-
A stable run on a tuple of sequences is also a stable run on the tuple with an empty sequence
inserted anywhere (3-way combined: `merge_advance` on the two other sequences; 4-way combined:
the guarded 3-way merge on `one_missing`).
-/
import TlxVerif.Proofs.C05Basic
namespace TlxVerif.C05

variable {α : Type}

/-- `L` with an empty sequence inserted at position `m` -/
def insEmpty (m : Nat) (L : List (List α)) : List (List α) := L.take m ++ [] :: L.drop m

/-- index after the insertion -/
def shIdx (m i : Nat) : Nat := if i < m then i else i + 1

theorem getElem?_insEmpty {m : Nat} {L : List (List α)} (hm : m ≤ L.length) (k : Nat) :
    (insEmpty m L)[k]? = if k < m then L[k]? else if k = m then some [] else L[k - 1]? := by
  unfold insEmpty
  have hl : (L.take m).length = m := by simp; omega
  by_cases c : k < m
  · rw [List.getElem?_append_left (by omega)]
    simp [c]
  · rw [List.getElem?_append_right (by omega), hl]
    simp only [c, if_false]
    by_cases e : k = m
    · subst e; simp
    · simp only [e, if_false]
      obtain ⟨d, hd⟩ : ∃ d, k - m = d + 1 := ⟨k - m - 1, by omega⟩
      rw [hd, List.getElem?_cons_succ, List.getElem?_drop]
      congr 1; omega

theorem getElem?_insEmpty_sh {m : Nat} {L : List (List α)} (hm : m ≤ L.length) (i : Nat) :
    (insEmpty m L)[shIdx m i]? = L[i]? := by
  rw [getElem?_insEmpty hm]
  unfold shIdx
  by_cases c : i < m
  · simp [c]
  · have h1 : ¬ i + 1 < m := by omega
    have h2 : ¬ i + 1 = m := by omega
    simp [c, h1, h2]

theorem insEmpty_set {m : Nat} {L : List (List α)} (hm : m ≤ L.length) {i : Nat} (hi : i < L.length) (q : List α) :
    (insEmpty m L).set (shIdx m i) q = insEmpty m (L.set i q) := by
  apply List.ext_getElem?
  intro k
  have hm' : m ≤ (L.set i q).length := by rw [List.length_set]; exact hm
  have hlen : (insEmpty m L).length = L.length + 1 := by simp [insEmpty]; omega
  rw [List.getElem?_set, getElem?_insEmpty hm', getElem?_insEmpty hm, hlen]
  unfold shIdx
  by_cases c : i < m
  · simp only [c, if_true]
    by_cases e : i = k
    · subst e
      have : i < L.length + 1 := by omega
      simp [c, this, hi]
    · simp only [e, if_false]
      by_cases ck : k < m
      · simp [ck, List.getElem?_set_ne e]
      · by_cases ek : k = m
        · simp [ek]
        · have : i ≠ k - 1 := by omega
          simp [ck, ek, List.getElem?_set_ne this]
  · simp only [c, if_false]
    by_cases e : i + 1 = k
    · subst e
      have h1 : ¬ i + 1 < m := by omega
      have h2 : ¬ i + 1 = m := by omega
      simp [h1, h2, hi]
    · simp only [e, if_false]
      by_cases ck : k < m
      · have : i ≠ k := by omega
        simp [ck, List.getElem?_set_ne this]
      · by_cases ek : k = m
        · simp [ek]
        · have : i ≠ k - 1 := by omega
          simp [ck, ek, List.getElem?_set_ne this]

theorem isStableMin_insEmpty {lt : α → α → Bool} {m : Nat} {L : List (List α)} (hm : m ≤ L.length)
    {i : Nat} {x : α} {q : List α} (h : IsStableMin lt L i x q) :
    IsStableMin lt (insEmpty m L) (shIdx m i) x q := by
  obtain ⟨⟨hi, hmin⟩, hst⟩ := h
  refine ⟨⟨by rw [getElem?_insEmpty_sh hm]; exact hi, fun k y q' hk => ?_⟩, fun k y q' hki hk => ?_⟩
  · rw [getElem?_insEmpty hm] at hk
    by_cases c : k < m
    · simp only [c, if_true] at hk; exact hmin k y q' hk
    · by_cases e : k = m
      · simp [e] at hk
      · simp only [c, e, if_false] at hk; exact hmin (k - 1) y q' hk
  · rw [getElem?_insEmpty hm] at hk
    unfold shIdx at hki
    by_cases c : k < m
    · simp only [c, if_true] at hk
      refine hst k y q' ?_ hk
      by_cases ci : i < m
      · simpa [ci] using hki
      · omega
    · by_cases e : k = m
      · simp [e] at hk
      · simp only [c, e, if_false] at hk
        refine hst (k - 1) y q' ?_ hk
        by_cases ci : i < m
        · simp only [ci, if_true] at hki; omega
        · simp only [ci, if_false] at hki; omega

theorem stableRun_insEmpty {lt : α → α → Bool} {L F : List (List α)} {n : Nat} {o : List α} (m : Nat)
    (hm : m ≤ L.length) (h : StableRun lt L n o F) : StableRun lt (insEmpty m L) n o (insEmpty m F) := by
  induction h with
  | done s => exact StableRun.done _
  | @emit seqs fin i n x q out hmin _ ih =>
    have hi : i < seqs.length := by
      by_cases c : i < seqs.length
      · exact c
      · have := hmin.1.1; rw [List.getElem?_eq_none (by omega)] at this; cases this
    have := ih (by rw [List.length_set]; exact hm)
    rw [← insEmpty_set hm hi] at this
    exact StableRun.emit (isStableMin_insEmpty hm hmin) this

end TlxVerif.C05
