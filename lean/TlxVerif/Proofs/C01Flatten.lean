/-
C01 — what `insert_descend` does to the sequence of entries: the new entry is placed at the
position reached by the `find_lower` descent and nothing else moves (purely structural, no
ordering hypothesis); the kids of a node and its split sibling are the old kids with the new
child placed behind the split child.
-/
import TlxVerif.Model.C01Tree
import TlxVerif.Proofs.C01Inv
import TlxVerif.Proofs.C01Count
namespace TlxVerif.C01

variable {K V : Type}

/-! ### `insertAt` and append -/

theorem insertAt_append_left {α : Type} (l₁ l₂ : List α) (i : Nat) (x : α) (h : i ≤ l₁.length) :
    insertAt (l₁ ++ l₂) i x = insertAt l₁ i x ++ l₂ := by
  unfold insertAt
  rw [List.take_append_of_le_length h, List.drop_append_of_le_length h]
  simp

theorem insertAt_append_right {α : Type} (l₁ l₂ : List α) (j : Nat) (x : α) :
    insertAt (l₁ ++ l₂) (l₁.length + j) x = l₁ ++ insertAt l₂ j x := by
  unfold insertAt
  rw [List.take_length_add_append, List.drop_length_add_append]
  simp

theorem insertAt_split_left {α : Type} (l : List α) (mid i : Nat) (x : α) (h1 : i ≤ mid) (h2 : mid ≤ l.length) :
    insertAt (l.take mid) i x ++ l.drop mid = insertAt l i x := by
  have := insertAt_append_left (l.take mid) (l.drop mid) i x (by simp; omega)
  rw [List.take_append_drop] at this
  exact this.symm

theorem insertAt_split_right {α : Type} (l : List α) (mid i : Nat) (x : α) (h1 : mid ≤ i) (h2 : mid ≤ l.length) :
    l.take mid ++ insertAt (l.drop mid) (i - mid) x = insertAt l i x := by
  have := insertAt_append_right (l.take mid) (l.drop mid) (i - mid) x
  rw [List.take_append_drop] at this
  have hl : (l.take mid).length + (i - mid) = i := by simp; omega
  rw [hl] at this
  exact this.symm

/-! ### kids of a node and its split sibling -/

def kidsOf : BNode K V → List (BNode K V)
  | .inner _ _ kids => kids
  | .leaf _ => []

def optKids : Option (K × BNode K V) → List (BNode K V)
  | none => []
  | some (_, s) => kidsOf s

theorem innerAbsorb_kids (p : Params K) (l : Nat) (keys : List K) (kids : List (BNode K V)) (slot : Nat) (nk : K)
    (nc : BNode K V) (hk : kids.length = keys.length + 1) (hslot : slot ≤ keys.length)
    (node : BNode K V) (split : Option (K × BNode K V)) (ni : Nat)
    (hr : innerAbsorb p l keys kids slot nk nc = some (node, split, ni)) :
    kidsOf node ++ optKids split = insertAt kids (slot + 1) nc := by
  unfold innerAbsorb at hr
  split at hr
  · unfold splitInnerAbsorb at hr
    generalize splitMid keys.length slot = mid at hr
    split at hr
    · cases hr
    · rename_i upKey hup
      have hmid : mid < keys.length := (List.getElem?_eq_some_iff.mp hup).1
      simp only at hr
      split at hr
      · rename_i hsp
        split at hr
        · cases hr
        · rename_i c0 rest hrk
          cases hr
          simp only [kidsOf, optKids]
          obtain ⟨hs1, _⟩ := hsp
          subst hs1
          have hlt : mid + 1 < kids.length := by omega
          have h1 := List.drop_eq_getElem_cons hlt
          rw [hrk] at h1
          injection h1 with h1a h1b
          have ht : List.take (mid + 1 + 1) kids = List.take (mid + 1) kids ++ [c0] := by
            rw [List.take_add_one, List.getElem?_eq_getElem hlt, ← h1a]; rfl
          unfold insertAt
          rw [ht, ← h1b]
      · split at hr
        · rename_i hge
          cases hr
          simp only [kidsOf, optKids]
          have := insertAt_split_right kids (mid + 1) (slot + 1) nc (by omega) (by omega)
          have he : slot + 1 - (mid + 1) = slot - (mid + 1) + 1 := by omega
          rw [he] at this
          exact this
        · rename_i hlt
          cases hr
          simp only [kidsOf, optKids]
          exact insertAt_split_left kids (mid + 1) (slot + 1) nc (by omega) (by omega)
  · cases hr
    simp [kidsOf, optKids]

/-! ### flatten -/

def optFlat (h : Nat) : Option (K × BNode K V) → List (K × V)
  | none => []
  | some (_, s) => flatten h s

/-- the rank at which `insert_descend` places the entry: entries in the children left of the
chosen slot, plus the rank inside the chosen child; `find_lower` in the leaf -/
def insRank (p : Params K) (k : K) : Nat → BNode K V → Nat
  | _, .leaf es => findLower p (keysOf es) k
  | 0, .inner .. => 0
  | h + 1, .inner _ keys kids =>
    ((kids.take (findLower p keys k)).flatMap (flatten h)).length +
      match kids[findLower p keys k]? with
      | some c => insRank p k h c
      | none => 0

theorem leafInsert_flatten (p : Params K) (pv : p.Valid) (es : List (K × V)) (k : K) (v : V) (h : Nat)
    (_hlen : es.length ≤ p.leafMax) (r : InsOut K V) (hr : leafInsert p es k v = some r) :
    flatten h r.node ++ optFlat h r.split =
      if r.inserted then insertAt es (findLower p (keysOf es) k) (k, v) else es := by
  have hv := pv.leaf4
  have hslot : findLower p (keysOf es) k ≤ es.length := by
    have := findLower_le p (keysOf es) k
    simpa [keysOf] using this
  unfold leafInsert at hr
  simp only at hr
  split at hr
  · cases hr; simp [flatten, optFlat]
  · split at hr
    · unfold splitLeafInsert at hr
      simp only at hr
      split at hr
      · cases hr
      · split at hr
        · rename_i hge
          cases hr
          simp only [flatten, optFlat, if_true]
          exact insertAt_split_right es (es.length / 2) _ (k, v) hge (by omega)
        · rename_i hlt
          cases hr
          simp only [flatten, optFlat, if_true]
          exact insertAt_split_left es (es.length / 2) _ (k, v) (by omega) (by omega)
    · cases hr; simp [flatten, optFlat]

theorem flatten_inner_of (h : Nat) (n : BNode K V) (hn : n.isLeaf = false) :
    flatten (h + 1) n = (kidsOf n).flatMap (flatten h) := by
  cases n with
  | leaf es => simp [BNode.isLeaf] at hn
  | inner l ks kids => simp [flatten, kidsOf]

theorem optFlat_inner_of (h : Nat) (s : Option (K × BNode K V))
    (hs : ∀ sk sn, s = some (sk, sn) → sn.isLeaf = false) :
    optFlat (h + 1) s = (optKids s).flatMap (flatten h) := by
  cases s with
  | none => rfl
  | some kv =>
    obtain ⟨sk, sn⟩ := kv
    simp only [optFlat, optKids]
    exact flatten_inner_of h sn (hs sk sn rfl)

theorem flatMap_split {α β : Type} (f : α → List β) (kids : List α) (slot : Nat) (hlt : slot < kids.length) :
    kids.flatMap f = (kids.take slot).flatMap f ++ (f kids[slot] ++ (kids.drop (slot + 1)).flatMap f) := by
  conv => lhs; rw [← List.take_append_drop slot kids, List.drop_eq_getElem_cons hlt]
  rw [List.flatMap_append, List.flatMap_cons]

theorem flatMap_set {α β : Type} (f : α → List β) (kids : List α) (slot : Nat) (x : α) (hlt : slot < kids.length) :
    (kids.set slot x).flatMap f = (kids.take slot).flatMap f ++ (f x ++ (kids.drop (slot + 1)).flatMap f) := by
  rw [List.set_eq_take_append_cons_drop, if_pos hlt, List.flatMap_append, List.flatMap_cons]

theorem flatMap_insertAt_set {α β : Type} (f : α → List β) (kids : List α) (slot : Nat) (x y : α)
    (hlt : slot < kids.length) :
    (insertAt (kids.set slot x) (slot + 1) y).flatMap f =
      (kids.take slot).flatMap f ++ ((f x ++ f y) ++ (kids.drop (slot + 1)).flatMap f) := by
  unfold insertAt
  rw [List.set_eq_take_append_cons_drop, if_pos hlt]
  have hl : (List.take slot kids).length = slot := by simp; omega
  have h1 : List.take (slot + 1) (List.take slot kids ++ x :: List.drop (slot + 1) kids) = List.take slot kids ++ [x] := by
    have := List.take_length_add_append (l₁ := List.take slot kids) (l₂ := x :: List.drop (slot + 1) kids) 1
    rw [hl] at this
    rw [this]; rfl
  have h2 : List.drop (slot + 1) (List.take slot kids ++ x :: List.drop (slot + 1) kids) = List.drop (slot + 1) kids := by
    have := List.drop_length_add_append (l₁ := List.take slot kids) (l₂ := x :: List.drop (slot + 1) kids) 1
    rw [hl] at this
    rw [this]; rfl
  rw [h1, h2]
  simp [List.flatMap_append, List.flatMap_cons]

theorem insRank_le (p : Params K) (k : K) : ∀ (h : Nat) (n : BNode K V), insRank p k h n ≤ (flatten h n).length := by
  intro h
  induction h with
  | zero =>
    intro n
    cases n with
    | leaf es => simpa [insRank, flatten, keysOf] using findLower_le p (keysOf es) k
    | inner l ks kids => simp [insRank]
  | succ h ih =>
    intro n
    cases n with
    | leaf es => simpa [insRank, flatten, keysOf] using findLower_le p (keysOf es) k
    | inner l ks kids =>
      simp only [insRank, flatten]
      generalize findLower p ks k = slot
      cases hc : kids[slot]? with
      | none =>
        have : kids.length ≤ slot := by
          rcases Nat.lt_or_ge slot kids.length with h1 | h1
          · rw [List.getElem?_eq_getElem h1] at hc; cases hc
          · exact h1
        rw [List.take_of_length_le this]
        simp
      | some c =>
        obtain ⟨hlt, hget⟩ := List.getElem?_eq_some_iff.mp hc
        rw [flatMap_split (flatten h) kids slot hlt, hget]
        simp only [List.length_append]
        have := ih c
        omega

/-- `insert_descend` puts `(k, v)` at rank `insRank` of the entry sequence and moves nothing else -/
theorem insertDescend_flatten (p : Params K) (pv : p.Valid) (k : K) (v : V) :
    ∀ (h : Nat) (n : BNode K V) (ml mi : Nat), ShapeTop p ml mi h n →
      ∀ r, insertDescend p k v h n = some r →
        flatten h r.node ++ optFlat h r.split =
          if r.inserted then insertAt (flatten h n) (insRank p k h n) (k, v) else flatten h n := by
  intro h
  induction h with
  | zero =>
    intro n ml mi hs r hr
    cases n with
    | inner l keys kids => simp [ShapeTop] at hs
    | leaf es =>
      unfold insertDescend at hr
      simp only [ShapeTop] at hs
      simpa [flatten, insRank] using leafInsert_flatten p pv es k v 0 hs.2 r hr
  | succ h ih =>
    intro n ml mi hs r hr
    cases n with
    | leaf es => simp [ShapeTop] at hs
    | inner l keys kids =>
      simp only [ShapeTop] at hs
      obtain ⟨hl, hk, hmin, hmax, hkids⟩ := hs
      unfold insertDescend at hr
      simp only at hr
      simp only [insRank, flatten]
      have hslot := findLower_le p keys k
      generalize findLower p keys k = slot at hr hslot
      have hlt : slot < kids.length := by omega
      rw [List.getElem?_eq_getElem hlt] at hr ⊢
      simp only at hr ⊢
      cases hrec : insertDescend p k v h kids[slot] with
      | none => rw [hrec] at hr; cases hr
      | some r' =>
        rw [hrec] at hr
        simp only at hr
        have ihr := ih kids[slot] _ _ (hkids _ (List.getElem_mem hlt)).top r' hrec
        have hrank := insRank_le p k h kids[slot]
        -- in both cases the new entry sequence is FA ++ (child's new sequence) ++ FB
        have key : flatten (h + 1) r.node ++ optFlat (h + 1) r.split =
            (kids.take slot).flatMap (flatten h) ++
              ((flatten h r'.node ++ optFlat h r'.split) ++ (kids.drop (slot + 1)).flatMap (flatten h)) ∧
            r.inserted = r'.inserted := by
          cases hsp : r'.split with
          | none =>
            rw [hsp] at hr
            cases hr
            simp only [optFlat, List.append_nil, flatten]
            exact ⟨flatMap_set (flatten h) kids slot r'.node hlt, trivial⟩
          | some kv =>
            obtain ⟨nk, nc⟩ := kv
            rw [hsp] at hr
            simp only at hr
            cases hab : innerAbsorb p l keys (kids.set slot r'.node) slot nk nc with
            | none => rw [hab] at hr; cases hr
            | some res =>
              obtain ⟨node, split, ni⟩ := res
              rw [hab] at hr
              cases hr
              simp only
              obtain ⟨hin, hsn⟩ := innerAbsorb_isInner p l keys _ slot nk nc node split ni hab
              have hkk := innerAbsorb_kids p l keys (kids.set slot r'.node) slot nk nc
                (by rw [List.length_set]; exact hk) hslot node split ni hab
              rw [flatten_inner_of h node hin, optFlat_inner_of h split hsn, ← List.flatMap_append, hkk,
                flatMap_insertAt_set (flatten h) kids slot r'.node nc hlt]
              simp only [optFlat]
              constructor <;> first | rfl | trivial
        rw [key.1, key.2, ihr, flatMap_split (flatten h) kids slot hlt]
        split
        · have h1 := insertAt_append_left (flatten h kids[slot]) ((kids.drop (slot + 1)).flatMap (flatten h))
            (insRank p k h kids[slot]) (k, v) hrank
          rw [insertAt_append_right, h1]
        · rfl

end TlxVerif.C01
