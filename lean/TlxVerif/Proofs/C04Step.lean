/-
C04 — correct answers (`SortedLcp`), the base sorter, and the step lemma: if every bucket of
a sample sort step is sorted with exact inner LCPs, the LCP pass over the bucket borders
(`ps5_sample_sort_lcp`) makes the whole range sorted with exact LCPs.
-/
import TlxVerif.Proofs.C04Str
import TlxVerif.Model.C04Sort
namespace TlxVerif.C04

/-- what a correct answer for `input` is: permutation, sorted, LCP array of the same length whose
entries 1.. are the LCPs of neighbours -/
def SortedLcp (input : List Str) (r : Res) : Prop :=
  r.out.Perm input ∧ r.out.Pairwise (fun a b => strLe a b = true) ∧ r.lcp.length = r.out.length ∧
  ∀ i, 0 < i → i < r.out.length → r.lcp[i]? = some (lcpT (lcp ((r.out[i - 1]?).getD []) ((r.out[i]?).getD [])))

/-! ### the order -/

theorem strLe_refl : ∀ a : Str, strLe a a = true
  | [] => rfl
  | c :: cs => by simp [strLe, UInt8.lt_irrefl, strLe_refl cs]

theorem u8_lt_asymm {a b : UInt8} (h : a < b) : ¬ b < a := by
  rw [UInt8.lt_iff_toNat_lt] at *; omega

theorem u8_eq_of_not_lt {a b : UInt8} (h1 : ¬ a < b) (h2 : ¬ b < a) : a = b := by
  rw [UInt8.lt_iff_toNat_lt] at *
  exact UInt8.toNat_inj.1 (by omega)

theorem u8_lt_trans {a b c : UInt8} (h1 : a < b) (h2 : b < c) : a < c := by
  rw [UInt8.lt_iff_toNat_lt] at *; omega

theorem strLe_total : ∀ a b : Str, strLe a b = true ∨ strLe b a = true
  | [], _ => Or.inl rfl
  | _ :: _, [] => Or.inr rfl
  | a :: as, b :: bs => by
    simp only [strLe]
    by_cases h1 : a < b
    · simp [h1]
    · by_cases h2 : b < a
      · simp [h1, h2]
      · simp only [h1, h2, if_false]
        exact strLe_total as bs

theorem strLe_trans : ∀ a b c : Str, strLe a b = true → strLe b c = true → strLe a c = true
  | [], _, _, _, _ => rfl
  | _ :: _, [], _, h, _ => by simp [strLe] at h
  | _ :: _, _ :: _, [], _, h => by simp [strLe] at h
  | a :: as, b :: bs, c :: cs, h1, h2 => by
    simp only [strLe] at h1 h2 ⊢
    by_cases hab : a < b
    · by_cases hbc : b < c
      · simp [u8_lt_trans hab hbc]
      · by_cases hcb : c < b
        · simp [hbc, hcb] at h2
        · have := u8_eq_of_not_lt hbc hcb; subst this; simp [hab]
    · by_cases hba : b < a
      · simp [hab, hba] at h1
      · have := u8_eq_of_not_lt hab hba; subst this
        simp only [hab, if_false] at h1
        by_cases hac : a < c
        · simp [hac]
        · by_cases hca : c < a
          · simp [hac, hca] at h2
          · simp only [hac, hca, if_false] at h2 ⊢
            exact strLe_trans as bs cs h1 h2

/-! ### the base sorter (specification of `insertion_sort`) -/

theorem insertStr_perm (s : Str) : ∀ l : List Str, (insertStr s l).Perm (s :: l)
  | [] => List.Perm.refl _
  | t :: ts => by
    simp only [insertStr]
    split
    · exact (List.Perm.cons t (insertStr_perm s ts)).trans (List.Perm.swap s t ts)
    · exact List.Perm.refl _

theorem insertStr_sorted (s : Str) : ∀ l : List Str, l.Pairwise (fun a b => strLe a b = true) →
    (insertStr s l).Pairwise (fun a b => strLe a b = true)
  | [], _ => by simp [insertStr]
  | t :: ts, h => by
    simp only [insertStr]
    rw [List.pairwise_cons] at h
    split
    · rename_i hts
      rw [List.pairwise_cons]
      refine ⟨?_, insertStr_sorted s ts h.2⟩
      intro x hx
      rcases List.mem_cons.1 ((insertStr_perm s ts).mem_iff.1 hx) with rfl | hx
      · exact hts
      · exact h.1 x hx
    · rename_i hts
      have hst : strLe s t = true := by
        rcases strLe_total s t with h' | h'
        · exact h'
        · exact absurd h' hts
      rw [List.pairwise_cons]
      refine ⟨?_, List.pairwise_cons.2 h⟩
      intro x hx
      rcases List.mem_cons.1 hx with rfl | hx
      · exact hst
      · exact strLe_trans _ _ _ hst (h.1 x hx)

theorem lcpsOf_length : ∀ l : List Str, (lcpsOf l).length = l.length
  | [] => rfl
  | s :: rest => by simp [lcpsOf, List.length_zipWith]

theorem lcpsOf_get : ∀ (l : List Str) (i : Nat), 0 < i → i < l.length →
    (lcpsOf l)[i]? = some (lcpT (lcp ((l[i - 1]?).getD []) ((l[i]?).getD [])))
  | [], i, _, h => by simp at h
  | s :: rest, i + 1, _, h => by
    simp only [List.length_cons, Nat.add_lt_add_iff_right] at h
    simp only [lcpsOf, List.getElem?_cons_succ, Nat.add_sub_cancel, List.getElem?_zipWith]
    have h1 : (s :: rest)[i]? = some ((s :: rest)[i]'(by simp; omega)) := List.getElem?_eq_getElem _
    have h2 : rest[i]? = some (rest[i]'h) := List.getElem?_eq_getElem _
    simp [h1, h2]

theorem baseSort_good (strs : List Str) : SortedLcp strs (baseSort strs) := by
  have hperm : ∀ (l acc : List Str), (l.foldl (fun acc s => insertStr s acc) acc).Perm (l ++ acc) := by
    intro l
    induction l with
    | nil => intro acc; exact List.Perm.refl _
    | cons s l ih =>
      intro acc
      simp only [List.foldl_cons]
      refine (ih _).trans ?_
      refine (List.Perm.append_left l (insertStr_perm s acc)).trans ?_
      simp only [List.cons_append]
      exact List.perm_middle
  have hsorted : ∀ (l acc : List Str), acc.Pairwise (fun a b => strLe a b = true) →
      (l.foldl (fun acc s => insertStr s acc) acc).Pairwise (fun a b => strLe a b = true) := by
    intro l
    induction l with
    | nil => intro acc h; exact h
    | cons s l ih => intro acc h; exact ih _ (insertStr_sorted s acc h)
  refine ⟨by simpa [baseSort] using hperm strs [], by simpa [baseSort] using hsorted strs [] (by simp), ?_, ?_⟩
  · simp [baseSort, lcpsOf_length]
  · intro i h0 hi
    exact lcpsOf_get _ i h0 hi

/-! ### the LCP pass over the bucket borders -/

def lcpOk (out : List Str) (lcps : List Nat) : Prop :=
  lcps.length = out.length ∧
  ∀ i, 0 < i → i < out.length → lcps[i]? = some (lcpT (lcp ((out[i - 1]?).getD []) ((out[i]?).getD [])))

/-- `bkt[b..]` as the walk sees it: the offset of the next bucket, then the following borders -/
def boundsFrom (lo : Nat) : List Nat → List Nat
  | [] => [lo]
  | s :: ss => lo :: boundsFrom (lo + s) ss

theorem boundsOf_fold (sizes : List Nat) (acc : List Nat) (lo : Nat) :
    (sizes.foldl (fun (a : List Nat × Nat) s => (a.1 ++ [a.2 + s], a.2 + s)) (acc, lo)).1 =
      acc ++ (boundsFrom lo sizes).tail := by
  induction sizes generalizing acc lo with
  | nil => simp [boundsFrom]
  | cons s ss ih =>
    simp only [List.foldl_cons, boundsFrom, List.tail_cons]
    rw [ih]
    cases ss <;> simp [boundsFrom]

theorem boundsOf_eq (sizes : List Nat) : boundsOf sizes = boundsFrom 0 sizes := by
  unfold boundsOf
  rw [boundsOf_fold]
  cases sizes <;> simp [boundsFrom]

/-- two strings of the range whose keys at `depth` are strictly ordered -/
def KeyLt (depth : Nat) (s t : Str) : Prop :=
  ∃ ks kt, getKey? s depth = some ks ∧ getKey? t depth = some kt ∧ ks < kt

/-- a string of the sort range: NUL-free, starts with the common prefix -/
def InRange (p : Str) (s : Str) : Prop := nulFree s ∧ ∃ a, s = p ++ a

theorem keyLt_strLe {p : Str} {s t : Str} (hs : InRange p s) (ht : InRange p t) (h : KeyLt p.length s t) :
    strLe s t = true := by
  obtain ⟨ns, a, rfl⟩ := hs
  obtain ⟨nt, b, rfl⟩ := ht
  obtain ⟨ks, kt, h1, h2, hlt⟩ := h
  exact (key_lt_imp ns nt h1 h2 hlt).1

theorem keyLt_lcp {p : Str} {s t : Str} (hs : InRange p s) (ht : InRange p t) {ks kt : Key}
    (h1 : getKey? s p.length = some ks) (h2 : getKey? t p.length = some kt) (hlt : ks < kt) :
    lcp s t = p.length + lcpKeyType ks kt := by
  obtain ⟨ns, a, rfl⟩ := hs
  obtain ⟨nt, b, rfl⟩ := ht
  exact key_ne_lcp ns nt h1 h2 (by intro e; subst e; exact absurd hlt (by simp [BitVec.lt_def]))

/-- the buckets `b, b+1, …` that the walk still has to visit, each sorted with exact inner
LCPs, keys of different buckets strictly ordered, odd buckets holding exactly the strings
whose key is the splitter -/
def BucketsOk (spl : Nat → Option Key) (p : Str) : Nat → List Res → Prop
  | _, [] => True
  | b, r :: rs =>
    (∀ s ∈ r.out, InRange p s) ∧
    (b % 2 = 1 → ∃ k, spl (b / 2) = some k ∧ ∀ s ∈ r.out, getKey? s p.length = some k) ∧
    lcpOk r.out r.lcp ∧ r.out.Pairwise (fun a b => strLe a b = true) ∧
    (∀ s ∈ r.out, ∀ r' ∈ rs, ∀ t ∈ r'.out, KeyLt p.length s t) ∧
    BucketsOk spl p (b + 1) rs

theorem lcpOk_nil : lcpOk [] [] := ⟨rfl, fun i _ h => by simp at h⟩

/-- gluing a sorted block behind a sorted prefix; the LCP slot at the seam gets the value `v` -/
theorem lcpOk_append {A B : List Str} {LA LB : List Nat} (hA : lcpOk A LA) (hB : lcpOk B LB) (hne : B ≠ [])
    (v : Nat) (hv : A ≠ [] → v = lcpT (lcp ((A.getLast?).getD []) ((B.head?).getD []))) :
    lcpOk (A ++ B) (LA ++ LB.set 0 (if A = [] then (LB.head?).getD 0 else v)) := by
  obtain ⟨hlA, hA⟩ := hA
  obtain ⟨hlB, hB⟩ := hB
  refine ⟨by simp [hlA, hlB], ?_⟩
  intro i h0 hi
  simp only [List.length_append] at hi
  rcases Nat.lt_trichotomy i A.length with hlt | heq | hgt
  · -- inside the prefix
    rw [List.getElem?_append_left (by omega), hA i h0 hlt]
    rw [List.getElem?_append_left (by omega), List.getElem?_append_left hlt]
  · -- the seam
    subst heq
    have hAne : A ≠ [] := by intro e; subst e; simp at h0
    have hBpos : 0 < B.length := List.length_pos_iff.2 hne
    rw [List.getElem?_append_right (by omega)]
    simp only [hlA, Nat.sub_self]
    rw [List.getElem?_set]
    simp only [hAne, if_false, hlB, hBpos, if_true]
    rw [hv hAne]
    rw [List.getElem?_append_left (by omega), List.getElem?_append_right (by omega)]
    simp only [Nat.sub_self]
    rw [List.getLast?_eq_getElem?, List.head?_eq_getElem?]
  · -- inside the block
    rw [List.getElem?_append_right (by omega)]
    rw [List.getElem?_set]
    have : ¬ 0 = i - LA.length := by omega
    simp only [this, if_false]
    rw [hlA, hB (i - A.length) (by omega) (by omega)]
    rw [List.getElem?_append_right (by omega), List.getElem?_append_right (by omega)]
    have e : i - 1 - A.length = i - A.length - 1 := by omega
    rw [e]

def splOf (c : Classifier) (useCalc : Bool) (i : Nat) : Option Key :=
  if useCalc then c.getSplitterCalc i else c.getSplitterArr i

/-- the LCP array after the walk passed the start `lo` of a non-empty bucket whose first key is `k1` -/
def walkLcp (prev : Option Key) (lcps : List Nat) (lo depth : Nat) (k1 : Key) : List Nat :=
  match prev with
  | none => lcps
  | some pk => setLcp lcps lo (depth + lcpKeyType pk k1)

/-- what `ps5_sample_sort_lcp` does at a non-empty bucket -/
theorem lcpPassBucket_nonempty (c : Classifier) (useCalc : Bool) (out : List Str) (depth : Nat) (w : LcpWalk)
    (b lo hi : Nat) (hlo : lo < hi) {x y : Str} {k1 k2 ksp : Key}
    (h1 : out[lo]? = some x) (hk1 : getKey? x depth = some k1)
    (h2 : out[hi - 1]? = some y) (hk2 : getKey? y depth = some k2)
    (hs : b % 2 = 1 → splOf c useCalc (b / 2) = some ksp) :
    lcpPassBucket c useCalc out depth w b lo hi =
      .ok { prev := some (if b % 2 = 1 then ksp else k2),
            lcp := walkLcp w.prev w.lcp lo depth (if b % 2 = 1 then ksp else k1) } := by
  unfold lcpPassBucket
  have hne : ¬ lo = hi := by omega
  simp only [hne, if_false]
  by_cases hb : b % 2 = 1
  · have hsp := hs hb
    unfold splOf at hsp
    simp only [hb, if_true, hsp, liftO, bind, Except.bind, pure, Except.pure, walkLcp]
    cases w.prev <;> rfl
  · simp only [hb, if_false, h1, h2, hk1, hk2, liftO, bind, Except.bind, pure, Except.pure, walkLcp]
    cases w.prev <;> rfl

theorem boundsFrom_cons (lo : Nat) (ss : List Nat) : boundsFrom lo ss = lo :: (boundsFrom lo ss).tail := by
  cases ss <;> simp [boundsFrom]

theorem getKey_of_inRange {p s : Str} (h : InRange p s) : ∃ k, getKey? s p.length = some k := by
  obtain ⟨_, a, rfl⟩ := h
  have := getKey_isSome (s := p ++ a) (depth := p.length) (by simp)
  cases hk : getKey? (p ++ a) p.length with
  | none => simp [hk] at this
  | some k => exact ⟨k, rfl⟩

/-- the state of the walk after the prefix `P`: `prev` is the key of the last string so far -/
def PrevOk (depth : Nat) (P : List Str) (prev : Option Key) : Prop :=
  match P.getLast? with
  | none => prev = none
  | some x => ∃ k, getKey? x depth = some k ∧ prev = some k

theorem lcpPassGo_good (c : Classifier) (useCalc : Bool) (p : Str) :
    ∀ (rs : List Res) (b : Nat) (P : List Str) (LP : List Nat) (prev : Option Key) (w' : LcpWalk),
      BucketsOk (splOf c useCalc) p b rs →
      (∀ s ∈ P, InRange p s) → lcpOk P LP → P.Pairwise (fun a b => strLe a b = true) →
      (∀ s ∈ P, ∀ r' ∈ rs, ∀ t ∈ r'.out, KeyLt p.length s t) →
      PrevOk p.length P prev →
      lcpPassGo c useCalc (P ++ (rs.map (·.out)).flatten) p.length
          { prev := prev, lcp := LP ++ (rs.map (·.lcp)).flatten } b
          (boundsFrom P.length (rs.map (·.out.length))) = .ok w' →
      lcpOk (P ++ (rs.map (·.out)).flatten) w'.lcp ∧
        (P ++ (rs.map (·.out)).flatten).Pairwise (fun a b => strLe a b = true) := by
  intro rs
  induction rs with
  | nil =>
    intro b P LP prev w' _ _ hok hsorted _ _ hrun
    simp only [List.map_nil, List.flatten_nil, List.append_nil, boundsFrom, lcpPassGo, pure, Except.pure,
      Except.ok.injEq] at hrun
    subst hrun
    simpa using ⟨hok, hsorted⟩
  | cons r rs ih =>
    intro b P LP prev w' hb hP hok hsorted hcross hprev hrun
    obtain ⟨hrange, hodd, hrok, hrsorted, hrcross, hrest⟩ := hb
    simp only [List.map_cons, List.flatten_cons] at hrun ⊢
    rw [boundsFrom, boundsFrom_cons] at hrun
    simp only [lcpPassGo, bind, Except.bind] at hrun
    by_cases hempty : r.out = []
    · -- empty bucket: nothing happens
      have hl : r.lcp = [] := by
        have := hrok.1; rw [hempty] at this; simpa using this
      simp only [hempty, hl, List.length_nil, Nat.add_zero, List.nil_append] at hrun ⊢
      have hb0 : lcpPassBucket c useCalc (P ++ (rs.map (·.out)).flatten) p.length
          { prev := prev, lcp := LP ++ (rs.map (·.lcp)).flatten } b P.length P.length =
          .ok { prev := prev, lcp := LP ++ (rs.map (·.lcp)).flatten } := by
        simp [lcpPassBucket, pure, Except.pure]
      rw [hb0] at hrun
      rw [← boundsFrom_cons] at hrun
      exact ih (b + 1) P LP prev w' hrest hP hok hsorted
        (fun s hs r' hr' t ht => hcross s hs r' (List.mem_cons_of_mem _ hr') t ht) hprev hrun
    · -- non-empty bucket
      have hpos : 0 < r.out.length := List.length_pos_iff.2 hempty
      obtain ⟨x, hx⟩ : ∃ x, r.out[0]? = some x := ⟨r.out[0], List.getElem?_eq_getElem hpos⟩
      obtain ⟨y, hy⟩ : ∃ y, r.out[r.out.length - 1]? = some y :=
        ⟨r.out[r.out.length - 1], List.getElem?_eq_getElem (by omega)⟩
      have hxm : x ∈ r.out := List.mem_of_getElem? hx
      have hym : y ∈ r.out := List.mem_of_getElem? hy
      obtain ⟨k1, hk1⟩ := getKey_of_inRange (hrange x hxm)
      obtain ⟨k2, hk2⟩ := getKey_of_inRange (hrange y hym)
      -- the splitter of an odd bucket is the key of all its strings
      obtain ⟨ksp, hsp⟩ : ∃ ksp, (b % 2 = 1 → splOf c useCalc (b / 2) = some ksp ∧ k1 = ksp ∧ k2 = ksp) := by
        by_cases hbo : b % 2 = 1
        · obtain ⟨k, hk, hall⟩ := hodd hbo
          refine ⟨k, fun _ => ⟨hk, ?_, ?_⟩⟩
          · have := hall x hxm; rw [hk1] at this; exact Option.some.inj this
          · have := hall y hym; rw [hk2] at this; exact Option.some.inj this
        · exact ⟨0, fun h => absurd h hbo⟩
      have hout1 : (P ++ (r.out ++ (rs.map (·.out)).flatten))[P.length]? = some x := by
        rw [List.getElem?_append_right (Nat.le_refl _), Nat.sub_self, List.getElem?_append_left hpos]; exact hx
      have hout2 : (P ++ (r.out ++ (rs.map (·.out)).flatten))[P.length + r.out.length - 1]? = some y := by
        rw [List.getElem?_append_right (by omega), List.getElem?_append_left (by omega)]
        have : P.length + r.out.length - 1 - P.length = r.out.length - 1 := by omega
        rw [this]; exact hy
      have hbk := lcpPassBucket_nonempty c useCalc (P ++ (r.out ++ (rs.map (·.out)).flatten)) p.length
        { prev := prev, lcp := LP ++ (r.lcp ++ (rs.map (·.lcp)).flatten) } b P.length (P.length + r.out.length)
        (by omega) hout1 hk1 hout2 hk2 (fun h => (hsp h).1)
      rw [hbk] at hrun
      simp only at hrun
      -- keys of the bucket as the walk uses them
      have hthis : (if b % 2 = 1 then ksp else k1) = k1 := by
        by_cases hbo : b % 2 = 1
        · simp [hbo, (hsp hbo).2.1]
        · simp [hbo]
      have hlast : (if b % 2 = 1 then ksp else k2) = k2 := by
        by_cases hbo : b % 2 = 1
        · simp [hbo, (hsp hbo).2.2]
        · simp [hbo]
      rw [hthis, hlast] at hrun
      -- the value written at the seam
      have hlenLP : LP.length = P.length := hok.1
      have hlenr : r.lcp.length = r.out.length := hrok.1
      obtain ⟨v, hv, hlcp⟩ : ∃ v, (P ≠ [] → v = lcpT (lcp ((P.getLast?).getD []) ((r.out.head?).getD []))) ∧
          walkLcp prev (LP ++ (r.lcp ++ (rs.map (·.lcp)).flatten)) P.length p.length k1 =
          (LP ++ r.lcp.set 0 (if P = [] then (r.lcp.head?).getD 0 else v)) ++ (rs.map (·.lcp)).flatten := by
        unfold PrevOk at hprev
        cases hPl : P.getLast? with
        | none =>
          have hPe : P = [] := by simpa using hPl
          rw [hPl] at hprev; simp only at hprev
          subst hprev
          refine ⟨0, fun h => absurd hPe h, ?_⟩
          simp only [hPe, if_true, walkLcp]
          have : r.lcp.set 0 ((r.lcp.head?).getD 0) = r.lcp := by
            cases r.lcp <;> simp
          rw [this]; simp
        | some z =>
          have hPne : P ≠ [] := by intro e; subst e; simp at hPl
          rw [hPl] at hprev; simp only at hprev
          obtain ⟨kz, hkz, rfl⟩ := hprev
          have hzm : z ∈ P := List.mem_of_getLast? hPl
          obtain ⟨ks, kt, e1, e2, hlt⟩ := hcross z hzm r (by simp) x hxm
          rw [hkz] at e1; rw [hk1] at e2; cases e1; cases e2
          refine ⟨lcpT (p.length + lcpKeyType kz k1), fun _ => ?_, ?_⟩
          · rw [List.head?_eq_getElem?, hx]
            exact congrArg lcpT (keyLt_lcp (hP z hzm) (hrange x hxm) hkz hk1 hlt).symm
          · simp only [hPne, if_false, setLcp, walkLcp]
            rw [List.set_append_right _ _ (by omega), hlenLP, Nat.sub_self,
              List.set_append_left _ _ (by omega), List.append_assoc]
      rw [hlcp] at hrun
      rw [← boundsFrom_cons] at hrun
      have hassoc : P ++ (r.out ++ (rs.map (·.out)).flatten) = (P ++ r.out) ++ (rs.map (·.out)).flatten := by simp
      rw [hassoc] at hrun ⊢
      have hlen' : P.length + r.out.length = (P ++ r.out).length := by simp
      rw [hlen'] at hrun
      refine ih (b + 1) (P ++ r.out) _ (some k2) w' hrest ?_ ?_ ?_ ?_ ?_ hrun
      · intro s hs
        rcases List.mem_append.1 hs with h | h
        · exact hP s h
        · exact hrange s h
      · exact lcpOk_append hok hrok hempty v hv
      · rw [List.pairwise_append]
        refine ⟨hsorted, hrsorted, ?_⟩
        intro s hs t ht
        exact keyLt_strLe (hP s hs) (hrange t ht) (hcross s hs r (by simp) t ht)
      · intro s hs r' hr' t ht
        rcases List.mem_append.1 hs with h | h
        · exact hcross s h r' (List.mem_cons_of_mem _ hr') t ht
        · exact hrcross s h r' hr' t ht
      · unfold PrevOk
        have : (P ++ r.out).getLast? = some y := by
          rw [List.getLast?_append, List.getLast?_eq_getElem?, hy]; rfl
        rw [this]
        exact ⟨k2, hk2, rfl⟩

/-- **Step lemma.**  All buckets of a sample sort step sorted with exact inner LCPs, strings of
different buckets ordered by their keys, odd buckets = strings whose key is the splitter:
then `ps5_sample_sort_lcp` succeeds in making the concatenation sorted with exact LCPs. -/
theorem lcpPass_good (c : Classifier) (useCalc : Bool) (p : Str) (rs : List Res)
    (hb : BucketsOk (splOf c useCalc) p 0 rs) {l : List Nat}
    (h : lcpPass c useCalc (rs.map (·.out)).flatten (rs.map (·.lcp)).flatten p.length
          (boundsOf (rs.map (·.out.length))) = .ok l) :
    lcpOk (rs.map (·.out)).flatten l ∧ (rs.map (·.out)).flatten.Pairwise (fun a b => strLe a b = true) := by
  unfold lcpPass at h
  rw [boundsOf_eq] at h
  simp only [bind, Except.bind, pure, Except.pure] at h
  cases hgo : lcpPassGo c useCalc (rs.map (·.out)).flatten p.length
      { prev := none, lcp := (rs.map (·.lcp)).flatten } 0 (boundsFrom 0 (rs.map (·.out.length))) with
  | error e => rw [hgo] at h; cases h
  | ok w =>
    rw [hgo] at h
    simp only [Except.ok.injEq] at h
    subst h
    have := lcpPassGo_good c useCalc p rs 0 [] [] none w hb (by simp) lcpOk_nil (by simp) (by simp)
      (by simp [PrevOk]) (by simpa using hgo)
    simpa using this

end TlxVerif.C04
