/-
C04 — the sub-jobs of a sort step write disjoint index ranges.

`writeAt arr lo vals` is what a sub-job does to the shared string (or LCP) array: it
replaces the entries `[lo, lo + vals.length)`.  `boundsOf sizes` are the bucket borders
`bkt[0..bktnum]` (exclusive prefix sums).  The ranges `[bkt[i], bkt[i+1])` are pairwise
disjoint, so writes of different sub-jobs commute and the array after *any* order of the
sub-jobs is the concatenation of the per-bucket results.
-/
import TlxVerif.Model.C04Sort
namespace TlxVerif.C04

def writeAt {α} [Inhabited α] (arr : List α) (lo : Nat) (vals : List α) : List α :=
  arr.zipIdx.map fun p => if lo ≤ p.2 ∧ p.2 < lo + vals.length then vals[p.2 - lo]! else p.1

theorem writeAt_length {α} [Inhabited α] (arr : List α) (lo : Nat) (vals : List α) :
    (writeAt arr lo vals).length = arr.length := by simp [writeAt]

theorem writeAt_get {α} [Inhabited α] (arr : List α) (lo : Nat) (vals : List α) (k : Nat) :
    (writeAt arr lo vals)[k]? =
      if lo ≤ k ∧ k < lo + vals.length then arr[k]?.map (fun _ => vals[k - lo]!) else arr[k]? := by
  simp only [writeAt, List.getElem?_map, List.getElem?_zipIdx, Nat.zero_add]
  cases arr[k]? <;> simp
  split <;> simp_all

/-- two pieces do not overlap -/
def disjointPieces {α} (p q : Nat × List α) : Prop := p.1 + p.2.length ≤ q.1 ∨ q.1 + q.2.length ≤ p.1

theorem writeAt_comm {α} [Inhabited α] (arr : List α) (p q : Nat × List α) (h : p = q ∨ disjointPieces p q) :
    writeAt (writeAt arr p.1 p.2) q.1 q.2 = writeAt (writeAt arr q.1 q.2) p.1 p.2 := by
  rcases h with rfl | h
  · rfl
  · apply List.ext_getElem?
    intro k
    simp only [writeAt_get]
    unfold disjointPieces at h
    cases hk : arr[k]? with
    | none => simp
    | some x =>
      by_cases h1 : p.1 ≤ k ∧ k < p.1 + p.2.length <;> by_cases h2 : q.1 ≤ k ∧ k < q.1 + q.2.length <;>
        simp [h1, h2]
      omega

def applyWrites {α} [Inhabited α] (pieces : List (Nat × List α)) (arr : List α) : List α :=
  pieces.foldl (fun a p => writeAt a p.1 p.2) arr

/-- **Order independence.**  Sub-jobs whose ranges are pairwise disjoint leave the same array
in whatever order they run. -/
theorem applyWrites_perm {α} [Inhabited α] {l1 l2 : List (Nat × List α)} (hp : l1.Perm l2)
    (hd : l1.Pairwise disjointPieces) (arr : List α) : applyWrites l1 arr = applyWrites l2 arr := by
  unfold applyWrites
  apply List.Perm.foldl_eq' hp
  intro x hx y hy z
  apply writeAt_comm
  have h1 : l1.Pairwise (fun a b => a = b ∨ disjointPieces a b) := hd.imp (fun h => Or.inr h)
  have h2 : l1.Pairwise (flip fun a b => a = b ∨ disjointPieces a b) :=
    hd.imp (fun h => Or.inr (Or.symm h))
  exact List.Pairwise.forall_of_forall_of_flip (R := fun a b => a = b ∨ disjointPieces a b)
    (fun a _ => Or.inl rfl) h1 h2 hx hy

/-! ### bucket borders -/

/-- pieces laid out one after the other from offset `lo` -/
def layout {α} (lo : Nat) : List (List α) → List (Nat × List α)
  | [] => []
  | v :: vs => (lo, v) :: layout (lo + v.length) vs

theorem layout_lo_ge {α} (lo : Nat) (vs : List (List α)) : ∀ p ∈ layout lo vs, lo ≤ p.1 := by
  induction vs generalizing lo with
  | nil => simp [layout]
  | cons v vs ih =>
    intro p hp
    simp only [layout, List.mem_cons] at hp
    rcases hp with rfl | hp
    · exact Nat.le_refl _
    · have := ih _ p hp; omega

/-- consecutive bucket ranges are pairwise disjoint -/
theorem layout_disjoint {α} (lo : Nat) (vs : List (List α)) : (layout lo vs).Pairwise disjointPieces := by
  induction vs generalizing lo with
  | nil => simp [layout]
  | cons v vs ih =>
    simp only [layout, List.pairwise_cons]
    refine ⟨?_, ih _⟩
    intro p hp
    left
    exact layout_lo_ge _ vs p hp

/-- writing consecutive pieces in layout order produces their concatenation -/
theorem applyWrites_layout {α} [Inhabited α] (pre : List α) (vs : List (List α)) (rest : List α)
    (old : List α) (hold : old.length = vs.flatten.length) :
    applyWrites (layout pre.length vs) (pre ++ old ++ rest) = pre ++ vs.flatten ++ rest := by
  induction vs generalizing pre old with
  | nil =>
    simp at hold; subst hold
    simp [layout, applyWrites]
  | cons v vs ih =>
    simp only [layout, applyWrites, List.foldl_cons, List.flatten_cons]
    have hold' : old.length = v.length + vs.flatten.length := by simpa using hold
    -- first piece
    have hw : writeAt (pre ++ old ++ rest) pre.length v = (pre ++ v) ++ old.drop v.length ++ rest := by
      apply List.ext_getElem?
      intro k
      rw [writeAt_get]
      by_cases h1 : k < pre.length
      · have : ¬ (pre.length ≤ k ∧ k < pre.length + v.length) := by omega
        simp only [this, if_false]
        simp [List.getElem?_append_left, h1]
      · by_cases h2 : k < pre.length + v.length
        · have hc : pre.length ≤ k ∧ k < pre.length + v.length := by omega
          simp only [hc, and_self, if_true]
          have e1 : (pre ++ old ++ rest)[k]? = some ((pre ++ old ++ rest)[k]'(by simp; omega)) :=
            List.getElem?_eq_getElem (by simp; omega)
          rw [e1]
          simp only [Option.map_some]
          rw [List.getElem?_append_left (by simp; omega), List.getElem?_append_left (by simp; omega),
            List.getElem?_append_right (by omega)]
          have : k - pre.length < v.length := by omega
          simp [List.getElem?_eq_getElem this, getElem!_pos v (k - pre.length) this]
        · have : ¬ (pre.length ≤ k ∧ k < pre.length + v.length) := by omega
          simp only [this, if_false]
          by_cases h3 : k < pre.length + old.length
          · rw [List.getElem?_append_left (by simp; omega), List.getElem?_append_right (by omega)]
            rw [List.getElem?_append_left (by simp; omega), List.getElem?_append_right (by simp; omega)]
            simp only [List.length_append, List.getElem?_drop]
            congr 1; omega
          · rw [List.getElem?_append_right (by simp; omega)]
            rw [List.getElem?_append_right (by simp; omega)]
            simp only [List.length_append, List.length_drop]
            congr 1; omega
    rw [hw]
    have hl : (pre ++ v).length = pre.length + v.length := by simp
    have := ih (pre ++ v) (old.drop v.length) (by rw [List.length_drop]; omega)
    rw [hl] at this
    simp only [applyWrites] at this
    rw [this]; simp

/-- **The array after the sub-jobs of a step ran in any order** is the concatenation of
their results (string array and LCP array alike). -/
theorem subjobs_any_order {α} [Inhabited α] (results : List (List α)) (old : List α)
    (hold : old.length = results.flatten.length) (order : List (Nat × List α))
    (hperm : (layout 0 results).Perm order) : applyWrites order old = results.flatten := by
  rw [← applyWrites_perm hperm (layout_disjoint 0 results)]
  have := applyWrites_layout ([] : List α) results [] old hold
  simpa using this

end TlxVerif.C04
