/-
C04 — the protocol invariant holds in every reachable state of the fixed configuration.
-/
import TlxVerif.Proofs.C04ProtoStep
namespace TlxVerif.C04.Proto

theorem inv_init (k : Kind) (parts : Nat) : Inv (init k parts) := by
  refine ⟨rfl, ?_, ?_, by simp [init], ?_, ?_, ?_⟩
  · intro t ht i hi
    simp [init] at ht; subst ht
    cases k <;> simp [firstProg, sampleProg, smallProg] at hi <;> rcases hi with rfl | rfl <;>
      simp [init, aliveAt, Instr.subj]
  · intro c p h; simp [init] at h
  · intro t ht
    simp [init] at ht; subst ht
    cases k <;> simp [firstProg, sampleProg, smallProg, covered, keepAlive, Instr.subj]
  · intro c p h; simp [init] at h
  · intro j o ho ha
    have hj : j = 0 := by
      rcases j with _ | j
      · rfl
      · simp [init] at ho
    subst hj
    simp [init] at ho; subst ho
    have hop : owesParent ([] : List (Nat × Nat)) 0
        { parent := none, cnt := 0, pwork := 0, parts := (if parts = 0 then 1 else parts), alive := true, post := false } := by
      intro q hq; simp at hq
    cases k <;>
    · simp only [init, LocalP, countsOf, NT_cons, NT_nil, owedTo, List.countP_cons, List.countP_nil, firstProg,
        sampleProg, smallProg, isTok, isPend, isStart, isIncrH, isOwn, isDel, isRpn, isRef, isPostI, Instr.subj,
        beq_self_eq_true, if_true, Bool.false_eq_true, if_false, Nat.add_zero, Nat.zero_add]
      refine ⟨by simp, by simp, by simp, by simp, by simp, by simp, by simp, fun _ => hop, by simp, by simp, ?_⟩
      split <;> omega

theorem inv_step {s s' : State} (h : Inv s) (hs : Step Cfg.fixed s s') : Inv s' := by
  obtain ⟨pre, i, rest, post, ch, ht, _, rfl⟩ := hs
  have hia : aliveAt s.objs i.subj = true := h.refsAlive (i :: rest) (by simp [ht]) i (by simp)
  obtain ⟨o, ho, ha⟩ := aliveAt_iff.1 hia
  cases i with
  | acc id =>
    simp only [Instr.subj] at hia ho
    simpa [execHead, hia, ho, Instr.subj] using inv_acc h ht
  | startLoop id ph =>
    simp only [Instr.subj] at hia ho
    simpa [execHead, hia, ho, Instr.subj] using inv_startLoop h ht ho
  | enq id ph =>
    simp only [Instr.subj] at hia ho
    simpa [execHead, hia, ho, Instr.subj] using inv_enq h ht
  | decPwork id ph =>
    simp only [Instr.subj] at hia ho
    obtain ⟨hpw, hinv⟩ := inv_decPwork h ht ho ha
    simpa [execHead, hia, ho, Instr.subj, hpw] using hinv
  | incrH id big =>
    simp only [Instr.subj] at hia ho
    simpa [execHead, hia, ho, Instr.subj] using inv_incrH h ht
  | incrC id k parts =>
    simp only [Instr.subj] at hia ho
    simpa [execHead, hia, ho, Instr.subj] using inv_incrC h ht
  | loop id =>
    simp only [Instr.subj] at hia ho
    cases ch with
    | none => simpa [execHead, hia, ho, Instr.subj] using inv_loopExit h ht
    | exit => simpa [execHead, hia, ho, Instr.subj] using inv_loopExit h ht
    | spawn k parts => simpa [execHead, hia, ho, Instr.subj] using inv_spawn h k parts ht
  | newChild id k parts =>
    simp only [Instr.subj] at hia ho
    simpa [execHead, hia, ho, Instr.subj] using inv_newChild h ht
  | notify id =>
    simp only [Instr.subj] at hia ho
    obtain ⟨hc, hinv⟩ := inv_notify h ht ho ha
    simpa [execHead, hia, ho, Instr.subj, hc] using hinv
  | rpn id =>
    simp only [Instr.subj] at hia ho
    cases hp : o.parent with
    | none => simpa [execHead, hia, ho, Instr.subj, hp] using inv_rpn_none h ht ho hp
    | some p => simpa [execHead, hia, ho, Instr.subj, hp] using inv_rpn_some h ht ho ha hp
  | del id =>
    simp only [Instr.subj] at hia ho
    obtain ⟨hc, hinv⟩ := inv_del h ht ho ha
    simpa [execHead, hia, ho, Instr.subj, hc] using hinv

theorem inv_reachable {s : State} (h : Reachable Cfg.fixed s) : Inv s := by
  induction h with
  | init k parts => exact inv_init k parts
  | step _ hs ih => exact inv_step ih hs

end TlxVerif.C04.Proto
