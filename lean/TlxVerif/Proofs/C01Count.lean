/-
C01/C02 — node counts: `insert_descend` allocates exactly the nodes by which the tree grows
(`stats_.leaves`, `stats_.inner_nodes` and the allocation ledger stay equal to the structure).
-/
import TlxVerif.Model.C01Tree
import TlxVerif.Proofs.C01Inv
namespace TlxVerif.C01

variable {K V : Type}

def sumMap {α : Type} (f : α → Nat) (l : List α) : Nat := (l.map f).sum

theorem sumMap_nil {α : Type} (f : α → Nat) : sumMap f [] = 0 := rfl
theorem sumMap_cons {α : Type} (f : α → Nat) (x : α) (l : List α) : sumMap f (x :: l) = f x + sumMap f l := by
  simp [sumMap]
theorem sumMap_append {α : Type} (f : α → Nat) (l₁ l₂ : List α) : sumMap f (l₁ ++ l₂) = sumMap f l₁ + sumMap f l₂ := by
  simp [sumMap, List.sum_append]
theorem sumMap_take_drop {α : Type} (f : α → Nat) (l : List α) (n : Nat) :
    sumMap f (l.take n) + sumMap f (l.drop n) = sumMap f l := by
  rw [← sumMap_append, List.take_append_drop]
theorem sumMap_insertAt {α : Type} (f : α → Nat) (l : List α) (i : Nat) (x : α) :
    sumMap f (insertAt l i x) = sumMap f l + f x := by
  unfold insertAt
  rw [sumMap_append, sumMap_cons, ← sumMap_take_drop f l i]
  omega
theorem sumMap_set {α : Type} (f : α → Nat) (l : List α) (i : Nat) (x : α) (h : i < l.length) :
    sumMap f (l.set i x) + f l[i] = sumMap f l + f x := by
  induction l generalizing i with
  | nil => simp at h
  | cons a l ih =>
    cases i with
    | zero => simp [sumMap_cons]; omega
    | succ i =>
      simp only [List.set_cons_succ, sumMap_cons, List.getElem_cons_succ]
      have := ih i (by simpa using h)
      omega

/-- generic node measure: `a` for the node itself plus the sum over its children -/
def cnt (a : Nat) (f : BNode K V → Nat) : BNode K V → Nat
  | .inner _ _ kids => a + sumMap f kids
  | .leaf _ => 0

def optCnt (g : BNode K V → Nat) : Option (K × BNode K V) → Nat
  | none => 0
  | some (_, s) => g s

theorem splitInnerAbsorb_cnt (a : Nat) (f : BNode K V → Nat) (l : Nat) (keys : List K) (kids : List (BNode K V))
    (slot : Nat) (nk : K) (nc : BNode K V) (mid : Nat) (node : BNode K V) (split : Option (K × BNode K V)) (ni : Nat)
    (hr : splitInnerAbsorb l keys kids slot nk nc mid = some (node, split, ni)) :
    cnt a f node + optCnt (cnt a f) split = a + sumMap f kids + f nc + a * ni := by
  unfold splitInnerAbsorb at hr
  split at hr
  · cases hr
  · simp only at hr
    split at hr
    · split at hr
      · cases hr
      · rename_i c0 rest hrk
        cases hr
        simp only [cnt, optCnt, sumMap_append, sumMap_cons, sumMap_nil]
        have h1 := sumMap_take_drop f kids (mid + 1)
        rw [hrk, sumMap_cons] at h1
        omega
    · split at hr
      · cases hr
        simp only [cnt, optCnt, sumMap_insertAt]
        have h1 := sumMap_take_drop f kids (mid + 1)
        omega
      · cases hr
        simp only [cnt, optCnt, sumMap_insertAt]
        have h1 := sumMap_take_drop f kids (mid + 1)
        omega

theorem innerAbsorb_cnt (p : Params K) (a : Nat) (f : BNode K V → Nat) (l : Nat) (keys : List K)
    (kids : List (BNode K V)) (slot : Nat) (nk : K) (nc : BNode K V) (node : BNode K V)
    (split : Option (K × BNode K V)) (ni : Nat)
    (hr : innerAbsorb p l keys kids slot nk nc = some (node, split, ni)) :
    cnt a f node + optCnt (cnt a f) split = a + sumMap f kids + f nc + a * ni := by
  unfold innerAbsorb at hr
  split at hr
  · exact splitInnerAbsorb_cnt a f l keys kids slot nk nc _ node split ni hr
  · cases hr
    simp only [cnt, optCnt, sumMap_insertAt]
    omega

theorem innerAbsorb_isInner (p : Params K) (l : Nat) (keys : List K)
    (kids : List (BNode K V)) (slot : Nat) (nk : K) (nc : BNode K V) (node : BNode K V)
    (split : Option (K × BNode K V)) (ni : Nat)
    (hr : innerAbsorb p l keys kids slot nk nc = some (node, split, ni)) :
    node.isLeaf = false ∧ ∀ sk sn, split = some (sk, sn) → sn.isLeaf = false := by
  unfold innerAbsorb at hr
  split at hr
  · unfold splitInnerAbsorb at hr
    split at hr
    · cases hr
    · simp only at hr
      split at hr
      · split at hr
        · cases hr
        · cases hr
          exact ⟨rfl, fun _ _ h => by cases h; rfl⟩
      · split at hr <;> (cases hr; exact ⟨rfl, fun _ _ h => by cases h; rfl⟩)
  · cases hr
    exact ⟨rfl, fun _ _ h => by cases h⟩

theorem leafCount_inner_eq (h : Nat) (n : BNode K V) (hn : n.isLeaf = false) :
    leafCount (h + 1) n = cnt 0 (leafCount h) n := by
  cases n with
  | leaf es => simp [BNode.isLeaf] at hn
  | inner l ks kids => simp [leafCount, cnt, sumMap]

theorem innerCount_inner_eq (h : Nat) (n : BNode K V) (hn : n.isLeaf = false) :
    innerCount (h + 1) n = cnt 1 (innerCount h) n := by
  cases n with
  | leaf es => simp [BNode.isLeaf] at hn
  | inner l ks kids => simp [innerCount, cnt, sumMap]

theorem optCnt_congr (g g' : BNode K V → Nat) (s : Option (K × BNode K V))
    (h : ∀ sk sn, s = some (sk, sn) → g sn = g' sn) : optCnt g s = optCnt g' s := by
  cases s with
  | none => rfl
  | some kv => obtain ⟨sk, sn⟩ := kv; exact h sk sn rfl

theorem leafInsert_count (p : Params K) (es : List (K × V)) (k : K) (v : V) (h : Nat) (r : InsOut K V)
    (hr : leafInsert p es k v = some r) :
    leafCount h r.node + optCnt (leafCount h) r.split = 1 + r.newLeaves ∧
    innerCount h r.node + optCnt (innerCount h) r.split = r.newInner := by
  unfold leafInsert at hr
  simp only at hr
  split at hr
  · cases hr; simp [leafCount, innerCount, optCnt]
  · split at hr
    · unfold splitLeafInsert at hr
      simp only at hr
      split at hr
      · cases hr
      · split at hr <;> (cases hr; simp [leafCount, innerCount, optCnt])
    · cases hr; simp [leafCount, innerCount, optCnt]

/-- `insert_descend` allocates exactly the nodes by which the subtree (plus split sibling) grows -/
theorem insertDescend_count (p : Params K) (k : K) (v : V) :
    ∀ (h : Nat) (n : BNode K V) (r : InsOut K V), insertDescend p k v h n = some r →
      leafCount h r.node + optCnt (leafCount h) r.split = leafCount h n + r.newLeaves ∧
      innerCount h r.node + optCnt (innerCount h) r.split = innerCount h n + r.newInner := by
  intro h
  induction h with
  | zero =>
    intro n r hr
    cases n with
    | inner l keys kids => unfold insertDescend at hr; cases hr
    | leaf es =>
      unfold insertDescend at hr
      have := leafInsert_count p es k v 0 r hr
      simpa [leafCount, innerCount] using this
  | succ h ih =>
    intro n r hr
    cases n with
    | leaf es =>
      unfold insertDescend at hr
      have := leafInsert_count p es k v (h + 1) r hr
      simpa [leafCount, innerCount] using this
    | inner l keys kids =>
      unfold insertDescend at hr
      simp only at hr
      generalize findLower p keys k = slot at hr
      cases hc : kids[slot]? with
      | none => rw [hc] at hr; cases hr
      | some child =>
        rw [hc] at hr
        simp only at hr
        obtain ⟨hlt, hget⟩ := List.getElem?_eq_some_iff.mp hc
        cases hrec : insertDescend p k v h child with
        | none => rw [hrec] at hr; cases hr
        | some r' =>
          rw [hrec] at hr
          simp only at hr
          obtain ⟨ih1, ih2⟩ := ih child r' hrec
          have hs1 := sumMap_set (leafCount h) kids slot r'.node hlt
          have hs2 := sumMap_set (innerCount h) kids slot r'.node hlt
          rw [hget] at hs1 hs2
          cases hsp : r'.split with
          | none =>
            rw [hsp] at hr ih1 ih2
            cases hr
            simp only [optCnt, Nat.add_zero] at ih1 ih2
            simp only [leafCount, innerCount, optCnt, Nat.add_zero]
            change sumMap (leafCount h) _ = sumMap (leafCount h) _ + _ ∧
              1 + sumMap (innerCount h) _ = 1 + sumMap (innerCount h) _ + _
            omega
          | some kv =>
            obtain ⟨nk, nc⟩ := kv
            rw [hsp] at hr ih1 ih2
            simp only at hr
            simp only [optCnt] at ih1 ih2
            cases hab : innerAbsorb p l keys (kids.set slot r'.node) slot nk nc with
            | none => rw [hab] at hr; cases hr
            | some res =>
              obtain ⟨node, split, ni⟩ := res
              rw [hab] at hr
              cases hr
              obtain ⟨hin, hsn⟩ := innerAbsorb_isInner p l keys _ slot nk nc node split ni hab
              have c1 := innerAbsorb_cnt p 0 (leafCount h) l keys _ slot nk nc node split ni hab
              have c2 := innerAbsorb_cnt p 1 (innerCount h) l keys _ slot nk nc node split ni hab
              simp only
              rw [leafCount_inner_eq h node hin, innerCount_inner_eq h node hin,
                optCnt_congr (leafCount (h + 1)) (cnt 0 (leafCount h)) split
                  (fun sk sn hh => leafCount_inner_eq h sn (hsn sk sn hh)),
                optCnt_congr (innerCount (h + 1)) (cnt 1 (innerCount h)) split
                  (fun sk sn hh => innerCount_inner_eq h sn (hsn sk sn hh))]
              simp only [leafCount, innerCount]
              change _ = sumMap (leafCount h) kids + _ ∧ _ = 1 + sumMap (innerCount h) kids + _
              omega

end TlxVerif.C01
