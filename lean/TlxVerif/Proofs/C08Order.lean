/-
C08 — the (value, sequence) order on samples as a strict weak order: `Le` = "not after", its transitivity,
and the mixed transitivity laws used by the invariant proofs.
-/
import TlxVerif.Proofs.C08Exists
import TlxVerif.Proofs.C08Hoare
namespace TlxVerif.C08

variable {α : Type}

/-- negative transitivity of `Before` -/
theorem Before.cotrans {lt : α → α → Bool} (hlt : StrictWeak lt) {x y : α} {i j : Nat}
    (h : Before lt x i y j) (z : α) (k : Nat) : Before lt x i z k ∨ Before lt z k y j := by
  by_cases hki : k = i
  · subst hki
    cases hxz : lt x z with
    | true => exact Or.inl (Or.inl hxz)
    | false =>
      cases hzx : lt z x with
      | true => exact Or.inr (Before.trans hlt (Or.inl hzx) h)
      | false =>
        right
        rcases h with h | ⟨h, hij⟩
        · exact Or.inl (hlt.lt_of_le_of_lt hxz h)
        · exact Or.inr ⟨hlt.le_trans hxz h, hij⟩
  · rcases Before.total lt x z (Ne.symm hki) with h1 | h1
    · exact Or.inl h1
    · exact Or.inr (Before.trans hlt h1 h)

/-- `(x,i)` is not after `(y,j)` -/
def Le (lt : α → α → Bool) (x : α) (i : Nat) (y : α) (j : Nat) : Prop := ¬ Before lt y j x i

theorem Le.trans {lt : α → α → Bool} (hlt : StrictWeak lt) {x y z : α} {i j k : Nat}
    (h1 : Le lt x i y j) (h2 : Le lt y j z k) : Le lt x i z k := by
  intro h
  rcases Before.cotrans hlt h y j with h3 | h3
  · exact h2 h3
  · exact h1 h3

theorem Le.of_before {lt : α → α → Bool} (hlt : StrictWeak lt) {x y : α} {i j : Nat}
    (h : Before lt x i y j) : Le lt x i y j := fun h' => Before.asymm hlt h h'

theorem Le.refl {lt : α → α → Bool} (hlt : StrictWeak lt) (x : α) (i : Nat) : Le lt x i x i := by
  intro h
  rcases h with h | ⟨_, h⟩
  · rw [hlt.irrefl] at h; cases h
  · omega

theorem Before.of_le_ne {lt : α → α → Bool} {x y : α} {i j : Nat} (h : Le lt x i y j) (hij : i ≠ j) :
    Before lt x i y j := by
  rcases Before.total lt x y hij with h1 | h1
  · exact h1
  · exact (h h1).elim

theorem Before.of_before_le {lt : α → α → Bool} (hlt : StrictWeak lt) {x y z : α} {i j k : Nat}
    (h1 : Before lt x i y j) (h2 : Le lt y j z k) : Before lt x i z k := by
  rcases Before.cotrans hlt h1 z k with h | h
  · exact h
  · exact (h2 h).elim

theorem Before.of_le_before {lt : α → α → Bool} (hlt : StrictWeak lt) {x y z : α} {i j k : Nat}
    (h1 : Le lt x i y j) (h2 : Before lt y j z k) : Before lt x i z k := by
  rcases Before.cotrans hlt h2 x i with h | h
  · exact (h1 h).elim
  · exact h

/-- same sequence: a not-greater value is not after -/
theorem Le.same_seq {lt : α → α → Bool} {x y : α} (i : Nat) (h : lt y x = false) : Le lt x i y i := by
  intro hb
  rcases hb with hb | ⟨_, hb⟩
  · rw [h] at hb; cases hb
  · omega

theorem lcomp_iff_before' (lt : Int → Int → Bool) (x : Int) (i : Nat) (y : Int) (j : Nat) :
    lcomp lt (x, i) (y, j) = true ↔ Before lt x i y j := by
  unfold lcomp Before
  cases h1 : lt x y <;> cases h2 : lt y x <;> simp

/-! ### the order a routine maintains between edge samples

`multisequence_partition` compares (value, sequence) pairs, `multisequence_selection` values only.  Both are
strict weak orders on samples; `LeR` is the corresponding "not after". -/

def Less (lt : Int → Int → Bool) (r : Routine) (x : Int) (i : Nat) (y : Int) (j : Nat) : Prop :=
  match r with
  | .partition => Before lt x i y j
  | .selection => lt x y = true

def LeR (lt : Int → Int → Bool) (r : Routine) (x : Int) (i : Nat) (y : Int) (j : Nat) : Prop :=
  ¬ Less lt r y j x i

theorem LeR.trans {lt : Int → Int → Bool} (hlt : StrictWeak lt) {r : Routine} {x y z : Int} {i j k : Nat}
    (h1 : LeR lt r x i y j) (h2 : LeR lt r y j z k) : LeR lt r x i z k := by
  cases r with
  | partition => exact Le.trans hlt h1 h2
  | selection =>
    unfold LeR Less at *
    simp only [Bool.not_eq_true] at *
    exact hlt.le_trans h1 h2

theorem LeR.of_less {lt : Int → Int → Bool} (hlt : StrictWeak lt) {r : Routine} {x y : Int} {i j : Nat}
    (h : Less lt r x i y j) : LeR lt r x i y j := by
  cases r with
  | partition => exact Le.of_before hlt h
  | selection =>
    unfold LeR Less at *
    simp only [Bool.not_eq_true]
    exact hlt.asymm _ _ h

theorem LeR.refl {lt : Int → Int → Bool} (hlt : StrictWeak lt) (r : Routine) (x : Int) (i : Nat) : LeR lt r x i x i := by
  cases r with
  | partition => exact Le.refl hlt x i
  | selection => unfold LeR Less; simp [hlt.irrefl]

theorem LeR.same_seq {lt : Int → Int → Bool} (r : Routine) {x y : Int} (i : Nat) (h : lt y x = false) :
    LeR lt r x i y i := by
  cases r with
  | partition => exact Le.same_seq i h
  | selection => unfold LeR Less; simp [h]

theorem LeR.of_before {lt : Int → Int → Bool} (hlt : StrictWeak lt) (r : Routine) {x y : Int} {i j : Nat}
    (h : Before lt x i y j) : LeR lt r x i y j := by
  cases r with
  | partition => exact Le.of_before hlt h
  | selection =>
    unfold LeR Less
    simp only [Bool.not_eq_true]
    rcases h with h | ⟨h, _⟩
    · exact hlt.asymm _ _ h
    · exact h

/-- the tie rules of the `lmax` scan keep a maximal element (the candidate comes from a later sequence) -/
theorem takesMax_spec {lt : Int → Int → Bool} (hlt : StrictWeak lt) (r : Routine) {x v : Int} {i s : Nat} (hsi : s < i) :
    (takesMax lt r x v = true → LeR lt r v s x i) ∧ (takesMax lt r x v = false → LeR lt r x i v s) := by
  cases r with
  | partition =>
    simp only [takesMax, LeR, Less, Bool.not_eq_true', Bool.not_eq_false']
    constructor
    · intro h hb
      rcases hb with hb | ⟨_, hb⟩
      · rw [h] at hb; cases hb
      · omega
    · intro h hb
      rcases hb with hb | ⟨hb, _⟩
      · rw [hlt.asymm _ _ h] at hb; cases hb
      · rw [h] at hb; cases hb
  | selection =>
    simp only [takesMax, LeR, Less, Bool.not_eq_true]
    exact ⟨fun h => hlt.asymm _ _ h, fun h => h⟩

theorem leftTest_iff (lt : Int → Int → Bool) (r : Routine) (x : Int) (i : Nat) (lv : Int) (ls : Nat) :
    leftTest lt r x i lv ls = true ↔ Less lt r x i lv ls := by
  cases r with
  | partition => exact lcomp_iff_before' lt x i lv ls
  | selection => rfl

end TlxVerif.C08
