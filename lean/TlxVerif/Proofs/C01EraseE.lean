/-
C01/C02 — erase, part E: `erase_one(key)` against the abstract container: it erases iff the entry at
the lower bound of the key is equivalent to the key, and then exactly that entry; the order of the
remaining entries is untouched.
-/
import TlxVerif.Model.C01Erase
import TlxVerif.Proofs.C01EraseD
namespace TlxVerif.C01

variable {K V : Type}

/-- `erase_one_descend` reports `btree_not_found` only if the probed leaf slot is not equivalent to the key -/
theorem eraseDescend_key_none (p : Params K) (k : K) :
    ∀ (h : Nat) (n : BNode K V) (ctx : Ctx K V), eraseDescend p (.key k) h n ctx = some none →
      presentOpt p k (probe p k h n) = false := by
  intro h
  induction h with
  | zero =>
    intro n ctx hr
    cases n with
    | inner l ks kids => unfold eraseDescend at hr; cases hr
    | leaf es =>
      unfold eraseDescend at hr
      simp only at hr
      simp only [probe]
      cases he : es[findLower p (keysOf es) k]? with
      | none => rfl
      | some e =>
        rw [he] at hr
        simp only at hr
        simp only [presentOpt]
        cases hq : p.eqv k e.1 with
        | false => rfl
        | true =>
          rw [hq] at hr
          simp only [Bool.not_true, Bool.false_eq_true, if_false] at hr
          cases hx : eraseInLeaf p es (findLower p (keysOf es) k) ctx with
          | none => rw [hx] at hr; cases hr
          | some o => rw [hx] at hr; cases hr
  | succ h ih =>
    intro n ctx hr
    cases n with
    | leaf es =>
      unfold eraseDescend at hr
      simp only at hr
      simp only [probe]
      cases he : es[findLower p (keysOf es) k]? with
      | none => rfl
      | some e =>
        rw [he] at hr
        simp only at hr
        simp only [presentOpt]
        cases hq : p.eqv k e.1 with
        | false => rfl
        | true =>
          rw [hq] at hr
          simp only [Bool.not_true, Bool.false_eq_true, if_false] at hr
          cases hx : eraseInLeaf p es (findLower p (keysOf es) k) ctx with
          | none => rw [hx] at hr; cases hr
          | some o => rw [hx] at hr; cases hr
    | inner l keys kids =>
      unfold eraseDescend at hr
      simp only [Target.tkey, scanTries] at hr
      simp only [probe]
      generalize findLower p keys k = slot at hr
      unfold scanLoop at hr
      cases hv : visitChild (eraseDescend p (.key k) h) h keys kids ctx slot with
      | none => rw [hv] at hr; cases hr
      | some r =>
        rw [hv] at hr
        cases r with
        | some a =>
          simp only at hr
          cases hx : afterChild p l keys kids ctx slot a with
          | none => rw [hx] at hr; cases hr
          | some o => rw [hx] at hr; cases hr
        | none =>
          simp only [visitChild] at hv
          cases hc : kids[slot]? with
          | none => rw [hc] at hv; cases hv
          | some c =>
            rw [hc] at hv
            cases hcc : childCtx h keys kids ctx slot with
            | none => rw [hcc] at hv; cases hv
            | some cctx =>
              rw [hcc] at hv
              simp only at hv ⊢
              exact ih c cctx hv

/-- the abstract `erase_one`: remove the entry at the lower bound if it is equivalent to the key -/
def Spec.eraseOne (p : Params K) (l : List (K × V)) (k : K) : List (K × V) × Bool :=
  if presentOpt p k (l[lbIdx p.lt k l]?) then (l.eraseIdx (lbIdx p.lt k l), true) else (l, false)

theorem sortedE_eraseIdx {lt : K → K → Bool} {l : List (K × V)} (h : SortedE lt l) (i : Nat) :
    SortedE lt (l.eraseIdx i) :=
  List.Pairwise.sublist (List.eraseIdx_sublist l i) h

/-- `erase_one(key)`: defined on every tree satisfying the invariant, erases exactly what the abstract
container erases, keeps shape, order and bookkeeping, frees exactly the shrinkage -/
theorem eraseOne_spec (p : Params K) (pv : p.Valid) (sw : StrictWeak p.lt) (t : Tree K V) (ht : TreeInv p t) (k : K) :
    ∃ res, eraseOne p t k = some res ∧
      (res.tree.toList, res.erased) = Spec.eraseOne p t.toList k ∧
      TreeShape p res.tree ∧ SortedE p.lt res.tree.toList ∧
      res.tree.nLeaves + res.ledger.leafFree = t.nLeaves ∧ res.tree.nInner + res.ledger.innerFree = t.nInner ∧
      res.ledger.leafAlloc = 0 ∧ res.ledger.innerAlloc = 0 := by
  obtain ⟨hshape, hsort, hsep⟩ := ht
  obtain ⟨res, hres, hno, hyes⟩ := eraseTop_ok p pv (.key k) t hshape
  refine ⟨res, hres, ?_⟩
  cases hroot : t.root with
  | none =>
    -- empty tree
    unfold eraseTop at hres
    rw [hroot] at hres
    cases hres
    simp only [Spec.eraseOne, Tree.toList, hroot, presentOpt, lbIdx]
    refine ⟨by simp, hshape, by simpa [Tree.toList, hroot] using hsort, by simp, by simp, by first | rfl | trivial, by first | rfl | trivial⟩
  | some r =>
    have hshape' := hshape
    unfold TreeShape at hshape'
    rw [hroot] at hshape' hsep
    simp only at hsep
    have htl : t.toList = flatten r.level r := by simp [Tree.toList, hroot]
    have hsort' : SortedE p.lt (flatten r.level r) := by rw [← htl]; exact hsort
    have hlb := insRank_eq_lbIdx p sw k r.level r 1 1 hshape'.1 hsort' hsep
    have hpr := flatten_at_insRank p sw k r.level r 1 1 hshape'.1 hsort' hsep
    cases he : res.erased with
    | false =>
      obtain ⟨h1, h2⟩ := hno he
      -- not found: the probed entry is not equivalent
      have hnone : eraseDescend p (.key k) r.level r {} = some none := by
        unfold eraseTop at hres
        rw [hroot] at hres
        simp only at hres
        cases hd : eraseDescend p (.key k) r.level r {} with
        | none => rw [hd] at hres; cases hres
        | some o =>
          cases o with
          | none => rfl
          | some out =>
            rw [hd] at hres
            simp only at hres
            split at hres
            · cases hres
            · cases hres; cases he
      have hp := eraseDescend_key_none p k r.level r {} hnone
      rw [← hpr, hlb, ← htl] at hp
      rw [h1, h2]
      simp only [Spec.eraseOne, hp, Bool.false_eq_true, if_false]
      exact ⟨trivial, hshape, hsort, by simp, by simp, by first | rfl | trivial, by first | rfl | trivial⟩
    | true =>
      have hok := hyes he
      obtain ⟨r', i, hr', hi, hfl, hhit⟩ := hok.flat
      rw [hroot] at hr'
      cases hr'
      simp only [HitAt] at hhit
      obtain ⟨hi', e, hpe, hqe⟩ := hhit
      rw [hlb] at hi'
      rw [← hpr, hlb, ← htl] at hpe
      subst hi'
      rw [← htl] at hfl
      have hp : presentOpt p k (t.toList[lbIdx p.lt k t.toList]?) = true := by rw [hpe]; exact hqe
      simp only [Spec.eraseOne, hp, if_true]
      refine ⟨by rw [hfl, htl], hok.shape, ?_, hok.lcnt, hok.icnt, hok.noalloc.1, hok.noalloc.2⟩
      rw [hfl]
      exact sortedE_eraseIdx hsort _

end TlxVerif.C01
