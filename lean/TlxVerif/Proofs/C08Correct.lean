/-
C08 — correctness of the executable model of `multisequence_partition` for all inputs:
for every tuple of non-empty sorted sequences, every strict weak order and every rank `0 ≤ rank ≤ N`
the model succeeds (no out-of-range read, no `top()` of an empty queue) and returns THE partition.
-/
import TlxVerif.Proofs.C08Init
import TlxVerif.Proofs.C08Checker
namespace TlxVerif.C08

/-! ### sums -/

def sumA (ab : AB) : List Nat → Int
  | [] => 0
  | i :: is => A ab i + sumA ab is

theorem leftsize_zero (ab : AB) : ∀ (is : List Nat), leftsizeOf ab.a 0 is = sumA ab is
  | [] => rfl
  | i :: is => by
    simp only [leftsizeOf, sumA, leftsize_zero ab is, A]
    have : (aget ab.a i).tdiv ((0 : Nat) + 1 : Int) = aget ab.a i := by simp
    simp

def sumLen (c : Ctx) : List Nat → Int
  | [] => 0
  | i :: is => lenAt c i + sumLen c is

theorem foldl_size_eq (l : List (Array Int)) : ∀ (acc : Nat),
    l.foldl (fun acc x => acc + x.size) acc = acc + (l.map Array.size).sum := by
  induction l with
  | nil => intro acc; simp
  | cons y l ih => intro acc; simp only [List.foldl_cons, ih, List.map_cons, List.sum_cons]; omega

theorem sumLen_range_aux (c : Ctx) : ∀ (k : Nat), k ≤ c.runs.size →
    sumLen c ((List.range' (c.runs.size - k) k)) = (((c.runs.toList.drop (c.runs.size - k)).map Array.size).sum : Nat) := by
  intro k
  induction k with
  | zero =>
    intro _
    rw [Nat.sub_zero, List.drop_of_length_le (by simp)]
    simp [sumLen]
  | succ k ih =>
    intro hk
    have hi : c.runs.size - (k + 1) < c.runs.size := by omega
    have e1 : c.runs.size - (k + 1) + 1 = c.runs.size - k := by omega
    rw [List.range'_succ, sumLen, e1, ih (by omega)]
    have hd : c.runs.toList.drop (c.runs.size - (k + 1)) =
        c.runs[c.runs.size - (k + 1)] :: c.runs.toList.drop (c.runs.size - k) := by
      rw [← e1]
      have : c.runs.size - (k + 1) < c.runs.toList.length := by simpa using hi
      rw [List.drop_eq_getElem_cons this]
      simp
    rw [hd]
    have hl : lenAt c (c.runs.size - (k + 1)) = (c.runs[c.runs.size - (k + 1)].size : Int) := by
      simp [lenAt, Array.getD_eq_getD_getElem?, Array.getElem?_eq_getElem hi]
    rw [hl]
    simp only [List.map_cons, List.sum_cons]
    push_cast; rfl

theorem totalLen_eq (c : Ctx) : (totalLen c : Int) = sumLen c (List.range c.runs.size) := by
  have := sumLen_range_aux c c.runs.size (Nat.le_refl _)
  simp only [Nat.sub_self, List.drop_zero] at this
  rw [List.range_eq_range', this]
  unfold totalLen
  rw [foldl_size_eq]; simp

theorem sumA_le_sumLen {c : Ctx} {ab : AB} : ∀ (is : List Nat), (∀ i ∈ is, A ab i ≤ lenAt c i) →
    sumA ab is ≤ sumLen c is
  | [], _ => by simp [sumA, sumLen]
  | i :: is, h => by
    have := h i List.mem_cons_self
    have := sumA_le_sumLen is (fun j hj => h j (List.mem_cons_of_mem _ hj))
    simp only [sumA, sumLen]; omega

theorem sumA_eq_sumLen {c : Ctx} {ab : AB} : ∀ (is : List Nat), (∀ i ∈ is, A ab i = lenAt c i) →
    sumA ab is = sumLen c is
  | [], _ => by simp [sumA, sumLen]
  | i :: is, h => by
    simp only [sumA, sumLen, h i List.mem_cons_self, sumA_eq_sumLen is (fun j hj => h j (List.mem_cons_of_mem _ hj))]

/-! ### the refinement as a whole -/

theorem lsz_zero (c : Ctx) (ab : AB) : Lsz c 0 ab = sumA ab (List.range c.runs.size) := by
  unfold Lsz; exact leftsize_zero ab _

theorem refine_spec {c : Ctx} (hg : Good c) (hm : 0 < c.runs.size) {rank : Nat} (hr : rank < totalLen c) :
    Spec (refine c .partition rank) (fun o => o.seqlen = seqlenOf c ∧ Inv c 0 ⟨o.a, o.b⟩ ∧
      sumA ⟨o.a, o.b⟩ (List.range c.runs.size) = rank) := by
  unfold refine
  refine Spec.bind (initSample_spec hg _) ?_
  intro sample hsample
  subst hsample
  obtain ⟨hinv0, hl0⟩ := initAB_inv hg hm rank
  refine Spec.bind (rounds_spec hg rank _ _ _ (Nat.div_le_self _ _) hinv0) ?_
  intro ab ⟨hinv, hsame, hrank⟩
  refine Spec.pure ⟨rfl, hinv, ?_⟩
  show sumA ab (List.range c.runs.size) = rank
  have htot := totalLen_eq c
  have hrange : ∀ i ∈ List.range c.runs.size, i < c.runs.size := fun i hi => List.mem_range.mp hi
  have hAle : ∀ i ∈ List.range c.runs.size, A ab i ≤ lenAt c i := fun i hi => (hinv.str i (hrange i hi)).2.1
  rw [← lsz_zero]
  by_cases hn : (roundUpPow2 (nmaxOf c + 1) - 1) / 2 = 0
  · -- no round ran: the initial partition is exact (all sequences have length 1)
    rw [hsame hn]
    rw [hn] at hl0 ⊢
    rw [hl0]
    obtain ⟨k, hk, hnmax⟩ := padded_length hm hg
    have hl1 : roundUpPow2 (nmaxOf c + 1) - 1 = 1 := by
      have : roundUpPow2 (nmaxOf c + 1) - 1 + 1 = 2 ^ (k + 1) := hk
      rw [Nat.pow_succ] at this
      have h2 := Nat.one_le_two_pow (n := k)
      omega
    rw [hl1, Nat.div_one]
    -- every sequence has a real sample at position 0
    have hlen1 : ∀ i, i < c.runs.size → lenAt c i = 1 := by
      intro i hi
      have h1 := lenAt_le_nmax c hi
      have h2 := hg.nonempty i hi
      omega
    have hRlen : (sortBy (lcomp c.lt) (realOf c 0 (List.range c.runs.size))).length = c.runs.size := by
      rw [(sortBy_perm _ _).length_eq]
      have : ∀ (is : List Nat), (∀ i ∈ is, i < c.runs.size) → (realOf c 0 is).length = is.length := by
        intro is
        induction is with
        | nil => intro _; rfl
        | cons i is ih =>
          intro h
          have h1 := hlen1 i (h i List.mem_cons_self)
          have hr : ((0 : Nat) : Int) < lenAt c i := by omega
          simp only [realOf, List.filterMap_cons, if_pos hr, List.length_cons]
          have := ih (fun j hj => h j (List.mem_cons_of_mem _ hj))
          simp only [realOf] at this
          rw [this]
      rw [this _ hrange, List.length_range]
    have hsum : sumLen c (List.range c.runs.size) = c.runs.size := by
      have : ∀ (is : List Nat), (∀ i ∈ is, i < c.runs.size) → sumLen c is = is.length := by
        intro is
        induction is with
        | nil => intro _; rfl
        | cons i is ih =>
          intro h
          simp only [sumLen, hlen1 i (h i List.mem_cons_self), ih (fun j hj => h j (List.mem_cons_of_mem _ hj)),
            List.length_cons]
          omega
      rw [this _ hrange, List.length_range]
    rw [List.length_take, hRlen]
    have : rank < c.runs.size := by
      have : (totalLen c : Int) = c.runs.size := by rw [htot, hsum]
      omega
    omega
  · -- at least one round: the last correction is exact because rank < N
    rcases hrank (by omega) with h | ⟨hlt, hall⟩
    · rw [h]; simp
    · exfalso
      have hAeq : ∀ i ∈ List.range c.runs.size, A ab i = lenAt c i := by
        intro i hi
        obtain ⟨_, h1, _, h3⟩ := hinv.str i (hrange i hi)
        have := hall i (hrange i hi)
        simp only [A, B] at *
        omega
      rw [lsz_zero, sumA_eq_sumLen _ hAeq, ← htot] at hlt
      simp at hlt
      omega

/-- the final scan over the edges only reads inside the sequences -/
theorem edges_spec {c : Ctx} (r : Routine) {o : Out} (hs : o.seqlen = seqlenOf c)
    (hb : ∀ i, i < c.runs.size → 0 ≤ aget o.a i ∧ aget o.a i ≤ lenAt c i ∧ 0 ≤ aget o.b i) :
    ∀ (is : List Nat) (ml mr : Option Int), (∀ i ∈ is, i < c.runs.size) →
      Spec (edges c r o is ml mr) (fun _ => True)
  | [], _, _, _ => by rw [edges]; exact Spec.pure trivial
  | i :: is, ml, mr, h => by
    have hi := h i List.mem_cons_self
    obtain ⟨h0, h1, h2⟩ := hb i hi
    rw [edges]
    have hleft : Spec (edgeLeft c r o i ml) (fun _ => True) := by
      unfold edgeLeft
      by_cases hp : aget o.a i > 0
      · rw [if_pos hp]
        have hrd := Spec.rd c hi (by omega : (0 : Int) ≤ aget o.a i - 1) (by omega)
        refine Spec.bind hrd ?_
        intro x _
        cases ml with
        | none => exact Spec.pure trivial
        | some v =>
          simp only []
          split
          · exact Spec.bind hrd (fun _ _ => Spec.pure trivial)
          · exact Spec.pure trivial
      · rw [if_neg hp]; exact Spec.pure trivial
    refine Spec.bind hleft ?_
    intro ml' _
    have hright : Spec (edgeRight c o i mr) (fun _ => True) := by
      unfold edgeRight
      rw [hs, aget_seqlenOf c hi]
      by_cases hp : aget o.b i < lenAt c i
      · rw [if_pos hp]
        have hrd := Spec.rd c hi h2 hp
        refine Spec.bind hrd ?_
        intro x _
        cases mr with
        | none => exact Spec.pure trivial
        | some v =>
          simp only []
          split
          · exact Spec.bind hrd (fun _ _ => Spec.pure trivial)
          · exact Spec.pure trivial
      · rw [if_neg hp]; exact Spec.pure trivial
    refine Spec.bind hright ?_
    intro mr' _
    exact edges_spec r hs hb is ml' mr' (fun j hj => h j (List.mem_cons_of_mem _ hj))

end TlxVerif.C08
