/-
C08 — correctness of the executable model of `multisequence_partition` for all inputs:
for every tuple of non-empty sorted sequences, every strict weak order and every rank `0 ≤ rank ≤ N`
the model succeeds (no out-of-range read, no `top()` of an empty queue) and returns THE partition.
-/
import TlxVerif.Proofs.C08Init
import TlxVerif.Proofs.C08Checker
namespace TlxVerif.C08

/-! ### sums -/

def sumA (ab : AB) : List Nat → Int
  | [] => 0
  | i :: is => A ab i + sumA ab is

theorem leftsize_zero (ab : AB) : ∀ (is : List Nat), leftsizeOf ab.a 0 is = sumA ab is
  | [] => rfl
  | i :: is => by
    simp only [leftsizeOf, sumA, leftsize_zero ab is, A]
    have : (aget ab.a i).tdiv ((0 : Nat) + 1 : Int) = aget ab.a i := by simp
    simp

def sumLen (c : Ctx) : List Nat → Int
  | [] => 0
  | i :: is => lenAt c i + sumLen c is

theorem foldl_size_eq (l : List (Array Int)) : ∀ (acc : Nat),
    l.foldl (fun acc x => acc + x.size) acc = acc + (l.map Array.size).sum := by
  induction l with
  | nil => intro acc; simp
  | cons y l ih => intro acc; simp only [List.foldl_cons, ih, List.map_cons, List.sum_cons]; omega

theorem sumLen_range_aux (c : Ctx) : ∀ (k : Nat), k ≤ c.runs.size →
    sumLen c ((List.range' (c.runs.size - k) k)) = (((c.runs.toList.drop (c.runs.size - k)).map Array.size).sum : Nat) := by
  intro k
  induction k with
  | zero =>
    intro _
    rw [Nat.sub_zero, List.drop_of_length_le (by simp)]
    simp [sumLen]
  | succ k ih =>
    intro hk
    have hi : c.runs.size - (k + 1) < c.runs.size := by omega
    have e1 : c.runs.size - (k + 1) + 1 = c.runs.size - k := by omega
    rw [List.range'_succ, sumLen, e1, ih (by omega)]
    have hd : c.runs.toList.drop (c.runs.size - (k + 1)) =
        c.runs[c.runs.size - (k + 1)] :: c.runs.toList.drop (c.runs.size - k) := by
      rw [← e1]
      have : c.runs.size - (k + 1) < c.runs.toList.length := by simpa using hi
      rw [List.drop_eq_getElem_cons this]
      simp
    rw [hd]
    have hl : lenAt c (c.runs.size - (k + 1)) = (c.runs[c.runs.size - (k + 1)].size : Int) := by
      simp [lenAt, Array.getD_eq_getD_getElem?, Array.getElem?_eq_getElem hi]
    rw [hl]
    simp only [List.map_cons, List.sum_cons]
    push_cast; rfl

theorem totalLen_eq (c : Ctx) : (totalLen c : Int) = sumLen c (List.range c.runs.size) := by
  have := sumLen_range_aux c c.runs.size (Nat.le_refl _)
  simp only [Nat.sub_self, List.drop_zero] at this
  rw [List.range_eq_range', this]
  unfold totalLen
  rw [foldl_size_eq]; simp

theorem sumA_le_sumLen {c : Ctx} {ab : AB} : ∀ (is : List Nat), (∀ i ∈ is, A ab i ≤ lenAt c i) →
    sumA ab is ≤ sumLen c is
  | [], _ => by simp [sumA, sumLen]
  | i :: is, h => by
    have := h i List.mem_cons_self
    have := sumA_le_sumLen is (fun j hj => h j (List.mem_cons_of_mem _ hj))
    simp only [sumA, sumLen]; omega

theorem sumA_eq_sumLen {c : Ctx} {ab : AB} : ∀ (is : List Nat), (∀ i ∈ is, A ab i = lenAt c i) →
    sumA ab is = sumLen c is
  | [], _ => by simp [sumA, sumLen]
  | i :: is, h => by
    simp only [sumA, sumLen, h i List.mem_cons_self, sumA_eq_sumLen is (fun j hj => h j (List.mem_cons_of_mem _ hj))]

/-! ### the refinement as a whole -/

theorem lsz_zero (c : Ctx) (ab : AB) : Lsz c 0 ab = sumA ab (List.range c.runs.size) := by
  unfold Lsz; exact leftsize_zero ab _

theorem refine_spec {c : Ctx} (hg : Good c) (r : Routine) (hm : 0 < c.runs.size) {rank : Nat} (hr : rank < totalLen c) :
    Spec (refine c r rank) (fun o => o.seqlen = seqlenOf c ∧ Inv c r 0 ⟨o.a, o.b⟩ ∧
      sumA ⟨o.a, o.b⟩ (List.range c.runs.size) = rank) := by
  unfold refine
  refine Spec.bind (initSample_spec hg _) ?_
  intro sample hsample
  subst hsample
  obtain ⟨hinv0, hl0⟩ := initAB_inv hg r hm rank
  refine Spec.bind (rounds_spec hg r rank _ _ _ (Nat.div_le_self _ _) hinv0) ?_
  intro ab ⟨hinv, hsame, hrank⟩
  refine Spec.pure ⟨rfl, hinv, ?_⟩
  show sumA ab (List.range c.runs.size) = rank
  have htot := totalLen_eq c
  have hrange : ∀ i ∈ List.range c.runs.size, i < c.runs.size := fun i hi => List.mem_range.mp hi
  have hAle : ∀ i ∈ List.range c.runs.size, A ab i ≤ lenAt c i := fun i hi => (hinv.str i (hrange i hi)).2.1
  rw [← lsz_zero]
  by_cases hn : (roundUpPow2 (nmaxOf c + 1) - 1) / 2 = 0
  · -- no round ran: the initial partition is exact (all sequences have length 1)
    rw [hsame hn]
    rw [hn] at hl0 ⊢
    rw [hl0]
    obtain ⟨k, hk, hnmax⟩ := padded_length hm hg
    have hl1 : roundUpPow2 (nmaxOf c + 1) - 1 = 1 := by
      have : roundUpPow2 (nmaxOf c + 1) - 1 + 1 = 2 ^ (k + 1) := hk
      rw [Nat.pow_succ] at this
      have h2 := Nat.one_le_two_pow (n := k)
      omega
    rw [hl1, Nat.div_one]
    -- every sequence has a real sample at position 0
    have hlen1 : ∀ i, i < c.runs.size → lenAt c i = 1 := by
      intro i hi
      have h1 := lenAt_le_nmax c hi
      have h2 := hg.nonempty i hi
      omega
    have hRlen : (sortBy (lcomp c.lt) (realOf c 0 (List.range c.runs.size))).length = c.runs.size := by
      rw [(sortBy_perm _ _).length_eq]
      have : ∀ (is : List Nat), (∀ i ∈ is, i < c.runs.size) → (realOf c 0 is).length = is.length := by
        intro is
        induction is with
        | nil => intro _; rfl
        | cons i is ih =>
          intro h
          have h1 := hlen1 i (h i List.mem_cons_self)
          have hr : ((0 : Nat) : Int) < lenAt c i := by omega
          simp only [realOf, List.filterMap_cons, if_pos hr, List.length_cons]
          have := ih (fun j hj => h j (List.mem_cons_of_mem _ hj))
          simp only [realOf] at this
          rw [this]
      rw [this _ hrange, List.length_range]
    have hsum : sumLen c (List.range c.runs.size) = c.runs.size := by
      have : ∀ (is : List Nat), (∀ i ∈ is, i < c.runs.size) → sumLen c is = is.length := by
        intro is
        induction is with
        | nil => intro _; rfl
        | cons i is ih =>
          intro h
          simp only [sumLen, hlen1 i (h i List.mem_cons_self), ih (fun j hj => h j (List.mem_cons_of_mem _ hj)),
            List.length_cons]
          omega
      rw [this _ hrange, List.length_range]
    rw [List.length_take, hRlen]
    have : rank < c.runs.size := by
      have : (totalLen c : Int) = c.runs.size := by rw [htot, hsum]
      omega
    omega
  · -- at least one round: the last correction is exact because rank < N
    rcases hrank (by omega) with h | ⟨hlt, hall⟩
    · rw [h]; simp
    · exfalso
      have hAeq : ∀ i ∈ List.range c.runs.size, A ab i = lenAt c i := by
        intro i hi
        obtain ⟨_, h1, _, h3⟩ := hinv.str i (hrange i hi)
        have := hall i (hrange i hi)
        simp only [A, B] at *
        omega
      rw [lsz_zero, sumA_eq_sumLen _ hAeq, ← htot] at hlt
      simp at hlt
      omega

/-- the final scan over the edges only reads inside the sequences -/
theorem edges_spec {c : Ctx} (r : Routine) {o : Out} (hs : o.seqlen = seqlenOf c)
    (hb : ∀ i, i < c.runs.size → 0 ≤ aget o.a i ∧ aget o.a i ≤ lenAt c i ∧ 0 ≤ aget o.b i) :
    ∀ (is : List Nat) (ml mr : Option Int), (∀ i ∈ is, i < c.runs.size) →
      Spec (edges c r o is ml mr) (fun _ => True)
  | [], _, _, _ => by rw [edges]; exact Spec.pure trivial
  | i :: is, ml, mr, h => by
    have hi := h i List.mem_cons_self
    obtain ⟨h0, h1, h2⟩ := hb i hi
    rw [edges]
    have hleft : Spec (edgeLeft c r o i ml) (fun _ => True) := by
      unfold edgeLeft
      by_cases hp : aget o.a i > 0
      · rw [if_pos hp]
        have hrd := Spec.rd c hi (by omega : (0 : Int) ≤ aget o.a i - 1) (by omega)
        refine Spec.bind hrd ?_
        intro x _
        cases ml with
        | none => exact Spec.pure trivial
        | some v =>
          simp only []
          split
          · exact Spec.bind hrd (fun _ _ => Spec.pure trivial)
          · exact Spec.pure trivial
      · rw [if_neg hp]; exact Spec.pure trivial
    refine Spec.bind hleft ?_
    intro ml' _
    have hright : Spec (edgeRight c o i mr) (fun _ => True) := by
      unfold edgeRight
      rw [hs, aget_seqlenOf c hi]
      by_cases hp : aget o.b i < lenAt c i
      · rw [if_pos hp]
        have hrd := Spec.rd c hi h2 hp
        refine Spec.bind hrd ?_
        intro x _
        cases mr with
        | none => exact Spec.pure trivial
        | some v =>
          simp only []
          split
          · exact Spec.bind hrd (fun _ _ => Spec.pure trivial)
          · exact Spec.pure trivial
      · rw [if_neg hp]; exact Spec.pure trivial
    refine Spec.bind hright ?_
    intro mr' _
    exact edges_spec r hs hb is ml' mr' (fun j hj => h j (List.mem_cons_of_mem _ hj))

/-! ### from the invariant at stride 1 to the partition specification -/

/-- the sequences as lists -/
def runsL (c : Ctx) : List (List Int) := c.runs.toList.map Array.toList

/-- the offsets as natural numbers -/
def offsOf (c : Ctx) (ab : AB) : List Nat := (List.range c.runs.size).map (fun i => (A ab i).toNat)

theorem runsL_get (c : Ctx) {i : Nat} (hi : i < c.runs.size) : (runsL c)[i]? = some c.runs[i].toList := by
  simp [runsL, hi]

theorem runsL_get_inv (c : Ctx) {i : Nat} {r : List Int} (h : (runsL c)[i]? = some r) :
    i < c.runs.size ∧ r = c.runs[i]!.toList := by
  have hi : i < c.runs.size := by
    have := (List.getElem?_eq_some_iff.mp h).1
    simpa [runsL] using this
  rw [runsL_get c hi] at h
  cases h
  exact ⟨hi, by simp [hi]⟩

theorem lenAt_eq (c : Ctx) {i : Nat} (hi : i < c.runs.size) : lenAt c i = (c.runs[i].toList.length : Int) := by
  simp [lenAt, Array.getD_eq_getD_getElem?, Array.getElem?_eq_getElem hi]

theorem valAt_eq (c : Ctx) {i : Nat} (hi : i < c.runs.size) {p : Nat} (hp : p < c.runs[i].toList.length) :
    valAt c i (p : Int) = c.runs[i].toList[p] := by
  have hp' : p < c.runs[i].size := by simpa using hp
  simp [valAt, Array.getD_eq_getD_getElem?, Array.getElem?_eq_getElem hi, Array.getElem?_eq_getElem hp']

theorem offsOf_get (c : Ctx) (ab : AB) {i : Nat} (hi : i < c.runs.size) : (offsOf c ab)[i]? = some (A ab i).toNat := by
  simp [offsOf, hi]

theorem sum_offs_cast (ab : AB) : ∀ (is : List Nat), (∀ i ∈ is, 0 ≤ A ab i) →
    (((is.map (fun i => (A ab i).toNat)).sum : Nat) : Int) = sumA ab is
  | [], _ => rfl
  | i :: is, h => by
    have := h i List.mem_cons_self
    have ih := sum_offs_cast ab is (fun j hj => h j (List.mem_cons_of_mem _ hj))
    simp only [List.map_cons, List.sum_cons, sumA]
    push_cast
    rw [ih]; omega

/-- **The invariant at stride 1 with the exact rank is the partition specification.** -/
theorem isPartition_of_inv {c : Ctx} (hg : Good c) {ab : AB} (hinv : Inv c .partition 0 ab) {rank : Nat}
    (hsum : sumA ab (List.range c.runs.size) = rank) : IsPartition c.lt (runsL c) rank (offsOf c ab) := by
  have hrl : (runsL c).length = c.runs.size := by simp [runsL]
  refine ⟨by simp [offsOf, runsL], ?_, ?_, ?_⟩
  · intro i r o hr ho
    obtain ⟨hi, _⟩ := runsL_get_inv c hr
    rw [runsL_get c hi] at hr; cases hr
    rw [offsOf_get c ab hi] at ho; cases ho
    have := (hinv.str i hi).2.1
    rw [lenAt_eq c hi] at this
    omega
  · have := sum_offs_cast ab (List.range c.runs.size) (fun i hi => (hinv.str i (List.mem_range.mp hi)).1)
    rw [hsum] at this
    unfold offsOf
    omega
  · intro i j ri rj oi oj hij hri hrj hoi hoj x hx y hy
    obtain ⟨hi, _⟩ := runsL_get_inv c hri
    obtain ⟨hj, _⟩ := runsL_get_inv c hrj
    rw [runsL_get c hi] at hri; cases hri
    rw [runsL_get c hj] at hrj; cases hrj
    rw [offsOf_get c ab hi] at hoi; cases hoi
    rw [offsOf_get c ab hj] at hoj; cases hoj
    obtain ⟨hi0, hi1, _, _⟩ := hinv.str i hi
    obtain ⟨hj0, hj1, _, hj3⟩ := hinv.str j hj
    rw [lenAt_eq c hi] at hi1
    rw [lenAt_eq c hj] at hj1
    rw [List.mem_take_iff_getElem] at hx
    obtain ⟨p, hp, rfl⟩ := hx
    rw [List.mem_drop_iff_getElem] at hy
    obtain ⟨q, hq, rfl⟩ := hy
    have hp1 : p < (A ab i).toNat := by omega
    have hp2 : p < c.runs[i].toList.length := by omega
    have hai : 0 < A ab i := by omega
    have hbj : B ab j < lenAt c j := by rw [hj3, lenAt_eq c hj]; omega
    have hv : Before c.lt (valAt c i (A ab i - 1)) i (valAt c j (B ab j)) j :=
      Before.of_le_ne (hinv.valid i j hi hj hij hai hbj) hij
    -- the edge samples as list elements
    have e1 : valAt c i (A ab i - 1) = c.runs[i].toList[(A ab i).toNat - 1]'(by omega) := by
      have : A ab i - 1 = (((A ab i).toNat - 1 : Nat) : Int) := by omega
      rw [this]; exact valAt_eq c hi (by omega)
    have e2 : valAt c j (B ab j) = c.runs[j].toList[(A ab j).toNat]'(by omega) := by
      have : B ab j = (((A ab j).toNat : Nat) : Int) := by rw [hj3]; omega
      rw [this]; exact valAt_eq c hj (by omega)
    have e3 : c.runs[i].toList[p] = valAt c i (p : Int) := (valAt_eq c hi hp2).symm
    have e4 : c.runs[j].toList[(A ab j).toNat + q] = valAt c j (((A ab j).toNat + q : Nat) : Int) :=
      (valAt_eq c hj (by omega)).symm
    rw [e3, e4]
    refine before_of_edges hg.hlt ?_ ?_ hv
    · exact hg.sorted i hi p (A ab i - 1) (by omega) (by omega) (by rw [lenAt_eq c hi]; omega)
    · rw [hj3]
      exact hg.sorted j hj (A ab j + (0 : Nat)) _ (by omega) (by omega) (by rw [lenAt_eq c hj]; omega)

/-! ### the theorem -/

theorem ends_partition (lt : Int → Int → Bool) (runs : List (List Int)) :
    IsPartition lt runs (runs.map List.length).sum (runs.map List.length) := by
  refine ⟨by simp, ?_, rfl, ?_⟩
  · intro i r o hr ho
    simp only [List.getElem?_map, hr, Option.map_some, Option.some.injEq] at ho
    omega
  · intro i j ri rj oi oj _ _ hrj _ hoj x _ y hy
    simp only [List.getElem?_map, hrj, Option.map_some, Option.some.injEq] at hoj
    subst hoj; simp at hy

/-- the result of the model, read as natural offsets -/
def natOffs (c : Ctx) (offs : Array Int) : List Nat := (List.range c.runs.size).map (fun i => (aget offs i).toNat)

theorem totalLen_runsL (c : Ctx) : ((runsL c).map List.length).sum = totalLen c := by
  unfold totalLen runsL
  rw [foldl_size_eq]
  simp [Function.comp_def]

theorem natOffs_seqlen (c : Ctx) : natOffs c (seqlenOf c) = (runsL c).map List.length := by
  apply List.ext_getElem?
  intro i
  by_cases hi : i < c.runs.size
  · simp only [natOffs, runsL, List.getElem?_map, List.getElem?_range hi, Option.map_some, aget_seqlenOf c hi,
      lenAt_eq c hi]
    simp [hi]
  · have h1 : (natOffs c (seqlenOf c)).length ≤ i := by simp [natOffs]; omega
    have h2 : ((runsL c).map List.length).length ≤ i := by simp [runsL]; omega
    rw [List.getElem?_eq_none_iff.mpr h1, List.getElem?_eq_none_iff.mpr h2]

/-- **Correctness of the refinement for all inputs** (the former OPEN items `msp_correct` and `msp_bounds`):
for non-empty sequences sorted w.r.t. a strict weak order and every rank `0 ≤ rank ≤ N`, the executable model of
`multisequence_partition` succeeds — every read stays inside its sequence, no `top()` of an empty priority
queue — and returns non-negative offsets that satisfy the partition specification. -/
theorem msp_correct {c : Ctx} (hg : Good c) {rank : Nat} (hr : rank ≤ totalLen c) :
    ∃ offs tr, runM (partitionM c rank) = .ok (offs, tr) ∧ offs.size = c.runs.size ∧
      (∀ i, i < c.runs.size → 0 ≤ aget offs i) ∧ IsPartition c.lt (runsL c) rank (natOffs c offs) := by
  by_cases heq : rank = totalLen c
  · subst heq
    refine ⟨seqlenOf c, #[], ?_, size_seqlenOf c, ?_, ?_⟩
    · simp [runM, partitionM, StateT.run, pure, StateT.pure, Except.pure]
    · intro i hi; rw [aget_seqlenOf c hi, lenAt_eq c hi]; omega
    · rw [natOffs_seqlen, ← totalLen_runsL]
      exact ends_partition c.lt (runsL c)
  · have hlt : rank < totalLen c := by omega
    have hm : 0 < c.runs.size := by
      refine Nat.pos_of_ne_zero fun h0 => ?_
      have := totalLen_eq c
      rw [h0] at this
      simp [sumLen] at this
      omega
    have hspec : Spec (partitionM c rank) (fun offs => offs.size = c.runs.size ∧
        (∀ i, i < c.runs.size → 0 ≤ aget offs i) ∧ IsPartition c.lt (runsL c) rank (natOffs c offs)) := by
      unfold partitionM
      have h1 : ¬ (rank == totalLen c) = true := by simpa using heq
      have h2 : ¬ (c.runs.size == 0 || decide (rank > totalLen c)) = true := by
        simp only [Bool.or_eq_true, beq_iff_eq, decide_eq_true_eq, not_or]; omega
      rw [if_neg h1, if_neg h2]
      refine Spec.bind (refine_spec hg .partition hm hlt) ?_
      intro o ⟨hs, hinv, hsum⟩
      refine Spec.bind (edges_spec .partition hs (fun i hi => by
        obtain ⟨h0, h1, _, h3⟩ := hinv.str i hi
        simp only [A, B] at h0 h1 h3
        exact ⟨h0, h1, by omega⟩) (List.range c.runs.size) none none (fun i hi => List.mem_range.mp hi)) ?_
      intro _ _
      refine Spec.pure ⟨hinv.sa, fun i hi => (hinv.str i hi).1, ?_⟩
      exact isPartition_of_inv hg hinv hsum
    obtain ⟨offs, tr, hrun, hP⟩ := hspec #[]
    exact ⟨offs, tr, hrun, hP⟩

/-! ### list-level interface -/

/-- the context of the model for sequences given as lists of keys -/
def ctxOf (lt : Int → Int → Bool) (runs : List (List Int)) : Ctx :=
  { lt := lt, runs := (runs.map List.toArray).toArray }

theorem runsL_ctxOf (lt : Int → Int → Bool) (runs : List (List Int)) : runsL (ctxOf lt runs) = runs := by
  simp [runsL, ctxOf, Function.comp_def]

theorem good_ctxOf {lt : Int → Int → Bool} (hlt : StrictWeak lt) {runs : List (List Int)}
    (hne : ∀ r ∈ runs, r ≠ []) (hs : ∀ r ∈ runs, SortedRun lt r) : Good (ctxOf lt runs) := by
  have hsz : (ctxOf lt runs).runs.size = runs.length := by simp [ctxOf]
  have hget : ∀ i (hi : i < (ctxOf lt runs).runs.size), (ctxOf lt runs).runs[i].toList = runs[i]'(by rw [← hsz]; exact hi) := by
    intro i hi; simp [ctxOf]
  refine ⟨hlt, ?_, ?_⟩
  · intro i hi
    rw [lenAt_eq _ hi, hget i hi]
    have := hne _ (List.getElem_mem (by rw [← hsz]; exact hi))
    have := List.length_pos_iff.mpr this
    omega
  · intro i hi p q h0 hpq hq
    rw [lenAt_eq _ hi] at hq
    have hsr := hs _ (List.getElem_mem (by rw [← hsz]; exact hi : i < runs.length))
    rw [← hget i hi] at hsr
    have hqn : q.toNat < (ctxOf lt runs).runs[i].toList.length := by omega
    have hpn : p.toNat < (ctxOf lt runs).runs[i].toList.length := by omega
    have e1 : valAt (ctxOf lt runs) i q = (ctxOf lt runs).runs[i].toList[q.toNat] := by
      have h := valAt_eq (ctxOf lt runs) hi hqn
      have : ((q.toNat : Nat) : Int) = q := by omega
      rw [this] at h; exact h
    have e2 : valAt (ctxOf lt runs) i p = (ctxOf lt runs).runs[i].toList[p.toNat] := by
      have h := valAt_eq (ctxOf lt runs) hi hpn
      have : ((p.toNat : Nat) : Int) = p := by omega
      rw [this] at h; exact h
    rw [e1, e2]
    by_cases hpq' : p.toNat = q.toNat
    · simp only [hpq']; exact hlt.irrefl _
    · exact (List.pairwise_iff_getElem.mp hsr) p.toNat q.toNat hpn hqn (by omega)

theorem toList_map_toNat_eq_natOffs (c : Ctx) (o : Array Int) (h : o.size = c.runs.size) :
    o.toList.map Int.toNat = natOffs c o := by
  apply List.ext_getElem?
  intro i
  by_cases hi : i < c.runs.size
  · have hio : i < o.size := by omega
    simp only [natOffs, List.getElem?_map, List.getElem?_range hi, Option.map_some, aget,
      Array.getD_eq_getD_getElem?]
    simp [hio]
  · have h1 : (o.toList.map Int.toNat).length ≤ i := by simp; omega
    have h2 : (natOffs c o).length ≤ i := by simp [natOffs]; omega
    rw [List.getElem?_eq_none_iff.mpr h1, List.getElem?_eq_none_iff.mpr h2]

/-- **multisequence_partition (model) is correct, list-level statement.** -/
theorem msp_correct_lists {lt : Int → Int → Bool} (hlt : StrictWeak lt) {runs : List (List Int)}
    (hne : ∀ r ∈ runs, r ≠ []) (hs : ∀ r ∈ runs, SortedRun lt r) {rank : Nat}
    (hr : rank ≤ (runs.map List.length).sum) :
    ∃ offs tr, runM (partitionM (ctxOf lt runs) rank) = .ok (offs, tr) ∧
      offs.toList.all (fun x => decide (0 ≤ x)) = true ∧
      IsPartition lt runs rank (offs.toList.map Int.toNat) := by
  have hg := good_ctxOf hlt hne hs
  have htl : totalLen (ctxOf lt runs) = (runs.map List.length).sum := by
    rw [← totalLen_runsL, runsL_ctxOf]
  obtain ⟨offs, tr, hrun, hsz, hnn, hp⟩ := msp_correct hg (rank := rank) (by rw [htl]; exact hr)
  refine ⟨offs, tr, hrun, ?_, ?_⟩
  · rw [List.all_eq_true]
    intro x hx
    obtain ⟨i, hi, rfl⟩ := List.getElem_of_mem hx
    have hi' : i < (ctxOf lt runs).runs.size := by simpa [hsz] using hi
    have := hnn i hi'
    simp only [aget, Array.getD_eq_getD_getElem?] at this
    simpa [Array.getElem?_eq_getElem (by simpa using hi : i < offs.size)] using this
  · rw [toList_map_toNat_eq_natOffs _ _ hsz]
    have := hp
    rw [runsL_ctxOf] at this
    exact this

end TlxVerif.C08
