/-
C03 — what the LCP stores of an 8-bit radix step (`stepLcp8`: the fill of bucket 0 and the border
loop, radix_sort.hpp:83-105 after the D23 fix) do to the per-bucket sub-arrays: bucket 0 is
filled with `depth` behind its entry 0, and every non-empty bucket that has a non-empty
predecessor gets `depth` at its entry 0.  Nothing else is needed from the step.
-/
import TlxVerif.Proofs.C03Assemble
namespace TlxVerif.C03

/-! ### splitBy -/

theorem splitBy_length {β : Type} (sizes : List Nat) (l : List β) : (splitBy sizes l).length = sizes.length := by
  induction sizes generalizing l with
  | nil => simp [splitBy]
  | cons s rest ih => simp [splitBy, ih]

theorem splitBy_flatten {β : Type} (sizes : List Nat) (l : List β) (h : l.length ≤ sizes.sum) :
    (splitBy sizes l).flatten = l := by
  induction sizes generalizing l with
  | nil =>
    have : l = [] := by simpa using h
    simp [splitBy, this]
  | cons s rest ih =>
    simp only [splitBy, List.flatten_cons]
    rw [ih (l.drop s) (by simp at h ⊢; omega)]
    exact List.take_append_drop s l

/-! ### the border loop in relative form -/

/-- `borderGo` seen from the start of the remaining range: behind every non-empty bucket the
first entry of the rest is set, unless nothing is left -/
def relBorders (d : Nat) : List Nat → List Nat → List Nat
  | [], l => l
  | s :: rest, l =>
    if s = 0 then relBorders d rest l
    else if l.length ≤ s then l
    else l.take s ++ relBorders d rest ((l.drop s).set 0 d)

theorem relBorders_length (d : Nat) (sizes : List Nat) (l : List Nat) :
    (relBorders d sizes l).length = l.length := by
  induction sizes generalizing l with
  | nil => simp [relBorders]
  | cons s rest ih =>
    simp only [relBorders]
    split
    · exact ih l
    · split
      · rfl
      · simp [ih]; omega

theorem relBorders_nil (d : Nat) (sizes : List Nat) : relBorders d sizes [] = [] := by
  have := relBorders_length d sizes []
  simpa using this

theorem setAll_append (l : List Nat) (p q : List Nat) (v : Nat) :
    setAll l (p ++ q) v = setAll (setAll l p v) q v := by
  simp [setAll, List.foldl_append]

theorem setAll_length (l : List Nat) (ps : List Nat) (v : Nat) : (setAll l ps v).length = l.length := by
  induction ps generalizing l with
  | nil => simp [setAll]
  | cons p ps ih =>
    simp only [setAll, List.foldl_cons] at ih ⊢
    rw [ih]; simp

theorem borderGo_rel (d size : Nat) (rest : List Nat) (pre l : List Nat)
    (hs : size = pre.length + l.length) :
    setAll (pre ++ l) (borderGo size rest pre.length) d = pre ++ relBorders d rest l := by
  induction rest generalizing pre l with
  | nil => simp [borderGo, setAll, relBorders]
  | cons s rest ih =>
    simp only [borderGo, relBorders]
    split
    · exact ih pre l hs
    · rename_i hs0
      by_cases hge : pre.length + s ≥ size
      · have : l.length ≤ s := by omega
        simp [hge, this, setAll]
      · have hlt : ¬ l.length ≤ s := by omega
        simp only [hge, if_false, hlt]
        simp only [setAll, List.foldl_cons]
        have e1 : (pre ++ l).set (pre.length + s) d = (pre ++ l.take s) ++ (l.drop s).set 0 d := by
          rw [List.set_append_right _ _ (by omega)]
          rw [List.append_assoc]
          congr 1
          have : pre.length + s - pre.length = s := by omega
          rw [this]
          conv => lhs; rw [← List.take_append_drop s l]
          rw [List.set_append_right _ _ (by simp; omega)]
          simp
          congr 1
          omega
        rw [e1]
        have e2 : pre.length + s = (pre ++ l.take s).length := by simp; omega
        rw [e2]
        have := ih (pre ++ l.take s) ((l.drop s).set 0 d) (by simp; omega)
        simp only [setAll] at this
        rw [this]
        simp

/-! ### marked heads -/

/-- every non-empty chunk that comes after a non-empty one starts with `d` -/
def HeadsMarked (d : Nat) : Bool → List Nat → List (List Nat) → Prop
  | _, [], [] => True
  | seen, s :: ss, c :: cs => (s ≠ 0 → seen = true → c.head? = some d) ∧ HeadsMarked d (seen || decide (s ≠ 0)) ss cs
  | _, _, _ => False

theorem relBorders_marked (d : Nat) (rest : List Nat) (l : List Nat) (seen : Bool)
    (hl : l.length = rest.sum) (hh : seen = true → l ≠ [] → l.head? = some d) :
    HeadsMarked d seen rest (splitBy rest (relBorders d rest l)) := by
  induction rest generalizing l seen with
  | nil => simp [splitBy, HeadsMarked]
  | cons s rest ih =>
    simp only [relBorders]
    split
    · rename_i hs0
      subst hs0
      simp only [splitBy, List.take_zero, List.drop_zero, HeadsMarked]
      refine ⟨by simp, ?_⟩
      simp only [ne_eq, not_true_eq_false, decide_false, Bool.or_false]
      exact ih l seen (by simpa using hl) hh
    · rename_i hs0
      simp only [List.sum_cons] at hl
      split
      · rename_i hle
        have hls : l.length = s := by omega
        have hrs : rest.sum = 0 := by omega
        simp only [splitBy, HeadsMarked]
        have ht : l.take s = l := List.take_of_length_le (by omega)
        have hd : l.drop s = [] := List.drop_of_length_le (by omega)
        rw [ht, hd]
        refine ⟨fun _ hs => hh hs (by intro e; subst e; simp at hls; omega), ?_⟩
        have := ih [] (seen || decide (s ≠ 0)) (by simpa using hrs.symm) (by simp)
        rw [relBorders_nil] at this
        exact this
      · rename_i hle
        simp only [splitBy, HeadsMarked]
        have hts : (l.take s).length = s := by rw [List.length_take]; omega
        have ht : (l.take s ++ relBorders d rest ((l.drop s).set 0 d)).take s = l.take s :=
          List.take_left' hts
        have hd : (l.take s ++ relBorders d rest ((l.drop s).set 0 d)).drop s
            = relBorders d rest ((l.drop s).set 0 d) := List.drop_left' hts
        rw [ht, hd]
        refine ⟨fun _ hs => ?_, ?_⟩
        · have := hh hs (by intro e; subst e; simp at hle)
          cases l with
          | nil => simp at hle
          | cons a as =>
            cases s with
            | zero => exact absurd rfl hs0
            | succ s => simpa using this
        · have hs1 : (seen || decide (s ≠ 0)) = true := by simp [hs0]
          rw [hs1]
          apply ih
          · simp; omega
          · intro _ hne
            cases hds : l.drop s with
            | nil => simp [hds] at hne
            | cons a as => simp

/-! ### the whole step -/

theorem setRange_length (l : List Nat) (lo hi v : Nat) : (setRange l lo hi v).length = l.length := by
  simp [setRange]

theorem setRange_getElem? (l : List Nat) (lo hi v i : Nat) :
    (setRange l lo hi v)[i]? = if lo ≤ i ∧ i < hi then (l[i]?).map (fun _ => v) else l[i]? := by
  simp only [setRange, List.getElem?_mapIdx]
  split <;> cases l[i]? <;> simp [*]

/-- the filled bucket 0: entry 0 kept, `depth` behind it -/
theorem setRange_take (l : List Nat) (s d : Nat) (hs : s ≤ l.length) :
    (setRange l 1 s d).take s = (l.take s).take 1 ++ List.replicate (s - 1) d := by
  apply List.ext_getElem?
  intro i
  rw [List.getElem?_take]
  split
  · rename_i hi
    rw [setRange_getElem?]
    by_cases h0 : i = 0
    · subst h0
      cases l with
      | nil => simp at hs; omega
      | cons a as =>
        cases s with
        | zero => omega
        | succ s => simp
    · have h1 : 1 ≤ i ∧ i < s := by omega
      simp only [h1, and_self, if_true]
      have hlt : ((l.take s).take 1).length = 1 := by
        simp only [List.length_take]; omega
      rw [List.getElem?_append_right (by omega), hlt]
      have hli : i < l.length := by omega
      rw [List.getElem?_eq_getElem hli, List.getElem?_replicate]
      have : i - 1 < s - 1 := by omega
      simp [this]
  · rename_i hi
    symm
    apply List.getElem?_eq_none
    simp only [List.length_append, List.length_take, List.length_replicate]
    omega

theorem setRange_drop (l : List Nat) (s d : Nat) : (setRange l 1 s d).drop s = l.drop s := by
  apply List.ext_getElem?
  intro i
  rw [List.getElem?_drop, List.getElem?_drop, setRange_getElem?]
  have : ¬ (1 ≤ s + i ∧ s + i < s) := by omega
  simp [this]

theorem setRange_take_one (l : List Nat) (s d : Nat) : (setRange l 1 s d).take 1 = l.take 1 := by
  apply List.ext_getElem?
  intro i
  rw [List.getElem?_take, List.getElem?_take]
  split
  · rename_i hi
    have : i = 0 := by omega
    subst this
    rw [setRange_getElem?]; simp
  · rfl

theorem stepLcp8_cons (s0 : Nat) (rest : List Nat) (size d : Nat) (l : List Nat) :
    stepLcp8 (s0 :: rest) size d l
      = setAll (setAll (setRange l 1 s0 d) (if 0 < s0 ∧ s0 < size then [s0] else []) d)
          (borderGo size rest s0) d := by
  simp [stepLcp8, borderPositions, setAll_append]

/-- the result of `stepLcp8` cut at the bucket boundaries -/
theorem stepLcp8_chunks (s0 : Nat) (rest : List Nat) (d : Nat) (l : List Nat)
    (hl : l.length = (s0 :: rest).sum) :
    ∃ tail, splitBy (s0 :: rest) (stepLcp8 (s0 :: rest) l.length d l)
        = ((l.take s0).take 1 ++ List.replicate (s0 - 1) d) :: tail ∧
      HeadsMarked d (decide (s0 ≠ 0)) rest tail ∧
      (stepLcp8 (s0 :: rest) l.length d l).length = l.length ∧
      (stepLcp8 (s0 :: rest) l.length d l).take 1 = l.take 1 := by
  simp only [List.sum_cons] at hl
  have hs0 : s0 ≤ l.length := by omega
  generalize hpre' : (l.take s0).take 1 ++ List.replicate (s0 - 1) d = pre
  have hpre : pre.length = s0 := by
    rw [← hpre']
    simp only [List.length_append, List.length_take, List.length_replicate]
    omega
  -- the array after the fill of bucket 0, as prefix ++ suffix
  have hl0 : setRange l 1 s0 d = pre ++ l.drop s0 := by
    conv => lhs; rw [← List.take_append_drop s0 (setRange l 1 s0 d)]
    rw [setRange_take l s0 d hs0, setRange_drop, hpre']
  -- the optional first border store and the loop
  generalize hl' : (if 0 < s0 ∧ s0 < l.length then (l.drop s0).set 0 d else l.drop s0) = l'
  have hl'len : l'.length = rest.sum := by
    rw [← hl']
    split <;> simp <;> omega
  have hfirst : setAll (pre ++ l.drop s0) (if 0 < s0 ∧ s0 < l.length then [s0] else []) d = pre ++ l' := by
    rw [← hl']
    by_cases hc : 0 < s0 ∧ s0 < l.length
    · simp only [hc, and_self, if_true, setAll, List.foldl_cons, List.foldl_nil]
      rw [List.set_append_right _ _ (by omega)]
      congr 2
      omega
    · simp only [hc, if_false, setAll, List.foldl_nil]
  have hstep : stepLcp8 (s0 :: rest) l.length d l = pre ++ relBorders d rest l' := by
    rw [stepLcp8_cons, hl0, hfirst]
    have := borderGo_rel d l.length rest pre l' (by omega)
    rw [hpre] at this
    exact this
  refine ⟨splitBy rest (relBorders d rest l'), ?_, ?_, ?_, ?_⟩
  · rw [hstep]
    simp only [splitBy]
    rw [List.take_left' hpre, List.drop_left' hpre]
  · apply relBorders_marked d rest l' _ hl'len
    intro hseen hne
    have hs0' : s0 ≠ 0 := by simpa using hseen
    have hlen : l'.length ≠ 0 := by
      intro e; exact hne (List.eq_nil_of_length_eq_zero e)
    have hc : 0 < s0 ∧ s0 < l.length := ⟨by omega, by omega⟩
    rw [← hl']
    simp only [hc, and_self, if_true]
    cases hds : l.drop s0 with
    | nil =>
      have : (l.drop s0).length = 0 := by rw [hds]; rfl
      simp at this; omega
    | cons a as => simp
  · rw [hstep]
    simp only [List.length_append, relBorders_length]
    omega
  · rw [hstep]
    cases hl1 : l with
    | nil =>
      subst hl1
      have h1 : pre = [] := List.eq_nil_of_length_eq_zero (by simp at hl; omega)
      have h2 : l' = [] := List.eq_nil_of_length_eq_zero (by simp at hl; omega)
      simp [h1, h2, relBorders_nil]
    | cons a as =>
      subst hl1
      cases s0 with
      | zero =>
        have h1 : pre = [] := List.eq_nil_of_length_eq_zero hpre
        subst h1
        have hc : ¬ (0 < 0 ∧ 0 < (a :: as).length) := by omega
        simp only [hc, if_false, List.drop_zero] at hl'
        subst hl'
        simp only [List.nil_append]
        -- the first entry survives the loop
        have : ∀ (sizes l : List Nat) , (relBorders d sizes l).take 1 = l.take 1 := by
          intro sizes
          induction sizes with
          | nil => intro l; simp [relBorders]
          | cons s ss ih =>
            intro l
            simp only [relBorders]
            split
            · exact ih l
            · split
              · rfl
              · rename_i h1 h2
                cases l with
                | nil => simp at h2
                | cons x xs =>
                  cases s with
                  | zero => exact absurd rfl h1
                  | succ s => simp
        exact this rest _
      | succ s0 =>
        rw [← hpre']
        simp

end TlxVerif.C03
