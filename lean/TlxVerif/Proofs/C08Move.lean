/-
C08 — Hoare specifications of the two priority-queue corrections of a round.
-/
import TlxVerif.Proofs.C08Scan
namespace TlxVerif.C08

/-- the min-queue of the `skew > 0` branch holds exactly the first right samples inside their sequences -/
def PQR (c : Ctx) (ab : AB) (is : List Nat) (pq : List Sample) : Prop :=
  (pq.map (·.2)).Sublist is ∧
  ∀ v j, (v, j) ∈ pq ↔ (j ∈ is ∧ B ab j < lenAt c j ∧ v = valAt c j (B ab j))

/-- the max-queue of the `skew < 0` branch holds exactly the last left samples -/
def PQL (c : Ctx) (ab : AB) (is : List Nat) (pq : List Sample) : Prop :=
  (pq.map (·.2)).Sublist is ∧
  ∀ v j, (v, j) ∈ pq ↔ (j ∈ is ∧ 0 < A ab j ∧ v = valAt c j (A ab j - 1))

theorem pqRight_spec {c : Ctx} {ab : AB} (h0 : ∀ i, i < c.runs.size → 0 ≤ B ab i) :
    ∀ (is : List Nat), (∀ i ∈ is, i < c.runs.size) →
      Spec (pqRight c (seqlenOf c) ab.b is) (PQR c ab is)
  | [], _ => by
    rw [pqRight]
    exact Spec.pure ⟨by simp, by simp⟩
  | i :: is, hlt_m => by
    have hi : i < c.runs.size := hlt_m i List.mem_cons_self
    have ih := pqRight_spec h0 is (fun j hj => hlt_m j (List.mem_cons_of_mem _ hj))
    rw [pqRight, aget_seqlenOf c hi]
    by_cases hb : aget ab.b i < lenAt c i
    · rw [if_pos hb]
      refine Spec.bind (Spec.rd c hi (h0 i hi) hb) ?_
      intro v hv
      subst hv
      refine Spec.bind ih ?_
      intro rest ⟨hsub, hmem⟩
      refine Spec.pure ⟨?_, ?_⟩
      · simpa using List.Sublist.cons_cons i hsub
      · intro v j
        simp only [List.mem_cons, Prod.mk.injEq, hmem]
        constructor
        · rintro (⟨rfl, rfl⟩ | ⟨hj, h1, h2⟩)
          · exact ⟨Or.inl rfl, hb, rfl⟩
          · exact ⟨Or.inr hj, h1, h2⟩
        · rintro ⟨hj | hj, h1, h2⟩
          · subst hj; exact Or.inl ⟨h2, rfl⟩
          · exact Or.inr ⟨hj, h1, h2⟩
    · rw [if_neg hb]
      refine Spec.mono ih ?_
      intro rest ⟨hsub, hmem⟩
      refine ⟨List.Sublist.cons i hsub, ?_⟩
      intro v j
      rw [hmem]
      constructor
      · rintro ⟨hj, h1, h2⟩; exact ⟨List.mem_cons_of_mem _ hj, h1, h2⟩
      · rintro ⟨hj, h1, h2⟩
        rcases List.mem_cons.mp hj with hj | hj
        · subst hj; exact (hb h1).elim
        · exact ⟨hj, h1, h2⟩

theorem pqLeft_spec {c : Ctx} {ab : AB} (h1 : ∀ i, i < c.runs.size → A ab i ≤ lenAt c i) :
    ∀ (is : List Nat), (∀ i ∈ is, i < c.runs.size) →
      Spec (pqLeft c ab.a is) (PQL c ab is)
  | [], _ => by
    rw [pqLeft]
    exact Spec.pure ⟨by simp, by simp⟩
  | i :: is, hlt_m => by
    have hi : i < c.runs.size := hlt_m i List.mem_cons_self
    have ih := pqLeft_spec h1 is (fun j hj => hlt_m j (List.mem_cons_of_mem _ hj))
    rw [pqLeft]
    by_cases hb : aget ab.a i > 0
    · rw [if_pos hb]
      refine Spec.bind (Spec.rd c hi (by omega) (by have := h1 i hi; simp only [A] at this; omega)) ?_
      intro v hv
      subst hv
      refine Spec.bind ih ?_
      intro rest ⟨hsub, hmem⟩
      refine Spec.pure ⟨?_, ?_⟩
      · simpa using List.Sublist.cons_cons i hsub
      · intro v j
        simp only [List.mem_cons, Prod.mk.injEq, hmem]
        constructor
        · rintro (⟨rfl, rfl⟩ | ⟨hj, h1, h2⟩)
          · exact ⟨Or.inl rfl, hb, rfl⟩
          · exact ⟨Or.inr hj, h1, h2⟩
        · rintro ⟨hj | hj, h1, h2⟩
          · subst hj; exact Or.inl ⟨h2, rfl⟩
          · exact Or.inr ⟨hj, h1, h2⟩
    · rw [if_neg hb]
      refine Spec.mono ih ?_
      intro rest ⟨hsub, hmem⟩
      refine ⟨List.Sublist.cons i hsub, ?_⟩
      intro v j
      rw [hmem]
      constructor
      · rintro ⟨hj, h1, h2⟩; exact ⟨List.mem_cons_of_mem _ hj, h1, h2⟩
      · rintro ⟨hj, h1, h2⟩
        rcases List.mem_cons.mp hj with hj | hj
        · subst hj; exact (hb h1).elim
        · exact ⟨hj, h1, h2⟩

/-! ### the queues during the correction loops -/

def PQR' (c : Ctx) (ab : AB) (pq : List Sample) : Prop :=
  (pq.map (·.2)).Nodup ∧
  ∀ v j, (v, j) ∈ pq ↔ (j < c.runs.size ∧ B ab j < lenAt c j ∧ v = valAt c j (B ab j))

def PQL' (c : Ctx) (ab : AB) (pq : List Sample) : Prop :=
  (pq.map (·.2)).Nodup ∧
  ∀ v j, (v, j) ∈ pq ↔ (j < c.runs.size ∧ 0 < A ab j ∧ v = valAt c j (A ab j - 1))

theorem PQR.toLoop {c : Ctx} {ab : AB} {pq : List Sample} (h : PQR c ab (List.range c.runs.size) pq) : PQR' c ab pq :=
  ⟨List.Nodup.sublist h.1 List.nodup_range, fun v j => by rw [h.2, List.mem_range]⟩

theorem PQL.toLoop {c : Ctx} {ab : AB} {pq : List Sample} (h : PQL c ab (List.range c.runs.size) pq) : PQL' c ab pq :=
  ⟨List.Nodup.sublist h.1 List.nodup_range, fun v j => by rw [h.2, List.mem_range]⟩

theorem mem_removeSeq {s : Nat} {pq : List Sample} {p : Sample} : p ∈ removeSeq s pq ↔ p ∈ pq ∧ p.2 ≠ s := by
  simp [removeSeq]

theorem nodup_removeSeq {s : Nat} {pq : List Sample} (h : (pq.map (·.2)).Nodup) :
    ((removeSeq s pq).map (·.2)).Nodup ∧ s ∉ (removeSeq s pq).map (·.2) := by
  constructor
  · exact List.Nodup.sublist (List.Sublist.map _ (List.filter_sublist)) h
  · intro hm
    obtain ⟨p, hp, he⟩ := List.mem_map.mp hm
    exact (mem_removeSeq.mp hp).2 he

/-- the number of samples in the left parts -/
def Lsz (c : Ctx) (n : Nat) (ab : AB) : Int := leftsizeOf ab.a n (List.range c.runs.size)

theorem lsz_step {c : Ctx} {n : Nat} {ab ab' : AB} {src : Nat} (hsrc : src < c.runs.size)
    (hoth : ∀ i, i < c.runs.size → i ≠ src → A ab' i = A ab i) (δ : Int)
    (hδ : (A ab' src).tdiv ((n : Int) + 1) = (A ab src).tdiv ((n : Int) + 1) + δ) :
    Lsz c n ab' = Lsz c n ab + δ := by
  unfold Lsz
  rw [leftsize_change ab.a ab'.a n src (List.range c.runs.size) List.nodup_range
    (fun i hi hne => hoth i (List.mem_range.mp hi) hne), if_pos (List.mem_range.mpr hsrc)]
  simp only [A] at hδ
  omega

theorem moveLeftLoop_spec {c : Ctx} (hg : Good c) (r : Routine) (n : Nat) :
    ∀ (skew : Nat) (pq : List Sample) (ab : AB), Inv c r n ab → PQR' c ab pq →
      Spec (moveLeftLoop c (seqlenOf c) n skew pq ab) (fun ab' => Inv c r n ab' ∧
        ∃ k : Nat, k ≤ skew ∧ Lsz c n ab' = Lsz c n ab + k ∧
          (k = skew ∨ ∀ j, j < c.runs.size → lenAt c j ≤ B ab' j))
  | 0, pq, ab, hinv, _ => by
    rw [moveLeftLoop]
    exact Spec.pure ⟨hinv, 0, Nat.le_refl _, by simp, Or.inl rfl⟩
  | skew + 1, pq, ab, hinv, hpq => by
    rw [moveLeftLoop]
    rcases pickMin_spec hg.hlt hpq.1 with ⟨hnil, hnone⟩ | ⟨mn, hsome, hmem, hmin⟩
    · rw [hnone]
      refine Spec.pure ⟨hinv, 0, Nat.zero_le _, by simp, Or.inr ?_⟩
      intro j hj
      refine Classical.byContradiction fun hc => ?_
      have : (valAt c j (B ab j), j) ∈ pq := (hpq.2 _ _).mpr ⟨hj, by omega, rfl⟩
      rw [hnil] at this; cases this
    · obtain ⟨v, src⟩ := mn
      rw [hsome]
      simp only []
      obtain ⟨hsrc, hbs, hv⟩ := (hpq.2 v src).mp hmem
      obtain ⟨hs0, hs1, hs2, hs3⟩ := hinv.str src hsrc
      simp only [A, B] at hs0 hs1 hs2 hs3 hbs
      have hsl : aget (seqlenOf c) src = lenAt c src := aget_seqlenOf c hsrc
      have hminv : min (aget ab.a src + ↑n + 1) (aget (seqlenOf c) src) = aget ab.a src + n + 1 := by
        rw [hsl]; omega
      rw [hminv, hsl]
      -- the state after the move
      generalize hab1 : (⟨aset ab.a src (aget ab.a src + ↑n + 1), aset ab.b src (aget ab.b src + (↑n + 1))⟩ : AB) = ab1
      have hA : ∀ i, i < c.runs.size → A ab1 i = if i = src then A ab i + n + 1 else A ab i := by
        intro i hi
        subst hab1
        by_cases his : i = src
        · subst his; simp only [A, if_true]; exact aget_aset_eq _ (by rw [hinv.sa]; exact hi)
        · simp only [A, if_neg his]; exact aget_aset_ne _ (Ne.symm his)
      have hB : ∀ i, i < c.runs.size → B ab1 i = if i = src then B ab i + (n + 1) else B ab i := by
        intro i hi
        subst hab1
        by_cases his : i = src
        · subst his; simp only [B, if_true]; exact aget_aset_eq _ (by rw [hinv.sb]; exact hi)
        · simp only [B, if_neg his]; exact aget_aset_ne _ (Ne.symm his)
      have hsa1 : ab1.a.size = c.runs.size := by subst hab1; simp [size_aset, hinv.sa]
      have hsb1 : ab1.b.size = c.runs.size := by subst hab1; simp [size_aset, hinv.sb]
      have hmin' : ∀ j, j < c.runs.size → j ≠ src → B ab j < lenAt c j →
          LeR c.lt r (valAt c src (B ab src)) src (valAt c j (B ab j)) j := by
        intro j hj hjs hbj
        have hjm : (valAt c j (B ab j), j) ∈ pq := (hpq.2 _ _).mpr ⟨hj, hbj, rfl⟩
        have := hmin _ hjm (by simpa using hjs)
        rw [hv] at this
        exact LeR.of_before hg.hlt r ((lcomp_iff_before' _ _ _ _ _).mp this)
      have hinv1 : Inv c r n ab1 := moveLeft_inv hg hinv hsrc hbs hmin' hsa1 hsb1 hA hB
      have hL1 : Lsz c n ab1 = Lsz c n ab + 1 := by
        refine lsz_step hsrc (fun i hi hne => by rw [hA i hi, if_neg hne]) 1 ?_
        rw [hA src hsrc, if_pos rfl]
        exact tdiv_of_dvd (by omega) hs2 _ (by simp only [A]; omega)
      rw [aget_aset_eq _ (by rw [hinv.sb]; exact hsrc)]
      have hrm := nodup_removeSeq (s := src) hpq.1
      -- continuation with the new queue
      have hcont : ∀ pq', PQR' c ab1 pq' →
          Spec (moveLeftLoop c (seqlenOf c) n skew pq' ab1) (fun ab' => Inv c r n ab' ∧
            ∃ k : Nat, k ≤ skew + 1 ∧ Lsz c n ab' = Lsz c n ab + k ∧
              (k = skew + 1 ∨ ∀ j, j < c.runs.size → lenAt c j ≤ B ab' j)) := by
        intro pq' hpq'
        refine Spec.mono (moveLeftLoop_spec hg r n skew pq' ab1 hinv1 hpq') ?_
        intro ab' ⟨hi', k, hk, hl, hor⟩
        refine ⟨hi', k + 1, by omega, by rw [hl, hL1]; push_cast; omega, ?_⟩
        rcases hor with h | h
        · exact Or.inl (by omega)
        · exact Or.inr h
      by_cases hnew : aget ab.b src + (↑n + 1) < lenAt c src
      · rw [if_pos hnew]
        refine Spec.bind (Spec.rd c hsrc (by omega) hnew) ?_
        intro v' hv'
        subst hv'
        apply hcont
        constructor
        · rw [List.map_append, List.nodup_append]
          refine ⟨hrm.1, by simp, ?_⟩
          intro x hx y hy
          simp at hy; subst hy
          intro e; subst e; exact hrm.2 hx
        · intro w j
          rw [List.mem_append, mem_removeSeq]
          by_cases hjs : j = src
          · subst hjs
            simp only [ne_eq, not_true_eq_false, and_false, List.mem_singleton, Prod.mk.injEq, and_true, false_or]
            rw [hB j hsrc, if_pos rfl]
            constructor
            · intro hw; exact ⟨hsrc, hnew, hw⟩
            · intro ⟨_, _, hw⟩; exact hw
          · rw [hpq.2]
            simp only [List.mem_singleton, Prod.mk.injEq]
            constructor
            · rintro (⟨⟨h1, h2, h3⟩, _⟩ | ⟨_, h⟩)
              · rw [hB j h1, if_neg hjs]; exact ⟨h1, h2, h3⟩
              · exact (hjs h).elim
            · rintro ⟨h1, h2, h3⟩
              rw [hB j h1, if_neg hjs] at h2 h3
              exact Or.inl ⟨⟨h1, h2, h3⟩, hjs⟩
      · rw [if_neg hnew]
        apply hcont
        refine ⟨hrm.1, ?_⟩
        intro w j
        rw [mem_removeSeq]
        by_cases hjs : j = src
        · subst hjs
          simp only [ne_eq, not_true_eq_false, and_false, false_iff]
          rw [hB j hsrc, if_pos rfl]
          intro ⟨_, h, _⟩; exact hnew h
        · rw [hpq.2]
          constructor
          · rintro ⟨⟨h1, h2, h3⟩, _⟩
            rw [hB j h1, if_neg hjs]; exact ⟨h1, h2, h3⟩
          · rintro ⟨h1, h2, h3⟩
            rw [hB j h1, if_neg hjs] at h2 h3
            exact ⟨⟨h1, h2, h3⟩, hjs⟩

theorem tdiv_sub_of_dvd {d x : Int} (hd : 0 < d) (h : d ∣ x) (y : Int) (hy : y = x - d) : y.tdiv d = x.tdiv d + -1 := by
  obtain ⟨k, rfl⟩ := h
  subst hy
  have : d * k - d = d * (k - 1) := by rw [Int.mul_sub, Int.mul_one]
  rw [this, Int.mul_tdiv_cancel_left _ (by omega), Int.mul_tdiv_cancel_left _ (by omega)]
  omega

theorem moveRightLoop_spec {c : Ctx} (hg : Good c) (r : Routine) (n : Nat) :
    ∀ (skew : Nat) (pq : List Sample) (ab : AB), Inv c r n ab → PQL' c ab pq → (skew : Int) ≤ Lsz c n ab →
      Spec (moveRightLoop c n skew pq ab) (fun ab' => Inv c r n ab' ∧ Lsz c n ab' = Lsz c n ab - skew)
  | 0, pq, ab, hinv, _, _ => by
    rw [moveRightLoop]
    exact Spec.pure ⟨hinv, by simp⟩
  | skew + 1, pq, ab, hinv, hpq, hle => by
    rw [moveRightLoop]
    -- the queue cannot be empty: the left parts hold at least one sample
    have hpos : 0 < Lsz c n ab := by push_cast at hle; omega
    obtain ⟨i0, hi0, hai0⟩ := exists_pos_of_leftsize_pos ab.a n (List.range c.runs.size)
      (fun i hi => (hinv.str i (List.mem_range.mp hi)).1) hpos
    have hne : pq ≠ [] := by
      intro hnil
      have : (valAt c i0 (A ab i0 - 1), i0) ∈ pq := (hpq.2 _ _).mpr ⟨List.mem_range.mp hi0, hai0, rfl⟩
      rw [hnil] at this; cases this
    rcases pickMax_spec hg.hlt hpq.1 with ⟨hnil, _⟩ | ⟨mx, hsome, hmem, hmax⟩
    · exact (hne hnil).elim
    · obtain ⟨v, src⟩ := mx
      rw [hsome]
      simp only []
      obtain ⟨hsrc, has, hv⟩ := (hpq.2 v src).mp hmem
      obtain ⟨hs0, hs1, hs2, hs3⟩ := hinv.str src hsrc
      simp only [A, B] at hs0 hs1 hs2 hs3 has
      have hge : (n : Int) + 1 ≤ aget ab.a src := Int.le_of_dvd has hs2
      generalize hab1 : (⟨aset ab.a src (aget ab.a src - (↑n + 1)), aset ab.b src (aget ab.b src - (↑n + 1))⟩ : AB) = ab1
      have hA : ∀ i, i < c.runs.size → A ab1 i = if i = src then A ab i - (n + 1) else A ab i := by
        intro i hi
        subst hab1
        by_cases his : i = src
        · subst his; simp only [A, if_true]; exact aget_aset_eq _ (by rw [hinv.sa]; exact hi)
        · simp only [A, if_neg his]; exact aget_aset_ne _ (Ne.symm his)
      have hB : ∀ i, i < c.runs.size → B ab1 i = if i = src then B ab i - (n + 1) else B ab i := by
        intro i hi
        subst hab1
        by_cases his : i = src
        · subst his; simp only [B, if_true]; exact aget_aset_eq _ (by rw [hinv.sb]; exact hi)
        · simp only [B, if_neg his]; exact aget_aset_ne _ (Ne.symm his)
      have hsa1 : ab1.a.size = c.runs.size := by subst hab1; simp [size_aset, hinv.sa]
      have hsb1 : ab1.b.size = c.runs.size := by subst hab1; simp [size_aset, hinv.sb]
      have hmax' : ∀ i, i < c.runs.size → i ≠ src → 0 < A ab i →
          LeR c.lt r (valAt c i (A ab i - 1)) i (valAt c src (A ab src - 1)) src := by
        intro i hi his hai
        have him : (valAt c i (A ab i - 1), i) ∈ pq := (hpq.2 _ _).mpr ⟨hi, hai, rfl⟩
        have := hmax _ him (by simpa using his)
        rw [hv] at this
        exact LeR.of_before hg.hlt r ((lcomp_iff_before' _ _ _ _ _).mp this)
      have hinv1 : Inv c r n ab1 := moveRight_inv hg hinv hsrc has hmax' hsa1 hsb1 hA hB
      have hL1 : Lsz c n ab1 = Lsz c n ab + -1 := by
        refine lsz_step hsrc (fun i hi hne => by rw [hA i hi, if_neg hne]) (-1) ?_
        rw [hA src hsrc, if_pos rfl]
        exact tdiv_sub_of_dvd (by omega) hs2 _ (by simp only [A])
      rw [aget_aset_eq _ (by rw [hinv.sa]; exact hsrc)]
      have hrm := nodup_removeSeq (s := src) hpq.1
      have hcont : ∀ pq', PQL' c ab1 pq' →
          Spec (moveRightLoop c n skew pq' ab1) (fun ab' => Inv c r n ab' ∧ Lsz c n ab' = Lsz c n ab - ((skew + 1 : Nat) : Int)) := by
        intro pq' hpq'
        refine Spec.mono (moveRightLoop_spec hg r n skew pq' ab1 hinv1 hpq' (by rw [hL1]; push_cast at hle; omega)) ?_
        intro ab' ⟨hi', hl⟩
        exact ⟨hi', by rw [hl, hL1]; push_cast; omega⟩
      by_cases hnew : aget ab.a src - (↑n + 1) > 0
      · rw [if_pos hnew]
        refine Spec.bind (Spec.rd c hsrc (by omega) (by omega)) ?_
        intro v' hv'
        subst hv'
        apply hcont
        constructor
        · rw [List.map_append, List.nodup_append]
          refine ⟨hrm.1, by simp, ?_⟩
          intro x hx y hy
          simp at hy; subst hy
          intro e; subst e; exact hrm.2 hx
        · intro w j
          rw [List.mem_append, mem_removeSeq]
          by_cases hjs : j = src
          · subst hjs
            simp only [ne_eq, not_true_eq_false, and_false, List.mem_singleton, Prod.mk.injEq, and_true, false_or]
            rw [hA j hsrc, if_pos rfl]
            constructor
            · intro hw; exact ⟨hsrc, hnew, hw⟩
            · intro ⟨_, _, hw⟩; exact hw
          · rw [hpq.2]
            simp only [List.mem_singleton, Prod.mk.injEq]
            constructor
            · rintro (⟨⟨h1, h2, h3⟩, _⟩ | ⟨_, h⟩)
              · rw [hA j h1, if_neg hjs]; exact ⟨h1, h2, h3⟩
              · exact (hjs h).elim
            · rintro ⟨h1, h2, h3⟩
              rw [hA j h1, if_neg hjs] at h2 h3
              exact Or.inl ⟨⟨h1, h2, h3⟩, hjs⟩
      · rw [if_neg hnew]
        apply hcont
        refine ⟨hrm.1, ?_⟩
        intro w j
        rw [mem_removeSeq]
        by_cases hjs : j = src
        · subst hjs
          simp only [ne_eq, not_true_eq_false, and_false, false_iff]
          rw [hA j hsrc, if_pos rfl]
          intro ⟨_, h, _⟩; exact hnew h
        · rw [hpq.2]
          constructor
          · rintro ⟨⟨h1, h2, h3⟩, _⟩
            rw [hA j h1, if_neg hjs]; exact ⟨h1, h2, h3⟩
          · rintro ⟨h1, h2, h3⟩
            rw [hA j h1, if_neg hjs] at h2 h3
            exact ⟨⟨h1, h2, h3⟩, hjs⟩

end TlxVerif.C08
