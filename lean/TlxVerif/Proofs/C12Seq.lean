import TlxVerif.Model.C12
/-!
Helper lemmas for Props/C12: a per-object balance `ObjBal s i d` that tolerates the transient
imbalance `d` between `inc_reference` / `dec_reference` and the update of `ptr_` inside one
CountingPtr operation.
-/
namespace TlxVerif.C12

/-- `1` if the handle entry points to object `i` -/
def dOf (e : Option Ptr) (i : Nat) : Int := if e = some (some i) then 1 else 0

/-- balance of object `i` with a transient surplus `d` of references over handles -/
def ObjBal (s : St) (i : Nat) (d : Int) : Prop :=
  match s.o[i]? with
  | none => (s.handlesTo i : Int) + d = 0
  | some ob =>
    (ob.dead = 0 ∧ (ob.rc : Int) = s.handlesTo i + d ∧ 0 < ob.rc) ∨
    (ob.dead = 1 ∧ ob.rc = 0 ∧ (s.handlesTo i : Int) + d = 0)

theorem handlesTo_setH (s : St) (k : Nat) (v : Option Ptr) (i : Nat) (hk : k < s.h.length) :
    ((s.setH k v).handlesTo i : Int) = s.handlesTo i - dOf s.h[k] i + dOf v i := by
  unfold St.handlesTo St.setH dOf
  simp only [List.count_set hk]
  have h1 : s.h[k] = some (some i) → 0 < s.h.count (some (some i)) := by
    intro h
    exact List.count_pos_iff.mpr (h ▸ List.getElem_mem hk)
  by_cases a : s.h[k] = some (some i)
  · have := h1 a
    by_cases b : v = some (some i) <;> simp [a, b] <;> omega
  · by_cases b : v = some (some i) <;> simp [a, b]

theorem objBal_setH (s : St) (k : Nat) (v : Option Ptr) (i : Nat) (d : Int) (hk : k < s.h.length)
    (h : ObjBal s i d) : ObjBal (s.setH k v) i (d + dOf s.h[k] i - dOf v i) := by
  have := handlesTo_setH s k v i hk
  unfold ObjBal at *
  have ho : (s.setH k v).o = s.o := rfl
  rw [ho]
  split <;> simp_all <;> omega


/-- the object-side update performed by `inc_reference` -/
def St.incObj (s : St) (p : Nat) (ob : Obj) : St := { s with o := s.o.set p { ob with rc := ob.rc + 1 } }

/-- the object-side update performed by `dec_reference` (+ `delete` when the count hits 0) -/
def St.decObj (s : St) (p : Nat) (ob : Obj) : St :=
  { s with o := s.o.set p (if ob.rc - 1 = 0 then { rc := 0, dead := ob.dead + 1 } else { ob with rc := ob.rc - 1 }) }

theorem incRef_some {s : St} {p : Nat} {ob : Obj} (h : s.o[p]? = some ob) (ha : ob.dead = 0) :
    incRef s (some p) = .ok (s.incObj p ob) := by
  simp [incRef, h, ha, St.incObj]
  rfl

theorem decRef_some {s : St} {p : Nat} {ob : Obj} (h : s.o[p]? = some ob) (ha : ob.dead = 0)
    (hr : 0 < ob.rc) : decRef s (some p) = .ok (s.decObj p ob) := by
  have : ob.rc ≠ 0 := by omega
  by_cases h0 : ob.rc - 1 = 0 <;> simp [decRef, h, ha, this, h0, St.decObj] <;> rfl

theorem objBal_incObj {s : St} {p : Nat} {ob : Obj} (h : s.o[p]? = some ob) (ha : ob.dead = 0)
    (i : Nat) (d : Int) (hb : ObjBal s i d) :
    ObjBal (s.incObj p ob) i (d + if i = p then 1 else 0) := by
  have hp : p < s.o.length := by
    rcases Nat.lt_or_ge p s.o.length with h' | h'
    · exact h'
    · simp [List.getElem?_eq_none h'] at h
  unfold ObjBal at *
  have hh : (s.incObj p ob).handlesTo i = s.handlesTo i := rfl
  rw [hh]
  simp only [St.incObj, List.getElem?_set]
  by_cases e : p = i
  · subst e
    simp only [hp, if_true, h] at hb ⊢
    simp at hb ⊢
    omega
  · have e' : ¬ i = p := fun x => e x.symm
    simp only [e, e', if_false, Int.add_zero]
    exact hb

theorem objBal_decObj {s : St} {p : Nat} {ob : Obj} (h : s.o[p]? = some ob) (ha : ob.dead = 0)
    (i : Nat) (d : Int) (hb : ObjBal s i d) :
    ObjBal (s.decObj p ob) i (d - if i = p then 1 else 0) := by
  have hp : p < s.o.length := by
    rcases Nat.lt_or_ge p s.o.length with h' | h'
    · exact h'
    · simp [List.getElem?_eq_none h'] at h
  unfold ObjBal at *
  have hh : (s.decObj p ob).handlesTo i = s.handlesTo i := rfl
  rw [hh]
  simp only [St.decObj, List.getElem?_set]
  by_cases e : p = i
  · subst e
    simp only [hp, if_true, h] at hb ⊢
    by_cases h0 : ob.rc - 1 = 0 <;> simp [h0] at hb ⊢ <;> omega
  · have e' : ¬ i = p := fun x => e x.symm
    simp only [e, e', if_false, Int.sub_zero]
    exact hb

/-- an object with a positive number of references (handles plus transient surplus) is alive -/
theorem alive_of_bal {s : St} {p : Nat} {d : Int} (hb : ObjBal s p d)
    (hh : 0 < (s.handlesTo p : Int) + d) : ∃ ob, s.o[p]? = some ob ∧ ob.dead = 0 ∧ 0 < ob.rc := by
  unfold ObjBal at hb
  split at hb
  · omega
  · next ob hob =>
    refine ⟨ob, hob, ?_⟩
    rcases hb with h | h <;> omega

theorem ptr?_some {s : St} {x : Nat} {p : Ptr} (h : s.ptr? x = some p) :
    ∃ hx : x < s.h.length, s.h[x] = some p := by
  unfold St.ptr? at h
  rcases Nat.lt_or_ge x s.h.length with hx | hx
  · refine ⟨hx, ?_⟩
    simp [List.getElem?_eq_getElem hx] at h
    exact h
  · simp [List.getElem?_eq_none hx] at h

theorem handles_pos_of_ptr {s : St} {x q : Nat} (h : s.ptr? x = some (some q)) : 0 < s.handlesTo q := by
  obtain ⟨hx, e⟩ := ptr?_some h
  exact List.count_pos_iff.mpr (e ▸ List.getElem_mem hx)


/-- all objects balanced, with transient surplus `d i` for object `i` -/
def Bal (s : St) (d : Nat → Int) : Prop := ∀ i, ObjBal s i (d i)

theorem Bal.congr {s : St} {d d' : Nat → Int} (h : Bal s d) (e : ∀ i, d i = d' i) : Bal s d' := by
  intro i; rw [← e i]; exact h i

theorem inc_ok {s : St} {d : Nat → Int} (q : Ptr) (hb : Bal s d)
    (hq : ∀ qq, q = some qq → 0 < (s.handlesTo qq : Int) + d qq) :
    ∃ s', incRef s q = .ok s' ∧ s'.h = s.h ∧ s'.o.length = s.o.length ∧
      Bal s' (fun i => d i + dOf (some q) i) := by
  cases q with
  | none =>
    refine ⟨s, rfl, rfl, rfl, ?_⟩
    exact hb.congr (by intro i; simp [dOf])
  | some qq =>
    obtain ⟨ob, hob, ha, _⟩ := alive_of_bal (hb qq) (hq qq rfl)
    refine ⟨s.incObj qq ob, incRef_some hob ha, rfl, by simp [St.incObj], ?_⟩
    intro i
    have := objBal_incObj hob ha i (d i) (hb i)
    have e : (if i = qq then (1 : Int) else 0) = dOf (some (some qq)) i := by
      unfold dOf; by_cases h : i = qq <;> simp [h]
      intro h'; exact h h'.symm
    rw [e] at this
    exact this

theorem dec_ok {s : St} {d : Nat → Int} (q : Ptr) (hb : Bal s d)
    (hq : ∀ qq, q = some qq → 0 < (s.handlesTo qq : Int) + d qq) :
    ∃ s', decRef s q = .ok s' ∧ s'.h = s.h ∧ s'.o.length = s.o.length ∧
      Bal s' (fun i => d i - dOf (some q) i) := by
  cases q with
  | none =>
    refine ⟨s, rfl, rfl, rfl, ?_⟩
    exact hb.congr (by intro i; simp [dOf])
  | some qq =>
    obtain ⟨ob, hob, ha, hr⟩ := alive_of_bal (hb qq) (hq qq rfl)
    refine ⟨s.decObj qq ob, decRef_some hob ha hr, rfl, by simp [St.decObj], ?_⟩
    intro i
    have := objBal_decObj hob ha i (d i) (hb i)
    have e : (if i = qq then (1 : Int) else 0) = dOf (some (some qq)) i := by
      unfold dOf; by_cases h : i = qq <;> simp [h]
      intro h'; exact h h'.symm
    rw [e] at this
    exact this

theorem setH_bal {s : St} {d : Nat → Int} (k : Nat) (v : Option Ptr) (hk : k < s.h.length)
    (hb : Bal s d) : Bal (s.setH k v) (fun i => d i + dOf s.h[k] i - dOf v i) :=
  fun i => objBal_setH s k v i (d i) hk (hb i)

/-- a fresh object with one reference and no handle yet -/
theorem newObj_bal {s : St} {d : Nat → Int} (hb : Bal s d) (hd : d s.o.length = 0) :
    Bal { s with o := s.o ++ [⟨1, 0⟩] } (fun i => d i + dOf (some (some s.o.length)) i) := by
  intro i
  have hi := hb i
  unfold ObjBal at *
  have hh : ({ s with o := s.o ++ [⟨1, 0⟩] } : St).handlesTo i = s.handlesTo i := rfl
  rw [hh]
  simp only [List.getElem?_append]
  by_cases h1 : i < s.o.length
  · have : ¬ (some (some s.o.length) : Option Ptr) = some (some i) := by
      intro h; injection h with h; injection h with h; omega
    simp only [h1, if_true, dOf, this, if_false, Int.add_zero]
    exact hi
  · by_cases h2 : i = s.o.length
    · subst h2
      simp [dOf] at hi ⊢
      omega
    · have h3 : s.o.length < i := by omega
      have : ¬ (some (some s.o.length) : Option Ptr) = some (some i) := by
        intro h; injection h with h; injection h with h; omega
      have h4 : (s.o[i]?) = none := List.getElem?_eq_none (by omega)
      have h5 : ([({ rc := 1, dead := 0 } : Obj)])[i - s.o.length]? = none := by
        apply List.getElem?_eq_none; simp; omega
      simp only [h1, if_false, h5, dOf, this, Int.add_zero]
      rw [h4] at hi
      exact hi


theorem ptr?_eq_getElem {s : St} {k : Nat} (hk : k < s.h.length) : s.ptr? k = s.h[k] := by
  simp [St.ptr?, List.getElem?_eq_getElem hk]

theorem ptr?_congr {s s' : St} (e : s'.h = s.h) (k : Nat) : s'.ptr? k = s.ptr? k := by
  simp [St.ptr?, e]

theorem handlesTo_congr {s s' : St} (e : s'.h = s.h) (i : Nat) : s'.handlesTo i = s.handlesTo i := by
  simp [St.handlesTo, e]

/-- `setH_bal` phrased with `ptr?` (no dependent index) -/
theorem setH_bal' {s : St} {d : Nat → Int} (k : Nat) (v : Option Ptr) (hk : k < s.h.length)
    (hb : Bal s d) : Bal (s.setH k v) (fun i => d i + dOf (s.ptr? k) i - dOf v i) := by
  rw [ptr?_eq_getElem hk]; exact setH_bal k v hk hb

/-- the number of references `#handles + surplus` does not change when a handle is re-pointed -/
theorem refs_setH (s : St) (k : Nat) (v : Option Ptr) (i : Nat) (d : Int) (hk : k < s.h.length) :
    ((s.setH k v).handlesTo i : Int) + (d + dOf (s.ptr? k) i - dOf v i) = s.handlesTo i + d := by
  rw [ptr?_eq_getElem hk, handlesTo_setH s k v i hk]; omega

theorem length_setH (s : St) (k : Nat) (v : Option Ptr) : (s.setH k v).h.length = s.h.length := by
  simp [St.setH]

theorem dOf_nonneg (e : Option Ptr) (i : Nat) : 0 ≤ dOf e i := by
  unfold dOf; split <;> omega

@[simp] theorem dOf_none (i : Nat) : dOf none i = 0 := by simp [dOf]
@[simp] theorem dOf_null (i : Nat) : dOf (some none) i = 0 := by simp [dOf]

theorem dOf_some_self (q : Nat) : dOf (some (some q)) q = 1 := by simp [dOf]


/-- objects never disappear and a destructor count never decreases -/
def Mono (s s' : St) : Prop :=
  ∀ (i : Nat) (ob : Obj), s.o[i]? = some ob → ∃ ob' : Obj, s'.o[i]? = some ob' ∧ ob.dead ≤ ob'.dead

theorem Mono.refl (s : St) : Mono s s := fun _ ob h => ⟨ob, h, Nat.le_refl _⟩

theorem Mono.trans {a b c : St} (h1 : Mono a b) (h2 : Mono b c) : Mono a c := by
  intro i ob h
  obtain ⟨ob1, e1, l1⟩ := h1 i ob h
  obtain ⟨ob2, e2, l2⟩ := h2 i ob1 e1
  exact ⟨ob2, e2, Nat.le_trans l1 l2⟩

theorem Mono.of_o_eq {s s' : St} (e : s'.o = s.o) : Mono s s' := by
  intro i ob h; exact ⟨ob, by rw [e]; exact h, Nat.le_refl _⟩

theorem mono_set {s : St} {p : Nat} {ob nb : Obj} (h : s.o[p]? = some ob) (hd : ob.dead ≤ nb.dead) :
    Mono s { s with o := s.o.set p nb } := by
  intro i ob' h'
  simp only [List.getElem?_set]
  by_cases e : p = i
  · subst e
    have hp : p < s.o.length := by
      rcases Nat.lt_or_ge p s.o.length with h'' | h''
      · exact h''
      · simp [List.getElem?_eq_none h''] at h
    rw [h] at h'; injection h' with h'; subst h'
    exact ⟨nb, by simp [hp], hd⟩
  · exact ⟨ob', by simp [e, h'], Nat.le_refl _⟩

theorem incRef_mono {s s' : St} {p : Ptr} (h : incRef s p = .ok s') : Mono s s' := by
  unfold incRef at h
  split at h
  · injection h with h; subst h; exact Mono.refl _
  · split at h
    · cases h
    · next ob hob =>
      split at h
      · cases h
      · injection h with h; subst h
        exact mono_set hob (Nat.le_refl _)

theorem decRef_mono {s s' : St} {p : Ptr} (h : decRef s p = .ok s') : Mono s s' := by
  unfold decRef at h
  split at h
  · injection h with h; subst h; exact Mono.refl _
  · split at h
    · cases h
    · next ob hob =>
      split at h
      · cases h
      · split at h
        · cases h
        · split at h
          · injection h with h; subst h
            exact mono_set hob (Nat.le_succ _)
          · injection h with h; subst h
            exact mono_set hob (Nat.le_refl _)

theorem mono_append (s : St) (nb : Obj) : Mono s { s with o := s.o ++ [nb] } := by
  intro i ob h
  have hi : i < s.o.length := by
    rcases Nat.lt_or_ge i s.o.length with h' | h'
    · exact h'
    · simp [List.getElem?_eq_none h'] at h
  exact ⟨ob, by rw [List.getElem?_append_left hi]; exact h, Nat.le_refl _⟩

theorem mono_setH (s : St) (k : Nat) (v : Option Ptr) : Mono s (s.setH k v) := Mono.of_o_eq rfl

end TlxVerif.C12
