import TlxVerif.Model.C15Tables
import TlxVerif.Proofs.C15BitParallel
/-!
# C15 — the three sorting-network families sort every input of up to 16 elements

`Gen/C15Networks.lean` is regenerated from the tlx working tree on every run: for each family
and entry point it lists, per size `N`, the `(i, j)` of every `cswap(a[i], a[j])` the real code
executes (recorded through tlx's own `CS_IfSwap` with a recording comparator).

* `zero_one_principle` (Proofs/C15) — proved once, for the `CS_IfSwap` semantics
  `if (cmp(right,left)) swap(left,right)` and every strict weak order in the sense of the
  C++ standard (so keys may be equivalent without being equal).
* `checkNet_sound` (Proofs/C15BitParallel) — the bit-parallel evaluation decides "sorts all
  2^n zero-one inputs".
* here: every generated network passes `checkNet` (`decide +kernel`, a finite table), hence
  sorts every input over every strict weak order, directly and through the size dispatch.
-/
namespace TlxVerif.C15

/-- the finite check of one table: 17 entries, each in range and sorting all zero-one inputs -/
def tableOK (t : List Net) : Bool :=
  t.length == 17 && (List.range 17).all fun n => checkNet n (t.getD n [])

/-! ### generated tables: one kernel evaluation per table (finite, ≈ 1 s each) -/

theorem bestDirect_ok : tableOK Gen.bestDirect = true := by decide +kernel
theorem bestDispatch_ok : tableOK Gen.bestDispatch = true := by decide +kernel
theorem boseNelsonDirect_ok : tableOK Gen.boseNelsonDirect = true := by decide +kernel
theorem boseNelsonDispatch_ok : tableOK Gen.boseNelsonDispatch = true := by decide +kernel
theorem boseNelsonParameterDirect_ok : tableOK Gen.boseNelsonParameterDirect = true := by
  decide +kernel
theorem boseNelsonParameterDispatch_ok : tableOK Gen.boseNelsonParameterDispatch = true := by
  decide +kernel

theorem table_ok (f : Family) (e : Entry) : tableOK (table f e) = true := by
  cases f <;> cases e
  · exact bestDirect_ok
  · exact bestDispatch_ok
  · exact boseNelsonDirect_ok
  · exact boseNelsonDispatch_ok
  · exact boseNelsonParameterDirect_ok
  · exact boseNelsonParameterDispatch_ok

theorem network_checkNet (f : Family) (e : Entry) (n : Nat) (hn : n ≤ 16) :
    checkNet n (network f e n) = true := by
  have h := table_ok f e
  simp only [tableOK, Bool.and_eq_true, List.all_eq_true, List.mem_range] at h
  exact h.2 n (by omega)

/-- the dispatching entry point runs, for every size that has a direct `sortN`, exactly the
    comparator sequence of `sortN` (sizes 0 and 1: no comparator at all) -/
theorem dispatch_eq_direct (f : Family) : table f .dispatch = table f .direct := by
  cases f <;> decide +kernel

/-! ### the property -/

/-- no comparator of any network touches a position outside `a[0..n)` (memory safety of the
    straight-line code; also what makes `cswap`'s out-of-range default unreachable) -/
theorem network_inRange (f : Family) (e : Entry) (n : Nat) (hn : n ≤ 16) :
    ∀ c ∈ network f e n, c.1 < n ∧ c.2 < n := by
  have h := (checkNet_sound (network_checkNet f e n hn)).1
  simp only [inRange, List.all_eq_true, Bool.and_eq_true, decide_eq_true_eq] at h
  exact h

/-- **C15 (direct and dispatched tables).** For every family, entry point, size `n ≤ 16`,
    element type, strict weak order and input of length `n`: the output is a permutation of
    the input and is in non-decreasing order (no later element is less than an earlier one). -/
theorem network_sorts (f : Family) (e : Entry) (n : Nat) (hn : n ≤ 16)
    {α : Type} (lt : α → α → Bool) (hlt : StrictWeakOrder lt) (a : List α) (ha : a.length = n) :
    (applyNet lt (network f e n) a).Perm a ∧
    (applyNet lt (network f e n) a).Pairwise (fun x y => lt y x = false) :=
  ⟨applyNet_perm lt _ a,
   zero_one_principle hlt _ n (checkNet_sound (network_checkNet f e n hn)).2 a ha⟩

/-- **C15 (size dispatch).** `sort(begin, end, cmp)` modelled as `sortDispatch` over the
    generated dispatch table: for every input of at most 16 elements it returns (does not
    `abort()`), and the result is a sorted permutation of the input. -/
theorem dispatch_sorts (f : Family) {α : Type} (lt : α → α → Bool) (hlt : StrictWeakOrder lt)
    (a : List α) (ha : a.length ≤ 16) :
    ∃ out, sortDispatch (table f .dispatch) lt a = some out ∧ out.Perm a ∧
      out.Pairwise (fun x y => lt y x = false) := by
  have hlen : (table f .dispatch).length = 17 := by
    have h := table_ok f .dispatch
    simp only [tableOK, Bool.and_eq_true, beq_iff_eq] at h
    exact h.1
  have hlt' : a.length < (table f .dispatch).length := by omega
  refine ⟨applyNet lt (network f .dispatch a.length) a, ?_, network_sorts f .dispatch a.length ha lt hlt a rfl⟩
  simp only [sortDispatch, ha, if_true, network]
  rw [List.getElem?_eq_getElem hlt']
  simp [List.getD, List.getElem?_eq_getElem hlt']

/-- beyond 16 elements the entry point `abort()`s (it never sorts wrongly) -/
theorem dispatch_abort (t : List Net) {α : Type} (lt : α → α → Bool) (a : List α)
    (ha : 16 < a.length) : sortDispatch t lt a = none := by
  simp [sortDispatch]; omega

/-- sortedness in the adjacent form: every element is not greater than its successor -/
theorem network_sorts_adjacent (f : Family) (e : Entry) (n : Nat) (hn : n ≤ 16)
    {α : Type} (lt : α → α → Bool) (hlt : StrictWeakOrder lt) (a : List α) (ha : a.length = n)
    (i : Nat) (hi : i + 1 < (applyNet lt (network f e n) a).length) :
    lt (applyNet lt (network f e n) a)[i + 1] (applyNet lt (network f e n) a)[i] = false := by
  have h := (network_sorts f e n hn lt hlt a ha).2
  rw [List.pairwise_iff_getElem] at h
  exact h i (i + 1) (by omega) hi (by omega)

/-! ### non-vacuity -/

/-- `<` on `Nat` is a strict weak order … -/
theorem swo_nat : StrictWeakOrder (fun a b : Nat => decide (a < b)) where
  irrefl := by simp
  trans := by intro a b c; simp; omega
  equivTrans := by intro a b c; simp; omega

/-- … and so is comparing records by key only (distinct elements may be equivalent; the
    example below shows the networks are not stable, which the property does not ask for) -/
theorem swo_key : StrictWeakOrder (fun a b : Nat × Nat => decide (a.1 < b.1)) where
  irrefl := by simp
  trans := by intro a b c; simp; omega
  equivTrans := by intro a b c; simp; omega

example : applyNet (fun a b : Nat => decide (a < b)) (network .best .direct 13)
    [12, 3, 7, 7, 0, 9, 1, 11, 5, 2, 8, 4, 6] = [0, 1, 2, 3, 4, 5, 6, 7, 7, 8, 9, 11, 12] := by
  decide +kernel

example : sortDispatch (table .boseNelsonParameter .dispatch) (fun a b : Nat × Nat => decide (a.1 < b.1))
    [(2, 0), (1, 1), (2, 2), (0, 3), (1, 4)] = some [(0, 3), (1, 4), (1, 1), (2, 0), (2, 2)] := by
  decide +kernel

/-- the zero-one check is not vacuous: it rejects `best::sort13` with its last comparator
    removed, and a 3-element network with a wrong pair -/
example : checkNet 13 ((network .best .direct 13).dropLast) = false := by decide +kernel
example : checkNet 3 [(1, 2), (0, 2), (1, 2)] = false := by decide +kernel
example : checkNet 3 [(1, 2), (0, 2), (0, 3)] = false := by decide +kernel

end TlxVerif.C15
