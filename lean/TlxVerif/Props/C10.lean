import TlxVerif.Model.C10Pool
namespace TlxVerif.C10

/-- placeholder while the pipeline is brought up -/
theorem init_owner (cfg : Cfg) : (init cfg).owner = none := rfl

end TlxVerif.C10
