import TlxVerif.Proofs.C10Pool
/-!
# C10 — ThreadPool runs each job exactly once; loop_until_empty means quiescence

All theorems quantify over every reachable state of the transition system in
`Model/C10Pool.lean`: all interleavings of workers, clients and the main thread,
every notify_one choice, every spurious wake-up, for every pool size, job table
(jobs enqueueing jobs, jobs terminating the pool) and call script.
-/
namespace TlxVerif.C10
set_option linter.unusedSimpArgs false

/-- **No job is executed more than once.** The ids of the jobs popped for execution (each pop is followed by
    exactly one call of the job body in the worker's straight-line code) are pairwise distinct; and every job
    ever enqueued is either still queued or has been popped — nothing is lost, nothing is duplicated. -/
theorem pool_job_at_most_once {cfg : Cfg} {s : State} (h : Reachable cfg s) :
    s.started.Nodup ∧ (s.queue.map (·.id)).Nodup ∧
    (∀ id, id ∈ s.started → id ∉ s.queue.map (·.id)) ∧
    (∀ id, id < s.nextId ↔ (id ∈ s.queue.map (·.id) ∨ id ∈ s.started)) := by
  obtain ⟨hnd, hmem⟩ := reachable_jobsInv h
  rw [List.nodup_append] at hnd
  refine ⟨hnd.2.1, hnd.1, ?_, ?_⟩
  · intro id h1 h2
    exact hnd.2.2 id h2 id h1 rfl
  · intro id
    rw [← hmem id, List.mem_append]

/-- a duplicate-free list whose members are exactly the numbers below `n` has length `n` -/
theorem length_of_nodup_range {l : List Nat} {n : Nat} (hnd : l.Nodup) (hmem : ∀ id, id ∈ l ↔ id < n) : l.length = n := by
  have hp : l.Perm (List.range n) :=
    (List.perm_ext_iff_of_nodup hnd List.nodup_range).mpr (by intro a; rw [hmem a, List.mem_range])
  rw [hp.length_eq, List.length_range]

/-- **`loop_until_empty` returns only at quiescence.**  Whenever a thread is about to return from
    `loop_until_empty()` (its pending operation is the final unlock of that call), no job is queued, no job is
    running (`busy = 0`), every job enqueued so far — from outside or from within another job — has been started
    exactly once and has finished, and the completed-job counter `done_` equals the number of jobs run.
    This holds whether or not the pool has been terminated. -/
theorem pool_loop_until_empty_quiescent {cfg : Cfg} {s : State} (h : Reachable cfg s) {t k : Nat}
    (hpc : (getT s.thr t).pc = .call k .unlock) (hact : (script cfg (getT s.thr t))[k]? = some .lue) :
    s.queue = [] ∧ s.busy = 0 ∧ s.started.Nodup ∧
    (∀ id, id < s.nextId → id ∈ s.started ∧ id ∈ s.finished) ∧
    s.started.length = s.nextId ∧ s.finished.length = s.nextId ∧ s.done = s.nextId := by
  have hi := reachable_invB h
  obtain ⟨hq, hb⟩ := hi.lueQ t k (Or.inr hpc) hact
  obtain ⟨hnd, hmem⟩ := reachable_jobsInv h
  rw [hq] at hnd hmem
  simp only [List.map_nil, List.nil_append] at hnd hmem
  -- nobody is inside the busy section
  have hnob : ∀ th, th ∈ s.thr → inBusy th = false := by
    have := hi.busy
    rw [hb] at this
    have hz := List.countP_eq_zero.mp this.symm
    intro th hth
    simpa using hz th hth
  have hrun0 : s.thr.countP running = 0 := by
    rw [List.countP_eq_zero]
    intro th hth
    have := hnob th hth
    unfold inBusy at this
    unfold running
    cases hp : th.pc <;> simp [hp] at this ⊢ <;> simp [this]
  have hpend0 : s.thr.countP pendDone = 0 := by
    rw [List.countP_eq_zero]
    intro th hth
    have := hnob th hth
    unfold inBusy at this
    unfold pendDone
    cases hp : th.pc <;> simp [hp] at this ⊢
  have hlen := length_of_nodup_range hnd hmem
  have hrc := hi.runCnt
  have hdn := hi.done
  refine ⟨hq, hb, hnd, ?_, hlen, by omega, by omega⟩
  intro id hid
  have hs : id ∈ s.started := (hmem id).mpr hid
  refine ⟨hs, ?_⟩
  rcases hi.run id hs with hf | ⟨w, hw, _⟩
  · exact hf
  · exfalso
    have hwl : w < s.thr.length := by
      apply Classical.byContradiction
      intro hge
      have : getT s.thr w = dflt := by
        unfold getT
        rw [List.getD_eq_getElem?_getD, List.getElem?_eq_none (by omega)]
        rfl
      rw [this] at hw
      simp [running, dflt] at hw
    have hmem' : getT s.thr w ∈ s.thr := by rw [← getElem_eq_getT hwl]; exact List.getElem_mem hwl
    have := List.countP_eq_zero.mp hrun0 _ hmem'
    simp [hw] at this

/-- the same facts at the moment the wait predicate of `loop_until_empty` was found true (the `fence`) -/
theorem pool_loop_until_empty_predicate {cfg : Cfg} {s : State} (h : Reachable cfg s) {t k : Nat}
    (hpc : (getT s.thr t).pc = .call k .fence) (hact : (script cfg (getT s.thr t))[k]? = some .lue) :
    s.queue = [] ∧ s.busy = 0 :=
  (reachable_invB h).lueQ t k (Or.inl hpc) hact

/-- **Mutual exclusion**: at most one thread is inside a critical section of the pool mutex, and it is the
    recorded owner. -/
theorem pool_mutex {cfg : Cfg} {s : State} (h : Reachable cfg s) {t u : Nat}
    (ht : holds (getT s.thr t).pc = true) (hu : holds (getT s.thr u).pc = true) : t = u := by
  have hi := reachable_invB h
  have h1 := (hi.mutex t).mp ht
  have h2 := (hi.mutex u).mp hu
  rw [h1] at h2
  exact Option.some.inj h2

end TlxVerif.C10
