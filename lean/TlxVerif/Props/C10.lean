import TlxVerif.Proofs.C10Pool
import TlxVerif.Proofs.C10PoolLive
/-!
# C10 — ThreadPool runs each job exactly once; loop_until_empty means quiescence

All theorems quantify over every reachable state of the transition system in
`Model/C10Pool.lean`: all interleavings of workers, clients and the main thread,
every notify_one choice, every spurious wake-up, for every pool size, job table
(jobs enqueueing jobs, jobs terminating the pool) and call script.
-/
namespace TlxVerif.C10
set_option linter.unusedSimpArgs false

/-- **No job is executed more than once.** The ids of the jobs popped for execution (each pop is followed by
    exactly one call of the job body in the worker's straight-line code) are pairwise distinct; and every job
    ever enqueued is either still queued or has been popped — nothing is lost, nothing is duplicated. -/
theorem pool_job_at_most_once {cfg : Cfg} {s : State} (h : Reachable cfg s) :
    s.started.Nodup ∧ (s.queue.map (·.id)).Nodup ∧
    (∀ id, id ∈ s.started → id ∉ s.queue.map (·.id)) ∧
    (∀ id, id < s.nextId ↔ (id ∈ s.queue.map (·.id) ∨ id ∈ s.started)) := by
  obtain ⟨hnd, hmem⟩ := reachable_jobsInv h
  rw [List.nodup_append] at hnd
  refine ⟨hnd.2.1, hnd.1, ?_, ?_⟩
  · intro id h1 h2
    exact hnd.2.2 id h2 id h1 rfl
  · intro id
    rw [← hmem id, List.mem_append]

/-- a duplicate-free list whose members are exactly the numbers below `n` has length `n` -/
theorem length_of_nodup_range {l : List Nat} {n : Nat} (hnd : l.Nodup) (hmem : ∀ id, id ∈ l ↔ id < n) : l.length = n := by
  have hp : l.Perm (List.range n) :=
    (List.perm_ext_iff_of_nodup hnd List.nodup_range).mpr (by intro a; rw [hmem a, List.mem_range])
  rw [hp.length_eq, List.length_range]

/-- **`loop_until_empty` returns only at quiescence.**  Whenever a thread is about to return from
    `loop_until_empty()` (its pending operation is the final unlock of that call), no job is queued, no job is
    running (`busy = 0`), every job enqueued so far — from outside, from within another job or from the destructor
    of another job's closure — has been started exactly once, its body has ended (`finished`) and its closure has
    been destroyed (`destroyed`: the job's effects, including those of the destructors of captured objects, are
    complete), and the completed-job counter `done_` equals the number of jobs run.
    This holds whether or not the pool has been terminated. -/
theorem pool_loop_until_empty_quiescent {cfg : Cfg} {s : State} (h : Reachable cfg s) {t k : Nat}
    (hpc : (getT s.thr t).pc = .call k .unlock) (hact : (script cfg (getT s.thr t))[k]? = some .lue) :
    s.queue = [] ∧ s.busy = 0 ∧ s.started.Nodup ∧
    (∀ id, id < s.nextId → id ∈ s.started ∧ id ∈ s.finished ∧ id ∈ s.destroyed) ∧
    s.started.length = s.nextId ∧ s.destroyed.length = s.nextId ∧ s.done = s.nextId := by
  have hi := reachable_invB h
  obtain ⟨hq, hb⟩ := hi.lueQ t k (Or.inr hpc) hact
  obtain ⟨hnd, hmem⟩ := reachable_jobsInv h
  rw [hq] at hnd hmem
  simp only [List.map_nil, List.nil_append] at hnd hmem
  -- nobody is inside the busy section
  have hnob : ∀ th, th ∈ s.thr → inBusy th = false := by
    have := hi.busy
    rw [hb] at this
    have hz := List.countP_eq_zero.mp this.symm
    intro th hth
    simpa using hz th hth
  have hrun0 : s.thr.countP running = 0 := by
    rw [List.countP_eq_zero]
    intro th hth
    have := hnob th hth
    unfold inBusy at this
    unfold running
    cases hp : th.pc <;> simp [hp] at this ⊢ <;> simp [this]
  have hpend0 : s.thr.countP pendDone = 0 := by
    rw [List.countP_eq_zero]
    intro th hth
    have := hnob th hth
    unfold inBusy at this
    unfold pendDone
    cases hp : th.pc <;> simp [hp] at this ⊢
  have hlen := length_of_nodup_range hnd hmem
  have hrc := hi.runCnt
  have hdn := hi.done
  refine ⟨hq, hb, hnd, ?_, hlen, by omega, by omega⟩
  intro id hid
  have hs : id ∈ s.started := (hmem id).mpr hid
  refine ⟨hs, ?_⟩
  rcases hi.run id hs with hf | ⟨w, hw, _⟩
  · exact ⟨(reachable_finInv h).desFin id hf, hf⟩
  · exfalso
    have hwl : w < s.thr.length := by
      apply Classical.byContradiction
      intro hge
      have : getT s.thr w = dflt := by
        unfold getT
        rw [List.getD_eq_getElem?_getD, List.getElem?_eq_none (by omega)]
        rfl
      rw [this] at hw
      simp [running, dflt] at hw
    have hmem' : getT s.thr w ∈ s.thr := by rw [← getElem_eq_getT hwl]; exact List.getElem_mem hwl
    have := List.countP_eq_zero.mp hrun0 _ hmem'
    simp [hw] at this

/-- the same facts at the moment the wait predicate of `loop_until_empty` was found true (the `fence`) -/
theorem pool_loop_until_empty_predicate {cfg : Cfg} {s : State} (h : Reachable cfg s) {t k : Nat}
    (hpc : (getT s.thr t).pc = .call k .fence) (hact : (script cfg (getT s.thr t))[k]? = some .lue) :
    s.queue = [] ∧ s.busy = 0 :=
  (reachable_invB h).lueQ t k (Or.inl hpc) hact

/-- **Mutual exclusion**: at most one thread is inside a critical section of the pool mutex, and it is the
    recorded owner. -/
theorem pool_mutex {cfg : Cfg} {s : State} (h : Reachable cfg s) {t u : Nat}
    (ht : holds (getT s.thr t).pc = true) (hu : holds (getT s.thr u).pc = true) : t = u := by
  have hi := reachable_invB h
  have h1 := (hi.mutex t).mp ht
  have h2 := (hi.mutex u).mp hu
  rw [h1] at h2
  exact Option.some.inj h2

/-! ## No lost wake-up, no deadlock

Hypotheses: at least one worker; job bodies only enqueue jobs, terminate the pool, read `done()`/`idle()` or throw
(`JobsOk`, i.e. they do not call `loop_until_*` themselves); the destructor runs
after the client threads were joined (built into the model's main thread). -/

/-- **No stranded worker, no deadlock on the mutex.**  If the threads come to rest (nobody can take a step
    without a spurious wake-up) then the mutex is free, every thread has been started, and every worker has either
    finished (only after `terminate_` was set) or is parked on `cv_jobs_` with `terminate_ == false` and an empty
    queue — never with its wait predicate true. -/
theorem pool_at_rest_workers {cfg : Cfg} (hn : 1 ≤ cfg.nworkers) (hj : JobsOk cfg) {s : State} (h : Reachable cfg s)
    (hr : AtRest cfg s) :
    s.owner = none ∧
    -- everybody has been created
    (∀ u, u < s.thr.length → (getT s.thr u).pc ≠ .start) ∧
    -- workers: finished, or parked with nothing to do
    (∀ w, isWorker cfg w → ((getT s.thr w).pc = .finished ∧ s.term = true) ∨
        ((getT s.thr w).pc = .wWaiting ∧ w ∈ s.wJ ∧ s.term = false ∧ s.queue = [])) := by
  have hi := reachable_invL hn hj h
  have ho := rest_owner hi.b hr
  have hlen := hi.idx.len
  -- the main thread is past thread creation
  have hsp : s.spawned = cfg.nworkers + nclients cfg := by
    have h0 := rest_thread hr ho 0 (by omega)
    have hm := hi.main
    unfold mainOk at hm
    rcases h0 with h0 | ⟨_, h0⟩ | ⟨h0, _⟩ | ⟨k, h0, _⟩ | ⟨i, h0, _⟩ | ⟨i, h0, _⟩ <;> (try omega) <;> rw [h0] at hm <;> simp at hm
    · exact hm.1
    · exact hm
    · exact hm.1
    · exact hm.1
  have hns : ∀ u, u < s.thr.length → (getT s.thr u).pc ≠ .start := by
    intro u hlt hst
    rcases rest_thread hr ho u hlt with h0 | ⟨_, h0⟩ | ⟨h0, _⟩ | ⟨k, h0, _⟩ | ⟨i, h0, _⟩ | ⟨i, h0, _⟩ <;>
      (try omega) <;> rw [hst] at h0 <;> simp at h0
  -- a worker is finished or parked in the wait set of cv_jobs_
  have hwk : ∀ w, isWorker cfg w → (getT s.thr w).pc = .finished ∨ ((getT s.thr w).pc = .wWaiting ∧ w ∈ s.wJ) := by
    intro w hw
    have hlt : w < s.thr.length := by have := hw.2; omega
    have hrole := hi.idx.roleW w hw
    have hrp := hi.b.role w
    rw [hrole] at hrp
    rcases rest_thread hr ho w hlt with h0 | ⟨h0, _⟩ | h0 | ⟨k, h0, _⟩ | ⟨i, h0, _⟩ | ⟨i, h0, _⟩
    · exact Or.inl h0
    · exact absurd h0 (hns w hlt)
    · exact Or.inr h0
    · exact absurd rfl (worker_not_waiting hj hi.b hrole h0).2
    · rw [h0] at hrp; simp at hrp
    · rw [h0] at hrp; simp at hrp
  -- no pending notification on cv_jobs_ (its thread would be enabled)
  have hnoJ : ¬ ∃ x, nfJ (getT s.thr x).pc = true := by
    rintro ⟨x, hx⟩
    have hlt : x < s.thr.length := lt_length_of_pc (by intro hf; rw [hf] at hx; simp at hx)
    rcases rest_thread hr ho x hlt with h0 | ⟨h0, _⟩ | ⟨h0, _⟩ | ⟨k, h0, _⟩ | ⟨i, h0, _⟩ | ⟨i, h0, _⟩ <;>
      rw [h0] at hx <;> simp at hx
  refine ⟨ho, hns, ?_⟩
  intro w hw
  have hrole := hi.idx.roleW w hw
  by_cases hterm : s.term = true
  · -- terminated: the wait set is empty, so the worker has finished
    left
    rcases hi.w.tj hterm with hnil | hx
    · rcases hwk w hw with hf | ⟨_, hmem⟩
      · exact ⟨hf, hterm⟩
      · rw [hnil] at hmem; simp at hmem
    · exact absurd hx hnoJ
  · right
    have hterm' : s.term = false := by simpa using hterm
    rcases hwk w hw with hf | ⟨hp, hmem⟩
    · exact absurd (hi.w.wx w hrole (Or.inr hf)) hterm
    · refine ⟨hp, hmem, hterm', ?_⟩
      apply Classical.byContradiction
      intro hq
      rcases hi.qa hq with ht | ⟨w', hw', hnf, hnm⟩
      · exact hterm ht
      · rcases hwk w' hw' with hf | ⟨_, hm'⟩
        · exact hnf hf
        · exact hnm hm'

/-- **At rest no job is running** (`busy_ == 0`). -/
theorem pool_at_rest_busy {cfg : Cfg} (hn : 1 ≤ cfg.nworkers) (hj : JobsOk cfg) {s : State} (h : Reachable cfg s)
    (hr : AtRest cfg s) : s.busy = 0 := by
  have hi := reachable_invL hn hj h
  obtain ⟨ho, hns, hwk⟩ := pool_at_rest_workers hn hj h hr
  rw [hi.b.busy, List.countP_eq_zero]
  intro th hth
  obtain ⟨u, hlt, rfl⟩ := List.mem_iff_getElem.mp hth
  rw [getElem_eq_getT hlt]
  unfold inBusy
  rcases rest_thread hr ho u hlt with h0 | ⟨h0, _⟩ | ⟨h0, _⟩ | ⟨k, h0, _⟩ | ⟨i, h0, _⟩ | ⟨i, h0, _⟩ <;> rw [h0] <;> simp
  -- a thread blocked in a waiting call is not a worker
  intro hrole
  exact (worker_not_waiting hj hi.b hrole h0).2 rfl

/-- **No lost wake-up on `cv_finished_`.**  A thread that is still blocked in `loop_until_empty()` when the
    threads come to rest is blocked legitimately: the pool was terminated while jobs were still queued (they will
    never run, so emptiness is never reached).  A thread still blocked in `loop_until_terminate()` is blocked because
    nobody terminated the pool.  In particular: *as long as the pool is not terminated, `loop_until_empty()` always
    returns*, and after `terminate()` every `loop_until_terminate()` returns — for any number of waiters. -/
theorem pool_at_rest_waiter {cfg : Cfg} (hn : 1 ≤ cfg.nworkers) (hj : JobsOk cfg) {s : State} (h : Reachable cfg s)
    (hr : AtRest cfg s) {u k : Nat} {a : Act} (hp : (getT s.thr u).pc = .call k .waiting)
    (ha : (script cfg (getT s.thr u))[k]? = some a) :
    u ∈ s.wF ∧ ((a = .lue ∧ s.term = true ∧ s.queue ≠ []) ∨ (a = .lut ∧ s.term = false)) := by
  have hi := reachable_invL hn hj h
  obtain ⟨ho, hns, hwk⟩ := pool_at_rest_workers hn hj h hr
  have hb0 := pool_at_rest_busy hn hj h hr
  have hlt : u < s.thr.length := lt_length_of_pc (by rw [hp]; simp)
  have hmem : u ∈ s.wF := by
    have hr' := hr u
    rw [enabled_eq cfg s u hlt, hp] at hr'
    simpa [ho] using hr'
  refine ⟨hmem, ?_⟩
  -- no pending notification on cv_finished_
  have hnoF : ¬ ∃ x, nfF (getT s.thr x).pc = true := by
    rintro ⟨x, hx⟩
    have hltx : x < s.thr.length := lt_length_of_pc (by intro hf; rw [hf] at hx; simp at hx)
    have hr' := hr x
    rw [enabled_eq cfg s x hltx] at hr'
    cases hpx : (getT s.thr x).pc <;> simp [hpx, ho] at hx hr'
    rename_i k' cp
    cases cp <;> simp at hx hr'
  have hok := hi.cw u k a (Or.inr ⟨hp, hmem⟩) ha
  obtain ⟨a', ha', hcp⟩ := callOk_call (hi.b.call u) hp
  rw [ha] at ha'
  have haa : a = a' := Option.some.inj ha'
  subst haa
  cases a with
  | enq n => simp at hcp
  | term => simp at hcp
  | obsDone => simp at hcp
  | obsIdle => simp at hcp
  | throw => simp at hcp
  | lue =>
    left
    simp only [blockedOk] at hok
    rcases hok with hq | hb | hx
    · refine ⟨rfl, ?_, hq⟩
      rcases hi.qa hq with ht | ⟨w', hw', hnf, hnm⟩
      · exact ht
      · rcases hwk w' hw' with ⟨hf, _⟩ | ⟨_, hm', _⟩
        · exact absurd hf hnf
        · exact absurd hm' hnm
    · exact absurd hb0 hb
    · exact absurd hx hnoF
  | lut =>
    right
    simp only [blockedOk] at hok
    rcases hok with ht | hb | hx
    · exact ⟨rfl, ht⟩
    · exact absurd hb0 hb
    · exact absurd hx hnoF

/-- **`terminate()` and the destructor return.**  At rest no thread is inside `terminate()` (all its program
    points are enabled once the mutex is free, which it is), and the main thread is not inside `~ThreadPool`: it has
    finished, or waits in one of its own `loop_until_*` calls, or joins a client that is legitimately blocked. -/
theorem pool_at_rest_main {cfg : Cfg} (hn : 1 ≤ cfg.nworkers) (hj : JobsOk cfg) {s : State} (h : Reachable cfg s)
    (hr : AtRest cfg s) :
    (getT s.thr 0).pc = .finished ∨ (∃ k, (getT s.thr 0).pc = .call k .waiting) ∨
    (∃ i, (getT s.thr 0).pc = .mJoinC i ∧ (getT s.thr (clientTid cfg i)).pc ≠ .finished) := by
  have hi := reachable_invL hn hj h
  obtain ⟨ho, hns, hwk⟩ := pool_at_rest_workers hn hj h hr
  have hlen := hi.idx.len
  rcases rest_thread hr ho 0 (by omega) with h0 | ⟨h0, _⟩ | ⟨h0, _⟩ | ⟨k, h0, _⟩ | ⟨i, h0, hc⟩ | ⟨i, h0, hc⟩
  · exact Or.inl h0
  · exact absurd h0 (hns 0 (by omega))
  · have := hi.b.role 0; rw [hi.idx.role0, h0] at this; simp at this
  · exact Or.inr (Or.inl ⟨k, h0⟩)
  · exact Or.inr (Or.inr ⟨i, h0, hc⟩)
  · -- inside the destructor the flag is set, so all workers have finished
    exfalso
    have hterm := reachable_dtorTerm h 0 (by rw [h0]; simp [dtorPc])
    have hm := hi.main
    unfold mainOk at hm
    rw [h0] at hm
    simp at hm
    have hw : isWorker cfg (workerTid i) := ⟨by unfold workerTid; omega, by unfold workerTid; omega⟩
    rcases hwk _ hw with ⟨hf, _⟩ | ⟨_, _, hnt, _⟩
    · exact hc hf
    · rw [hterm] at hnt; simp at hnt



/-- **Deadlock in the sense of the transition relation is a rest state in the sense of `enabled`**: if no thread
    has any transition at all, then no thread is enabled, so the four theorems above apply.  (Conversely a thread
    that is not enabled can only move by a spurious wake-up.) -/
theorem pool_stuck_is_at_rest {cfg : Cfg} {s : State} (h : Reachable cfg s) (hstuck : ∀ t c, step cfg s t c = none) :
    AtRest cfg s := by
  intro t
  cases he : enabled cfg s t with
  | false => rfl
  | true =>
    obtain ⟨o, ho⟩ := enabled_step h 0 he
    rw [hstuck t 0] at ho
    simp at ho

/-- **A job that throws is a job that ran.**  The worker catches the `std::exception`, logs it and continues
    behind the try/catch exactly as after a normal return (fence, `++done_`, `--busy_`, notification): in the model
    a body that throws ends like a body that returns, so every job id in `thrown` is in `finished`, and all
    theorems above — in particular `done = number of jobs run` at the return of `loop_until_empty` and the absence
    of stranded waiters — hold for job tables with throwing jobs. -/
theorem pool_thrown_jobs_counted {cfg : Cfg} {s : State} (h : Reachable cfg s) :
    (∀ id, id ∈ s.thrown → id ∈ s.finished) ∧ s.done + s.thr.countP pendDone = s.destroyed.length :=
  ⟨reachable_thrown h, (reachable_invB h).done⟩

/-- **`done()` never runs ahead**: what an observer can read from `done_` is at most the number of jobs that have
    run to completion *including the destruction of their closure*; it lags behind only by the workers between
    that point and `++done_`. -/
theorem pool_done_le_destroyed {cfg : Cfg} {s : State} (h : Reachable cfg s) : s.done ≤ s.destroyed.length := by
  have := (reachable_invB h).done
  omega

/-- **The job object is destroyed where the code says** ("destroy job by closing scope"): only after the body of
    the job has ended (`destroyed ⊆ finished`), before the worker's bookkeeping for it (the step that records the
    destruction leaves the worker at the fence, in front of `++done_` / `--busy_` / the notification), and never
    while the worker owns the pool mutex — so a destructor that calls back into the pool (fork-join continuation)
    cannot self-deadlock.  Closures still queued at `~ThreadPool` (`dropped`) never started. -/
theorem pool_destroy_job_point {cfg : Cfg} {s : State} (h : Reachable cfg s) :
    (∀ id, id ∈ s.destroyed → id ∈ s.finished) ∧
    (∀ t c o, step cfg s t c = some o → o.st.destroyed ≠ s.destroyed →
      (getT o.st.thr t).pc = .wFence ∧ o.st.owner ≠ some t) := by
  refine ⟨(reachable_finInv h).desFin, ?_⟩
  intro t c o hs hne
  have hm := (reachable_invB h).mutex t
  pool_step_cases hs
  all_goals (first
    | (exfalso; exact hne rfl)
    | skip)
  all_goals (
    have hlt := lt_of_getElem? ‹s.thr[t]? = some _›
    have hth := getT_of_getElem? ‹s.thr[t]? = some _›
    rw [hth] at hm
    simp only [endOfScriptDes] at hne
    split at hne
    · rename_i hr
      simp only [setThr_thr, getT_set, hlt, and_self, if_true]
      refine ⟨endOfScript_pc_worker _ _ hr, ?_⟩
      first
      | (simp; done)
      | (intro ho; have := hm.mpr ho; simp_all)
    · exact absurd rfl hne)

/-- **`idle()` counts the workers waiting for jobs**: in every reachable state `idle_` equals the number of
    workers between `++idle_` and `--idle_` (evaluating the wait predicate, about to wait, waiting, or just woken). -/
theorem pool_idle_count {cfg : Cfg} {s : State} (h : Reachable cfg s) : s.idle = s.thr.countP inIdle :=
  reachable_idle h

/-! ## Non-vacuity

`exCfg`: one worker, one job code with an empty body, two clients calling `loop_until_empty()`, the main thread
enqueues one job (the D6 scenario).  After 26 steps of the interleaving below client 2 sits at the final unlock of
`loop_until_empty()`; the run ends with every thread finished.
`exCfg2`: a client calls `loop_until_terminate()` and nobody terminates: the run comes to rest with the worker parked
on `cv_jobs_` and the client blocked on `cv_finished_` — the two legitimate rest states of the theorems above. -/

def exCfg : Cfg := { nworkers := 1, prog := fun _ => [], clients := [[.lue], [.lue]], mainCalls := [.enq 0] }
def exChoices : List (Nat × Nat) := [(0,0),(0,0),(0,0),(0,0),(0,0),(0,0),(0,0),(1,0),(1,0),(1,0),(1,0),(1,0),(1,0),(1,0),(1,0),(1,0),(1,0),(1,0),(1,0),(1,0),(1,0),(1,0),(2,0),(2,0),(2,0),(2,0),(2,0),(0,0),(3,0),(3,0),(3,0),(3,0),(3,0),(0,0),(0,0),(0,0),(0,0),(0,0),(1,0),(1,0),(1,0),(1,0),(1,0),(0,0)]

example : (runChoices exCfg (init exCfg) (exChoices.take 26)).map
    (fun (s : State) => ((getT s.thr 2).pc, (script exCfg (getT s.thr 2))[0]?))
    = some (.call 0 .unlock, some .lue) := by decide

example : (runChoices exCfg (init exCfg) (exChoices.take 26)).map
    (fun (s : State) => (s.queue.length, s.busy, s.nextId, s.done)) = some (0, 0, 1, 1) := by decide

example : (runChoices exCfg (init exCfg) (exChoices.take 26)).map
    (fun (s : State) => (s.started, s.finished)) = some ([0], [0]) := by decide

example : (runChoices exCfg (init exCfg) exChoices).map
    (fun (s : State) => (s.thr.all (fun (th : Thread) => th.pc == Pc.finished), s.done, s.term))
    = some (true, 1, true) := by decide

example : JobsOk exCfg := by intro code a h; simp [exCfg] at h

def exCfg2 : Cfg := { nworkers := 1, prog := fun _ => [], clients := [[.lut]], mainCalls := [] }
def exChoices2 : List (Nat × Nat) := [(0,0),(0,0),(0,0),(1,0),(1,0),(1,0),(1,0),(1,0),(1,0),(2,0),(2,0),(2,0),(2,0)]

example : ∃ s, Reachable exCfg2 s ∧ AtRest exCfg2 s ∧ s.wJ = [1] ∧ s.wF = [2] ∧ s.term = false ∧
    (getT s.thr 2).pc = .call 0 .waiting := by
  have hr : ∃ s, runChoices exCfg2 (init exCfg2) exChoices2 = some s ∧ s.wJ = [1] ∧ s.wF = [2] ∧ s.term = false ∧
      (getT s.thr 2).pc = .call 0 .waiting ∧ (∀ t, t < 4 → enabled exCfg2 s t = false) ∧ s.thr.length = 3 := by decide
  obtain ⟨s, hs, h1, h2, h3, h4, h5, h6⟩ := hr
  refine ⟨s, reachable_runChoices _ Reachable.init hs, ?_, h1, h2, h3, h4⟩
  intro t
  by_cases ht : t < 4
  · exact h5 t ht
  · unfold enabled
    have : s.thr[t]? = none := by simp; omega
    simp [this]


/-- `exCfg3`: an `init_thread` callback with one scheduling point; job code 0 enqueues a child, then throws (its
    third call is never made); the child and the main thread read `done()`; main waits with `loop_until_empty()`.
    The run ends with both jobs started and finished once, job 0 recorded as thrown, `done = 2`. -/
def exCfg3 : Cfg :=
  { nworkers := 1, initYields := 1, prog := fun c => if c = 0 then [.enq 1, .throw, .enq 1] else [.obsDone],
    clients := [], mainCalls := [.enq 0, .lue, .obsDone] }
def exChoices3 : List (Nat × Nat) := [(0,0),(0,0),(0,0),(0,0),(0,0),(0,0),(0,0),(1,0),(1,0),(1,0),(1,0),(1,0),(1,0),(1,0),(1,0),(1,0),(1,0),(1,0),(1,0),(1,0),(1,0),(1,0),(1,0),(1,0),(1,0),(1,0),(0,0),(0,0),(0,0),(1,0),(1,0),(1,0),(1,0),(1,0),(1,0),(1,0),(1,0),(1,0),(1,0),(0,0),(0,0),(0,0),(0,0),(0,0),(0,0),(0,0),(0,0),(0,0),(1,0),(1,0),(1,0),(1,0),(1,0),(0,0)]

example : (runChoices exCfg3 (init exCfg3) exChoices3).map
    (fun (s : State) => (s.started, s.finished, s.thrown, s.done)) = some ([0, 1], [0, 1], [0], 2) := by decide

example : (runChoices exCfg3 (init exCfg3) exChoices3).map
    (fun (s : State) => s.thr.all (fun (th : Thread) => th.pc == Pc.finished)) = some true := by decide

example : JobsOk exCfg3 := by
  intro code a h
  by_cases hc : code = 0 <;> simp [exCfg3, hc] at h
  · rcases h with rfl | rfl | rfl <;> simp
  · subst h; simp


/-- `exCfg4` (fork-join idiom): job code 1 enqueues a child; the destructor of its closure enqueues the
    continuation (another job of code 0) and reads `done()`.  Main enqueues it and waits with `loop_until_empty()`:
    three jobs are started, finished and destroyed, `done = 3`. -/
def exCfg4 : Cfg :=
  { nworkers := 1, prog := fun c => if c = 1 then [.enq 0] else [],
    dprog := fun c => if c = 1 then [.enq 0, .obsDone] else [], clients := [], mainCalls := [.enq 1, .lue] }
def exChoices4 : List (Nat × Nat) := [(0,0),(0,0),(0,0),(0,0),(0,0),(0,0),(0,0),(1,0),(1,0),(1,0),(1,0),(1,0),(1,0),(1,0),(1,0),(1,0),(1,0),(1,0),(1,0),(1,0),(1,0),(1,0),(1,0),(1,0),(1,0),(1,0),(1,0),(1,0),(1,0),(0,0),(0,0),(1,0),(1,0),(1,0),(1,0),(1,0),(1,0),(1,0),(1,0),(1,0),(0,0),(0,0),(0,0),(1,0),(1,0),(1,0),(1,0),(1,0),(1,0),(1,0),(1,0),(1,0),(0,0),(0,0),(0,0),(0,0),(0,0),(0,0),(0,0),(0,0),(1,0),(1,0),(1,0),(1,0),(1,0),(0,0)]

example : (runChoices exCfg4 (init exCfg4) exChoices4).map
    (fun (s : State) => (s.started, s.finished, s.destroyed, s.done)) = some ([0, 1, 2], [0, 1, 2], [0, 1, 2], 3) := by decide

example : JobsOk exCfg4 := by
  intro code a h
  by_cases hc : code = 1 <;> simp [exCfg4, hc] at h
  · rcases h with rfl | rfl | rfl <;> simp

/-! ### termination does not wait for, or start, queued jobs (the two halves of the argument) -/

/-- **`terminate_` is written only under the pool mutex**: a transition that changes the flag is taken by a thread
    that owns the mutex. -/
theorem pool_terminate_under_mutex {cfg : Cfg} {s : State} (hr : Reachable cfg s) {t c : Nat} {o}
    (h : step cfg s t c = some o) (hne : o.st.term ≠ s.term) : s.owner = some t := by
  have hm := (reachable_invB hr).mutex t
  have hf : o.st.term = s.term ∨ holds (getT s.thr t).pc = true := by
    pool_step_cases h
    all_goals (first
      | (left; simp; done)
      | (left; simp [beginScript, afterCall, endOfScriptDes]; done)
      | (right
         have hth := getT_of_getElem? ‹s.thr[t]? = some _›
         rw [hth]; simp [holds, holdsC, *]; done))
  rcases hf with hf | hf
  · exact absurd hf hne
  · exact hm.mp hf

/-- **A job is picked only under the pool mutex, at the `++busy_` point**: a transition that starts a job
    (`started` grows) is taken by a worker at `wBusyInc` that owns the mutex — the program point reached only from
    the check `if (terminate_) break;` (`wLoadTerm3`) read as `false` in the same critical section. -/
theorem pool_pick_under_mutex {cfg : Cfg} {s : State} (hr : Reachable cfg s) {t c : Nat} {o}
    (h : step cfg s t c = some o) (hne : o.st.started ≠ s.started) :
    s.owner = some t ∧ (getT s.thr t).pc = .wBusyInc := by
  have hm := (reachable_invB hr).mutex t
  pool_step_cases h
  all_goals (first
    | (exfalso; apply hne; simp; done)
    | (exfalso; apply hne; simp [beginScript, afterCall, endOfScriptDes]; done)
    | skip)
  all_goals (
    have hth := getT_of_getElem? ‹s.thr[t]? = some _›
    rw [hth] at hm ⊢
    refine ⟨hm.mp (by simp [holds, *]), by assumption⟩)
end TlxVerif.C10
