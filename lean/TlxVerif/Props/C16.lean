import TlxVerif.Model.C16RingBuffer
import TlxVerif.Model.C16SimpleVector
namespace TlxVerif.C16
theorem roundUpPow2_ge (n : Nat) : n ≤ roundUpPow2 n := by
  unfold roundUpPow2
  split
  · omega
  · have := @Nat.lt_log2_self (n - 1)
    omega
end TlxVerif.C16
