import TlxVerif.Model.C16Machine
import TlxVerif.Model.C16SimpleVector
import TlxVerif.Proofs.C16Refine
/-!
# C16 — RingBuffer is a bounded deque; RingBuffer and SimpleVector keep element lifetimes exact

Model: `Model/C16RingBuffer.lean` (member functions), `Model/C16Machine.lean`
(`stepOp`: the operation language executed by the driver; `specStep`: the
bounded-deque specification with the documented preconditions),
`Model/C16SimpleVector.lean`.  Helper lemmas: `Proofs/C16*.lean`.
-/
namespace TlxVerif.C16

/-- run a history on the ring-buffer machine (stops at the first lifetime error) -/
def runOps (rs : Regs) : List Op → Option (Regs × List Out)
  | [] => some (rs, [])
  | op :: ops => do
      let (rs1, o) ← stepOp rs op
      let (rs2, os) ← runOps rs1 ops
      pure (rs2, o :: os)

/-- run a history on the bounded-deque specification (stops when an operation is not permitted) -/
def specOps (as : ARegs) : List Op → Option (ARegs × List Out)
  | [] => some (as, [])
  | op :: ops => do
      let (as1, o) ← specStep as op
      let (as2, os) ← specOps as1 ops
      pure (as2, o :: os)

/-- **Refinement for every history.**  For every operation history that respects
the capacity (i.e. that the bounded-deque specification permits), started from
corresponding states, the ring buffer executes the whole history without
constructing over a live object, destroying raw storage or reading a dead slot,
gives exactly the specification's answers (front, back, indexing, size,
emptiness, element listings), and ends in a corresponding state. -/
theorem history_refines {rs : Regs} {as as' : ARegs} {ops : List Op} {outs : List Out}
    (h : RegsRep rs as) (hs : specOps as ops = some (as', outs)) :
    ∃ rs', runOps rs ops = some (rs', outs) ∧ RegsRep rs' as' := by
  induction ops generalizing rs as outs with
  | nil =>
    simp [specOps] at hs; obtain ⟨rfl, rfl⟩ := hs
    exact ⟨rs, rfl, h⟩
  | cons op ops ih =>
    simp only [specOps, Option.bind_eq_bind] at hs
    cases h1 : specStep as op with
    | none => simp [h1] at hs
    | some p1 =>
      obtain ⟨as1, o⟩ := p1
      simp only [h1, Option.bind_some] at hs
      cases h2 : specOps as1 ops with
      | none => simp [h2] at hs
      | some p2 =>
        obtain ⟨as2, os⟩ := p2
        simp [h2] at hs; obtain ⟨rfl, rfl⟩ := hs
        obtain ⟨rs1, hr1, hrep1⟩ := step_refines h h1
        obtain ⟨rs2, hr2, hrep2⟩ := ih hrep1 h2
        exact ⟨rs2, by simp [runOps, hr1, hr2], hrep2⟩

theorem regsRep_empty (n : Nat) : RegsRep (List.replicate n none) (List.replicate n none) := by
  refine ⟨by simp, fun i => ?_⟩
  unfold getObj agetObj
  by_cases hi : i < n <;> simp [List.getElem?_replicate, hi] <;> exact .none

/-- **C16, deque part:** every permitted history over `n` initially empty registers -/
theorem ringbuffer_is_bounded_deque (n : Nat) {ops : List Op} {as' : ARegs} {outs : List Out}
    (hs : specOps (List.replicate n none) ops = some (as', outs)) :
    ∃ rs', runOps (List.replicate n none) ops = some (rs', outs) ∧ RegsRep rs' as' :=
  history_refines (regsRep_empty n) hs

/-! ### Element lifetimes -/

/-- live element objects in all buffers of a register file -/
def liveObjects : Regs → Nat
  | [] => 0
  | none :: rs => liveObjects rs
  | some r :: rs => (r.slots.filter Option.isSome).length + liveObjects rs

/-- elements stored in all deques of an abstract register file -/
def storedElems : ARegs → Nat
  | [] => 0
  | some (.buf _ xs) :: as => xs.length + storedElems as
  | _ :: as => storedElems as

theorem RegsRep.tail {a : Option RB} {b : Option AObj} {rs : Regs} {as : ARegs}
    (h : RegsRep (a :: rs) (b :: as)) : ObjRep a b ∧ RegsRep rs as := by
  refine ⟨by simpa [getObj, agetObj] using h.2 0, by simpa using h.1, fun i => ?_⟩
  simpa [getObj, agetObj] using h.2 (i + 1)

/-- **C16, lifetime part (count):** in every reachable state the number of live
element objects equals the number of stored elements. -/
theorem live_eq_stored {rs : Regs} {as : ARegs} (h : RegsRep rs as) : liveObjects rs = storedElems as := by
  induction rs generalizing as with
  | nil =>
    have : as = [] := List.length_eq_zero_iff.mp (by simpa using h.1.symm)
    subst this; rfl
  | cons a rs ih =>
    cases as with
    | nil => exact absurd h.1 (by simp)
    | cons b as =>
      obtain ⟨hab, ht⟩ := h.tail
      have := ih ht
      cases hab with
      | none => simpa [liveObjects, storedElems] using this
      | shell hsh _ => simp [liveObjects, storedElems, hsh.slots, this]
      | buf hr _ => simp [liveObjects, storedElems, hr.live_count, this]

/-- **C16, lifetime part (which):** a slot of `data_` holds a live element object
if and only if it is one of the currently stored elements (offsets `0 .. size-1`
from `begin_`, cyclically), and then it holds exactly that element. -/
theorem slot_alive_iff_stored {k : Nat} {r : RB} {xs : List Elem} (h : Rep k r xs) {j : Nat} (hj : j < 2 ^ k) :
    r.slots[(r.b + j) % 2 ^ k]? = some xs[j]? ∧
    ((r.slots[(r.b + j) % 2 ^ k]?).join.isSome = decide (j < xs.length)) :=
  ⟨h.slot j hj, h.alive_iff hj⟩

/-- every permitted history ends with live objects = stored elements, and destroying
all containers afterwards leaves nothing alive -/
theorem lifetimes_exact (n : Nat) {ops : List Op} {as' : ARegs} {outs : List Out}
    (hs : specOps (List.replicate n none) ops = some (as', outs)) :
    ∃ rs', runOps (List.replicate n none) ops = some (rs', outs) ∧ liveObjects rs' = storedElems as' := by
  obtain ⟨rs', hr, hrep⟩ := ringbuffer_is_bounded_deque n hs
  exact ⟨rs', hr, live_eq_stored hrep⟩

/-- the destructor of any reachable buffer releases storage with no live object in it -/
theorem dtor_leaves_nothing {o : Option RB} {a : AObj} (h : ObjRep o (some a)) :
    ∃ r, o = some r ∧ r.dtor = some 0 := by
  cases h with
  | shell hsh _ => exact ⟨_, rfl, hsh.dtor⟩
  | buf hr _ => exact ⟨_, rfl, hr.dtor⟩

/-- the capacity chosen by the constructor is a power of two strictly above `max_size` -/
theorem roundUpPow2_ge (n : Nat) : n ≤ roundUpPow2 n := by
  unfold roundUpPow2
  split
  · omega
  · have := @Nat.lt_log2_self (n - 1)
    omega

/-! ### Non-vacuity: concrete histories the specification permits -/

/-- wrap-around of both cursors, copy, move, assignment, deallocate/allocate, destruction -/
def demoOps : List Op :=
  [.new 0 3, .pushF 0 1, .pushB 0 2, .pushF 0 3, .popB 0, .pushB 0 4, .at 0 2, .copyCtor 1 0,
   .popF 0, .popF 0, .pushB 0 5, .pushB 0 6, .moveCtor 2 0, .alloc 0 1, .assign 0 1, .front 0,
   .dealloc 1, .alloc 1 5, .moveAssign 1 2, .back 1, .size 1, .dtor 0, .dtor 1, .dtor 2]

example : (specOps (List.replicate 3 none) demoOps).isSome = true := by decide
example : (runOps (List.replicate 3 none) demoOps).map (·.2) =
    (specOps (List.replicate 3 none) demoOps).map (·.2) := by decide
/-- a history that exceeds the capacity is *not* permitted by the specification … -/
example : specOps (List.replicate 1 none) [.new 0 1, .pushB 0 1, .pushB 0 2] = none := by decide
/-- … and indeed the unguarded C++ code would then construct over a live object -/
example : runOps (List.replicate 1 none) [.new 0 1, .pushB 0 1, .pushB 0 2, .pushB 0 3] = none := by decide

/-! ### SimpleVector (default mode) -/

/-- **SimpleVector lifetimes:** every operation changes the number of live element
objects by exactly (constructed − destroyed), and the live objects are exactly the
`size()` stored ones. -/
def SV.Ok (v : SV) : Prop := v.live = v.size ∧ (v.arr = none → v.size = 0)

theorem sv_new (n : Nat) : (SV.new n).1.Ok ∧ (SV.new n).1.live = (SV.new n).2.1 := by
  unfold SV.new; split <;> simp [SV.Ok, SV.live, createArray]

theorem sv_resize (v : SV) (n : Nat) (h : v.Ok) :
    (v.resize n).1.Ok ∧ (v.resize n).1.live + (v.resize n).2.2 = v.live + (v.resize n).2.1 ∧
    (v.resize n).1.size = n := by
  unfold SV.resize
  cases ha : v.arr with
  | none => simp [SV.Ok, SV.live, createArray, ha]
  | some old =>
    have hl : old.length = v.size := by simpa [SV.Ok, SV.live, ha] using h.1
    simp [SV.Ok, SV.live, createArray, moveInto, ha, hl]
    omega

/-- `resize` keeps the first `min(old size, new size)` elements and value-initialises the rest -/
theorem sv_resize_contents (v : SV) (n : Nat) (old : List Int) (ha : v.arr = some old) (hl : old.length = v.size) :
    (v.resize n).1.arr = some (old.take (min v.size n) ++ List.replicate (n - min v.size n) 0) := by
  simp [SV.resize, ha, moveInto, createArray]

/-- **Exception neutrality of `resize` / construction:** when an element constructor throws,
the vector is unchanged, every object constructed so far has been destroyed again, and the
live objects are still exactly the stored ones. -/
theorem sv_resize_throw (v : SV) (n k : Nat) (h : v.Ok) (hk : 1 ≤ k ∧ k ≤ n) :
    (v.resizeThrow n k).1 = v ∧ (v.resizeThrow n k).2.1.1 = (v.resizeThrow n k).2.1.2 ∧
    (v.resizeThrow n k).2.2 = true ∧ (v.resizeThrow n k).1.Ok := by
  simp [SV.resizeThrow, createArrayThrows, hk, h]

theorem sv_new_throw (n k : Nat) (hk : 1 ≤ k ∧ k ≤ n) :
    (SV.newThrow n k).1 = {} ∧ (SV.newThrow n k).2.1.1 = (SV.newThrow n k).2.1.2 ∧ (SV.newThrow n k).1.Ok := by
  have hn : n > 0 := by omega
  simp [SV.newThrow, createArrayThrows, hk, hn, SV.Ok, SV.live]

theorem sv_resize_nothrow (v : SV) (n k : Nat) (hk : ¬ (1 ≤ k ∧ k ≤ n)) :
    (v.resizeThrow n k).1 = (v.resize n).1 ∧ (v.resizeThrow n k).2.2 = false := by
  simp [SV.resizeThrow, createArrayThrows, hk]

theorem sv_destroy (v : SV) : (v.destroy).1.Ok ∧ (v.destroy).1.live + (v.destroy).2.2 = v.live := by
  simp [SV.destroy, SV.Ok, SV.live]

theorem sv_dtor (v : SV) : v.dtor.2 = v.live := rfl

theorem sv_moveAssign (dst src : SV) (hs : src.Ok) :
    (dst.moveAssign src).1.Ok ∧ (dst.moveAssign src).2.1.Ok ∧
    (dst.moveAssign src).1.live + (dst.moveAssign src).2.1.live + (dst.moveAssign src).2.2.2 = dst.live + src.live := by
  simp [SV.moveAssign, SV.Ok, SV.live] at *
  exact ⟨hs, by omega⟩

theorem sv_fill_set (v : SV) (h : v.Ok) (x : Int) (i : Nat) : (v.fill x).Ok ∧ (v.set i x).Ok := by
  unfold SV.Ok SV.live at *
  cases ha : v.arr <;> simp [SV.fill, SV.set, ha] at * <;> exact h

example : ({ size := 2, arr := some [7, 8] } : SV).Ok := by simp [SV.Ok, SV.live]

end TlxVerif.C16
