import TlxVerif.Model.C18Spec
import TlxVerif.Model.C18StringView
import TlxVerif.Model.C18Old
namespace TlxVerif.C18

/-! ## The defects of the pinned tree, as machine-checked disagreements with the spec -/

/-- D14: `copy(s, n, pos)` copied from `data()` instead of `data() + pos` -/
theorem old_copy_ne_spec : Old.copy [97, 98, 99] 1 1 ≠ Spec.copy [97, 98, 99] 1 1 := by decide

/-- D15: `compare` via `strncmp` stops at an embedded NUL -/
theorem old_compare_ne_spec : Old.compare [97, 0, 98] [97, 0, 99] ≠ Spec.compare [97, 0, 98] [97, 0, 99] := by decide

/-- D16: `rfind` via `strncmp` reports a match behind an embedded NUL -/
theorem old_rfind_ne_spec : Old.rfind [97, 0, 98] [97, 0, 99] npos ≠ Spec.rfind [97, 0, 98] [97, 0, 99] npos := by decide

/-- D17: `operator<` compared plain (signed) `char` -/
theorem old_lt_ne_spec : Old.lt [0x80] [97] ≠ Spec.lt [0x80] [97] := by decide

end TlxVerif.C18
