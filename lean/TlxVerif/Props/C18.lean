/-
C18 — tlx::StringView answers every query exactly like std::string_view.

Theorems: for every method the transliterated model (Model/C18StringView.lean,
the code *after* the `fix:` commits) equals the specification transcribed from
[string.view] (Model/C18Spec.lean), for all byte strings and all position / count
arguments.  The model is tied to the real class, and the specification to
libstdc++'s std::string_view, by the correspondence (checks/c18.py).
The last section keeps the defects of the pinned tree as proved disagreements.
-/
import TlxVerif.Model.C18Spec
import TlxVerif.Model.C18StringView
import TlxVerif.Model.C18Old
import TlxVerif.Proofs.C18Basic
import TlxVerif.Proofs.C18Search
import TlxVerif.Proofs.C18Find
import TlxVerif.Proofs.C18Huge
namespace TlxVerif.C18
open Spec

/-! ## comparison -/

/-- `compare(v)`: same sign as the standard's definition -/
theorem compare_eq (a b : Bytes) : Model.compare a b = Spec.compare a b := by
  unfold Model.compare Spec.compare
  rw [traitsCompare_min]
  by_cases hc : cmpBytes a b = 0
  · simp only [hc, ne_eq, not_true_eq_false, if_false]
    by_cases h1 : a.length = b.length
    · simp [h1]
    · by_cases h2 : a.length < b.length
      · simp [h1, h2]
      · simp [h1, h2]
  · simp [hc]

example : Model.compare [97, 0, 98] [97, 0, 99] = -1 ∧ Model.compare [0x80] [97] = 1 := by decide

/-- `substr(pos, n)`: same exception condition, same offset, same bytes -/
theorem substr_eq (h : Bytes) (pos n : Nat) : Model.substr h pos n = Spec.substr h pos n := by
  unfold Model.substr Spec.substr Spec.sub
  rw [Nat.min_comm]

example : Model.substr [1, 2, 3] 1 npos = some (1, [2, 3]) ∧ Model.substr [1, 2, 3] 4 0 = none := by decide

/-- `copy(s, n, pos)`: same exception condition, same count, same bytes written -/
theorem copy_eq (h : Bytes) (n pos : Nat) : Model.copy h n pos = Spec.copy h n pos := rfl

example : Model.copy [1, 2, 3] 1 1 = some (1, [2]) := by decide

theorem compare3_eq (h : Bytes) (pos1 n1 : Nat) (x : Bytes) :
    Model.compare3 h pos1 n1 x = Spec.compare3 h pos1 n1 x := by
  unfold Model.compare3 Spec.compare3
  rw [substr_eq]
  cases Spec.substr h pos1 n1 <;> simp [compare_eq]

theorem compare5_eq (h : Bytes) (pos1 n1 : Nat) (x : Bytes) (pos2 n2 : Nat) :
    Model.compare5 h pos1 n1 x pos2 n2 = Spec.compare5 h pos1 n1 x pos2 n2 := by
  unfold Model.compare5 Spec.compare5
  rw [substr_eq, substr_eq]
  cases Spec.substr h pos1 n1 <;> cases Spec.substr x pos2 n2 <;> simp [compare_eq]

/-- `at(pos)`: throws exactly for `pos >= size()` -/
theorem at_eq (h : Bytes) (pos : Nat) : Model.at? h pos = Spec.at? h pos := rfl

/-- member `operator==` (size test + `std::equal`) is `compare(...) == 0` -/
theorem eq_eq (a b : Bytes) : Model.eq a b = Spec.eq a b := by
  unfold Model.eq Spec.eq
  by_cases hl : a.length = b.length
  · have h1 := stdEqual_iff_eq a b hl
    have h2 := compare_eq_zero_iff a b
    by_cases e : a = b
    · have : Model.stdEqual a b = true := h1.mpr e
      simp [hl, this, h2.mpr e]
    · have : Model.stdEqual a b = false := by
        cases hs : Model.stdEqual a b
        · rfl
        · exact absurd (h1.mp hs) e
      have h3 : Spec.compare a b ≠ 0 := fun h => e (h2.mp h)
      simp [this, h3]
  · have h3 : Spec.compare a b ≠ 0 := fun h => hl (by rw [(compare_eq_zero_iff a b).mp h])
    have hb : (a.length == b.length) = false := beq_eq_false_iff_ne.mpr hl
    have hc : (Spec.compare a b == 0) = false := beq_eq_false_iff_ne.mpr h3
    rw [hb, hc]; rfl

theorem ne_eq_spec (a b : Bytes) : Model.ne a b = Spec.ne a b := by
  unfold Model.ne Spec.ne
  rw [eq_eq]
  rfl

/-- member `operator<` orders bytes as `unsigned char` -/
theorem lt_eq (a b : Bytes) : Model.lt a b = Spec.lt a b := by
  unfold Model.lt Spec.lt; rw [compare_eq]

theorem gt_eq (a b : Bytes) : Model.gt a b = Spec.gt a b := by
  unfold Model.gt Spec.gt; rw [lt_eq]; unfold Spec.lt
  rw [compare_swap a b]
  by_cases h : Spec.compare a b > 0
  · simp [h]
  · simp [h]

theorem le_eq (a b : Bytes) : Model.le a b = Spec.le a b := by
  unfold Model.le Spec.le; rw [lt_eq]; unfold Spec.lt
  rw [compare_swap a b]
  by_cases h : Spec.compare a b ≤ 0
  · simp [h]
  · simp [h]; omega

theorem ge_eq (a b : Bytes) : Model.ge a b = Spec.ge a b := by
  unfold Model.ge Spec.ge; rw [lt_eq]; unfold Spec.lt
  by_cases h : Spec.compare a b ≥ 0
  · simp [h]
  · simp [h]; omega

/-- the free `operator==` / `operator<` overloads taking a `std::string` -/
theorem eqStr_eq (a b : Bytes) : Model.eqStr a b = Spec.eq a b := eq_eq a b
theorem ltStr_eq (a b : Bytes) : Model.ltStr a b = Spec.lt a b := lt_eq a b

example : Model.lt [97] [0x80] = true ∧ Model.lt [0x80] [97] = false ∧ Model.ge [0xFF] [0] = true := by decide

/-! ## starts_with / ends_with, prefix / suffix removal -/

theorem startsWith_eq (h x : Bytes) : Model.startsWith h x = Spec.startsWith h x := by
  unfold Model.startsWith Spec.startsWith Spec.substr Spec.sub
  simp only [Nat.not_lt_zero, gt_iff_lt, if_false, List.drop_zero, Nat.sub_zero, Spec.eq]
  by_cases hl : x.length ≤ h.length
  · have hlen : (h.take x.length).length = x.length := by simp [List.length_take, Nat.min_eq_left hl]
    have h1 := stdEqual_iff_eq (h.take x.length) x hlen
    rw [Nat.min_eq_left hl]
    have h2 := compare_eq_zero_iff (h.take x.length) x
    by_cases e : h.take x.length = x
    · simp [hl, h1.mpr e, h2.mpr e]
    · have : Model.stdEqual (h.take x.length) x = false := by
        cases hs : Model.stdEqual (h.take x.length) x
        · rfl
        · exact absurd (h1.mp hs) e
      have h3 : Spec.compare (h.take x.length) x ≠ 0 := fun hh => e (h2.mp hh)
      simp [this, h3]
  · have hl' : ¬ h.length ≥ x.length := by omega
    rw [Nat.min_eq_right (by omega)]
    have : h ≠ x := fun e => by
      have := congrArg List.length e
      omega
    have h3 : Spec.compare h x ≠ 0 := fun hh => this ((compare_eq_zero_iff _ _).mp hh)
    simp [hl', h3]

theorem endsWith_eq (h x : Bytes) (hx : x.length ≤ npos) : Model.endsWith h x = Spec.endsWith h x := by
  unfold Model.endsWith Spec.endsWith Spec.compare3 Spec.substr Spec.sub
  by_cases hl : x.length ≤ h.length
  · have hpos : ¬ h.length - x.length > h.length := by omega
    have hmin : min npos (h.length - (h.length - x.length)) = x.length := by
      omega
    simp only [hpos, if_false, Option.map_some, hmin]
    have hlen : (h.drop (h.length - x.length)).length = x.length := by simp; omega
    have htake : (h.drop (h.length - x.length)).take x.length = h.drop (h.length - x.length) := by
      apply List.take_of_length_le; omega
    rw [htake]
    have h1 := stdEqual_iff_eq (h.drop (h.length - x.length)) x hlen
    have h2 := compare_eq_zero_iff (h.drop (h.length - x.length)) x
    by_cases e : h.drop (h.length - x.length) = x
    · simp [hl, h1.mpr e, h2.mpr e]
    · have : Model.stdEqual (h.drop (h.length - x.length)) x = false := by
        cases hs : Model.stdEqual (h.drop (h.length - x.length)) x
        · rfl
        · exact absurd (h1.mp hs) e
      have h3 : Spec.compare (h.drop (h.length - x.length)) x ≠ 0 := fun hh => e (h2.mp hh)
      simp [this, h3]
  · have hl' : ¬ h.length ≥ x.length := by omega
    simp [hl']

theorem startsWithC_eq (h : Bytes) (c : UInt8) : Model.startsWithC h c = Spec.startsWithC h c := by
  unfold Model.startsWithC Spec.startsWithC Model.front?
  cases h <;> simp

theorem endsWithC_eq (h : Bytes) (c : UInt8) : Model.endsWithC h c = Spec.endsWithC h c := by
  unfold Model.endsWithC Spec.endsWithC Model.back?
  cases h with
  | nil => simp
  | cons x t => simp [List.getLast?_eq_getElem?]

example : Model.startsWith [0, 0x80, 97] [0, 0x80] = true ∧ Model.endsWith [0, 0x80, 97] [0x80, 97] = true := by decide

/-- `remove_prefix(n)` / `remove_suffix(n)` agree with the standard wherever it is defined (`n ≤ size()`) -/
theorem removePrefix_eq (h : Bytes) (n : Nat) (hn : n ≤ h.length) : Model.removePrefix h n = Spec.removePrefix h n := by
  unfold Model.removePrefix Spec.removePrefix
  have : ¬ n > h.length := by omega
  simp [this]

theorem removeSuffix_eq (h : Bytes) (n : Nat) (hn : n ≤ h.length) : Model.removeSuffix h n = Spec.removeSuffix h n := by
  unfold Model.removeSuffix Spec.removeSuffix
  have : ¬ n > h.length := by omega
  simp [this]

/-! ## the find family -/

/-- `find(v, pos)`: the lowest `xpos ≥ pos` with `xpos + v.size() ≤ size()` at which `v` occurs, else `npos` -/
theorem find_eq (h s : Bytes) (pos : Nat) : Model.find h s pos = Spec.find h s pos := by
  unfold Model.find Spec.find
  by_cases hp : pos > h.length
  · rw [least_none_of_pos_gt _ pos (h.length + 1) (by omega)]
    simp [hp]
  · have hpos : pos ≤ h.length := by omega
    simp only [hp, if_false]
    rw [least_from_pos _ pos (h.length + 1) (by omega)]
    have hfuel : h.length + 1 - pos = (h.length - pos) + 1 := by omega
    rw [hfuel]
    by_cases hs : s = []
    · subst hs
      have : matchAt h [] pos = true := by
        unfold matchAt sub; simp [hpos]
      simp [leastFrom, this]
    · have hse : s.isEmpty = false := by
        cases s with
        | nil => exact absurd rfl hs
        | cons _ _ => rfl
      simp only [hse, Bool.false_eq_true, if_false]
      have hlast : matchAt h s (pos + (h.length - pos)) = false := by
        apply matchAt_false_of_gt
        have : 0 < s.length := List.length_pos_iff.mpr hs
        omega
      rw [leastFrom_succ_false _ _ hlast]
      have hl : (h.drop pos).length = h.length - pos := by simp
      have hscan := leastFrom_firstIdx (fun r => s.isPrefixOf r) (h.drop pos) pos (matchAt h s)
        (fun x hx => by
          rw [List.drop_drop]
          simp only [List.length_drop] at hx
          exact matchAt_eq_isPrefixOf h s (pos + x) (by omega))
      have hle := firstIdx_le (fun r => s.isPrefixOf r) (h.drop pos)
      rw [hl] at hscan hle
      rw [hscan, stdSearch_eq_firstIdx, hl]
      exact fwd_result _ _ _ hle

example : Model.find [97, 0, 98, 97, 0, 99] [97, 0, 99] 0 = 3 ∧ Model.find [97] [] 1 = 1 ∧
    Model.find [97] [] 2 = npos := by decide

/-- `find_first_of(v, pos)` -/
theorem findFirstOf_eq (h s : Bytes) (pos : Nat) : Model.findFirstOf h s pos = Spec.findFirstOf h s pos := by
  unfold Model.findFirstOf Spec.findFirstOf
  by_cases hp : pos ≥ h.length
  · rw [least_none_of_pos_gt _ pos h.length hp]
    simp [hp]
  · have hpos : pos ≤ h.length := by omega
    rw [least_scan (headPred fun c => s.contains c) (isIn h s) h pos hpos
      (fun y _ hy => isIn_eq_head h s y hy)]
    rw [← stdFindFirstOf_eq_headPred]
    have hle : Model.stdFindFirstOf (h.drop pos) s ≤ (h.drop pos).length := by
      rw [stdFindFirstOf_eq_headPred]; exact firstIdx_le _ _
    by_cases hs : s.length = 0
    · have hs' : s = [] := List.length_eq_zero_iff.mp hs
      subst hs'
      simp [stdFindFirstOf_nil]
    · have hcond : ¬ (pos ≥ h.length ∨ s.length = 0) := by
        intro hc; cases hc with
        | inl h1 => exact hp h1
        | inr h2 => exact hs h2
      simp only [hcond, if_false]
      exact fwd_result _ _ _ hle

/-- `find_first_not_of(v, pos)` -/
theorem findFirstNotOf_eq (h s : Bytes) (pos : Nat) :
    Model.findFirstNotOf h s pos = Spec.findFirstNotOf h s pos := by
  unfold Model.findFirstNotOf Spec.findFirstNotOf
  by_cases hp : pos ≥ h.length
  · rw [least_none_of_pos_gt _ pos h.length hp]
    simp [hp]
  · have hpos : pos ≤ h.length := by omega
    rw [least_scan (headPred fun c => !s.contains c) (notIn h s) h pos hpos
      (fun y _ hy => notIn_eq_head h s y hy)]
    rw [← findNotOf_eq_headPred]
    simp only [hp, if_false]
    have hle : Model.findNotOf (h.drop pos) s ≤ (h.drop pos).length := by
      rw [findNotOf_eq_headPred]; exact firstIdx_le _ _
    by_cases hs : s.length = 0
    · have hs' : s = [] := List.length_eq_zero_iff.mp hs
      subst hs'
      cases hd : h.drop pos with
      | nil =>
        have := congrArg List.length hd
        simp at this; omega
      | cons c t => simp [findNotOf_nil_cons]
    · simp only [hs, if_false]
      exact fwd_result _ _ _ hle

example : Model.findFirstOf [97, 0x80, 0] [0, 0x80] 0 = 1 ∧ Model.findFirstNotOf [97, 97, 0] [97] 1 = 2 := by decide

/-- `rfind(v, pos)`: the highest `xpos ≤ pos` at which `v` occurs -/
theorem rfind_eq (h s : Bytes) (pos : Nat) : Model.rfind h s pos = Spec.rfind h s pos := by
  unfold Model.rfind Spec.rfind
  by_cases hl : h.length < s.length
  · rw [greatest_none]
    · simp [hl]
    · intro x _
      have : matchAt h s x = false := matchAt_false_of_gt h s x (by omega)
      simp [this]
  · simp only [hl, if_false]
    rw [greatest_le_pos]
    -- positions above |h| - |s| cannot match
    have hcut : greatest (matchAt h s) (min (pos + 1) (h.length + 1)) =
        greatest (matchAt h s) (min pos (h.length - s.length) + 1) := by
      by_cases hm : min (pos + 1) (h.length + 1) ≤ min pos (h.length - s.length) + 1
      · have : min (pos + 1) (h.length + 1) = min pos (h.length - s.length) + 1 := by omega
        rw [this]
      · have hk : min (pos + 1) (h.length + 1) =
            (min pos (h.length - s.length) + 1) + (min (pos + 1) (h.length + 1) - (min pos (h.length - s.length) + 1)) := by
          omega
        rw [hk, greatest_cut]
        intro x hx1 _
        exact matchAt_false_of_gt h s x (by omega)
    rw [hcut]
    have hpos' : (if pos > h.length - s.length then h.length - s.length else pos) = min pos (h.length - s.length) := by
      split <;> omega
    rw [hpos']
    by_cases hs : s.length = 0
    · have hs' : s = [] := List.length_eq_zero_iff.mp hs
      subst hs'
      have hle : min pos (h.length - ([] : Bytes).length) ≤ h.length := by omega
      have : matchAt h [] (min pos (h.length - ([] : Bytes).length)) = true := by
        unfold matchAt sub
        have hle2 : min pos h.length ≤ h.length := by omega
        simp [hle2]
      simp only [greatest, this, if_true, Option.getD_some]
      simp
    · simp only [hs, if_false]
      rw [rfindLoop_eq_greatest]
      congr 1
      apply greatest_congr
      intro x hx
      have hx' : x + s.length ≤ h.length := by omega
      unfold matchAt sub
      have hlen : s.length ≤ (h.drop x).length := by simp; omega
      have := traitsCompare_eq_zero_iff (h.drop x) s hlen
      rw [Bool.eq_iff_iff]
      simp only [beq_iff_eq, Bool.and_eq_true, decide_eq_true_eq]
      rw [this]
      constructor
      · intro e; exact ⟨hx', e⟩
      · intro ⟨_, e⟩; exact e

example : Model.rfind [97, 0, 98, 97, 0, 99] [97, 0] npos = 3 ∧ Model.rfind [97, 0, 98] [97, 0, 99] npos = npos := by
  decide

/-- `find_last_of(v, pos)` -/
theorem findLastOf_eq (h s : Bytes) (pos : Nat) : Model.findLastOf h s pos = Spec.findLastOf h s pos := by
  unfold Model.findLastOf Spec.findLastOf
  rw [greatest_le_pos, isIn_eq_posPred]
  have hm : min (pos + 1) h.length ≤ h.length := by omega
  rw [greatest_scan _ h _ hm]
  have hpos' : (if pos ≥ h.length then 0 else h.length - (pos + 1)) = h.length - min (pos + 1) h.length := by
    split <;> omega
  rw [hpos']
  simp only [← stdFindFirstOf_eq_headPred]
  have hrl : (h.reverse.drop (h.length - min (pos + 1) h.length)).length = min (pos + 1) h.length := by
    simp; omega
  by_cases hs : s.length = 0
  · have hs' : s = [] := List.length_eq_zero_iff.mp hs
    subst hs'
    simp [stdFindFirstOf_nil]
  · simp only [hs, if_false]
    have hle : Model.stdFindFirstOf (h.reverse.drop (h.length - min (pos + 1) h.length)) s ≤
        (h.reverse.drop (h.length - min (pos + 1) h.length)).length := by
      rw [stdFindFirstOf_eq_headPred]; exact firstIdx_le _ _
    exact bwd_result _ _ _ _ _ hle hrl rfl hm

/-- `find_last_not_of(v, pos)` (the model's `size_ - 1` wrap-around needs `size() < 2^64`) -/
theorem findLastNotOf_eq (h s : Bytes) (pos : Nat) (hsz : h.length < 18446744073709551616) :
    Model.findLastNotOf h s pos = Spec.findLastNotOf h s pos := by
  unfold Model.findLastNotOf Spec.findLastNotOf
  rw [greatest_le_pos, notIn_eq_posPred]
  have hm : min (pos + 1) h.length ≤ h.length := by omega
  rw [greatest_scan _ h _ hm]
  simp only [← findNotOf_eq_headPred]
  by_cases hz : h.length = 0
  · -- empty view: `size_ - 1` wraps to npos
    have hh : h = [] := List.length_eq_zero_iff.mp hz
    subst hh
    by_cases hs : s.length = 0
    · simp [hs, Model.wsub, npos]
    · simp [hs, Model.wsub, Model.wadd, Model.findNotOf]
  · have hpos1 : (if pos ≥ h.length then Model.wsub h.length 1 else pos) = min (pos + 1) h.length - 1 := by
      unfold Model.wsub
      split <;> omega
    rw [hpos1]
    have hpos2 : Model.wsub h.length (Model.wadd (min (pos + 1) h.length - 1) 1) =
        h.length - min (pos + 1) h.length := by
      unfold Model.wsub Model.wadd
      omega
    have hrl : (h.reverse.drop (h.length - min (pos + 1) h.length)).length = min (pos + 1) h.length := by
      simp; omega
    by_cases hs : s.length = 0
    · have hs' : s = [] := List.length_eq_zero_iff.mp hs
      subst hs'
      simp only [List.length_nil, if_true]
      cases hd : h.reverse.drop (h.length - min (pos + 1) h.length) with
      | nil =>
        rw [hd] at hrl
        simp at hrl; omega
      | cons c t =>
        rw [hd] at hrl
        have : 0 < (c :: t).length := by simp
        simp only [findNotOf_nil_cons, this, if_true, Option.getD_some]
        omega
    · simp only [hs, if_false]
      rw [hpos2]
      have hle : Model.findNotOf (h.reverse.drop (h.length - min (pos + 1) h.length)) s ≤
          (h.reverse.drop (h.length - min (pos + 1) h.length)).length := by
        rw [findNotOf_eq_headPred]; exact firstIdx_le _ _
      exact bwd_result _ _ _ _ _ hle hrl rfl hm

example : Model.findLastOf [97, 0x80, 0, 98] [0, 0x80] npos = 2 ∧ Model.findLastNotOf [97, 98, 98] [98] npos = 0 ∧
    Model.findLastNotOf [] [98] npos = npos := by decide

/-! ## huge views (lengths around 2^31 / 2^32)

The correspondence also runs views far too long to be written as byte lists: `(off, len)` into a
sparse memory (`Model/C18Huge.lean`).  They are answered by windowed evaluators; these theorems tie the
evaluators of the comparison family to the specification on the denoted bytes `Huge.den v`. -/

/-- whenever the windowed `compare` of two views answers, that answer is the standard's `compare`
of the byte strings the views denote — in particular the length rule after an equal common prefix
(`|a| = 5`, `|b| = 2^32 + 5` at the same address gives −1, not 0) -/
theorem huge_compare_sound (v w : Huge.View) (e : Bool) (r : Int) (h : Huge.compare v w e = some r) :
    Spec.compare (Huge.den v) (Huge.den w) = r :=
  Huge.compare_sound v w e r h

/-- … and therefore what the transliterated `StringView::compare` computes on those bytes -/
theorem huge_compare_model (v w : Huge.View) (e : Bool) (r : Int) (h : Huge.compare v w e = some r) :
    Model.compare (Huge.den v) (Huge.den w) = r := by
  rw [compare_eq]; exact Huge.compare_sound v w e r h

/-- `substr` of a huge view: same exception condition, offset and denoted bytes as the standard's -/
theorem huge_substr_sound (v : Huge.View) (pos n : Nat) :
    Spec.substr (Huge.den v) pos n = (Huge.substr v pos n).map fun r => (pos, Huge.den r) :=
  Huge.substr_sound v pos n

example : Huge.compare ⟨0, 5⟩ ⟨0, 4294967301⟩ false = some (-1) ∧
    Huge.compare ⟨100, 2147483653⟩ ⟨100, 5⟩ false = some 1 ∧
    (Huge.compare ⟨2147483640, 20⟩ ⟨0, 4294967301⟩ false).isSome = true := by decide

/-! ## The defects of the pinned tree, as machine-checked disagreements with the spec -/

/-- D14: `copy(s, n, pos)` copied from `data()` instead of `data() + pos` -/
theorem old_copy_ne_spec : Old.copy [97, 98, 99] 1 1 ≠ Spec.copy [97, 98, 99] 1 1 := by decide

/-- D15: `compare` via `strncmp` stops at an embedded NUL -/
theorem old_compare_ne_spec : Old.compare [97, 0, 98] [97, 0, 99] ≠ Spec.compare [97, 0, 98] [97, 0, 99] := by decide

/-- D16: `rfind` via `strncmp` reports a match behind an embedded NUL -/
theorem old_rfind_ne_spec : Old.rfind [97, 0, 98] [97, 0, 99] npos ≠ Spec.rfind [97, 0, 98] [97, 0, 99] npos := by decide

/-- D17: `operator<` compared plain (signed) `char` -/
theorem old_lt_ne_spec : Old.lt [0x80] [97] ≠ Spec.lt [0x80] [97] := by decide

end TlxVerif.C18
