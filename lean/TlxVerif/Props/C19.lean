import TlxVerif.Model.C19Codec
import TlxVerif.Model.C19Split
import TlxVerif.Model.C19Helpers
namespace TlxVerif.C19

/-- the generated decoding table inverts the generated encoding table -/
theorem dec64_enc64 : ∀ i : Fin 64, dec64 (enc64 (UInt8.ofNat i.val)) = UInt8.ofNat i.val := by decide

end TlxVerif.C19
