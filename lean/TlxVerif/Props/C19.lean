/-
C19 — string codecs round-trip; string helpers match their documented semantics.

Theorems over the executable models (Model/C19*.lean, transliterations of the code
after the `fix:` commits; tables regenerated from the sources into Gen/C19Tables.lean).
-/
import TlxVerif.Model.C19Codec
import TlxVerif.Model.C19Split
import TlxVerif.Model.C19Helpers
import TlxVerif.Model.C19Spec
import TlxVerif.Proofs.C19Codec
namespace TlxVerif.C19
open TlxVerif.C18 (Bytes npos)

/-! ## base64 -/

/-- the generated decoding table inverts the generated encoding table -/
theorem dec64_enc64 : ∀ i : Fin 64, dec64 (enc64 (UInt8.ofNat i.val)) = UInt8.ofNat i.val := by decide +kernel

/-- the generated encoding table is the RFC 4648 alphabet -/
theorem encoding64_is_rfc : Gen.encoding64 = Spec.alphabet := by decide +kernel

/-- `base64_decode(base64_encode(s, line_break)) = s` for every byte string, in both strict
modes — and for *every* line-break width (the documented ones are 0 and the multiples of 4) -/
theorem base64_roundtrip (s : Bytes) (lb : Nat) (strict : Bool) :
    base64Decode (base64Encode s lb) strict = some s := by
  unfold base64Decode base64Encode
  split
  · rename_i h
    have : s = [] := List.isEmpty_iff.mp h
    subst this
    simp [decodeLoop]
  · exact decode_encodeLoop strict lb s 0 0

example : base64Encode [102, 111, 111, 98, 97] 4 = [90, 109, 57, 118, 10, 89, 109, 69, 61] ∧
    base64Decode [90, 109, 57, 118, 10, 89, 109, 69, 61] true = some [102, 111, 111, 98, 97] := by decide

/-- apart from the requested line breaks the output is the RFC 4648 encoding (any width) -/
theorem base64_is_rfc (s : Bytes) (lb : Nat) : (base64Encode s lb).filter (· != 10) = Spec.base64 s := by
  unfold base64Encode
  split
  · rename_i h
    have : s = [] := List.isEmpty_iff.mp h
    subst this
    simp [Spec.base64]
  · exact encodeLoop_filter lb s 0

/-- with `line_break = 0` the output *is* the RFC 4648 encoding -/
theorem base64_plain_is_rfc (s : Bytes) : base64Encode s 0 = Spec.base64 s := by
  unfold base64Encode
  split
  · rename_i h
    have : s = [] := List.isEmpty_iff.mp h
    subst this
    simp [Spec.base64]
  · exact encodeLoop_zero s 0

example : Spec.base64 [102, 111, 111] = [90, 109, 57, 118] := by decide

/-! ## hexdump -/

/-- `parse_hexdump(hexdump(s)) = s` -/
theorem hexdump_roundtrip : ∀ s : Bytes, parseHexdump (hexdump s) = some s
  | [] => rfl
  | b :: t => by
    obtain ⟨h1, h2, h3, _, _⟩ := hex_byte_uc b
    have ih := hexdump_roundtrip t
    unfold hexdump hexdumpWith at ih ⊢
    simp only [List.flatMap_cons, List.cons_append, List.nil_append, parseHexdump, h1, h2, ih, Option.map_some, h3]

/-- `parse_hexdump(hexdump_lc(s)) = s` -/
theorem hexdump_lc_roundtrip : ∀ s : Bytes, parseHexdump (hexdumpLc s) = some s
  | [] => rfl
  | b :: t => by
    obtain ⟨h1, h2, _, _⟩ := hex_byte_lc b
    obtain ⟨_, _, h3, _, _⟩ := hex_byte_uc b
    have ih := hexdump_lc_roundtrip t
    unfold hexdumpLc hexdumpWith at ih ⊢
    simp only [List.flatMap_cons, List.cons_append, List.nil_append, parseHexdump, h1, h2, ih, Option.map_some, h3]

/-- `hexdump` / `hexdump_lc` are the RFC 4648 §8 base-16 encodings -/
theorem hexdump_is_base16 (s : Bytes) : hexdump s = Spec.base16 Spec.hexDigitUC s := by
  unfold hexdump hexdumpWith Spec.base16
  congr 1
  funext b
  obtain ⟨_, _, _, h4, h5⟩ := hex_byte_uc b
  rw [h4, h5]

theorem hexdump_lc_is_base16 (s : Bytes) : hexdumpLc s = Spec.base16 Spec.hexDigitLC s := by
  unfold hexdumpLc hexdumpWith Spec.base16
  congr 1
  funext b
  obtain ⟨_, _, h4, h5⟩ := hex_byte_lc b
  rw [h4, h5]

example : hexdump [0, 255, 16] = [48, 48, 70, 70, 49, 48] ∧ parseHexdump [48, 48, 102, 70, 49, 48] = some [0, 255, 16] := by
  decide

end TlxVerif.C19
