/-
C19 — string codecs round-trip; string helpers match their documented semantics.

Theorems over the executable models (Model/C19*.lean, transliterations of the code
after the `fix:` commits; tables regenerated from the sources into Gen/C19Tables.lean).
-/
import TlxVerif.Model.C19Codec
import TlxVerif.Model.C19Split
import TlxVerif.Model.C19Helpers
import TlxVerif.Model.C19Spec
import TlxVerif.Model.C19Old
import TlxVerif.Proofs.C19Codec
import TlxVerif.Proofs.C19Split
import TlxVerif.Proofs.C19Quoted
import TlxVerif.Proofs.C19Helpers
import TlxVerif.Proofs.C19Trim
import TlxVerif.Proofs.C19Contains
import TlxVerif.Proofs.C19Replace
import TlxVerif.Proofs.C19Lev
import TlxVerif.Proofs.C19Erase
import TlxVerif.Proofs.C19Lines
namespace TlxVerif.C19
open TlxVerif.C18 (Bytes npos)
open TlxVerif.C18

/-! ## base64 -/

/-- the generated decoding table inverts the generated encoding table -/
theorem dec64_enc64 : ∀ i : Fin 64, dec64 (enc64 (UInt8.ofNat i.val)) = UInt8.ofNat i.val := by decide +kernel

/-- the generated encoding table is the RFC 4648 alphabet -/
theorem encoding64_is_rfc : Gen.encoding64 = Spec.alphabet := by decide +kernel

/-- `base64_decode(base64_encode(s, line_break)) = s` for every byte string, in both strict
modes — and for *every* line-break width (the documented ones are 0 and the multiples of 4) -/
theorem base64_roundtrip (s : Bytes) (lb : Nat) (strict : Bool) :
    base64Decode (base64Encode s lb) strict = some s := by
  unfold base64Decode base64Encode
  split
  · rename_i h
    have : s = [] := List.isEmpty_iff.mp h
    subst this
    simp [decodeLoop]
  · exact decode_encodeLoop strict lb s 0 0

example : base64Encode [102, 111, 111, 98, 97] 4 = [90, 109, 57, 118, 10, 89, 109, 69, 61] ∧
    base64Decode [90, 109, 57, 118, 10, 89, 109, 69, 61] true = some [102, 111, 111, 98, 97] := by decide

/-- apart from the requested line breaks the output is the RFC 4648 encoding (any width) -/
theorem base64_is_rfc (s : Bytes) (lb : Nat) : (base64Encode s lb).filter (· != 10) = Spec.base64 s := by
  unfold base64Encode
  split
  · rename_i h
    have : s = [] := List.isEmpty_iff.mp h
    subst this
    simp [Spec.base64]
  · exact encodeLoop_filter lb s 0

/-- with `line_break = 0` the output *is* the RFC 4648 encoding -/
theorem base64_plain_is_rfc (s : Bytes) : base64Encode s 0 = Spec.base64 s := by
  unfold base64Encode
  split
  · rename_i h
    have : s = [] := List.isEmpty_iff.mp h
    subst this
    simp [Spec.base64]
  · exact encodeLoop_zero s 0

example : Spec.base64 [102, 111, 111] = [90, 109, 57, 118] := by decide

/-- line structure for the documented widths (positive multiples of 4): every line that is
terminated by a newline has exactly `line_break` characters, the remaining text at most that many
(`GoodLines lb 0` over the line lengths, Proofs/C19Lines.lean) -/
theorem base64_line_structure (s : Bytes) (lb : Nat) (hlb : 0 < lb) (h4 : lb % 4 = 0) :
    GoodLines lb 0 (lineLengths (base64Encode s lb)) := by
  unfold base64Encode
  split
  · simp [lineLengths, GoodLines]
  · exact encodeLoop_lines lb hlb h4 s 0 (by omega) hlb

example : lineLengths (base64Encode [102, 111, 111, 98, 97, 114, 33] 4) = [4, 4, 4] := by decide

/-! ## hexdump -/

/-- `parse_hexdump(hexdump(s)) = s` -/
theorem hexdump_roundtrip : ∀ s : Bytes, parseHexdump (hexdump s) = some s
  | [] => rfl
  | b :: t => by
    obtain ⟨h1, h2, h3, _, _⟩ := hex_byte_uc b
    have ih := hexdump_roundtrip t
    unfold hexdump hexdumpWith at ih ⊢
    simp only [List.flatMap_cons, List.cons_append, List.nil_append, parseHexdump, h1, h2, ih, Option.map_some, h3]

/-- `parse_hexdump(hexdump_lc(s)) = s` -/
theorem hexdump_lc_roundtrip : ∀ s : Bytes, parseHexdump (hexdumpLc s) = some s
  | [] => rfl
  | b :: t => by
    obtain ⟨h1, h2, _, _⟩ := hex_byte_lc b
    obtain ⟨_, _, h3, _, _⟩ := hex_byte_uc b
    have ih := hexdump_lc_roundtrip t
    unfold hexdumpLc hexdumpWith at ih ⊢
    simp only [List.flatMap_cons, List.cons_append, List.nil_append, parseHexdump, h1, h2, ih, Option.map_some, h3]

/-- `hexdump` / `hexdump_lc` are the RFC 4648 §8 base-16 encodings -/
theorem hexdump_is_base16 (s : Bytes) : hexdump s = Spec.base16 Spec.hexDigitUC s := by
  unfold hexdump hexdumpWith Spec.base16
  congr 1
  funext b
  obtain ⟨_, _, _, h4, h5⟩ := hex_byte_uc b
  rw [h4, h5]

theorem hexdump_lc_is_base16 (s : Bytes) : hexdumpLc s = Spec.base16 Spec.hexDigitLC s := by
  unfold hexdumpLc hexdumpWith Spec.base16
  congr 1
  funext b
  obtain ⟨_, _, h4, h5⟩ := hex_byte_lc b
  rw [h4, h5]

example : hexdump [0, 255, 16] = [48, 48, 70, 70, 49, 48] ∧ parseHexdump [48, 48, 102, 70, 49, 48] = some [0, 255, 16] := by
  decide

/-! ## split ∘ join -/

/-- `split(sep, join(sep, parts)) = parts` for a non-empty separator and a non-empty part list
when no separator starts inside a part of the joined text (`SepFree`, Proofs/C19Split.lean:
"the separator neither occurs in nor straddles the parts"), for every `limit` that admits
all parts (in particular the default `npos`).  Fails on the pinned tree (D18, D19). -/
theorem split_join (sep : Bytes) (parts : List Bytes) (limit : Nat) (hsep : sep ≠ []) (hne : parts ≠ [])
    (hlim : parts.length ≤ limit) (hfree : SepFree sep parts) :
    splitStr sep (join sep parts) limit = parts := by
  unfold splitStr
  have h0 : ¬ limit = 0 := by
    have : 0 < parts.length := List.length_pos_iff.mpr hne
    omega
  have he : sep.isEmpty = false := by
    cases sep with
    | nil => exact absurd rfl hsep
    | cons _ _ => rfl
  rw [if_neg h0, he]
  simp only [Bool.false_eq_true, if_false]
  rw [splitStrLoop_join sep limit hsep parts [] 0 hne (by omega) hfree]
  cases parts with
  | nil => exact absurd rfl hne
  | cons p ps => simp [prependFirst]

/-- a sufficient condition that is easy to check: no byte of a part occurs in the separator -/
theorem sepFree_of_disjoint (sep : Bytes) (hsep : sep ≠ []) : ∀ parts : List Bytes,
    (∀ p, p ∈ parts → ∀ b, b ∈ p → b ∉ sep) → SepFree sep parts
  | [], _ => trivial
  | [p], h => by
    intro k hk
    rw [List.drop_eq_getElem_cons hk]
    cases sep with
    | nil => exact absurd rfl hsep
    | cons s0 st =>
      have : p[k] ∉ s0 :: st := h p (by simp) _ (List.getElem_mem hk)
      simp only [List.isPrefixOf, Bool.and_eq_false_imp, beq_iff_eq]
      intro e; exact absurd (by simp [e]) this
  | p :: q :: ps, h => by
    refine ⟨?_, sepFree_of_disjoint sep hsep (q :: ps) (fun x hx => h x (by simp [hx]))⟩
    intro k hk
    have hk' : k < (p ++ (sep ++ join sep (q :: ps))).length := by simp; omega
    rw [List.drop_eq_getElem_cons hk', List.getElem_append_left hk]
    cases sep with
    | nil => exact absurd rfl hsep
    | cons s0 st =>
      have : p[k] ∉ s0 :: st := h p (by simp) _ (List.getElem_mem hk)
      simp only [List.isPrefixOf, Bool.and_eq_false_imp, beq_iff_eq]
      intro e; exact absurd (by simp [e]) this

/-- the `char` overload: parts that do not contain the separator byte -/
theorem splitChar_join (c : UInt8) (parts : List Bytes) (limit : Nat) (hne : parts ≠ [])
    (hlim : parts.length ≤ limit) (h : ∀ p, p ∈ parts → c ∉ p) :
    splitChar c (join [c] parts) limit = parts := by
  rw [splitChar_eq_splitStr]
  exact split_join [c] parts limit (by simp) hne hlim (sepFree_char c parts h)

example : splitStr [58, 58] (join [58, 58] [[97], [], [98]]) npos = [[97], [], [98]] :=
  split_join [58, 58] [[97], [], [98]] npos (by decide) (by decide) (by decide)
    (sepFree_of_disjoint _ (by decide) _ (by decide))

/-! ## split_quoted ∘ join_quoted -/

/-- `split_quoted(join_quoted(v)) = v` for every vector of byte strings (including empty fields,
fields that begin with a quote, fields containing separators, quotes, escapes, \n \r \t)
whenever the three special characters are pairwise different and quote / escape are not one of
the letters n r t (`QuoteChars`).  Fails on the pinned tree (D20). -/
theorem split_quoted_join_quoted (sep quote esc : UInt8) (H : QuoteChars sep quote esc) (v : List Bytes) :
    splitQuoted (joinQuoted v sep quote esc) sep quote esc = some v :=
  sq_join H v

/-- the default characters `' '`, `'"'`, `'\\'` satisfy the hypotheses -/
theorem quoteChars_default : QuoteChars 32 34 92 := by
  constructor <;> decide

theorem split_quoted_join_quoted_default (v : List Bytes) :
    splitQuoted (joinQuoted v 32 34 92) 32 34 92 = some v :=
  split_quoted_join_quoted 32 34 92 quoteChars_default v

example : joinQuoted [[], [34, 97], [97, 32, 10]] 32 34 92 =
    [34, 34, 32, 34, 92, 34, 97, 34, 32, 34, 97, 32, 92, 110, 34] := by decide

/-! ## case conversion and case-insensitive comparison -/

/-- `to_lower` / `to_upper` change exactly the ASCII letters -/
theorem toLower_eq (c : UInt8) : toLower c = if 65 ≤ c ∧ c ≤ 90 then c + 32 else c := toLower_spec c
theorem toUpper_eq (c : UInt8) : toUpper c = if 97 ≤ c ∧ c ≤ 122 then c - 32 else c := toUpper_spec c

/-- `compare_icase` is `strcmp` (unsigned bytes, prefix smaller) of the lowered strings; all four
overloads run this loop.  Fails on the pinned tree (D21 sign for a proper prefix, D22 signed bytes). -/
theorem compare_icase_eq (a b : Bytes) : compareIcase a b = Spec.compare (a.map toLower) (b.map toLower) :=
  compareIcase_eq a b

/-- `equal_icase`: the `const char*` loops and the `string_view` version -/
theorem equal_icase_loop_eq (a b : Bytes) : equalIcaseLoop a b = (a.map toLower == b.map toLower) :=
  equalIcaseLoop_eq a b

theorem equal_icase_view_eq (a b : Bytes) : equalIcaseView a b = (a.map toLower == b.map toLower) := by
  unfold equalIcaseView
  by_cases h : a.length = b.length
  · simp only [h, ne_eq, not_true_eq_false, if_false]
    exact stdEqualBy_icase_eq a b h
  · simp only [ne_eq, h, not_false_eq_true, if_true]
    symm
    apply beq_eq_false_iff_ne.mpr
    intro e
    have := congrArg List.length e
    simp at this
    exact h this

/-- `less_icase`: `<` of the lowered strings as unsigned bytes -/
theorem less_icase_loop_eq (a b : Bytes) : lessIcaseLoop a b = Spec.lt (a.map toLower) (b.map toLower) :=
  lessIcaseLoop_eq a b
theorem less_icase_view_eq (a b : Bytes) : lessIcaseView a b = Spec.lt (a.map toLower) (b.map toLower) :=
  lessIcaseView_eq a b

example : compareIcase [97] [65, 98] = -1 ∧ compareIcase [0x80] [97] = 1 ∧ equalIcaseLoop [97, 66] [65, 98] = true := by
  decide

/-! ## starts_with / ends_with -/

theorem starts_with_eq (str m : Bytes) : startsWith str m = m.isPrefixOf str := by
  unfold startsWith
  by_cases h : m.length > str.length
  · simp only [h, if_true]
    symm
    cases hp : m.isPrefixOf str
    · rfl
    · have := (List.isPrefixOf_iff_prefix.mp hp).length_le
      omega
  · simp only [h, if_false]
    rw [Bool.eq_iff_iff, stdEqual_iff_prefix, List.isPrefixOf_iff_prefix]

theorem ends_with_eq (str m : Bytes) : endsWith str m = m.isSuffixOf str := by
  unfold endsWith
  by_cases h : m.length > str.length
  · simp only [h, if_true]
    symm
    cases hp : m.isSuffixOf str
    · rfl
    · have := (List.isSuffixOf_iff_suffix.mp hp).length_le
      omega
  · simp only [h, if_false]
    have hlen : m.length = (str.drop (str.length - m.length)).length := by simp; omega
    rw [Bool.eq_iff_iff, stdEqual_iff_eq _ _ hlen, List.isSuffixOf_iff_suffix]
    constructor
    · intro e; rw [e]; exact List.drop_suffix _ _
    · intro hs
      obtain ⟨t, ht⟩ := hs
      subst ht
      simp

example : startsWith [97, 98, 99] [97, 98] = true ∧ endsWith [97, 98, 99] [98, 99] = true ∧
    endsWith [97] [98, 97] = false := by decide

/-! ## erase_all (copy), pad -/

theorem erase_all_copy_eq : ∀ s drop : Bytes, eraseAllCopy s drop = s.filter (fun c => !drop.contains c)
  | [], _ => by simp [eraseAllCopy]
  | c :: t, drop => by
    simp only [eraseAllCopy, List.filter_cons]
    cases h : drop.contains c <;> simp [erase_all_copy_eq t drop]

/-- `pad`: truncated to `len` or filled up to `len` with the pad character -/
theorem pad_eq (s : Bytes) (len : Nat) (c : UInt8) :
    pad s len c = if len ≤ s.length then s.take len else s ++ List.replicate (len - s.length) c := by
  unfold pad
  by_cases h : len ≤ s.length
  · simp [h, Nat.min_eq_right h, List.length_take]
  · have h' : s.length ≤ len := by omega
    simp [h, Nat.min_eq_left h', List.take_length]

theorem pad_length (s : Bytes) (len : Nat) (c : UInt8) : (pad s len c).length = len := by
  rw [pad_eq]
  split
  · simp [List.length_take]; omega
  · simp; omega

/-! ## split with a limit -/

/-- `split(sep, str, limit)` (non-empty separator) is the recursive definition: cut at the
leftmost occurrence, at most `limit` parts, the last part keeps the rest -/
theorem split_eq_spec (sep s : Bytes) (limit : Nat) (hsep : sep ≠ []) :
    splitStr sep s limit = Spec.split sep limit s :=
  splitStr_eq_spec sep s limit hsep

/-- the `char` overload is the same function for a one-byte separator -/
theorem splitChar_eq_spec (c : UInt8) (s : Bytes) (limit : Nat) :
    splitChar c s limit = Spec.split [c] limit s := by
  rw [splitChar_eq_splitStr, splitStr_eq_spec _ _ _ (by simp)]

theorem splitEmptyLoop_length (limit : Nat) : ∀ (s : Bytes) (count : Nat), count < limit →
    (splitEmptyLoop limit s count).length ≤ limit - count
  | [], _, _ => by simp [splitEmptyLoop]
  | c :: t, count, h => by
    simp only [splitEmptyLoop]
    split
    · simp; omega
    · have := splitEmptyLoop_length limit t (count + 1) (by omega)
      simp only [List.length_cons]; omega

/-- never more than `limit` parts — for every separator, the empty one included -/
theorem split_length_le (sep s : Bytes) (limit : Nat) : (splitStr sep s limit).length ≤ limit := by
  by_cases hsep : sep = []
  · subst hsep
    unfold splitStr
    by_cases h0 : limit = 0
    · simp [h0]
    · simp only [h0, if_false, List.isEmpty_nil, if_true]
      have := splitEmptyLoop_length limit s 0 (by omega)
      omega
  · rw [splitStr_eq_spec sep s limit hsep]
    exact spec_split_length sep limit s

/-- `join(sep, split(sep, str, limit)) = str` for a non-empty separator and `limit ≥ 1` -/
theorem join_split (sep s : Bytes) (limit : Nat) (hsep : sep ≠ []) (hl : 0 < limit) :
    join sep (splitStr sep s limit) = s := by
  rw [splitStr_eq_spec sep s limit hsep]
  exact join_spec_split sep limit s hl

/-- the `min_fields` overloads only append empty fields -/
theorem split_min_fields (v : List Bytes) (m : Nat) :
    padFields v m = v ++ List.replicate (m - v.length) [] ∧ (padFields v m).length = max v.length m := by
  unfold padFields
  by_cases h : v.length < m
  · simp [h]; omega
  · have : m - v.length = 0 := by omega
    simp [h, this]; omega

example : Spec.split [58] 2 [97, 58, 98, 58, 99] = [[97], [98, 58, 99]] ∧ Spec.split [58] 5 [97, 58] = [[97], []] := by
  decide

/-! ## replace_first / replace_all (non-empty needle) -/

theorem replace_first_eq (s needle instead : Bytes) (hn : needle ≠ []) :
    replaceFirst s needle instead = Spec.replaceFirst needle instead s :=
  replaceFirst_eq s needle instead hn

theorem replace_all_eq (s needle instead : Bytes) (hn : needle ≠ []) :
    replaceAll s needle instead = Spec.replaceAll needle instead s :=
  replaceAll_eq s needle instead hn

example : replaceAll [97, 97, 97, 97, 97] [97, 97] [98] = [98, 98, 97] ∧ replaceFirst [97, 98, 97, 98] [98] [] = [97, 97, 98] := by
  decide

/-! ## trim family: all nine shapes (the `char` and default-drop overloads are the same code with
a one-element / the `" \r\n\t"` drop set); sizes below 2^64 because of the `npos` sentinels -/

theorem trim_left_string_eq (s drop : Bytes) (hsz : s.length < 18446744073709551616) :
    trimLeftString s drop = Spec.trimLeft drop s := trimLeftString_eq s drop hsz
theorem trim_left_viewptr_eq (s drop : Bytes) (hsz : s.length < 18446744073709551616) :
    trimLeftViewPtr s drop = Spec.trimLeft drop s := trimLeftViewPtr_eq s drop hsz
theorem trim_left_view_eq (s drop : Bytes) (hsz : s.length < 18446744073709551616) :
    trimLeftView s drop = Spec.trimLeft drop s := trimLeftView_eq s drop hsz
theorem trim_right_string_eq (s drop : Bytes) (hsz : s.length < 18446744073709551616) :
    trimRightString s drop = Spec.trimRight drop s := trimRightString_eq s drop hsz
theorem trim_right_viewptr_eq (s drop : Bytes) (hsz : s.length < 18446744073709551616) :
    trimRightViewPtr s drop = Spec.trimRight drop s := trimRightViewPtr_eq s drop hsz
theorem trim_right_view_eq (s drop : Bytes) (hsz : s.length < 18446744073709551616) :
    trimRightView s drop = Spec.trimRight drop s := trimRightView_eq s drop hsz
theorem trim_string_eq (s drop : Bytes) (hsz : s.length < 18446744073709551616) :
    trimString s drop = Spec.trim drop s := trimString_eq s drop hsz
theorem trim_viewptr_eq (s drop : Bytes) (hsz : s.length < 18446744073709551616) :
    trimViewPtr s drop = Spec.trim drop s := trimViewPtr_eq s drop hsz
theorem trim_view_eq (s drop : Bytes) (hsz : s.length < 18446744073709551616) :
    trimView s drop = Spec.trim drop s := trimView_eq s drop hsz

example : trimString [32, 9, 97, 32, 98, 10] [32, 13, 10, 9] = [97, 32, 98] ∧
    Spec.trim [32, 13, 10, 9] [32, 9, 97, 32, 98, 10] = [97, 32, 98] := by decide

/-! ## contains -/

/-- `contains(str, pattern)` holds exactly when the pattern is an infix of the string -/
theorem contains_eq (str p : Bytes) (hsz : str.length < npos) : contains str p = true ↔ p <:+: str :=
  contains_iff_infix str p hsz

/-! ## levenshtein -/

/-- the two-row dynamic programme of `levenshtein_algorithm` (with its swap that puts the longer
string along the rows) computes the defining recurrence `lev_{a,b}(|a|, |b|)` over prefix
lengths (`Spec.levD`), for every pair of byte strings -/
theorem levenshtein_eq (a b : Bytes) : levenshtein a b = Spec.lev (· == ·) a b :=
  levenshteinAlg_eq (· == ·) (fun _ _ => BEq.comm) a b

theorem levenshtein_icase_eq (a b : Bytes) : levenshteinIcase a b = Spec.lev icaseEq a b :=
  levenshteinAlg_eq icaseEq (fun x y => by unfold icaseEq; exact BEq.comm) a b

example : Spec.lev (· == ·) [107, 105, 116, 116, 101, 110] [115, 105, 116, 116, 105, 110, 103] = 3 := by
  rw [← levenshtein_eq]; decide

/-- the recurrence over prefix lengths and the textbook *head* recursion (`Spec.levFront`: compare
the first characters, recurse on the tails) define the same distance -/
theorem lev_front (eq : UInt8 → UInt8 → Bool) (a b : Bytes) : Spec.lev eq a b = Spec.levFront eq a b :=
  lev_eq_levFront eq a b

/-- hence the code computes the head-recursive edit distance -/
theorem levenshtein_eq_front (a b : Bytes) : levenshtein a b = Spec.levFront (· == ·) a b := by
  rw [levenshtein_eq, lev_front]

/-! ## erase_all in place -/

/-- the in-place overload (scanning from the back with `find_last_of` / `find_last_not_of`,
erasing one run of drop bytes per iteration) removes exactly the bytes of the drop set, like the
copying overload (`erase_all_copy_eq`) -/
theorem erase_all_inplace_eq (s drop : Bytes) (hsz : s.length < npos) :
    eraseAllInplace s drop = s.filter (fun c => !drop.contains c) :=
  eraseAllInplace_eq s drop hsz

example : eraseAllInplace [97, 32, 32, 98, 32] [32] = [97, 98] := by decide

/-! ## The defects of the pinned tree, as machine-checked facts about the pre-fix transliterations -/

/-- D18: a separator at the very end was not split off -/
theorem old_split_trailing_separator : Old.splitStr [58] [97, 58] npos = some [[97, 58]] := by decide

/-- D19: the search continued inside a matched separator and built a part from `(last, it)` with `it < last` -/
theorem old_split_rescan_throws : Old.splitStr [97, 97] [97, 97, 97, 97] npos = none := by decide

/-- the empty separator ignored `limit` -/
theorem old_split_empty_ignores_limit : (Old.splitStr [] [97, 98, 99] 2).map List.length = some 3 := by decide

/-- D20: an empty field vanishes, a quote-leading field is unreadable -/
theorem old_join_quoted_no_roundtrip :
    splitQuoted (Old.joinQuoted [[]] 32 34 92) 32 34 92 = some [] ∧
    splitQuoted (Old.joinQuoted [[34, 97]] 32 34 92) 32 34 92 = none := by decide

/-- D21 / D22: wrong sign for a proper prefix, bytes ≥ 0x80 before ASCII -/
theorem old_compare_icase_wrong :
    Old.compareIcase [97] [97, 98] = 1 ∧ Old.compareIcase [0x80] [97] = -1 ∧ Old.lessIcaseView [0x80] [97] = true := by
  decide

/-- `equal_icase(string_view, const char*)` answered false for equal strings -/
theorem old_equal_icase_wrong :
    Old.equalIcaseViewCstr [97, 98] [65, 66] = false ∧ Old.equalIcaseViewCstr [97] [65, 98] = true := by decide

end TlxVerif.C19
