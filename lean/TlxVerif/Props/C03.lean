import TlxVerif.Model.C03Radix
namespace TlxVerif.C03

theorem lcp_comm (a b : Str) : lcp a b = lcp b a := by
  induction a generalizing b with
  | nil => cases b <;> simp [lcp]
  | cons x xs ih =>
    cases b with
    | nil => simp [lcp]
    | cons y ys =>
      simp only [lcp]
      by_cases h : x = y
      · subst h; simp [ih]
      · have h' : ¬ y = x := fun e => h e.symm
        simp [h, h']

end TlxVerif.C03
