/-
C03 — property theorems: every sequential string sorter of tlx yields a sorted permutation of the
input objects and (LCP variants) the exact LCP array.

Reading guide.  Objects are an arbitrary type `α` with `str : α → List UInt8`; `Sorted str out` is
`List.Pairwise (str · ≤ str ·)` with Lean's lexicographic order on `List UInt8` (unsigned bytes);
`out.Perm ss` is permutation of the *objects*; `adjLcps` lists `lcp (out[i-1]) (out[i])` for
`i ≥ 1`, and the LCP claim is `result.2 = l.take 1 ++ adjLcps …`: entry 0 of the caller's array is
untouched, every later entry is exact.  `Pre` = the documented preconditions (common prefix of
length `depth`, NUL-free strings, LCP array as long as the string array).  Every theorem
quantifies over all inputs, depths, memory limits and `sizeof` constants.
-/
import TlxVerif.Proofs.C03Adapters
import TlxVerif.Proofs.C03Partition
import TlxVerif.Proofs.C03Permute
import TlxVerif.Proofs.C03Two
namespace TlxVerif.C03

variable {α : Type} (str : α → Str)

/-! ## the specification is what the property says -/

/-- `Sorted` really is "non-decreasing unsigned-byte lexicographic order" of neighbours and of
all pairs -/
theorem sorted_iff_neighbours (l : List α) :
    Sorted str l ↔ ∀ i (h : i + 1 < l.length), str (l[i]'(by omega)) ≤ str l[i + 1] := by
  unfold Sorted
  constructor
  · intro hp i h
    exact List.pairwise_iff_getElem.mp hp i (i + 1) (by omega) h (by omega)
  · intro hn
    rw [List.pairwise_iff_getElem]
    intro i j hi hj hij
    induction j with
    | zero => omega
    | succ j ih =>
      by_cases e : i = j
      · subst e; exact hn i hj
      · exact List.le_trans (ih (by omega) (by omega)) (hn j hj)

/-- the entries of `adjLcps` are the pairwise LCPs of neighbours -/
theorem adjLcps_getElem (xs : List Str) (i : Nat) (h : i + 1 < xs.length) :
    (adjLcps xs)[i]? = some (lcp (xs[i]'(by omega)) xs[i + 1]) := by
  induction xs generalizing i with
  | nil => simp at h
  | cons a as ih =>
    cases as with
    | nil => simp at h
    | cons b bs =>
      rw [adjLcps_cons_cons]
      cases i with
      | zero => simp
      | succ i =>
        simp only [List.getElem?_cons_succ, List.getElem_cons_succ]
        exact ih i (by simpa using h)

/-- `lcp` is the length of the longest common prefix: the strings agree on the first `lcp a b`
bytes and differ (or one ends) right behind them -/
theorem lcp_is_longest (a b : Str) :
    a.take (lcp a b) = b.take (lcp a b) ∧
      ¬ (lcp a b < a.length ∧ lcp a b < b.length ∧ a[lcp a b]? = b[lcp a b]?) := by
  refine ⟨take_lcp a b, ?_⟩
  induction a generalizing b with
  | nil => simp
  | cons x xs ih =>
    cases b with
    | nil => simp
    | cons y ys =>
      rw [lcp_cons_cons]
      by_cases e : x = y
      · subst e
        have := ih ys
        simpa using this
      · simp [e]

/-- the LCP claim spelled out per position: `lcp[i] = LCP(out[i-1], out[i])` for `i ≥ 1` -/
theorem lcp_positions (out : List α) (l res : List Nat) (h : res = l.take 1 ++ adjLcps (out.map str))
    (hl : l.length = out.length) (i : Nat) (hi : i + 1 < out.length) :
    res[i + 1]? = some (lcp (str (out[i]'(by omega))) (str out[i + 1])) := by
  subst h
  have h1 : (l.take 1).length = 1 := by rw [List.length_take]; omega
  rw [List.getElem?_append_right (by omega), h1]
  have := adjLcps_getElem (out.map str) i (by simpa using hi)
  simpa using this

/-! ## insertion sort (insertion_sort.hpp) -/

/-- C03/insertion_sort: both overloads, every input, every depth -/
theorem insertion_sort_correct (wl : Bool) (d : Nat) (ss : List α) (l : List Nat)
    (h : Pre str wl d ss l) : SortSpec str wl ss l (insertionSort str wl d ss l) :=
  insertionSort_spec str wl d ss l h

/-! ## the generic bucket step and the 8-bit radix step -/

/-- C03/bucket step: sorted blocks in key order with exact inner LCPs and the right border
entries concatenate to a sorted range with an exact LCP array -/
theorem bucket_step (wl : Bool) (d : Nat) (tl : List (Blk α))
    (hok : ∀ t ∈ tl, BlkOk str wl t)
    (hcross : tl.Pairwise fun t1 t2 => ∀ x ∈ t1.b, ∀ y ∈ t2.b, str x ≤ str y ∧ lcp (str x) (str y) = d)
    (hm : wl = true → HeadsMarked d false (tl.map fun t => t.b.length) (tl.map fun t => t.v)) :
    SortSpec str wl (tl.flatMap fun t => t.b) (tl.flatMap fun t => t.v)
      (tl.flatMap (fun t => t.r.1), tl.flatMap (fun t => t.r.2)) :=
  blocks_spec str wl d tl hok hcross hm

/-- C03/distribution: the out-of-place pass of RadixStep_CE0/CE2/CE3 (count, exclusive prefix sum,
`*(bkt_index[key]++) = ss[i]` into the shadow array, transliterated on arrays) puts into bucket `b`
exactly the strings with key `b`, in input order (stable) -/
theorem scatter_correct (R : Nat) (key : α → Nat) (ss : List α) (hkey : ∀ x ∈ ss, key x < R) (c : Nat)
    (hc : c < R) : (scatterBuckets R key ss)[c]? = some (ss.filter fun x => key x == c) := by
  rw [scatterBuckets_eq R key ss hkey]
  exact buckets_filter R key ss c hc

/-- C03/D23: the border loop (as fixed) stores `depth` exactly at the first entry of every
non-empty bucket that has a non-empty predecessor, fills bucket 0, keeps entry 0 and the length —
for every vector of bucket sizes, including "everything in bucket 0" -/
theorem border_loop_correct (s0 : Nat) (rest : List Nat) (d : Nat) (l : List Nat)
    (hl : l.length = (s0 :: rest).sum) :
    ∃ tail, splitBy (s0 :: rest) (stepLcp8 (s0 :: rest) l.length d l)
        = ((l.take s0).take 1 ++ List.replicate (s0 - 1) d) :: tail ∧
      HeadsMarked d (decide (s0 ≠ 0)) rest tail ∧
      (stepLcp8 (s0 :: rest) l.length d l).length = l.length ∧
      (stepLcp8 (s0 :: rest) l.length d l).take 1 = l.take 1 :=
  stepLcp8_chunks s0 rest d l hl

/-! ## multikey quicksort and the out-of-place 8-bit radix sort -/

/-- C03/multikey_quicksort partition: pivot selection, the four-cursor Bentley–Sedgewick loop and
the two `vec_swap`s (array transliteration) lay the range out as `<pivot | =pivot | >pivot` -/
theorem partition_correct (d : Nat) (ss : List α) (hn : 32 ≤ ss.length) :
    PartOk str d ss (partition str d ss) :=
  partition_ok str d ss hn

/-- C03/multikey_quicksort (three-way partition, LCP stores at the two partition borders and in a
finished equal range, recursion, insertion-sort and memory fall-backs): for every input, depth and
memory limit -/
theorem multikey_quicksort_correct (c : Consts) (wl : Bool)
    (d : Nat) (ss : List α) (l : List Nat) (mem : Nat) (h : Pre str wl d ss l) :
    SortSpec str wl ss l (multikeyQuicksort str c wl d ss l mem) :=
  multikeyQuicksort_spec str (partitionOk str) c wl d ss l mem h

/-- C03/radixsort_CE0 (count, prefix sum, stable distribution, recursion over the explicit stack,
insertion-sort and memory-limit fall-backs), for every input, depth, memory limit and sizeof -/
theorem radixsort_CE0_correct (c : Consts) (wl : Bool)
    (d : Nat) (ss : List α) (l : List Nat) (mem : Nat) (h : Pre str wl d ss l) :
    SortSpec str wl ss l (radixsortCE0 str c wl d ss l mem) :=
  radixsortCE0_spec str c wl (multikeyQuicksort_spec str (partitionOk str) c wl) d ss l mem h

/-- C03/radixsort_CE2_loop / radixsort_CE0_loop started on any range, level and memory value (this
is what radixsort_CE3 calls for buckets below 65536 strings) -/
theorem radix8_loop_correct (c : Consts) (wl : Bool) (step : Nat)
    (d level : Nat) (ss : List α) (l : List Nat) (mem : Nat) (h : Pre str wl d ss l) :
    SortSpec str wl ss l (ce8Loop str c wl step (radixFuel str ss) ss l d level mem) :=
  ce8Loop_spec str c wl step (multikeyQuicksort_spec str (partitionOk str) c wl) _ ss l d level mem
    (radixFuel_enough str ss d) h

/-- C03/radixsort_CE3 when no memory limit forces the in-place fall-back: whenever the adapter
chain does not reach radixsort_CI3, i.e. for `memory` large enough for the 8-bit shadow array (in
particular the 16-bit loop itself, for every input and every memory value inside it) -/
theorem radix16_loop_correct (c : Consts) (wl : Bool)
    (d level : Nat) (ss : List α) (l : List Nat) (mem : Nat) (h : Pre str wl d ss l) :
    SortSpec str wl ss l (ce3Loop str c wl (radixFuel str ss) ss l d level mem) :=
  ce3Loop_spec str c wl (multikeyQuicksort_spec str (partitionOk str) c wl) _ ss l d level mem
    (radixFuel_enough str ss d) h

/-- C03/16-bit step: count, prefix sum, stable distribution by two bytes, LCP stores `depth` /
`depth + 1` at the bucket borders, finished buckets `(c,0)`, recursion two characters deeper -/
theorem radix16_step (wl : Bool) (d : Nat) (ss : List α) (l : List Nat) (bsL : List (List α))
    (f : Nat → List α → List Nat → List α × List Nat)
    (hperm : bsL.flatten.Perm ss) (hne : bsL ≠ [])
    (hkey : ∀ j b, bsL[j]? = some b → ∀ y ∈ b, key16 (str y) d = j)
    (hpre : Pre str wl d ss l)
    (hf0 : ∀ b v, f 0 b v = (b, v))
    (hfz : ∀ j b v, 1 ≤ j → j % 256 = 0 → bsL[j]? = some b → (wl = true → v.length = b.length) →
      (∀ x ∈ b, ∀ y ∈ b, str x = str y ∧ lcp (str x) (str y) = d + 1) → SortSpec str wl b v (f j b v))
    (hf : ∀ j b v, 1 ≤ j → j % 256 ≠ 0 → bsL[j]? = some b → Pre str wl (d + 2) b v →
      SortSpec str wl b v (f j b v)) :
    SortSpec str wl ss l
      (mapBuckets bsL (splitBy (bsL.map List.length)
        (if wl then stepLcp16 (bsL.map List.length) d l else l)) f) :=
  step16_spec str wl d ss l bsL f hperm hne hkey hpre hf0 hfz hf

/-- C03/in-place permutation: counting, inclusive prefix sum and the cycle-leader loop of
RadixStep_CI2 / RadixStep_CI3 (array transliteration) yield a permutation of the input that is cut
into the buckets by key, for every radix and key function -/
theorem permute_in_place_correct (R : Nat) (key : α → Nat) (ss : List α) (hR : 0 < R)
    (hkey : ∀ x ∈ ss, key x < R) : PermuteOk R key ss :=
  permuteInPlace_ok R key ss hR hkey

/-- C03/radixsort_CE2 incl. its memory-limit fall-back chain CE2 → CI3 → CI2 → multikey quicksort -/
theorem radixsort_CE2_correct (c : Consts) (wl : Bool)
    (d : Nat) (ss : List α) (l : List Nat) (mem : Nat) (h : Pre str wl d ss l) :
    SortSpec str wl ss l (radixsortCE2 str c wl d ss l mem) :=
  radixsortCE2_spec str c wl (multikeyQuicksort_spec str (partitionOk str) c wl) permuteAllOk d ss l mem h

/-- C03/radixsort_CE3 (16-bit steps switching to 8-bit steps below 65536 strings) -/
theorem radixsort_CE3_correct (c : Consts) (wl : Bool)
    (d : Nat) (ss : List α) (l : List Nat) (mem : Nat) (h : Pre str wl d ss l) :
    SortSpec str wl ss l (radixsortCE3 str c wl d ss l mem) :=
  radixsortCE3_spec str c wl (multikeyQuicksort_spec str (partitionOk str) c wl) permuteAllOk d ss l mem h

/-- C03/radixsort_CI2 (in-place 8-bit) -/
theorem radixsort_CI2_correct (c : Consts) (wl : Bool)
    (d : Nat) (ss : List α) (l : List Nat) (mem : Nat) (h : Pre str wl d ss l) :
    SortSpec str wl ss l (radixsortCI2 str c wl d ss l mem) :=
  radixsortCI2_spec str c wl (multikeyQuicksort_spec str (partitionOk str) c wl) permuteAllOk d ss l mem h

/-- C03/radixsort_CI3 (in-place 16-bit switching to in-place 8-bit) -/
theorem radixsort_CI3_correct (c : Consts) (wl : Bool)
    (d : Nat) (ss : List α) (l : List Nat) (mem : Nat) (h : Pre str wl d ss l) :
    SortSpec str wl ss l (radixsortCI3 str c wl d ss l mem) :=
  radixsortCI3_spec str c wl (multikeyQuicksort_spec str (partitionOk str) c wl) permuteAllOk d ss l mem h

/-- **C03.**  `sort_strings` / `sort_strings_lcp` (every overload is radixsort_CE3 at depth 0):
for every collection of NUL-free strings, every value of the memory-limit argument and every
value of the `sizeof` constants the result is a permutation of the original string objects in
non-decreasing unsigned-byte lexicographic order, and the LCP variant stores at every position
`i ≥ 1` exactly the length of the longest common prefix of the strings at `i-1` and `i` -/
theorem sort_strings_correct (c : Consts) (wl : Bool)
    (ss : List α) (l : List Nat) (mem : Nat) (hn : NulFree str ss) (hl : wl = true → l.length = ss.length) :
    SortSpec str wl ss l (sortStrings str c wl ss l mem) :=
  radixsortCE3_spec str c wl (multikeyQuicksort_spec str (partitionOk str) c wl) permuteAllOk 0 ss l mem
    ⟨fun _ _ _ _ => Nat.zero_le _, hn, hl⟩

/-- the same statement unfolded into the words of the property -/
theorem sort_strings_correct_unfolded (c : Consts) (ss : List α) (l : List Nat) (mem : Nat)
    (hn : ∀ a ∈ ss, (0 : UInt8) ∉ str a) (hl : l.length = ss.length) :
    let out := (sortStrings str c true ss l mem).1
    let lcps := (sortStrings str c true ss l mem).2
    out.Perm ss ∧
    (∀ i (h : i + 1 < out.length), str (out[i]'(by omega)) ≤ str out[i + 1]) ∧
    (∀ i (h : i + 1 < out.length), lcps[i + 1]? = some (lcp (str (out[i]'(by omega))) (str out[i + 1]))) ∧
    (sortStrings str c false ss [] mem).1.Perm ss ∧
    (∀ i (h : i + 1 < (sortStrings str c false ss [] mem).1.length),
      str ((sortStrings str c false ss [] mem).1[i]'(by omega)) ≤ str (sortStrings str c false ss [] mem).1[i + 1]) := by
  have h1 := sort_strings_correct str c true ss l mem hn (fun _ => hl)
  have h2 := sort_strings_correct str c false ss [] mem hn (by simp)
  obtain ⟨p1, s1, l1⟩ := h1
  obtain ⟨p2, s2, _⟩ := h2
  refine ⟨p1, (sorted_iff_neighbours str _).mp s1, ?_, p2, (sorted_iff_neighbours str _).mp s2⟩
  intro i hi
  exact lcp_positions str _ l _ (l1 rfl) (by rw [hl]; exact p1.length_eq.symm) i hi

/-! ## the two string arrays and the `flipped` flag -/

/-- C03/active-shadow: the model with both string arrays, `flip`, `copy_back` and the `flipped`
flag (`Model/C03Two.lean`) leaves on every range `(off, size, flipped)`, at every stack level, in
the *original* array exactly the strings — and returns exactly the LCP values — that the list
model computes, and touches neither array outside the range (8-bit loops) -/
theorem two_array_refines_radix8 (c : Consts) (wl : Bool) (step : Nat)
    (fuel : Nat) (t : Two α) (off size : Nat) (fl : Bool) (l : List Nat) (depth level memory : Nat)
    (hsz : t.orig.size = t.shad.size) (hb : off + size ≤ t.orig.size)
    (hf : ∀ x ∈ slice (t.active fl) off size, (str x).length < depth + fuel)
    (hpre : Pre str wl depth (slice (t.active fl) off size) l) :
    slice (ce8Two str c wl step fuel t off size fl l depth level memory).1.orig off size
      = (ce8Loop str c wl step fuel (slice (t.active fl) off size) l depth level memory).1 ∧
    (ce8Two str c wl step fuel t off size fl l depth level memory).2
      = (ce8Loop str c wl step fuel (slice (t.active fl) off size) l depth level memory).2 ∧
    Same t (ce8Two str c wl step fuel t off size fl l depth level memory).1 off (off + size) :=
  ce8Two_ref str c wl step fuel t off size fl l depth level memory hsz hb hf hpre

/-- the same for the 16-bit loop (which hands mid-size buckets to the 8-bit loop on a flipped range) -/
theorem two_array_refines_radix16 (c : Consts) (wl : Bool)
    (fuel : Nat) (t : Two α) (off size : Nat) (fl : Bool) (l : List Nat) (depth level memory : Nat)
    (hsz : t.orig.size = t.shad.size) (hb : off + size ≤ t.orig.size)
    (hf : ∀ x ∈ slice (t.active fl) off size, (str x).length < depth + fuel)
    (hpre : Pre str wl depth (slice (t.active fl) off size) l) :
    slice (ce3Two str c wl fuel t off size fl l depth level memory).1.orig off size
      = (ce3Loop str c wl fuel (slice (t.active fl) off size) l depth level memory).1 ∧
    (ce3Two str c wl fuel t off size fl l depth level memory).2
      = (ce3Loop str c wl fuel (slice (t.active fl) off size) l depth level memory).2 ∧
    Same t (ce3Two str c wl fuel t off size fl l depth level memory).1 off (off + size) :=
  ce3Two_ref str c wl fuel t off size fl l depth level memory hsz hb hf hpre

/-- C03 for the two-array form of the front end (this is the function the correspondence driver
runs for `sort_strings`, `radixsort_CE0/CE2/CE3`) -/
theorem sort_strings_two_array_correct (c : Consts) (wl : Bool)
    (ss : List α) (l : List Nat) (mem : Nat) (hn : NulFree str ss) (hl : wl = true → l.length = ss.length) :
    SortSpec str wl ss l (sortStringsTwo str c wl ss l mem) := by
  have hpre : Pre str wl 0 ss l := ⟨fun _ _ _ _ => Nat.zero_le _, hn, hl⟩
  unfold sortStringsTwo
  rw [radixsortCE3Two_eq str c wl 0 ss l mem hpre]
  exact sort_strings_correct str c wl ss l mem hn hl

theorem radixsort_two_array_eq (c : Consts) (wl : Bool) (d : Nat) (ss : List α) (l : List Nat) (mem : Nat)
    (hpre : Pre str wl d ss l) :
    radixsortCE0Two str c wl d ss l mem = radixsortCE0 str c wl d ss l mem ∧
    radixsortCE2Two str c wl d ss l mem = radixsortCE2 str c wl d ss l mem ∧
    radixsortCE3Two str c wl d ss l mem = radixsortCE3 str c wl d ss l mem :=
  ⟨radixsortCE0Two_eq str c wl d ss l mem hpre, radixsortCE2Two_eq str c wl d ss l mem hpre,
    radixsortCE3Two_eq str c wl d ss l mem hpre⟩

/-! ## non-vacuity -/

section Examples

def exStr : Nat × Str → Str := Prod.snd
def exIn : List (Nat × Str) := [(0, [98, 97]), (1, [98]), (2, [98, 255, 1]), (3, [98]), (4, [98, 97, 1])]

/-- a non-trivial instance satisfies the hypotheses (common prefix 1, NUL-free, 5 LCP entries) -/
example : Pre exStr true 1 exIn [7, 7, 7, 7, 7] := by
  refine ⟨?_, ?_, fun _ => rfl⟩
  · intro a ha b hb
    simp only [exIn, List.mem_cons, List.mem_nil_iff, or_false] at ha hb
    rcases ha with rfl | rfl | rfl | rfl | rfl <;> rcases hb with rfl | rfl | rfl | rfl | rfl <;> decide
  · intro a ha
    simp only [exIn, List.mem_cons, List.mem_nil_iff, or_false] at ha
    rcases ha with rfl | rfl | rfl | rfl | rfl <;> decide

/-- and the model computes what the property demands on it -/
example : insertionSort exStr true 1 exIn [7, 7, 7, 7, 7]
    = ([(3, [98]), (1, [98]), (0, [98, 97]), (4, [98, 97, 1]), (2, [98, 255, 1])], [7, 1, 1, 2, 1]) := by
  decide

end Examples

end TlxVerif.C03
