import TlxVerif.Model.C11Sem
import TlxVerif.Model.C11BarM
import TlxVerif.Model.C11BarS
namespace TlxVerif.C11

/-- placeholder while the pipeline is brought up -/
theorem sem_init_value (v : Nat) (ts : List (List Sem.Op)) : (Sem.init v ts).value = v := rfl

end TlxVerif.C11
