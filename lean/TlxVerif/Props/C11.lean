import TlxVerif.Proofs.C11Sem
import TlxVerif.Proofs.C11BarM
import TlxVerif.Proofs.C11BarS
/-!
# C11 — Semaphore conserves tokens and strands no waiter; both barriers release together

All theorems quantify over every reachable state of the transition systems in
`Model/C11*.lean`, i.e. over all interleavings, all notify_one choices and all
spurious wake-ups, for arbitrary numbers of threads / operations / generations.
-/
namespace TlxVerif.C11
set_option linter.unusedSimpArgs false

section Semaphore
open Sem

/-! ## Semaphore -/

/-- **Token conservation.** In every reachable state the tokens handed out plus the current value
    equal the initial value plus the tokens signalled; in particular a Semaphore never hands out
    more tokens than were signalled plus its initial value. -/
theorem sem_conservation {v : Nat} {ths : List (List Op)} {s : State} (h : Reachable v ths s) :
    s.value + s.acquired = v + s.signalled ∧ s.acquired ≤ v + s.signalled := by
  have hi := (reachable_inv h).cons
  rw [reachable_init_eq h] at hi
  exact ⟨hi, by omega⟩

/-- the request `(d, sl)` of the `wait(d,sl)` / `try_acquire(d,sl)` whose mutex acquisition is the pending
    operation of thread `t`, if any -/
def pendingTake (s : State) (t : Nat) : Option (Nat × Nat) :=
  match pcT s.thr t with
  | .lock k | .waiting k =>
    match (opsT s.thr t)[k]? with
    | some (.wait d sl) => some (d, sl)
    | some (.tryAcq d sl) => some (d, sl)
    | _ => none
  | _ => none

/-- **Tokens are only taken when covered.** Any transition either leaves `acquired` alone and does not
    decrease the value, or it is the take of `d` tokens by a `wait(d,sl)` / `try_acquire(d,sl)` that has just
    (re-)acquired the mutex in a state with `value ≥ d + sl`. -/
theorem sem_take_only_when_covered {s : State} {t c : Nat} {o} (h : step s t c = some o) :
    (o.st.acquired = s.acquired ∧ s.value ≤ o.st.value) ∨
    ∃ d sl, pendingTake s t = some (d, sl) ∧ d + sl ≤ s.value ∧ o.st.value = s.value - d ∧
      o.st.acquired = s.acquired + d := by
  sem_step_cases h
  all_goals (
    have hpc := pcT_of_getElem? ‹s.thr[t]? = some _›
    have hops := opsT_of_getElem? ‹s.thr[t]? = some _›)
  all_goals first
    | (left; simp; done)
    | (right; simp_all [pendingTake]; exact ⟨_, _, ⟨rfl, rfl⟩, by omega, rfl, rfl⟩)

/-- **`wait(d, sl)` returns only from a state with `value ≥ d + sl`**, and the value it returns is the value
    left after taking `d`, which is at least the slack. -/
theorem sem_wait_return {s : State} {t c k r d sl : Nat} {o} (h : step s t c = some o)
    (hop : (opsT s.thr t)[k]? = some (.wait d sl))
    (hpre : pcT s.thr t = .lock k ∨ pcT s.thr t = .waiting k) (hpost : pcT o.st.thr t = .unlock k r) :
    d + sl ≤ s.value ∧ r = s.value - d ∧ sl ≤ r := by
  sem_step_cases h
  all_goals (
    have hlt := lt_of_getElem? ‹s.thr[t]? = some _›
    have hpc := pcT_of_getElem? ‹s.thr[t]? = some _›
    have hops := opsT_of_getElem? ‹s.thr[t]? = some _›)
  all_goals (simp only [pcT_setPc] at hpost; simp_all)
  all_goals omega

/-- **No lost wake-up (invariant).** Whenever a thread sits in the wait set although the value covers its
    request, some thread is between its update of the value and its `notify_all`. -/
theorem sem_no_lost_wakeup {v : Nat} {ths : List (List Op)} {s : State} (h : Reachable v ths s) :
    (∃ u k r, pcT s.thr u = .notify k r) ∨
    (∀ t k d sl, t ∈ s.ws → pcT s.thr t = .waiting k → (opsT s.thr t)[k]? = some (.wait d sl) → s.value < d + sl) :=
  (reachable_inv h).ws

/-- **No stranded waiter.** If the threads come to rest (no thread can take a step without a spurious
    wake-up), then the mutex is free, nobody is inside a critical section or blocked on the mutex, and every
    thread blocked in `wait(d, sl)` really lacks tokens: `value < d + sl`. -/
theorem sem_at_rest_no_stranded_waiter {v : Nat} {ths : List (List Op)} {s : State} (h : Reachable v ths s)
    (hrest : ∀ t, enabled s t = false) :
    s.owner = none ∧
    (∀ t k, pcT s.thr t ≠ .lock k) ∧
    (∀ t k d sl, pcT s.thr t = .waiting k → (opsT s.thr t)[k]? = some (.wait d sl) → s.value < d + sl) := by
  have hi := reachable_inv h
  have hown : s.owner = none := by
    cases ho : s.owner with
    | none => rfl
    | some u =>
      have hu := (hi.mutex u).mpr ho
      have hr := hrest u
      unfold enabled at hr
      rw [pcOf_eq] at hr
      cases hp : pcT s.thr u <;> simp [hp] at hu hr
  refine ⟨hown, ?_, ?_⟩
  · intro t k hp
    have hr := hrest t
    unfold enabled at hr
    rw [pcOf_eq, hp] at hr
    simp [hown] at hr
  · intro t k d sl hp hop
    have hr := hrest t
    unfold enabled at hr
    rw [pcOf_eq, hp] at hr
    simp [hown] at hr
    rcases hi.ws with ⟨u, k', r, hu⟩ | hws
    · have hr' := hrest u
      unfold enabled at hr'
      rw [pcOf_eq, hu] at hr'
      simp at hr'
    · exact hws t k d sl hr hp hop

/-! Non-vacuity: the D7 scenario — waiters `wait(2,0)` and `wait(1,0)` on value 0, one `signal()`.
    Both waiters block; after the signal (now `notify_all`) the wait set is empty, the `wait(1,0)` thread
    takes the token and the other one re-blocks: the run comes to rest with value 0 < 2. -/
def d7Threads : List (List Op) := [[.wait 2 0], [.wait 1 0], [.signal1]]

def d7Choices : List (Nat × Nat) :=
  [(0,0),(0,0),(0,0),(0,0),(1,0),(1,0),(1,0),(2,0),(2,0),(2,0),(3,0),(3,0),(3,0),(3,0),(1,0),(1,0),(2,0),(2,0)]

example : (runChoices (Sem.init 0 d7Threads) d7Choices).map (fun s => (s.value, s.ws, s.acquired, s.signalled))
    = some (0, [1], 1, 1) := by decide

example : ∃ s, Reachable 0 d7Threads s ∧ s.ws = [1] ∧ s.value = 0 ∧ (∀ t, enabled s t = false) := by
  have hr : ∃ s, runChoices (Sem.init 0 d7Threads) d7Choices = some s ∧ s.ws = [1] ∧ s.value = 0 ∧
      (∀ t, t < 5 → enabled s t = false) ∧ s.thr.length = 4 := by decide
  obtain ⟨s, hs, h1, h2, h3, h4⟩ := hr
  refine ⟨s, reachable_runChoices _ Reachable.init hs, h1, h2, ?_⟩
  intro t
  by_cases ht : t < 5
  · exact h3 t ht
  · unfold enabled pcOf
    have : s.thr[t]? = none := by simp; omega
    simp [this]

end Semaphore

/-! ## ThreadBarrierMutex

The barrier action is a multi-step action: it begins (`begun` + 1, trace event `actB`), takes `actYields`
scheduling points, and ends (`actions` + 1, trace event `actE`).  `actions` counts the actions that have ENDED. -/

open BarM in
/-- **Mutex barrier: released together, action in between.** In every reachable state, for all barrier threads
    `t`, `u`: `left t ≤ actions ≤ begun ≤ arrived u` (and `begun ≤ actions + 1`).  Hence a thread has completed its
    (g+1)-th `wait()` only if the action has ENDED g+1 times, and the action has begun g+1 times only after every
    thread had entered its (g+1)-th `wait()`. -/
theorem barM_release_together {n gens : Nat} (hn : 1 ≤ n) {s : BarM.State} (h : BarM.Reachable n gens s)
    {t u : Nat} (ht : isBar s t) (hu : isBar s u) :
    (getT s.thr t).left ≤ s.actions ∧ s.actions ≤ s.begun ∧ s.begun ≤ s.actions + 1 ∧
      s.begun ≤ (getT s.thr u).arrived :=
  ⟨(reachable_inv hn h).leftEnd t ht, (reachable_inv hn h).ae.1, (reachable_inv hn h).ae.2,
   ((reachable_inv hn h).bnd u hu).1⟩

open BarM in
/-- **Mutex barrier: the mutex is held throughout the action.** An action is in progress (`begun = actions + 1`)
    exactly if some barrier thread is at an `act` program point, and a thread at an `act` program point owns the
    mutex (so it is unique, and no other thread can arrive at, or leave, the barrier meanwhile). -/
theorem barM_action_holds_mutex {n gens : Nat} (hn : 1 ≤ n) {s : BarM.State} (h : BarM.Reachable n gens s) :
    (s.begun = s.actions + 1 ↔ ∃ t j, isBar s t ∧ (getT s.thr t).pc = .act j) ∧
    (∀ t j, (getT s.thr t).pc = .act j → s.owner = some t) := by
  have hi := reachable_inv hn h
  refine ⟨⟨?_, ?_⟩, ?_⟩
  · intro hba
    cases ho : s.owner with
    | none => have := hi.aeNone ho; omega
    | some t =>
      have hh := (hi.mutex t).mpr ho
      have hlt : t < s.thr.length := by
        apply Classical.byContradiction
        intro hge
        have : getT s.thr t = dflt := by
          simp [getT, List.getD_eq_getElem?_getD, List.getElem?_eq_none (show s.thr.length ≤ t by omega)]
        rw [this] at hh
        simp [dflt] at hh
      have hb : isBar s t := by
        apply isBar_of_pc hi hlt
        cases hp : (getT s.thr t).pc <;> simp [hp] at hh ⊢
      have hpt := hi.pcs t hb
      unfold pcOk at hpt
      cases hp : (getT s.thr t).pc <;> simp [hp] at hh hpt
      · omega
      · exact ⟨t, _, hb, hp⟩
      · omega
      · omega
  · rintro ⟨t, j, hb, hp⟩
    have hpt := hi.pcs t hb
    simp [pcOk, hp] at hpt
    exact hpt.2.2.2
  · intro t j hp
    exact (hi.mutex t).mp (by simp [hp])

open BarM in
/-- **Mutex barrier: the action begins once per generation, in the last arriver.**
    A transition changes `begun` only by +1, and only as part of the arrival step (`lock`) of a barrier thread
    `t` taken when no action is in progress and all other threads have already arrived in the current generation;
    afterwards every thread has arrived exactly `begun` times, `t` holds the mutex, and nobody has left the
    generation. -/
theorem barM_action_begin_by_last_arriver {n gens : Nat} (hn : 1 ≤ n) {s : BarM.State} (h : BarM.Reachable n gens s)
    {t c : Nat} {o} (hs : BarM.step s t c = some o) :
    o.st.begun = s.begun ∨
    (o.st.begun = s.begun + 1 ∧ s.begun = s.actions ∧ isBar s t ∧ (getT s.thr t).pc = .lock ∧ o.st.owner = some t ∧
      (∀ u, isBar s u → u ≠ t → (getT s.thr u).arrived = s.begun + 1) ∧
      (∀ u, isBar s u → (getT o.st.thr u).arrived = o.st.begun ∧ (getT o.st.thr u).left < o.st.begun)) := by
  have hi := reachable_inv hn h
  have hi' := inv_step hs hi
  have hb' := hi'.bnd
  have hpcs' := hi'.pcs
  have hmut' := hi'.mutex
  have hfr := frame_step hs
  barm_step_cases hs
  all_goals (first | (left; simp; done) | skip)
  -- the only remaining case: the arrival that completes the generation
  all_goals (
    have hlt := lt_of_getElem? ‹s.thr[t]? = some _›
    have hth := getT_of_getElem? ‹s.thr[t]? = some _›
    right
    have hb : isBar s t := isBar_of_pc hi hlt (by simp [*])
    have hcur := lock_cur hi hb (by simp [*]))
  have hbnd := hi.bnd
  have hown : s.owner = none := by simpa using ‹s.owner.isNone = true›
  simp only [upd_thr, setCount_thr, upd_begun, setCount_begun, upd_owner, setCount_owner] at hb' ⊢
  refine ⟨trivial, hi.aeNone hown, hb, by rw [hth]; assumption, trivial, ?_, ?_⟩
  · intro u hu hut
    have h1 := hb' u hu
    have h2 := hbnd u hu
    rw [getT_modify] at h1
    have hut' : ¬ t = u := fun h => hut h.symm
    simp only [hut', false_and, if_false] at h1
    omega
  · intro u hu
    have h1 := hb' u hu
    have h2 := hbnd u hu
    rw [getT_modify] at h1 ⊢
    by_cases hut : t = u
    · subst hut; simp [hlt] at h1 ⊢; omega
    · simp only [hut, false_and, if_false] at h1 ⊢; omega

open BarM in
/-- what holds right after the step in which an action ends -/
theorem barM_end_facts {s s' : BarM.State} {t : Nat} (hi : Inv s) (hi' : Inv s') (hn : s'.n = s.n)
    (hact : s'.actions = s.actions + 1) (hb : isBar s t) (hpc' : (getT s'.thr t).pc = .notify)
    (hleft : ∀ u, (getT s'.thr u).left = (getT s.thr u).left) :
    s'.begun = s'.actions ∧ s'.owner = some t ∧
      ∀ u, isBar s u → s'.actions ≤ (getT s'.thr u).arrived ∧ (getT s'.thr u).left < s'.actions := by
  have hb' : isBar s' t := by unfold isBar at hb ⊢; rw [hn]; exact hb
  have hpt := hi'.pcs t hb'
  simp [pcOk, hpc'] at hpt
  refine ⟨hpt.2.2.2, (hi'.mutex t).mp (by simp [hpc']), ?_⟩
  intro u hu
  have hu' : isBar s' u := by unfold isBar at hu ⊢; rw [hn]; exact hu
  have h1 := (hi'.bnd u hu').1
  have h2 := hi.leftEnd u hu
  rw [hleft u]
  omega

open BarM in
/-- **Mutex barrier: the action ends once per generation, under the mutex, before anyone is released.**
    A transition changes `actions` (the number of ended actions) only by +1; it is then the end of the action
    begun last (`begun = actions` afterwards), performed by a barrier thread `t` that holds the mutex and goes on to
    `cv_.notify_all()`; at that moment every thread has arrived in the generation and NOBODY has left it:
    no thread leaves generation g before `action_end` of g. -/
theorem barM_action_end_before_release {n gens : Nat} (hn : 1 ≤ n) {s : BarM.State} (h : BarM.Reachable n gens s)
    {t c : Nat} {o} (hs : BarM.step s t c = some o) :
    o.st.actions = s.actions ∨
    (o.st.actions = s.actions + 1 ∧ o.st.begun = o.st.actions ∧ isBar s t ∧ o.st.owner = some t ∧
      (getT o.st.thr t).pc = .notify ∧
      (∀ u, isBar s u → o.st.actions ≤ (getT o.st.thr u).arrived ∧ (getT o.st.thr u).left < o.st.actions)) := by
  have hi := reachable_inv hn h
  have hi' := inv_step hs hi
  have hfr := frame_step hs
  barm_step_cases hs
  all_goals (first | (left; simp; done) | skip)
  all_goals (
    have hlt := lt_of_getElem? ‹s.thr[t]? = some _›
    have hth := getT_of_getElem? ‹s.thr[t]? = some _›
    have hb : isBar s t := isBar_of_pc hi hlt (by simp [*]))
  · -- the arrival that completes the generation: the action ends in the same step iff it has no scheduling points
    by_cases hay : s.actYields = 0
    · right
      have hf := barM_end_facts (t := t) hi hi' hfr.1 (by simp [beginEnded, hay]) hb
        (by simp [getT_modify, hlt, beginPc, hay])
        (by intro u; simp only [upd_thr, setCount_thr, getT_modify]; split <;> rfl)
      exact ⟨by simp [beginEnded, hay], hf.1, hb, hf.2.1, by simp [getT_modify, hlt, beginPc, hay], hf.2.2⟩
    · left; simp [beginEnded, hay]
  · -- the last scheduling point of the action
    right
    have hf := barM_end_facts (t := t) hi hi' hfr.1 (by simp) hb
      (by simp [getT_modify, hlt])
      (by intro u; simp only [upd_thr, getT_modify]; split <;> rfl)
    exact ⟨by simp, hf.1, hb, hf.2.1, by simp [getT_modify, hlt], hf.2.2⟩

open BarM in
/-- **Mutex barrier: no deadlock, reusable for any number of generations.** If no thread can take a step
    (without a spurious wake-up), then every thread — the n barrier threads, each of which calls `wait()` `gens`
    times, and the main thread joining them — has finished. -/
theorem barM_no_deadlock {n gens : Nat} (hn : 1 ≤ n) {s : BarM.State} (h : BarM.Reachable n gens s)
    (hrest : ∀ t, BarM.enabled s t = false) : ∀ t, t < s.thr.length → (getT s.thr t).pc = .finished := by
  have hi := reachable_inv hn h
  have hlen := hi.len
  -- the mutex is free
  have hown : s.owner = none := by
    cases ho : s.owner with
    | none => rfl
    | some u =>
      have hu := (hi.mutex u).mpr ho
      have hr := hrest u
      unfold BarM.enabled at hr
      rw [pcOf_eq] at hr
      cases hp : (getT s.thr u).pc <;> simp [hp] at hu hr
  -- the main thread has spawned everybody
  have hmain := hi.main
  have hr0 := hrest 0
  unfold BarM.enabled at hr0
  rw [pcOf_eq] at hr0
  have hsp : s.spawned = s.n := by
    unfold mainOk at hmain
    cases hp : (getT s.thr 0).pc <;> simp [hp] at hmain hr0 <;> omega
  -- a barrier thread is finished or blocked in the wait set
  have hbar : ∀ u, isBar s u → (getT s.thr u).pc = .finished ∨ (u ∈ s.ws ∧ ∃ cur, (getT s.thr u).pc = .waiting cur) := by
    intro u hu
    have hr := hrest u
    have hp := hi.pcs u hu
    unfold BarM.enabled at hr
    rw [pcOf_eq] at hr
    unfold pcOk at hp
    cases hpc : (getT s.thr u).pc <;> simp [hpc, hown] at hp hr ⊢
    · have := hu.2; omega
    · exact hr
  -- nobody is inside the action or a pending notifier, so every thread in the wait set waits for the current generation
  have hgen : ∀ u, u ∈ s.ws → (getT s.thr u).left = s.begun := by
    rcases hi.wsGen with ⟨x, hbx, hx⟩ | hg
    · have hr := hrest x
      unfold BarM.enabled at hr
      rw [pcOf_eq] at hr
      cases hp : (getT s.thr x).pc <;> simp [hp] at hx hr
    · exact hg
  -- if somebody waited, all n threads would have arrived in the current generation
  have hnone : ∀ u, isBar s u → (getT s.thr u).pc = .finished := by
    intro u hu
    rcases hbar u hu with hfin | ⟨hws, cur, hcur⟩
    · exact hfin
    · exfalso
      have hlu := hgen u hws
      have hpu := hi.pcs u hu
      simp [pcOk, hcur] at hpu
      have hall : ∀ v, 1 ≤ v → v ≤ s.n → (fun th : Thread => decide (th.arrived = s.begun + 1)) (getT s.thr v) = true := by
        intro v h1 h2
        have hv : isBar s v := ⟨h1, h2⟩
        rcases hbar v hv with hfin | ⟨hwsv, curv, hcurv⟩
        · have hpv := hi.pcs v hv
          have hbv := hi.bnd v hv
          simp [pcOk, hfin] at hpv
          omega
        · have hlv := hgen v hwsv
          have hpv := hi.pcs v hv
          simp [pcOk, hcurv] at hpv
          simp; omega
      have hge := countP_ge_of_all (p := fun th : Thread => decide (th.arrived = s.begun + 1)) hlen hall
      have := hi.cnt
      have := hi.cntLt
      omega
  intro t ht
  by_cases ht0 : t = 0
  · subst ht0
    unfold mainOk at hmain
    cases hp : (getT s.thr 0).pc <;> simp [hp] at hmain hr0 ⊢
    rename_i i
    have := hnone (i + 1) ⟨by omega, by omega⟩
    rw [pcOf_eq, this] at hr0
    simp at hr0
  · exact hnone t ⟨by omega, by omega⟩

open BarM in
/-- when all barrier threads have finished, the action has begun and ended exactly `gens` times -/
theorem barM_actions_total {n gens : Nat} (hn : 1 ≤ n) {s : BarM.State} (h : BarM.Reachable n gens s)
    (hfin : ∀ u, isBar s u → (getT s.thr u).pc = .finished) : s.actions = gens ∧ s.begun = gens := by
  have hi := reachable_inv hn h
  have hp := reachable_params h
  have hb : isBar s 1 := ⟨by omega, by rw [hp.1]; exact hn⟩
  have h1 := hi.bnd 1 hb
  have h2 := hi.pcs 1 hb
  have h3 := hi.leftEnd 1 hb
  have h4 := hi.ae
  simp [pcOk, hfin 1 hb] at h2
  omega


/-! Non-vacuity: two threads, two generations, an action with one scheduling point inside, one concrete
    interleaving in which thread 1 waits on the condition variable in both generations; all invariants above apply
    to every prefix of it. -/
def barMChoices : List (Nat × Nat) :=
  [(0,0),(0,0),(1,0),(1,0),(1,0),(0,0),(2,0),(2,0),(2,0),(2,0),(2,0),(1,0),(1,0),(1,0),(1,0),(2,0),(2,0),(2,0),(2,0),(1,0),(1,0),(0,0),(0,0)]

example : (BarM.runChoices (BarM.init 2 2 1) barMChoices).map
    (fun s => (s.actions, s.step, s.thr.map (fun th => (th.arrived, th.left)), s.thr.all (fun th => th.pc == .finished)))
    = some (2, 0, [(0, 0), (2, 2), (2, 2)], true) := by decide

example : (BarM.runChoices (BarM.init 2 2 1) barMChoices).map (fun s => (s.begun, s.actions)) = some (2, 2) := by decide

/-- in the middle of the run above the first action is in progress: begun, not ended, nobody released -/
example : (BarM.runChoices (BarM.init 2 2 1) (barMChoices.take 8)).map
    (fun s => (s.begun, s.actions, s.owner, s.thr.map (fun th => th.left))) = some (1, 0, some 2, [0, 0, 0]) := by decide


/-! ## ThreadBarrierSpin -/

open BarS in
/-- **Spin barrier: released together, action in between.** In every reachable state, for all barrier threads
    `t`, `u`: `left t ≤ step ≤ actions ≤ begun ≤ arrived u` and `begun ≤ step + 1`.  A thread has completed its
    (g+1)-th `wait()` only if `step_` was bumped g+1 times, which happened only after the action had ENDED g+1 times;
    the action has begun g+1 times only after every thread had done its (g+1)-th `fetch_add`. -/
theorem barS_release_together {n gens : Nat} {y : Bool} (hn : 1 ≤ n) {s : BarS.State} (h : BarS.Reachable n gens y s)
    {t u : Nat} (ht : isBar s t) (hu : isBar s u) :
    (getT s.thr t).left ≤ s.step ∧ s.step ≤ s.actions ∧ s.actions ≤ s.begun ∧ s.begun ≤ s.step + 1 ∧
      s.begun ≤ (getT s.thr u).arrived := by
  have hi := reachable_inv hn h
  have hb := actions_bounds hi
  have hg := begun_bounds hi
  exact ⟨(hi.bnd t ht).2.2, hb.1, hg.1, hg.2.2.1, hg.2.2.2 u hu⟩

open BarS in
/-- **Spin barrier: the releaser is the last arriver.** The thread whose `fetch_add` returns `n - 1` (and which
    therefore goes on to reset the counter, run the action and bump the generation) performs that `fetch_add`
    when all other threads have already arrived in the current generation. -/
theorem barS_releaser_is_last_arriver {n gens : Nat} {y : Bool} (hn : 1 ≤ n) {s : BarS.State}
    (h : BarS.Reachable n gens y s) {t c : Nat} {o} (hs : BarS.step s t c = some o) (ht : isBar s t)
    (hpost : (getT o.st.thr t).pc = .storeWaiting) :
    (∃ ts, (getT s.thr t).pc = .fetchAdd ts) ∧ s.waiting + 1 = s.n ∧
    ∀ u, isBar s u → u ≠ t → (getT s.thr u).arrived = s.step + 1 := by
  have hi := reachable_inv hn h
  have hi' := inv_step hs hi
  have hfr := frame_step hs
  have ht' : isBar o.st t := by unfold isBar at ht ⊢; rw [hfr.1]; exact ht
  have hall := hi'.relAll t ht' (by simp [hpost])
  have hbnd := hi.bnd
  have hnpos := hi.npos
  bars_step_cases hs
  all_goals (
    have hlt := lt_of_getElem? ‹s.thr[t]? = some _›
    have hth := getT_of_getElem? ‹s.thr[t]? = some _›
    simp only [upd_thr, getT_modify] at hpost)
  all_goals (first
    | (simp [hlt] at hpost; done)
    | skip)
  all_goals (first | (simp [hlt, nextCall] at hpost; split at hpost <;> simp at hpost; done) | skip)
  all_goals (first | (simp [hlt, beginPc] at hpost; split at hpost <;> simp at hpost; done) | skip)
  -- remaining: the completing fetch_add
  all_goals (
    refine ⟨⟨_, by rw [hth]; assumption⟩, by omega, ?_⟩
    intro u hu hut
    have hu' : isBar _ u := hu
    have := hall u hu'
    simp only [upd_thr, getT_modify, upd_step] at this
    have hut' : ¬ t = u := fun h => hut h.symm
    simpa [hut'] using this)

open BarS in
/-- **Spin barrier: the action begins once per generation, in the releaser.**
    A transition changes `begun` only by +1, only as the `waiting_.store(0); lambda()` step of the releaser `t`,
    taken when the previous action has ended (`begun = actions = step`), every thread has arrived in the current
    generation (`arrived = step + 1`) and nobody has left it (`left ≤ step`). -/
theorem barS_action_begin_by_releaser {n gens : Nat} {y : Bool} (hn : 1 ≤ n) {s : BarS.State}
    (h : BarS.Reachable n gens y s) {t c : Nat} {o} (hs : BarS.step s t c = some o) :
    o.st.begun = s.begun ∨
    (o.st.begun = s.begun + 1 ∧ s.begun = s.step ∧ s.actions = s.step ∧ o.st.step = s.step ∧ isBar s t ∧
      (getT s.thr t).pc = .storeWaiting ∧
      ∀ u, isBar s u → (getT s.thr u).arrived = s.step + 1 ∧ (getT s.thr u).left ≤ s.step) := by
  have hi := reachable_inv hn h
  bars_step_cases hs
  all_goals (first | (left; simp; done) | skip)
  all_goals (
    have hlt := lt_of_getElem? ‹s.thr[t]? = some _›
    have hth := getT_of_getElem? ‹s.thr[t]? = some _›
    right
    have hb : isBar s t := isBar_of_pc hi hlt (by simp [*])
    have hpcT := (congrArg Thread.pc hth).trans ‹_ = Pc.storeWaiting›
    have hpt := hi.pcs t hb
    simp [pcOk, hpcT] at hpt
    have hall := hi.relAll t hb (by simp [hpcT])
    refine ⟨by simp, hpt.2.2.2.2.2, hpt.2.2.2.2.1, by simp, hb, hpcT, ?_⟩
    intro u hu
    exact ⟨hall u hu, (hi.bnd u hu).2.2⟩)

open BarS in
/-- **Spin barrier: the action ends once per generation, before `step_` is published.**
    A transition changes `actions` (the number of ended actions) only by +1, in the releaser `t`, which then is
    at `step_.fetch_add(1)` — not yet executed (`step` unchanged and still `= actions` before); every thread has
    arrived in the generation and NOBODY has left it (`left ≤ step`): no thread leaves generation g before
    `action_end` of g. -/
theorem barS_action_end_before_publish {n gens : Nat} {y : Bool} (hn : 1 ≤ n) {s : BarS.State}
    (h : BarS.Reachable n gens y s) {t c : Nat} {o} (hs : BarS.step s t c = some o) :
    o.st.actions = s.actions ∨
    (o.st.actions = s.actions + 1 ∧ s.actions = s.step ∧ o.st.step = s.step ∧ isBar s t ∧
      (getT o.st.thr t).pc = .bumpStep ∧
      ∀ u, isBar s u → (getT s.thr u).arrived = s.step + 1 ∧ (getT s.thr u).left ≤ s.step ∧
        (getT o.st.thr u).left = (getT s.thr u).left) := by
  have hi := reachable_inv hn h
  bars_step_cases hs
  all_goals (first | (left; simp; done) | skip)
  all_goals (
    have hlt := lt_of_getElem? ‹s.thr[t]? = some _›
    have hth := getT_of_getElem? ‹s.thr[t]? = some _›
    have hb : isBar s t := isBar_of_pc hi hlt (by simp [*]))
  · -- waiting_.store(0); lambda(): the action ends in the same step iff it has no scheduling points
    have hpcT := (congrArg Thread.pc hth).trans ‹_ = Pc.storeWaiting›
    have hpt := hi.pcs t hb
    simp [pcOk, hpcT] at hpt
    have hall := hi.relAll t hb (by simp [hpcT])
    by_cases hay : s.actYields = 0
    · right
      refine ⟨by simp [beginEnded, hay], hpt.2.2.2.2.1, by simp, hb, by simp [getT_modify, hlt, beginPc, hay], ?_⟩
      intro u hu
      refine ⟨hall u hu, (hi.bnd u hu).2.2, ?_⟩
      simp only [upd_thr, getT_modify]; split <;> rfl
    · left; simp [beginEnded, hay]
  · -- the last scheduling point of the action
    have hpcT := (congrArg Thread.pc hth).trans ‹_ = Pc.act _›
    have hpt := hi.pcs t hb
    simp [pcOk, hpcT] at hpt
    have hall := hi.relAll t hb (by simp [hpcT])
    right
    refine ⟨by simp, hpt.2.2.2.2.1, by simp, hb, by simp [getT_modify, hlt], ?_⟩
    intro u hu
    refine ⟨hall u hu, (hi.bnd u hu).2.2, ?_⟩
    simp only [upd_thr, getT_modify]; split <;> rfl

open BarS in
/-- **Spin barrier: `step_` is published only after the action has ended.** A transition changes `step` only by
    +1, only as the `step_.fetch_add(1)` of the releaser, and only when the action of the generation has begun AND
    ended (`begun = actions = step + 1`). -/
theorem barS_publish_after_action_end {n gens : Nat} {y : Bool} (hn : 1 ≤ n) {s : BarS.State}
    (h : BarS.Reachable n gens y s) {t c : Nat} {o} (hs : BarS.step s t c = some o) :
    o.st.step = s.step ∨
    (o.st.step = s.step + 1 ∧ s.actions = s.step + 1 ∧ s.begun = s.step + 1 ∧ isBar s t ∧
      (getT s.thr t).pc = .bumpStep) := by
  have hi := reachable_inv hn h
  bars_step_cases hs
  all_goals (first | (left; simp; done) | skip)
  all_goals (
    have hlt := lt_of_getElem? ‹s.thr[t]? = some _›
    have hth := getT_of_getElem? ‹s.thr[t]? = some _›
    right
    have hb : isBar s t := isBar_of_pc hi hlt (by simp [*])
    have hpcT := (congrArg Thread.pc hth).trans ‹_ = Pc.bumpStep›
    have hpt := hi.pcs t hb
    simp [pcOk, hpcT] at hpt
    exact ⟨by simp, hpt.2.2.2.2.1, hpt.2.2.2.2.2, hb, hpcT⟩)

open BarS in
/-- **Spin barrier: no deadlock, reusable for any number of generations** (under the fairness assumption built
    into the model: a spinning thread that has seen an unchanged `step_` is suspended until `step_` changes).
    If no thread can take a step, every thread has finished. -/
theorem barS_no_deadlock {n gens : Nat} {y : Bool} (hn : 1 ≤ n) {s : BarS.State} (h : BarS.Reachable n gens y s)
    (hrest : ∀ t, BarS.enabled s t = false) : ∀ t, t < s.thr.length → (getT s.thr t).pc = .finished := by
  have hi := reachable_inv hn h
  have hlen := hi.len
  have hmain := hi.main
  have hr0 := hrest 0
  unfold BarS.enabled at hr0
  rw [pcOf_eq] at hr0
  have hsp : s.spawned = s.n := by
    unfold mainOk at hmain
    cases hp : (getT s.thr 0).pc <;> simp [hp] at hmain hr0 <;> omega
  -- a barrier thread is finished or spins on an unchanged step_
  have hbar : ∀ u, isBar s u → (getT s.thr u).pc = .finished ∨
      ((getT s.thr u).pc = .spin s.step true ∧ (getT s.thr u).left = s.step ∧ (getT s.thr u).arrived = s.step + 1) := by
    intro u hu
    have hr := hrest u
    have hp := hi.pcs u hu
    unfold BarS.enabled at hr
    rw [pcOf_eq] at hr
    unfold pcOk at hp
    cases hpc : (getT s.thr u).pc <;> simp [hpc] at hp hr ⊢
    · have := hu.2; omega
    · refine ⟨⟨hr.2.symm, hr.1⟩, ?_, ?_⟩ <;> omega
  -- nobody is the releaser (it would be enabled)
  have hno : ∀ x, isBar s x → rel (getT s.thr x).pc = false := by
    intro x hx
    rcases hbar x hx with hf | ⟨hs, _⟩ <;> simp [*]
  have hnr := hi.noRel hno
  have hnone : ∀ u, isBar s u → (getT s.thr u).pc = .finished := by
    intro u hu
    rcases hbar u hu with hfin | ⟨hsp', hl, ha⟩
    · exact hfin
    · exfalso
      have hpu := hi.pcs u hu
      simp [pcOk, hsp'] at hpu
      have hall : ∀ v, 1 ≤ v → v ≤ s.n → (fun th : Thread => decide (th.arrived = s.step + 1)) (getT s.thr v) = true := by
        intro v h1 h2
        have hv : isBar s v := ⟨h1, h2⟩
        rcases hbar v hv with hfin | ⟨_, _, hav⟩
        · have hpv := hi.pcs v hv
          have hbv := hi.bnd v hv
          simp [pcOk, hfin] at hpv
          omega
        · simp [hav]
      have hge := countP_ge_of_all (p := fun th : Thread => decide (th.arrived = s.step + 1)) hlen hall
      omega
  intro t ht
  by_cases ht0 : t = 0
  · subst ht0
    unfold mainOk at hmain
    cases hp : (getT s.thr 0).pc <;> simp [hp] at hmain hr0 ⊢
    rename_i i
    have := hnone (i + 1) ⟨by omega, by omega⟩
    rw [pcOf_eq, this] at hr0
    simp at hr0
  · exact hnone t ⟨by omega, by omega⟩

open BarS in
/-- when all barrier threads have finished, the action has begun and ended exactly `gens` times and `step_ = gens` -/
theorem barS_actions_total {n gens : Nat} {y : Bool} (hn : 1 ≤ n) {s : BarS.State} (h : BarS.Reachable n gens y s)
    (hfin : ∀ u, isBar s u → (getT s.thr u).pc = .finished) : s.actions = gens ∧ s.begun = gens ∧ s.step = gens := by
  have hi := reachable_inv hn h
  have hp := reachable_params h
  have hb : isBar s 1 := ⟨by omega, by rw [hp.1]; exact hn⟩
  have h1 := hi.bnd 1 hb
  have h2 := hi.pcs 1 hb
  have h3 := actions_bounds hi
  have h4 := h3.2.2 1 hb
  have h5 := begun_bounds hi
  have h6 := h5.2.2.2 1 hb
  simp [pcOk, hfin 1 hb] at h2
  omega


/-! Non-vacuity: three threads, two generations of `wait_yield()`, an action with one scheduling point inside,
    one concrete interleaving. -/
def barSChoices : List (Nat × Nat) :=
  [(0,0),(0,0),(1,0),(1,0),(1,0),(1,0),(1,0),(0,0),(2,0),(2,0),(2,0),(2,0),(2,0),(0,0),(3,0),(3,0),(3,0),(3,0),(3,0),(3,0),(1,0),(1,0),(1,0),(1,0),(1,0),(2,0),(2,0),(2,0),(2,0),(2,0),(3,0),(3,0),(3,0),(3,0),(3,0),(1,0),(2,0),(0,0),(0,0),(0,0)]

example : (BarS.runChoices (BarS.init 3 2 true 1) barSChoices).map
    (fun (s : BarS.State) => (s.actions, s.step, s.waiting, s.thr.map (fun (th : BarS.Thread) => (th.arrived, th.left))))
    = some (2, 2, 0, [(0, 0), (2, 2), (2, 2), (2, 2)]) := by decide

example : (BarS.runChoices (BarS.init 3 2 true 1) barSChoices).map (fun (s : BarS.State) => (s.begun, s.actions)) =
    some (2, 2) := by decide

/-- in the middle of the run above the first action is in progress: begun, not ended, `step_` not yet published -/
example : (BarS.runChoices (BarS.init 3 2 true 1) (barSChoices.take 18)).map
    (fun (s : BarS.State) => (s.begun, s.actions, s.step, s.thr.map (fun (th : BarS.Thread) => th.left))) =
    some (1, 0, 0, [0, 0, 0, 0]) := by decide

example : (BarS.runChoices (BarS.init 3 2 true 1) barSChoices).map
    (fun (s : BarS.State) => s.thr.all (fun (th : BarS.Thread) => th.pc == BarS.Pc.finished)) = some true := by decide


/-! ## "No transition at all" implies "at rest"

The at-rest theorems above are stated with the executable predicate `enabled`.  In reachable states an enabled
thread always has a transition, so a state without any transition is at rest. -/

theorem sem_stuck_is_at_rest {v : Nat} {ths : List (List Sem.Op)} {s : Sem.State} (h : Sem.Reachable v ths s)
    (hstuck : ∀ t c, Sem.step s t c = none) : ∀ t, Sem.enabled s t = false := by
  intro t
  cases he : Sem.enabled s t with
  | false => rfl
  | true => obtain ⟨o, ho⟩ := Sem.enabled_step h 0 he; rw [hstuck t 0] at ho; simp at ho

theorem barM_stuck_is_at_rest {s : BarM.State} (hstuck : ∀ t c, BarM.step s t c = none) :
    ∀ t, BarM.enabled s t = false := by
  intro t
  cases he : BarM.enabled s t with
  | false => rfl
  | true => obtain ⟨o, ho⟩ := BarM.enabled_step 0 he; rw [hstuck t 0] at ho; simp at ho

theorem barS_stuck_is_at_rest {s : BarS.State} (hstuck : ∀ t c, BarS.step s t c = none) :
    ∀ t, BarS.enabled s t = false := by
  intro t
  cases he : BarS.enabled s t with
  | false => rfl
  | true => obtain ⟨o, ho⟩ := BarS.enabled_step 0 he; rw [hstuck t 0] at ho; simp at ho

end TlxVerif.C11
