import TlxVerif.Proofs.C11Sem
/-!
# C11 — Semaphore conserves tokens and strands no waiter; both barriers release together

All theorems quantify over every reachable state of the transition systems in
`Model/C11*.lean`, i.e. over all interleavings, all notify_one choices and all
spurious wake-ups, for arbitrary numbers of threads / operations / generations.
-/
namespace TlxVerif.C11
open Sem

/-! ## Semaphore -/

/-- **Token conservation.** In every reachable state the tokens handed out plus the current value
    equal the initial value plus the tokens signalled; in particular a Semaphore never hands out
    more tokens than were signalled plus its initial value. -/
theorem sem_conservation {v : Nat} {ths : List (List Op)} {s : State} (h : Reachable v ths s) :
    s.value + s.acquired = v + s.signalled ∧ s.acquired ≤ v + s.signalled := by
  have hi := (reachable_inv h).cons
  rw [reachable_init_eq h] at hi
  exact ⟨hi, by omega⟩

/-- the request `(d, sl)` of the `wait(d,sl)` / `try_acquire(d,sl)` whose mutex acquisition is the pending
    operation of thread `t`, if any -/
def pendingTake (s : State) (t : Nat) : Option (Nat × Nat) :=
  match pcT s.thr t with
  | .lock k | .waiting k =>
    match (opsT s.thr t)[k]? with
    | some (.wait d sl) => some (d, sl)
    | some (.tryAcq d sl) => some (d, sl)
    | _ => none
  | _ => none

/-- **Tokens are only taken when covered.** Any transition either leaves `acquired` alone and does not
    decrease the value, or it is the take of `d` tokens by a `wait(d,sl)` / `try_acquire(d,sl)` that has just
    (re-)acquired the mutex in a state with `value ≥ d + sl`. -/
theorem sem_take_only_when_covered {s : State} {t c : Nat} {o} (h : step s t c = some o) :
    (o.st.acquired = s.acquired ∧ s.value ≤ o.st.value) ∨
    ∃ d sl, pendingTake s t = some (d, sl) ∧ d + sl ≤ s.value ∧ o.st.value = s.value - d ∧
      o.st.acquired = s.acquired + d := by
  step_cases h
  all_goals (
    have hpc := pcT_of_getElem? ‹s.thr[t]? = some _›
    have hops := opsT_of_getElem? ‹s.thr[t]? = some _›)
  all_goals first
    | (left; simp; done)
    | (right; simp_all [pendingTake]; exact ⟨_, _, ⟨rfl, rfl⟩, by omega, rfl, rfl⟩)

/-- **`wait(d, sl)` returns only from a state with `value ≥ d + sl`**, and the value it returns is the value
    left after taking `d`, which is at least the slack. -/
theorem sem_wait_return {s : State} {t c k r d sl : Nat} {o} (h : step s t c = some o)
    (hop : (opsT s.thr t)[k]? = some (.wait d sl))
    (hpre : pcT s.thr t = .lock k ∨ pcT s.thr t = .waiting k) (hpost : pcT o.st.thr t = .unlock k r) :
    d + sl ≤ s.value ∧ r = s.value - d ∧ sl ≤ r := by
  step_cases h
  all_goals (
    have hlt := lt_of_getElem? ‹s.thr[t]? = some _›
    have hpc := pcT_of_getElem? ‹s.thr[t]? = some _›
    have hops := opsT_of_getElem? ‹s.thr[t]? = some _›)
  all_goals (simp only [pcT_setPc] at hpost; simp_all)
  all_goals omega

/-- **No lost wake-up (invariant).** Whenever a thread sits in the wait set although the value covers its
    request, some thread is between its update of the value and its `notify_all`. -/
theorem sem_no_lost_wakeup {v : Nat} {ths : List (List Op)} {s : State} (h : Reachable v ths s) :
    (∃ u k r, pcT s.thr u = .notify k r) ∨
    (∀ t k d sl, t ∈ s.ws → pcT s.thr t = .waiting k → (opsT s.thr t)[k]? = some (.wait d sl) → s.value < d + sl) :=
  (reachable_inv h).ws

/-- **No stranded waiter.** If the threads come to rest (no thread can take a step without a spurious
    wake-up), then the mutex is free, nobody is inside a critical section or blocked on the mutex, and every
    thread blocked in `wait(d, sl)` really lacks tokens: `value < d + sl`. -/
theorem sem_at_rest_no_stranded_waiter {v : Nat} {ths : List (List Op)} {s : State} (h : Reachable v ths s)
    (hrest : ∀ t, enabled s t = false) :
    s.owner = none ∧
    (∀ t k, pcT s.thr t ≠ .lock k) ∧
    (∀ t k d sl, pcT s.thr t = .waiting k → (opsT s.thr t)[k]? = some (.wait d sl) → s.value < d + sl) := by
  have hi := reachable_inv h
  have hown : s.owner = none := by
    cases ho : s.owner with
    | none => rfl
    | some u =>
      have hu := (hi.mutex u).mpr ho
      have hr := hrest u
      unfold enabled at hr
      rw [pcOf_eq] at hr
      cases hp : pcT s.thr u <;> simp [hp] at hu hr
  refine ⟨hown, ?_, ?_⟩
  · intro t k hp
    have hr := hrest t
    unfold enabled at hr
    rw [pcOf_eq, hp] at hr
    simp [hown] at hr
  · intro t k d sl hp hop
    have hr := hrest t
    unfold enabled at hr
    rw [pcOf_eq, hp] at hr
    simp [hown] at hr
    rcases hi.ws with ⟨u, k', r, hu⟩ | hws
    · have hr' := hrest u
      unfold enabled at hr'
      rw [pcOf_eq, hu] at hr'
      simp at hr'
    · exact hws t k d sl hr hp hop

/-! Non-vacuity: the D7 scenario — waiters `wait(2,0)` and `wait(1,0)` on value 0, one `signal()`.
    Both waiters block; after the signal (now `notify_all`) the wait set is empty, the `wait(1,0)` thread
    takes the token and the other one re-blocks: the run comes to rest with value 0 < 2. -/
def d7Threads : List (List Op) := [[.wait 2 0], [.wait 1 0], [.signal1]]

def d7Choices : List (Nat × Nat) :=
  [(0,0),(0,0),(0,0),(0,0),(1,0),(1,0),(1,0),(2,0),(2,0),(2,0),(3,0),(3,0),(3,0),(3,0),(1,0),(1,0),(2,0),(2,0)]

example : (runChoices (Sem.init 0 d7Threads) d7Choices).map (fun s => (s.value, s.ws, s.acquired, s.signalled))
    = some (0, [1], 1, 1) := by decide

example : ∃ s, Reachable 0 d7Threads s ∧ s.ws = [1] ∧ s.value = 0 ∧ (∀ t, enabled s t = false) := by
  have hr : ∃ s, runChoices (Sem.init 0 d7Threads) d7Choices = some s ∧ s.ws = [1] ∧ s.value = 0 ∧
      (∀ t, t < 5 → enabled s t = false) ∧ s.thr.length = 4 := by decide
  obtain ⟨s, hs, h1, h2, h3, h4⟩ := hr
  refine ⟨s, reachable_runChoices _ Reachable.init hs, h1, h2, ?_⟩
  intro t
  by_cases ht : t < 5
  · exact h3 t ht
  · unfold enabled pcOf
    have : s.thr[t]? = none := by simp; omega
    simp [this]

end TlxVerif.C11
