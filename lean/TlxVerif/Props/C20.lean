import TlxVerif.Model.C20Bits
import TlxVerif.Model.C20Agg
import TlxVerif.Proofs.C20Agg
/-!
C20 — property theorems.

Part 1: Aggregate (exact arithmetic over ℚ; floating-point rounding is outside the theorems).
Part 2: integer helpers (width-generic `BitVec w`).
-/
set_option linter.unusedSimpArgs false
namespace TlxVerif.C20

/-! ## Part 1 — Aggregate -/

/-- feeding values one by one never divides by zero and yields: count = n, mean = Σx/n,
    nvar = Σx² − (Σx)²/n = Σ(x − mean)², min/max = folds of `std::min`/`std::max` -/
theorem agg_feed (L : Lim) (xs : List Rat) : aggOf L xs = some (closed L xs) := aggOf_closed L xs

theorem agg_feed_fields (L : Lim) (xs : List Rat) :
    (closed L xs).count = xs.length ∧
    (closed L xs).mean = (if xs.length = 0 then 0 else S1 xs / (xs.length : Rat)) ∧
    (closed L xs).nvar = sqdev (meanOf xs) xs := ⟨rfl, rfl, nvarOf_eq_sqdev xs⟩

/-- **`a + b`** equals one Aggregate fed with all values — for all value lists, empty ones included -/
theorem agg_plus (L : Lim) (xs ys : List Rat) :
    (do let a ← aggOf L xs; let b ← aggOf L ys; a.plus b) = aggOf L (xs ++ ys) := by
  simp only [agg_feed, bind, Option.bind]
  exact plus_closed L xs ys

/-- **`a += b`** (statement order of the repaired code) equals one Aggregate fed with all values -/
theorem agg_plusEq (L : Lim) (xs ys : List Rat) :
    (do let a ← aggOf L xs; let b ← aggOf L ys; a.plusEq b) = aggOf L (xs ++ ys) := by
  simp only [agg_feed, bind, Option.bind, plusEq_eq_plus]
  exact plus_closed L xs ys

/-- **`a += a`** (aliased operand) equals one Aggregate fed with every value twice -/
theorem agg_plusEqSelf (L : Lim) (xs : List Rat) :
    (do let a ← aggOf L xs; a.plusEqSelf) = aggOf L (xs ++ xs) := by
  simp only [agg_feed, bind, Option.bind, plusEqSelf_eq_plus]
  exact plus_closed L xs xs

/-- non-vacuity / D27 witness: {1,2,3} += {10,20} has nvar 1274/5 (variance 63.7), not 125.008 -/
example : (do let a ← aggOf ⟨1000, -1000⟩ [1, 2, 3]; let b ← aggOf ⟨1000, -1000⟩ [10, 20]; a.plusEq b)
    = some ⟨5, 36 / 5, 1274 / 5, 1, 20⟩ := by decide +kernel

/-- non-vacuity / D28 witness: empty + empty is the empty aggregate (no NaN) -/
example : (Agg.empty ⟨7, -7⟩).plus (Agg.empty ⟨7, -7⟩) = some (Agg.empty ⟨7, -7⟩) := by decide +kernel

/-! ## Part 2 — integer helpers -/

/-- 8-bit cross-check (finite table): the SWAR popcount equals the bit count -/
theorem popcountGeneric8_table : ∀ x : BitVec 8, popcountGeneric8 x = popc 8 x.toNat := by
  decide

end TlxVerif.C20
