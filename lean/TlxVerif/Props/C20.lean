import TlxVerif.Model.C20Bits
import TlxVerif.Model.C20Agg
namespace TlxVerif.C20

/-- 8-bit cross-check (finite table): the SWAR popcount equals the bit count -/
theorem popcountGeneric8_table : ∀ x : BitVec 8, popcountGeneric8 x = popc 8 x.toNat := by
  decide

end TlxVerif.C20
