import TlxVerif.Model.C20Bits
import TlxVerif.Model.C20Agg
import TlxVerif.Proofs.C20Agg
import TlxVerif.Proofs.C20Bits
import TlxVerif.Proofs.C20Swar
/-!
C20 — property theorems.

Part 1: Aggregate (exact arithmetic over ℚ; floating-point rounding is outside the theorems).
Part 2: integer helpers (width-generic `BitVec w`).
-/
set_option linter.unusedSimpArgs false
namespace TlxVerif.C20

/-! ## Part 1 — Aggregate -/

/-- feeding values one by one never divides by zero and yields: count = n, mean = Σx/n,
    nvar = Σx² − (Σx)²/n = Σ(x − mean)², min/max = folds of `std::min`/`std::max` -/
theorem agg_feed (L : Lim) (xs : List Rat) : aggOf L xs = some (closed L xs) := aggOf_closed L xs

theorem agg_feed_fields (L : Lim) (xs : List Rat) :
    (closed L xs).count = xs.length ∧
    (closed L xs).mean = (if xs.length = 0 then 0 else S1 xs / (xs.length : Rat)) ∧
    (closed L xs).nvar = sqdev (meanOf xs) xs := ⟨rfl, rfl, nvarOf_eq_sqdev xs⟩

/-- **`a + b`** equals one Aggregate fed with all values — for all value lists, empty ones included -/
theorem agg_plus (L : Lim) (xs ys : List Rat) :
    (do let a ← aggOf L xs; let b ← aggOf L ys; a.plus b) = aggOf L (xs ++ ys) := by
  simp only [agg_feed, bind, Option.bind]
  exact plus_closed L xs ys

/-- **`a += b`** (statement order of the repaired code) equals one Aggregate fed with all values -/
theorem agg_plusEq (L : Lim) (xs ys : List Rat) :
    (do let a ← aggOf L xs; let b ← aggOf L ys; a.plusEq b) = aggOf L (xs ++ ys) := by
  simp only [agg_feed, bind, Option.bind, plusEq_eq_plus]
  exact plus_closed L xs ys

/-- **`a += a`** (aliased operand) equals one Aggregate fed with every value twice -/
theorem agg_plusEqSelf (L : Lim) (xs : List Rat) :
    (do let a ← aggOf L xs; a.plusEqSelf) = aggOf L (xs ++ xs) := by
  simp only [agg_feed, bind, Option.bind, plusEqSelf_eq_plus]
  exact plus_closed L xs xs

/-- `variance(ddof)` of an Aggregate fed with `n ≥ 2` values is `Σ(x − mean)² / (n − ddof)` for
    `ddof < n` (population variance for 0, sample variance for 1); never a division by zero -/
theorem agg_variance (L : Lim) (xs : List Rat) (ddof : Nat) (h2 : 2 ≤ xs.length) (hd : ddof < xs.length) :
    (closed L xs).variance ddof = some (sqdev (meanOf xs) xs / ((xs.length - ddof : Nat) : Rat)) := by
  have hne : ((xs.length - ddof : Nat) : Rat) ≠ 0 := natCast_ne_zero _ (by omega)
  have hc : ¬ (closed L xs).count ≤ 1 := by simp [closed]; omega
  simp only [Agg.variance, hc, if_false, qdiv]
  simp only [closed, hne, if_false, nvarOf_eq_sqdev]

/-- non-vacuity / D27 witness: {1,2,3} += {10,20} has nvar 1274/5 (variance 63.7), not 125.008 -/
example : (do let a ← aggOf ⟨1000, -1000⟩ [1, 2, 3]; let b ← aggOf ⟨1000, -1000⟩ [10, 20]; a.plusEq b)
    = some ⟨5, 36 / 5, 1274 / 5, 1, 20⟩ := by decide +kernel

/-- non-vacuity / D28 witness: empty + empty is the empty aggregate (no NaN) -/
example : (Agg.empty ⟨7, -7⟩).plus (Agg.empty ⟨7, -7⟩) = some (Agg.empty ⟨7, -7⟩) := by decide +kernel

/-! ## Part 2 — integer helpers

Every statement is for an arbitrary width `w` (the power-of-two roundings for `w = 2^m`, the byte
swaps and SWAR popcounts for their fixed widths) and for *every* bit pattern `x : BitVec w`;
`sg` selects the signed or unsigned instantiation of a template.  `bitLen w n` is the number of
significant bits (`⌊log₂ n⌋ + 1`, `bitLen_eq_log2`), `ctzB w n` the index of the lowest set bit
(`ctzB_spec`), `popc w n` the number of one bits.  The overloads that use a compiler intrinsic
are modelled with the intrinsic's specification (`spec*`, trusted and compared with the real
instructions by the correspondence); "fall-back agrees with intrinsic" is the equation
`template = overload`. -/

/-- **clz_template** = number of leading zero bits, all widths, all values -/
theorem clz_template_correct {w : Nat} (x : BitVec w) :
    clzTemplate x = some (w - bitLen w x.toNat) := clzTemplate_eq x

theorem clz_template_log2 {w : Nat} (x : BitVec w) (hx : x.toNat ≠ 0) :
    clzTemplate x = some (w - 1 - Nat.log2 x.toNat) := by
  rw [clzTemplate_eq, bitLen_eq_log2 hx x.isLt]; congr 1; omega

/-- the generic fall-back agrees with the intrinsic-based overload -/
theorem clz_fallback_agrees {w : Nat} (x : BitVec w) : clzTemplate x = some (clzOverload x) := by
  rw [clzTemplate_eq]; unfold clzOverload specClz
  by_cases h : x = 0#w
  · subst h; simp
  · simp [h]

/-- **ctz_template** = number of trailing zero bits (`w` for 0), signed and unsigned -/
theorem ctz_template_correct {w : Nat} (sg : Bool) (x : BitVec w) :
    ctzTemplate sg x = some (ctzB w x.toNat) := ctzTemplate_eq sg x

theorem ctz_fallback_agrees {w : Nat} (sg : Bool) (x : BitVec w) :
    ctzTemplate sg x = some (ctzOverload x) := by
  rw [ctzTemplate_eq]; unfold ctzOverload specCtz
  by_cases h : x = 0#w
  · subst h; simp
  · simp [h]

/-- **ffs_template** = 1 + index of the least significant one bit, 0 for 0 -/
theorem ffs_fallback_agrees {w : Nat} (sg : Bool) (x : BitVec w) :
    ffsTemplate sg x = some (ffsOverload x) := ffsTemplate_eq sg x

/-- **popcount_generic8/16/32/64** = number of one bits = the intrinsic-based overload -/
theorem popcount_generic_correct :
    (∀ x : BitVec 8, popcountGeneric8 x = popcountOverload x) ∧
    (∀ x : BitVec 16, popcountGeneric16 x = popcountOverload x) ∧
    (∀ x : BitVec 32, popcountGeneric32 x = popcountOverload x) ∧
    (∀ x : BitVec 64, popcountGeneric64 x = popcountOverload x) :=
  ⟨by decide, popcountGeneric16_eq, popcountGeneric32_eq, popcountGeneric64_eq⟩

/-- **popcount(const void* data, size_t size)** (repaired: unaligned-safe loads): the number of one
    bits of the byte string, for every length and every content -/
theorem popcount_buffer_correct (bs : List (BitVec 8)) :
    popcountBuf bs = (bs.map fun b => popc 8 b.toNat).sum := popcountBuf_eq bs

/-- **integer_log2_floor_template** = `⌊log₂ i⌋` for every `i ≥ 1` (0 for 0), and it agrees with the
    intrinsic-based overload -/
theorem log2_floor_correct {w : Nat} (sg : Bool) (i : BitVec w) (hnn : NonNeg sg i)
    (h1 : i.toNat ≠ 0) : log2FloorTemplate sg i = some (Nat.log2 i.toNat) :=
  log2FloorTemplate_log2 sg i hnn h1

theorem log2_floor_fallback_agrees {w : Nat} (sg : Bool) (i : BitVec w) (hnn : NonNeg sg i) :
    log2FloorTemplate sg i = some (log2FloorOverload i) := by
  rw [log2FloorTemplate_eq sg i hnn]; unfold log2FloorOverload specClz
  by_cases h : i = 0#w
  · subst h; simp
  · simp only [h, if_false]
    have := bitLen_le w i.toNat
    have := bitLen_pos (pos_of_ne_zero h).2 (by have := (pos_of_ne_zero h).1; omega : w ≠ 0)
    congr 1; omega

/-- **integer_log2_ceil** = `⌈log₂ i⌉`: the least `c` with `i ≤ 2^c`, for every `i ≥ 1` -/
theorem log2_ceil_correct {w : Nat} (sg : Bool) (i : BitVec w) (hnn : NonNeg sg i)
    (h1 : 1 ≤ i.toNat) :
    i.toNat ≤ 2 ^ log2CeilOverload sg i ∧ ∀ k, i.toNat ≤ 2 ^ k → log2CeilOverload sg i ≤ k := by
  unfold log2CeilOverload
  rw [val_nonneg_eq sg i hnn]
  by_cases h : (i.toNat : Int) ≤ 1
  · simp only [h, if_true]
    have : i.toNat = 1 := by omega
    rw [this]; simp
  · simp only [h, if_false]
    have hw : 0 < w := by
      rcases Nat.eq_zero_or_pos w with h0 | h0
      · subst h0; have := i.isLt; simp at this; omega
      · exact h0
    have hone : (1#w).toNat = 1 := by simp [Nat.one_mod_two_pow hw]
    have hpred : (i - 1#w).toNat = i.toNat - 1 := by
      rw [sub_toNat_of_le _ _ (by rw [hone]; exact h1), hone]
    have hne : i - 1#w ≠ 0#w := by
      intro h0; have := congrArg BitVec.toNat h0; rw [hpred] at this; simp at this; omega
    unfold log2FloorOverload specClz
    simp only [hne, if_false, hpred]
    have hlt : i.toNat - 1 < 2 ^ w := by have := i.isLt; omega
    have hn0 : i.toNat - 1 ≠ 0 := by omega
    obtain ⟨s1, s2⟩ := bitLen_spec hn0 hlt
    have hb := bitLen_le w (i.toNat - 1)
    have hp := bitLen_pos hn0 (by omega : w ≠ 0)
    have e : w - 1 - (w - bitLen w (i.toNat - 1)) + 1 = bitLen w (i.toNat - 1) := by omega
    rw [e]
    refine ⟨by omega, fun k hk => ?_⟩
    have : 2 ^ (bitLen w (i.toNat - 1) - 1) < 2 ^ k := by omega
    have := (Nat.pow_lt_pow_iff_right (by omega : 1 < 2)).mp this
    omega

/-- **is_power_of_two_template**: true exactly for the powers of two (negative values: false) -/
theorem is_power_of_two_correct {w : Nat} (sg : Bool) (i : BitVec w) :
    isPow2Template sg i = true ↔ ∃ k : Nat, val sg i = (2 : Int) ^ k := isPow2Template_iff sg i

/-- **round_up_to_power_of_two_template**: the least power of two `≥ n` for every
    `1 ≤ n ≤ 2^(w-1)` — the whole range in which the result is representable -/
theorem round_up_pow2_correct {w : Nat} (m : Nat) (hw : w = 2 ^ m) (sg : Bool) (n : BitVec w)
    (hnn : NonNeg sg n) (h1 : 1 ≤ n.toNat) (hrep : n.toNat ≤ 2 ^ (w - 1)) :
    ∃ r, roundUpPow2Template sg n = some r ∧ IsPow2Ceil r.toNat n.toNat :=
  roundUpPow2Template_eq m hw sg n hnn h1 hrep

/-- **round_down_to_power_of_two** (repaired, D26): the greatest power of two `≤ n` for *every*
    `n ≥ 1` of the type, including the upper half of the range -/
theorem round_down_pow2_correct {w : Nat} (m : Nat) (hw : w = 2 ^ m) (sg : Bool) (n : BitVec w)
    (hnn : NonNeg sg n) :
    ∃ r, roundDownPow2Template sg n = some r ∧
      (n.toNat = 0 → r.toNat = 0) ∧ (n.toNat ≠ 0 → IsPow2Floor r.toNat n.toNat) :=
  roundDownPow2Template_eq m hw sg n hnn

/-- **bswap16/32/64_generic** reverse the bytes (= the intrinsic's specification) -/
theorem bswap_generic_correct :
    (∀ x : BitVec 16, bswap16Generic x = specBswap x) ∧
    (∀ x : BitVec 32, bswap32Generic x = specBswap x) ∧
    (∀ x : BitVec 64, bswap64Generic x = specBswap x) :=
  ⟨bswap16Generic_eq, bswap32Generic_eq, bswap64Generic_eq⟩

/-- **rol/ror 32/64 generic** = rotation by the count modulo the width, for every count
    (negative `int` counts included) -/
theorem rol_ror_generic_correct {w : Nat} (m : Nat) (hw : w = 2 ^ m) (hm : m < 32)
    (x : BitVec w) (i : BitVec 32) :
    rolGeneric x i = specRol x i ∧ rorGeneric x i = specRor x i :=
  ⟨rolGeneric_eq m hw hm x i, rorGeneric_eq m hw hm x i⟩

/-- **div_ceil** (repaired, D25): `⌈n/k⌉` for every `n ≥ 0`, `k > 0` of every type -/
theorem div_ceil_correct {w : Nat} (sg : Bool) (n k : BitVec w) (hn : NonNeg sg n)
    (hk : NonNeg sg k) (hk0 : k.toNat ≠ 0) :
    IsCeilDiv (divCeil sg n k).toNat n.toNat k.toNat ∧ NonNeg (promSg w sg) (divCeil sg n k) :=
  divCeil_eq sg n k hn hk hk0

/-- **round_up** (repaired, D25): the least multiple of `k` that is `≥ n`, whenever representable -/
theorem round_up_correct {w : Nat} (sg : Bool) (n k : BitVec w) (hn : NonNeg sg n) (hk : NonNeg sg k)
    (hk0 : k.toNat ≠ 0) (q : Nat) (hq : IsCeilDiv q n.toNat k.toNat)
    (hrep : q * k.toNat < 2 ^ promW w) : (roundUp sg n k).toNat = q * k.toNat :=
  roundUp_eq sg n k hn hk hk0 q hq hrep

/-- **div_ceil / round_up with arguments of different types** (`div_ceil<N,K>`, `round_up<N,K>`):
    computed in `decltype(n + k)` — the usual arithmetic conversions, `commW`/`commSg` — the results
    are `⌈n/k⌉` and the least multiple of `k` that is `≥ n` (when representable in that type), for
    every pair of argument types and every `n ≥ 0`, `k > 0` -/
theorem div_ceil_mixed_correct {wn wk : Nat} (sn : Bool) (n : BitVec wn) (sk : Bool) (k : BitVec wk)
    (hn : NonNeg sn n) (hk : NonNeg sk k) (hk0 : k.toNat ≠ 0) :
    IsCeilDiv (divCeilMixed sn n sk k).toNat n.toNat k.toNat ∧
    NonNeg (commSg wn sn wk sk) (divCeilMixed sn n sk k) := divCeilMixed_eq sn n sk k hn hk hk0

theorem round_up_mixed_correct {wn wk : Nat} (sn : Bool) (n : BitVec wn) (sk : Bool) (k : BitVec wk)
    (hn : NonNeg sn n) (hk : NonNeg sk k) (hk0 : k.toNat ≠ 0) (q : Nat)
    (hq : IsCeilDiv q n.toNat k.toNat) (hrep : q * k.toNat < 2 ^ commW wn wk) :
    (roundUpMixed sn n sk k).toNat = q * k.toNat := roundUpMixed_eq sn n sk k hn hk hk0 q hq hrep

/-- the return type `decltype(n + k)` for all 64 pairs of the eight integer types, as the compiler
    determines it (the harness prints it; this is the model's table): width 64 iff one operand is
    64 bit wide; signed iff no operand of the result's width is unsigned -/
theorem comm_type_table :
    ∀ wn ∈ [8, 16, 32, 64], ∀ wk ∈ [8, 16, 32, 64], ∀ sn sk : Bool,
      commW wn wk = (if wn = 64 ∨ wk = 64 then 64 else 32) ∧
      commSg wn sn wk sk = !((wn = commW wn wk && !sn) || (wk = commW wn wk && !sk)) := by decide

/-- witness for a width bug in a mixed call: `round_up(uint64_t(2^32 + 1), uint32_t(4096))` is
    `2^32 + 4096` (a mask `~(k-1)` computed in 32 bits would give 4096) -/
example : (roundUpMixed false (BitVec.ofNat 64 (2 ^ 32 + 1)) false (4096#32)).toNat = 2 ^ 32 + 4096 := by
  decide

/-- **abs_diff** = `|a − b|` (unsigned: always; signed: whenever representable) -/
theorem abs_diff_correct {w : Nat} (a b : BitVec w) :
    (absDiff false a b).toNat = (if b.toNat < a.toNat then a.toNat - b.toNat else b.toNat - a.toNat) ∧
    (0 < w → (if b.toInt < a.toInt then a.toInt - b.toInt else b.toInt - a.toInt) < 2 ^ (w - 1) →
      (absDiff true a b).toInt = if b.toInt < a.toInt then a.toInt - b.toInt else b.toInt - a.toInt) :=
  ⟨absDiff_unsigned a b, fun hw h => absDiff_signed hw a b h⟩

/-- **sgn** -/
theorem sgn_correct {w : Nat} (sg : Bool) (v : BitVec w) :
    sgn sg v = if val sg v > 0 then 1 else if val sg v < 0 then -1 else 0 := sgn_eq sg v

/-! ### finite cross-checks of the general theorems (8-bit tables) and defect witnesses -/

theorem clz8_table : ∀ x : BitVec 8, clzTemplate x = some (clzOverload x) := by decide
theorem ctz8_table : ∀ x : BitVec 8, ctzTemplate true x = some (ctzOverload x) ∧
    ctzTemplate false x = some (ctzOverload x) := by decide
theorem popcountGeneric8_table : ∀ x : BitVec 8, popcountGeneric8 x = popc 8 x.toNat := by
  decide

/-- D25 witness: `div_ceil(0xFFFFFFFFu, 2u)` is `2^31` (the unrepaired `(n+k-1)/k` gave 0) -/
example : (divCeil false (0xFFFFFFFF#32) (2#32)).toNat = 2 ^ 31 ∧
    ((0xFFFFFFFF#32 + 2#32 - 1#32) / 2#32 : BitVec 32) = 0#32 := by decide
/-- D25 witness: `round_up(0xFFFFFFFFu, 3u)` is `0xFFFFFFFF` -/
example : (roundUp false (0xFFFFFFFF#32) (3#32)).toNat = 0xFFFFFFFF := by decide
/-- D26 witnesses: `round_down_to_power_of_two(3000000000u) = 2^31`, `(INT_MAX) = 2^30` -/
example : roundDownPow2Template false (3000000000#32) = some 0x80000000#32 ∧
    roundDownPow2Template true (0x7FFFFFFF#32) = some 0x40000000#32 := by decide
example : roundUpPow2Template false (0x7FFFFFFF#32) = some 0x80000000#32 := by decide

end TlxVerif.C20
