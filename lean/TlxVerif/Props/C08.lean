/-
C08 — multisequence_partition / multisequence_selection split sorted runs at the exact global rank.

Property theorems.  Spec level (any element type, any strict weak order, all inputs):
  * `partition_nested`, `partition_unique_at_rank`, `partition_exists_for_every_rank`
                                             — exactly one split vector per rank, monotone in the rank
  * `checker_sound`, `checker_complete`      — the O(m²) boundary checker decides the spec
  * `selection_characterised`                — from ANY (weak) partition: min right head = element at the rank,
                                               Σ(o_i − lower_bound_i) = its offset among the equivalent elements
Model level (transliteration `Model/C08Msp.lean` of the C++):
  * `certified_run_is_the_partition`         — a model run accepted by the checker returned THE partition
  * `partition_rank_total`                   — the `rank == N` shortcut
  * `refinement_correct`, `refinement_correct_lists` — ALL INPUTS: the transliterated halving refinement succeeds (no
                                               out-of-range read, no top() of an empty queue) and returns THE partition
                                               (loop invariant `Inv`, Proofs/C08Inv*.lean … C08Correct.lean)
  * `selection_model_correct`                 — ALL INPUTS: the model of multisequence_selection succeeds and returns a value
                                               equivalent to the element at the rank and its offset among the equivalents
-/
import TlxVerif.Proofs.C08Spec
import TlxVerif.Proofs.C08Checker
import TlxVerif.Proofs.C08Exists
import TlxVerif.Proofs.C08Select
import TlxVerif.Proofs.C08Model
import TlxVerif.Proofs.C08Correct
import TlxVerif.Proofs.C08SelCorrect
import TlxVerif.Model.C08Msp
namespace TlxVerif.C08

variable {α : Type}

/-- partitions of the same runs at ranks `r ≤ r'` are nested (this is what makes the per-thread
chunks of the parallel merge / mergesort non-negative and tiling) -/
theorem partition_nested {lt : α → α → Bool} (hlt : StrictWeak lt) {runs : List (List α)} {r r' : Nat}
    {offs offs' : List Nat} (h : IsPartition lt runs r offs) (h' : IsPartition lt runs r' offs')
    (hr : r ≤ r') : ∀ (i o o' : Nat), offs[i]? = some o → offs'[i]? = some o' → o ≤ o' :=
  partition_mono hlt h h' hr

/-- at most one offset vector splits the runs at a given rank -/
theorem partition_unique_at_rank {lt : α → α → Bool} (hlt : StrictWeak lt) {runs : List (List α)} {r : Nat}
    {offs offs' : List Nat} (h : IsPartition lt runs r offs) (h' : IsPartition lt runs r offs') :
    offs = offs' :=
  partition_unique hlt h h'

/-- for sorted runs every rank `0 ≤ r ≤ N` has a partition (with uniqueness: exactly one) -/
theorem partition_exists_for_every_rank {lt : α → α → Bool} (hlt : StrictWeak lt) {runs : List (List α)}
    (hs : ∀ r ∈ runs, SortedRun lt r) (rank : Nat) (hr : rank ≤ (runs.map List.length).sum) :
    ∃ offs, IsPartition lt runs rank offs ∧ ∀ offs', IsPartition lt runs rank offs' → offs' = offs := by
  obtain ⟨offs, h⟩ := partition_exists hlt hs rank hr
  exact ⟨offs, h, fun offs' h' => partition_unique hlt h' h⟩

theorem checker_sound {lt : α → α → Bool} (hlt : StrictWeak lt) {runs : List (List α)}
    (hs : ∀ r ∈ runs, SortedRun lt r) {rank : Nat} {offs : List Nat}
    (h : checkPartition lt runs rank offs = true) : IsPartition lt runs rank offs :=
  checkPartition_sound hlt hs h

theorem checker_complete {lt : α → α → Bool} {runs : List (List α)} {rank : Nat} {offs : List Nat}
    (h : IsPartition lt runs rank offs) : checkPartition lt runs rank offs = true :=
  checkPartition_complete h

/-- **multisequence_selection, specification level**: whatever tie-breaking produced the split (`offs` need
only be a weak partition: no left element greater than a right one), the minimum `mr` of the right heads is
(equivalent to) the element at `rank` of the merged order — `#{x < mr} ≤ rank < #{x ≤ mr}` — and
`Σ_i (o_i − lower_bound_i(mr))` is the rank of that position among the elements equivalent to `mr`. -/
theorem selection_characterised {lt : α → α → Bool} (hlt : StrictWeak lt) {runs : List (List α)}
    (hs : ∀ r ∈ runs, SortedRun lt r) {rank : Nat} {offs : List Nat} (hw : WeakPartition lt runs rank offs)
    {j0 : Nat} {r0 : List α} {o0 : Nat} {mr : α} (hr0 : runs[j0]? = some r0) (ho0 : offs[j0]? = some o0)
    (hmr : r0[o0]? = some mr)
    (hmin : ∀ (j : Nat) (rj : List α) (oj : Nat) (w : α), runs[j]? = some rj → offs[j]? = some oj →
      rj[oj]? = some w → lt w mr = false) :
    IsSelection lt runs rank mr
      (List.zipWith (fun r o => o - (r.takeWhile (fun x => lt x mr)).length) runs offs).sum :=
  selection_from_partition hlt hs hw hr0 ho0 hmr hmin

/-- every partition in the sense of `multisequence_partition` is a weak partition -/
theorem partition_is_weak {lt : α → α → Bool} (hlt : StrictWeak lt) {runs : List (List α)} {rank : Nat}
    {offs : List Nat} (h : IsPartition lt runs rank offs) : WeakPartition lt runs rank offs := h.weak hlt

/-- `<` on `Int` as a Boolean comparator is a strict weak order (non-vacuity of the hypotheses) -/
theorem strictWeak_intLt : StrictWeak (fun a b : Int => decide (a < b)) :=
  ⟨by intro a b h; simp at *; omega, by intro a b c h; simp at *; omega⟩

-- the DESIGN §5 D1 witness: [1,2,2,2],[1,1] at rank 2 — (1,1) is the partition, (0,2) is not
example : checkPartition (fun a b : Int => decide (a < b)) [[1, 2, 2, 2], [1, 1]] 2 [1, 1] = true := by decide
example : checkPartition (fun a b : Int => decide (a < b)) [[1, 2, 2, 2], [1, 1]] 2 [0, 2] = false := by decide
example : IsPartition (fun a b : Int => decide (a < b)) [[1, 2, 2, 2], [1, 1]] 2 [1, 1] :=
  checker_sound strictWeak_intLt (allSorted_sound strictWeak_intLt (by decide)) (by decide)

/-! ### the model -/

/-- model component: `round_up_to_power_of_two` is modelled by a function that really returns the least
power of two ≥ n, so the padded length `l = 2^k − 1 ≥ nmax` -/
theorem model_roundUp_is_least_power_of_two (n : Nat) (hn : 1 ≤ n) :
    ∃ k, roundUpPow2 n = 2 ^ k ∧ n ≤ 2 ^ k ∧ 2 ^ k < 2 * n :=
  roundUpPow2_spec n hn

/-- model component: `std::sort(sample, lcomp)` is determined — on pairs with distinct sequence numbers the
insertion sort of the model returns the only `lcomp`-sorted permutation -/
theorem model_sample_sort_determined {lt : Int → Int → Bool} (hlt : StrictWeak lt) (l : List Sample)
    (hnd : (l.map (·.2)).Nodup) :
    (sortBy (lcomp lt) l).Perm l ∧ (sortBy (lcomp lt) l).Pairwise (fun p q => lcomp lt p q = true) ∧
    ∀ l' : List Sample, l'.Perm l → l'.Pairwise (fun p q => lcomp lt p q = true) → l' = sortBy (lcomp lt) l :=
  sortBy_lcomp_spec hlt l hnd

/-- the model's answer for `multisequence_partition`, accepted only when the proved checker accepts it -/
def certifiedPartition (c : Ctx) (rank : Nat) : Option (List Nat) :=
  match runM (partitionM c rank) with
  | .ok (offs, _) =>
    if offs.toList.all (fun x => decide (0 ≤ x)) then
      if checkPartition c.lt (c.runs.toList.map Array.toList) rank (offs.toList.map Int.toNat) then
        some (offs.toList.map Int.toNat)
      else none
    else none
  | .error _ => none

/-- **Translation validation of runs**: whenever the transliterated algorithm's result passes the
checker, it is the unique partition of the runs at that rank. -/
theorem certified_run_is_the_partition {c : Ctx} (hlt : StrictWeak c.lt)
    (hs : ∀ r ∈ c.runs.toList.map Array.toList, SortedRun c.lt r) {rank : Nat} {offs : List Nat}
    (h : certifiedPartition c rank = some offs) :
    IsPartition c.lt (c.runs.toList.map Array.toList) rank offs ∧
    ∀ offs', IsPartition c.lt (c.runs.toList.map Array.toList) rank offs' → offs' = offs := by
  unfold certifiedPartition at h
  split at h
  · split at h
    · split at h
      · rename_i hc
        cases h
        have hp := checker_sound hlt hs hc
        exact ⟨hp, fun offs' h' => partition_unique hlt h' hp⟩
      · cases h
    · cases h
  · cases h

example : certifiedPartition ⟨Cmp.lt.fn, #[#[1, 2, 2, 2], #[1, 1]]⟩ 4 = some [2, 2] := by decide +kernel

/-- the `rank == N` shortcut of `multisequence_partition`: every offset is the end of its sequence, and
no element is read -/
theorem partition_rank_total (c : Ctx) :
    runM (partitionM c (totalLen c)) = .ok (seqlenOf c, #[]) := by
  simp [runM, partitionM, StateT.run, pure, StateT.pure, Except.pure]

/-- … and the ends of the sequences are the partition at rank N -/
theorem ends_are_partition_at_total (lt : α → α → Bool) (runs : List (List α)) :
    IsPartition lt runs (runs.map List.length).sum (runs.map List.length) := by
  refine ⟨by simp, ?_, rfl, ?_⟩
  · intro i r o hr ho
    simp only [List.getElem?_map, hr, Option.map_some, Option.some.injEq] at ho
    omega
  · intro i j ri rj oi oj _ _ hrj _ hoj x _ y hy
    simp only [List.getElem?_map, hrj, Option.map_some, Option.some.injEq] at hoj
    subst hoj; simp at hy

/-- **Correctness of `multisequence_partition` (model) for all inputs** — closes the former OPEN items
`msp_correct` and `msp_bounds`.  For every tuple of non-empty sequences sorted w.r.t. a strict weak order and
every rank `0 ≤ rank ≤ N` the executable model (the function the driver runs, with its read trace) succeeds and
its offsets are non-negative and satisfy the partition specification; by `partition_unique_at_rank` they are
THE partition.  Proof: the invariant `Inv` (offsets are multiples of the stride inside their sequences,
`b = a + stride − 1`, every left edge sample strictly before every right edge sample in (value, sequence)
order) is established by the initial partition, preserved by the classification loop and by every
priority-queue step, and at stride 1 with the exact rank it is the specification. -/
theorem refinement_correct {c : Ctx} (hg : Good c) {rank : Nat} (hr : rank ≤ totalLen c) :
    ∃ offs tr, runM (partitionM c rank) = .ok (offs, tr) ∧ offs.size = c.runs.size ∧
      (∀ i, i < c.runs.size → 0 ≤ aget offs i) ∧ IsPartition c.lt (runsL c) rank (natOffs c offs) :=
  msp_correct hg hr

theorem refinement_correct_lists {lt : Int → Int → Bool} (hlt : StrictWeak lt) {runs : List (List Int)}
    (hne : ∀ r ∈ runs, r ≠ []) (hs : ∀ r ∈ runs, SortedRun lt r) {rank : Nat}
    (hr : rank ≤ (runs.map List.length).sum) :
    ∃ offs tr, runM (partitionM (ctxOf lt runs) rank) = .ok (offs, tr) ∧
      offs.toList.all (fun x => decide (0 ≤ x)) = true ∧
      IsPartition lt runs rank (offs.toList.map Int.toNat) :=
  msp_correct_lists hlt hne hs hr

/-- the invariant is not vacuous: it holds (evaluated by the kernel) along a concrete run with ties -/
example : checkRun ⟨Cmp.lt.fn, #[#[1, 2, 2, 2], #[1, 1], #[0, 2, 5]]⟩ .partition 4 = true := by decide +kernel

/-- **Correctness of `multisequence_selection` (model) for all inputs** — closes the former OPEN item
`selection_correct`.  The same refinement loop with value-only comparisons maintains the invariant `Inv` for the
value order (no first right sample smaller than a last left sample); at stride 1 this is a weak partition at the
exact rank, the final scan returns a value-smallest right edge, and `selection_characterised` turns that into
the specification: `#{x < v} ≤ rank < #{x ≤ v}` and `offset = rank − #{x < v}` (≥ 0). -/
theorem selection_model_correct {c : Ctx} (hg : Good c) {rank : Nat} (hr : rank < totalLen c) :
    ∃ v off tr, runM (selectionM c rank) = .ok ((v, off), tr) ∧ 0 ≤ off ∧
      IsSelection c.lt (runsL c) rank v off.toNat :=
  selection_correct hg hr

example : checkRun ⟨Cmp.lt.fn, #[#[1, 2, 2, 2], #[1, 1], #[0, 2, 5]]⟩ .selection 4 = true := by decide +kernel

end TlxVerif.C08
