import TlxVerif.Model.C17Lru
import TlxVerif.Model.C17Splay
namespace TlxVerif.C17
theorem inorder_nil : Tree.inorder .nil = [] := rfl
end TlxVerif.C17
