/-
C17 — LruCacheSet/LruCacheMap evict in true LRU order; SplayTree is a correct ordered (multi)set.

LRU part: every finite history of put/touch/touch_if_exists/erase/erase_if_exists/get/get_touch/
exists/size/pop/clear run on the model (`Model/C17Lru.lean`, the transliteration of `list_` +
`map_`) produces the same outputs — return values, thrown `range_error`, popped entry — as the
reference LRU list `Ref` (oldest first: put/touch append at the end, pop takes the head), and
the model's `list_` reversed is that reference list.

Splay part: `splay` never changes the in-order key sequence and keeps the search-tree invariant;
every finite history of insert/erase/exists/find/clear/size on the model (`Model/C17Splay.lean`)
produces the outputs of a sorted-list (multi)set, the in-order sequence of the tree IS that sorted
list, the tree stays a search tree, `size_` is the number of nodes and every allocated node is
freed exactly once (ledger).
-/
import TlxVerif.Proofs.C17Lru
import TlxVerif.Proofs.C17Splay
namespace TlxVerif.C17

/-- closes the trivial conjunct left after unfolding an output comparison -/
local macro "triv" : tactic => `(tactic| first | rfl | trivial | simp)

/-! ## LRU caches -/
section LRU
variable {K V : Type} [DecidableEq K]

inductive LOp (K V : Type) where
  | put (k : K) (v : V) | touch (k : K) | touchIf (k : K) | erase (k : K) | eraseIf (k : K)
  | get (k : K) | getTouch (k : K) | exists (k : K) | size | pop | clear

inductive LOut (K V : Type) where
  | unit | thrown | bool (b : Bool) | val (v : V) | dangling | nat (n : Nat) | entry (e : K × V)
  | refused        -- documented precondition violated (pop on an empty cache): not executed
  deriving DecidableEq

/-- one operation on the model -/
def Lru.step (c : Lru K V) : LOp K V → Lru K V × LOut K V
  | .put k v => (c.put k v, .unit)
  | .touch k => match c.touch k with | .ok c' => (c', .unit) | .error _ => (c, .thrown)
  | .touchIf k => let r := c.touchIfExists k; (r.1, .bool r.2)
  | .erase k => match c.erase k with | .ok c' => (c', .unit) | .error _ => (c, .thrown)
  | .eraseIf k => let r := c.eraseIfExists k; (r.1, .bool r.2)
  | .get k => match c.get k with | .ok (some v) => (c, .val v) | .ok none => (c, .dangling) | .error _ => (c, .thrown)
  | .getTouch k =>
    match c.getTouch k with
    | .ok (c', some v) => (c', .val v) | .ok (c', none) => (c', .dangling) | .error _ => (c, .thrown)
  | .exists k => (c, .bool (c.exists k))
  | .size => (c, .nat c.size)
  | .pop => match c.pop with | some (c', e) => (c', .entry e) | none => (c, .refused)
  | .clear => (c.clear, .unit)

/-- one operation on the reference LRU list (oldest first).  Exceptions exactly for absent keys. -/
def Ref.step (r : Ref K V) : LOp K V → Ref K V × LOut K V
  | .put k v => (r.drop k ++ [(k, v)], .unit)
  | .touch k => match r.find k with | some e => (r.drop k ++ [e], .unit) | none => (r, .thrown)
  | .touchIf k => match r.find k with | some e => (r.drop k ++ [e], .bool true) | none => (r, .bool false)
  | .erase k => if r.has k then (r.drop k, .unit) else (r, .thrown)
  | .eraseIf k => if r.has k then (r.drop k, .bool true) else (r, .bool false)
  | .get k => match r.find k with | some e => (r, .val e.2) | none => (r, .thrown)
  | .getTouch k => match r.find k with | some e => (r.drop k ++ [e], .val e.2) | none => (r, .thrown)
  | .exists k => (r, .bool (r.has k))
  | .size => (r, .nat r.length)
  | .pop => match r with | e :: rest => (rest, .entry e) | [] => (r, .refused)
  | .clear => ([], .unit)

def Lru.run (c : Lru K V) : List (LOp K V) → Lru K V × List (LOut K V)
  | [] => (c, [])
  | op :: ops => let r := c.step op; let rr := Lru.run r.1 ops; (rr.1, r.2 :: rr.2)

def Ref.run (r : Ref K V) : List (LOp K V) → Ref K V × List (LOut K V)
  | [] => (r, [])
  | op :: ops => let s := r.step op; let rr := Ref.run s.1 ops; (rr.1, s.2 :: rr.2)

/-- abstraction: the model's `list_` (front = most recent) reversed is the reference list, and
`list_`/`map_` are consistent -/
def LruRel (c : Lru K V) (r : Ref K V) : Prop := c.list.reverse = r ∧ c.Consistent

private theorem size_eq (c : Lru K V) (hc : c.Consistent) : c.keys.length = c.list.length := by
  have : c.keys.Perm (c.list.map (·.1)) :=
    (List.perm_ext_iff_of_nodup hc.nodupKeys hc.nodupList).mpr hc.sameKeys
  simpa using this.length_eq

private theorem drop_rel (c : Lru K V) (hc : c.Consistent) (k : K) (hk : k ∈ c.keys) :
    (eraseKey k c.list).reverse = Ref.drop k c.list.reverse ∧
    ({ list := eraseKey k c.list, keys := c.keys.erase k } : Lru K V).Consistent := by
  rw [eraseKey_eq_filter k c.list hc.nodupList]
  refine ⟨by simp [Ref.drop, List.filter_reverse], ⟨nodup_filter_keys k _ hc.nodupList, hc.nodupKeys.erase k, ?_⟩⟩
  intro k'
  rw [mem_filter_keys, hc.nodupKeys.mem_erase_iff, hc.sameKeys]
  exact And.comm

private theorem drop_absent (c : Lru K V) (hc : c.Consistent) (k : K) (hk : k ∉ c.keys) :
    Ref.drop k c.list.reverse = c.list.reverse := by
  simp only [Ref.drop]
  rw [List.filter_eq_self]
  intro a ha
  have : a.1 ≠ k := by
    intro h; apply hk; rw [hc.sameKeys, ← h]; exact List.mem_map_of_mem (by simpa using ha)
  simpa using this

private theorem has_iff (c : Lru K V) (hc : c.Consistent) (k : K) :
    Ref.has k c.list.reverse = decide (k ∈ c.keys) := by
  rw [Bool.eq_iff_iff]
  simp only [Ref.has, List.any_eq_true, decide_eq_true_eq, hc.sameKeys, List.mem_map, List.mem_reverse]

private theorem find_rel (c : Lru K V) (hc : c.Consistent) (k : K) :
    Ref.find k c.list.reverse = findKey k c.list := by
  rw [Ref.find, find_reverse k _ hc.nodupList, findKey_eq_find]

private theorem find_none_iff (c : Lru K V) (hc : c.Consistent) (k : K) :
    findKey k c.list = none ↔ k ∉ c.keys := by
  rw [mem_keys_iff_find c hc, findKey_eq_find]
  cases c.list.find? (fun e => e.1 = k) <;> simp

private theorem front_rel (c : Lru K V) (hc : c.Consistent) (k : K) (e : K × V)
    (he : findKey k c.list = some e) :
    (e :: eraseKey k c.list).reverse = Ref.drop k c.list.reverse ++ [e] ∧
    ({ c with list := e :: eraseKey k c.list } : Lru K V).Consistent := by
  have hk : k ∈ c.keys := by
    rw [mem_keys_iff_find c hc]; exact ⟨e, by rw [← findKey_eq_find]; exact he⟩
  obtain ⟨h1, h2⟩ := drop_rel c hc k hk
  have hek : e ∈ c.list ∧ e.1 = k := by
    rw [findKey_eq_find] at he; exact (find_key_iff k _ hc.nodupList e).mp he
  refine ⟨by simp [h1], ⟨?_, hc.nodupKeys, ?_⟩⟩
  · simp only [List.map_cons, List.nodup_cons]
    refine ⟨?_, h2.nodupList⟩
    have := h2.nodupList
    rw [eraseKey_eq_filter k c.list hc.nodupList, mem_filter_keys, hek.2]
    simp
  · intro k'
    simp only [List.map_cons, List.mem_cons]
    rw [eraseKey_eq_filter k c.list hc.nodupList, mem_filter_keys, hc.sameKeys, hek.2]
    by_cases h : k' = k
    · subst h; simp [← hc.sameKeys, hk]
    · simp [h]

/-- one step of the model is one step of the reference, with the same output -/
theorem lru_step_refines (c : Lru K V) (r : Ref K V) (h : LruRel c r) (op : LOp K V) :
    (c.step op).2 = (r.step op).2 ∧ LruRel (c.step op).1 (r.step op).1 := by
  obtain ⟨rfl, hc⟩ := h
  cases op with
  | put k v =>
    simp only [Lru.step, Ref.step, Lru.put]
    by_cases hk : k ∈ c.keys
    · obtain ⟨h1, h2⟩ := drop_rel c hc k hk
      simp only [hk, if_true]
      refine ⟨by triv, by simp [h1], ⟨?_, ?_, ?_⟩⟩
      · simp only [List.map_cons, List.nodup_cons]
        refine ⟨?_, h2.nodupList⟩
        rw [eraseKey_eq_filter k c.list hc.nodupList, mem_filter_keys]; simp
      · simp only [List.nodup_cons]; exact ⟨by rw [hc.nodupKeys.mem_erase_iff]; simp, h2.nodupKeys⟩
      · intro k'; simp only [List.mem_cons, List.map_cons]; rw [h2.sameKeys]
    · simp only [hk, if_false]
      refine ⟨by triv, by simp [drop_absent c hc k hk], ⟨?_, ?_, ?_⟩⟩
      · simp only [List.map_cons, List.nodup_cons]
        exact ⟨by rw [← hc.sameKeys]; exact hk, hc.nodupList⟩
      · simp only [List.nodup_cons]; exact ⟨hk, hc.nodupKeys⟩
      · intro k'; simp only [List.mem_cons, List.map_cons]; rw [hc.sameKeys]
  | touch k =>
    simp only [Lru.step, Ref.step, Lru.touch, find_rel c hc, spliceFront]
    by_cases hk : k ∈ c.keys
    · cases he : findKey k c.list with
      | none => exact absurd hk ((find_none_iff c hc k).mp he)
      | some e => simp only [hk, if_true]; exact ⟨by triv, front_rel c hc k e he⟩
    · simp only [hk, if_false, (find_none_iff c hc k).mpr hk]; exact ⟨by triv, rfl, hc⟩
  | touchIf k =>
    simp only [Lru.step, Ref.step, Lru.touchIfExists, find_rel c hc, spliceFront]
    by_cases hk : k ∈ c.keys
    · cases he : findKey k c.list with
      | none => exact absurd hk ((find_none_iff c hc k).mp he)
      | some e => simp only [hk, if_true]; exact ⟨by triv, front_rel c hc k e he⟩
    · simp only [hk, if_false, (find_none_iff c hc k).mpr hk]; exact ⟨by triv, rfl, hc⟩
  | erase k =>
    simp only [Lru.step, Ref.step, Lru.erase, has_iff c hc]
    by_cases hk : k ∈ c.keys
    · simp only [hk, if_true, decide_true]; exact ⟨by triv, drop_rel c hc k hk⟩
    · simp only [hk, if_false, decide_false, Bool.false_eq_true]; exact ⟨by triv, rfl, hc⟩
  | eraseIf k =>
    simp only [Lru.step, Ref.step, Lru.eraseIfExists, has_iff c hc]
    by_cases hk : k ∈ c.keys
    · simp only [hk, if_true, decide_true]; exact ⟨by triv, drop_rel c hc k hk⟩
    · simp only [hk, if_false, decide_false, Bool.false_eq_true]; exact ⟨by triv, rfl, hc⟩
  | get k =>
    simp only [Lru.step, Ref.step, Lru.get, find_rel c hc]
    by_cases hk : k ∈ c.keys
    · cases he : findKey k c.list with
      | none => exact absurd hk ((find_none_iff c hc k).mp he)
      | some e => simp only [hk, if_true, Option.map_some]; exact ⟨by triv, rfl, hc⟩
    · simp only [hk, if_false, (find_none_iff c hc k).mpr hk]; exact ⟨by triv, rfl, hc⟩
  | getTouch k =>
    simp only [Lru.step, Ref.step, Lru.getTouch, find_rel c hc, spliceFront]
    by_cases hk : k ∈ c.keys
    · cases he : findKey k c.list with
      | none => exact absurd hk ((find_none_iff c hc k).mp he)
      | some e =>
        have hek : e.1 = k := by
          rw [findKey_eq_find] at he; exact ((find_key_iff k _ hc.nodupList e).mp he).2
        simp only [hk, if_true, findKey, hek, Option.map_some]
        exact ⟨by triv, front_rel c hc k e he⟩
    · simp only [hk, if_false, (find_none_iff c hc k).mpr hk]; exact ⟨by triv, rfl, hc⟩
  | «exists» k =>
    simp only [Lru.step, Ref.step, Lru.exists, has_iff c hc]; exact ⟨by triv, rfl, hc⟩
  | size =>
    simp only [Lru.step, Ref.step, Lru.size, size_eq c hc, List.length_reverse]; exact ⟨by triv, rfl, hc⟩
  | pop =>
    simp only [Lru.step, Ref.step, Lru.pop]
    cases hl : c.list.reverse with
    | nil =>
      have hnil : c.list = [] := by simpa using hl
      have hlast : c.list.getLast? = none := by simp [hnil]
      simp only [hlast]
      exact ⟨by triv, hl, hc⟩
    | cons e rest =>
      have hlist : c.list = rest.reverse ++ [e] := by
        have := congrArg List.reverse hl; simpa using this
      have hlast : c.list.getLast? = some e := by simp [hlist]
      simp only [hlast]
      refine ⟨by triv, by simp [hlist], ⟨?_, hc.nodupKeys.erase _, ?_⟩⟩
      · have := hc.nodupList
        rw [hlist] at this ⊢
        simp only [List.dropLast_concat]
        simp only [List.map_append, List.map_cons, List.map_nil] at this
        exact (List.nodup_append.mp this).1
      · intro k'
        have hn := hc.nodupList
        rw [hc.nodupKeys.mem_erase_iff, hc.sameKeys]
        rw [hlist] at hn ⊢
        simp only [List.dropLast_concat, List.map_append, List.map_cons, List.map_nil, List.mem_append,
          List.mem_singleton] at hn ⊢
        have hd := (List.nodup_append.mp hn).2.2
        constructor
        · rintro ⟨hne, h1 | h1⟩
          · exact h1
          · exact absurd h1 hne
        · intro h1; exact ⟨fun heq => hd k' h1 e.1 (by simp) heq, Or.inl h1⟩
  | clear =>
    simp only [Lru.step, Ref.step, Lru.clear]
    exact ⟨by triv, rfl, ⟨by simp, by simp, by simp⟩⟩

/-- **LRU refinement, all histories.**  Starting from related states (in particular from the
empty cache) every history gives the same outputs on the model and on the reference LRU list,
and the final states are related. -/
theorem lru_refines (ops : List (LOp K V)) (c : Lru K V) (r : Ref K V) (h : LruRel c r) :
    (c.run ops).2 = (r.run ops).2 ∧ LruRel (c.run ops).1 (r.run ops).1 := by
  induction ops generalizing c r with
  | nil => exact ⟨rfl, h⟩
  | cons op ops ih =>
    obtain ⟨h1, h2⟩ := lru_step_refines c r h op
    obtain ⟨h3, h4⟩ := ih _ _ h2
    exact ⟨by simp only [Lru.run, Ref.run, h1, h3], h4⟩

theorem lruRel_init : LruRel ({} : Lru K V) ([] : Ref K V) :=
  ⟨rfl, ⟨by simp, by simp, by simp⟩⟩

/-- the reference throws exactly for absent keys, and `pop` returns the least recently used entry
(the head of the oldest-first list): the two clauses of the property that are *definitions* of the
reference, restated so that they are visible next to the refinement theorem -/
theorem ref_throws_iff_absent (r : Ref K V) (k : K) :
    ((r.step (.touch k)).2 = .thrown ↔ r.find k = none) ∧
    ((r.step (.get k)).2 = .thrown ↔ r.find k = none) ∧
    ((r.step (.erase k)).2 = .thrown ↔ r.has k = false) := by
  refine ⟨?_, ?_, ?_⟩
  · simp only [Ref.step]; cases r.find k <;> simp
  · simp only [Ref.step]; cases r.find k <;> simp
  · simp only [Ref.step]; cases r.has k <;> simp

/-- the model never reads through a dangling iterator and never refuses a pop of a non-empty cache -/
theorem lru_no_dangling (ops : List (LOp K V)) :
    LOut.dangling ∉ (({} : Lru K V).run ops).2 := by
  rw [(lru_refines ops _ _ lruRel_init).1]
  generalize ([] : Ref K V) = r
  induction ops generalizing r with
  | nil => simp [Ref.run]
  | cons op ops ih =>
    simp only [Ref.run, List.mem_cons, not_or]
    refine ⟨?_, ih _⟩
    cases op <;> simp only [Ref.step] <;> (try split) <;> simp

end LRU

-- non-vacuity: a history with a touch before a pop, a throw, and reuse after clear
example :
    (({} : Lru Int Int).run [.put 1 10, .put 2 20, .touch 1, .pop, .touch 2, .get 1, .clear, .put 3 30, .pop]).2
      = [.unit, .unit, .unit, .entry (2, 20), .thrown, .val 10, .unit, .unit, .entry (3, 30)] := by decide

/-! ## Splay tree -/
open Tree

/-- **`splay` keeps the in-order key sequence** (every comparator, every tree, every key) -/
theorem splay_preserves_inorder (lt : Int → Int → Bool) (k : Int) (t : Tree) :
    inorder (splay lt k t) = inorder t := splay_inorder lt k t

/-- **`splay` keeps the search-tree invariant** for every strict weak order -/
theorem splay_preserves_bst {lt : Int → Int → Bool} (sw : StrictWeak lt) (k : Int) (t : Tree)
    (h : Bst lt t) : Bst lt (splay lt k t) := splay_bst sw k t h

/-- **the splayed root separates the keys around `k`**: nothing left of it is greater than `k`,
nothing right of it is less, and when the root is not equivalent to `k` no key of the tree is -/
theorem splay_root_parts {lt : Int → Int → Bool} (sw : StrictWeak lt) (k : Int) (t : Tree)
    (hne : t ≠ .nil) (hb : Bst lt t) :
    ∃ l x r, splay lt k t = .node l x r ∧ Parted lt k l x r := splay_parted sw k t hne hb

/-- comparators for which equivalence is equality (`std::less<int>`, `std::greater<int>`) -/
structure TotalOrder (lt : Int → Int → Bool) : Prop extends StrictWeak lt where
  antisymm : ∀ a b, lt a b = false → lt b a = false → a = b

theorem totalOrder_less : TotalOrder (fun a b => decide (a < b)) :=
  { irrefl := by simp, trans := by simp; omega, negTrans := by simp; omega, antisymm := by simp; omega }

theorem totalOrder_greater : TotalOrder (fun a b => decide (a > b)) :=
  { irrefl := by simp, trans := by simp; omega, negTrans := by simp; omega, antisymm := by simp; omega }

/-- sorted insertion behind the keys not greater than `k` (where `std::multiset::insert` puts it) -/
def insSorted (lt : Int → Int → Bool) (k : Int) : List Int → List Int
  | [] => [k]
  | b :: rest => if lt k b then k :: b :: rest else b :: insSorted lt k rest

inductive SOp where
  | insert (k : Int) | erase (k : Int) | exists (k : Int) | find (k : Int) | clear | size

inductive SOut where
  | bool (b : Bool) | key (k : Option Int) | nat (n : Nat) | unit
  deriving DecidableEq

def ST.step (lt : Int → Int → Bool) (dup : Bool) (s : ST) : SOp → ST × SOut
  | .insert k => let r := s.insert lt dup k; (r.1, .bool r.2)
  | .erase k => let r := s.erase lt k; (r.1, .bool r.2)
  | .exists k => let r := s.exists lt k; (r.1, .bool r.2)
  | .find k => let r := s.find lt k; (r.1, .key r.2)
  | .clear => (s.clear, .unit)
  | .size => (s, .nat s.size)

/-- the sorted-list (multi)set: new contents and the condition the output has to meet.
`find` may answer any stored key that is `k` itself when `k` is stored and otherwise the
greatest key below `k` or the least key above it (the documented "neighbour"). -/
def specStep (lt : Int → Int → Bool) (dup : Bool) (l : List Int) : SOp → List Int × (SOut → Prop)
  | .insert k =>
    if !dup && decide (k ∈ l) then (l, fun o => o = .bool false) else (insSorted lt k l, fun o => o = .bool true)
  | .erase k => if k ∈ l then (l.erase k, fun o => o = .bool true) else (l, fun o => o = .bool false)
  | .exists k => (l, fun o => o = .bool (decide (k ∈ l)))
  | .find k =>
    (l, fun o => match o with
      | .key none => l = []
      | .key (some x) => x ∈ l ∧ (k ∈ l → x = k) ∧
          (lt x k = true → ∀ y ∈ l, lt y k = true → lt x y = false) ∧
          (lt k x = true → ∀ y ∈ l, lt k y = true → lt y x = false)
      | _ => False)
  | .clear => ([], fun o => o = .unit)
  | .size => (l, fun o => o = .nat l.length)

/-- the model state represents the sorted list `l` -/
structure SplayRel (lt : Int → Int → Bool) (s : ST) (l : List Int) : Prop where
  inorder_eq : inorder s.root = l
  bst : Bst lt s.root
  size_eq : s.size = l.length
  ledger : s.allocs = s.frees + s.size

theorem insSorted_perm (lt : Int → Int → Bool) (k : Int) (l : List Int) : (insSorted lt k l).Perm (k :: l) := by
  induction l with
  | nil => simp [insSorted]
  | cons b rest ih =>
    simp only [insSorted]
    split
    · exact List.Perm.refl _
    · exact (List.Perm.cons b ih).trans (List.Perm.swap k b rest)

theorem insSorted_sorted {lt : Int → Int → Bool} (sw : StrictWeak lt) (k : Int) (l : List Int)
    (h : SortedLe lt l) : SortedLe lt (insSorted lt k l) := by
  induction l with
  | nil => simp [insSorted, SortedLe]
  | cons b rest ih =>
    simp only [SortedLe, List.pairwise_cons] at h
    simp only [insSorted]
    split
    · rename_i hkb
      simp only [SortedLe, List.pairwise_cons, List.mem_cons]
      refine ⟨?_, h⟩
      rintro c (rfl | hc)
      · exact sw.asymm hkb
      · exact sw.asymm (sw.lt_le hkb (h.1 c hc))
    · rename_i hkb
      simp only [SortedLe, List.pairwise_cons]
      refine ⟨?_, ih h.2⟩
      intro c hc
      have := (insSorted_perm lt k rest).subset hc
      simp only [List.mem_cons] at this
      rcases this with rfl | hc'
      · simpa using hkb
      · exact h.1 c hc'

private theorem sorted_perm_eq {lt : Int → Int → Bool} (to : TotalOrder lt) {l₁ l₂ : List Int}
    (h1 : SortedLe lt l₁) (h2 : SortedLe lt l₂) (hp : l₁.Perm l₂) : l₁ = l₂ :=
  List.Perm.eq_of_pairwise (le := fun a b => lt b a = false)
    (fun a b _ _ hab hba => to.antisymm a b hba hab) h1 h2 hp

private theorem equiv_eq {lt : Int → Int → Bool} (to : TotalOrder lt) {a b : Int}
    (h1 : lt a b = false) (h2 : lt b a = false) : a = b := to.antisymm a b h1 h2

private theorem not_mem_of_strict {lt : Int → Int → Bool} (to : TotalOrder lt) {k : Int} {l : List Int}
    (h : ∀ a ∈ l, lt a k = true ∨ lt k a = true) : k ∉ l := by
  intro hk
  rcases h k hk with h | h <;> simp [to.irrefl] at h

/-- one step of the model is one step of the sorted-list (multi)set -/
theorem splay_step_refines {lt : Int → Int → Bool} (to : TotalOrder lt) (dup : Bool) (s : ST) (l : List Int)
    (h : SplayRel lt s l) (op : SOp) :
    (specStep lt dup l op).2 (s.step lt dup op).2 ∧ SplayRel lt (s.step lt dup op).1 (specStep lt dup l op).1 := by
  have sw := to.toStrictWeak
  obtain ⟨hin, hb, hsz, hled⟩ := h
  have hsorted : SortedLe lt l := hin ▸ (bst_iff_sorted sw _).mp hb
  cases hroot : s.root with
  | nil =>
    -- the empty tree
    have hl : l = [] := by rw [← hin, hroot]; rfl
    subst hl
    cases op with
    | insert k =>
      simp only [ST.step, ST.insert, hroot, specStep, List.not_mem_nil, decide_false, Bool.and_false,
        Bool.false_eq_true, if_false, insSorted]
      exact ⟨by triv, ⟨by simp [splayInsert, inorder], by simp [splayInsert, Bst, inorder],
        by simp at hsz; simp [hsz], by dsimp only; omega⟩⟩
    | erase k =>
      simp only [ST.step, ST.erase, hroot, specStep, List.not_mem_nil, if_false]
      exact ⟨by triv, ⟨hin, hb, hsz, hled⟩⟩
    | «exists» k =>
      simp only [ST.step, ST.exists, hroot, specStep, List.not_mem_nil, decide_false]
      exact ⟨by triv, ⟨hin, hb, hsz, hled⟩⟩
    | find k =>
      simp only [ST.step, ST.find, hroot, specStep, splay]
      exact ⟨by triv, ⟨by simp [inorder], by simp [Bst], hsz, hled⟩⟩
    | clear =>
      simp only [ST.step, ST.clear, hroot, specStep, Tree.size]
      exact ⟨by triv, ⟨rfl, by simp [Bst], by simp at hsz; simp [hsz], by simp at hsz; omega⟩⟩
    | size => simp only [ST.step, specStep]; exact ⟨by rw [hsz], ⟨hin, hb, hsz, hled⟩⟩
  | node l0 x0 r0 =>
    have hne : s.root ≠ .nil := by rw [hroot]; simp
    cases op with
    | insert k =>
      obtain ⟨l', x, r', hsp, hp⟩ := splay_parted sw k s.root hne hb
      have hbs := splay_bst sw k s.root hb
      have hins := splay_inorder lt k s.root
      rw [hroot] at hsp hbs hins
      simp only [ST.step, ST.insert, hroot, hsp]
      have hmem : k ∈ l ↔ (lt k x = false ∧ lt x k = false) := by
        constructor
        · intro hk
          cases hkx : lt k x <;> cases hxk : lt x k
          · exact ⟨rfl, rfl⟩
          · exfalso
            have hk' : k ∈ inorder (Tree.node l' x r') := by rw [hsp] at hins; rw [hins, ← hroot, hin]; exact hk
            simp only [inorder, List.mem_append, List.mem_cons] at hk'
            rcases hk' with h1 | rfl | h1
            · have := hp.left_lt (Or.inr hxk) k h1; simp [to.irrefl] at this
            · simp [to.irrefl] at hxk
            · have := hp.right_gt (Or.inr hxk) k h1; simp [to.irrefl] at this
          · exfalso
            have hk' : k ∈ inorder (Tree.node l' x r') := by rw [hsp] at hins; rw [hins, ← hroot, hin]; exact hk
            simp only [inorder, List.mem_append, List.mem_cons] at hk'
            rcases hk' with h1 | rfl | h1
            · have := hp.left_lt (Or.inl hkx) k h1; simp [to.irrefl] at this
            · simp [to.irrefl] at hkx
            · have := hp.right_gt (Or.inl hkx) k h1; simp [to.irrefl] at this
          · have := sw.asymm hkx; simp_all
        · rintro ⟨h1, h2⟩
          have : k = x := equiv_eq to h1 h2
          subst this
          rw [← hin, hroot, ← hins, hsp]; simp [inorder]
      have hinl : inorder (Tree.node l' x r') = l := by rw [← hsp, hins, ← hroot, hin]
      by_cases hrefuse : (!dup && !lt k x && !lt x k) = true
      · -- already there
        rw [if_pos hrefuse]
        have hk : k ∈ l := hmem.mpr (by simp at hrefuse; exact ⟨hrefuse.1.2, hrefuse.2⟩)
        have hd : dup = false := by simp at hrefuse; exact hrefuse.1.1
        simp only [specStep, hd, hk, Bool.not_false, decide_true, Bool.and_self, if_true]
        exact ⟨by triv, ⟨hinl, hsp ▸ hbs, hsz, hled⟩⟩
      · rw [if_neg hrefuse]
        have hspec : (!dup && decide (k ∈ l)) = false := by
          cases hd : dup
          · simp only [Bool.not_false, Bool.true_and]
            simp only [hd, Bool.not_false, Bool.true_and, Bool.and_eq_true, Bool.not_eq_eq_eq_not, Bool.not_true,
              not_and, Bool.not_eq_false] at hrefuse
            rw [decide_eq_false_iff_not, hmem]
            intro ⟨h1, h2⟩; have := hrefuse h1; simp [h2] at this
          · simp
        simp only [specStep, hspec, Bool.false_eq_true, if_false]
        have hperm : (inorder (splayInsert lt k (Tree.node l' x r'))).Perm (k :: l) := by
          refine (splayInsert_perm lt k _).trans ?_
          rw [hinl]
        have hsrt : SortedLe lt (inorder (splayInsert lt k (Tree.node l' x r'))) :=
          splayInsert_sorted sw k l' x r' hp (hsp ▸ hbs)
        refine ⟨by triv, ⟨?_, (bst_iff_sorted sw _).mpr hsrt, ?_, by dsimp only; omega⟩⟩
        · exact sorted_perm_eq to hsrt (insSorted_sorted sw k l hsorted) (hperm.trans (insSorted_perm lt k l).symm)
        · dsimp only; rw [hsz, (insSorted_perm lt k l).length_eq]; simp
    | erase k =>
      have hsp := splayErase_spec sw k s.root hne hb
      simp only [ST.step, ST.erase, hroot]
      rw [hroot] at hsp
      generalize splayErase lt k (Tree.node l0 x0 r0) = res at hsp
      obtain ⟨t', found⟩ := res
      cases found with
      | true =>
        obtain ⟨pre, x, post, hdec, hkx, hxk, hnew⟩ := hsp.1 rfl
        have hxe : k = x := equiv_eq to hkx hxk
        subst hxe
        have hl : l = pre ++ k :: post := by rw [← hin, hroot]; exact hdec
        have hk : k ∈ l := by rw [hl]; simp
        simp only [if_true, specStep, hk]
        have hsub : (pre ++ post).Sublist l := by
          rw [hl]; exact List.Sublist.append_left (List.sublist_cons_self k post) pre
        have hperm : (pre ++ post).Perm (l.erase k) := by
          have h1 : l.Perm (k :: (pre ++ post)) := by rw [hl]; exact List.perm_middle
          have h2 : l.Perm (k :: l.erase k) := List.perm_cons_erase hk
          exact (List.perm_cons k).mp (h1.symm.trans h2)
        have hs1 : SortedLe lt (pre ++ post) := List.Pairwise.sublist hsub hsorted
        have hs2 : SortedLe lt (l.erase k) := List.Pairwise.sublist List.erase_sublist hsorted
        have heq := sorted_perm_eq to hs1 hs2 hperm
        refine ⟨by triv, ⟨?_, ?_, ?_, ?_⟩⟩
        · simp only at hnew ⊢; rw [hnew, heq]
        · simp only at hnew ⊢; rw [bst_iff_sorted sw, hnew]; exact hs1
        · simp only; rw [hsz, List.length_erase_of_mem hk]
        · have : 0 < l.length := List.length_pos_of_mem hk
          simp only; omega
      | false =>
        obtain ⟨hsame, hnone⟩ := hsp.2 rfl
        have hk : k ∉ l := by
          apply not_mem_of_strict to
          intro a ha; exact hnone a (by rw [← hroot, hin]; exact ha)
        simp only [Bool.false_eq_true, if_false, specStep, hk]
        refine ⟨by triv, ⟨?_, ?_, hsz, hled⟩⟩
        · simp only at hsame ⊢; rw [hsame, ← hroot, hin]
        · simp only at hsame ⊢; rw [bst_iff_sorted sw, hsame, ← hroot, hin]; exact hsorted
    | «exists» k =>
      obtain ⟨l', x, r', hsp, hp⟩ := splay_parted sw k s.root hne hb
      have hbs := splay_bst sw k s.root hb
      have hins := splay_inorder lt k s.root
      rw [hroot] at hsp hbs hins
      simp only [ST.step, ST.exists, hroot, hsp, specStep]
      have hl : l = inorder l' ++ x :: inorder r' := by rw [← hin, hroot, ← hins, hsp]; rfl
      refine ⟨?_, ⟨by simp only; rw [← hsp, hins, ← hroot, hin], by simp only; rw [← hsp]; exact hbs, hsz, hled⟩⟩
      congr 1
      rw [Bool.eq_iff_iff]
      simp only [Bool.and_eq_true, Bool.not_eq_eq_eq_not, Bool.not_true, decide_eq_true_eq]
      constructor
      · rintro ⟨h1, h2⟩
        have : k = x := equiv_eq to h2 h1
        subst this; rw [hl]; simp
      · intro hk
        rw [hl] at hk
        cases hkx : lt k x <;> cases hxk : lt x k
        · exact ⟨rfl, rfl⟩
        · exfalso
          simp only [List.mem_append, List.mem_cons] at hk
          rcases hk with h1 | rfl | h1
          · have := hp.left_lt (Or.inr hxk) k h1; simp [to.irrefl] at this
          · simp [to.irrefl] at hxk
          · have := hp.right_gt (Or.inr hxk) k h1; simp [to.irrefl] at this
        · exfalso
          simp only [List.mem_append, List.mem_cons] at hk
          rcases hk with h1 | rfl | h1
          · have := hp.left_lt (Or.inl hkx) k h1; simp [to.irrefl] at this
          · simp [to.irrefl] at hkx
          · have := hp.right_gt (Or.inl hkx) k h1; simp [to.irrefl] at this
        · have := sw.asymm hkx; simp_all
    | find k =>
      obtain ⟨l', x, r', hsp, hp⟩ := splay_parted sw k s.root hne hb
      have hbs := splay_bst sw k s.root hb
      have hins := splay_inorder lt k s.root
      simp only [ST.step, ST.find, hsp, specStep]
      have hl : l = inorder l' ++ x :: inorder r' := by rw [← hin, ← hins, hsp]; rfl
      have hbn : Bst lt (Tree.node l' x r') := hsp ▸ hbs
      simp only [Bst] at hbn
      refine ⟨⟨by rw [hl]; simp, ?_, ?_, ?_⟩, ⟨by simp only; rw [← hsp, hins, hin], by simp only; rw [← hsp]; exact hbs, hsz, hled⟩⟩
      · intro hk
        rw [hl] at hk
        cases hkx : lt k x <;> cases hxk : lt x k
        · exact (equiv_eq to hkx hxk).symm
        · exfalso
          simp only [List.mem_append, List.mem_cons] at hk
          rcases hk with h1 | rfl | h1
          · have := hp.left_lt (Or.inr hxk) k h1; simp [to.irrefl] at this
          · simp [to.irrefl] at hxk
          · have := hp.right_gt (Or.inr hxk) k h1; simp [to.irrefl] at this
        · exfalso
          simp only [List.mem_append, List.mem_cons] at hk
          rcases hk with h1 | rfl | h1
          · have := hp.left_lt (Or.inl hkx) k h1; simp [to.irrefl] at this
          · simp [to.irrefl] at hkx
          · have := hp.right_gt (Or.inl hkx) k h1; simp [to.irrefl] at this
        · have := sw.asymm hkx; simp_all
      · intro hxk y hy hyk
        rw [hl] at hy
        simp only [List.mem_append, List.mem_cons] at hy
        rcases hy with h1 | rfl | h1
        · exact hbn.2.2.1 y h1
        · exact to.irrefl _
        · have := hp.right_gt (Or.inr hxk) y h1
          have := sw.asymm this; simp_all
      · intro hkx y hy hky
        rw [hl] at hy
        simp only [List.mem_append, List.mem_cons] at hy
        rcases hy with h1 | rfl | h1
        · have := hp.left_lt (Or.inl hkx) y h1
          have := sw.asymm this; simp_all
        · exact to.irrefl _
        · exact hbn.2.2.2 y h1
    | clear =>
      simp only [ST.step, ST.clear, specStep]
      have : s.root.size = l.length := by rw [size_eq_length, hin]
      exact ⟨by triv, ⟨rfl, by simp [Bst], by simp only; rw [this, hsz]; simp, by simp only; rw [this]; omega⟩⟩
    | size => simp only [ST.step, specStep]; exact ⟨by rw [hsz], ⟨hin, hb, hsz, hled⟩⟩

def ST.run (lt : Int → Int → Bool) (dup : Bool) (s : ST) : List SOp → ST × List SOut
  | [] => (s, [])
  | op :: ops => let r := s.step lt dup op; let rr := ST.run lt dup r.1 ops; (rr.1, r.2 :: rr.2)

/-- the outputs `outs` are acceptable answers of the sorted-list (multi)set started at `l` -/
def SpecAccepts (lt : Int → Int → Bool) (dup : Bool) : List Int → List SOp → List SOut → Prop
  | _, [], [] => True
  | l, op :: ops, o :: outs => (specStep lt dup l op).2 o ∧ SpecAccepts lt dup (specStep lt dup l op).1 ops outs
  | _, _, _ => False

def specRun (lt : Int → Int → Bool) (dup : Bool) : List Int → List SOp → List Int
  | l, [] => l
  | l, op :: ops => specRun lt dup (specStep lt dup l op).1 ops

/-- **SplayTree refinement, all histories** (set and multiset, `std::less`/`std::greater`‑like
comparators): the outputs are those of the sorted-list (multi)set, the final tree is a search tree
whose in-order sequence is the final sorted list, `size_` is its length and
`allocated = freed + size_` (every node is freed at most once, and exactly once after `clear`). -/
theorem splay_refines {lt : Int → Int → Bool} (to : TotalOrder lt) (dup : Bool) (ops : List SOp)
    (s : ST) (l : List Int) (h : SplayRel lt s l) :
    SpecAccepts lt dup l ops (s.run lt dup ops).2 ∧
    SplayRel lt (s.run lt dup ops).1 (specRun lt dup l ops) := by
  induction ops generalizing s l with
  | nil => exact ⟨by triv, h⟩
  | cons op ops ih =>
    obtain ⟨h1, h2⟩ := splay_step_refines to dup s l h op
    obtain ⟨h3, h4⟩ := ih _ _ h2
    exact ⟨⟨h1, h3⟩, h4⟩

theorem splayRel_init (lt : Int → Int → Bool) : SplayRel lt ({} : ST) [] :=
  ⟨rfl, trivial, rfl, rfl⟩

/-- after `clear()` every node that was ever allocated has been freed, whatever happened before -/
theorem splay_clear_frees_all {lt : Int → Int → Bool} (to : TotalOrder lt) (dup : Bool) (ops : List SOp) :
    let s := ((({} : ST).run lt dup ops).1).clear
    s.allocs = s.frees ∧ s.size = 0 ∧ s.root = .nil := by
  have h := (splay_refines to dup (ops ++ [.clear]) {} [] (splayRel_init lt)).2
  have hrun : ∀ (s : ST) (ops : List SOp), (s.run lt dup (ops ++ [.clear])).1 = ((s.run lt dup ops).1).clear := by
    intro s ops
    induction ops generalizing s with
    | nil => simp [ST.run, ST.step]
    | cons op ops ih => simp only [List.cons_append, ST.run]; exact ih _
  have hspec : ∀ (l : List Int) (ops : List SOp), specRun lt dup l (ops ++ [.clear]) = [] := by
    intro l ops
    induction ops generalizing l with
    | nil => simp [specRun, specStep]
    | cons op ops ih => simp only [List.cons_append, specRun]; exact ih _
  rw [hrun, hspec] at h
  obtain ⟨h1, _, h3, h4⟩ := h
  simp only at h1 h3 h4 ⊢
  refine ⟨by simp at h3; omega, by simpa using h3, ?_⟩
  simp [ST.clear]

/-- **`check()` characterised**: (after the fix of `splay_check`) it answers true exactly for search
trees in the non-strict sense, for every strict weak order; before the fix it was constantly true -/
theorem splay_check_characterised {lt : Int → Int → Bool} (sw : StrictWeak lt) (s : ST) :
    s.check lt = true ↔ Bst lt s.root := splayCheck_iff sw s.root

-- non-vacuity: the history of DESIGN §5 D13 (duplicates, erase of a key with equal neighbours)
example :
    (inorder (({} : ST).run (fun a b => decide (a < b)) true
      [.insert 0, .insert 2, .exists 3, .exists 0, .insert 3, .exists 1, .insert 3, .insert 3, .insert 3,
       .insert 3, .insert 0, .erase 3]).1.root) = [0, 0, 2, 3, 3, 3, 3] := by decide

example : Bst (fun a b => decide (a < b)) (.node (.node .nil 1 .nil) 1 (.node .nil 2 .nil)) := by
  simp [Bst, inorder]

end TlxVerif.C17
