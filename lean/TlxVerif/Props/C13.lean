import TlxVerif.Model.C13DAry
import TlxVerif.Model.C13Addr
import TlxVerif.Model.C13Radix
namespace TlxVerif.C13
theorem parent_lt_again {d k : Nat} (hk : 0 < k) : parent d k < k := parent_lt hk
end TlxVerif.C13
