/-
C13 — the heaps always surface a minimum element and track membership/size.

Part 1 (this section): `DAryHeap`.  For every arity `d ≥ 1` and every comparator that is a strict
weak order (`WeakOrd`: the harness' external priority tables are of this kind), on the model
`Model/C13DAry.lean` (the transliteration of `sift_up`, `sift_down`, `heapify`, `push`, `pop`,
`build_heap`, `update_all`):
  * push / pop / build_heap / update_all establish resp. preserve the heap order,
  * they change the stored multiset exactly as a priority queue does (`Perm` statements),
  * the top of a heap in heap order is not greater than any stored element,
  * for every history of push/pop/build/update_all(with a NEW comparator)/clear the heap stays in
    heap order w.r.t. the current comparator and holds the reference multiset; every pop removes
    a minimum; draining yields the stored multiset in non-decreasing order.
-/
import TlxVerif.Proofs.C13DAry
import TlxVerif.Proofs.C13Addr
import TlxVerif.Proofs.C13RadixHeap
namespace TlxVerif.C13

/-- heap order of `heap_` (interface level) -/
def HeapA (lt : Nat → Nat → Bool) (d : Nat) (h : Array Nat) : Prop :=
  HeapOrd lt d (n := h.size) ⟨h, rfl⟩

theorem heapA_toArray {lt : Nat → Nat → Bool} {d n : Nat} (v : Vector Nat n) :
    HeapA lt d v.toArray ↔ HeapOrd lt d v := by
  rcases v with ⟨arr, rfl⟩
  exact Iff.rfl

/-- `sift_up` of the last slot of an array whose other slots are in heap order -/
theorem siftUp_last {lt : Nat → Nat → Bool} (wo : WeakOrd lt) (d m : Nat) (a : Vector Nat (m + 1))
    (h : ∀ i (hi : i < m), 0 < i → lt a[i] (atParent d a i (by omega)) = false) :
    HeapOrd lt d (siftUp lt d a m (Nat.lt_succ_self _)) ∧ (siftUp lt d a m (Nat.lt_succ_self _)).Perm a := by
  unfold siftUp
  have hperm := siftUpFrom_perm lt d a[m] a m (Nat.lt_succ_self _)
  rw [set_self] at hperm
  refine ⟨?_, hperm⟩
  apply siftUpFrom_heap wo
  rw [set_self]
  constructor
  · intro i hi hi0 hik
    exact h i (by omega) hi0
  · intro c hc hc0 hpc
    have := @parent_lt d c hc0
    omega

/-- **push** keeps the heap order and adds exactly the new key -/
theorem push_heap {lt : Nat → Nat → Bool} (wo : WeakOrd lt) (d : Nat) (h : Array Nat) (key : Nat)
    (hh : HeapA lt d h) :
    HeapA lt d (push lt d h key) ∧ (push lt d h key).Perm (h.push key) := by
  unfold push
  have hs := siftUp_last wo d h.size ⟨h.push key, by simp⟩ (by
    intro i hi hi0
    have hpi : parent d i < i := parent_lt hi0
    have := hh i hi hi0
    simp only [atParent, Vector.getElem_mk] at this ⊢
    rw [Array.getElem_push_lt (by omega), Array.getElem_push_lt (by omega)]
    exact this)
  exact ⟨(heapA_toArray _).mpr hs.1, Vector.perm_iff_toArray_perm.mp hs.2⟩


/-- `sift_down(0)` of an array that is in heap order below the root's children -/
theorem siftDown_root {lt : Nat → Nat → Bool} (wo : WeakOrd lt) (d : Nat) (hd : 0 < d) {m : Nat} (a : Vector Nat m)
    (hm : 0 < m)
    (h : ∀ i (hi : i < m), 0 < i → parent d i ≠ 0 → lt a[i] (atParent d a i hi) = false) :
    HeapOrd lt d (siftDown lt d hd a 0 hm) ∧ (siftDown lt d hd a 0 hm).Perm a := by
  unfold siftDown
  have hperm := siftDownFrom_perm lt d hd a[0] a 0 hm
  rw [set_self] at hperm
  refine ⟨?_, hperm⟩
  rw [← heapFrom_zero]
  apply siftDownFrom_heap wo
  rw [set_self]
  exact ⟨Nat.le_refl _, fun i hi hi0 _ hp => h i hi hi0 hp, fun h0 => absurd h0 (Nat.lt_irrefl 0)⟩

theorem pop_aux {lt : Nat → Nat → Bool} (wo : WeakOrd lt) (d : Nat) (hd : 0 < d) (sw h : Array Nat) (t : Nat)
    (hperm : (sw.push t).Perm h)
    (hsw : ∀ i (hi : i < sw.size), 0 < i → parent d i ≠ 0 →
      lt sw[i] (sw[parent d i]'(Nat.lt_of_le_of_lt (parent_le d i) hi)) = false) :
    ∃ h', (if hs : 0 < sw.size then some (siftDown lt d hd (n := sw.size) ⟨sw, rfl⟩ 0 hs).toArray else some sw) = some h' ∧
      HeapA lt d h' ∧ (h'.push t).Perm h := by
  split
  · rename_i hs
    have hs2 := siftDown_root wo d hd (⟨sw, rfl⟩ : Vector Nat sw.size) hs (by
      intro i hi hi0 hp
      simpa [atParent] using hsw i hi hi0 hp)
    refine ⟨_, rfl, (heapA_toArray _).mpr hs2.1, ?_⟩
    have h1 : (siftDown lt d hd (⟨sw, rfl⟩ : Vector Nat sw.size) 0 hs).toArray.Perm sw :=
      Vector.perm_iff_toArray_perm.mp hs2.2
    exact (Array.Perm.push t h1).trans hperm
  · rename_i hs
    exact ⟨sw, rfl, fun i hi => by omega, hperm⟩

/-- **pop** removes the top, keeps the heap order and keeps every other element -/
theorem pop_heap {lt : Nat → Nat → Bool} (wo : WeakOrd lt) (d : Nat) (hd : 0 < d) (h : Array Nat)
    (hh : HeapA lt d h) (hne : 0 < h.size) :
    ∃ h', pop lt d hd h = some h' ∧ HeapA lt d h' ∧ (h'.push h[0]).Perm h := by
  unfold pop
  simp only [hne, dite_true]
  have hswp : (h.swap 0 (h.size - 1) hne (by omega)).Perm h := Array.swap_perm hne (by omega)
  have hlast : (h.swap 0 (h.size - 1) hne (by omega))[(h.swap 0 (h.size - 1) hne (by omega)).size - 1]'(by simp; omega)
      = h[0] := by simp [Array.getElem_swap]
  have hpp := array_eq_pop_push (h.swap 0 (h.size - 1) hne (by omega)) (by simpa using hne)
  rw [hlast] at hpp
  apply pop_aux wo d hd _ h h[0] (by rw [← hpp]; exact hswp)
  intro i hi hi0 hp
  have hi' : i < h.size - 1 := by simpa using hi
  have hpi : parent d i < i := parent_lt hi0
  have := hh i (by omega) hi0
  simp only [atParent, Vector.getElem_mk] at this
  simp only [Array.getElem_pop, Array.getElem_swap]
  have e1 : ¬ i = 0 := by omega
  have e2 : ¬ i = h.size - 1 := by omega
  have e3 : ¬ parent d i = h.size - 1 := by omega
  simp only [e1, e2, e3, hp, if_false]
  exact this

/-- **build_heap / update_all** establish the heap order from ANY array (in particular whatever
the heap held before, and whatever the priorities were when it was built) and keep its multiset -/
theorem build_heap {lt : Nat → Nat → Bool} (wo : WeakOrd lt) (d : Nat) (hd : 0 < d) (keys : Array Nat) :
    HeapA lt d (build lt d hd keys) ∧ (build lt d hd keys).Perm keys := by
  unfold build
  have hs := heapify_spec wo d hd (⟨keys, rfl⟩ : Vector Nat keys.size)
  exact ⟨(heapA_toArray _).mpr hs.1, Vector.perm_iff_toArray_perm.mp hs.2⟩

/-- **the top is a minimum**: no stored element is less than `top()` -/
theorem top_minimal {lt : Nat → Nat → Bool} (wo : WeakOrd lt) (d : Nat) (h : Array Nat) (hh : HeapA lt d h)
    (t : Nat) (ht : top? h = some t) : ∀ x ∈ h, lt x t = false := by
  intro x hx
  obtain ⟨i, hi, rfl⟩ := Array.mem_iff_getElem.mp hx
  have h0 : 0 < h.size := by omega
  have : t = h[0] := by
    simp only [top?] at ht
    rw [Array.getElem?_eq_getElem h0] at ht
    exact (Option.some.inj ht).symm
  subst this
  exact heapOrd_top_le wo (⟨h, rfl⟩ : Vector Nat h.size) hh i hi


/-! ### all histories -/

inductive DOp where
  | push (k : Nat) | pop | build (ks : Array Nat)
  | reprio (lt' : Nat → Nat → Bool)     -- the external priorities change, then `update_all()`
  | clear

structure DState where
  lt : Nat → Nat → Bool
  heap : Array Nat

/-- one operation of the model; the output is the element removed by `pop` -/
def DState.step (d : Nat) (hd : 0 < d) (s : DState) : DOp → DState × Option Nat
  | .push k => ({ s with heap := push s.lt d s.heap k }, none)
  | .pop =>
    match top? s.heap, pop s.lt d hd s.heap with
    | some t, some h' => ({ s with heap := h' }, some t)
    | _, _ => (s, none)                   -- empty heap: precondition violated, not executed
  | .build ks => ({ s with heap := build s.lt d hd ks }, none)
  | .reprio lt' => ({ lt := lt', heap := updateAll lt' d hd s.heap }, none)
  | .clear => ({ s with heap := #[] }, none)

/-- the reference multiset (a list up to permutation) -/
def refStep (ref : List Nat) : DOp → Option Nat → List Nat
  | .push k, _ => k :: ref
  | .pop, some t => ref.erase t
  | .pop, none => ref
  | .build ks, _ => ks.toList
  | .reprio _, _ => ref
  | .clear, _ => []

def opWO : DOp → Prop
  | .reprio lt' => WeakOrd lt'
  | _ => True

/-- the heap is in heap order for the current comparator and stores the reference multiset -/
def DInv (d : Nat) (s : DState) (ref : List Nat) : Prop :=
  WeakOrd s.lt ∧ HeapA s.lt d s.heap ∧ s.heap.toList.Perm ref

/-- **one step of any history**: the invariant is kept, and a `pop` removes a stored element that
no stored element is less than (on an empty heap it is refused) -/
theorem dary_step (d : Nat) (hd : 0 < d) (s : DState) (ref : List Nat) (op : DOp)
    (hinv : DInv d s ref) (hop : opWO op) :
    DInv d (s.step d hd op).1 (refStep ref op (s.step d hd op).2) ∧
    (op = .pop → match (s.step d hd op).2 with
      | some t => t ∈ ref ∧ ∀ x ∈ ref, s.lt x t = false
      | none => ref = []) := by
  obtain ⟨wo, hh, hp⟩ := hinv
  cases op with
  | push k =>
    obtain ⟨h1, h2⟩ := push_heap wo d s.heap k hh
    refine ⟨⟨wo, h1, ?_⟩, by simp⟩
    simp only [DState.step, refStep]
    refine h2.toList.trans ?_
    simp only [Array.toList_push]
    exact (List.perm_append_singleton _ _).trans (List.Perm.cons k hp)
  | pop =>
    by_cases hne : 0 < s.heap.size
    · obtain ⟨h', hpop, h1, h2⟩ := pop_heap wo d hd s.heap hh hne
      have htop : top? s.heap = some s.heap[0] := by simp [top?, Array.getElem?_eq_getElem hne]
      have hmin := top_minimal wo d s.heap hh _ htop
      simp only [DState.step, htop, hpop, refStep]
      have hmem : s.heap[0] ∈ ref := hp.subset (by simp)
      refine ⟨⟨wo, h1, ?_⟩, fun _ => ⟨hmem, fun x hx => hmin x (by
        have := hp.symm.subset hx; simpa using this)⟩⟩
      have h3 : (s.heap[0] :: h'.toList).Perm ref := by
        refine (List.Perm.trans ?_ h2.toList).trans hp
        simp only [Array.toList_push]
        exact (List.perm_append_singleton _ _).symm
      exact (List.perm_cons _).mp (h3.trans (List.perm_cons_erase hmem))
    · have hemp : s.heap = #[] := by
        apply Array.eq_empty_of_size_eq_zero; omega
      have : ref = [] := by
        rw [hemp] at hp; simpa using hp.symm
      have hstep : s.step d hd .pop = (s, none) := by
        simp only [DState.step, hemp, top?, Array.getElem?_empty]
      rw [hstep]
      exact ⟨⟨wo, hh, by simpa [refStep] using hp⟩, fun _ => this⟩
  | build ks =>
    obtain ⟨h1, h2⟩ := build_heap wo d hd ks
    exact ⟨⟨wo, h1, h2.toList⟩, by simp⟩
  | reprio lt' =>
    obtain ⟨h1, h2⟩ := build_heap hop d hd s.heap
    exact ⟨⟨hop, h1, h2.toList.trans hp⟩, by simp⟩
  | clear =>
    exact ⟨⟨wo, fun i hi => absurd hi (by simp [DState.step]), by simp [DState.step, refStep]⟩, by simp⟩

/-- run a history, collecting states -/
def DState.run (d : Nat) (hd : 0 < d) (s : DState) (ref : List Nat) : List DOp → DState × List Nat
  | [] => (s, ref)
  | op :: ops =>
    let r := s.step d hd op
    DState.run d hd r.1 (refStep ref op r.2) ops

/-- **all histories**: after any history of push / pop / build_heap (on empty and non-empty heaps) /
update_all with changed priorities / clear, for every arity `d ≥ 1`, the heap is in heap order for
the current comparator and holds exactly the reference multiset (so `size()` is exact and `top()`
is a minimum by `top_minimal`) -/
theorem dary_history (d : Nat) (hd : 0 < d) (ops : List DOp) (s : DState) (ref : List Nat)
    (hinv : DInv d s ref) (hops : ∀ op ∈ ops, opWO op) :
    DInv d (s.run d hd ref ops).1 (s.run d hd ref ops).2 := by
  induction ops generalizing s ref with
  | nil => exact hinv
  | cons op ops ih =>
    simp only [DState.run]
    apply ih
    · exact (dary_step d hd s ref op hinv (hops op (by simp))).1
    · intro o ho; exact hops o (by simp [ho])

theorem dinv_init (d : Nat) (lt : Nat → Nat → Bool) (wo : WeakOrd lt) : DInv d ⟨lt, #[]⟩ [] :=
  ⟨wo, fun i hi => absurd hi (by simp), by simp⟩

/-- repeated `extract_top()` -/
def drain (lt : Nat → Nat → Bool) (d : Nat) (hd : 0 < d) : Nat → Array Nat → List Nat
  | 0, _ => []
  | f + 1, h =>
    match top? h, pop lt d hd h with
    | some t, some h' => t :: drain lt d hd f h'
    | _, _ => []

/-- **draining yields the stored multiset in non-decreasing order** -/
theorem drain_sorted {lt : Nat → Nat → Bool} (wo : WeakOrd lt) (d : Nat) (hd : 0 < d) (f : Nat) (h : Array Nat)
    (hh : HeapA lt d h) (hf : h.size ≤ f) :
    (drain lt d hd f h).Perm h.toList ∧ (drain lt d hd f h).Pairwise (fun a b => lt b a = false) := by
  induction f generalizing h with
  | zero =>
    have : h = #[] := Array.eq_empty_of_size_eq_zero (by omega)
    subst this; simp [drain]
  | succ f ih =>
    by_cases hne : 0 < h.size
    · obtain ⟨h', hpop, h1, h2⟩ := pop_heap wo d hd h hh hne
      have htop : top? h = some h[0] := by simp [top?, Array.getElem?_eq_getElem hne]
      have hmin := top_minimal wo d h hh _ htop
      have hsz : h'.size + 1 = h.size := by simpa using h2.toList.length_eq
      obtain ⟨i1, i2⟩ := ih h' h1 (by omega)
      simp only [drain, htop, hpop]
      have hperm : (h[0] :: h'.toList).Perm h.toList := by
        refine List.Perm.trans ?_ h2.toList
        simp only [Array.toList_push]
        exact (List.perm_append_singleton _ _).symm
      refine ⟨(List.Perm.cons _ i1).trans hperm, ?_⟩
      simp only [List.pairwise_cons]
      refine ⟨?_, i2⟩
      intro x hx
      apply hmin x
      have : x ∈ h.toList := hperm.subset (List.mem_cons_of_mem _ (i1.subset hx))
      simpa using this
    · have : h = #[] := Array.eq_empty_of_size_eq_zero (by omega)
      subst this; simp [drain, top?]


/-- **`sanity_check()` characterised** (as a function of `heap_`): true exactly in heap order -/
theorem sanity_iff (lt : Nat → Nat → Bool) (d : Nat) (h : Array Nat) : sanity lt d h = true ↔ HeapA lt d h := by
  unfold sanity HeapA HeapOrd
  simp only [List.all_eq_true, List.mem_range, Bool.or_eq_true, beq_iff_eq, Bool.not_eq_eq_eq_not, Bool.not_true]
  constructor
  · intro hs i hi hi0
    have hpi : parent d i < i := parent_lt hi0
    rcases hs i hi with h0 | h1
    · omega
    · simpa [atParent, Array.getElem?_eq_getElem hi, Array.getElem?_eq_getElem (show parent d i < h.size by omega)] using h1
  · intro hh i hi
    by_cases hi0 : i = 0
    · exact Or.inl hi0
    · right
      have hpi : parent d i < i := parent_lt (by omega)
      have := hh i hi (by omega)
      simpa [atParent, Array.getElem?_eq_getElem hi, Array.getElem?_eq_getElem (show parent d i < h.size by omega)] using this

/-- the comparators of the harness: an external priority table, ascending or descending -/
theorem weakOrd_prio (prio : Nat → Int) : WeakOrd (fun a b => decide (prio a < prio b)) :=
  { irrefl := by simp, trans := by simp; omega, negTrans := by simp; omega }

theorem weakOrd_prio_rev (prio : Nat → Int) : WeakOrd (fun a b => decide (prio a > prio b)) :=
  { irrefl := by simp, trans := by simp; omega, negTrans := by simp; omega }

-- non-vacuity: a ternary heap with tied priorities (keys 1,4 ↦ 0; 2,5 ↦ 1; 3 ↦ -1) satisfies the
-- hypothesis `HeapA` of the theorems above (it is what `build` makes of #[5,4,3,2,1]; the model
-- is executed by the driver, `decide` cannot unfold its well-founded recursions)
example :
    HeapA (fun a b => decide ((if a = 3 then (-1 : Int) else if a = 1 ∨ a = 4 then 0 else 1) <
                              (if b = 3 then (-1 : Int) else if b = 1 ∨ b = 4 then 0 else 1))) 3 #[3, 4, 5, 2, 1] := by
  intro i hi hi0
  have : i = 1 ∨ i = 2 ∨ i = 3 ∨ i = 4 := by simp at hi; omega
  rcases this with rfl | rfl | rfl | rfl <;> simp [atParent, parent]


/-! ## Part 2: `DAryAddressableIntHeap`

`handles_` is the inverse of `heap_` (`AOk`) after every operation, so `contains(key)` answers
exactly whether `key` is stored; `remove`, `update` (in both directions), `build_heap` on empty and
non-empty heaps (D8) and `update_all` keep the heap order and change the key set as documented.
No operation of a history that respects the documented preconditions indexes out of bounds
(the model returns `some`). -/

inductive AOp where
  | push (k : Nat) | pop | remove (k : Nat)
  | update (k : Nat) (lt' : Nat → Nat → Bool)   -- the priority of `k` changed (new comparator `lt'`), then `update(k)`
  | build (ks : Array Nat)
  | reprio (lt' : Nat → Nat → Bool)             -- arbitrary priority changes, then `update_all()`
  | clear | contains (k : Nat) | reserve (n : Nat)

structure AState where
  lt : Nat → Nat → Bool
  ah : AH

inductive AOut where
  | none | key (k : Nat) | bool (b : Bool)

/-- one operation of the model (`none` = out-of-bounds access or violated `assert`) -/
def AState.step (d : Nat) (hd : 0 < d) (s : AState) : AOp → Option (AState × AOut)
  | .push k => (s.ah.push s.lt d k).map fun a => ({ s with ah := a }, .none)
  | .pop =>
    match s.ah.top? with
    | some t => (s.ah.pop s.lt d hd).map fun a => ({ s with ah := a }, .key t)
    | none => Option.none
  | .remove k => (s.ah.remove s.lt d hd k).map fun a => ({ s with ah := a }, .none)
  | .update k lt' => (s.ah.update lt' d hd k).map fun a => ({ lt := lt', ah := a }, .none)
  | .build ks => (s.ah.build s.lt d hd ks).map fun a => ({ s with ah := a }, .none)
  | .reprio lt' => (s.ah.updateAll lt' d hd).map fun a => ({ lt := lt', ah := a }, .none)
  | .clear => some ({ s with ah := s.ah.clear }, .none)
  | .contains k => some (s, .bool (s.ah.contains k))
  | .reserve n => some ({ s with ah := s.ah.reserve n }, .none)

/-- documented preconditions, judged on the reference key set -/
def AOp.pre (lt : Nat → Nat → Bool) (ref : List Nat) : AOp → Prop
  | .push k => k ∉ ref
  | .pop => ref ≠ []
  | .remove k => k ∈ ref
  | .update k lt' => WeakOrd lt' ∧ ∀ x y, x ≠ k → y ≠ k → lt' x y = lt x y
  | .build ks => ks.toList.Nodup
  | .reprio lt' => WeakOrd lt'
  | .clear => True
  | .contains _ => True
  | .reserve _ => True

/-- the reference key set -/
def arefStep (ref : List Nat) : AOp → AOut → List Nat
  | .push k, _ => k :: ref
  | .pop, .key t => ref.erase t
  | .pop, _ => ref
  | .remove k, _ => ref.erase k
  | .update k _, _ => if k ∈ ref then ref else k :: ref
  | .build ks, _ => ks.toList
  | .reprio _, _ => ref
  | .clear, _ => []
  | .contains _, _ => ref
  | .reserve _, _ => ref

def AInvS (d : Nat) (s : AState) (ref : List Nat) : Prop :=
  WeakOrd s.lt ∧ AOk s.ah ∧ HeapA s.lt d s.ah.heap ∧ s.ah.heap.toList.Perm ref

private theorem mem_heap_iff {s : AState} {ref : List Nat} (hp : s.ah.heap.toList.Perm ref) (k : Nat) :
    k ∈ s.ah.heap ↔ k ∈ ref := by
  rw [← Array.mem_toList_iff]; exact hp.mem_iff

/-- **one step of any history of the addressable heap** -/
theorem addr_step (d : Nat) (hd : 0 < d) (s : AState) (ref : List Nat) (op : AOp)
    (hinv : AInvS d s ref) (hpre : op.pre s.lt ref) :
    ∃ s' out, s.step d hd op = some (s', out) ∧ AInvS d s' (arefStep ref op out) ∧
      (∀ k, op = .contains k → out = .bool (decide (k ∈ ref))) ∧
      (op = .pop → ∃ t, out = .key t ∧ t ∈ ref ∧ ∀ x ∈ ref, s.lt x t = false) := by
  obtain ⟨wo, hok, hheap, hperm⟩ := hinv
  cases op with
  | push k =>
    have hc : s.ah.contains k = false := by
      cases h : s.ah.contains k with
      | false => rfl
      | true => exact absurd ((mem_heap_iff hperm k).mp ((contains_iff s.ah hok k).mp h)) hpre
    obtain ⟨a, e1, e2, e3⟩ := apush_spec s.lt d s.ah k hok hc
    obtain ⟨p1, p2⟩ := push_heap wo d s.ah.heap k hheap
    refine ⟨{ s with ah := a }, .none, by simp only [AState.step, e1, Option.map_some], ⟨wo, e2, by rw [e3]; exact p1, ?_⟩, by simp, by simp⟩
    simp only [arefStep]
    rw [e3]
    refine p2.toList.trans ?_
    simp only [Array.toList_push]
    exact (List.perm_append_singleton _ _).trans (List.Perm.cons k hperm)
  | pop =>
    have hne : 0 < s.ah.heap.size := by
      cases hsz : s.ah.heap.size with
      | zero =>
        have : s.ah.heap = #[] := Array.eq_empty_of_size_eq_zero hsz
        rw [this] at hperm
        exact absurd (by simpa using hperm.symm) hpre
      | succ n => omega
    have htop : s.ah.top? = some s.ah.heap[0] := by simp [AH.top?, Array.getElem?_eq_getElem hne]
    have hc : s.ah.contains s.ah.heap[0] = true := (contains_iff s.ah hok _).mpr (by simp)
    obtain ⟨a, e1, e2, e3, e4⟩ := aremove_spec wo d hd s.ah s.ah.heap[0] hok hheap hc
    have hpop : s.ah.pop s.lt d hd = some a := by
      simp only [AH.pop, Array.getElem?_eq_getElem hne]; exact e1
    have hmin := top_minimal wo d s.ah.heap hheap s.ah.heap[0] (by simp [top?, Array.getElem?_eq_getElem hne])
    have hmem : s.ah.heap[0] ∈ ref := (mem_heap_iff hperm _).mp (by simp)
    refine ⟨{ s with ah := a }, .key s.ah.heap[0], by simp only [AState.step, htop, hpop, Option.map_some], ⟨wo, e2, e3, ?_⟩, by simp,
      fun _ => ⟨_, rfl, hmem, fun x hx => hmin x ((mem_heap_iff hperm x).mpr hx)⟩⟩
    simp only [arefStep]
    have h3 : (s.ah.heap[0] :: a.heap.toList).Perm ref := by
      refine (List.Perm.trans ?_ e4.toList).trans hperm
      simp only [Array.toList_push]
      exact (List.perm_append_singleton _ _).symm
    exact (List.perm_cons _).mp (h3.trans (List.perm_cons_erase hmem))
  | remove k =>
    have hc : s.ah.contains k = true := (contains_iff s.ah hok k).mpr ((mem_heap_iff hperm k).mpr hpre)
    obtain ⟨a, e1, e2, e3, e4⟩ := aremove_spec wo d hd s.ah k hok hheap hc
    refine ⟨{ s with ah := a }, .none, by simp only [AState.step, e1, Option.map_some], ⟨wo, e2, e3, ?_⟩, by simp, by simp⟩
    simp only [arefStep]
    have h3 : (k :: a.heap.toList).Perm ref := by
      refine (List.Perm.trans ?_ e4.toList).trans hperm
      simp only [Array.toList_push]
      exact (List.perm_append_singleton _ _).symm
    exact (List.perm_cons _).mp (h3.trans (List.perm_cons_erase hpre))
  | update k lt' =>
    obtain ⟨wo', hagree⟩ := hpre
    by_cases hk : k ∈ ref
    · have hc : s.ah.contains k = true := (contains_iff s.ah hok k).mpr ((mem_heap_iff hperm k).mpr hk)
      unfold AH.contains at hc
      split at hc
      · rename_i h hkh
        obtain ⟨hh, hkey⟩ := hok.bwd k h hkh
        obtain ⟨a, e1, e2, e3, e4⟩ := aupdate_present_spec wo' d hd s.ah k h hok hkh (fun hh' =>
          heapExcept_of_changed_key wo d _ h hh' hheap hok.distinct (by
            intro x y hx hy
            exact hagree x y (by rw [← hkey]; exact hx) (by rw [← hkey]; exact hy)))
        refine ⟨{ lt := lt', ah := a }, .none, by simp only [AState.step, e1, Option.map_some], ⟨wo', e2, e3, ?_⟩, by simp, by simp⟩
        simp only [arefStep, hk, if_true]
        exact e4.toList.trans hperm
      · cases hc
    · have hc : s.ah.contains k = false := by
        cases h : s.ah.contains k with
        | false => rfl
        | true => exact absurd ((mem_heap_iff hperm k).mp ((contains_iff s.ah hok k).mp h)) hk
      have hheap' : HeapA lt' d s.ah.heap := by
        intro i hi hi0
        have hpi : parent d i < i := parent_lt hi0
        have hne : ∀ j (hj : j < s.ah.heap.size), s.ah.heap[j] ≠ k := by
          intro j hj e
          apply hk
          exact (mem_heap_iff hperm k).mp (by rw [← e]; simp)
        have := hheap i hi hi0
        simp only [atParent, Vector.getElem_mk] at this ⊢
        rw [hagree _ _ (hne i hi) (hne (parent d i) (by omega))]
        exact this
      obtain ⟨a, e1, e2, e3⟩ := apush_spec lt' d s.ah k hok hc
      obtain ⟨p1, p2⟩ := push_heap wo' d s.ah.heap k hheap'
      refine ⟨{ lt := lt', ah := a }, .none, by simp only [AState.step, aupdate_absent lt' d hd s.ah k hc, e1, Option.map_some],
        ⟨wo', e2, by rw [e3]; exact p1, ?_⟩, by simp, by simp⟩
      simp only [arefStep, hk, if_false]
      rw [e3]
      refine p2.toList.trans ?_
      simp only [Array.toList_push]
      exact (List.perm_append_singleton _ _).trans (List.Perm.cons k hperm)
  | build ks =>
    obtain ⟨a, e1, e2, e3⟩ := abuild_spec s.lt d hd s.ah hok ks hpre
    obtain ⟨b1, b2⟩ := build_heap wo d hd ks
    exact ⟨{ s with ah := a }, .none, by simp only [AState.step, e1, Option.map_some],
      ⟨wo, e2, by rw [e3]; exact b1, by rw [e3]; exact b2.toList⟩, by simp, by simp⟩
  | reprio lt' =>
    obtain ⟨a, e1, e2, e3⟩ := aupdateAll_spec lt' d hd s.ah hok
    obtain ⟨b1, b2⟩ := build_heap hpre d hd s.ah.heap
    exact ⟨{ lt := lt', ah := a }, .none, by simp only [AState.step, e1, Option.map_some],
      ⟨hpre, e2, by rw [e3]; exact b1, by rw [e3]; exact b2.toList.trans hperm⟩, by simp, by simp⟩
  | clear =>
    refine ⟨{ s with ah := s.ah.clear }, .none, rfl, ⟨wo, aclear_spec s.ah, ?_, by simp [AH.clear, arefStep]⟩, by simp, by simp⟩
    intro i hi; simp [AH.clear] at hi
  | reserve n =>
    obtain ⟨r1, r2⟩ := areserve_spec s.ah hok n
    exact ⟨{ s with ah := s.ah.reserve n }, .none, rfl,
      ⟨wo, r1, by show HeapA s.lt d (s.ah.reserve n).heap; rw [r2]; exact hheap,
       by show (s.ah.reserve n).heap.toList.Perm ref; rw [r2]; exact hperm⟩, by simp, by simp⟩
  | contains k =>
    refine ⟨s, .bool (s.ah.contains k), rfl, ⟨wo, hok, hheap, hperm⟩, ?_, by simp⟩
    intro k' hk'
    cases hk'
    congr 1
    rw [Bool.eq_iff_iff, contains_iff s.ah hok k, decide_eq_true_eq]
    exact mem_heap_iff hperm k

/-- a history together with the proof that every operation meets its documented precondition at
the moment it is issued -/
def AValid (d : Nat) (hd : 0 < d) : AState → List Nat → List AOp → Prop
  | _, _, [] => True
  | s, ref, op :: ops =>
    op.pre s.lt ref ∧
    ∀ s' out, s.step d hd op = some (s', out) → AValid d hd s' (arefStep ref op out) ops

/-- **all histories of the addressable heap**: every valid history runs without any out-of-bounds
access, and ends in a consistent state (`handles_` = inverse of `heap_`) in heap order that stores
exactly the reference key set -/
theorem addr_history (d : Nat) (hd : 0 < d) (ops : List AOp) (s : AState) (ref : List Nat)
    (hinv : AInvS d s ref) (hvalid : AValid d hd s ref ops) :
    ∃ s' ref', AInvS d s' ref' ∧
      (ops.foldlM (fun (st : AState × List Nat) op =>
          (st.1.step d hd op).map fun r => (r.1, arefStep st.2 op r.2)) (s, ref)) = some (s', ref') := by
  induction ops generalizing s ref with
  | nil => exact ⟨s, ref, hinv, rfl⟩
  | cons op ops ih =>
    obtain ⟨hpre, hrest⟩ := hvalid
    obtain ⟨s1, out, e1, i1, _, _⟩ := addr_step d hd s ref op hinv hpre
    obtain ⟨s', ref', i2, e2⟩ := ih s1 (arefStep ref op out) i1 (hrest s1 out e1)
    refine ⟨s', ref', i2, ?_⟩
    simp only [List.foldlM_cons, e1, Option.map_some, Option.bind_eq_bind, Option.bind_some]
    exact e2

theorem ainv_init (d : Nat) (lt : Nat → Nat → Bool) (wo : WeakOrd lt) : AInvS d ⟨lt, {}⟩ [] :=
  ⟨wo, ⟨fun i hi => absurd hi (by simp), fun i hi => absurd hi (by simp),
    fun key pos hk => by simp at hk⟩, fun i hi => absurd hi (by simp), by simp⟩


/-! ## Part 3: `RadixHeap` — IntegerRank and BucketComputation

Proved for every key width, signedness and radix `2^rb` (`rb ≥ 1`):
the rank is order preserving and invertible; the bucket function (as written in the C++ code, after
the fix of the 8/16-bit promotion defect) puts exactly the keys equal to the insertion limit into
bucket 0, is monotone in the key, gives every bucket of the first row a single key, keeps the bucket
of every key of a later bucket when the limit is raised to a key of an earlier bucket, and sends
every key of the reorganised bucket to a strictly earlier bucket. On top of these
(`Proofs/C13RadixHeap.lean`: invariant `RInv`, `insert_spec`, `redistribute_spec`, `reorganize_spec`,
`push/top/pop/swap/peak_spec`; `Proofs/C13BitArr.lean`: `find_lsb` of the two-level bit array is the
least set index) the state machine is proved: `radix_heap_correct` at the end of this file. -/

/-- **IntegerRank is order preserving** -/
theorem radix_rank_order (c : RCfg) (hw : 0 < c.w) (a b : BitVec c.w) :
    (rankOfInt c a).toNat < (rankOfInt c b).toNat ↔ keyVal c a < keyVal c b := rank_lt_iff c hw a b

/-- **`int_at_rank` inverts `rank_of_int`** -/
theorem radix_rank_inverse (c : RCfg) (k : BitVec c.w) :
    intAtRank c (rankOfInt c k) = k ∧ rankOfInt c (intAtRank c k) = k :=
  ⟨intAtRank_rankOfInt c k, rankOfInt_intAtRank c k⟩

/-- **bucket 0 ⇔ key = insertion limit** -/
theorem radix_bucket_zero (c : RCfg) (hrb : 0 < c.rb) (x lim : BitVec c.w) (h : lim.toNat ≤ x.toNat) :
    bucketOf c x lim = 0 ↔ x = lim := bucketOf_eq_zero_iff c hrb x lim h

/-- **the bucket index is monotone in the key** -/
theorem radix_bucket_mono (c : RCfg) (hrb : 0 < c.rb) (lim x y : BitVec c.w)
    (h1 : lim.toNat ≤ x.toNat) (h2 : x.toNat ≤ y.toNat) : bucketOf c x lim ≤ bucketOf c y lim := by
  rw [bucketOf_eq, bucketOf_eq]; exact bucketNat_mono c.rb _ _ _ hrb h1 h2

/-- **a bucket of the first row (index < Radix) holds a single key** -/
theorem radix_bucket_row0 (c : RCfg) (hrb : 0 < c.rb) (lim x y : BitVec c.w)
    (h1 : lim.toNat ≤ x.toNat) (h2 : lim.toNat ≤ y.toNat)
    (hb : bucketOf c x lim = bucketOf c y lim) (h0 : bucketOf c x lim < c.radix) : x = y := by
  rw [bucketOf_eq, bucketOf_eq] at hb
  rw [bucketOf_eq] at h0
  exact BitVec.eq_of_toNat_eq (bucketNat_row0_inj c.rb _ _ _ hrb h1 h2 hb h0)

/-- **raising the limit to a key of an earlier bucket leaves later buckets alone** -/
theorem radix_bucket_stable (c : RCfg) (hrb : 0 < c.rb) (lim m x : BitVec c.w)
    (h1 : lim.toNat ≤ m.toNat) (h2 : m.toNat ≤ x.toNat) (hb : bucketOf c m lim < bucketOf c x lim) :
    bucketOf c x m = bucketOf c x lim := by
  rw [bucketOf_eq, bucketOf_eq] at hb
  rw [bucketOf_eq, bucketOf_eq]
  exact bucketNat_stable c.rb _ _ _ hrb h1 h2 hb

/-- **`reorganize_()` moves every key of the consumed bucket strictly forward** -/
theorem radix_bucket_redistribute (c : RCfg) (hrb : 0 < c.rb) (lim m x : BitVec c.w)
    (h1 : lim.toNat ≤ m.toNat) (h2 : m.toNat ≤ x.toNat)
    (hb : bucketOf c x lim = bucketOf c m lim) (hrow : c.radix ≤ bucketOf c m lim) :
    bucketOf c x m < bucketOf c m lim := by
  rw [bucketOf_eq, bucketOf_eq] at hb
  rw [bucketOf_eq] at hrow
  rw [bucketOf_eq, bucketOf_eq]
  exact bucketNat_redistribute c.rb _ _ _ hrb h1 h2 hb hrow

-- non-vacuity: Radix 8, 16-bit signed keys: -32768 has rank 0, 32767 the maximal rank;
-- with limit rank 0x8000 (key 0) the key 9 (rank 0x8009) is in row 1, bucket 8 + 1 - 1
example : rankOfInt ⟨16, true, 3⟩ (BitVec.ofInt 16 (-32768)) = 0#16 ∧
    rankOfInt ⟨16, true, 3⟩ (BitVec.ofInt 16 32767) = 0xFFFF#16 ∧
    bucketOf ⟨16, true, 3⟩ 0x8009#16 0x8000#16 = 8 := by decide

/-! #### the radix heap as a state machine -/

inductive ROp (c : RCfg) where
  | push (k : BitVec c.w) (payload : Nat)
  | pushb (k : BitVec c.w) (payload : Nat)   -- push_to_bucket / emplace_in_bucket with idx = get_bucket_key(k)
  | top | pop | swap | peak | clear

/-- `v` is stored and no stored element has a smaller rank -/
def IsMin (c : RCfg) (ref : List (RVal c.w)) (v : RVal c.w) : Prop :=
  v ∈ ref ∧ ∀ u ∈ ref, (rankOfInt c v.1).toNat ≤ (rankOfInt c u.1).toNat

/-- "the history `ops` runs correctly from heap `h` holding the multiset `ref`, the key most recently
reported by top/pop/swap_top_bucket being `frontier`" — pushes below the frontier and extractions
from an empty heap are outside the documented discipline and impose nothing -/
def RadixRuns (c : RCfg) : RH c → Option (BitVec c.w) → List (RVal c.w) → List (ROp c) → Prop
  | h, _, ref, [] => h.size = ref.length
  | h, fr, ref, .push k p :: ops =>
    (∀ f, fr = some f → f.toNat ≤ (rankOfInt c k).toNat) →
      ∃ h' idx, h.push (k, p) = some (h', idx) ∧ RadixRuns c h' fr ((k, p) :: ref) ops
  | h, fr, ref, .pushb k p :: ops =>
    (∀ f, fr = some f → f.toNat ≤ (rankOfInt c k).toNat) →
      ∃ h', h.pushToBucket (h.getBucketKey k) (k, p) = some h' ∧ RadixRuns c h' fr ((k, p) :: ref) ops
  | h, _, ref, .top :: ops =>
    ref ≠ [] → ∃ h' v, h.top = some (h', v) ∧ IsMin c ref v ∧ RadixRuns c h' (some (rankOfInt c v.1)) ref ops
  | h, _, ref, .pop :: ops =>
    ref ≠ [] → ∃ h' v, h.pop = some (h', v) ∧ IsMin c ref v ∧
      RadixRuns c h' (some (rankOfInt c v.1)) (ref.erase v) ops
  | h, _, ref, .swap :: ops =>
    ref ≠ [] → ∃ h' b v, h.swapTopBucket = some (h', b) ∧ v ∈ b ∧ (∀ u ∈ b, IsMin c ref u) ∧
      RadixRuns c h' (some (rankOfInt c v.1)) (b.toList.foldl List.erase ref) ops
  | h, fr, ref, .peak :: ops =>
    ref ≠ [] → ∃ k v, h.peakTopKey = some k ∧ IsMin c ref v ∧ v.1 = k ∧ RadixRuns c h fr ref ops
  | h, _, _, .clear :: ops => RadixRuns c h.clear none [] ops

private theorem perm_foldl_erase {α : Type} [BEq α] [LawfulBEq α] (l r ref : List α) (h : (l ++ r).Perm ref) :
    r.Perm (l.foldl List.erase ref) := by
  induction l generalizing ref with
  | nil => simpa using h
  | cons x l' ih =>
    simp only [List.foldl_cons]
    apply ih
    have hx : x ∈ ref := h.subset (by simp)
    have h1 : (x :: (l' ++ r)).Perm (x :: ref.erase x) := h.trans (List.perm_cons_erase hx)
    exact (List.perm_cons x).mp h1

/-- **every monotone history of the radix heap runs correctly**, from any state satisfying the
invariant `RInv` (bucket placement, `mins_`, `filled_`, nothing before `current_bucket_`): no
operation fails, `top/pop/swap_top_bucket/peak_top_key` report stored elements of minimal rank, the
stored multiset and `size_` follow the reference -/
theorem radix_runs (c : RCfg) (hrb : 0 < c.rb) (hrb6 : c.rb ≤ 6) (hle : c.rb ≤ c.w) (hw : c.w ≤ 64)
    (ops : List (ROp c)) (h : RH c) (fr : Option (BitVec c.w)) (ref : List (RVal c.w))
    (hi : RInv c h fr) (hp : h.contents.Perm ref) : RadixRuns c h fr ref ops := by
  induction ops generalizing h fr ref with
  | nil =>
    simp only [RadixRuns]
    rw [hi.cnt, hp.length_eq]
  | cons op ops ih =>
    have hne : ref ≠ [] → h.contents ≠ [] := by
      intro hr e; rw [e] at hp; exact hr (by simpa using hp.symm)
    cases op with
    | push k p =>
      simp only [RadixRuns]
      intro hfr
      obtain ⟨h', idx, e1, e2, e3⟩ := push_spec hrb h fr hi (k, p) hfr
      exact ⟨h', idx, e1, ih h' fr _ e2 (e3.trans (List.Perm.cons _ hp))⟩
    | pushb k p =>
      simp only [RadixRuns]
      intro hfr
      obtain ⟨h', e1, e2, e3⟩ := pushHint_spec hrb h fr hi (k, p) hfr
      exact ⟨h', e1, ih h' fr _ e2 (e3.trans (List.Perm.cons _ hp))⟩
    | top =>
      simp only [RadixRuns]
      intro hr
      obtain ⟨h', v, e1, e2, e3, e4, e5⟩ := top_spec hrb hle h fr hi (hne hr)
      have hp' : h'.contents.Perm ref := e3.trans hp
      exact ⟨h', v, e1, ⟨hp'.subset e4, fun u hu => e5 u (hp'.symm.subset hu)⟩, ih h' _ ref e2 hp'⟩
    | pop =>
      simp only [RadixRuns]
      intro hr
      obtain ⟨h', v, e1, e2, e3, e4⟩ := pop_spec hrb hle h fr hi (hne hr)
      have hv : v ∈ ref := hp.subset (e3.symm.subset (by simp))
      refine ⟨h', v, e1, ⟨hv, fun u hu => e4 u (hp.symm.subset hu)⟩, ih h' _ _ e2 ?_⟩
      have h1 : (v :: h'.contents).Perm (v :: ref.erase v) := (e3.symm.trans hp).trans (List.perm_cons_erase hv)
      exact (List.perm_cons v).mp h1
    | swap =>
      simp only [RadixRuns]
      intro hr
      obtain ⟨h', b, v, e1, e2, e3, e4, e5⟩ := swap_spec hrb hle h fr hi (hne hr)
      have hp' : (b.toList ++ h'.contents).Perm ref := e4.symm.trans hp
      refine ⟨h', b, v, e1, e2, ?_, ih h' _ _ e3 (perm_foldl_erase _ _ _ hp')⟩
      intro u hu
      exact ⟨hp'.subset (List.mem_append_left _ (Array.mem_toList_iff.mpr hu)),
        fun w hw' => e5 u hu w (hp.symm.subset hw')⟩
    | peak =>
      simp only [RadixRuns]
      intro hr
      obtain ⟨k, v, e1, e2, e3, e4⟩ := peak_spec hrb h fr hi (hne hr)
      exact ⟨k, v, e1, ⟨hp.subset e2, fun u hu => e4 u (hp.symm.subset hu)⟩, e3, ih h fr ref hi hp⟩
    | clear =>
      simp only [RadixRuns]
      obtain ⟨i1, i2⟩ := init_rinv c hrb hrb6 hw
      exact ih (RH.init c) none [] i1 (by rw [i2])

/-- **the radix heap theorem**: for every key width ≤ 64, signed or unsigned, every radix `2^rb`
(`1 ≤ rb ≤ 6`, `rb ≤ w`), every history of push/emplace/push_to_bucket/emplace_in_bucket (hint = get_bucket)/
top/pop/swap_top_bucket/peak_top_key/clear
in which no pushed key is below the key most recently reported by top/pop/swap_top_bucket runs
without failure on a fresh heap; the reported elements are minima and the size is exact -/
theorem radix_heap_correct (c : RCfg) (hrb : 0 < c.rb) (hrb6 : c.rb ≤ 6) (hle : c.rb ≤ c.w) (hw : c.w ≤ 64)
    (ops : List (ROp c)) : RadixRuns c (RH.init c) none [] ops := by
  obtain ⟨i1, i2⟩ := init_rinv c hrb hrb6 hw
  exact radix_runs c hrb hrb6 hle hw ops _ none [] i1 (by rw [i2])

-- non-vacuity: the harness configurations satisfy the hypotheses (Radix 64, 8-bit keys: rb = 6 ≤ w = 8)
example : RadixRuns ⟨8, true, 6⟩ (RH.init ⟨8, true, 6⟩) none []
    [.push 5#8 0, .pushb 0x80#8 1, .top, .pop, .pushb 5#8 2, .swap, .clear, .push 0xFF#8 3, .peak] :=
  radix_heap_correct ⟨8, true, 6⟩ (by decide) (by decide) (by decide) (by decide) _

end TlxVerif.C13
