import TlxVerif.Model.C14Spec
import TlxVerif.Model.C14Digests
import TlxVerif.Model.C14SipHash
/-!
# C14 — digests and SipHash equal their standards for every message and every chunking
-/
namespace TlxVerif.C14

/-! ## generated tables = tables of the standards (finite, `decide`) -/

theorem md5_tables :
    Gen.md5Worder = (List.range 64).map Spec.MD5.wordIndex ∧
    Gen.md5Rorder = (List.range 64).map Spec.MD5.shift ∧
    Gen.md5Korder = Spec.MD5.T ∧ Gen.md5Init = Spec.MD5.A0 ∧
    Gen.md5Loops = Model.MD5.loopsModelled := by decide

end TlxVerif.C14
