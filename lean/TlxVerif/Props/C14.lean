import TlxVerif.Proofs.C14Digest
import TlxVerif.Proofs.C14SipHash
import TlxVerif.Proofs.C14Constants
/-!
# C14 — digests and SipHash equal their standards for every message and every chunking

Structure of the argument for the four digest classes (details in `Proofs/C14*.lean`):

1. `digestOfChunks_eq` — the buffering state machine shared by the four classes (`process`,
   `finalize`, transliterated in `Model/C14Class.lean`; the translator checks that all four
   sources have this text) computes, for **every** partition of **every** message into
   `process()` calls and every stale content of `buf_`, the Merkle–Damgård iteration of the
   class' `compress` over the padded message.
2. `*_compress_eq` — each `xxx_compress` as written in the sources (table driven MD5 steps,
   SHA-1 loops with inline constants, SHA-256 with a rotating array, SHA-512 with unrolled
   rotated arguments) equals the compression function of RFC 1321 / FIPS 180-4; the tables
   are regenerated from the sources and compared with the standards' tables (`*_tables`).
   `Proofs/C14Constants.lean` shows that the SHA-2 tables of the specification are the
   cube / square root fractions FIPS 180-4 defines them to be.
3. here: padding and output forms, giving `md5_correct`, `sha1_correct`, `sha256_correct`,
   `sha512_correct`.
-/
namespace TlxVerif.C14

/-! ## the hex forms -/

theorem nibbles : ∀ n, n < 256 → (n &&& 240) >>> 4 = n / 16 ∧ n &&& 15 = n % 16 := by
  decide +kernel

theorem hexdumpWith_eq (digits : List Char) (bs : Bytes) :
    hexdumpWith digits bs = Spec.hex (String.ofList digits) bs := by
  unfold hexdumpWith Spec.hex
  congr 1
  induction bs with
  | nil => rfl
  | cons c bs ih =>
    have h := nibbles c.toNat c.isLt
    have h1 : ((c &&& 0xF0#8) >>> 4).toNat = c.toNat / 16 := by
      rw [BitVec.toNat_ushiftRight, BitVec.toNat_and]; exact h.1
    have h2 : (c &&& 0x0F#8).toNat = c.toNat % 16 := by
      rw [BitVec.toNat_and]; exact h.2
    simp only [List.flatMap_cons, ih, h1, h2]
    simp

theorem hex_tables : Gen.hexLower = "0123456789abcdef".toList ∧ Gen.hexUpper = "0123456789ABCDEF".toList := by
  decide

/-- `digest_hex()` / `digest_hex_uc()` render the digest bytes in lower / upper case hex -/
theorem hexLower_eq (d : Bytes) : Model.hexLower d = Spec.hex "0123456789abcdef" d := by
  unfold Model.hexLower; rw [hexdumpWith_eq, hex_tables.1]; rfl

theorem hexUpper_eq (d : Bytes) : Model.hexUpper d = Spec.hex "0123456789ABCDEF" d := by
  unfold Model.hexUpper; rw [hexdumpWith_eq, hex_tables.2]; rfl

/-! ## the four classes -/

/-- **MD5.** For every stale buffer content, every message and every way of splitting it into
    `process()` calls: `digest()` is the RFC 1321 digest, `digest_hex()` / `digest_hex_uc()` its
    lower / upper case hex form. -/
theorem md5_correct (buf0 : Bytes) (h0 : buf0.length = 64) (chunks : List Bytes) :
    digestOfChunks Model.MD5.params buf0 chunks = Spec.MD5.hash chunks.flatten ∧
    Model.hexLower (digestOfChunks Model.MD5.params buf0 chunks) = Spec.hex "0123456789abcdef" (Spec.MD5.hash chunks.flatten) ∧
    Model.hexUpper (digestOfChunks Model.MD5.params buf0 chunks) = Spec.hex "0123456789ABCDEF" (Spec.MD5.hash chunks.flatten) := by
  have h := digestOfChunks_eq Model.MD5.params md5_wf buf0 h0 chunks
  rw [md5_mdDigest] at h
  exact ⟨h, by rw [h, hexLower_eq], by rw [h, hexUpper_eq]⟩

/-- **SHA-1** (FIPS 180-4 §6.1), as `md5_correct`. -/
theorem sha1_correct (buf0 : Bytes) (h0 : buf0.length = 64) (chunks : List Bytes) :
    digestOfChunks Model.SHA1.params buf0 chunks = Spec.SHA1.hash chunks.flatten ∧
    Model.hexLower (digestOfChunks Model.SHA1.params buf0 chunks) = Spec.hex "0123456789abcdef" (Spec.SHA1.hash chunks.flatten) ∧
    Model.hexUpper (digestOfChunks Model.SHA1.params buf0 chunks) = Spec.hex "0123456789ABCDEF" (Spec.SHA1.hash chunks.flatten) := by
  have h := digestOfChunks_eq Model.SHA1.params sha1_wf buf0 h0 chunks
  rw [sha1_mdDigest] at h
  exact ⟨h, by rw [h, hexLower_eq], by rw [h, hexUpper_eq]⟩

/-- **SHA-256** (FIPS 180-4 §6.2), as `md5_correct`. -/
theorem sha256_correct (buf0 : Bytes) (h0 : buf0.length = 64) (chunks : List Bytes) :
    digestOfChunks Model.SHA256.params buf0 chunks = Spec.SHA256.hash chunks.flatten ∧
    Model.hexLower (digestOfChunks Model.SHA256.params buf0 chunks) = Spec.hex "0123456789abcdef" (Spec.SHA256.hash chunks.flatten) ∧
    Model.hexUpper (digestOfChunks Model.SHA256.params buf0 chunks) = Spec.hex "0123456789ABCDEF" (Spec.SHA256.hash chunks.flatten) := by
  have h := digestOfChunks_eq Model.SHA256.params sha256_wf buf0 h0 chunks
  rw [sha256_mdDigest] at h
  exact ⟨h, by rw [h, hexLower_eq], by rw [h, hexUpper_eq]⟩

/-- **SHA-512** (FIPS 180-4 §6.4) for messages of fewer than 2^64 bits: `length_` is a 64-bit
    counter and `finalize` writes zero bytes into the upper half of the 128-bit length field. -/
theorem sha512_correct (buf0 : Bytes) (h0 : buf0.length = 128) (chunks : List Bytes)
    (hlen : 8 * chunks.flatten.length < 2 ^ 64) :
    digestOfChunks Model.SHA512.params buf0 chunks = Spec.SHA512.hash chunks.flatten ∧
    Model.hexLower (digestOfChunks Model.SHA512.params buf0 chunks) = Spec.hex "0123456789abcdef" (Spec.SHA512.hash chunks.flatten) ∧
    Model.hexUpper (digestOfChunks Model.SHA512.params buf0 chunks) = Spec.hex "0123456789ABCDEF" (Spec.SHA512.hash chunks.flatten) := by
  have h := digestOfChunks_eq Model.SHA512.params sha512_wf buf0 h0 chunks
  rw [sha512_mdDigest _ hlen] at h
  exact ⟨h, by rw [h, hexLower_eq], by rw [h, hexUpper_eq]⟩

/-- **The `tlx::string_view` overloads** (`process(string_view)`, the `string_view` constructors and
    `xxx_hex(string_view)` helpers): the string is fed to `process(const void*, uint32)` in pieces
    that all fit the 32-bit size parameter (`svPieces_lt`), and the digest is again that of the
    standard for every list of strings of any length. -/
theorem string_view_correct (chunks : List Bytes) :
    (∀ p ∈ chunks.flatMap svPieces, p.length < 2 ^ 32) ∧
    (∀ b, b.length = 64 → (finalize Model.MD5.params (chunks.foldl (processSV Model.MD5.params) (Model.MD5.params.new b))).1 = Spec.MD5.hash chunks.flatten) ∧
    (∀ b, b.length = 64 → (finalize Model.SHA1.params (chunks.foldl (processSV Model.SHA1.params) (Model.SHA1.params.new b))).1 = Spec.SHA1.hash chunks.flatten) ∧
    (∀ b, b.length = 64 → (finalize Model.SHA256.params (chunks.foldl (processSV Model.SHA256.params) (Model.SHA256.params.new b))).1 = Spec.SHA256.hash chunks.flatten) ∧
    (∀ b, b.length = 128 → 8 * chunks.flatten.length < 2 ^ 64 →
      (finalize Model.SHA512.params (chunks.foldl (processSV Model.SHA512.params) (Model.SHA512.params.new b))).1 = Spec.SHA512.hash chunks.flatten) := by
  refine ⟨?_, ?_, ?_, ?_, ?_⟩
  · intro p hp
    obtain ⟨c, _, hc⟩ := List.mem_flatMap.mp hp
    exact svPieces_lt c p hc
  · intro b hb; rw [digestOfChunksSV_eq _ md5_wf b hb, md5_mdDigest]
  · intro b hb; rw [digestOfChunksSV_eq _ sha1_wf b hb, sha1_mdDigest]
  · intro b hb; rw [digestOfChunksSV_eq _ sha256_wf b hb, sha256_mdDigest]
  · intro b hb hl; rw [digestOfChunksSV_eq _ sha512_wf b hb, sha512_mdDigest _ hl]

/-- Corollary in the words of the property: the digest does not depend on the chunking. -/
theorem chunking_independent {S : Type} (P : Params S) (hP : P.WF) (b1 b2 : Bytes)
    (h1 : b1.length = P.blockSize) (h2 : b2.length = P.blockSize) (c1 c2 : List Bytes)
    (h : c1.flatten = c2.flatten) : digestOfChunks P b1 c1 = digestOfChunks P b2 c2 := by
  rw [digestOfChunks_eq P hP b1 h1, digestOfChunks_eq P hP b2 h2, h]

/-- `buf_[curlen_++]` in `finalize` and the copy in `process` stay inside `buf_`: between any
    two calls `curlen_ < sizeof(buf_)` (all four classes) -/
theorem curlen_in_bounds (buf0 : Bytes) (chunks : List Bytes) :
    (buf0.length = 64 → (chunks.foldl (process Model.MD5.params) (Model.MD5.params.new buf0)).curlen < 64) ∧
    (buf0.length = 64 → (chunks.foldl (process Model.SHA1.params) (Model.SHA1.params.new buf0)).curlen < 64) ∧
    (buf0.length = 64 → (chunks.foldl (process Model.SHA256.params) (Model.SHA256.params.new buf0)).curlen < 64) ∧
    (buf0.length = 128 → (chunks.foldl (process Model.SHA512.params) (Model.SHA512.params.new buf0)).curlen < 128) :=
  ⟨fun h => curlen_lt _ md5_wf buf0 h chunks, fun h => curlen_lt _ sha1_wf buf0 h chunks,
   fun h => curlen_lt _ sha256_wf buf0 h chunks, fun h => curlen_lt _ sha512_wf buf0 h chunks⟩

/-- the padding length of the specifications really is "the smallest non-negative solution" -/
theorem padZeros_smallest (len : Nat) :
    ((len + 1 + Spec.padZeros 64 8 len) % 64 = 56 ∧ ∀ k, k < Spec.padZeros 64 8 len → (len + 1 + k) % 64 ≠ 56) ∧
    ((len + 1 + Spec.padZeros 128 16 len) % 128 = 112 ∧ ∀ k, k < Spec.padZeros 128 16 len → (len + 1 + k) % 128 ≠ 112) := by
  unfold Spec.padZeros
  refine ⟨⟨by omega, fun k hk => by omega⟩, ⟨by omega, fun k hk => by omega⟩⟩

/-! ## SipHash -/

/-- **siphash_plain** returns SipHash-2-4 (Aumasson–Bernstein) for every 16-byte key and every
    message; message and key are byte strings, so every alignment is covered by the model
    (the real code's alignment behaviour is exercised by the harness: offsets 0..15). -/
theorem siphash_plain_correct (key msg : Bytes) :
    Model.Sip.siphashPlain key msg = Spec.SipHash.hash key msg := siphashPlain_eq_spec key msg

/-- **portable = vectorised**, and both = SipHash-2-4.  `siphash()` dispatches to one of the
    two at compile time (`__SSE2__`), so the dispatching overloads are covered either way. -/
theorem siphash_sse2_correct (key msg : Bytes) :
    Model.Sip.siphashSSE2 key msg = Model.Sip.siphashPlain key msg ∧
    Model.Sip.siphashSSE2 key msg = Spec.SipHash.hash key msg :=
  ⟨siphashSSE2_eq_plain key msg, siphashSSE2_eq_spec key msg⟩

/-! ### non-vacuity: concrete evaluations of model and specification -/

example : Model.Sip.siphashSSE2 Gen.sipDefaultKey ((List.range 15).map (BitVec.ofNat 8)) = 0xa129ca6149be45e5#64 := by
  decide +kernel

example : Spec.SipHash.hash Gen.sipDefaultKey [] = 0x726fdb47dd0e0e31#64 := by decide +kernel


example : Model.hexLower (digestOfChunks Model.MD5.params (List.replicate 64 0xAA#8)
    [[0x61#8], [], [0x62#8, 0x63#8]]) = "900150983cd24fb0d6963f7d28e17f72" := by decide +kernel

example : Spec.hex "0123456789abcdef" (Spec.SHA256.hash [0x61#8, 0x62#8, 0x63#8]) =
    "ba7816bf8f01cfea414140de5dae2223b00361a396177a9cb410ff61f20015ad" := by decide +kernel

end TlxVerif.C14
