import TlxVerif.Model.C05Merge
import TlxVerif.Gen.C05MergeTables
namespace TlxVerif.C05
theorem placeholder : Gen.merge3.n = 3 := rfl
end TlxVerif.C05
