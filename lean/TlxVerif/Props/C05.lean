/-
C05 — multiway_merge emits the smallest elements in order, stably, advancing inputs.

Layers (DESIGN §6 C05):
  L0  `MergeSpec`: the property of one call, and `run_spec`: every run satisfies it
      (sorted inputs, strict weak order).  The stable merge `kMerge` is the iterated stable
      binary merge `List.merge`, i.e. the order (key, sequence index, position).
  L1  `StableRun` / `MinRun` (Proofs/C05Spec.lean): emitting a minimal head — the lowest index
      among equivalents for the stable run — `n` times; stable runs are unique and exist.
  L2  every algorithm of the model `Model/C05Merge.lean` is a run, for all inputs:
      `merge_advance` (k=2); the 3- and 4-way machines with guarded iterators, with unguarded
      iterators + sentinels, and in the combined variants (via the *generated* tables,
      `merge3_tableOK`/`merge4_tableOK`, and the `prepare_unguarded` invariant); bubble; the
      guarded / unguarded / combined / sentinel loser tree merges (via C09), copy and pointer trees.
  L3  `multiwayMergeBase_run` / `multiwayMergeBase_spec`: the `multiway_merge_base` switch, every
      k, every algorithm, `Stable` x `Sentinels`.
-/
import TlxVerif.Gen.C05MergeTables
import TlxVerif.Proofs.C05MergeAdvance
import TlxVerif.Proofs.C05LoserTree
import TlxVerif.Proofs.C05Machine
import TlxVerif.Proofs.C05Combined
import TlxVerif.Proofs.C05CombinedLT
import TlxVerif.Proofs.C05SentinelLT
import TlxVerif.Proofs.C05Bubble
namespace TlxVerif.C05
open TlxVerif.C09 (SWO)

variable {α : Type}

/-! ### translator-based theorems about the 3- and 4-way merges -/

/-- Every comparison written in `multiway_merge_3_variant` (entry tree and all `TLX_MERGE3CASE`
rows, as extracted from the source on this run) uses the operator the stable order requires,
every label jumped to exists, and for each of the possible orders of the heads the jumps lead to
the label that lists the sequences in that order. -/
theorem merge3_tableOK : tableOK Gen.merge3 = true := by decide

/-- the same for `multiway_merge_4_variant` (24 rows, `TLX_DECISION`, 64 head orders) -/
theorem merge4_tableOK : tableOK Gen.merge4 = true := by decide +kernel

/-- the row part on its own: in row `(a, b, c, c0, c1)` operator `c_j` is `<=` iff `a` has a smaller
index than the sequence it is compared with -/
theorem merge3_rows_ops : ∀ row ∈ Gen.merge3.rows,
    bodyRuleOK row.perm row.ops Gen.merge3.body.tests = true := by decide

theorem merge4_rows_ops : ∀ row ∈ Gen.merge4.rows,
    bodyRuleOK row.perm row.ops Gen.merge4.body.tests = true := by decide

/-! ### L0: what a run delivers -/

/-- the property of C05 for one call: inputs `ins`, `n` elements requested; `out` = what was
written to the target (the returned iterator is `target + out.length`), `fin` = the inputs as the
advanced iterator pairs describe them afterwards -/
structure MergeSpec (stable : Bool) (lt : α → α → Bool) (ins : List (List α)) (n : Nat) (out : List α)
    (fin : List (List α)) : Prop where
  /-- exactly `n` elements are written -/
  length : out.length = n
  /-- in non-decreasing order -/
  sorted : Sorted lt out
  /-- they are the smallest ones: nothing left behind is less than anything written -/
  smallest : ∀ x ∈ out, ∀ y ∈ fin.flatten, lt y x = false
  /-- written + left behind = input -/
  perm : (out ++ fin.flatten).Perm ins.flatten
  /-- every input's begin is just past the elements taken from it (a prefix, which appears in the
  output in its original order) -/
  advanced : fin.length = ins.length ∧ ∀ (i : Nat) (s : List α), ins[i]? = some s →
    ∃ taken f, fin[i]? = some f ∧ s = taken ++ f ∧ taken.Sublist out
  /-- stable variants: the output is the first `n` elements of the stable merge, and what is left
  merges to the remainder -/
  stable : stable = true → out = (kMerge lt ins).take n ∧ kMerge lt ins = out ++ kMerge lt fin

/-- **L1.** every run meets the specification -/
theorem run_spec {lt : α → α → Bool} (hlt : SWO lt) {stable : Bool} {ins fin : List (List α)} {n : Nat}
    {out : List α} (hs : ∀ s ∈ ins, Sorted lt s) (h : Run stable lt ins n out fin) :
    MergeSpec stable lt ins n out fin := by
  have hm := h.minRun
  obtain ⟨s1, s2, _⟩ := hm.sorted hlt hs
  exact { length := hm.length.1, sorted := s1, smallest := s2, perm := hm.perm,
          advanced := ⟨hm.length.2, hm.taken⟩,
          stable := fun hst => by
            subst hst
            have hr : StableRun lt ins n out fin := h
            exact ⟨hr.out_eq_take, hr.kMerge_eq⟩ }

/-- the stable merge is what it should be: sorted and a rearrangement of all inputs -/
theorem kMerge_spec {lt : α → α → Bool} (hlt : SWO lt) (ins : List (List α)) (hs : ∀ s ∈ ins, Sorted lt s) :
    Sorted lt (kMerge lt ins) ∧ (kMerge lt ins).Perm ins.flatten :=
  ⟨kMerge_sorted hlt ins hs, kMerge_perm lt ins⟩

/-- the specification is total and unambiguous: for every `n ≤ total` there is exactly one stable run -/
theorem stableRun_exists_unique {lt : α → α → Bool} (hlt : SWO lt) (ins : List (List α)) (n : Nat)
    (hn : n ≤ ins.flatten.length) :
    ∃ out fin, StableRun lt ins n out fin ∧ ∀ out' fin', StableRun lt ins n out' fin' → out' = out ∧ fin' = fin := by
  obtain ⟨out, fin, h⟩ := exists_stableRun hlt n ins hn
  exact ⟨out, fin, h, fun out' fin' h' => h'.unique h⟩

/-! ### L2: algorithms -/

theorem StableRun.run {lt : α → α → Bool} {a b : List (List α)} {n : Nat} {o : List α}
    (h : StableRun lt a n o b) (stable : Bool) : Run stable lt a n o b := by
  unfold Run
  cases stable with
  | true => exact h
  | false => exact h.minRun

/-- `merge_advance` (k = 2) -/
theorem mergeAdvance_spec {lt : α → α → Bool} (hlt : SWO lt) (xs ys : List α) (n : Nat)
    (hn : n ≤ xs.length + ys.length) (hx : Sorted lt xs) (hy : Sorted lt ys) :
    ∃ a b o, mergeAdvance lt xs ys n = some (a, b, o) ∧ MergeSpec true lt [xs, ys] n o [a, b] := by
  obtain ⟨a, b, o, he, hr⟩ := mergeAdvance_run hlt xs ys n hn
  exact ⟨a, b, o, he, run_spec hlt (fun s hs => by simp at hs; rcases hs with h | h <;> rw [h] <;> assumption) hr⟩

/-- 3-way merge with end-guards (`multiway_merge_3_variant<guarded_iterator>`), any inputs -/
theorem merge3_guarded_run {lt : α → α → Bool} (hlt : SWO lt) (seqs : List (Seq α)) (size : Nat)
    (hn : seqs.length = 3) (hsize : size ≤ (xsOf seqs).flatten.length) :
    ∃ fin out, machineMerge true lt Gen.merge3 seqs size = some (fin, out) ∧
      StableRun lt (xsOf seqs) size out (xsOf fin) ∧ guardsOf fin = guardsOf seqs :=
  have ⟨fin, out, h1, h2, h3, _⟩ := machineMerge_run hlt true merge3_tableOK (fun _ _ => True)
    (fun _ _ _ h => by cases h) (fun _ _ _ _ _ _ _ _ _ _ => trivial) seqs size hn trivial hsize
  ⟨fin, out, h1, h2, h3⟩

theorem merge4_guarded_run {lt : α → α → Bool} (hlt : SWO lt) (seqs : List (Seq α)) (size : Nat)
    (hn : seqs.length = 4) (hsize : size ≤ (xsOf seqs).flatten.length) :
    ∃ fin out, machineMerge true lt Gen.merge4 seqs size = some (fin, out) ∧
      StableRun lt (xsOf seqs) size out (xsOf fin) ∧ guardsOf fin = guardsOf seqs :=
  have ⟨fin, out, h1, h2, h3, _⟩ := machineMerge_run hlt true merge4_tableOK (fun _ _ => True)
    (fun _ _ _ h => by cases h) (fun _ _ _ _ _ _ _ _ _ _ => trivial) seqs size hn trivial hsize
  ⟨fin, out, h1, h2, h3⟩

/-- every sequence is followed by an element greater than all real ones -/
abbrev Sentinels (lt : α → α → Bool) (seqs : List (Seq α)) : Prop := SentinelsP lt seqs

/-- 3- and 4-way merge without end-guards on sequences with sentinels (`*_sentinels` entry points with
`MWMA_LOSER_TREE_SENTINEL`): never reads behind a sentinel, never emits one, stable run -/
theorem merge3_sentinel_run {lt : α → α → Bool} (hlt : SWO lt) (seqs : List (Seq α)) (size : Nat)
    (hn : seqs.length = 3) (hsize : size ≤ (xsOf seqs).flatten.length) (hsen : Sentinels lt seqs) :
    ∃ fin out, machineMerge false lt Gen.merge3 seqs size = some (fin, out) ∧
      StableRun lt (xsOf seqs) size out (xsOf fin) ∧ guardsOf fin = guardsOf seqs :=
  have ⟨fin, out, h1, h2, h3, _⟩ := machineMerge_run hlt false merge3_tableOK (fun seqs _ => SentinelsP lt seqs)
    (fun _ _ h => h.viewsOK false) (fun _ _ _ _ _ _ h hs hx _ => h.set hs hx) seqs size hn hsen hsize
  ⟨fin, out, h1, h2, h3⟩

theorem merge4_sentinel_run {lt : α → α → Bool} (hlt : SWO lt) (seqs : List (Seq α)) (size : Nat)
    (hn : seqs.length = 4) (hsize : size ≤ (xsOf seqs).flatten.length) (hsen : Sentinels lt seqs) :
    ∃ fin out, machineMerge false lt Gen.merge4 seqs size = some (fin, out) ∧
      StableRun lt (xsOf seqs) size out (xsOf fin) ∧ guardsOf fin = guardsOf seqs :=
  have ⟨fin, out, h1, h2, h3, _⟩ := machineMerge_run hlt false merge4_tableOK (fun seqs _ => SentinelsP lt seqs)
    (fun _ _ h => h.viewsOK false) (fun _ _ _ _ _ _ h hs hx _ => h.set hs hx) seqs size hn hsen hsize
  ⟨fin, out, h1, h2, h3⟩

/-- guarded loser tree merge, every `1 ≤ k ≤ 2^31`, copy and pointer trees, stable and unstable -/
theorem loserTree_run {lt : α → α → Bool} (hlt : SWO lt) (copy stable : Bool) (dflt : α)
    (seqs : List (Seq α)) (size : Nat) (hk1 : 1 ≤ seqs.length) (hk : seqs.length ≤ 2 ^ 31) :
    ∃ fin out, multiwayMergeLoserTree copy stable lt dflt seqs size = some (fin, out) ∧
      Run stable lt (xsOf seqs) (min size (xsOf seqs).flatten.length) out (xsOf fin) ∧
      guardsOf fin = guardsOf seqs :=
  multiwayMergeLoserTree_run hlt copy stable dflt seqs size hk1 hk

/-! ### L3: the `multiway_merge_base` switch -/

theorem stableRun_single (lt : α → α → Bool) (hirr : ∀ a, lt a a = false) : ∀ (m : Nat) (a : List α),
    m ≤ a.length → StableRun lt [a] m (a.take m) [a.drop m]
  | 0, a, _ => by simpa using StableRun.done [a]
  | m + 1, [], h => by simp at h
  | m + 1, x :: a, h => by
    have ih := stableRun_single lt hirr m a (by simpa using h)
    have hm : IsStableMin lt [x :: a] 0 x a := by
      refine ⟨⟨rfl, fun j y q' hj => ?_⟩, fun j y q' hji _ => by omega⟩
      match j, hj with
      | 0, hj => simp at hj; rw [← hj.1]; exact hirr x
      | j + 1, hj => simp at hj
    simpa using StableRun.emit hm (by simpa using ih)

/-- the combined variants for k = 3, 4 (the default algorithm) on the generated tables -/
theorem merge3_combined_run {lt : α → α → Bool} (hlt : SWO lt) (seqs : List (Seq α)) (size : Nat)
    (hn : seqs.length = 3) (hsorted : ∀ l ∈ xsOf seqs, Sorted lt l) (hsize : size ≤ (xsOf seqs).flatten.length) :
    ∃ fin out, multiwayMerge3Combined lt Gen.merge3 seqs size = some (fin, out) ∧
      StableRun lt (xsOf seqs) size out (xsOf fin) ∧ guardsOf fin = guardsOf seqs :=
  multiwayMerge3Combined_run hlt merge3_tableOK rfl seqs size hn hsorted hsize

theorem merge4_combined_run {lt : α → α → Bool} (hlt : SWO lt) (seqs : List (Seq α)) (size : Nat)
    (hn : seqs.length = 4) (hsorted : ∀ l ∈ xsOf seqs, Sorted lt l) (hsize : size ≤ (xsOf seqs).flatten.length) :
    ∃ fin out, multiwayMerge4Combined lt Gen.merge3 Gen.merge4 seqs size = some (fin, out) ∧
      StableRun lt (xsOf seqs) size out (xsOf fin) ∧ guardsOf fin = guardsOf seqs :=
  multiwayMerge4Combined_run hlt merge3_tableOK rfl merge4_tableOK rfl seqs size hn hsorted hsize

/-- **multiway_merge_base — every entry point, every algorithm.**  For every number of sequences
`k ≤ 2^31` (empty ones anywhere), sorted by a strict weak order, every `size ≤ total`, every
`MultiwayMergeAlgorithm`, `Stable` and `Sentinels` setting and both element-size classes (copy /
pointer loser trees): the call is defined — it reads no element outside a sequence or its
sentinel, copies nothing beyond an end, trips no assertion, writes exactly `size` elements — and
performs a run of length `size`: the stable run when `Stable` (and in fact for every `k ≤ 4`),
a minimal-head run otherwise; what is stored behind the sequences is left as it was. -/
theorem multiwayMergeBase_run {lt : α → α → Bool} (hlt : SWO lt) (copy stable sentinels : Bool) (dflt : α)
    (seqs : List (Seq α)) (size : Nat) (mwma : Algo)
    (hsize : size ≤ (xsOf seqs).flatten.length) (hk : seqs.length ≤ 2 ^ 31)
    (hsorted : ∀ l ∈ xsOf seqs, Sorted lt l)
    (hsen : sentinels = true → Sentinels lt seqs) :
    ∃ fin out, multiwayMergeBase Gen.merge3 Gen.merge4 copy stable sentinels lt dflt seqs size mwma = some (fin, out) ∧
      Run stable lt (xsOf seqs) size out (xsOf fin) ∧ guardsOf fin = guardsOf seqs := by
  unfold multiwayMergeBase
  -- the algorithm actually used
  have halgo : ∀ a : Algo, (if (!sentinels && decide (mwma = Algo.loserTreeSentinel)) = true then Algo.loserTreeCombined else mwma) = a →
      a = .loserTreeSentinel → sentinels = true := by
    intro a ha hs
    cases hsn : sentinels with
    | true => rfl
    | false =>
      exfalso
      by_cases hm : mwma = Algo.loserTreeSentinel
      · simp [hsn, hm] at ha; rw [← ha] at hs; cases hs
      · simp [hsn, hm] at ha; rw [← ha] at hs; exact hm hs
  generalize hA : (if (!sentinels && decide (mwma = Algo.loserTreeSentinel)) = true then Algo.loserTreeCombined else mwma) = algo
  have hsent := halgo algo hA
  match seqs, hsize, hk, hsorted, hsen with
  | [], hsize, _, _, _ =>
    have : size = 0 := by simpa [xsOf] using hsize
    subst this
    exact ⟨[], [], rfl, Run.done stable lt _, rfl⟩
  | [s], hsize, _, _, _ =>
    have hs : size ≤ s.xs.length := by simpa [xsOf] using hsize
    refine ⟨[{ s with xs := s.xs.drop size }], s.xs.take size, by simp [copyN, hs], ?_, rfl⟩
    exact (stableRun_single lt hlt.irrefl size s.xs hs).run stable
  | [s1, s2], hsize, _, _, _ =>
    have hs : size ≤ s1.xs.length + s2.xs.length := by simpa [xsOf] using hsize
    obtain ⟨a, b, o, he, hr⟩ := mergeAdvance_run hlt s1.xs s2.xs size hs
    exact ⟨[{ s1 with xs := a }, { s2 with xs := b }], o, by simp [he], hr.run stable, rfl⟩
  | [s1, s2, s3], hsize, _, hsorted, hsen =>
    cases algo with
    | loserTreeCombined =>
      obtain ⟨fin, out, he, hr, hg⟩ := merge3_combined_run hlt [s1, s2, s3] size rfl hsorted hsize
      exact ⟨fin, out, by simpa using he, hr.run stable, hg⟩
    | loserTreeSentinel =>
      obtain ⟨fin, out, he, hr, hg⟩ := merge3_sentinel_run hlt [s1, s2, s3] size rfl hsize (hsen (hsent rfl))
      exact ⟨fin, out, by simpa using he, hr.run stable, hg⟩
    | loserTree =>
      obtain ⟨fin, out, he, hr, hg⟩ := merge3_guarded_run hlt [s1, s2, s3] size rfl hsize
      exact ⟨fin, out, by simpa using he, hr.run stable, hg⟩
    | bubble =>
      obtain ⟨fin, out, he, hr, hg⟩ := merge3_guarded_run hlt [s1, s2, s3] size rfl hsize
      exact ⟨fin, out, by simpa using he, hr.run stable, hg⟩
  | [s1, s2, s3, s4], hsize, _, hsorted, hsen =>
    cases algo with
    | loserTreeCombined =>
      obtain ⟨fin, out, he, hr, hg⟩ := merge4_combined_run hlt [s1, s2, s3, s4] size rfl hsorted hsize
      exact ⟨fin, out, by simpa using he, hr.run stable, hg⟩
    | loserTreeSentinel =>
      obtain ⟨fin, out, he, hr, hg⟩ := merge4_sentinel_run hlt [s1, s2, s3, s4] size rfl hsize (hsen (hsent rfl))
      exact ⟨fin, out, by simpa using he, hr.run stable, hg⟩
    | loserTree =>
      obtain ⟨fin, out, he, hr, hg⟩ := merge4_guarded_run hlt [s1, s2, s3, s4] size rfl hsize
      exact ⟨fin, out, by simpa using he, hr.run stable, hg⟩
    | bubble =>
      obtain ⟨fin, out, he, hr, hg⟩ := merge4_guarded_run hlt [s1, s2, s3, s4] size rfl hsize
      exact ⟨fin, out, by simpa using he, hr.run stable, hg⟩
  | s1 :: s2 :: s3 :: s4 :: s5 :: rest, hsize, hk, hsorted, hsen =>
    cases algo with
    | bubble =>
      obtain ⟨fin, out, he, hr, hg⟩ := multiwayMergeBubble_run hlt stable (s1 :: s2 :: s3 :: s4 :: s5 :: rest) size hsize
      exact ⟨fin, out, by simpa using he, hr, hg⟩
    | loserTree =>
      obtain ⟨fin, out, he, hr, hg⟩ := loserTree_run hlt copy stable dflt (s1 :: s2 :: s3 :: s4 :: s5 :: rest) size
        (by simp) hk
      rw [Nat.min_eq_left hsize] at hr
      exact ⟨fin, out, by simpa using he, hr, hg⟩
    | loserTreeCombined =>
      obtain ⟨fin, out, he, hr, hg⟩ := multiwayMergeLoserTreeCombined_run hlt copy stable dflt
        (s1 :: s2 :: s3 :: s4 :: s5 :: rest) size (by simp) hk hsorted hsize
      exact ⟨fin, out, by simpa using he, hr, hg⟩
    | loserTreeSentinel =>
      obtain ⟨fin, out, he, hr, hg⟩ := multiwayMergeLoserTreeSentinel_run hlt copy stable dflt
        (s1 :: s2 :: s3 :: s4 :: s5 :: rest) size (by simp) hk (hsen (hsent rfl)) hsize
      exact ⟨fin, out, by simpa using he, hr, hg⟩

/-- **C05.**  The property, for the model of every entry point and algorithm: see `MergeSpec`. -/
theorem multiwayMergeBase_spec {lt : α → α → Bool} (hlt : SWO lt) (copy stable sentinels : Bool) (dflt : α)
    (seqs : List (Seq α)) (size : Nat) (mwma : Algo)
    (hsize : size ≤ (xsOf seqs).flatten.length) (hk : seqs.length ≤ 2 ^ 31)
    (hsorted : ∀ l ∈ xsOf seqs, Sorted lt l)
    (hsen : sentinels = true → Sentinels lt seqs) :
    ∃ fin out, multiwayMergeBase Gen.merge3 Gen.merge4 copy stable sentinels lt dflt seqs size mwma = some (fin, out) ∧
      MergeSpec stable lt (xsOf seqs) size out (xsOf fin) ∧ guardsOf fin = guardsOf seqs := by
  obtain ⟨fin, out, h1, h2, h3⟩ := multiwayMergeBase_run hlt copy stable sentinels dflt seqs size mwma hsize hk hsorted hsen
  exact ⟨fin, out, h1, run_spec hlt hsorted h2, h3⟩

/-! ### non-vacuity -/

/-- `run_spec` on a concrete stable run: three sorted sequences with duplicates, one empty -/
example : ∃ out fin, StableRun (fun a b : Nat => decide (a < b)) [[1, 1, 4], [], [1, 2]] 4 out fin :=
  exists_stableRun C09.swo_nat 4 _ (by decide)

example : kMerge (fun a b : Nat × Nat => decide (a.1 < b.1)) [[(1, 0), (1, 1), (4, 2)], [], [(1, 3), (2, 4)]]
    = [(1, 0), (1, 1), (1, 3), (2, 4), (4, 2)] := by
  simp [kMerge, leOf, List.nil_merge, List.merge_right]

/-- the hypotheses of `multiwayMergeBase_spec` are satisfiable: five sorted sequences with
duplicates and an empty one, sentinels behind them -/
example : ∃ fin out, multiwayMergeBase Gen.merge3 Gen.merge4 true true true (fun a b : Nat => decide (a < b)) 0
    [{ xs := [1, 2], guard := some 9 }, { xs := [], guard := some 9 }, { xs := [2, 5], guard := some 9 },
     { xs := [1, 1], guard := some 9 }, { xs := [0, 8], guard := some 9 }] 6 .loserTreeSentinel = some (fin, out) ∧
    MergeSpec true (fun a b : Nat => decide (a < b))
      [[1, 2], [], [2, 5], [1, 1], [0, 8]] 6 out (xsOf fin) := by
  obtain ⟨fin, out, h1, h2, _⟩ := multiwayMergeBase_spec C09.swo_nat true true true 0
    [{ xs := [1, 2], guard := some 9 }, { xs := [], guard := some 9 }, { xs := [2, 5], guard := some 9 },
     { xs := [1, 1], guard := some 9 }, { xs := [0, 8], guard := some 9 }] 6 .loserTreeSentinel
    (by decide) (by decide)
    (by intro l hl; simp [xsOf] at hl; rcases hl with h | h | h | h | h <;> subst h <;> simp [Sorted])
    (by intro _ s hs; simp at hs; rcases hs with h | h | h | h | h <;> subst h <;> simp <;> decide)
  exact ⟨fin, out, h1, h2⟩

example : Sentinels (fun a b : Nat => decide (a < b))
    [{ xs := [1, 2], guard := some 9 }, { xs := [], guard := some 7 }, { xs := [2, 5], guard := some 9 }] := by
  intro s hs
  simp at hs
  rcases hs with h | h | h <;> subst h <;> simp <;> decide

end TlxVerif.C05
