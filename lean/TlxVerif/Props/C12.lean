import TlxVerif.Model.C12
import TlxVerif.Model.C12Conc
namespace TlxVerif.C12

theorem init_no_handles (i : Nat) : St.init.handlesTo i = 0 := by
  simp [St.init, St.handlesTo, nHandles]

end TlxVerif.C12
