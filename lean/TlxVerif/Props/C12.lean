import TlxVerif.Model.C12
import TlxVerif.Model.C12Conc
import TlxVerif.Proofs.C12Seq
import TlxVerif.Proofs.C12Conc
/-!
C12 — property theorems.

Sequential: for every history of well-formed handle operations the invariant `Inv` holds after
every operation and no operation fails (no access to a destroyed object, no failing assert):
`refcount o = #handles pointing to o`, an object is alive iff at least one handle points to
it, and it is destroyed at most — hence exactly — once.
-/
set_option linter.unusedSimpArgs false
namespace TlxVerif.C12

/-- the property's state invariant: six handle variables; every object is either alive with
    `rc = #handles ≥ 1`, or destroyed exactly once with no handle left (and `rc = 0`) -/
def Inv (s : St) : Prop := s.h.length = nHandles ∧ Bal s (fun _ => 0)

/-- `Inv` spelled out without the proof-internal vocabulary -/
theorem inv_iff (s : St) : Inv s ↔
    s.h.length = nHandles ∧ ∀ i,
      match s.o[i]? with
      | none => s.handlesTo i = 0
      | some ob => (ob.dead = 0 ∧ ob.rc = s.handlesTo i ∧ 0 < ob.rc) ∨
                   (ob.dead = 1 ∧ ob.rc = 0 ∧ s.handlesTo i = 0) := by
  unfold Inv Bal ObjBal
  constructor
  · rintro ⟨h1, h2⟩
    refine ⟨h1, fun i => ?_⟩
    have := h2 i
    split <;> simp_all <;> omega
  · rintro ⟨h1, h2⟩
    refine ⟨h1, fun i => ?_⟩
    have := h2 i
    split <;> simp_all <;> omega

theorem inv_init : Inv St.init := by
  refine ⟨by simp [St.init], fun i => ?_⟩
  simp [ObjBal, St.init, St.handlesTo, nHandles]

private theorem ptr?_none_elem {s : St} {h : Nat} (hl : h < s.h.length) (hn : (s.ptr? h).isNone = true) :
    s.h[h] = none := by
  unfold St.ptr? at hn
  simp [List.getElem?_eq_getElem hl] at hn
  exact hn

private theorem ptr?_isSome {s : St} {x : Nat} (hs : (s.ptr? x).isSome = true) :
    ∃ p, s.ptr? x = some p ∧ ∃ hx : x < s.h.length, s.h[x] = some p := by
  obtain ⟨p, hp⟩ := Option.isSome_iff_exists.mp hs
  exact ⟨p, hp, ptr?_some hp⟩

theorem step_make {s : St} {h : Nat} (hI : Inv s) (hw : (Op.make h).wf s = true) :
    ∃ s', step s (.make h) = .ok s' ∧ Inv s' := by
  obtain ⟨hl, hb⟩ := hI
  simp only [Op.wf, Bool.and_eq_true, decide_eq_true_eq] at hw
  obtain ⟨hh, hn⟩ := hw
  have hlt : h < s.h.length := by omega
  have he := ptr?_none_elem hlt hn
  let s1 : St := { s with o := s.o ++ [⟨1, 0⟩] }
  refine ⟨s1.setH h (some (some s.o.length)), ?_, ?_, ?_⟩
  · simp only [step]
    have : ({ s with o := s.o ++ [⟨0, 0⟩] } : St).setH h (some (some s.o.length)) =
        { h := s.h.set h (some (some s.o.length)), o := s.o ++ [⟨0, 0⟩] } := rfl
    rw [this]
    rw [incRef_some (ob := ⟨0, 0⟩) (by simp) rfl]
    simp [St.incObj, St.setH, s1]
  · simp [St.setH, s1, hl]
  · have b1 := newObj_bal hb rfl
    have b2 := setH_bal (s := s1) h (some (some s.o.length)) (by simpa [s1] using hlt) b1
    refine b2.congr fun i => ?_
    have : s1.h[h]'(by simpa [s1] using hlt) = none := by simpa [s1] using he
    rw [this]
    simp [dOf]


private theorem ptr?_none_of {s : St} {h : Nat} (hl : h < s.h.length) (hn : (s.ptr? h).isNone = true) :
    s.ptr? h = none := by
  rw [ptr?_eq_getElem hl]; exact ptr?_none_elem hl hn

theorem step_null {s : St} {h : Nat} (hI : Inv s) (hw : (Op.null h).wf s = true) :
    ∃ s', step s (.null h) = .ok s' ∧ Inv s' := by
  obtain ⟨hl, hb⟩ := hI
  simp only [Op.wf, Bool.and_eq_true, decide_eq_true_eq] at hw
  obtain ⟨hh, hn⟩ := hw
  have hlt : h < s.h.length := by omega
  refine ⟨s.setH h (some none), rfl, by simp [St.setH, hl], ?_⟩
  refine (setH_bal' h (some none) hlt hb).congr fun i => ?_
  simp [ptr?_none_of hlt hn]

/-- copy construction (`raw` is the same code path: `ptr_(p) { inc_reference(ptr_); }`) -/
private theorem step_copy_core {s : St} {h x : Nat} (hI : Inv s) (hh : h < nHandles)
    (hn : (s.ptr? h).isNone = true) (hs : (s.ptr? x).isSome = true) :
    ∃ s', incRef (s.setH h (some ((s.ptr? x).getD none))) ((s.ptr? x).getD none) = .ok s' ∧ Inv s' := by
  obtain ⟨hl, hb⟩ := hI
  have hlt : h < s.h.length := by omega
  obtain ⟨p, hp, _⟩ := ptr?_isSome hs
  simp only [hp, Option.getD_some]
  have b1 := setH_bal' h (some p) hlt hb
  obtain ⟨s', e, eh, _, b2⟩ := inc_ok p b1 (by
    intro qq hq
    rw [refs_setH s h (some p) qq 0 hlt]
    have := handles_pos_of_ptr (hq ▸ hp)
    omega)
  refine ⟨s', e, by rw [eh, length_setH]; exact hl, ?_⟩
  refine b2.congr fun i => ?_
  simp only [ptr?_none_of hlt hn, dOf_none]; omega

theorem step_copy {s : St} {h x : Nat} (hI : Inv s) (hw : (Op.copy h x).wf s = true) :
    ∃ s', step s (.copy h x) = .ok s' ∧ Inv s' := by
  simp only [Op.wf, Bool.and_eq_true, decide_eq_true_eq] at hw
  obtain ⟨⟨⟨hh, hn⟩, hs⟩, _⟩ := hw
  simpa [step] using step_copy_core hI hh hn hs

theorem step_raw {s : St} {h x : Nat} (hI : Inv s) (hw : (Op.raw h x).wf s = true) :
    ∃ s', step s (.raw h x) = .ok s' ∧ Inv s' := by
  simp only [Op.wf, Bool.and_eq_true, decide_eq_true_eq] at hw
  obtain ⟨⟨⟨hh, hn⟩, hs⟩, _⟩ := hw
  simpa [step] using step_copy_core hI hh hn hs

theorem step_move {s : St} {h x : Nat} (hI : Inv s) (hw : (Op.move h x).wf s = true) :
    ∃ s', step s (.move h x) = .ok s' ∧ Inv s' := by
  obtain ⟨hl, hb⟩ := hI
  simp only [Op.wf, Bool.and_eq_true, decide_eq_true_eq] at hw
  obtain ⟨⟨⟨hh, hn⟩, hs⟩, _⟩ := hw
  have hlt : h < s.h.length := by omega
  obtain ⟨p, hp, hx, _⟩ := ptr?_isSome hs
  have hne : h ≠ x := by
    intro e; subst e; rw [hp] at hn; simp at hn
  refine ⟨(s.setH h (some p)).setH x (some none), by simp [step, hp]; rfl, by simp [St.setH, hl], ?_⟩
  have b1 := setH_bal' h (some p) hlt hb
  have b2 := setH_bal' x (some none) (by rw [length_setH]; exact hx) b1
  refine b2.congr fun i => ?_
  have e1 : (s.setH h (some p)).ptr? x = some p := by
    rw [← hp]; simp [St.ptr?, St.setH, hne]
  simp only [ptr?_none_of hlt hn, e1, dOf_none, dOf_null]; omega

theorem step_swap {s : St} {h x : Nat} (hI : Inv s) (hw : (Op.swap h x).wf s = true) :
    ∃ s', step s (.swap h x) = .ok s' ∧ Inv s' := by
  obtain ⟨hl, hb⟩ := hI
  simp only [Op.wf, Bool.and_eq_true, decide_eq_true_eq] at hw
  obtain ⟨⟨hs1, hs2⟩, _⟩ := hw
  obtain ⟨p, hp, hh, _⟩ := ptr?_isSome hs1
  obtain ⟨q, hq, hx, _⟩ := ptr?_isSome hs2
  refine ⟨(s.setH h (some q)).setH x (some p), by simp [step, hp, hq]; rfl, by simp [St.setH, hl], ?_⟩
  have b1 := setH_bal' h (some q) hh hb
  have b2 := setH_bal' x (some p) (by rw [length_setH]; exact hx) b1
  refine b2.congr fun i => ?_
  by_cases e : h = x
  · subst e
    have e1 : (s.setH h (some q)).ptr? h = some q := by
      simp [St.ptr?, St.setH, hh]
    have : p = q := by rw [hp] at hq; injection hq
    subst this
    simp only [hp, e1]; omega
  · have e1 : (s.setH h (some q)).ptr? x = some q := by
      rw [← hq]; simp [St.ptr?, St.setH, e]
    simp only [hp, e1]; omega


private theorem refs_pos_of_handle {s s' : St} (e : s'.h = s.h) {x qq : Nat}
    (hp : s.ptr? x = some (some qq)) {d : Int} (hd : 0 ≤ d) : 0 < (s'.handlesTo qq : Int) + d := by
  have := handles_pos_of_ptr hp
  rw [handlesTo_congr e]; omega

theorem step_assign {s : St} {h x : Nat} (hI : Inv s) (hw : (Op.assign h x).wf s = true) :
    ∃ s', step s (.assign h x) = .ok s' ∧ Inv s' := by
  obtain ⟨hl, hb⟩ := hI
  simp only [Op.wf, Bool.and_eq_true] at hw
  obtain ⟨⟨hs1, hs2⟩, _⟩ := hw
  obtain ⟨p, hp, hh, _⟩ := ptr?_isSome hs1
  obtain ⟨q, hq, hx, _⟩ := ptr?_isSome hs2
  by_cases epq : p = q
  · exact ⟨s, by simp [step, hp, hq, epq]; rfl, hl, hb⟩
  · -- inc_reference(other.ptr_)
    obtain ⟨s1, e1, eh1, _, b1⟩ := inc_ok q hb (by
      intro qq hqq; exact refs_pos_of_handle rfl (hqq ▸ hq) (Int.le_refl 0))
    -- dec_reference()
    obtain ⟨s2, e2, eh2, _, b2⟩ := dec_ok p b1 (by
      intro pp hpp
      refine refs_pos_of_handle eh1 (hpp ▸ hp) ?_
      have := dOf_nonneg (some q) pp; omega)
    have hh2 : h < s2.h.length := by rw [eh2, eh1]; exact hh
    refine ⟨s2.setH h (some q), ?_, by rw [length_setH, eh2, eh1]; exact hl, ?_⟩
    · simp [step, hp, hq, epq, e1, e2, bind, Except.bind, Functor.map, Except.map, pure, Except.pure]
    · refine (setH_bal' h (some q) hh2 b2).congr fun i => ?_
      have : s2.ptr? h = some p := by rw [ptr?_congr (eh2.trans eh1)]; exact hp
      simp only [this]; omega

theorem step_massign {s : St} {h x : Nat} (hI : Inv s) (hw : (Op.massign h x).wf s = true) :
    ∃ s', step s (.massign h x) = .ok s' ∧ Inv s' := by
  obtain ⟨hl, hb⟩ := hI
  simp only [Op.wf, Bool.and_eq_true] at hw
  obtain ⟨⟨hs1, hs2⟩, _⟩ := hw
  obtain ⟨p, hp, hh, _⟩ := ptr?_isSome hs1
  obtain ⟨q, hq, hx, _⟩ := ptr?_isSome hs2
  by_cases epq : p = q
  · exact ⟨s, by simp [step, hp, hq, epq]; rfl, hl, hb⟩
  · have hne : h ≠ x := by
      intro e; subst e; rw [hp] at hq; injection hq with hq; exact epq hq
    -- dec_reference()
    obtain ⟨s1, e1, eh1, _, b1⟩ := dec_ok p hb (by
      intro pp hpp; exact refs_pos_of_handle rfl (hpp ▸ hp) (Int.le_refl 0))
    have hh1 : h < s1.h.length := by rw [eh1]; exact hh
    have b2 := setH_bal' h (some q) hh1 b1
    have hx2 : x < (s1.setH h (some q)).h.length := by rw [length_setH, eh1]; exact hx
    have b3 := setH_bal' x (some none) hx2 b2
    refine ⟨(s1.setH h (some q)).setH x (some none), ?_, by rw [length_setH, length_setH, eh1]; exact hl, ?_⟩
    · simp [step, hp, hq, epq, e1, bind, Except.bind, Functor.map, Except.map, pure, Except.pure]
    · refine b3.congr fun i => ?_
      have t1 : s1.ptr? h = some p := by rw [ptr?_congr eh1]; exact hp
      have t2 : (s1.setH h (some q)).ptr? x = some q := by
        have : s1.ptr? x = some q := by rw [ptr?_congr eh1]; exact hq
        rw [← this]; simp [St.ptr?, St.setH, hne]
      simp only [t1, t2, dOf_null]; omega

theorem step_reset {s : St} {h : Nat} (hI : Inv s) (hw : (Op.reset h).wf s = true) :
    ∃ s', step s (.reset h) = .ok s' ∧ Inv s' := by
  obtain ⟨hl, hb⟩ := hI
  simp only [Op.wf] at hw
  obtain ⟨p, hp, hh, _⟩ := ptr?_isSome hw
  obtain ⟨s1, e1, eh1, _, b1⟩ := dec_ok p hb (by
    intro pp hpp; exact refs_pos_of_handle rfl (hpp ▸ hp) (Int.le_refl 0))
  have hh1 : h < s1.h.length := by rw [eh1]; exact hh
  refine ⟨s1.setH h (some none), ?_, by rw [length_setH, eh1]; exact hl, ?_⟩
  · simp [step, hp, e1, bind, Except.bind, Functor.map, Except.map, pure, Except.pure]
  · refine (setH_bal' h (some none) hh1 b1).congr fun i => ?_
    have t1 : s1.ptr? h = some p := by rw [ptr?_congr eh1]; exact hp
    simp only [t1, dOf_null]; omega

theorem step_dtor {s : St} {h : Nat} (hI : Inv s) (hw : (Op.dtor h).wf s = true) :
    ∃ s', step s (.dtor h) = .ok s' ∧ Inv s' := by
  obtain ⟨hl, hb⟩ := hI
  simp only [Op.wf] at hw
  obtain ⟨p, hp, hh, _⟩ := ptr?_isSome hw
  obtain ⟨s1, e1, eh1, _, b1⟩ := dec_ok p hb (by
    intro pp hpp; exact refs_pos_of_handle rfl (hpp ▸ hp) (Int.le_refl 0))
  have hh1 : h < s1.h.length := by rw [eh1]; exact hh
  refine ⟨s1.setH h none, ?_, by rw [length_setH, eh1]; exact hl, ?_⟩
  · simp [step, hp, e1, bind, Except.bind, Functor.map, Except.map, pure, Except.pure]
  · refine (setH_bal' h none hh1 b1).congr fun i => ?_
    have t1 : s1.ptr? h = some p := by rw [ptr?_congr eh1]; exact hp
    simp only [t1, dOf_none]; omega


theorem step_unify {s : St} {h : Nat} (hI : Inv s) (hw : (Op.unify h).wf s = true) :
    ∃ s', step s (.unify h) = .ok s' ∧ Inv s' := by
  obtain ⟨hl, hb⟩ := hI
  simp only [Op.wf] at hw
  obtain ⟨p, hp, hh, _⟩ := ptr?_isSome hw
  cases p with
  | none => exact ⟨s, by simp [step, hp]; rfl, hl, hb⟩
  | some i =>
    have hpos := handles_pos_of_ptr hp
    obtain ⟨ob, hob, ha, hr⟩ := alive_of_bal (hb i) (by show (0 : Int) < (s.handlesTo i : Int) + 0; omega)
    have hread : readRc s i = .ok ob.rc := by simp [readRc, hob, ha]; rfl
    by_cases h1 : ob.rc = 1
    · exact ⟨s, by simp [step, hp, hread, h1, bind, Except.bind]; rfl, hl, hb⟩
    · -- the clone and the temporary handle
      let s1 : St := { s with o := s.o ++ [⟨0, 0⟩] }
      let s2 : St := { s with o := s.o ++ [⟨1, 0⟩] }
      have e2 : incRef s1 (some s.o.length) = .ok s2 := by
        rw [incRef_some (s := s1) (ob := ⟨0, 0⟩) (by simp [s1]) rfl]
        simp [St.incObj, s1, s2]
      have b2 : Bal s2 (fun j => 0 + dOf (some (some s.o.length)) j) := newObj_bal hb rfl
      obtain ⟨s3, e3, eh3, _, b3⟩ := dec_ok (some i) b2 (by
        intro pp hpp
        injection hpp with hpp; subst hpp
        have : s2.handlesTo i = s.handlesTo i := rfl
        have := dOf_nonneg (some (some s.o.length)) i
        omega)
      have hh3 : h < s3.h.length := by rw [eh3]; exact hh
      refine ⟨s3.setH h (some (some s.o.length)), ?_, by rw [length_setH, eh3]; exact hl, ?_⟩
      · simp only [step, hp, Option.getD_some, hread, bind, Except.bind, h1, if_false]
        have e2' : incRef { h := s.h, o := s.o ++ [{ rc := 0, dead := 0 }] } (some s.o.length) = .ok s2 := e2
        rw [e2']
        simp only [e3]
        rfl
      · refine (setH_bal' h (some (some s.o.length)) hh3 b3).congr fun j => ?_
        have t1 : s3.ptr? h = some (some i) := by
          rw [ptr?_congr (s := s2) eh3]; exact hp
        simp only [t1]; omega

/-- every well-formed operation succeeds on a state satisfying the invariant and re-establishes it -/
theorem step_ok {s : St} (op : Op) (hI : Inv s) (hw : op.wf s = true) :
    ∃ s', step s op = .ok s' ∧ Inv s' := by
  cases op with
  | make h => exact step_make hI hw
  | null h => exact step_null hI hw
  | raw h x => exact step_raw hI hw
  | copy h x => exact step_copy hI hw
  | move h x => exact step_move hI hw
  | assign h x => exact step_assign hI hw
  | massign h x => exact step_massign hI hw
  | swap h x => exact step_swap hI hw
  | reset h => exact step_reset hI hw
  | unify h => exact step_unify hI hw
  | dtor h => exact step_dtor hI hw
  | objassign h x => exact ⟨s, rfl, hI⟩

/-- **C12, sequential.**  For every history: either the caller violated a precondition of the
    protocol (`bad-op`), or the run succeeds — no use-after-free, no failing assert — and the
    final state satisfies the invariant. -/
theorem run_ok {s : St} (ops : List Op) (hI : Inv s) :
    run s ops = .error "bad-op" ∨ ∃ s', run s ops = .ok s' ∧ Inv s' := by
  induction ops generalizing s with
  | nil => exact .inr ⟨s, rfl, hI⟩
  | cons op ops ih =>
    by_cases hw : op.wf s = true
    · obtain ⟨s1, e1, hI1⟩ := step_ok op hI hw
      rcases ih hI1 with h | ⟨s', h, hI'⟩
      · left; simp [run, hw, e1, bind, Except.bind, h]
      · right; exact ⟨s', by simp [run, hw, e1, bind, Except.bind, h], hI'⟩
    · left
      have : op.wf s = false := by simpa using hw
      simp [run, this, bind, Except.bind]
      rfl

/-- all histories from the initial state -/
theorem run_init_ok (ops : List Op) :
    run St.init ops = .error "bad-op" ∨ ∃ s', run St.init ops = .ok s' ∧ Inv s' :=
  run_ok ops inv_init


private theorem bind_ok {α β : Type} {x : Except String α} {f : α → Except String β} {b : β}
    (h : (x >>= f) = .ok b) : ∃ a, x = .ok a ∧ f a = .ok b := by
  cases x with
  | error e => cases h
  | ok a => exact ⟨a, rfl, h⟩

private theorem pure_ok {α : Type} {a b : α} (h : (pure a : Except String α) = .ok b) : a = b := by
  injection h

/-- objects persist and destructor counts never decrease along a step -/
theorem step_mono {s s' : St} {op : Op} (h : step s op = .ok s') : Mono s s' := by
  cases op with
  | make k =>
    simp only [step] at h
    exact (mono_append s _).trans ((mono_setH _ _ _).trans (incRef_mono h))
  | null k => cases pure_ok h; exact mono_setH _ _ _
  | raw k x => simp only [step] at h; exact (mono_setH _ _ _).trans (incRef_mono h)
  | copy k x => simp only [step] at h; exact (mono_setH _ _ _).trans (incRef_mono h)
  | move k x => cases pure_ok h; exact (mono_setH _ _ _).trans (mono_setH _ _ _)
  | swap k x => cases pure_ok h; exact (mono_setH _ _ _).trans (mono_setH _ _ _)
  | assign k x =>
    simp only [step] at h
    split at h
    · cases pure_ok h; exact Mono.refl _
    · obtain ⟨s1, e1, h⟩ := bind_ok h
      obtain ⟨s2, e2, h⟩ := bind_ok h
      cases pure_ok h
      exact (incRef_mono e1).trans ((decRef_mono e2).trans (mono_setH _ _ _))
  | massign k x =>
    simp only [step] at h
    split at h
    · cases pure_ok h; exact Mono.refl _
    · obtain ⟨s1, e1, h⟩ := bind_ok h
      cases pure_ok h
      exact (decRef_mono e1).trans ((mono_setH _ _ _).trans (mono_setH _ _ _))
  | reset k =>
    obtain ⟨s1, e1, h⟩ := bind_ok h
    cases pure_ok h
    exact (decRef_mono e1).trans (mono_setH _ _ _)
  | dtor k =>
    obtain ⟨s1, e1, h⟩ := bind_ok h
    cases pure_ok h
    exact (decRef_mono e1).trans (mono_setH _ _ _)
  | objassign k x => cases pure_ok h; exact Mono.refl _
  | unify k =>
    simp only [step] at h
    split at h
    · cases pure_ok h; exact Mono.refl _
    · obtain ⟨rc, _, h⟩ := bind_ok h
      split at h
      · cases pure_ok h; exact Mono.refl _
      · obtain ⟨s2, e2, h⟩ := bind_ok h
        obtain ⟨s3, e3, h⟩ := bind_ok h
        cases pure_ok h
        exact (mono_append s _).trans ((incRef_mono e2).trans ((decRef_mono e3).trans (mono_setH _ _ _)))

/-! ### the property, spelled out -/

/-- the reference count of a live object equals the number of handles pointing to it (≥ 1) -/
theorem refcount_eq_handles {s : St} (hI : Inv s) {i : Nat} {ob : Obj} (h : s.o[i]? = some ob)
    (ha : ob.dead = 0) : ob.rc = s.handlesTo i ∧ 1 ≤ s.handlesTo i := by
  have := ((inv_iff s).mp hI).2 i
  rw [h] at this
  rcases this with ⟨_, h2, h3⟩ | ⟨h1, _, _⟩ <;> omega

/-- an object is destroyed iff no handle points to it, and never more than once -/
theorem destroyed_iff_no_handles {s : St} (hI : Inv s) {i : Nat} {ob : Obj} (h : s.o[i]? = some ob) :
    (ob.dead = 1 ↔ s.handlesTo i = 0) ∧ ob.dead ≤ 1 := by
  have := ((inv_iff s).mp hI).2 i
  rw [h] at this
  rcases this with ⟨h1, h2, h3⟩ | ⟨h1, h2, h3⟩ <;> constructor <;> omega

/-- no handle ever points to a destroyed (or never created) object -/
theorem no_dangling {s : St} (hI : Inv s) {x i : Nat} (hp : s.ptr? x = some (some i)) :
    ∃ ob, s.o[i]? = some ob ∧ ob.dead = 0 := by
  have hpos := handles_pos_of_ptr hp
  have := ((inv_iff s).mp hI).2 i
  split at this
  · omega
  · next ob hob => exact ⟨ob, hob, by rcases this with h | h <;> omega⟩

/-- **the moment of destruction**: in one step a live object becomes destroyed exactly when the
    step removed its last handle; it stays an object, and a destroyed object stays destroyed once. -/
theorem destroyed_exactly_when_last_handle_goes {s s' : St} {op : Op} (hI : Inv s)
    (hw : op.wf s = true) (hs : step s op = .ok s') {i : Nat} {ob : Obj} (h : s.o[i]? = some ob) :
    ∃ ob', s'.o[i]? = some ob' ∧ ob.dead ≤ ob'.dead ∧ ob'.dead ≤ 1 ∧
      (ob'.dead = 1 ↔ s'.handlesTo i = 0) := by
  obtain ⟨s'', e, hI'⟩ := step_ok op hI hw
  rw [hs] at e; injection e with e; subst e
  obtain ⟨ob', h', hle⟩ := step_mono hs i ob h
  obtain ⟨h1, h2⟩ := destroyed_iff_no_handles hI' h'
  exact ⟨ob', h', hle, h2, h1⟩

/-! ### the same, in the vocabulary of the Deleter

`Obj.dead` counts invocations of the handle type's Deleter (`Deleter()(ptr_)`); `deleterCalls s s'`
are the objects whose deleter was invoked by the operation leading from `s` to `s'` — what the
harness observes per release path (destructor, reset, copy/move/converting assignment, unify, …)
with a logging deleter, with the default deleter (as destructor run) and with `CountingPtrNoDelete`
(as "count reached zero, object untouched"). -/

/-- **the deleter runs exactly when the last handle lets go**: an operation invokes the deleter of
    an existing object iff the object was still managed and the operation removed its last handle -/
theorem deleter_invoked_iff_last_handle_released {s s' : St} {op : Op} (hI : Inv s)
    (hw : op.wf s = true) (hs : step s op = .ok s') {i : Nat} {ob : Obj} (h : s.o[i]? = some ob) :
    i ∈ deleterCalls s s' ↔ ob.dead = 0 ∧ s'.handlesTo i = 0 := by
  obtain ⟨ob', h', hle, h1, hiff⟩ := destroyed_exactly_when_last_handle_goes hI hw hs h
  have hlt : i < s'.o.length := by
    rcases Nat.lt_or_ge i s'.o.length with h0 | h0
    · exact h0
    · rw [List.getElem?_eq_none h0] at h'; cases h'
  have hd := (destroyed_iff_no_handles hI h).2
  simp only [deleterCalls, List.mem_filter, List.mem_range, hlt, true_and, h, h', Option.map_some,
    Option.getD_some, decide_eq_true_eq]
  constructor
  · intro hl; exact ⟨by omega, hiff.mp (by omega)⟩
  · rintro ⟨h0, hz⟩; have := hiff.mpr hz; omega

/-- **the deleter runs at most once per object, ever, and exactly once by the time no handle is
    left**: in every reachable state each object's deleter count is 0 or 1, and it is 1 for every
    object as soon as no handle points to it -/
theorem deleter_runs_exactly_once {s : St} (hI : Inv s) {i : Nat} {ob : Obj} (h : s.o[i]? = some ob) :
    ob.dead ≤ 1 ∧ (s.handlesTo i = 0 → ob.dead = 1) := by
  obtain ⟨h1, h2⟩ := destroyed_iff_no_handles hI h
  exact ⟨h2, h1.mpr⟩

/-- non-vacuity: `reset` of the last handle is a release path with a deleter event -/
example : ∃ s1 s2, run St.init [.make 0, .copy 1 0, .reset 0] = .ok s1 ∧ step s1 (.reset 1) = .ok s2 ∧
    deleterCalls St.init s1 = [] ∧ deleterCalls s1 s2 = [0] := by
  refine ⟨_, _, rfl, rfl, ?_, ?_⟩ <;> decide

/-- non-vacuity: a history with self assignment, alias assignment, move from an alias,
    converting copy, unify on a shared object and destruction satisfies the hypotheses -/
example : ∃ s', run St.init [.make 0, .assign 0 0, .copy 1 0, .assign 0 1, .massign 0 1, .copy 4 0,
    .unify 4, .make 2, .assign 0 2, .reset 1, .dtor 4, .swap 0 2] = .ok s' ∧
    s'.o.map (·.dead) = [1, 1, 0] ∧ s'.handlesTo 2 = 2 := by
  refine ⟨_, rfl, ?_, ?_⟩ <;> decide


/-! ## Concurrent part: all interleavings

`n ≥ 1` threads, each starting with two handles to the shared object (a `CountingPtr<Base>` and a
`CountingPtr<Derived>`) plus an empty one and running an arbitrary program over them: copy-construct,
copy- and move-assign, the converting copy/move construction and assignment to the base-pointer
type, reset, swap, unique(), **unify()**, final destructors.  A transition is one visible step of
*any* thread that has one outstanding (`cstep`): an atomic operation on the shared reference count,
the start of the object's destructor, or the start of the copy construction inside `unify()`.
`unify()` is a conditional sequence: its `unique()` load decides whether the copy and the release
follow, and other threads may run between the test, the copy and the decrement.  `Reach` is the set
of states of all interleavings. -/

inductive Reach (asserts : Bool) (progs : List (List Char)) : CSt → Prop where
  | start : Reach asserts progs (CSt.start asserts progs)
  | step {s s' : CSt} {i : Nat} {ev : String} :
      Reach asserts progs s → cstep asserts s i = some (s', ev) → Reach asserts progs s'

theorem reach_inv {asserts : Bool} {progs : List (List Char)} (hn : progs ≠ []) {s : CSt}
    (h : Reach asserts progs s) : CInv s := by
  induction h with
  | start => exact start_inv asserts progs hn
  | step _ hs ih => exact cstep_inv asserts ih hs

/-- **C12, concurrent (safety).**  In every reachable state of every interleaving: no thread ever
    touched the object after its destruction began, the count never underflowed, the destructor
    never ran twice; the reference count equals the number of references the threads hold
    (local handles, corrected for the in-flight copies/releases); the object is destroyed at most
    once, and it is destroyed or about to be destroyed exactly when the count is zero. -/
theorem conc_safety {asserts : Bool} {progs : List (List Char)} (hn : progs ≠ []) {s : CSt}
    (h : Reach asserts progs s) :
    s.err = none ∧ (s.count : Int) = total contrib s.thr ∧ s.destroyed ≤ 1 ∧
    (s.destroyed = 1 → s.count = 0) ∧
    (s.count = 0 ↔ (s.destroyed : Int) + total delsI s.thr = 1) := by
  have hI := reach_inv hn h
  have hd : 0 ≤ total delsI s.thr := by
    rcases s.thr with _ | ⟨t, l⟩
    · simp [total_nil]
    · have := le_total delsI (t :: l) (fun u _ => delsI_nonneg u) t (by simp)
      have := delsI_nonneg t; omega
  have ho := hI.once
  refine ⟨hI.noerr, hI.cnt, ?_, ?_, ?_⟩
  · split at ho <;> omega
  · intro h1; split at ho
    · assumption
    · omega
  · constructor
    · intro h0; simp [h0] at ho; omega
    · intro h1; split at ho
      · assumption
      · omega

/-- **C12, concurrent (exactly once).**  When every thread has finished (all local handles
    destroyed, nothing outstanding) the object has been destroyed exactly once. -/
theorem conc_terminal_destroyed_once {asserts : Bool} {progs : List (List Char)} (hn : progs ≠ [])
    {s : CSt} (h : Reach asserts progs s) (hfin : ∀ t ∈ s.thr, t.pend = []) : s.destroyed = 1 := by
  have hI := reach_inv hn h
  have hc : ∀ t ∈ s.thr, contrib t = 0 := by
    intro t ht
    have hp := hfin t ht
    have hprog := hI.stl t ht hp
    rcases hI.pok t ht with ⟨pre, e⟩ | ⟨e, _⟩ | ⟨e, _⟩ | ⟨_, h0, h1, h2⟩
    · rw [hprog] at e; simp at e
    · rw [hprog] at e; simp at e
    · rw [hprog] at e; simp at e
    · simp [contrib, own, b2i, h0, h1, h2, hp, pendBal]
  have hz : ∀ t ∈ s.thr, delsI t = 0 := by
    intro t ht; simp [delsI, dels, hfin t ht]
  have hcnt : s.count = 0 := by
    have := hI.cnt; rw [total_zero contrib _ hc] at this; omega
  have ho := hI.once
  rw [total_zero delsI _ hz, hcnt] at ho
  simp at ho; omega

/-- progress: a thread with an outstanding visible step can always take it (no blocking) -/
theorem conc_progress (asserts : Bool) (s : CSt) (i : Nat) (t : Thr) (ht : s.thr[i]? = some t)
    (hp : t.pend ≠ []) : ∃ r, cstep asserts s i = some r := by
  unfold cstep
  cases hpe : t.pend with
  | nil => exact absurd hpe hp
  | cons m rest => simp [ht, hpe]

/-- the scheduled executions of the driver (harness policy) are interleavings of the LTS -/
theorem runSched_reach {asserts : Bool} {progs : List (List Char)} (fuel : Nat) {s : CSt}
    (h : Reach asserts progs s) (sched : List Nat) (k rr : Nat) (ev : List String) :
    Reach asserts progs (runSched asserts fuel s sched k rr ev).1 := by
  induction fuel generalizing s sched k rr ev with
  | zero => exact h
  | succ n ih =>
    simp only [runSched]
    split
    · exact h
    · split
      · next s' e hs => exact ih (.step h hs) _ _ _ _
      · exact h

/-- non-vacuity: a concrete 3-thread interleaving in which thread 2 destroys the object -/
example : (runSched true 100 (CSt.start true ["cc".toList, "am".toList, "cab".toList])
    [0, 1, 0, 1, 1, 0, 2, 2, 1] 0 0 []).1.destroyed = 1 := by decide

/-- non-vacuity, the unify() window: thread 0 drops D and tests `unique()` (count 3), thread 1 then
    releases both its handles, thread 0 copies and its decrement is the last one: it must — and
    does — run the destructor (`[load, dec, load(3), load, dec, load, dec, copy, load, dec=0, del, …]`) -/
example : let r := runSched true 100 (CSt.start true ["Qx".toList, []]) [0, 0, 0, 1, 1, 1, 1, 0, 0, 0, 0, 0] 0 0 []
    r.1.destroyed = 1 ∧ r.1.err = none ∧
    r.2.1 = ["t0:load=4", "t0:dec=3", "t0:load=3", "t1:load=3", "t1:dec=2", "t1:load=2", "t1:dec=1",
             "t0:copy", "t0:load=1", "t0:dec=0", "t0:del", "t0:load=0"] := by decide

end TlxVerif.C12
