/-
C02 — the B+ tree keeps its balance/order invariants and frees exactly what it allocates.
Property theorems over the model `TlxVerif/Model/C01*.lean` (shared with C01).

`TreeInv` is the model-level content of `BTree::verify()`: equal leaf depth and consistent `level`
fields, every non-root node between half full and full (root leaf non-empty, root inner node with a
key), `slotuse + 1` children, entries in key order within and across nodes, every separator
equivalent to the largest key below it, `stats_` equal to a recount.  The leaf chain of the model
is by construction the left-to-right leaf sequence (pointer linkage: trusted base + harness).
-/
import TlxVerif.Model.C01Tree
import TlxVerif.Model.C01Erase
import TlxVerif.Proofs.C01Main
namespace TlxVerif.C02
open TlxVerif.C01

variable {K V : Type}

/-- the invariant holds for a freshly constructed container -/
theorem inv_init (p : Params K) : TreeInv p ({} : Tree K V) := treeInv_empty p

/-- `insert` (all of `insert_start`/`insert_descend`/`split_leaf_node`/`split_inner_node`) is total on
states satisfying the invariant: no out-of-range slot, no key read from an empty node -/
theorem insert_defined (p : Params K) (pv : p.Valid) (t : Tree K V) (ht : TreeInv p t) (k : K) (v : V) :
    ∃ res, insert p t k v = some res := insert_total p pv t ht.1 k v

/-- `insert` preserves the invariant, for every capacity ≥ 4, both searches, every strict weak order -/
theorem inv_insert (p : Params K) (pv : p.Valid) (sw : StrictWeak p.lt) (t : Tree K V) (ht : TreeInv p t)
    (k : K) (v : V) (res : InsResult K V) (hres : insert p t k v = some res) : TreeInv p res.tree :=
  insert_treeInv p pv sw t ht k v res hres

/-- allocation ledger of `insert`: the nodes allocated are exactly the nodes by which the tree grew,
nothing is freed; with `TreeInv` (stats = recount) this keeps `allocs − frees = node count` -/
theorem insert_ledger (p : Params K) (pv : p.Valid) (t : Tree K V) (ht : TreeInv p t) (k : K) (v : V)
    (res : InsResult K V) (hres : insert p t k v = some res) :
    res.tree.nLeaves = t.nLeaves + res.ledger.leafAlloc ∧ res.tree.nInner = t.nInner + res.ledger.innerAlloc ∧
    res.ledger.leafFree = 0 ∧ res.ledger.innerFree = 0 :=
  (insert_treeShape p pv t ht.1 k v res hres).2

/-- `stats_` of a state satisfying the invariant is the recount of the structure -/
theorem stats_eq_recount (p : Params K) (t : Tree K V) (ht : TreeInv p t) :
    t.stats.leaves = t.nLeaves ∧ t.stats.inner = t.nInner ∧ t.stats.size = t.toList.length := by
  obtain ⟨hs, _, _⟩ := ht
  unfold TreeShape at hs
  cases hroot : t.root with
  | none => rw [hroot] at hs; simp [hs, Tree.nLeaves, Tree.nInner, Tree.toList, hroot]
  | some r => rw [hroot] at hs; simp [hs.2.1, hs.2.2.1, hs.2.2.2, Tree.nLeaves, Tree.nInner, Tree.toList, hroot]

/-- `clear()` returns every node (as counted by `stats_`, hence by the structure) and leaves the
empty tree, which satisfies the invariant -/
theorem clear_ledger (p : Params K) (t : Tree K V) (ht : TreeInv p t) :
    TreeInv p (clear t).1 ∧ (clear t).1.root = none ∧
    (clear t).2.leafFree = t.stats.leaves ∧ (clear t).2.innerFree = t.stats.inner ∧
    (clear t).2.leafAlloc = 0 ∧ (clear t).2.innerAlloc = 0 := by
  have hst := stats_eq_recount p t ht
  unfold clear
  cases hroot : t.root with
  | none =>
    simp only
    have : t.stats = {} := by have := ht.1; unfold TreeShape at this; rw [hroot] at this; exact this
    refine ⟨ht, hroot, ?_, ?_, ?_, ?_⟩ <;> simp [this]
  | some r =>
    simp only
    refine ⟨treeInv_empty p, ?_, hst.1.symm, hst.2.1.symm, ?_, ?_⟩ <;> first | rfl | trivial

/-- over a whole life "construct; any number of inserts; destroy" every allocated node is freed
exactly once: the sum of the insert ledgers' allocations equals what `clear()` (the destructor) frees -/
theorem lifetime_balance (p : Params K) (pv : p.Valid) (sw : StrictWeak p.lt) :
    ∀ (ops : List (K × V)) (t : Tree K V) (la ia : Nat), TreeInv p t → t.nLeaves = la → t.nInner = ia →
      ∃ t' la' ia', runInsertsLedger p t ops la ia = some (t', la', ia') ∧ TreeInv p t' ∧
        (clear t').2.leafFree = la' ∧ (clear t').2.innerFree = ia' := by
  intro ops
  induction ops with
  | nil =>
    intro t la ia ht h1 h2
    have hst := stats_eq_recount p t ht
    have hc := clear_ledger p t ht
    exact ⟨t, la, ia, rfl, ht, by rw [hc.2.2.1]; omega, by rw [hc.2.2.2.1]; omega⟩
  | cons op ops ih =>
    intro t la ia ht h1 h2
    obtain ⟨k, v⟩ := op
    obtain ⟨res, hres⟩ := insert_defined p pv t ht k v
    have hinv := inv_insert p pv sw t ht k v res hres
    have hl := insert_ledger p pv t ht k v res hres
    obtain ⟨t', la', ia', h3, h4, h5, h6⟩ := ih res.tree (la + res.ledger.leafAlloc) (ia + res.ledger.innerAlloc) hinv
      (by omega) (by omega)
    exact ⟨t', la', ia', by simp only [runInsertsLedger, hres]; exact h3, h4, h5, h6⟩

-- OPEN: inv_erase — `eraseOne` / `eraseIter` (Model/C01Erase.lean: underflow case table, merge_*,
--   shift_left_*, shift_right_*, root collapse) preserve `TreeInv` and free exactly the nodes by which
--   the tree shrinks.  Transliterated and checked structurally against the implementation (incl. stats_
--   and the per-operation free counts) on every run; not yet proved.
def inv_erase_statement (p : Params K) : Prop :=
  ∀ (t : Tree K V) (k : K), TreeInv p t →
    ∃ res, eraseOne p t k = some res ∧ TreeInv p res.tree ∧
      res.tree.nLeaves + res.ledger.leafFree = t.nLeaves ∧ res.tree.nInner + res.ledger.innerFree = t.nInner

-- OPEN: inv_bulk_load — `bulkLoad` of a sorted range yields a state satisfying `TreeInv` whose ledger
--   equals its node count (the `n / (parts - i)` distribution keeps every node at least half full).
def inv_bulk_load_statement (p : Params K) : Prop :=
  ∀ (es : List (K × V)), SortedE p.lt es →
    ∃ t l, bulkLoad p es = some (t, l) ∧ TreeInv p t ∧ t.toList = es ∧
      l.leafAlloc = t.nLeaves ∧ l.innerAlloc = t.nInner

end TlxVerif.C02
