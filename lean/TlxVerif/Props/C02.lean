/-
C02 — the B+ tree keeps its balance/order invariants and frees exactly what it allocates.
Property theorems over the model `TlxVerif/Model/C01*.lean` (shared with C01).

`TreeInv` is the model-level content of `BTree::verify()`: equal leaf depth and consistent `level`
fields, every non-root node between half full and full (root leaf non-empty, root inner node with a
key), `slotuse + 1` children, entries in key order within and across nodes, every separator
equivalent to the largest key below it, `stats_` equal to a recount.  The leaf chain of the model
is by construction the left-to-right leaf sequence (pointer linkage: trusted base + harness).
-/
import TlxVerif.Model.C01Tree
import TlxVerif.Model.C01Erase
import TlxVerif.Proofs.C01Main
import TlxVerif.Proofs.C01Copy
import TlxVerif.Proofs.C01EraseE
import TlxVerif.Proofs.C01EraseG
import TlxVerif.Proofs.C01Bulk
import TlxVerif.Proofs.C01Verify
import TlxVerif.Proofs.C01VerifyConv
import TlxVerif.Proofs.C01Full
import TlxVerif.Model.C01Trace
import TlxVerif.Proofs.C01Arena
namespace TlxVerif.C02
open TlxVerif.C01

variable {K V : Type}

/-- the invariant holds for a freshly constructed container -/
theorem inv_init (p : Params K) : TreeInv p ({} : Tree K V) := treeInv_empty p

/-- `insert` (all of `insert_start`/`insert_descend`/`split_leaf_node`/`split_inner_node`) is total on
states satisfying the invariant: no out-of-range slot, no key read from an empty node -/
theorem insert_defined (p : Params K) (pv : p.Valid) (t : Tree K V) (ht : TreeInv p t) (k : K) (v : V) :
    ∃ res, insert p t k v = some res := insert_total p pv t ht.1 k v

/-- `insert` preserves the invariant, for every capacity ≥ 4, both searches, every strict weak order -/
theorem inv_insert (p : Params K) (pv : p.Valid) (sw : StrictWeak p.lt) (t : Tree K V) (ht : TreeInv p t)
    (k : K) (v : V) (res : InsResult K V) (hres : insert p t k v = some res) : TreeInv p res.tree :=
  insert_treeInv p pv sw t ht k v res hres

/-- allocation ledger of `insert`: the nodes allocated are exactly the nodes by which the tree grew,
nothing is freed; with `TreeInv` (stats = recount) this keeps `allocs − frees = node count` -/
theorem insert_ledger (p : Params K) (pv : p.Valid) (t : Tree K V) (ht : TreeInv p t) (k : K) (v : V)
    (res : InsResult K V) (hres : insert p t k v = some res) :
    res.tree.nLeaves = t.nLeaves + res.ledger.leafAlloc ∧ res.tree.nInner = t.nInner + res.ledger.innerAlloc ∧
    res.ledger.leafFree = 0 ∧ res.ledger.innerFree = 0 :=
  (insert_treeShape p pv t ht.1 k v res hres).2

/-- `stats_` of a state satisfying the invariant is the recount of the structure -/
theorem stats_eq_recount (p : Params K) (t : Tree K V) (ht : TreeInv p t) :
    t.stats.leaves = t.nLeaves ∧ t.stats.inner = t.nInner ∧ t.stats.size = t.toList.length := by
  obtain ⟨hs, _, _⟩ := ht
  unfold TreeShape at hs
  cases hroot : t.root with
  | none => rw [hroot] at hs; simp [hs, Tree.nLeaves, Tree.nInner, Tree.toList, hroot]
  | some r => rw [hroot] at hs; simp [hs.2.1, hs.2.2.1, hs.2.2.2, Tree.nLeaves, Tree.nInner, Tree.toList, hroot]

/-- `clear()` returns every node (as counted by `stats_`, hence by the structure) and leaves the
empty tree, which satisfies the invariant -/
theorem clear_ledger (p : Params K) (t : Tree K V) (ht : TreeInv p t) :
    TreeInv p (clear t).1 ∧ (clear t).1.root = none ∧
    (clear t).2.leafFree = t.stats.leaves ∧ (clear t).2.innerFree = t.stats.inner ∧
    (clear t).2.leafAlloc = 0 ∧ (clear t).2.innerAlloc = 0 := by
  have hst := stats_eq_recount p t ht
  unfold clear
  cases hroot : t.root with
  | none =>
    simp only
    have : t.stats = {} := by have := ht.1; unfold TreeShape at this; rw [hroot] at this; exact this
    refine ⟨ht, hroot, ?_, ?_, ?_, ?_⟩ <;> simp [this]
  | some r =>
    simp only
    refine ⟨treeInv_empty p, ?_, hst.1.symm, hst.2.1.symm, ?_, ?_⟩ <;> first | rfl | trivial

/-- over a whole life "construct; any number of inserts; destroy" every allocated node is freed
exactly once: the sum of the insert ledgers' allocations equals what `clear()` (the destructor) frees -/
theorem lifetime_balance (p : Params K) (pv : p.Valid) (sw : StrictWeak p.lt) :
    ∀ (ops : List (K × V)) (t : Tree K V) (la ia : Nat), TreeInv p t → t.nLeaves = la → t.nInner = ia →
      ∃ t' la' ia', runInsertsLedger p t ops la ia = some (t', la', ia') ∧ TreeInv p t' ∧
        (clear t').2.leafFree = la' ∧ (clear t').2.innerFree = ia' := by
  intro ops
  induction ops with
  | nil =>
    intro t la ia ht h1 h2
    have hst := stats_eq_recount p t ht
    have hc := clear_ledger p t ht
    exact ⟨t, la, ia, rfl, ht, by rw [hc.2.2.1]; omega, by rw [hc.2.2.2.1]; omega⟩
  | cons op ops ih =>
    intro t la ia ht h1 h2
    obtain ⟨k, v⟩ := op
    obtain ⟨res, hres⟩ := insert_defined p pv t ht k v
    have hinv := inv_insert p pv sw t ht k v res hres
    have hl := insert_ledger p pv t ht k v res hres
    obtain ⟨t', la', ia', h3, h4, h5, h6⟩ := ih res.tree (la + res.ledger.leafAlloc) (ia + res.ledger.innerAlloc) hinv
      (by omega) (by omega)
    exact ⟨t', la', ia', by simp only [runInsertsLedger, hres]; exact h3, h4, h5, h6⟩

/-- `erase_one` / `erase(iterator)` are total on well-shaped trees — no child index out of range, no key
read from an empty node, no rebalancing with a cousin, no null sibling dereferenced (every `none` of
`Model/C01Erase.lean`) — and keep balance, fill bounds, level fields, child counts and `stats_`;
the nodes freed are exactly the nodes by which the tree shrinks, nothing is allocated -/
theorem erase_shape_ledger (p : Params K) (pv : p.Valid) (tg : Target K) (t : Tree K V) (ht : TreeInv p t) :
    ∃ res, eraseTop p t tg = some res ∧ TreeShape p res.tree ∧
      res.tree.nLeaves + res.ledger.leafFree = t.nLeaves ∧ res.tree.nInner + res.ledger.innerFree = t.nInner ∧
      res.ledger.leafAlloc = 0 ∧ res.ledger.innerAlloc = 0 := by
  obtain ⟨res, hres, hno, hyes⟩ := eraseTop_ok p pv tg t ht.1
  refine ⟨res, hres, ?_⟩
  cases he : res.erased with
  | false =>
    obtain ⟨h1, h2⟩ := hno he
    rw [h1, h2]
    exact ⟨ht.1, by simp, by simp, rfl, rfl⟩
  | true =>
    have hok := hyes he
    exact ⟨hok.shape, hok.lcnt, hok.icnt, hok.noalloc.1, hok.noalloc.2⟩

/-- `erase_one(key)` keeps the shape invariant, the key order of the entry sequence and the bookkeeping -/
theorem inv_erase_one_partial (p : Params K) (pv : p.Valid) (sw : StrictWeak p.lt) (t : Tree K V) (ht : TreeInv p t)
    (k : K) :
    ∃ res, eraseOne p t k = some res ∧ TreeShape p res.tree ∧ SortedE p.lt res.tree.toList ∧
      res.tree.nLeaves + res.ledger.leafFree = t.nLeaves ∧ res.tree.nInner + res.ledger.innerFree = t.nInner := by
  obtain ⟨res, h1, _, h3, h4, h5, h6, _⟩ := eraseOne_spec p pv sw t ht k
  exact ⟨res, h1, h3, h4, h5, h6⟩

/-- **erase preserves the invariant**: `erase_one(key)` and `erase(iterator)` (both are `eraseTop` with the
respective target) are defined on every state satisfying `TreeInv` and return a state satisfying it:
besides balance / fill / order also every separator is again equivalent to the largest key below it
(the `btree_update_lastkey` propagation, the separators rewritten by the shifts, the key pulled down by
merge_inner, the level-1 refresh after a merge, root collapse) -/
theorem inv_erase (p : Params K) (pv : p.Valid) (sw : StrictWeak p.lt) (tg : Target K) (t : Tree K V)
    (ht : TreeInv p t) : ∃ res, eraseTop p t tg = some res ∧ TreeInv p res.tree :=
  eraseTop_treeInv p pv sw tg t ht

/-! ## all histories -/

/-- the mutating operations covered by theorems -/
inductive Op (K V : Type) where
  | insert (k : K) (v : V)
  | erase (tg : Target K)            -- erase_one(key) / erase(iterator)
  | clear

/-- cumulative allocator ledger of a history -/
def runOps (p : Params K) : Tree K V → Ledger → List (Op K V) → Option (Tree K V × Ledger)
  | t, lg, [] => some (t, lg)
  | t, lg, .insert k v :: ops =>
    match insert p t k v with
    | none => none
    | some r => runOps p r.tree (lg.add r.ledger) ops
  | t, lg, .erase tg :: ops =>
    match eraseTop p t tg with
    | none => none
    | some r => runOps p r.tree (lg.add r.ledger) ops
  | t, lg, .clear :: ops => runOps p (clear t).1 (lg.add (clear t).2) ops

/-- allocated − freed = nodes currently in the tree -/
def Balanced (t : Tree K V) (lg : Ledger) : Prop :=
  lg.leafAlloc = lg.leafFree + t.nLeaves ∧ lg.innerAlloc = lg.innerFree + t.nInner

/-- **for every history** of insert / erase_one / erase(iterator) / clear, every capacity ≥ 4, both
searches, every strict weak order: no step leaves defined behaviour, the invariant holds after every
step, and the allocator ledger stays exact (allocated − freed = live nodes); destroying the container
(`clear`) afterwards returns every node -/
theorem inv_all_histories (p : Params K) (pv : p.Valid) (sw : StrictWeak p.lt) :
    ∀ (ops : List (Op K V)) (t : Tree K V) (lg : Ledger), TreeInv p t → Balanced t lg →
      ∃ t' lg', runOps p t lg ops = some (t', lg') ∧ TreeInv p t' ∧ Balanced t' lg' ∧
        (lg'.add (clear t').2).leafAlloc = (lg'.add (clear t').2).leafFree ∧
        (lg'.add (clear t').2).innerAlloc = (lg'.add (clear t').2).innerFree := by
  intro ops
  induction ops with
  | nil =>
    intro t lg ht hb
    have hc := clear_ledger p t ht
    have hst := stats_eq_recount p t ht
    refine ⟨t, lg, rfl, ht, hb, ?_, ?_⟩
    · simp only [Ledger.add, hc.2.2.1, hc.2.2.2.2.1]; have := hb.1; omega
    · simp only [Ledger.add, hc.2.2.2.1, hc.2.2.2.2.2]; have := hb.2; omega
  | cons op ops ih =>
    intro t lg ht hb
    cases op with
    | insert k v =>
      obtain ⟨res, hres⟩ := insert_defined p pv t ht k v
      have hinv := inv_insert p pv sw t ht k v res hres
      have hl := insert_ledger p pv t ht k v res hres
      have hb' : Balanced res.tree (lg.add res.ledger) := by
        simp only [Balanced, Ledger.add]
        have := hb.1; have := hb.2
        omega
      obtain ⟨t', lg', h1, h2⟩ := ih res.tree _ hinv hb'
      exact ⟨t', lg', by simp only [runOps, hres]; exact h1, h2⟩
    | erase tg =>
      obtain ⟨res, hres, hinv⟩ := inv_erase p pv sw tg t ht
      obtain ⟨res', hres', _, h3, h4, h5, h6⟩ := erase_shape_ledger p pv tg t ht
      rw [hres] at hres'
      cases hres'
      have hb' : Balanced res.tree (lg.add res.ledger) := by
        simp only [Balanced, Ledger.add]
        have := hb.1; have := hb.2
        omega
      obtain ⟨t', lg', h1, h2⟩ := ih res.tree _ hinv hb'
      exact ⟨t', lg', by simp only [runOps, hres]; exact h1, h2⟩
    | clear =>
      have hc := clear_ledger p t ht
      have hst := stats_eq_recount p t ht
      have hb' : Balanced (clear t).1 (lg.add (clear t).2) := by
        simp only [Balanced, Ledger.add, hc.2.2.1, hc.2.2.2.1, hc.2.2.2.2.1, hc.2.2.2.2.2, Tree.nLeaves, Tree.nInner,
          hc.2.1]
        have := hb.1; have := hb.2
        omega
      obtain ⟨t', lg', h1, h2⟩ := ih (clear t).1 _ hc.1 hb'
      exact ⟨t', lg', by simp only [runOps]; exact h1, h2⟩

/-- `bulk_load` of an ordered range establishes the invariant and allocates exactly the nodes of the tree
(every node at least half full: the `n / (parts − i)` distribution) -/
theorem inv_bulk_load (p : Params K) (pv : p.Valid) (sw : StrictWeak p.lt) (es : List (K × V)) (hs : SortedE p.lt es) :
    ∃ t l, bulkLoad p es = some (t, l) ∧ TreeInv p t ∧ t.toList = es ∧
      l.leafAlloc = t.nLeaves ∧ l.innerAlloc = t.nInner ∧ l.leafFree = 0 ∧ l.innerFree = 0 :=
  bulkLoad_ok p pv sw es hs

/-! ## the public self-check -/

/-- `verify()` (transliterated as `verifyB`: `verify_node` with its min/max-key propagation, the fill /
order / level / separator checks and the comparison of the recount with `stats_`) **passes on every state
that satisfies the invariant** -/
theorem verify_passes (p : Params K) (pv : p.Valid) (sw : StrictWeak p.lt) (t : Tree K V) (ht : TreeInv p t) :
    verifyB p t = true :=
  verify_of_inv p pv sw t ht

/-- the property's first sentence over the model: **after every public mutating operation of every history
the tree's self-check passes** -/
theorem verify_after_every_history (p : Params K) (pv : p.Valid) (sw : StrictWeak p.lt) (ops : List (Op K V)) :
    ∃ t lg, runOps p ({} : Tree K V) {} ops = some (t, lg) ∧ verifyB p t = true := by
  obtain ⟨t, lg, h1, h2, _⟩ := inv_all_histories p pv sw ops {} {} (inv_init p) (by simp [Balanced, Tree.nLeaves, Tree.nInner])
  exact ⟨t, lg, h1, verify_passes p pv sw t h2⟩

/-- what the C++ node layout guarantees and `verify()` therefore cannot and does not check: no slot array
is overfull and an inner node with `slotuse` keys has `slotuse + 1` children (`Rep`); on an empty tree
(`root_ == nullptr`) `verify()` checks nothing, so `stats_` = 0 is a hypothesis there -/
def Representable (p : Params K) (t : Tree K V) : Prop :=
  (∀ r, t.root = some r → Rep p r.level r) ∧ (t.root = none → t.stats = {})

/-- **`verify()` characterises the invariant**: on representable states a passing self-check establishes
`TreeInv` — equal leaf depth and `level` fields, fill bounds, child counts, global key order, separators,
`stats_` = recount -/
theorem verify_characterised (p : Params K) (sw : StrictWeak p.lt) (t : Tree K V) (hrep : Representable p t)
    (hv : verifyB p t = true) : TreeInv p t := by
  obtain ⟨hr, hn⟩ := hrep
  unfold verifyB at hv
  cases hroot : t.root with
  | none =>
    refine ⟨?_, ?_, ?_⟩
    · simp only [TreeShape, hroot]; exact hn hroot
    · simp [Tree.toList, hroot, SortedE]
    · simp only [hroot]
  | some r =>
    rw [hroot] at hv
    simp only [Bool.and_eq_true, beq_iff_eq] at hv
    obtain ⟨⟨⟨h1, h2⟩, h3⟩, h4⟩ := hv
    cases hvn : verifyNode p true r.level r with
    | none => rw [hvn] at h1; cases h1
    | some ab =>
      obtain ⟨a, b⟩ := ab
      have hok := verifyNode_conv p sw r.level r true a b hvn (hr r hroot) rfl
      have htl : t.toList = flatten r.level r := by simp [Tree.toList, hroot]
      refine ⟨?_, by rw [htl]; exact hok.sorted, by simp only [hroot]; exact hok.sep⟩
      simp only [TreeShape, hroot]
      refine ⟨by simpa using hok.shape, ?_, ?_, ?_⟩
      · simp only [Tree.nLeaves, hroot] at h3; exact h3.symm
      · simp only [Tree.nInner, hroot] at h4; exact h4.symm
      · rw [htl] at h2; exact h2.symm

/-- every state satisfying the invariant is representable … -/
theorem inv_representable (p : Params K) (t : Tree K V) (ht : TreeInv p t) : Representable p t := by
  have shape_rep : ∀ (h : Nat) (n : BNode K V) (ml mi : Nat), ShapeTop p ml mi h n → Rep p h n := by
    intro h
    induction h with
    | zero =>
      intro n ml mi hs
      cases n with
      | leaf es => simp only [ShapeTop] at hs; exact hs.2
      | inner l ks kids => trivial
    | succ h ih =>
      intro n ml mi hs
      cases n with
      | leaf es => simp [ShapeTop] at hs
      | inner l ks kids =>
        simp only [ShapeTop] at hs
        obtain ⟨_, h2, _, h4, h5⟩ := hs
        exact ⟨h4, h2, fun c hc => ih c _ _ (h5 c hc).top⟩
  obtain ⟨hs, _, _⟩ := ht
  unfold TreeShape at hs
  constructor
  · intro r hr; rw [hr] at hs; exact shape_rep _ _ _ _ hs.1
  · intro hr; rw [hr] at hs; exact hs

/-- … so `verify()` passes exactly on the representable states that satisfy the invariant -/
theorem verify_iff_inv (p : Params K) (pv : p.Valid) (sw : StrictWeak p.lt) (t : Tree K V) :
    TreeInv p t ↔ (Representable p t ∧ verifyB p t = true) :=
  ⟨fun ht => ⟨inv_representable p t ht, verify_passes p pv sw t ht⟩, fun h => verify_characterised p sw t h.1 h.2⟩

/-- a container instantiated with `btree_default_traits` (slot counts extracted from btree.hpp:
`max(8, 256 / sizeof …)`) is within the capacities the theorems quantify over -/
theorem default_traits_valid (p : Params K) (sizeofValue sizeofKey sizeofPtr : Nat)
    (hl : p.leafMax = Gen.defaultLeafSlots sizeofValue) (hi : p.innerMax = Gen.defaultInnerSlots sizeofKey sizeofPtr) :
    p.Valid := by
  refine ⟨?_, ?_⟩
  · rw [hl]; unfold Gen.defaultLeafSlots; omega
  · rw [hi]; unfold Gen.defaultInnerSlots; omega

/-! ## the whole operation language, two registers

`C01.Op` / `C01.stepOp` / `C01.runOps` (Model/C01Machine.lean) are what the driver executes for every
protocol line: all forms of insert, `operator[]`, range insert / construction, `erase_one`, `erase(key)`,
`erase(iterator)`, every query, iteration, the iterator conversions, `clear`, `bulk_load`, copy
construction, assignment, both swaps (the wrapper's `std::swap` = copy + two assignments + destruction of
the temporary) and the comparisons, on two container registers.  The ledger of an operation is the
ledger of the one counting allocator all containers of a run share, so the balance is stated for the
nodes of all live trees. -/

/-- one operation from any pair of trees satisfying the invariant: never undefined; if executed, both
trees satisfy the invariant (for the comparator they then hold) and
`nodes before + allocated = nodes after + freed` -/
theorem inv_step_full (c : Cfg) (pv : c.p.Valid) (s : MSt) (h0 : TreeInv (c.params s.m0) s.t0)
    (h1 : TreeInv (c.params s.m1) s.t1) (op : C01.Op) :
    stepOp c s op = .bad ∨
    ∃ s' mo lg, stepOp c s op = .ok (s', mo, lg) ∧ TreeInv (c.params s'.m0) s'.t0 ∧ TreeInv (c.params s'.m1) s'.t1 ∧
      s.t0.nLeaves + s.t1.nLeaves + lg.leafAlloc = s'.t0.nLeaves + s'.t1.nLeaves + lg.leafFree ∧
      s.t0.nInner + s.t1.nInner + lg.innerAlloc = s'.t0.nInner + s'.t1.nInner + lg.innerFree := by
  have hrel : Rel c s { l0 := s.t0.toList, l1 := s.t1.toList, m0 := s.m0, m1 := s.m1 } := ⟨rfl, rfl, h0, h1, rfl, rfl⟩
  have := stepOp_refines c pv s _ hrel op
  cases hsp : specStep c { l0 := s.t0.toList, l1 := s.t1.toList, m0 := s.m0, m1 := s.m1 } op with
  | none => rw [hsp] at this; exact Or.inl this
  | some res =>
    obtain ⟨ss1, o⟩ := res
    rw [hsp] at this
    obtain ⟨s1, mo, l1, g1, _, g3, g4, _⟩ := this
    exact Or.inr ⟨s1, mo, l1, g1, g3.inv0, g3.inv1, g4.1, g4.2⟩

/-- **the ledger per register**: every operation other than the two swaps leaves the tree of the
register it is not addressed to untouched, and its ledger balances the node count of the addressed
register alone (`nodes before + allocated = nodes after + freed`; for `copy`/`assign` the freed nodes
are the overwritten tree's, the allocated ones the copy's).  The two swaps exchange the registers:
`BTree::swap` without any allocation, the wrappers' `std::swap` with three copies and three
destructions, balanced in total (`inv_step_full`) -/
theorem ledger_per_register (c : Cfg) (pv : c.p.Valid) (s : MSt) (h0 : TreeInv (c.params s.m0) s.t0)
    (h1 : TreeInv (c.params s.m1) s.t1) (op : C01.Op) (hx : op.exchanges = false)
    (s' : MSt) (mo : MOut) (lg : Ledger) (hstep : stepOp c s op = .ok (s', mo, lg)) :
    (op.reg = 0 → s'.t1 = s.t1) ∧ (op.reg ≠ 0 → s'.t0 = s.t0) ∧
    (s.get op.reg).nLeaves + lg.leafAlloc = (s'.get op.reg).nLeaves + lg.leafFree ∧
    (s.get op.reg).nInner + lg.innerAlloc = (s'.get op.reg).nInner + lg.innerFree := by
  have hrel : Rel c s { l0 := s.t0.toList, l1 := s.t1.toList, m0 := s.m0, m1 := s.m1 } := ⟨rfl, rfl, h0, h1, rfl, rfl⟩
  have := stepOp_refines c pv s _ hrel op
  cases hsp : specStep c { l0 := s.t0.toList, l1 := s.t1.toList, m0 := s.m0, m1 := s.m1 } op with
  | none => rw [hsp] at this; rw [hstep] at this; cases this
  | some res =>
    obtain ⟨ss1, o⟩ := res
    rw [hsp] at this
    obtain ⟨s1, mo1, l1, g1, _, _, _, g5⟩ := this
    rw [hstep] at g1
    cases g1
    obtain ⟨p1, p2, p3⟩ := g5 hx
    exact ⟨p1, p2, p3.1, p3.2⟩

/-- **for every history of the whole operation language** (two registers, any pair of comparators, every
capacity ≥ 4, both in-node searches, unique and duplicate keys): no step leaves defined behaviour; both
trees satisfy the invariant and pass `verify()`; `stats_` is the recount; allocated − freed = live nodes
of both trees; and destroying both containers returns every node (allocated = freed) -/
theorem inv_all_histories_full (c : Cfg) (pv : c.p.Valid) (m0 m1 : Nat) (ops : List C01.Op) :
    ∃ s' outs lg, C01.runOps c { m0 := m0, m1 := m1 } ops = some (s', outs, lg) ∧
      TreeInv (c.params s'.m0) s'.t0 ∧ TreeInv (c.params s'.m1) s'.t1 ∧
      verifyB (c.params s'.m0) s'.t0 = true ∧ verifyB (c.params s'.m1) s'.t1 = true ∧
      lg.leafAlloc = lg.leafFree + (s'.t0.nLeaves + s'.t1.nLeaves) ∧
      lg.innerAlloc = lg.innerFree + (s'.t0.nInner + s'.t1.nInner) ∧
      ((lg.add (clear s'.t0).2).add (clear s'.t1).2).leafAlloc = ((lg.add (clear s'.t0).2).add (clear s'.t1).2).leafFree ∧
      ((lg.add (clear s'.t0).2).add (clear s'.t1).2).innerAlloc = ((lg.add (clear s'.t0).2).add (clear s'.t1).2).innerFree := by
  obtain ⟨s', lg, h1, h2, h3⟩ := run_refines c pv ops _ _ (rel_init c m0 m1)
  have c0 := clear_ledger _ s'.t0 h2.inv0
  have c1 := clear_ledger _ s'.t1 h2.inv1
  have r0 := stats_eq_recount _ s'.t0 h2.inv0
  have r1 := stats_eq_recount _ s'.t1 h2.inv1
  simp only [Bal2, MSt.leaves, MSt.inners, Tree.nLeaves, Tree.nInner, Nat.zero_add] at h3
  refine ⟨s', _, lg, h1, h2.inv0, h2.inv1, verify_passes _ (c.params_valid pv _) (c.params_sw _) _ h2.inv0,
    verify_passes _ (c.params_valid pv _) (c.params_sw _) _ h2.inv1, ?_, ?_, ?_, ?_⟩
  · simp only [Tree.nLeaves]; omega
  · simp only [Tree.nInner]; omega
  · simp only [Ledger.add, c0.2.2.1, c0.2.2.2.2.1, c1.2.2.1, c1.2.2.2.2.1, r0.1, r1.1]
    simp only [Tree.nLeaves]; omega
  · simp only [Ledger.add, c0.2.2.2.1, c0.2.2.2.2.2, c1.2.2.2.1, c1.2.2.2.2.2, r0.2.1, r1.2.1]
    simp only [Tree.nInner]; omega

/-- the same **at every point of the history** (every prefix is a history) -/
theorem inv_at_every_point (c : Cfg) (pv : c.p.Valid) (m0 m1 : Nat) (ops : List C01.Op) (n : Nat) :
    ∃ s' outs lg, C01.runOps c { m0 := m0, m1 := m1 } (ops.take n) = some (s', outs, lg) ∧
      TreeInv (c.params s'.m0) s'.t0 ∧ TreeInv (c.params s'.m1) s'.t1 ∧
      lg.leafAlloc = lg.leafFree + (s'.t0.nLeaves + s'.t1.nLeaves) ∧
      lg.innerAlloc = lg.innerFree + (s'.t0.nInner + s'.t1.nInner) := by
  obtain ⟨s', outs, lg, h1, h2, h3, _, _, h6, h7, _⟩ := inv_all_histories_full c pv m0 m1 (ops.take n)
  exact ⟨s', outs, lg, h1, h2, h3, h6, h7⟩

/-! ## every node is returned to the allocator instance it was obtained from

`stepA` (Model/C01Machine.lean; what the driver executes) is `stepOp` together with the allocator instance
each register's tree holds and the operation's ledger split by the instance each part goes through
(`arenaParts`, in execution order).  The instances follow the code: the copy constructor and `operator=`
take the source's instance unconditionally, *after* `clear()` has returned the old nodes through the old
one; `BTree::swap` exchanges the instances with the trees; the wrappers' `std::swap` is copy + two
assignments + destruction; the range constructor of the harness uses the register's own instance. -/

/-- one operation: never undefined, invariant kept, and **for every allocator instance separately**
`nodes of the trees holding it before + obtained from it = nodes after + returned to it` -/
theorem allocator_instances_step (c : Cfg) (pv : c.p.Valid) (s : ASt) (h0 : TreeInv (c.params s.m.m0) s.m.t0)
    (h1 : TreeInv (c.params s.m.m1) s.m.t1) (op : C01.Op) :
    stepA c s op = .bad ∨
    ∃ s' mo lg parts, stepA c s op = .ok (s', mo, lg, parts) ∧ TreeInv (c.params s'.m.m0) s'.m.t0 ∧
      TreeInv (c.params s'.m.m1) s'.m.t1 ∧ ABal s s' parts ∧ sumAll parts = lg := by
  rcases stepA_ok c pv s h0 h1 op with h | ⟨s', mo, lg, parts, g1, g2, g3, g4⟩
  · exact Or.inl h
  · exact Or.inr ⟨s', mo, lg, parts, g1, g2, g3, g4, parts_total c s op s' mo lg parts g1⟩

/-- **every history of the whole operation language**, two registers constructed with different allocator
instances: at the end (hence at every point) every instance has handed out exactly the nodes of the trees
that hold it plus what was returned to it, and after destroying both containers — each through the instance
it holds — every instance has got back everything it handed out -/
theorem allocator_instances_all_histories (c : Cfg) (pv : c.p.Valid) (m0 m1 : Nat) (ops : List C01.Op) :
    ∃ s' parts, runA c { m := { m0 := m0, m1 := m1 } } ops = some (s', parts) ∧
      (∀ a, (sumFor a parts).leafAlloc = (sumFor a parts).leafFree + s'.liveL a ∧
            (sumFor a parts).innerAlloc = (sumFor a parts).innerFree + s'.liveI a) ∧
      (∀ a, (sumFor a (parts ++ [(s'.a0, (clear s'.m.t0).2), (s'.a1, (clear s'.m.t1).2)])).leafAlloc =
              (sumFor a (parts ++ [(s'.a0, (clear s'.m.t0).2), (s'.a1, (clear s'.m.t1).2)])).leafFree ∧
            (sumFor a (parts ++ [(s'.a0, (clear s'.m.t0).2), (s'.a1, (clear s'.m.t1).2)])).innerAlloc =
              (sumFor a (parts ++ [(s'.a0, (clear s'.m.t0).2), (s'.a1, (clear s'.m.t1).2)])).innerFree) := by
  obtain ⟨s', parts, h1, h2, h3, h4⟩ := runA_ok c pv ops { m := { m0 := m0, m1 := m1 } } (treeInv_empty _) (treeInv_empty _)
  have k0 := clear_ledger_eq _ s'.m.t0 h2
  have k1 := clear_ledger_eq _ s'.m.t1 h3
  refine ⟨s', parts, h1, ?_, ?_⟩
  · intro a
    have := h4 a
    simp only [ASt.liveL, ASt.liveI, Tree.nLeaves, Tree.nInner, if_true, Nat.add_zero, ite_self, Nat.zero_add] at this ⊢
    omega
  · intro a
    have := h4 a
    rw [sumFor_append]
    simp only [sumFor, k0, k1, ASt.liveL, ASt.liveI, Tree.nLeaves, Tree.nInner, ite_self, Nat.add_zero, Nat.zero_add] at this ⊢
    by_cases ha : s'.a0 = a <;> by_cases hb : s'.a1 = a <;> simp [ha, hb, Ledger.add] at this ⊢ <;> omega

/-! ## the branch trace used for the coverage report

`drv_c0x trace` reports for every erase which branch of `erase_one_descend` / `erase_iter_descend` each
frame took in the model (checks/c01.py plans the deep-tree cases with it and puts the coverage table into
the evidence).  The traced descent is the model's descent, and the reported row of the underflow case
table is the row whose action the model executes. -/

theorem trace_is_model (p : Params K) (tg : Target K) (h : Nat) (n : BNode K V) (ctx : Ctx K V) :
    (eraseDescendT p tg h n ctx).map (Option.map Prod.fst) = eraseDescend p tg h n ctx :=
  eraseDescendT_fst p tg h n ctx

theorem trace_row_is_decision (minUse : Nat) (leftUse rightUse lp rp par : Option Nat) :
    decideFix minUse leftUse rightUse lp rp par = (decideRow minUse leftUse rightUse lp rp par).fix :=
  decideFix_eq_row minUse leftUse rightUse lp rp par

end TlxVerif.C02
