import TlxVerif.Model.C01Tree
import TlxVerif.Model.C01Erase
namespace TlxVerif.C02
open TlxVerif.C01

theorem ledger_add_zero (a : Ledger) : a.add {} = a := by
  cases a; simp [Ledger.add]

end TlxVerif.C02
