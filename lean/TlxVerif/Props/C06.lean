/-
C06 — parallel_mergesort sorts (stably when asked) for every size and thread count; temporaries destroyed.

Property theorems (all n, all thread counts p ≥ 1, any strict weak order, both splittings):
  * `starts_spec`                      — p+1 non-decreasing slice boundaries 0 … n
  * `slices_tile_input`                — the slices copied into the temporaries tile the input
  * `stable_sort_characterisation`     — `sortStable` is THE (key, original position)-sorted permutation
                                         (= the arrangement std::stable_sort produces)
  * `exact_mergesort_is_stable_sort`   — exact splitting: concatenation of the per-thread merges = stable sort
  * `sampling_mergesort_is_stable_sort`— sampling splitting, any non-decreasing splitters: the same
  * `unstable_mergesort_sorted_perm`   — unstable variant: sorted permutation of the input
  * `merge_windows_tile`               — each position of the range is written by exactly one thread
  * `merge_back_all_schedules`         — between two barriers: threads with disjoint write windows reading only
                                         the temporaries commute, every interleaving gives the same range
  * `temporaries_ledger_balanced`      — n objects constructed in raw storage, n destroyed
  * `model_refines_spec`               — END TO END: the executed model `pmsort` returns the stable sort, adjacent
                                         merge windows, balanced ledger — all n, threads ≥ 1, both splittings;
                                         no assumption about multisequence_partition (C08 refinement_correct)
  * `small_input_untouched`            — n ≤ 1: nothing happens
Local `std::(stable_)sort` and the per-thread `multiway_merge_base` (C05) are their specifications;
offset vectors of exact splitting are assumed to satisfy the C08 specification.
-/
import TlxVerif.Proofs.C06Sampling
import TlxVerif.Proofs.C07Phases
import TlxVerif.Proofs.C06Refine
import TlxVerif.Proofs.C07Final
import TlxVerif.Proofs.C08Checker
namespace TlxVerif.C06
open TlxVerif.C08 (StrictWeak IsPartition)
open TlxVerif.C07 (Elem kMerge sortStable Tlt keyRuns chunkRows lastRank)

theorem starts_spec (n p : Nat) (hp : 1 ≤ p) :
    (startsOf n p).length = p + 1 ∧ (startsOf n p).head? = some 0 ∧ (startsOf n p).getLast? = some n ∧
    (startsOf n p).Pairwise (· ≤ ·) :=
  startsOf_spec n p hp

example : startsOf 7 3 = [0, 3, 5, 7] := by decide
example : startsOf 3 3 = [0, 1, 2, 3] := by decide

theorem slices_tile_input (input : List Elem) (p : Nat) (hp : 1 ≤ p) :
    (slicesBy input (startsOf input.length p)).flatten = input := by
  obtain ⟨_, h0, hl, hm⟩ := startsOf_spec input.length p hp
  rw [slicesBy_flatten input _ 0 h0 hm _ hl]; simp

theorem stable_sort_characterisation {lt : Int → Int → Bool} (hlt : StrictWeak lt) {input : List Elem}
    (hpos : input.Pairwise posLt) :
    (sortStable lt input).Perm input ∧ (sortStable lt input).Pairwise (Tlt lt posLt) ∧
    ∀ out : List Elem, out.Perm input → out.Pairwise (Tlt lt posLt) → out = sortStable lt input :=
  ⟨C07.sortStable_perm lt _, C07.sortStable_sorted hlt tagOrder_posLt _ (cond_of_posLt hpos),
   fun _ hp hs => (C07.sortStable_unique hlt tagOrder_posLt (cond_of_posLt hpos) hs hp).symm⟩

theorem exact_mergesort_is_stable_sort {lt : Int → Int → Bool} (hlt : StrictWeak lt) {input : List Elem}
    (hpos : input.Pairwise posLt) (p : Nat) (hp : 1 ≤ p) (ps : List (Nat × List Nat))
    (hm : (0 :: ps.map (·.1)).Pairwise (· ≤ ·))
    (hall : ∀ q ∈ ps, IsPartition lt
      (keyRuns ((slicesBy input (startsOf input.length p)).map (sortStable lt))) q.1 q.2)
    (hlast : lastRank 0 ps = input.length) :
    ((chunkRows ((slicesBy input (startsOf input.length p)).map (sortStable lt))
        (List.replicate ((slicesBy input (startsOf input.length p)).map (sortStable lt)).length 0)
        (ps.map (·.2))).map (fun row => kMerge lt row)).flatten = sortStable lt input := by
  obtain ⟨_, h0, hl, hmono⟩ := startsOf_spec input.length p hp
  exact mergesort_exact_eq_stable_sort hlt hpos h0 hmono hl ps hm hall hlast

theorem sampling_mergesort_is_stable_sort {lt : Int → Int → Bool} (hlt : StrictWeak lt) {input : List Elem}
    (hpos : input.Pairwise posLt) (p : Nat) (hp : 1 ≤ p) (vs : List Int)
    (hvs : vs.Pairwise (fun a b => lt b a = false)) :
    ((chunkRows ((slicesBy input (startsOf input.length p)).map (sortStable lt))
        (List.replicate ((slicesBy input (startsOf input.length p)).map (sortStable lt)).length 0)
        (samplingOffsLb lt ((slicesBy input (startsOf input.length p)).map (sortStable lt)) vs)).map
      (fun row => kMerge lt row)).flatten = sortStable lt input := by
  obtain ⟨_, h0, hl, hmono⟩ := startsOf_spec input.length p hp
  exact mergesort_sampling_eq_stable_sort hlt hpos h0 hmono hl vs hvs

/-- **Unstable variant** (`parallel_mergesort`): whatever key-sorted arrangement the local `std::sort`s
leave in the temporaries (tagged by thread and position *in the temporary*), the concatenation of the
per-thread merges is a permutation of the input in non-decreasing comparator order. -/
theorem unstable_mergesort_sorted_perm {lt : Int → Int → Bool} (hlt : StrictWeak lt) {input : List Elem}
    {temps : List (List Elem)} (hw : C07.WellTagged temps) (hk : C07.KeySorted lt temps)
    (hperm : temps.flatten.Perm input) (ps : List (Nat × List Nat))
    (hm : (0 :: ps.map (·.1)).Pairwise (· ≤ ·)) (hall : ∀ q ∈ ps, IsPartition lt (keyRuns temps) q.1 q.2)
    (hlast : lastRank 0 ps = input.length) :
    (((chunkRows temps (List.replicate temps.length 0) (ps.map (·.2))).map (fun row => kMerge lt row)).flatten).Perm input ∧
    (((chunkRows temps (List.replicate temps.length 0) (ps.map (·.2))).map (fun row => kMerge lt row)).flatten).Pairwise
      (fun a b => lt b.key a.key = false) := by
  have hg := C07.goodRuns_of_wellTagged hw hk
  rw [C07.exact_concat_eq_take_kMerge hlt C07.tagOrder_tagLt hg ps hm hall, hlast]
  have hlen : (kMerge lt temps).length = input.length := by
    rw [C07.kMerge_eq_sortStable, C07.sortStable_length]; exact hperm.length_eq
  rw [List.take_of_length_le (by omega)]
  refine ⟨(C07.sortStable_perm lt _).trans hperm, ?_⟩
  refine List.Pairwise.imp ?_ (C07.sortStable_sorted hlt C07.tagOrder_tagLt _ hg.cond)
  intro a b hab
  rcases hab with hab | ⟨hab, _⟩
  · exact hlt.asymm _ _ hab
  · exact hab

/-- consecutive merge windows (lengths `ls`, Σ = n) tile `[0, n)`: exactly one writer per position -/
theorem merge_windows_tile (ls : List Nat) (k : Nat) (hk : k < ls.sum) :
    ∃ t, t < ls.length ∧ (ls.take t).sum ≤ k ∧ k < (ls.take (t + 1)).sum ∧
      ∀ t', t' < ls.length → (ls.take t').sum ≤ k → k < (ls.take (t' + 1)).sum → t' = t :=
  C07.windows_tile ls k hk

/-- **All schedules of the merge-back phase** (between the last two barriers): thread `t` assigns only the
positions of its window of the caller's range (`inl k`) and reads only temporaries (`inr j`, written by
nobody in this phase) ⇒ every interleaving respecting program order leaves the same memory.  The copy phase
(thread t writes only its own temporary, reads only its slice) is the same theorem with the roles of the
two regions exchanged. -/
theorem merge_back_all_schedules {Val : Type} (ls : List Nat) (progs : List (List (Phases.Step Phases.Cell Val)))
    (h : ∀ (t : Nat) (p : List (Phases.Step Phases.Cell Val)), progs[t]? = some p → ∀ s ∈ p,
      Phases.ReadsInputsOnly s ∧ Phases.WritesWindow (ls.take t).sum (ls.take (t + 1)).sum s)
    {l₁ l₂ : List (Phases.Step Phases.Cell Val)} (h₁ : Phases.Shuffle progs l₁) (h₂ : Phases.Shuffle progs l₂)
    (m : Phases.Cell → Val) : Phases.exec l₁ m = Phases.exec l₂ m :=
  Phases.merge_phase_schedule_independent ls progs h h₁ h₂ m

theorem temporaries_ledger_balanced (n p : Nat) (hp : 1 ≤ p) :
    (ledger (startsOf n p)).1 = n ∧ (ledger (startsOf n p)).2 = n :=
  ledger_balanced n p hp

theorem small_input_untouched (P : Params) (input : List Elem) (h : input.length ≤ 1) :
    pmsort P input = .ok { out := input, copyWindows := [], mergeWindows := [], constructed := 0, destroyed := 0 } := by
  rw [pmsort_unfold, if_pos h]

/-- **End to end** (closes the former OPEN item `pmsort_refines_spec`): the executable model of
`parallel_mergesort_base` — the function the driver runs — succeeds and leaves the stable sort of the input;
every temporary object it constructs is destroyed; for n ≥ 2 the per-thread merge windows are adjacent and
tile `[0, n)` and exactly n temporaries are constructed.  All inputs whose elements carry their positions,
threads ≥ 1, oversampling ≥ 1, exact and sampling splitting; with the C08 correctness theorem no assumption
about `multisequence_partition` is left. -/
theorem model_refines_spec (P : Params) (hlt : StrictWeak P.lt) (input : List Elem) (hpos : input.Pairwise posLt)
    (hthr : 1 ≤ P.threads) (hosf : 1 ≤ P.osf) :
    ∃ r, pmsort P input = .ok r ∧ r.out = sortStable P.lt input ∧ r.constructed = r.destroyed ∧
      (2 ≤ input.length → C07.TileFrom 0 input.length r.mergeWindows ∧ r.constructed = input.length) :=
  pmsort_correct P hlt input hpos hthr hosf

/-! ### non-vacuity: 7 elements, 3 threads, two keys -/

def exInput : List Elem := [⟨3, 0, 0⟩, ⟨1, 0, 1⟩, ⟨2, 0, 2⟩, ⟨1, 0, 3⟩, ⟨3, 0, 4⟩, ⟨2, 0, 5⟩, ⟨1, 0, 6⟩]
def exLt : Int → Int → Bool := fun a b => decide (a < b)
theorem exLt_strictWeak : StrictWeak exLt :=
  ⟨by intro a b h; simp [exLt] at *; omega, by intro a b c h; simp [exLt] at *; omega⟩
instance : DecidableRel posLt := fun a b => by unfold posLt; exact inferInstance
theorem exInput_pos : exInput.Pairwise posLt := by decide

-- the temporaries of the three threads and the partitions at ranks starts[1] = 3, starts[2] = 5, n = 7
example : (slicesBy exInput (startsOf 7 3)).map (sortStable exLt) =
    [[⟨1, 0, 1⟩, ⟨2, 0, 2⟩, ⟨3, 0, 0⟩], [⟨1, 0, 3⟩, ⟨3, 0, 4⟩], [⟨1, 0, 6⟩, ⟨2, 0, 5⟩]] := by decide

def exPs : List (Nat × List Nat) := [(3, [1, 1, 1]), (5, [2, 1, 2]), (7, [3, 2, 2])]

example : ((chunkRows ((slicesBy exInput (startsOf exInput.length 3)).map (sortStable exLt)) [0, 0, 0]
      (exPs.map (·.2))).map (fun row => kMerge exLt row)).flatten = sortStable exLt exInput := by
  refine exact_mergesort_is_stable_sort exLt_strictWeak exInput_pos 3 (by decide) exPs (by decide) ?_ (by decide)
  have hs : ∀ r ∈ keyRuns ((slicesBy exInput (startsOf exInput.length 3)).map (sortStable exLt)),
      C08.SortedRun exLt r := C08.allSorted_sound exLt_strictWeak (by decide)
  intro q hq
  simp only [exPs, List.mem_cons, List.mem_nil_iff, or_false] at hq
  rcases hq with rfl | rfl | rfl <;> exact C08.checkPartition_sound exLt_strictWeak hs (by decide)

example : sortStable exLt exInput =
    [⟨1, 0, 1⟩, ⟨1, 0, 3⟩, ⟨1, 0, 6⟩, ⟨2, 0, 2⟩, ⟨2, 0, 5⟩, ⟨3, 0, 0⟩, ⟨3, 0, 4⟩] := by decide

example : ∃ r, pmsort { lt := exLt, stable := true, exact := true, threads := 3, osf := 2 } exInput = .ok r ∧
    r.out = sortStable exLt exInput ∧ r.constructed = r.destroyed :=
  let ⟨r, h1, h2, h3, _⟩ := model_refines_spec { lt := exLt, stable := true, exact := true, threads := 3, osf := 2 }
    exLt_strictWeak exInput exInput_pos (by decide) (by decide)
  ⟨r, h1, h2, h3⟩

example : ∃ r, pmsort { lt := exLt, stable := true, exact := false, threads := 4, osf := 3 } exInput = .ok r ∧
    r.out = sortStable exLt exInput :=
  let ⟨r, h1, h2, _⟩ := model_refines_spec { lt := exLt, stable := true, exact := false, threads := 4, osf := 3 }
    exLt_strictWeak exInput exInput_pos (by decide) (by decide)
  ⟨r, h1, h2⟩

-- (the former OPEN item pmsort_refines_spec is closed by `model_refines_spec`; the C08 correctness theorem
--  `C08.msp_correct_lists` discharges the hypothesis about multisequence_partition.)
-- OPEN: schedule_independence — `merge_back_all_schedules` proves it per phase for the asserted window
--   footprints; that the phases are separated (ThreadBarrierMutex is a barrier, C11) and that the real code's
--   accesses stay inside those footprints is checked by the harness (per-position writer / copier, counts)
--   and ThreadSanitizer, not derived from the C++; sequentially consistent memory is assumed.

end TlxVerif.C06
