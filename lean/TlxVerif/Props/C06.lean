/-
C06 — parallel_mergesort (property theorems; under construction)
-/
import TlxVerif.Model.C06Pms
namespace TlxVerif.C06

theorem pmsort_small (P : Params) (input : List C07.Elem) (h : input.length ≤ 1) :
    pmsort P input = .ok { out := input, copyWindows := [], mergeWindows := [], constructed := 0, destroyed := 0 } := by
  unfold pmsort
  simp [h]
  rfl

end TlxVerif.C06
