/-
C04 — property theorems (under construction: see notes/C04.md).
-/
import TlxVerif.Model.C04Sort
namespace TlxVerif.C04

/-- `fill_lcp` writes one entry per string of the range -/
theorem fillLcp_length (n v : Nat) : (fillLcp n v).length = n := by
  cases n <;> simp [fillLcp]

end TlxVerif.C04
