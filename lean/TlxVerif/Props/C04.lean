/-
C04 — property theorems.

Part 1 (this section): the sort-step protocol of pS5 (Model/C04Proto.lean) under every
interleaving, every job tree and any number of workers.
  * `proto_fixed_safe`            no transition touches a deleted step, no counter underflows,
                                  `delete this` only at counter 0 (fixed code)
  * `proto_counter_eq`            substep_working_ = pending notifications + held handle +
                                  children that still owe their notification
  * `proto_quiescent_all_deleted` when the pool is quiescent every step (in particular the
                                  root) has been deleted
  * `proto_deleted_exactly_once`  along every run each step is destroyed at most once, and
                                  exactly once when the pool is quiescent
  * `proto_phase_stage`, `proto_phase_at_most_once`, `proto_phase_exactly_once`, `proto_phase_jobs`
                                  sample() / count_finished() / distribute_finished() run exactly once per step
  * `proto_orig_D24*`, `proto_orig_loop_uaf`   the code as it was found reaches a use-after-free
  * `proto_ranking`, `proto_progress`, `proto_reaches_quiescent`, `proto_terminates`   termination: a ranking
                                  function decreases with every step that does not create a sub-step

Part 2: the functional layer (Model/C04Key, C04Classify, C04Sort).
  * `key_*`                       the 64-bit key helper functions: key order is string order,
                                  `clz(a ^ b)/8` and `8 - ctz(a)/8` are the LCP contributions the sorter adds
  * `subjobs_write_disjoint`, `subjobs_order_irrelevant`   bucket ranges are disjoint; the arrays do
                                  not depend on the order in which the sub-jobs run
  * `distribution_is_partition`, `bucket_bounds_cover`, `equal_bucket_is_splitter`, `classification_monotone`,
    `classification_lower_bound`, `builder_writes_search_tree`, `classification_monotone_build`   classification /
    distribution; `index_ok`, `splitter_lcp_entries`
  * `sample_sort_step_lemma`      buckets sorted with exact inner LCPs ⇒ after `ps5_sample_sort_lcp` the whole
                                  range is sorted with exact LCPs
  * `sortAll_correct`, `sortAll_answer_unique`, `sortM_correct`   the end-to-end theorem: every parameter set and
                                  chooser, sorted permutation, exact LCPs, no out-of-bounds read
  * `sortAll_terminates`, `sortM_terminates`   the recursion terminates: fuel 3·(characters + strings) + 3
                                  suffices, the model is total
-/
import TlxVerif.Proofs.C04ProtoInv
import TlxVerif.Proofs.C04Term
import TlxVerif.Proofs.C04Phase
import TlxVerif.Proofs.C04Str
import TlxVerif.Proofs.C04Assemble
import TlxVerif.Proofs.C04Step
import TlxVerif.Proofs.C04Classify
import TlxVerif.Proofs.C04Tree
import TlxVerif.Proofs.C04Index
import TlxVerif.Proofs.C04Slcp
import TlxVerif.Proofs.C04Main
import TlxVerif.Model.C04Sort
namespace TlxVerif.C04

open Proto

/-- `fill_lcp` writes one entry per string of the range -/
theorem fillLcp_length (n v : Nat) : (fillLcp n v).length = n := by
  cases n <;> simp [fillLcp]

/-! ### the protocol under all interleavings -/

/-- **Memory safety and counter discipline of the fixed code.**  In every reachable state of
the fixed configuration no error was recorded: every executed instruction found its step
object alive (no touch of a released work item), no `substep_working_`/`pwork_` decrement
happened at 0, and every `delete this` found `substep_working_ == 0` on a live object. -/
theorem proto_fixed_safe {s : State} (h : Reachable Cfg.fixed s) : s.err = none :=
  (inv_reachable h).err

/-- every pending instruction refers to a live step (the statement behind `proto_fixed_safe`) -/
theorem proto_refs_alive {s : State} (h : Reachable Cfg.fixed s) :
    ∀ t ∈ s.tasks, ∀ i ∈ t, aliveAt s.objs i.subj = true :=
  (inv_reachable h).refsAlive

/-- **Counter = outstanding children + held handle.**  For a live step the atomic counter
equals the number of pending `substep_notify_done()` calls on it (the released-later handle,
children whose completion is already running towards the parent), of sub-steps about to be
created after their `substep_add()`, and of existing children that have not notified yet. -/
theorem proto_counter_eq {s : State} (h : Reachable Cfg.fixed s) {id : Nat} {o : Obj}
    (ho : s.objs[id]? = some o) (ha : o.alive = true) :
    o.cnt = N (isTok id) s + owedTo id s :=
  ((inv_reachable h).loc id o ho ha).1

/-- a step whose deletion is pending has counter 0 and nobody else refers to it afterwards -/
theorem proto_delete_at_zero {s : State} (h : Reachable Cfg.fixed s) {id : Nat} {o : Obj}
    (ho : s.objs[id]? = some o) (ha : o.alive = true) (hd : 0 < N (isDel id) s) :
    o.cnt = 0 ∧ N (isDel id) s = 1 := by
  have hl := (inv_reachable h).loc id o ho ha
  simp only [LocalP, countsOf, N] at hl hd ⊢
  obtain ⟨_, _, _, _, _, h6, h7, _⟩ := hl
  have := h7 hd
  exact ⟨this.2, (h6 this.1 this.2).2⟩

theorem NT_quiescent {tasks : List (List Instr)} (hq : ∀ t ∈ tasks, t = []) (q : Instr → Bool) : NT q tasks = 0 := by
  rcases Nat.eq_zero_or_pos (NT q tasks) with h0 | hpos
  · exact h0
  · obtain ⟨t, ht, i, hi, _⟩ := (NT_pos_iff _ _).1 hpos
    rw [hq t ht] at hi; simp at hi

/-- **The pool becomes quiescent only after every step, in particular the root, was deleted.** -/
theorem proto_quiescent_all_deleted {s : State} (h : Reachable Cfg.fixed s) (hq : s.quiescent) :
    ∀ id, aliveAt s.objs id = false := by
  have hinv := inv_reachable h
  have key : ∀ n id, s.objs.length - id ≤ n → aliveAt s.objs id = true → False := by
    intro n
    induction n with
    | zero =>
      intro id hn ha
      have := aliveAt_lt ha; omega
    | succ n ih =>
      intro id hn ha
      obtain ⟨o, ho, hal⟩ := aliveAt_iff.1 ha
      have hl := hinv.loc id o ho hal
      simp only [LocalP, countsOf] at hl
      have hlive := hl.2.2.2.2.2.2.2.2.2.1
      rw [NT_quiescent hq] at hlive
      rcases hlive with h0 | hw
      · omega
      · simp only [owedTo] at hw
        obtain ⟨⟨c, p⟩, hcp, hpid⟩ := List.countP_pos_iff.1 hw
        simp at hpid; subst hpid
        obtain ⟨hca, _, hlt, _⟩ := hinv.owedOk c p hcp
        have := aliveAt_lt hca
        exact ih c (by omega) hca
  intro id
  cases hal : aliveAt s.objs id with
  | false => rfl
  | true => exact absurd hal (fun h' => key _ id (Nat.le_refl _) h')

/-! ### runs with their counter events -/

theorem count_destroy_evs (cfg : Cfg) (objs : List Obj) (owed : List (Nat × Nat)) (ch : Choice) (i : Instr) (j : Nat) :
    ((execHead cfg objs owed ch i).evs.count (.destroy j) = 0) ∨
    (i = .del j ∧ (execHead cfg objs owed ch i).evs = [.destroy j] ∧ (execHead cfg objs owed ch i).err = none ∧
      (execHead cfg objs owed ch i).objs = modObj objs j (fun o => { o with alive := false }) ∧ aliveAt objs j = true) := by
  unfold execHead
  by_cases hal : aliveAt objs i.subj = true
  · obtain ⟨o, ho, _⟩ := aliveAt_iff.1 hal
    simp only [hal, not_true_eq_false, if_false, ho]
    cases i <;> simp only [Instr.subj] at hal ho ⊢
    case del id =>
      by_cases hc : o.cnt = 0
      · by_cases hj : id = j
        · subst hj; right; simp [hc, hal]
        · left; simp [hc, hj]
      · left; simp [hc]
    all_goals (left; (try split) <;> (try split) <;> simp)
  · left; simp [hal]

/-- no destroy event mentions a step that does not exist (yet) -/
theorem destroy_fresh {cfg : Cfg} {s : State} {evs : List Event} (h : Run cfg s evs) :
    ∀ n, s.objs.length ≤ n → evs.count (.destroy n) = 0 := by
  induction h with
  | init k parts => intro n _; simp
  | step pre i rest post ch hr ht he ih =>
    rename_i s evs
    intro n hn
    simp only at hn
    have hlen := execHead_length_le cfg s.objs s.owed ch i
    rw [List.count_append, ih n (by omega)]
    rcases count_destroy_evs cfg s.objs s.owed ch i n with h0 | ⟨_, _, _, _, hal⟩
    · omega
    · have := aliveAt_lt hal; omega

/-- along a run of the fixed code a step is destroyed exactly when it is no longer alive, hence
at most once -/
theorem proto_destroy_count {s : State} {evs : List Event} (h : Run Cfg.fixed s evs) :
    ∀ id o, s.objs[id]? = some o → evs.count (.destroy id) = if o.alive then 0 else 1 := by
  induction h with
  | init k parts =>
    intro id o ho
    rcases id with _ | id
    · simp [init] at ho; subst ho; simp
    · simp [init] at ho
  | step pre i rest post ch hr ht he ih =>
    rename_i s evs
    intro id o ho
    simp only at ho
    rw [List.count_append]
    rcases count_destroy_evs Cfg.fixed s.objs s.owed ch i id with h0 | ⟨rfl, hev, _, hobjs, hal⟩
    · -- no destroy event for `id`: its alive flag is unchanged (or it was just created)
      rw [h0, Nat.add_zero]
      have hsafe := (inv_reachable hr.reachable)
      have hia : aliveAt s.objs i.subj = true := hsafe.refsAlive (i :: rest) (by simp [ht]) i (by simp)
      obtain ⟨oi, hoi, hai⟩ := aliveAt_iff.1 hia
      revert ho h0
      unfold execHead
      simp only [hia, not_true_eq_false, if_false, hoi]
      cases i <;> simp only [Instr.subj] at hia hoi ⊢
      case acc => intro ho _; exact ih id o ho
      case enq => intro ho _; exact ih id o ho
      case loop => cases ch <;> (intro ho _; exact ih id o ho)
      case startLoop a ph =>
        intro ho _
        rw [modObj_get] at ho
        by_cases hj : id = a
        · subst hj; simp [hoi] at ho; subst ho; simpa using ih id oi hoi
        · simp [hj] at ho; exact ih id o ho
      case decPwork a ph =>
        split
        · intro ho _; exact ih id o ho
        · intro ho _
          rw [modObj_get] at ho
          by_cases hj : id = a
          · subst hj; simp [hoi] at ho; subst ho; simpa using ih id oi hoi
          · simp [hj] at ho; exact ih id o ho
      case incrH a big =>
        intro ho _
        rw [modObj_get] at ho
        by_cases hj : id = a
        · subst hj; simp [hoi] at ho; subst ho; simpa using ih id oi hoi
        · simp [hj] at ho; exact ih id o ho
      case incrC a k parts =>
        intro ho _
        rw [modObj_get] at ho
        by_cases hj : id = a
        · subst hj; simp [hoi] at ho; subst ho; simpa using ih id oi hoi
        · simp [hj] at ho; exact ih id o ho
      case notify a =>
        split
        · intro ho _; exact ih id o ho
        · intro ho _
          rw [modObj_get] at ho
          by_cases hj : id = a
          · subst hj; simp [hoi] at ho; subst ho; simpa using ih id oi hoi
          · simp [hj] at ho; exact ih id o ho
      case rpn a =>
        split <;> (intro ho _; exact ih id o ho)
      case newChild a k parts =>
        intro ho _
        rcases Nat.lt_trichotomy id s.objs.length with hl | hl | hl
        · rw [get_append_lt hl] at ho; exact ih id o ho
        · subst hl
          simp at ho; subst ho
          -- the new step was never destroyed: no event mentions it
          have : evs.count (.destroy s.objs.length) = 0 := by
            rcases Nat.eq_zero_or_pos (evs.count (.destroy s.objs.length)) with h0 | hpos
            · exact h0
            · exfalso
              -- every destroy event belongs to an existing object (by the induction hypothesis on a dummy lookup)
              exact absurd hpos (by
                have : ∀ n, s.objs.length ≤ n → evs.count (.destroy n) = 0 := by
                  intro n hn
                  exact destroy_fresh hr n hn
                rw [this _ (Nat.le_refl _)]; omega)
          simp [childObj, this]
        · have : (s.objs ++ [childObj a parts])[id]? = none := by
            apply List.getElem?_eq_none; simp; omega
          rw [this] at ho; cases ho
      case del a =>
        split
        · intro ho _; exact ih id o ho
        · intro ho h0
          rw [modObj_get] at ho
          by_cases hj : id = a
          · subst hj; simp at h0
          · simp [hj] at ho; exact ih id o ho
    · -- the destroy event of `id`
      rw [hev]
      obtain ⟨oi, hoi, hai⟩ := aliveAt_iff.1 hal
      rw [hobjs, modObj_get] at ho
      simp [hoi] at ho; subst ho
      have := ih id oi hoi
      simp [hai] at this
      simp [this]

/-- **Every step is deleted exactly once.**  When the pool is quiescent, the event history of
the run contains exactly one `destroy` for every step object that was ever created. -/
theorem proto_deleted_exactly_once {s : State} {evs : List Event} (h : Run Cfg.fixed s evs) (hq : s.quiescent)
    {id : Nat} (hid : id < s.objs.length) : evs.count (.destroy id) = 1 := by
  have hdead := proto_quiescent_all_deleted h.reachable hq id
  have ho : s.objs[id]? = some s.objs[id] := List.getElem?_eq_getElem hid
  have := proto_destroy_count h id _ ho
  have hal : s.objs[id].alive = false := by
    unfold aliveAt at hdead; rw [ho] at hdead; exact hdead
  simpa [hal] using this

/-! ### every phase transition exactly once -/

/-- **The stage of a big step.**  Along every run of the fixed code, for every step `id`: with
`st` = number of `pwork_ = parts_` stores so far (`sample()`, `count_finished()`) and `z` = number of
times `--pwork_` reached 0 (a phase completed: `count_finished()` resp. `distribute_finished()` starts),
`(st, z)` is one of (0,0), (1,0), (1,1), (2,1), (2,2), and the pending instructions match: before
`sample()` at most one pending `startLoop`; in (1,0) only count jobs are pending (at least one); in (1,1)
exactly the `startLoop` of `count_finished()` and no part job; in (2,1) only distribute jobs; in (2,2)
nothing of the phase protocol.  (The code `--pwork_; if (pwork_ == 0) …` is not this system: there two
jobs can both see 0, which is the third store / second completion this theorem excludes.) -/
theorem proto_phase_stage {s : State} {evs : List Event} (h : Run Cfg.fixed s evs) (id : Nat) :
    PhaseOk (N (isStartPh id .count) s) (N (isStartPh id .dist) s) (N (isPendPh id .count) s)
      (N (isPendPh id .dist) s) (nStore id evs) (nZero id evs) := (phInv_run h).ok id

/-- **Each phase transition runs at most once**: at most two stores and two completions per step,
strictly alternating (store, completion, store, completion). -/
theorem proto_phase_at_most_once {s : State} {evs : List Event} (h : Run Cfg.fixed s evs) (id : Nat) :
    nStore id evs ≤ 2 ∧ nZero id evs ≤ nStore id evs ∧ nStore id evs ≤ nZero id evs + 1 := by
  have := (phInv_run h).ok id
  unfold PhaseOkAt PhaseOk at this
  rcases this with h | h | h | h | h <;> omega

/-- **… and exactly once when the pool is quiescent**: a step that ever armed `pwork_` (a big step whose
`sample()` ran — at quiescence every big step) went through exactly two stores and two completions, i.e.
`sample()`, `count_finished()` and `distribute_finished()` ran exactly once each; other steps through none. -/
theorem proto_phase_exactly_once {s : State} {evs : List Event} (h : Run Cfg.fixed s evs) (hq : s.quiescent)
    (id : Nat) : (nStore id evs = 0 ∧ nZero id evs = 0) ∨ (nStore id evs = 2 ∧ nZero id evs = 2) := by
  have := (phInv_run h).ok id
  unfold PhaseOkAt PhaseOk at this
  rw [NT_quiescent hq, NT_quiescent hq, NT_quiescent hq, NT_quiescent hq] at this
  rcases this with h | h | h | h | h <;> omega

/-- while a count job of step `id` is pending, `count_finished()` has not started; while a distribute job is
pending, `count_finished()` ran exactly once and `distribute_finished()` not yet -/
theorem proto_phase_jobs {s : State} {evs : List Event} (h : Run Cfg.fixed s evs) (id : Nat) :
    (0 < N (isPendPh id .count) s → nStore id evs = 1 ∧ nZero id evs = 0) ∧
    (0 < N (isPendPh id .dist) s → nStore id evs = 2 ∧ nZero id evs = 1) := by
  have := (phInv_run h).ok id
  unfold PhaseOkAt PhaseOk at this
  unfold N
  rcases this with h | h | h | h | h <;> omega

/-! ### the code as it was found -/

theorem exec_step {cfg : Cfg} {s s' : State} {ti : Nat} {ch : Choice} {evs : List Event}
    (h : exec cfg s ti ch = some (s', evs)) : Step cfg s s' := by
  unfold exec at h
  split at h
  · cases h
  · rename_i herr
    split at h
    · rename_i i rest hget
      simp only [Option.some.injEq, Prod.mk.injEq] at h
      obtain ⟨rfl, _⟩ := h
      have hlt : ti < s.tasks.length := by
        rcases Nat.lt_or_ge ti s.tasks.length with h' | h'
        · exact h'
        · simp [List.getElem?_eq_none h'] at hget
      have hget' : s.tasks[ti] = i :: rest := by
        have := List.getElem?_eq_getElem hlt
        rw [this] at hget; exact Option.some.inj hget
      refine ⟨s.tasks.take ti, i, rest, s.tasks.drop (ti + 1), ch, ?_, ?_, rfl⟩
      · rw [← hget', List.getElem_cons_drop, List.take_append_drop]
      · cases he : s.err with
        | none => rfl
        | some e => simp [he] at herr
    · cases h

theorem run_reachable {cfg : Cfg} {s s' : State} (hs : Reachable cfg s) {ls : List (Nat × Choice)}
    (h : run cfg s ls = some s') : Reachable cfg s' := by
  induction ls generalizing s with
  | nil => simp [run] at h; subst h; exact hs
  | cons l ls ih =>
    obtain ⟨ti, ch⟩ := l
    simp only [run] at h
    cases he : exec cfg s ti ch with
    | none => simp [he] at h
    | some r =>
      obtain ⟨s1, evs⟩ := r
      simp only [he] at h
      exact ih (Reachable.step hs (exec_step he)) h

/-- D24, first shape: a big step whose buckets need no sub-job (e.g. all strings equal and
short).  One worker suffices: sample, count, distribute, `distribute_finished()` takes the
handle, creates nothing, releases the handle — `substep_all_done()` deletes the step — and
then touches `bkt_`. -/
def d24NoSubjob : List (Nat × Choice) :=
  [(0, .none), (0, .none), (0, .none), (0, .none), (0, .none),     -- sample(): acc, pwork_ = 1, check, enqueue, check
   (1, .none), (1, .none),                                           -- count(0): acc, --pwork_ == 0
   (1, .none), (1, .none), (1, .none), (1, .none), (1, .none),       -- count_finished(): acc, pwork_ = 1, check, enqueue, check
   (2, .none), (2, .none),                                           -- distribute(0): acc, --pwork_ == 0
   (2, .none), (2, .none), (2, .exit),                               -- distribute_finished(): acc, substep_add, no bucket needs a job
   (2, .none),                                                       -- substep_notify_done(): 1 -> 0
   (2, .none), (2, .none), (2, .none),                               -- substep_all_done(): acc, pstep_ == nullptr, delete this
   (2, .none)]                                                       -- bkt_[0].destroy()

theorem proto_orig_D24_no_subjob :
    ∃ s, Reachable Cfg.orig s ∧ s.err = some (.uaf 0) := by
  have h : ∃ s, run Cfg.orig (init .big 1) d24NoSubjob = some s ∧ s.err = some (.uaf 0) := by decide
  obtain ⟨s, hr, he⟩ := h
  exact ⟨s, run_reachable (Reachable.init .big 1) hr, he⟩

/-- D24, second shape: the sub-job finishes *after* the creator released its handle; the
creator is preempted between `substep_notify_done()` (2 -> 1) and the access to `bkt_`, the
child's completion brings the counter to 0 and deletes the parent. -/
def d24ChildLast : List (Nat × Choice) :=
  [(0, .none), (0, .none), (0, .none), (0, .none), (0, .none),
   (1, .none), (1, .none),
   (1, .none), (1, .none), (1, .none), (1, .none), (1, .none),
   (2, .none), (2, .none),
   (2, .none), (2, .none), (2, .spawn .small 1),                     -- distribute_finished(): one bucket needs a small-sort job
   (2, .none), (2, .none), (2, .none), (2, .exit),                   -- acc, substep_add, ctx_.enqueue(this, …), loop ends
   (2, .none),                                                       -- creator: substep_notify_done(): 2 -> 1   (preempted here)
   (3, .none), (3, .none), (3, .exit), (3, .none),                   -- child run(): acc, substep_add, no work sharing, notify 1 -> 0
   (3, .none), (3, .none),                                           -- child substep_all_done(): acc, pstep_->substep_notify_done()
   (3, .none),                                                       -- parent counter 1 -> 0
   (3, .none), (3, .none), (3, .none),                               -- parent substep_all_done(): acc, pstep_ == nullptr, delete this
   (2, .none)]                                                       -- creator resumes: bkt_[0].destroy() on the deleted step

theorem proto_orig_D24_child_last :
    ∃ s, Reachable Cfg.orig s ∧ s.err = some (.uaf 0) := by
  have h : ∃ s, run Cfg.orig (init .big 1) d24ChildLast = some s ∧ s.err = some (.uaf 0) := by decide
  obtain ⟨s, hr, he⟩ := h
  exact ⟨s, run_reachable (Reachable.init .big 1) hr, he⟩

/-- The job creation loop of `sample()` re-reads `parts_` after the last enqueue while another
worker has already run the whole step to completion. -/
def loopUaf : List (Nat × Choice) :=
  [(0, .none), (0, .none), (0, .none), (0, .none),                   -- sample(): acc, pwork_ = 1, check, enqueue   (preempted)
   (1, .none), (1, .none),                                           -- count(0)
   (1, .none), (1, .none), (1, .none), (1, .none), (1, .none),       -- count_finished()
   (2, .none), (2, .none),                                           -- distribute(0)
   (2, .none), (2, .none), (2, .exit), (2, .none), (2, .none),       -- distribute_finished(): handle, nothing to do, bkt_, release
   (2, .none), (2, .none), (2, .none),                               -- substep_all_done(): delete this
   (0, .none)]                                                       -- sample() resumes: `p < parts_`

theorem proto_orig_loop_uaf :
    ∃ s, Reachable { postReleaseAccess := false, loopReadsMember := true } s ∧ s.err = some (.uaf 0) := by
  have h : ∃ s, run { postReleaseAccess := false, loopReadsMember := true } (init .big 1) loopUaf = some s ∧
      s.err = some (.uaf 0) := by decide
  obtain ⟨s, hr, he⟩ := h
  exact ⟨s, run_reachable (Reachable.init .big 1) hr, he⟩

/-- Non-vacuity of `proto_fixed_safe`: the fixed system does run through such schedules (here a
big step with one small sub-job, the creator preempted after releasing its handle) and ends
quiescent with every step deleted. -/
def fixedDemo : List (Nat × Choice) :=
  [(0, .none), (0, .none), (0, .none), (1, .none), (1, .none), (1, .none), (1, .none), (1, .none),
   (2, .none), (2, .none), (2, .none), (2, .none), (2, .spawn .small 1), (2, .none), (2, .none), (2, .none),
   (2, .exit), (2, .none), (2, .none), (3, .none), (3, .none), (3, .exit), (3, .none), (3, .none), (3, .none),
   (3, .none), (3, .none), (3, .none), (3, .none), (3, .none)]

example : (run Cfg.fixed (init .big 1) fixedDemo).map
    (fun s => (s.err, s.tasks.all List.isEmpty, s.objs.map (·.alive))) = some (none, true, [false, false]) := by
  decide

/-! ### termination of the protocol -/

/-- **Ranking function.**  `phi` (pending instructions weighted by everything they can still put in
front of their task or into the queue, plus 4 for every live step that has not started
`substep_all_done`) strictly decreases with every transition of the fixed system except the `spawn`
choice of the bucket / work-sharing loop, i.e. except when the job tree grows by one sub-step. -/
theorem proto_ranking {s s' : State} (hr : Reachable Cfg.fixed s) (h : StepL Cfg.fixed false s s') :
    phi s' < phi s := phi_decreases (inv_reachable hr) h

/-- **Progress**: a reachable state that is not quiescent can always move without creating a sub-step
(no transition of the step protocol blocks; waiting on the pool's condition variables is C10). -/
theorem proto_progress {s : State} (hr : Reachable Cfg.fixed s) (hq : ¬ s.quiescent) :
    ∃ s', StepL Cfg.fixed false s s' := progress (inv_reachable hr) hq

/-- at most `phi s` transitions are possible without creating a sub-step … -/
theorem proto_work_bounded {n : Nat} {s s' : State} (hr : Reachable Cfg.fixed s) (h : WorkSteps n s s') :
    n ≤ phi s := by have := workSteps_bounded h hr; omega

/-- … finishing the pending work leads to the quiescent state (where, by
`proto_quiescent_all_deleted`, every step has been deleted) … -/
theorem proto_reaches_quiescent {s : State} (hr : Reachable Cfg.fixed s) :
    ∃ n s', WorkSteps n s s' ∧ s'.quiescent := reaches_quiescent hr

/-- … and **every run with a finite job tree terminates**: an infinite run of the fixed system creates
sub-steps infinitely often. -/
theorem proto_terminates (f : Nat → State) (h0 : Reachable Cfg.fixed (f 0))
    (hstep : ∀ n, ∃ b, StepL Cfg.fixed b (f n) (f (n + 1))) :
    ∀ n, ∃ m, n ≤ m ∧ StepL Cfg.fixed true (f m) (f (m + 1)) := infinite_run_spawns f h0 hstep

example : phi (init .big 2) = 50 := by decide

/-! ## Part 2: functional layer -/

/-- **Key order is string order.**  Two NUL-free strings of one sort range (common prefix `p`,
keys read at depth `p.length`): a smaller key means a strictly smaller string. -/
theorem key_order {p a b : Str} {ka kb : Key} (ha : nulFree (p ++ a)) (hb : nulFree (p ++ b))
    (hka : getKey? (p ++ a) p.length = some ka) (hkb : getKey? (p ++ b) p.length = some kb) (hlt : ka < kb) :
    strLe (p ++ a) (p ++ b) = true ∧ p ++ a ≠ p ++ b := key_lt_imp ha hb hka hkb hlt

/-- **`clz(a ^ b) / 8` is the LCP contribution.**  Different keys: the LCP of the two strings is
`depth + lcpKeyType`, which is what `ps5_sample_sort_lcp`, `MKQSStep::calculate_lcp` and
`insertion_sort_cache` store at bucket borders. -/
theorem key_lcp {p a b : Str} {ka kb : Key} (ha : nulFree (p ++ a)) (hb : nulFree (p ++ b))
    (hka : getKey? (p ++ a) p.length = some ka) (hkb : getKey? (p ++ b) p.length = some kb) (hne : ka ≠ kb) :
    lcp (p ++ a) (p ++ b) = p.length + lcpKeyType ka kb := key_ne_lcp ha hb hka hkb hne

/-- **Equal keys with a non-zero last byte** (`eq_recurse_`, equal buckets without the `0x80`
flag): both strings have at least `depth + 8` characters and agree on them, so the recursion
may continue at `depth + sizeof(key_type)` and never reads behind a terminator. -/
theorem key_equal_deeper {p a b : Str} {k : Key} (ha : nulFree (p ++ a)) (hb : nulFree (p ++ b))
    (hka : getKey? (p ++ a) p.length = some k) (hkb : getKey? (p ++ b) p.length = some k) (hlow : lowByte k ≠ 0) :
    a.take 8 = b.take 8 ∧ 8 ≤ a.length ∧ 8 ≤ b.length := key_eq_deeper ha hb hka hkb hlow

/-- **Equal keys that contain the terminator** (`0x80` flag / `!eq_recurse_`): the strings are
equal and `lcpKeyDepth` of the key is the number of characters behind `depth`, hence
`fill_lcp(depth + lcpKeyDepth(key))` stores their full length = their LCP. -/
theorem key_equal_done {p a b : Str} {k : Key} (ha : nulFree (p ++ a)) (hb : nulFree (p ++ b))
    (hka : getKey? (p ++ a) p.length = some k) (hkb : getKey? (p ++ b) p.length = some k) (hlow : lowByte k = 0) :
    p ++ a = p ++ b ∧ lcp (p ++ a) (p ++ b) = p.length + lcpKeyDepth k := by
  obtain ⟨heq, hlen⟩ := key_eq_done ha hb hka hkb hlow
  refine ⟨heq, ?_⟩
  have e1 := getKey_toNat hka
  simp only [List.drop_left] at e1
  rw [lcpKeyDepth_eq e1 (nulFree_append_right ha) hlen, ← heq]
  have : ∀ l : Str, lcp l l = l.length := by
    intro l; induction l with
    | nil => rfl
    | cons c cs ih => simp [lcp, ih]
  rw [this]; simp

/-- reading a key at a depth inside the string (or at its terminator) stays inside the allocation -/
theorem key_read_in_bounds {s : Str} {depth : Nat} (h : depth ≤ s.length) : (getKey? s depth).isSome = true :=
  getKey_isSome h

example : getKey? [0x61, 0x62, 0x63] 1 = some 0x6263000000000000#64 := by decide +kernel
example : lcpKeyType 0x6162630000000000#64 0x6162640000000000#64 = 2 := by decide +kernel
example : lcpKeyDepth 0x6162630000000000#64 = 3 := by decide +kernel

/-- **Bucket ranges are disjoint**: the pieces `[bkt[i], bkt[i+1])` handed to the sub-jobs of a
sort step do not overlap (exclusive prefix sums of the bucket sizes). -/
theorem subjobs_write_disjoint {α} (results : List (List α)) : (layout 0 results).Pairwise disjointPieces :=
  layout_disjoint 0 results

/-- **The result does not depend on the order in which the sub-jobs run**: whatever
permutation of the sub-jobs is executed, the array they leave is the concatenation of the
per-bucket results. -/
theorem subjobs_order_irrelevant {α} [Inhabited α] (results : List (List α)) (old : List α)
    (hold : old.length = results.flatten.length) (order : List (Nat × List α))
    (hperm : (layout 0 results).Perm order) : applyWrites order old = results.flatten :=
  subjobs_any_order results old hold order hperm

example : applyWrites [(2, [7, 8]), (0, [5, 6])] [0, 0, 0, 0] = [5, 6, 7, 8] := by decide

/-- **Distribution**: with bucket ids below `2s+1` every string of the range lands in exactly one
bucket (the buckets together are a permutation of the range) … -/
theorem distribution_is_partition (strs : List Str) (ids : List Nat) (bktnum : Nat)
    (hlen : ids.length = strs.length) (hid : ∀ id ∈ ids, id < bktnum) :
    (bucketsOf strs ids bktnum).flatten.Perm strs := bucketsOf_perm strs ids bktnum hlen hid

/-- … the bucket borders `bkt[]` (exclusive prefix sums) end at the size of the range … -/
theorem bucket_bounds_cover (sizes : List Nat) : (boundsOf sizes).getLast? = some sizes.sum := by
  rw [boundsOf_eq, boundsFrom_last]; simp

/-- … and an odd (`=`) bucket is answered by `find_bkt` only for a key equal to that bucket's splitter. -/
theorem equal_bucket_is_splitter {c : Classifier} {useCalc : Bool} {k : Key} {b : Nat}
    (h : c.findBkt useCalc k = some b) (hb : b % 2 = 1) : splOf c useCalc (b / 2) = some k :=
  findBkt_odd h hb

/-- **Classification by the splitter tree is monotone.**  If the level-order array is a search
tree over the in-order splitters `S` (sorted, `get_splitter(i) = S[i]`), then `find_bkt` puts a key
into bucket `2·(number of splitters below the key)`, `+1` if it equals the next splitter; a smaller
bucket id therefore means a strictly smaller key — the order hypothesis of the step lemma. -/
theorem classification_monotone {c : Classifier} {useCalc : Bool} {S : List Key}
    (hbst : IsBST c.tree c.treebits 1 S) (hsorted : S.Pairwise (fun a b => a ≤ b))
    (hspl : ∀ i, i < numSplitters c.treebits → splOf c useCalc i = S[i]?) {k k' : Key} {b b' : Nat}
    (h : c.findBkt useCalc k = some b) (h' : c.findBkt useCalc k' = some b') (hlt : b < b') : k < k' :=
  findBkt_lt hbst hsorted hspl h h' hlt

/-- the descent itself: it ends in the leaf numbered by the lower bound of the key -/
theorem classification_lower_bound {c : Classifier} {useCalc : Bool} {S : List Key}
    (hbst : IsBST c.tree c.treebits 1 S) (hspl : ∀ i, i < numSplitters c.treebits → splOf c useCalc i = S[i]?)
    (k : Key) : c.findBkt useCalc k = some (2 * lowerBound S k + (if S[lowerBound S k]? = some k then 1 else 0)) :=
  findBkt_bst hbst hspl k

/-- **The tree builder writes a search tree.**  For sorted samples (`std::sort(samples)`) the
recursion of `SSTreeBuilderLevelOrder` / `…PreAndLevelOrder` (middle sample as splitter, equal
samples skipped on both sides, children at `2i`, `2i+1`) leaves a level-order array that is a search
tree over the in-order splitter list, and that list is sorted. -/
theorem builder_writes_search_tree {tb : Nat} {samples : Array Key} {c : Classifier} (htb : 1 ≤ tb)
    (hsz : 1 ≤ samples.size)
    (hsorted : ∀ (i j : Nat) (x y : Key), i ≤ j → samples[i]? = some x → samples[j]? = some y → x ≤ y)
    (h : build tb samples = some c) :
    c.treebits = tb ∧ IsBST c.tree tb 1 c.splitters ∧ c.splitters.Pairwise (fun a b => a ≤ b) :=
  build_isBST htb hsz hsorted h

/-- **Classification with the real builder is monotone** (what the step lemma needs about the
buckets), for the explicit splitter array and for the index calculation `pre_to_levelorder` of the
default classifier alike, at every tree depth the classes support. -/
theorem classification_monotone_build {tb : Nat} {samples : Array Key} {c : Classifier} {useCalc : Bool}
    (htb : 1 ≤ tb) (htb' : tb ≤ 31) (hsz : 1 ≤ samples.size)
    (hsorted : ∀ (i j : Nat) (x y : Key), i ≤ j → samples[i]? = some x → samples[j]? = some y → x ≤ y)
    (hb : build tb samples = some c)
    {k k' : Key} {b b' : Nat} (h : c.findBkt useCalc k = some b) (h' : c.findBkt useCalc k' = some b')
    (hlt : b < b') : k < k' :=
  build_findBkt_lt htb htb' hsz hsorted hb h h' hlt

/-- **`pre_to_levelorder(i+1)` is the level-order index of the `i`-th in-order splitter**, for every
tree depth (`switch (treebits)` has cases 1..15; proved up to 31 = width of the `uint32_t` index):
the `r`-th node in order, `r = 2^t·odd`, sits `t` levels above the leaves at position `r / 2^(t+1)`. -/
theorem index_ok (tb : Nat) (h : tb ≤ 31) : IndexOk tb := indexOk tb h

/-- **`splitter_lcp`**: entry `i` is `clz(splitter[i-1] ^ splitter[i]) / 8` (+ `0x80` iff `splitter[i]`
ends inside its key) for the in-order neighbours, entry 0 keeps only the flag, the last entry is 0. -/
theorem splitter_lcp_entries {tb : Nat} {samples : Array Key} {c : Classifier} (h : build tb samples = some c) :
    c.slcp = (match slcpEntries 0 c.splitters with
      | [] => []
      | x :: xs => (if x ≥ 128 then 128 else 0) :: xs) ++ [0] := build_slcp h

/-- **The base sorter specification is satisfiable**: `baseSort` (the model's stand-in for
`insertion_sort`, property C03) returns a sorted permutation with exact LCPs. -/
theorem base_sorter_good (strs : List Str) : SortedLcp strs (baseSort strs) := baseSort_good strs

/-- **Step lemma of the sample sort.**  Let `rs` be the results of the `2s+1` buckets of one step
(`<`/`=` alternating): every bucket sorted with exact inner LCPs (`lcpOk`), all strings NUL-free with
common prefix `p` (`InRange`), strings of different buckets strictly ordered by their keys at depth
`p.length`, every odd bucket holding strings whose key is the splitter `get_splitter(b/2)`.  Then
`ps5_sample_sort_lcp` runs without an out-of-bounds access and leaves the whole range sorted with
exact LCPs. -/
theorem sample_sort_step_lemma (c : Classifier) (useCalc : Bool) (p : Str) (rs : List Res)
    (hb : BucketsOk (splOf c useCalc) p 0 rs) {l : List Nat}
    (h : lcpPass c useCalc (rs.map (·.out)).flatten (rs.map (·.lcp)).flatten p.length
          (boundsOf (rs.map (·.out.length))) = .ok l) :
    lcpOk (rs.map (·.out)).flatten l ∧ (rs.map (·.out)).flatten.Pairwise (fun a b => strLe a b = true) :=
  lcpPass_good c useCalc p rs hb h

/-! ### the end-to-end theorem -/

/-- **`sort_strings_parallel` (functional model) is correct for every parameter set and chooser.**
`env` bundles `smallsort_threshold`, `inssort_threshold`, `TreeBits`, the classifier variant, the
big/small decision of `enqueue` (any function, hence every `sequential_threshold()` incl.
`enable_rest_size`), the samples drawn by every step and the pivots of every MKQS step.  `EnvOk`:
thresholds ≥ 1, `1 ≤ TreeBits ≤ 15` (bucket ids are stored as `std::uint16_t`), an empty range is never sent into a sample step, sample indices
are `< n`.  For NUL-free input strings a run of the model that does not exhaust its fuel (`sortAll_terminates`: none does
with fuel ≥ `fuelFor strs`) returns a
permutation of the strings, sorted in unsigned-byte lexicographic order, with an LCP array of the same
length whose entries `1..` are the exact LCPs of neighbours (as stored in `LcpType = std::uint32_t`;
`sortAll_exact_lcps`); and no run ever reads outside a string,
the sample array, the splitter tree or the LCP array (`Err.oob`) or hits an internal error.
Base cases are the C03 model of `insertion_sort` (`C03.insertionSort`, LCP overload). -/
theorem sortAll_correct (env : Env) (henv : EnvOk env) (fuel : Nat) (strs : List Str)
    (hnf : ∀ s ∈ strs, nulFree s) :
    (∀ r, sortAll env fuel strs = .ok r → SortedLcp strs r) ∧
      sortAll env fuel strs ≠ .error .oob ∧ sortAll env fuel strs ≠ .error .internal := by
  have h := sortAll_safe henv fuel strs hnf
  refine ⟨fun r hr => h.of_ok hr, ?_, ?_⟩ <;>
  · intro e; rw [e] at h; exact absurd h.2 (by decide)

/-- **Integer widths of the step structures lose nothing.**  The model stores into `u8` / `u16` / `lcpT`
wherever the C++ stores into `unsigned char` / `std::uint8_t` / `std::uint16_t` / `LcpType`
(`Model/C04Key.lean`).  The key-relative LCP values fit the `std::uint8_t` fields of `MKQSStep`
(`lcp_lt_`, `lcp_eq_`, `lcp_gt_`) and the `unsigned char` return types; a `splitter_lcp[]` entry holds value and
`0x80` flag side by side.  (A field that held `depth + lcpKeyType(..)` instead would be `u8 (depth + ..)` in the
model and `sortAll_correct` would not be provable.)  Bucket ids fit the `std::uint16_t` bucket cache because
`EnvOk` has `TreeBits ≤ 15` (used inside `sampleBody_safe`). -/
theorem narrow_fields_lossless (a b : Key) :
    u8 (lcpKeyType a b) = lcpKeyType a b ∧ u8 (lcpKeyDepth a) = lcpKeyDepth a ∧
      lcpKeyType a b = (a ^^^ b).clz.toNat / 8 ∧ lcpKeyDepth a = 8 - a.ctz.toNat / 8 ∧
      lcpEntry a b = lcpKeyType a b + (if lowByte b = 0 then 128 else 0) :=
  ⟨u8_lcpKeyType a b, u8_lcpKeyDepth a, lcpKeyType_def a b, lcpKeyDepth_def a, lcpEntry_def a b⟩

/-- **LCP values and `LcpType`.**  `SortedLcp` (the conclusion of `sortAll_correct`) states the LCP entries as
stored in the `std::uint32_t` array: `lcpT (lcp a b)`.  When every input string is shorter than 2^32 characters
these are the exact LCPs. -/
theorem sortAll_exact_lcps {strs : List Str} {r : Res} (h : SortedLcp strs r)
    (hshort : ∀ s ∈ strs, s.length < 4294967296) :
    ∀ i, 0 < i → i < r.out.length →
      r.lcp[i]? = some (lcp ((r.out[i - 1]?).getD []) ((r.out[i]?).getD [])) := by
  intro i h0 hi
  rw [h.2.2.2 i h0 hi]
  congr 1
  apply lcpT_of_lt
  have hm : r.out[i] ∈ strs := h.1.mem_iff.1 (List.getElem_mem hi)
  have h1 := hshort _ hm
  have h2 : lcp ((r.out[i - 1]?).getD []) ((r.out[i]?).getD []) ≤ r.out[i].length := by
    rw [List.getElem?_eq_getElem hi, Option.getD_some, lcp_eq_c03]
    exact C03.lcp_le_right _ _
  omega

/-- **The answer is independent of the parameter set, the samples, the pivots and every big/small
decision** (and hence of how the work is split into jobs). -/
theorem sortAll_answer_unique {env1 env2 : Env} (h1 : EnvOk env1) (h2 : EnvOk env2) {f1 f2 : Nat}
    {strs : List Str} (hnf : ∀ s ∈ strs, nulFree s) {r1 r2 : Res}
    (e1 : sortAll env1 f1 strs = .ok r1) (e2 : sortAll env2 f2 strs = .ok r2) :
    r1.out = r2.out ∧ r1.lcp.drop 1 = r2.lcp.drop 1 :=
  sortAll_unique h1 h2 hnf e1 e2

/-- the recursion itself: every call (any mode, any range with a common prefix) is correct -/
theorem sortM_correct {env : Env} (henv : EnvOk env) (fuel : Nat) (mode : Mode) (strs : List Str) (p : Str)
    (hr : RangeOk p strs) (hpre : ModePre mode strs) :
    Safe true (sortM env fuel mode strs p.length) (SortedLcp strs) :=
  sortM_recOk henv fuel mode strs p hr hpre (fun e => by cases e)

/-- non-vacuity: a small tuning satisfies `EnvOk`, and the model sorts with it -/
def demoEnv : Env :=
  { p := { treebits := 1, smallsort := 4, inssort := 3 }
    isBig := fun n => n > 6
    sampler := fun n cnt => (List.range cnt).map fun j => (j * 7 + 3) % n
    pivot := fun keys => keys.length / 2 }

theorem demoEnv_ok : EnvOk demoEnv := by
  refine ⟨by decide, by decide, ?_, by decide, by decide, ?_, ?_⟩
  · intro n h; simp [demoEnv] at h; omega
  · intro n cnt; simp [demoEnv]
  · intro n cnt hn i hi
    simp only [demoEnv, List.mem_map, List.mem_range] at hi
    obtain ⟨j, _, rfl⟩ := hi
    exact Nat.mod_lt _ hn

-- (runs with sample steps involve `List.mergeSort`, which the kernel does not unfold; they are exercised by the
-- driver on every correspondence case — here the insertion-sort base case)
example : (sortAll demoEnv 5 [[98, 97], [97]]).toOption.map (fun r => (r.out, r.lcp)) =
    some ([[97], [98, 97]], [0, 0]) := by decide +kernel

/-- **The recursion terminates and the model is total.**  With fuel `fuelFor strs` = 3·(characters +
strings) + 3 or more, `sortAll` returns an answer (no fuel error, hence by `sortAll_correct` no error
at all) and the answer is the sorted permutation with exact LCPs — for every parameter set, sample,
pivot and big/small decision.  Measure of a call: `mu mode strs depth` = 3·(characters and terminators
of the range behind the common prefix) + position of the mode in `enqueue → step → MKQSStep`; every
sub-range of a step either misses the string a splitter / the pivot was read from, or lies 8 characters
deeper in all its strings.  Consequence for the protocol layer: the job tree of a run is finite. -/
theorem sortAll_terminates (env : Env) (henv : EnvOk env) (strs : List Str) (hnf : ∀ s ∈ strs, nulFree s)
    {fuel : Nat} (hfuel : fuelFor strs ≤ fuel) :
    ∃ r, sortAll env fuel strs = .ok r ∧ SortedLcp strs r :=
  sortAll_total henv strs hnf hfuel

/-- the same for every call of the recursion: fuel `mu mode strs depth` suffices -/
theorem sortM_terminates {env : Env} (henv : EnvOk env) {fuel : Nat} (mode : Mode) (strs : List Str) (p : Str)
    (hr : RangeOk p strs) (hpre : ModePre mode strs) (hfuel : mu mode strs p.length ≤ fuel) :
    ∃ r, sortM env fuel mode strs p.length = .ok r ∧ SortedLcp strs r :=
  Safe.total (sortM_recOk (af := false) henv fuel mode strs p hr hpre (fun _ => by omega))

end TlxVerif.C04
