/-
C07 — parallel multiway merge ≡ sequential merge (property theorems; under construction)
-/
import TlxVerif.Model.C07Pmm
namespace TlxVerif.C07

/-- the front-end switch: forced-sequential always wins, otherwise forced-parallel or the thresholds -/
theorem usesParallel_table (fs fp : Bool) (t k n mk mn : Nat) :
    usesParallel fs fp t k n mk mn = true ↔ fs = false ∧ (fp = true ∨ (1 < t ∧ mk ≤ k ∧ mn ≤ n)) := by
  cases fs <;> cases fp <;> simp [usesParallel, and_assoc]

end TlxVerif.C07
