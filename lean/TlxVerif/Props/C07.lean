/-
C07 — parallel multiway merge ≡ sequential merge, for every thread count and both splitting strategies.

Property theorems (all inputs, any strict weak order on the keys, any number of threads):
  * `equally_split_spec`            — the ranks requested by exact splitting (p+1 non-decreasing splitters 0..n)
  * `stable_merge_characterisation` — the k-merge is THE (key, sequence, position)-sorted permutation
  * `exact_splitting_correct`       — chunks from C08-partitions at non-decreasing ranks:
                                      concatenation of the per-thread merges = first `size` of the k-merge
  * `sampling_splitting_correct`    — chunks from upper bounds of any non-decreasing splitters (size = total):
                                      concatenation = k-merge
  * `thread_target_position`        — a thread's block starts at Σ chunk begins (the C++ `target_position`)
  * `output_windows_tile`           — consecutive windows: every output position in exactly one window
  * `inputs_advanced_exactly`       — the merged prefix consists of the prefixes `[0, o_i)` of the inputs
  * `merge_phase_all_schedules`     — threads writing disjoint windows and reading only the inputs: every
                                      interleaving leaves the same memory (Bernstein conditions)
  * `model_refines_spec`, `front_ends_refine_spec` — END TO END: the executed model `pmmBase` / `pmm` (what the
                                      driver runs) returns the first `size` of the k-merge, target+size, begins at the
                                      partition of rank `size`, adjacent windows — all inputs, threads ≥ 1, both splittings;
                                      no assumption about multisequence_partition (C08 refinement_correct)
  * `front_end_switch`              — the sequential/parallel decision table of the four front ends
The per-thread sequential merge is its specification `kMerge` (C05); offsets are assumed to satisfy the
C08 specification `IsPartition`.  OPEN items are listed at the end.
-/
import TlxVerif.Proofs.C07Split
import TlxVerif.Proofs.C07Windows
import TlxVerif.Proofs.C07Phases
import TlxVerif.Proofs.C07Refine
import TlxVerif.Proofs.C07Final
import TlxVerif.Proofs.C08Checker
namespace TlxVerif.C07
open TlxVerif.C08 (StrictWeak IsPartition)

theorem equally_split_spec (n p : Nat) (hn : 1 ≤ n) (hp : 1 ≤ p) :
    (equallySplit n p).length = p + 1 ∧ (equallySplit n p).head? = some 0 ∧
    (equallySplit n p).getLast? = some (n : Int) ∧ (equallySplit n p).Pairwise (· ≤ ·) ∧
    ∀ x ∈ equallySplit n p, 0 ≤ x ∧ x ≤ n :=
  equallySplit_spec n p hn hp

example : equallySplit 10 3 = [0, 4, 7, 10] := by decide
example : equallySplit 3 5 = [0, 1, 2, 2, 2, 3] := by decide

/-- the k-merge of well-tagged, key-sorted runs is a permutation of their elements sorted by
(key, sequence, position), and it is the only such list -/
theorem stable_merge_characterisation {lt : Int → Int → Bool} (hlt : StrictWeak lt) {runs : List (List Elem)}
    (hw : WellTagged runs) :
    (kMerge lt runs).Perm runs.flatten ∧ (kMerge lt runs).Pairwise (Tlt lt tagLt) ∧
    ∀ out : List Elem, out.Perm runs.flatten → out.Pairwise (Tlt lt tagLt) → out = kMerge lt runs :=
  ⟨sortStable_perm lt _, sortStable_sorted hlt tagOrder_tagLt _ (cond_of_wellTagged hw),
   fun _ hp hs => (sortStable_unique hlt tagOrder_tagLt (cond_of_wellTagged hw) hs hp).symm⟩

theorem exact_splitting_correct {lt : Int → Int → Bool} (hlt : StrictWeak lt) {runs : List (List Elem)}
    (hw : WellTagged runs) (hk : KeySorted lt runs) (ps : List (Nat × List Nat))
    (hm : (0 :: ps.map (·.1)).Pairwise (· ≤ ·)) (hall : ∀ p ∈ ps, IsPartition lt (keyRuns runs) p.1 p.2) :
    ((chunkRows runs (List.replicate runs.length 0) (ps.map (·.2))).map (fun row => kMerge lt row)).flatten =
      (kMerge lt runs).take (lastRank 0 ps) :=
  exact_concat_eq_take_kMerge hlt tagOrder_tagLt (goodRuns_of_wellTagged hw hk) ps hm hall

theorem sampling_splitting_correct {lt : Int → Int → Bool} (hlt : StrictWeak lt) {runs : List (List Elem)}
    (hw : WellTagged runs) (hk : KeySorted lt runs) (vs : List Int) (hvs : vs.Pairwise (fun a b => lt b a = false)) :
    ((chunkRows runs (List.replicate runs.length 0) (samplingOffs lt runs vs)).map (fun row => kMerge lt row)).flatten =
      kMerge lt runs :=
  sampling_concat_eq_kMerge hlt tagOrder_tagLt (goodRuns_of_wellTagged hw hk) vs hvs

/-- model component: the samples sorted by `sortKeys` (standing in for `std::(stable_)sort(samples, comp)`)
are a non-decreasing permutation, and reading them at non-decreasing indices (`ns·k·slab/p`) gives
non-decreasing splitters — the hypothesis `hvs` of `sampling_splitting_correct` holds for what the code uses -/
theorem model_splitters_nondecreasing {lt : Int → Int → Bool} (hlt : StrictWeak lt) (samples : List Int)
    (idx : List Nat) (hidx : idx.Pairwise (· ≤ ·)) (hb : ∀ i ∈ idx, i < (sortKeys lt samples).length) :
    (sortKeys lt samples).Perm samples ∧
    (idx.map (fun i => (sortKeys lt samples).getD i 0)).Pairwise (fun a b => lt b a = false) :=
  ⟨sortKeys_perm lt samples, pairwise_map_getD hlt (sortKeys_sorted hlt samples) idx hidx hb⟩

theorem thread_target_position (lt : Int → Int → Bool) {runs : List (List Elem)} (os : List (List Nat))
    (prev : List Nat) (hch : Chain prev os) (hall : ∀ o ∈ os, o.length = runs.length ∧ Bounded runs o)
    (t : Nat) (ht : t ≤ os.length) :
    (((chunkRows runs prev os).take t).map (fun row => (kMerge lt row).length)).sum + prev.sum =
      (offsAt prev os t).sum :=
  target_position lt os prev hch hall t ht

theorem output_windows_tile (ls : List Nat) (k : Nat) (hk : k < ls.sum) :
    ∃ t, t < ls.length ∧ (ls.take t).sum ≤ k ∧ k < (ls.take (t + 1)).sum ∧
      ∀ t', t' < ls.length → (ls.take t').sum ≤ k → k < (ls.take (t' + 1)).sum → t' = t :=
  windows_tile ls k hk

theorem inputs_advanced_exactly {lt : Int → Int → Bool} (hlt : StrictWeak lt) {runs : List (List Elem)}
    (hw : WellTagged runs) (hk : KeySorted lt runs) {rank : Nat} {o : List Nat}
    (hp : IsPartition lt (keyRuns runs) rank o) :
    ((kMerge lt runs).take rank).Perm (takes runs o).flatten :=
  take_kMerge_perm_prefixes hlt tagOrder_tagLt (goodRuns_of_wellTagged hw hk) hp

/-- **All schedules.**  Model the merge phase as threads made of atomic steps on a memory with cells
`inl k` (output position k) and `inr j` (input cells).  If every step of thread `t` writes only positions of
the thread's window `[Σ_{u<t} len_u, Σ_{u≤t} len_u)` (the windows of `thread_target_position`) and reads only
input cells, then any two interleavings that respect each thread's program order end in the same memory. -/
theorem merge_phase_all_schedules {Val : Type} (ls : List Nat) (progs : List (List (Phases.Step Phases.Cell Val)))
    (h : ∀ (t : Nat) (p : List (Phases.Step Phases.Cell Val)), progs[t]? = some p → ∀ s ∈ p,
      Phases.ReadsInputsOnly s ∧ Phases.WritesWindow (ls.take t).sum (ls.take (t + 1)).sum s)
    {l₁ l₂ : List (Phases.Step Phases.Cell Val)} (h₁ : Phases.Shuffle progs l₁) (h₂ : Phases.Shuffle progs l₂)
    (m : Phases.Cell → Val) : Phases.exec l₁ m = Phases.exec l₂ m :=
  Phases.merge_phase_schedule_independent ls progs h h₁ h₂ m

/-- forced-sequential always wins, otherwise forced-parallel or the three thresholds -/
theorem front_end_switch (fs fp : Bool) (t k n mk mn : Nat) :
    usesParallel fs fp t k n mk mn = true ↔ fs = false ∧ (fp = true ∨ (1 < t ∧ mk ≤ k ∧ mn ≤ n)) := by
  cases fs <;> cases fp <;> simp [usesParallel, and_assoc]

/-- the model's chunk slice is the chunk of the theorems -/
theorem sliceChunk_eq (run : List Elem) (a b : Nat) (hab : a ≤ b) (hb : b ≤ run.length) :
    sliceChunk run ⟨a, b⟩ = .ok ((run.take b).drop a) := by
  unfold sliceChunk
  have h : ¬ ((decide (b < a) || decide (b > run.length)) = true) := by simp; omega
  rw [if_neg h]; rfl

/-- **End to end, parallel base** (closes the former OPEN item `pmmBase_refines_spec`, and with the C08
correctness theorem needs no assumption about `multisequence_partition`): the executable model of
`parallel_multiway_merge_base` — the function the driver runs in the correspondence — succeeds and returns
the first `size` elements of the stable k-merge, `target + size`, the begins advanced to the partition at rank
`size`, and adjacent per-thread windows tiling `[0, size)`; for all well-tagged key-sorted inputs (empty
sequences allowed), `size ≤ total`, threads ≥ 1, oversampling ≥ 1, exact and sampling splitting (for any
in-range sample index function, hence for the IEEE-double one of the driver). -/
theorem model_refines_spec (P : Params) (hlt : StrictWeak P.lt) (seqsAll : List (List Elem))
    (hw : WellTagged seqsAll) (hk : KeySorted P.lt seqsAll) (size : Nat) (hsize : size ≤ seqsAll.flatten.length)
    (hthr : 1 ≤ P.threads) (hosf : 1 ≤ P.osf)
    (hidx : ∀ (len i ns : Nat), i < ns → 0 < len → P.sampleIdx len i ns size size < len) :
    ∃ r, pmmBase P seqsAll size = .ok r ∧ r.out = (kMerge P.lt seqsAll).take size ∧ r.ret = (size : Int) ∧
      (∃ o, IsPartition P.lt (keyRuns (nonEmpty seqsAll)) size o ∧ r.begins = scatterBegins seqsAll o) ∧
      TileFrom 0 size r.windows :=
  pmmBase_correct P hlt seqsAll hw hk size hsize hthr hosf hidx

/-- **End to end, the four front ends** -/
theorem front_ends_refine_spec (P : Params) (hlt : StrictWeak P.lt) (fs fp : Bool) (mk mn : Nat)
    (seqsAll : List (List Elem)) (hw : WellTagged seqsAll) (hk : KeySorted P.lt seqsAll) (size : Nat)
    (hsize : size ≤ seqsAll.flatten.length) (hthr : 1 ≤ P.threads) (hosf : 1 ≤ P.osf)
    (hidx : ∀ (len i ns : Nat), i < ns → 0 < len → P.sampleIdx len i ns size size < len) :
    ∃ r, pmm P fs fp mk mn seqsAll size = .ok r ∧ r.out = (kMerge P.lt seqsAll).take size ∧ r.ret = (size : Int) :=
  pmm_correct P hlt fs fp mk mn seqsAll hw hk size hsize hthr hosf hidx

/-! ### non-vacuity: the DESIGN §5 D1 input, three threads -/

def exRuns : List (List Elem) :=
  [[⟨1, 0, 0⟩, ⟨2, 0, 1⟩, ⟨2, 0, 2⟩, ⟨2, 0, 3⟩], [⟨1, 1, 0⟩, ⟨1, 1, 1⟩]]
def exLt : Int → Int → Bool := fun a b => decide (a < b)
def exPs : List (Nat × List Nat) := [(2, [1, 1]), (4, [2, 2]), (6, [4, 2])]

theorem exLt_strictWeak : StrictWeak exLt :=
  ⟨by intro a b h; simp [exLt] at *; omega, by intro a b c h; simp [exLt] at *; omega⟩

instance : DecidableRel tagLt := fun a b => by unfold tagLt; exact inferInstance

theorem exRuns_wellTagged : WellTagged exRuns := by unfold WellTagged; decide
theorem exRuns_keySorted : KeySorted exLt exRuns := by unfold KeySorted; decide

theorem exPs_partitions : ∀ p ∈ exPs, IsPartition exLt (keyRuns exRuns) p.1 p.2 := by
  have hs : ∀ r ∈ keyRuns exRuns, C08.SortedRun exLt r := C08.allSorted_sound exLt_strictWeak (by decide)
  intro p hp
  simp only [exPs, List.mem_cons, List.mem_nil_iff, or_false] at hp
  rcases hp with rfl | rfl | rfl <;> exact C08.checkPartition_sound exLt_strictWeak hs (by decide)

example : ((chunkRows exRuns [0, 0] (exPs.map (·.2))).map (fun row => kMerge exLt row)).flatten =
    (kMerge exLt exRuns).take 6 :=
  exact_splitting_correct exLt_strictWeak exRuns_wellTagged exRuns_keySorted exPs (by decide) exPs_partitions

-- and the three per-thread blocks really are non-trivial (ties across both split points)
example : (chunkRows exRuns [0, 0] (exPs.map (·.2))).map (fun row => kMerge exLt row) =
    [[⟨1, 0, 0⟩, ⟨1, 1, 0⟩], [⟨1, 1, 1⟩, ⟨2, 0, 1⟩], [⟨2, 0, 2⟩, ⟨2, 0, 3⟩]] := by decide

example : ((chunkRows exRuns [0, 0] (samplingOffs exLt exRuns [1, 1])).map (fun row => kMerge exLt row)).flatten =
    kMerge exLt exRuns :=
  sampling_splitting_correct exLt_strictWeak exRuns_wellTagged exRuns_keySorted [1, 1] (by decide)

/-! ### non-vacuity of the end-to-end theorem: both splittings on the D1 input -/

/-- parameters with an integer sample index function that stays inside the sequence -/
def exP (exact : Bool) (threads : Nat) : Params :=
  { lt := exLt, stable := true, exact := exact, threads := threads, osf := 2,
    sampleIdx := fun len i ns _ _ => len * (i + 1) / (ns + 1) }

theorem exP_idx (e : Bool) (t size : Nat) :
    ∀ (len i ns : Nat), i < ns → 0 < len → (exP e t).sampleIdx len i ns size size < len := by
  intro len i ns hi hlen
  show len * (i + 1) / (ns + 1) < len
  apply Nat.div_lt_of_lt_mul
  rw [Nat.mul_comm (ns + 1)]
  exact Nat.mul_lt_mul_of_pos_left (by omega) hlen

example : ∃ r, pmmBase (exP true 3) exRuns 5 = .ok r ∧ r.out = (kMerge exLt exRuns).take 5 :=
  let ⟨r, h1, h2, _⟩ := model_refines_spec (exP true 3) exLt_strictWeak exRuns exRuns_wellTagged exRuns_keySorted 5
    (by decide) (by decide) (by decide) (exP_idx true 3 5)
  ⟨r, h1, h2⟩

example : ∃ r, pmmBase (exP false 4) exRuns 6 = .ok r ∧ r.out = (kMerge exLt exRuns).take 6 :=
  let ⟨r, h1, h2, _⟩ := model_refines_spec (exP false 4) exLt_strictWeak exRuns exRuns_wellTagged exRuns_keySorted 6
    (by decide) (by decide) (by decide) (exP_idx false 4 6)
  ⟨r, h1, h2⟩

/-! ### DESIGN §5 D4 (fixed in the repo; kept as a documented witness)

Sampling splitting tiles the *complete* runs.  With `size < total` the last thread's target position lies
behind `size`, so `min(local_size, size - target_position)` is negative: with the splitters [1] and
size 3 of 6, thread 1 starts at position 3 with 3 elements of which `3 - 3 = 0` fit, and with size 2 the
length is `-1`. -/
example : (samplingOffs exLt exRuns [1]).map List.sum = [3, 6] := by decide
example : min ((6 : Int) - 3) ((2 : Int) - 3) = -1 := by decide

-- (the former OPEN item pmmBase_refines_spec is closed by `model_refines_spec`; the C08 correctness theorem
--  `C08.msp_correct_lists` discharges the hypothesis about multisequence_partition.)
-- OPEN: data_race_freedom — `merge_phase_all_schedules` proves schedule independence for threads whose steps
--   have the window footprints; that the real per-thread `multiway_merge_base` touches nothing outside
--   (chunks read-only, own window written) is asserted at window granularity, checked by the harness
--   (per-position writer, write counts, inputs unchanged) and ThreadSanitizer, not derived from the C++;
--   sequentially consistent memory is assumed.

end TlxVerif.C07
