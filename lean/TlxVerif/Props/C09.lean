import TlxVerif.Model.C09LoserTree
namespace TlxVerif.C09
theorem placeholder : invalid = 4294967295 := rfl
end TlxVerif.C09
