/-
C09 — Loser trees report a minimum-holding source; stable ones break ties by index.

All statements are about the model `TlxVerif/Model/C09LoserTree.lean` of the
eight classes of tlx/container/loser_tree.hpp (tied to the code by the
structural correspondence of `check.py C09`), for every number of players
`1 ≤ k ≤ 2^31`, every comparator that is a strict weak order, every class
(`Variant`), every initial assignment and every replace history.

  * `TInv t pl`      the tournament invariant of tree `t` for the players' current keys `pl`
  * `start_TInv`     constructor + insert_start* + init() establish it
  * `replace_TInv`   delete_min_insert re-establishes it (winner's leaf replaced)
  * `winner_guarded` / `winner_unguarded`   what min_source() reports in such a state
  * `Reach` + `reach_*`   the same for every history of a caller that keeps feeding the winner
-/
import TlxVerif.Proofs.C09Start
import TlxVerif.Gen.C09Types
import TlxVerif.Proofs.C09Stale
namespace TlxVerif.C09

variable {α : Type}

/-- `t` is in its invariant state for players whose current keys are `pl` (`none` = exhausted) -/
def TInv (lt : α → α → Bool) (sentinel dflt : α) (t : Tree α) (pl : List (Option α)) : Prop :=
  t.ik = pl.length ∧ ∃ pk, Inv lt t (leafOf t.v sentinel dflt pk pl)

/-- constructor, `insert_start` for every player, `init()`: never fails and establishes the invariant,
for every class and every `1 ≤ k ≤ 2^31` -/
theorem start_TInv {lt : α → α → Bool} (hlt : SWO lt) (v : Variant) (sentinel dflt : α)
    (pl : List (Option α)) (h1 : 1 ≤ pl.length) (h2 : pl.length ≤ 2 ^ 31) :
    ∃ t, Tree.start v lt sentinel dflt pl = some t ∧ t.v = v ∧ TInv lt sentinel dflt t pl := by
  obtain ⟨t, pk, hs, inv, hv, hik⟩ := start_inv hlt v sentinel dflt pl h1 h2
  exact ⟨t, hs, hv, hik, pk, by rw [hv]; exact inv⟩

/-- the same for **any registration order**: `regs` lists the (player, first key) pairs in the order
of the `insert_start` calls — every player exactly once (descending, random, player 0 last, …);
`first_insert_` of the copying classes included -/
theorem startPerm_TInv {lt : α → α → Bool} (hlt : SWO lt) (v : Variant) (sentinel dflt : α)
    (pl : List (Option α)) (h1 : 1 ≤ pl.length) (h2 : pl.length ≤ 2 ^ 31) (regs : List (Nat × Option α))
    (hperm : (regs.map (·.1)).Perm (List.range pl.length)) (hkeys : ∀ p ∈ regs, pl[p.1]? = some p.2) :
    ∃ t, Tree.startPerm v lt sentinel dflt pl.length regs = some t ∧ t.v = v ∧ TInv lt sentinel dflt t pl := by
  obtain ⟨t, pk, hs, inv, hv, hik⟩ := startPerm_inv hlt v sentinel dflt pl h1 h2 regs hperm hkeys
  exact ⟨t, hs, hv, hik, pk, by rw [hv]; exact inv⟩

theorem leafOf_set (v : Variant) (sentinel dflt pk : α) (pl : List (Option α)) (w : Nat) (hw : w < pl.length)
    (key : Option α) :
    leafOf v sentinel dflt pk (pl.set w key) =
      upd (leafOf v sentinel dflt pk pl) (2 ^ ceilLog2 pl.length + w) (mkEntry dflt key w) := by
  funext j
  simp only [leafOf, upd, List.length_set]
  by_cases h : j = 2 ^ ceilLog2 pl.length + w
  · subst h
    have e : 2 ^ ceilLog2 pl.length + w - 2 ^ ceilLog2 pl.length = w := by omega
    have c : 2 ^ ceilLog2 pl.length ≤ 2 ^ ceilLog2 pl.length + w ∧ w < pl.length := ⟨by omega, hw⟩
    simp [e, c]
  · simp only [h, if_false]
    by_cases c : 2 ^ ceilLog2 pl.length ≤ j ∧ j - 2 ^ ceilLog2 pl.length < pl.length
    · have : w ≠ j - 2 ^ ceilLog2 pl.length := by omega
      simp only [c, and_self, if_true, List.getElem?_set_ne this]
    · simp only [c, if_false]

/-- `delete_min_insert`: when `losers_[0]` names a real player `w`, the call does not fail and the
invariant holds again for the players' keys with `w`'s key replaced by the new one -/
theorem replace_TInv {lt : α → α → Bool} (hlt : SWO lt) {sentinel dflt : α} {t : Tree α}
    {pl : List (Option α)} (inv : TInv lt sentinel dflt t pl) {W : Entry α} (hW : rd t.losers 0 = some W)
    (hreal : W.source < pl.length) (key : Option α) :
    ∃ t', t.deleteMinInsert lt dflt key = some t' ∧ t'.v = t.v ∧
      TInv lt sentinel dflt t' (pl.set W.source key) := by
  obtain ⟨hik, pk, hinv⟩ := inv
  obtain ⟨t', hd, hinv', hv, hik', _⟩ := dmi_inv hlt hinv hW (by rw [hik]; exact hreal) dflt key
  refine ⟨t', hd, hv, by rw [hik', hik, List.length_set], pk, ?_⟩
  rw [hv, leafOf_set _ _ _ _ _ _ hreal, ← hik]
  exact hinv'

/-- what the invariant says about `losers_[0]`: it is a leaf entry that beats-or-ties every leaf -/
theorem TInv.winner {lt : α → α → Bool} (hlt : SWO lt) {sentinel dflt : α} {t : Tree α}
    {pl : List (Option α)} (inv : TInv lt sentinel dflt t pl) :
    ∃ pk W s, rd t.losers 0 = some W ∧ s < 2 ^ ceilLog2 pl.length ∧
      W = leafOf t.v sentinel dflt pk pl (2 ^ ceilLog2 pl.length + s) ∧
      ∀ j, j < 2 ^ ceilLog2 pl.length →
        leOf t.v lt W (leafOf t.v sentinel dflt pk pl (2 ^ ceilLog2 pl.length + j)) := by
  obtain ⟨hik, pk, hinv⟩ := inv
  obtain ⟨W, hW, hv⟩ := hinv.valid
  rw [hik] at hv
  obtain ⟨r, _, hl, hwr⟩ := Valid_leaf hv
  obtain ⟨s, hs, e⟩ := exists_source r
  simp only [List.length_nil, Nat.zero_add] at hl
  rw [hl] at hs e
  refine ⟨pk, W, s, hW, hs, by rw [hwr, e], fun j hj => ?_⟩
  have := Valid_min (leOf_refl hlt t.v) (leOf_trans hlt t.v) hv (pathOf (ceilLog2 pl.length) j)
    List.nil_suffix (by simp [length_pathOf])
  rw [idx_pathOf _ _ hj] at this
  exact this

theorem leafOf_real (v : Variant) (sentinel dflt pk : α) (pl : List (Option α)) (j : Nat) (hj : j < pl.length) :
    leafOf v sentinel dflt pk pl (2 ^ ceilLog2 pl.length + j) = mkEntry dflt (pl[j]?.join) j := by
  have e : 2 ^ ceilLog2 pl.length + j - 2 ^ ceilLog2 pl.length = j := by omega
  have c : 2 ^ ceilLog2 pl.length ≤ 2 ^ ceilLog2 pl.length + j ∧ j < pl.length := ⟨by omega, hj⟩
  simp only [leafOf, e, c, and_self, if_true]

theorem leafOf_pad (v : Variant) (sentinel dflt pk : α) (pl : List (Option α)) (j : Nat) (hj : pl.length ≤ j) :
    leafOf v sentinel dflt pk pl (2 ^ ceilLog2 pl.length + j) = padOf v sentinel pk := by
  have c : ¬ (2 ^ ceilLog2 pl.length ≤ 2 ^ ceilLog2 pl.length + j ∧
      2 ^ ceilLog2 pl.length + j - 2 ^ ceilLog2 pl.length < pl.length) := by omega
  simp only [leafOf, c, if_false]

/-- **Guarded classes.**  While a live player remains, `min_source()` is a live player whose key
is not greater than any live player's key; for the stable classes it is the smallest index among
the players holding an equivalent key. -/
theorem winner_guarded {lt : α → α → Bool} (hlt : SWO lt) {sentinel dflt : α} {t : Tree α}
    {pl : List (Option α)} (inv : TInv lt sentinel dflt t pl) (hg : t.v.guarded = true)
    (hlive : ∃ (j : Nat) (kj : α), pl[j]? = some (some kj)) :
    ∃ w kw W, t.minSource = some w ∧ rd t.losers 0 = some W ∧ W.source = w ∧ pl[w]? = some (some kw) ∧
      ∀ (j : Nat) (kj : α), pl[j]? = some (some kj) →
        lt kj kw = false ∧ (t.v.stable = true → lt kw kj = false → w ≤ j) := by
  obtain ⟨pk, W, s, hW, hs, hWs, hmin⟩ := inv.winner hlt
  have hle := le_two_pow_ceilLog2 pl.length
  -- comparison of the winner with a live player
  have cmp : ∀ (j : Nat) (kj : α), pl[j]? = some (some kj) →
      leOf t.v lt W { sup := false, source := j, key := kj } := fun j kj hj => by
    have hjl : j < pl.length := by
      by_cases c : j < pl.length
      · exact c
      · rw [List.getElem?_eq_none (by omega)] at hj; cases hj
    have := hmin j (by omega)
    rw [leafOf_real _ _ _ _ _ _ hjl, hj] at this
    simpa [mkEntry] using this
  obtain ⟨j0, k0, hj0⟩ := hlive
  have c0 := cmp j0 k0 hj0
  -- the winner is not a supremum
  have hsup : W.sup = false := by
    cases hb : W.sup with
    | false => rfl
    | true =>
      rcases hv : t.v with ⟨cp, g, st⟩
      simp only [hv] at hg c0
      subst hg
      cases st <;> simp [leOf, leGU, leGS, hb] at c0
  -- hence a real, live player
  have hsl : s < pl.length := by
    by_cases c : s < pl.length
    · exact c
    · rw [leafOf_pad _ _ _ _ _ _ (by omega)] at hWs
      rw [hWs] at hsup
      simp [padOf, hg] at hsup
  rw [leafOf_real _ _ _ _ _ _ hsl] at hWs
  have hget : pl[s]? = some pl[s] := List.getElem?_eq_getElem hsl
  cases hk : pl[s] with
  | none =>
    rw [hget, hk] at hWs
    rw [hWs] at hsup
    simp [mkEntry] at hsup
  | some kw =>
    rw [hget, hk] at hWs
    simp only [Option.join_some, mkEntry] at hWs
    refine ⟨s, kw, W, ?_, hW, by rw [hWs], by rw [hget, hk], fun j kj hj => ?_⟩
    · unfold Tree.minSource
      simp only [hW, Option.bind_eq_bind, Option.bind_some]
      split <;> simp [hWs]
    · have c := cmp j kj hj
      have as := hlt.asymm kw kj
      rcases hv : t.v with ⟨cp, g, st⟩
      simp only [hv] at hg c ⊢
      subst hg
      rw [hWs] at c
      cases st <;> simp [leOf, leGU, leGS] at c ⊢
      · exact c
      · rcases c with c | ⟨c1, c2⟩
        · exact ⟨as c, fun h => by rw [h] at c; cases c⟩
        · exact ⟨c1, fun _ => c2⟩

/-- **Unguarded classes** (every player holds a key — "no player runs out").  The padding players
`k .. k_-1` carry the sentinel and take part in the tournament.  If there is no padding
(`k` a power of two), or some player's key is not greater than the sentinel (stable classes) /
is smaller than the sentinel (unstable classes), `min_source()` is a player whose key is not
greater than any player's key, the smallest such index for the stable classes. -/
theorem winner_unguarded {lt : α → α → Bool} (hlt : SWO lt) {sentinel dflt : α} {t : Tree α}
    {pl : List (Option α)} (inv : TInv lt sentinel dflt t pl) (hg : t.v.guarded = false)
    (hall : ∀ (j : Nat), j < pl.length → ∃ kj : α, pl[j]? = some (some kj))
    (hsent : pl.length = 2 ^ ceilLog2 pl.length ∨
      (t.v.stable = true ∧ ∃ (j : Nat) (kj : α), pl[j]? = some (some kj) ∧ lt sentinel kj = false) ∨
      (t.v.stable = false ∧ ∃ (j : Nat) (kj : α), pl[j]? = some (some kj) ∧ lt kj sentinel = true)) :
    ∃ w kw W, t.minSource = some w ∧ rd t.losers 0 = some W ∧ W.source = w ∧ pl[w]? = some (some kw) ∧
      ∀ (j : Nat) (kj : α), pl[j]? = some (some kj) →
        lt kj kw = false ∧ (t.v.stable = true → lt kw kj = false → w ≤ j) := by
  obtain ⟨pk, W, s, hW, hs, hWs, hmin⟩ := inv.winner hlt
  obtain ⟨pk0, hinv0⟩ := inv.2
  have hshape := hinv0.toShape
  have hinvalid := hshape.pow_lt_invalid
  rw [inv.1] at hinvalid
  have hle := le_two_pow_ceilLog2 pl.length
  have cmp : ∀ (j : Nat) (kj : α), pl[j]? = some (some kj) →
      leOf t.v lt W { sup := false, source := j, key := kj } := fun j kj hj => by
    have hjl : j < pl.length := by
      by_cases c : j < pl.length
      · exact c
      · rw [List.getElem?_eq_none (by omega)] at hj; cases hj
    have := hmin j (by omega)
    rw [leafOf_real _ _ _ _ _ _ hjl, hj] at this
    simpa [mkEntry] using this
  -- the winner is not a padding player
  have hsl : s < pl.length := by
    by_cases c : s < pl.length
    · exact c
    · exfalso
      rw [leafOf_pad _ _ _ _ _ _ (by omega)] at hWs
      rcases hsent with h | ⟨hst, j, kj, hj, hk⟩ | ⟨hst, j, kj, hj, hk⟩
      · omega
      · have c := cmp j kj hj
        have hjl : j < pl.length := by
          by_cases c : j < pl.length
          · exact c
          · rw [List.getElem?_eq_none (by omega)] at hj; cases hj
        rcases hv : t.v with ⟨cp, g, st⟩
        simp only [hv] at hg c hst hWs
        subst hg; subst hst
        rw [hWs] at c
        simp [leOf, leUS, padOf, hk] at c
        omega
      · have c := cmp j kj hj
        rcases hv : t.v with ⟨cp, g, st⟩
        simp only [hv] at hg c hst hWs
        subst hg; subst hst
        rw [hWs] at c
        simp [leOf, leUU, padOf, hk] at c
  rw [leafOf_real _ _ _ _ _ _ hsl] at hWs
  obtain ⟨kw, hkw⟩ := hall s hsl
  rw [hkw] at hWs
  simp only [Option.join_some, mkEntry] at hWs
  refine ⟨s, kw, W, ?_, hW, by rw [hWs], hkw, fun j kj hj => ?_⟩
  · unfold Tree.minSource
    simp only [hW, Option.bind_eq_bind, Option.bind_some, hg]
    simp [hWs]
  · have c := cmp j kj hj
    have as := hlt.asymm kw kj
    rcases hv : t.v with ⟨cp, g, st⟩
    simp only [hv] at hg c ⊢
    subst hg
    rw [hWs] at c
    cases st <;> simp [leOf, leUU, leUS] at c ⊢
    · exact c
    · rcases c with c | ⟨c1, c2⟩
      · exact ⟨as c, fun h => by rw [h] at c; cases c⟩
      · exact ⟨c1, fun _ => c2⟩

/-! ### every history of a caller that feeds the winner -/

/-- `Reach v lt sentinel dflt t seqs`: tree `t` was built for players presenting the key sequences
`seqs₀` and after some replace-the-winner steps the players still have `seqs` to present
(head = current key, `[]` = exhausted).  Each step feeds the winner's next key, or marks it
exhausted; for the unguarded classes the caller must not let the winner run out. -/
inductive Reach (v : Variant) (lt : α → α → Bool) (sentinel dflt : α) : Tree α → List (List α) → Prop
  | start {seqs : List (List α)} {t : Tree α} :
      (v.guarded = false → ∀ q ∈ seqs, q ≠ []) →
      Tree.start v lt sentinel dflt (seqs.map List.head?) = some t → Reach v lt sentinel dflt t seqs
  /-- the players may be registered (`insert_start`) in any order, each exactly once -/
  | startPerm {seqs : List (List α)} {t : Tree α} {regs : List (Nat × Option α)} :
      (v.guarded = false → ∀ q ∈ seqs, q ≠ []) →
      (regs.map (·.1)).Perm (List.range seqs.length) →
      (∀ p ∈ regs, (seqs.map List.head?)[p.1]? = some p.2) →
      Tree.startPerm v lt sentinel dflt seqs.length regs = some t → Reach v lt sentinel dflt t seqs
  | replace {t t' : Tree α} {seqs : List (List α)} {w : Nat} {x : α} {q : List α} :
      Reach v lt sentinel dflt t seqs → t.minSource = some w → seqs[w]? = some (x :: q) →
      (v.guarded = false → q ≠ []) →
      t.deleteMinInsert lt dflt q.head? = some t' → Reach v lt sentinel dflt t' (seqs.set w q)

theorem minSource_real {t : Tree α} {W : Entry α} {w n : Nat} (hW : rd t.losers 0 = some W)
    (hm : t.minSource = some w) (hw : w < n) (hn : n < invalid) : W.source = w := by
  unfold Tree.minSource at hm
  simp only [hW, Option.bind_eq_bind, Option.bind_some] at hm
  split at hm
  · simp only [pure, Option.some.injEq] at hm
    split at hm
    · omega
    · exact hm
  · simpa [pure] using hm

/-- the invariant holds in every reachable state -/
theorem reach_TInv {lt : α → α → Bool} (hlt : SWO lt) {v : Variant} {sentinel dflt : α}
    {t : Tree α} {seqs : List (List α)} (hr : Reach v lt sentinel dflt t seqs)
    (hk : seqs.length ≤ 2 ^ 31) (hk1 : 1 ≤ seqs.length) :
    t.v = v ∧ TInv lt sentinel dflt t (seqs.map List.head?) ∧ (v.guarded = false → ∀ q ∈ seqs, q ≠ []) := by
  induction hr with
  | @start seqs t hne hs =>
    obtain ⟨t', hs', hv, inv⟩ := start_TInv hlt v sentinel dflt (seqs.map List.head?) (by simpa using hk1) (by simpa using hk)
    rw [hs] at hs'; cases hs'
    exact ⟨hv, inv, hne⟩
  | @startPerm seqs t regs hne hperm hkeys hs =>
    obtain ⟨t', hs', hv, inv⟩ := startPerm_TInv hlt v sentinel dflt (seqs.map List.head?) (by simpa using hk1)
      (by simpa using hk) regs (by simpa using hperm) hkeys
    rw [List.length_map, hs] at hs'; cases hs'
    exact ⟨hv, inv, hne⟩
  | @replace t t' seqs w x q _ hm hq hne hd ih =>
    have hlen : (seqs.set w q).length = seqs.length := List.length_set
    obtain ⟨hv, inv, hall⟩ := ih (by rw [← hlen]; exact hk) (by rw [← hlen]; exact hk1)
    have hwl : w < seqs.length := by
      by_cases c : w < seqs.length
      · exact c
      · rw [List.getElem?_eq_none (by omega)] at hq; cases hq
    obtain ⟨_, hinvI⟩ := inv.2
    obtain ⟨W, hW, _⟩ := hinvI.valid
    have hinvalid : seqs.length < invalid := by unfold invalid; omega
    have hsrc := minSource_real hW hm hwl hinvalid
    obtain ⟨t'', hd', hv', inv'⟩ := replace_TInv hlt inv hW (by rw [hsrc]; simpa using hwl) q.head?
    rw [hd] at hd'; cases hd'
    refine ⟨by rw [hv', hv], ?_, fun hg q' hq' => ?_⟩
    · rw [hsrc] at inv'
      rw [List.map_set]; exact inv'
    · rcases List.mem_or_eq_of_mem_set hq' with h | h
      · exact hall hg q' h
      · rw [h]; exact hne hg

/-- no step of such a caller can fail -/
theorem reach_progress {lt : α → α → Bool} (hlt : SWO lt) {v : Variant} {sentinel dflt : α}
    {t : Tree α} {seqs : List (List α)} (hr : Reach v lt sentinel dflt t seqs)
    (hk : seqs.length ≤ 2 ^ 31) (hk1 : 1 ≤ seqs.length) {w : Nat} {x : α} {q : List α}
    (hm : t.minSource = some w) (hq : seqs[w]? = some (x :: q)) :
    ∃ t', t.deleteMinInsert lt dflt q.head? = some t' := by
  obtain ⟨_, inv, _⟩ := reach_TInv hlt hr hk hk1
  have hwl : w < seqs.length := by
    by_cases c : w < seqs.length
    · exact c
    · rw [List.getElem?_eq_none (by omega)] at hq; cases hq
  obtain ⟨_, hinvI⟩ := inv.2
  obtain ⟨W, hW, _⟩ := hinvI.valid
  have hsrc := minSource_real hW hm hwl (by unfold invalid; omega)
  obtain ⟨t', hd, _⟩ := replace_TInv hlt inv hW (by rw [hsrc]; simpa using hwl) q.head?
  exact ⟨t', hd⟩

theorem head_lookup {seqs : List (List α)} {j : Nat} {kj : α}
    (h : (seqs.map List.head?)[j]? = some (some kj)) : ∃ q, seqs[j]? = some (kj :: q) := by
  rw [List.getElem?_map] at h
  cases hq : seqs[j]? with
  | none => rw [hq] at h; cases h
  | some l =>
    rw [hq] at h
    cases l with
    | nil => simp at h
    | cons y q => simp at h; subst h; exact ⟨q, rfl⟩

/-- **C09, guarded classes, all histories.**  After `init()` and after every
`delete_min_insert()` of any replace history: while some player is live, `min_source()` is a
live player whose current key is not greater than any live player's current key — never an
exhausted player — and, for the stable classes, the smallest index among equivalent keys. -/
theorem reach_winner_guarded {lt : α → α → Bool} (hlt : SWO lt) {v : Variant} {sentinel dflt : α}
    {t : Tree α} {seqs : List (List α)} (hr : Reach v lt sentinel dflt t seqs)
    (hk : seqs.length ≤ 2 ^ 31) (hg : v.guarded = true)
    (hlive : ∃ q ∈ seqs, q ≠ []) :
    ∃ w kw qw, t.minSource = some w ∧ seqs[w]? = some (kw :: qw) ∧
      ∀ j kj qj, seqs[j]? = some (kj :: qj) →
        lt kj kw = false ∧ (v.stable = true → lt kw kj = false → w ≤ j) := by
  obtain ⟨q0, hq0, hne0⟩ := hlive
  have hk1 : 1 ≤ seqs.length := by
    cases seqs with
    | nil => cases hq0
    | cons _ _ => simp
  obtain ⟨hv, inv, _⟩ := reach_TInv hlt hr hk hk1
  obtain ⟨j0, hj0l, hj0⟩ := List.getElem_of_mem hq0
  obtain ⟨k0, q0', hq0'⟩ : ∃ k0 q0', q0 = k0 :: q0' := by
    cases q0 with
    | nil => exact absurd rfl hne0
    | cons a b => exact ⟨a, b, rfl⟩
  have hl0 : (seqs.map List.head?)[j0]? = some (some k0) := by
    rw [List.getElem?_map, List.getElem?_eq_getElem hj0l, hj0, hq0']; rfl
  obtain ⟨w, kw, W, hm, _, _, hw, hmin⟩ := winner_guarded hlt inv (by rw [hv]; exact hg) ⟨j0, k0, hl0⟩
  obtain ⟨qw, hqw⟩ := head_lookup hw
  refine ⟨w, kw, qw, hm, hqw, fun j kj qj hj => ?_⟩
  have := hmin j kj (by rw [List.getElem?_map, hj]; rfl)
  rw [hv] at this
  exact this

/-- **C09, unguarded classes, all histories** (the caller never lets a player run out).
Hypothesis on the sentinel as documented: no padding players (`k` a power of two), or the
sentinel is not smaller than any key (stable classes) / greater than every key (unstable classes).
Then `min_source()` is always a player whose current key is not greater than any player's
current key, the smallest such index for the stable classes. -/
theorem reach_winner_unguarded {lt : α → α → Bool} (hlt : SWO lt) {v : Variant} {sentinel dflt : α}
    {t : Tree α} {seqs : List (List α)} (hr : Reach v lt sentinel dflt t seqs)
    (hk : seqs.length ≤ 2 ^ 31) (hk1 : 1 ≤ seqs.length) (hg : v.guarded = false)
    (hsent : seqs.length = 2 ^ ceilLog2 seqs.length ∨
      (v.stable = true ∧ ∀ q ∈ seqs, ∀ x ∈ q, lt sentinel x = false) ∨
      (v.stable = false ∧ ∀ q ∈ seqs, ∀ x ∈ q, lt x sentinel = true)) :
    ∃ w kw qw, t.minSource = some w ∧ seqs[w]? = some (kw :: qw) ∧
      ∀ j kj qj, seqs[j]? = some (kj :: qj) →
        lt kj kw = false ∧ (v.stable = true → lt kw kj = false → w ≤ j) := by
  obtain ⟨hv, inv, hne⟩ := reach_TInv hlt hr hk hk1
  have hne := hne hg
  -- every player holds a key
  have hall : ∀ j, j < (seqs.map List.head?).length → ∃ kj, (seqs.map List.head?)[j]? = some (some kj) := by
    intro j hj
    simp only [List.length_map] at hj
    have := hne seqs[j] (List.getElem_mem hj)
    cases hq : seqs[j] with
    | nil => exact absurd hq this
    | cons a b => exact ⟨a, by rw [List.getElem?_map, List.getElem?_eq_getElem hj, hq]; rfl⟩
  obtain ⟨k0, hk0⟩ := hall 0 (by simp; omega)
  obtain ⟨q0, hq0⟩ := head_lookup hk0
  have hmem0 : (k0 :: q0) ∈ seqs := List.mem_of_getElem? hq0
  have hsent' : (seqs.map List.head?).length = 2 ^ ceilLog2 (seqs.map List.head?).length ∨
      (t.v.stable = true ∧ ∃ (j : Nat) (kj : α), (seqs.map List.head?)[j]? = some (some kj) ∧ lt sentinel kj = false) ∨
      (t.v.stable = false ∧ ∃ (j : Nat) (kj : α), (seqs.map List.head?)[j]? = some (some kj) ∧ lt kj sentinel = true) := by
    rw [hv]
    rcases hsent with h | ⟨hs, h⟩ | ⟨hs, h⟩
    · left; simpa using h
    · right; left; exact ⟨hs, 0, k0, hk0, h _ hmem0 k0 (List.mem_cons_self ..)⟩
    · right; right; exact ⟨hs, 0, k0, hk0, h _ hmem0 k0 (List.mem_cons_self ..)⟩
  obtain ⟨w, kw, W, hm, _, _, hw, hmin⟩ := winner_unguarded hlt inv (by rw [hv]; exact hg) hall hsent'
  obtain ⟨qw, hqw⟩ := head_lookup hw
  refine ⟨w, kw, qw, hm, hqw, fun j kj qj hj => ?_⟩
  have := hmin j kj (by rw [List.getElem?_map, hj]; rfl)
  rw [hv] at this
  exact this

/-! ### the consumed key is never read -/

/-- The classes take `const ValueType* keyp` and nothing in their contract asks the caller to keep
a key alive after it has been reported as the winner and consumed.  `delete_min_insert` honours
that: its result is the same whatever the memory behind the previous winner's key holds by then
(a head slot refilled in place, a released node) — it reads `losers_[0].source` only. -/
theorem deleteMinInsert_consumed_key_unread (t : Tree α) (lt : α → α → Bool) (dflt : α) (key : Option α) (x : α) :
    (t.clobberWinnerKey x).deleteMinInsert lt dflt key = t.deleteMinInsert lt dflt key :=
  deleteMinInsert_ignores_winner_key t lt dflt key x

/-- hence every replace step of a caller that recycles the storage of consumed keys re-establishes
the invariant exactly as `replace_TInv` says -/
theorem replace_TInv_recycled {lt : α → α → Bool} (hlt : SWO lt) {sentinel dflt : α} {t : Tree α}
    {pl : List (Option α)} (inv : TInv lt sentinel dflt t pl) {W : Entry α} (hW : rd t.losers 0 = some W)
    (hreal : W.source < pl.length) (key : Option α) (x : α) :
    ∃ t', (t.clobberWinnerKey x).deleteMinInsert lt dflt key = some t' ∧ t'.v = t.v ∧
      TInv lt sentinel dflt t' (pl.set W.source key) := by
  rw [deleteMinInsert_consumed_key_unread]
  exact replace_TInv hlt inv hW hreal key

/-! ### the index types (translator) -/

/-- The models take `Source` to be a 32-bit unsigned integer: `invalid_ = 2^32 - 1`,
`(k_ + source) / 2` wraps at `2^32`, and the theorems are stated for `k ≤ 2^31`.  This theorem is
about the types as extracted from loser_tree.hpp / multiway_merge.hpp on this run: all four base
classes define `Source` as an unsigned 32-bit type with `invalid_ = Source(-1)`, the derived
classes inherit it, and the merges count their sequences in that type.  A narrowed index type
(which silently truncates the number of sequences) makes it fail. -/
theorem source_types_ok :
    Gen.sourceTypes.map (·.1) = ["LoserTreeCopyBase", "LoserTreePointerBase", "LoserTreeCopyUnguardedBase",
      "LoserTreePointerUnguardedBase"] ∧
    (∀ p ∈ Gen.sourceTypes, p.2.1 = 32 ∧ p.2.2.1 = true ∧ p.2.2.2 = true) ∧
    Gen.derivedUseBase = true ∧ Gen.mergeCountsInSource = true ∧ Gen.mergeCountCasts = 2 ∧
    invalid = 2 ^ 32 - 1 ∧ (4294967296 : Nat) = 2 ^ 32 ∧ 2 * 2 ^ 31 ≤ 2 ^ 32 := by decide

/-! ### non-vacuity -/

theorem swo_nat : SWO (fun a b : Nat => decide (a < b)) :=
  { irrefl := fun a => by simp
    trans := fun a b c => by simp only [decide_eq_true_eq]; omega
    ntrans := fun a b c => by simp only [decide_eq_false_iff_not]; omega }

/-- an order whose equivalence is coarser than equality (the harness' `q4`) -/
theorem swo_quarter : SWO (fun a b : Nat => decide (a / 4 < b / 4)) :=
  { irrefl := fun a => by simp
    trans := fun a b c => by simp only [decide_eq_true_eq]; omega
    ntrans := fun a b c => by simp only [decide_eq_false_iff_not]; omega }

/-- the hypotheses of the history theorems are satisfiable for every class: five players
(not a power of two), duplicates, one player exhausted from the start, and a replace step -/
example (v : Variant) (hg : v.guarded = true) :
    ∃ t, Reach v (fun a b : Nat => decide (a < b)) 0 0 t [[3, 3], [], [1, 7], [3], [1]] := by
  obtain ⟨t, hs, _⟩ := start_TInv swo_nat v 0 0
    ([[3, 3], [], [1, 7], [3], [1]].map List.head?) (by simp) (by simp)
  exact ⟨t, Reach.start (fun h => by simp [hg] at h) hs⟩

example (v : Variant) :
    ∃ t w x q t', Reach v (fun a b : Nat => decide (a < b)) 10 0 t [[3, 3], [2, 9], [1, 7]] ∧
      t.minSource = some w ∧ [[3, 3], [2, 9], [1, 7]][w]? = some (x :: q) ∧
      Reach v (fun a b : Nat => decide (a < b)) 10 0 t' ([[3, 3], [2, 9], [1, 7]].set w q) := by
  obtain ⟨t, hs, hv, inv⟩ := start_TInv swo_nat v 10 0
    ([[3, 3], [2, 9], [1, 7]].map List.head?) (by simp) (by simp)
  have hr : Reach v (fun a b : Nat => decide (a < b)) 10 0 t [[3, 3], [2, 9], [1, 7]] :=
    Reach.start (fun _ q hq => by simp at hq; rcases hq with h | h | h <;> simp [h]) hs
  -- the winner is a real player in either kind of class
  have hw : ∃ w kw qw, t.minSource = some w ∧ [[3, 3], [2, 9], [1, 7]][w]? = some (kw :: qw) := by
    cases hg : v.guarded with
    | true =>
      obtain ⟨w, kw, qw, hm, hq, _⟩ := reach_winner_guarded swo_nat hr (by simp) hg ⟨[3, 3], by simp, by simp⟩
      exact ⟨w, kw, qw, hm, hq⟩
    | false =>
      obtain ⟨w, kw, qw, hm, hq, _⟩ := reach_winner_unguarded swo_nat hr (by simp) (by simp) hg
        (by
          cases hst : v.stable with
          | true => right; left; refine ⟨rfl, ?_⟩; decide
          | false => right; right; refine ⟨rfl, ?_⟩; decide)
      exact ⟨w, kw, qw, hm, hq⟩
  obtain ⟨w, kw, qw, hm, hq⟩ := hw
  obtain ⟨t', hd⟩ := reach_progress swo_nat hr (by simp) (by simp) hm hq
  refine ⟨t, w, kw, qw, t', hr, hm, hq, Reach.replace hr hm hq (fun _ => ?_) hd⟩
  -- unguarded: the winner still has a key to feed (every sequence has two keys)
  have : w < 3 := by
    by_cases c : w < 3
    · exact c
    · rw [List.getElem?_eq_none (by simp; omega)] at hq; cases hq
  have h3 : w = 0 ∨ w = 1 ∨ w = 2 := by omega
  rcases h3 with h | h | h <;> subst h <;> simp at hq <;> (obtain ⟨_, rfl⟩ := hq; simp)

end TlxVerif.C09
