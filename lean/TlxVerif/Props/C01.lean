/-
C01 — B+ tree containers are observationally equal to the std ordered containers.
Property theorems over the model `TlxVerif/Model/C01*.lean` (helper lemmas: `TlxVerif/Proofs/C01*.lean`).

All statements are for every leaf/inner capacity ≥ 4 (`Params.Valid`, chosen independently), both
in-node search strategies (`p.bin`), unique and duplicate-key containers (`p.dup`; sets are maps
with `V = Unit`) and every strict weak key order (`StrictWeak p.lt`).
-/
import TlxVerif.Model.C01Tree
import TlxVerif.Model.C01Erase
import TlxVerif.Proofs.C01Basic
import TlxVerif.Proofs.C01Main
import TlxVerif.Proofs.C01Query
import TlxVerif.Proofs.C01Copy
import TlxVerif.Proofs.C01EraseE
import TlxVerif.Proofs.C01EraseG
import TlxVerif.Proofs.C01EraseH
import TlxVerif.Proofs.C01Iter
import TlxVerif.Proofs.C01InsPos
import TlxVerif.Proofs.C01StdOrder
import TlxVerif.Proofs.C01Bulk
import TlxVerif.Proofs.C01RIter
import TlxVerif.Proofs.C01Walk
import TlxVerif.Proofs.C01Full
namespace TlxVerif.C01

variable {K V : Type}

/-! ## the abstract container: a key-ordered association list -/

/-- `std::multi*`-like insertion at the lower bound of the key (tlx places a new entry before the
equivalent ones; libstdc++ behind them — the same key sequence, see `insertLB_keys_eq_insertUB_keys`) -/
def Spec.insertLB (lt : K → K → Bool) (l : List (K × V)) (k : K) (v : V) : List (K × V) :=
  insertAt l (lbIdx lt k l) (k, v)

/-! ## in-node search -/

/-- both in-node search strategies of `find_lower` return the same slot on a node with ordered keys -/
theorem find_lower_binary_eq_linear (p : Params K) (sw : StrictWeak p.lt) (ks : List K) (hs : SortedK p.lt ks) (k : K) :
    findLower { p with bin := true } ks k = findLower { p with bin := false } ks k := by
  rw [findLower_eq_lin { p with bin := true } sw ks hs k, findLower_eq_lin { p with bin := false } sw ks hs k]

/-- likewise for `find_upper` -/
theorem find_upper_binary_eq_linear (p : Params K) (sw : StrictWeak p.lt) (ks : List K) (hs : SortedK p.lt ks) (k : K) :
    findUpper { p with bin := true } ks k = findUpper { p with bin := false } ks k := by
  rw [findUpper_eq_lin { p with bin := true } sw ks hs k, findUpper_eq_lin { p with bin := false } sw ks hs k]

/-! ## insert -/

/-- `insert` (descent, leaf split, inner split incl. the `mid--` rule and the "insert slot is the
split place" branch, new root) refines the sorted-list insertion at the lower bound -/
theorem insert_refines (p : Params K) (pv : p.Valid) (sw : StrictWeak p.lt) (t : Tree K V) (ht : TreeInv p t)
    (k : K) (v : V) :
    ∃ res, insert p t k v = some res ∧ TreeInv p res.tree ∧
      res.tree.toList = if res.inserted then Spec.insertLB p.lt t.toList k v else t.toList := by
  obtain ⟨res, hres⟩ := insert_total p pv t ht.1 k v
  exact ⟨res, hres, insert_treeInv p pv sw t ht k v res hres, insert_toList p pv sw t ht k v res hres⟩

/-- the descent by `find_lower` arrives at the global lower bound, the descent by `find_upper` at the
global upper bound (generic in the up-closed predicate) — the routing fact behind `lower_bound`,
`upper_bound`, `find`, `count`, `exists`, `insert` and `erase_one` -/
theorem descent_reaches_bound (p : Params K) (sw : StrictWeak p.lt) (stop : K → Bool) (hup : UpClosed p.lt stop)
    (h : Nat) (n : BNode K V) (ml mi : Nat) (hs : ShapeTop p ml mi h n) (hsort : SortedE p.lt (flatten h n))
    (hsep : SepOk p h n) :
    rankBy stop h n = (flatten h n).findIdx (fun e => stop e.1) :=
  rankBy_eq_findIdx p sw stop hup h n ml mi hs hsort hsep

/-! ## histories of insertions -/

/-- run a history of insertions on the model -/
def runInserts (p : Params K) : Tree K V → List (K × V) → Option (Tree K V)
  | t, [] => some t
  | t, (k, v) :: ops =>
    match insert p t k v with
    | none => none
    | some r => runInserts p r.tree ops

/-- the same history on the abstract container (`dup = false`: an equivalent key is rejected) -/
def Spec.runInserts (p : Params K) : List (K × V) → List (K × V) → List (K × V)
  | l, [] => l
  | l, (k, v) :: ops =>
    let present := match l[lbIdx p.lt k l]? with
      | some e => p.eqv k e.1
      | none => false
    if !p.dup && present then Spec.runInserts p l ops else Spec.runInserts p (Spec.insertLB p.lt l k v) ops

/-- one `insert` against the abstract container: same acceptance decision, same resulting sequence -/
theorem insert_step_refines (p : Params K) (pv : p.Valid) (sw : StrictWeak p.lt) (t : Tree K V) (ht : TreeInv p t)
    (k : K) (v : V) :
    ∃ res, insert p t k v = some res ∧ TreeInv p res.tree ∧
      res.inserted = !(!p.dup && presentOpt p k (t.toList[lbIdx p.lt k t.toList]?)) ∧
      res.tree.toList = Spec.runInserts p t.toList [(k, v)] := by
  obtain ⟨res, hres, hinv, htl⟩ := insert_refines p pv sw t ht k v
  have hins := insert_inserted p pv sw t ht k v res hres
  refine ⟨res, hres, hinv, hins, ?_⟩
  rw [htl, hins]
  simp only [Spec.runInserts]
  have : (match t.toList[lbIdx p.lt k t.toList]? with | some e => p.eqv k e.1 | none => false) =
      presentOpt p k (t.toList[lbIdx p.lt k t.toList]?) := by
    cases t.toList[lbIdx p.lt k t.toList]? <;> rfl
  rw [this]
  cases hc : (!p.dup && presentOpt p k (t.toList[lbIdx p.lt k t.toList]?)) <;> simp

theorem Spec.runInserts_cons (p : Params K) (l : List (K × V)) (op : K × V) (ops : List (K × V)) :
    Spec.runInserts p l (op :: ops) = Spec.runInserts p (Spec.runInserts p l [op]) ops := by
  obtain ⟨k, v⟩ := op
  simp only [Spec.runInserts]
  split <;> split <;> rfl

/-- refinement for all histories of insertions: from any state satisfying the invariant the model never
leaves defined behaviour, stays inside the invariant, and its entry sequence is the one of the
abstract container driven by the same history -/
theorem insert_history_refines (p : Params K) (pv : p.Valid) (sw : StrictWeak p.lt) :
    ∀ (ops : List (K × V)) (t : Tree K V), TreeInv p t →
      ∃ t', runInserts p t ops = some t' ∧ TreeInv p t' ∧ t'.toList = Spec.runInserts p t.toList ops := by
  intro ops
  induction ops with
  | nil => intro t ht; exact ⟨t, rfl, ht, rfl⟩
  | cons op ops ih =>
    intro t ht
    obtain ⟨k, v⟩ := op
    obtain ⟨res, hres, hinv, _, htl⟩ := insert_step_refines p pv sw t ht k v
    obtain ⟨t', h1, h2, h3⟩ := ih res.tree hinv
    refine ⟨t', ?_, h2, ?_⟩
    · simp only [runInserts, hres]; exact h1
    · rw [h3, htl, ← Spec.runInserts_cons]

/-! ## queries -/

/-- `lower_bound(key)`: the returned position is the lower bound of the abstract container -/
theorem lower_bound_refines (p : Params K) (sw : StrictWeak p.lt) (t : Tree K V) (ht : TreeInv p t) (k : K) :
    ∃ pos, lowerBound p t k = some pos ∧ rankOf t.leafChain pos = lbIdx p.lt k t.toList :=
  lowerBound_spec p sw t ht k

/-- `upper_bound(key)` -/
theorem upper_bound_refines (p : Params K) (sw : StrictWeak p.lt) (t : Tree K V) (ht : TreeInv p t) (k : K) :
    ∃ pos, upperBound p t k = some pos ∧ rankOf t.leafChain pos = ubIdx p.lt k t.toList :=
  upperBound_spec p sw t ht k

/-- `find(key)`: first equivalent entry, or `end()` -/
theorem find_refines (p : Params K) (sw : StrictWeak p.lt) (t : Tree K V) (ht : TreeInv p t) (k : K) :
    ∃ pos, find p t k = some pos ∧
      rankOf t.leafChain pos =
        if presentOpt p k (t.toList[lbIdx p.lt k t.toList]?) then lbIdx p.lt k t.toList else t.toList.length :=
  find_spec p sw t ht k

/-- `exists(key)` -/
theorem exists_refines (p : Params K) (sw : StrictWeak p.lt) (t : Tree K V) (ht : TreeInv p t) (k : K) :
    existsKey p t k = some (presentOpt p k (t.toList[lbIdx p.lt k t.toList]?)) :=
  existsKey_spec p sw t ht k

/-- `count(key)` = the number of entries equivalent to the key -/
theorem count_refines (p : Params K) (pv : p.Valid) (sw : StrictWeak p.lt) (t : Tree K V) (ht : TreeInv p t) (k : K) :
    count p t k = some (t.toList.filter (fun e => p.eqv k e.1)).length :=
  count_spec p pv sw t ht k

/-- the iterator returned by `insert` refers to the new entry (rank = lower bound of the key in the old
sequence); for a rejected insert it refers to the equivalent entry that is already there -/
theorem insert_position (p : Params K) (pv : p.Valid) (sw : StrictWeak p.lt) (t : Tree K V) (ht : TreeInv p t)
    (k : K) (v : V) (res : InsResult K V) (hres : insert p t k v = some res) :
    rankOf res.tree.leafChain (some res.pos) = lbIdx p.lt k t.toList :=
  insert_pos p pv sw t ht k v res hres

/-! ## iteration -/

/-- forward iteration: `r` applications of `operator++` to `begin()` give an iterator whose `*it` is the
`r`-th entry of the sequence; backward iteration: `r ≥ 1` applications of `operator--` to `end()` give
the `r`-th entry from the back -/
theorem iteration_refines (p : Params K) (pv : p.Valid) (t : Tree K V) (ht : TreeInv p t) :
    (∀ r, r < t.toList.length →
      deref t.leafChain (iterN (itInc t.leafChain) r (0, 0)) = t.toList[r]?) ∧
    (∀ e, endPos t.leafChain = some e → ∀ r, 1 ≤ r → r ≤ t.toList.length →
      deref t.leafChain (iterN (itDec t.leafChain) r e) = t.toList[t.toList.length - r]?) :=
  ⟨fun r hr => iteration_fwd_spec p pv t ht r hr, fun e he r h1 h2 => iteration_bwd_spec p pv t ht e he r h1 h2⟩

/-- reverse iteration: `r` applications of `reverse_iterator::operator++` to `rbegin()`
(= `reverse_iterator(end())`, through the converting constructor) give a reverse iterator whose `*rit` is the
`r`-th entry from the back -/
theorem reverse_iteration_refines (p : Params K) (pv : p.Valid) (t : Tree K V) (ht : TreeInv p t) (e : Nat × Nat)
    (he : endPos t.leafChain = some e) (r : Nat) (hr : r < t.toList.length) :
    rderef t.leafChain (iterN (ritInc t.leafChain) r (toReverse t.leafChain e)) = t.toList[t.toList.length - 1 - r]? :=
  iteration_rev_spec p pv t ht e he r hr

/-- the converting constructor after the repair of B1: `*reverse_iterator(it)` is the entry before `it`
(std: `*prev(it)`), at every position incl. leaf boundaries and `end()` -/
theorem iterator_conversion_refines (p : Params K) (pv : p.Valid) (t : Tree K V) (ht : TreeInv p t) (r : Nat)
    (h1 : 1 ≤ r) (h2 : r ≤ t.toList.length) :
    rderef t.leafChain (toReverse t.leafChain (iterN (itInc t.leafChain) r (0, 0))) = t.toList[r - 1]? :=
  rconv_spec p pv t ht r h1 h2

/-- **reverse → forward conversion and `reverse_iterator::operator--`** (after the fix of defect B1):
`iterator(rit)` for the reverse iterator `r ≥ 1` steps behind `rbegin()` refers to the entry of rank
`size − r` — the entry `rit.base()` refers to in std; and `r + 1` applications of `operator--` to `rend()`
give a reverse iterator with `*rit` = the entry of rank `r` -/
theorem reverse_to_forward_refines (p : Params K) (pv : p.Valid) (t : Tree K V) (ht : TreeInv p t) :
    (∀ e, endPos t.leafChain = some e → ∀ r, 1 ≤ r → r ≤ t.toList.length →
      deref t.leafChain (toForward t.leafChain (iterN (ritInc t.leafChain) r (toReverse t.leafChain e))) =
        t.toList[t.toList.length - r]?) ∧
    (∀ r, r < t.toList.length →
      rderef t.leafChain (iterN (ritDec t.leafChain) (r + 1) (toReverse t.leafChain (0, 0))) = t.toList[r]?) := by
  have hne := tree_chain_ne_nil p pv t ht
  have hcf := tree_chain_flatten t
  constructor
  · intro e he r h1 h2
    have hend := isEnd_of_endPos _ e he
    rw [toReverse_end _ hne e hend]
    obtain ⟨m, rfl⟩ : ∃ m, r = m + 1 := ⟨r - 1, by omega⟩
    rw [← hcf] at h2 ⊢
    obtain ⟨hv, hrk⟩ := iterate_rev t.leafChain hne e hend (by omega) m (by omega)
    obtain ⟨i1, _⟩ := ritInc_spec t.leafChain hne _ hv
    obtain ⟨f1, f2⟩ := toForward_spec t.leafChain hne _ (ritInc_form t.leafChain _ hv) (by omega)
    simp only [iterN]
    rw [deref_valid _ _ f1, f2]
    congr 1; omega
  · intro r hr
    have h00 : toReverse t.leafChain (0, 0) = (0, 0) := by simp [toReverse]
    rw [h00, ← hcf] at *
    obtain ⟨_, j2, j3⟩ := iterate_rdec t.leafChain hne (by omega) (r + 1) (by omega)
    rw [rderef_valid _ _ (j3 (by omega)), j2]
    simp

/-- `bulk_load` of an ordered range (level-by-level construction, `n / (parts − i)` distribution): defined,
the container holds exactly the range, and the invariant holds -/
theorem bulk_load_refines (p : Params K) (pv : p.Valid) (sw : StrictWeak p.lt) (es : List (K × V))
    (hs : SortedE p.lt es) : ∃ t l, bulkLoad p es = some (t, l) ∧ t.toList = es ∧ TreeInv p t := by
  obtain ⟨t, l, h1, h2, h3, _⟩ := bulkLoad_ok p pv sw es hs
  exact ⟨t, l, h1, h3, h2⟩

/-- **"up to the relative order of entries with equivalent keys"**: the abstract container refined by the
tlx model (new entries before their equivalents, `Spec.runInserts` = `Spec.runInsertsLB`) and the std-like one
(new entries behind their equivalents, `Spec.runInsertsStd`), driven by the same history from the same
contents, stay ordered and are permutations of each other; unique-key containers accept/reject the same
insertions -/
theorem insertLB_vs_std (p : Params K) (sw : StrictWeak p.lt) (ops : List (K × V)) :
    (Spec.runInserts (V := V) p [] ops).Perm (Spec.runInsertsStd p [] ops) ∧
    SortedE p.lt (Spec.runInserts (V := V) p [] ops) ∧ SortedE p.lt (Spec.runInsertsStd (V := V) p [] ops) := by
  have hsame : ∀ (ops l : List (K × V)), Spec.runInserts p l ops = Spec.runInsertsLB p l ops := by
    intro ops
    induction ops with
    | nil => intro l; rfl
    | cons op ops ih =>
      intro l
      obtain ⟨k, v⟩ := op
      simp only [Spec.runInserts, Spec.runInsertsLB, Spec.insertLB]
      have : (match l[lbIdx p.lt k l]? with | some e => p.eqv k e.1 | none => false) =
          presentOpt p k (l[lbIdx p.lt k l]?) := by
        cases l[lbIdx p.lt k l]? <;> rfl
      rw [this, ih, ih]
  rw [hsame]
  exact lb_vs_std p sw ops [] [] (List.Perm.refl _) (by simp [SortedE]) (by simp [SortedE])

/-! ## erase -/

/-- `erase_one(key)` (descent, the five-way underflow table, merge_*, shift_left_*, shift_right_*, root
collapse): defined on every state satisfying the invariant; it erases iff the entry at the lower bound is
equivalent to the key, and then exactly that entry — the abstract container's `erase_one`.
(`Spec.eraseOne`; the resulting tree again satisfies the shape invariant and is ordered, see C02.) -/
theorem erase_one_refines (p : Params K) (pv : p.Valid) (sw : StrictWeak p.lt) (t : Tree K V) (ht : TreeInv p t) (k : K) :
    ∃ res, eraseOne p t k = some res ∧ (res.tree.toList, res.erased) = Spec.eraseOne p t.toList k := by
  obtain ⟨res, h1, h2, _⟩ := eraseOne_spec p pv sw t ht k
  exact ⟨res, h1, h2⟩

/-- `erase(iterator)`: defined on every well-shaped tree; when it erases, the entry sequence loses exactly
the entry at the iterator's rank `rankOf chain (leaf, slot)` and nothing else moves -/
theorem erase_iter_refines_partial (p : Params K) (pv : p.Valid) (t : Tree K V) (ht : TreeInv p t) (leaf slot : Nat)
    (e : K × V) (he : deref t.leafChain (leaf, slot) = some e) :
    ∃ res, eraseIter p t leaf slot = some res ∧
      (res.erased = true → res.tree.toList = t.toList.eraseIdx (rankOf t.leafChain (some (leaf, slot)))) := by
  obtain ⟨res, hres, _, hyes⟩ := eraseTop_ok p pv (.iter leaf slot e.1) t ht.1
  refine ⟨res, by simp only [eraseIter, he, hres], ?_⟩
  intro herased
  obtain ⟨r, i, hr, hi, hfl, hhit⟩ := (hyes herased).flat
  simp only [HitAt, Nat.sub_zero] at hhit
  obtain ⟨_, lf, h1, h2, h3⟩ := hhit
  rw [hfl, h3]
  simp [Tree.leafChain, hr]

/-- **`erase(iterator)`** for a dereferenceable iterator: the depth-first search that starts at
`find_lower(iter.key())` and walks to the right always finds the iterator's leaf; the entry sequence loses
exactly the entry the iterator refers to, and the result satisfies the invariant again -/
theorem erase_iter_refines (p : Params K) (pv : p.Valid) (sw : StrictWeak p.lt) (t : Tree K V) (ht : TreeInv p t)
    (leaf slot : Nat) (e : K × V) (he : deref t.leafChain (leaf, slot) = some e) :
    ∃ res, eraseIter p t leaf slot = some res ∧ res.erased = true ∧ TreeInv p res.tree ∧
      res.tree.toList = t.toList.eraseIdx (rankOf t.leafChain (some (leaf, slot))) := by
  obtain ⟨res, h1, h2⟩ := eraseIter_erases p pv sw t ht leaf slot e he
  obtain ⟨res', h3, h4⟩ := erase_iter_refines_partial p pv t ht leaf slot e he
  rw [h1] at h3
  cases h3
  obtain ⟨res'', h5, h6⟩ := eraseTop_treeInv p pv sw (.iter leaf slot e.1) t ht
  have h7 : eraseIter p t leaf slot = some res'' := by simp only [eraseIter, he, h5]
  rw [h1] at h7
  cases h7
  exact ⟨res, h1, h2, h6, h4 h2⟩

/-! ## histories of insertions and erasures -/

/-- an update of the container: insert or erase_one -/
inductive Upd (K V : Type) where
  | ins (k : K) (v : V)
  | er1 (k : K)

def runUpds (p : Params K) : Tree K V → List (Upd K V) → Option (Tree K V)
  | t, [] => some t
  | t, .ins k v :: ops =>
    match insert p t k v with
    | none => none
    | some r => runUpds p r.tree ops
  | t, .er1 k :: ops =>
    match eraseOne p t k with
    | none => none
    | some r => runUpds p r.tree ops

def Spec.runUpds (p : Params K) : List (K × V) → List (Upd K V) → List (K × V)
  | l, [] => l
  | l, .ins k v :: ops => Spec.runUpds p (Spec.runInserts p l [(k, v)]) ops
  | l, .er1 k :: ops => Spec.runUpds p (Spec.eraseOne p l k).1 ops

/-- **refinement for all histories of insertions and erasures by key**: from any state satisfying the
invariant (in particular the empty container) the B+ tree model is defined at every step, stays inside
the invariant, and holds exactly the entry sequence of the abstract sorted-list container driven by the
same history — for every capacity ≥ 4, both in-node searches, unique and duplicate-key containers and
every strict weak order -/
theorem history_refines (p : Params K) (pv : p.Valid) (sw : StrictWeak p.lt) :
    ∀ (ops : List (Upd K V)) (t : Tree K V), TreeInv p t →
      ∃ t', runUpds p t ops = some t' ∧ TreeInv p t' ∧ t'.toList = Spec.runUpds p t.toList ops := by
  intro ops
  induction ops with
  | nil => intro t ht; exact ⟨t, rfl, ht, rfl⟩
  | cons op ops ih =>
    intro t ht
    cases op with
    | ins k v =>
      obtain ⟨res, hres, hinv, _, htl⟩ := insert_step_refines p pv sw t ht k v
      obtain ⟨t', h1, h2, h3⟩ := ih res.tree hinv
      exact ⟨t', by simp only [runUpds, hres]; exact h1, h2, by rw [h3, htl]; rfl⟩
    | er1 k =>
      obtain ⟨res, hres, hspec⟩ := erase_one_refines p pv sw t ht k
      obtain ⟨res', hres', hinv⟩ := eraseTop_treeInv p pv sw (.key k) t ht
      have : res' = res := by
        have h1 : eraseOne p t k = some res' := hres'
        rw [hres] at h1; cases h1; rfl
      subst this
      obtain ⟨t', h1, h2, h3⟩ := ih res'.tree hinv
      refine ⟨t', by simp only [runUpds, hres]; exact h1, h2, ?_⟩
      rw [h3]
      have : res'.tree.toList = (Spec.eraseOne p t.toList k).1 := by rw [← hspec]
      rw [this]; rfl

/-! ## copy, assignment, clear -/

/-- copy construction and `operator=` give the target the source's entry sequence (and keep the invariant) -/
theorem copy_assign_refine (p : Params K) (pv : p.Valid) (t o : Tree K V) (ht : TreeInv p t) (ho : TreeInv p o) :
    (copyCtor o).1.toList = o.toList ∧ TreeInv p (copyCtor o).1 ∧
    (assign t o).1.toList = o.toList ∧ TreeInv p (assign t o).1 ∧ (clear t).1.toList = [] := by
  have h1 := copyCtor_spec p pv o ho
  have h2 := assign_spec p pv t o ht ho
  refine ⟨h1.2.1, h1.1, h2.2.1, h2.1, ?_⟩
  unfold clear
  cases hroot : t.root with
  | none => simp [Tree.toList, hroot]
  | some r => simp [Tree.toList]

/-! ## the whole operation language

`Op` (Model/C01Machine.lean) is the type the driver parses every protocol line into (`parseOp` in
Model/C01Step.lean; the driver's `step` is `parseOp` + `stepOp` + printing), so the function the theorem
is about is the function compared with the implementation.

Canonicalisation.  The abstract container (`SSt`, `specStep`) is a key-ordered association list per
register together with the comparator the register currently holds; a new entry is placed at the
*lower bound* of its key (before the entries with an equivalent key), `erase_one`/`erase(key)` remove
the first equivalent entry first.  `Rel` relates a model state to an abstract state by *equality* of the
flattened leaf contents with the list (`toList`, no permutation, no sorting) and by the invariant
`TreeInv`.  Model answers are compared after `MOut.abs`, which only replaces every iterator
`(leaf, slot)` by its rank = number of `++` steps from `begin()` (`rankOf`); entries, booleans, counts and
visited sequences are compared as they are.  The std containers differ from this specification only in
the relative order of entries with equivalent keys (libstdc++ inserts behind them):
`insertLB_vs_std` below relates the two. -/

/-- **every history of every operation**: insert (all three forms, answer: inserted flag and position),
`operator[]`, range insert / range construction, `erase_one`, `erase(key)` (all occurrences, count),
`erase(iterator)`, `find` / `lower_bound` / `upper_bound` / `equal_range` (ranks), `exists`, `count`, `size` /
`empty`, iteration in all sixteen modes (four iterator classes × `++` from begin / `--` from end), both
iterator conversions, `clear`, `bulk_load`, copy construction, assignment, both swaps between the two
registers and the six comparison operators.  From the empty state with any pair of comparators: the
model machine never leaves defined behaviour, refuses (`bad-op`) exactly the operations the abstract
machine refuses, gives exactly the abstract answers, and ends in a state related to the abstract one
(same flattened contents, invariant) -/
theorem history_refines_full (c : Cfg) (pv : c.p.Valid) (m0 m1 : Nat) (ops : List Op) :
    ∃ s' lg, runOps c { m0 := m0, m1 := m1 } ops = some (s', (specRun c { m0 := m0, m1 := m1 } ops).2, lg) ∧
      Rel c s' (specRun c { m0 := m0, m1 := m1 } ops).1 := by
  obtain ⟨s', lg, h1, h2, _⟩ := run_refines c pv ops _ _ (rel_init c m0 m1)
  exact ⟨s', lg, h1, h2⟩

/-- the same from any related pair of states (the induction behind `history_refines_full`) -/
theorem history_refines_full_from (c : Cfg) (pv : c.p.Valid) (ops : List Op) (s : MSt) (ss : SSt) (h : Rel c s ss) :
    ∃ s' lg, runOps c s ops = some (s', (specRun c ss ops).2, lg) ∧ Rel c s' (specRun c ss ops).1 := by
  obtain ⟨s', lg, h1, h2, _⟩ := run_refines c pv ops s ss h
  exact ⟨s', lg, h1, h2⟩

/-- one step, as used by the history theorem -/
theorem step_refines_full (c : Cfg) (pv : c.p.Valid) (s : MSt) (ss : SSt) (h : Rel c s ss) (op : Op) :
    match specStep c ss op with
    | none => stepOp c s op = .bad
    | some (ss', o) =>
      ∃ s' mo lg, stepOp c s op = .ok (s', mo, lg) ∧ mo.abs (s.get op.reg) (s'.get op.reg) = o ∧ Rel c s' ss' := by
  have := stepOp_refines c pv s ss h op
  cases hsp : specStep c ss op with
  | none => rw [hsp] at this; exact this
  | some res =>
    obtain ⟨ss1, o⟩ := res
    rw [hsp] at this
    obtain ⟨s1, mo, l1, g1, g2, g3, _⟩ := this
    exact ⟨s1, mo, l1, g1, g2, g3⟩

/-- the abstract lists stay ordered by the comparator their register holds (so ranks are lower/upper
bounds in the usual sense) -/
theorem spec_lists_sorted (c : Cfg) (pv : c.p.Valid) (m0 m1 : Nat) (ops : List Op) :
    SortedE (orderLt (specRun c { m0 := m0, m1 := m1 } ops).1.m0) (specRun c { m0 := m0, m1 := m1 } ops).1.l0 ∧
    SortedE (orderLt (specRun c { m0 := m0, m1 := m1 } ops).1.m1) (specRun c { m0 := m0, m1 := m1 } ops).1.l1 := by
  obtain ⟨s', lg, _, h2, _⟩ := run_refines c pv ops _ _ (rel_init c m0 m1)
  exact ⟨by rw [← h2.m0, ← h2.l0]; exact h2.inv0.2.1, by rw [← h2.m1, ← h2.l1]; exact h2.inv1.2.1⟩

/-- non-vacuity of `history_refines_full`: a multimap history with splits, a swap, erasures and a
comparison, answered as the abstract machine answers -/
def sampleCfg : Cfg := { kind := 3, p := { leafMax := 4, innerMax := 4, bin := true, dup := true, lt := orderLt 0 } }
def sampleHistory : List Op :=
  (List.range 24).map (fun i => Op.ins .plain 0 ((i * 7) % 11) i) ++
    [.copy 1 0, .era 0 3, .swap 0 1, .eri 1 2, .lb 0 5, .iter 1 5, .fconv 0 3, .cmp 0 1, .bulk 1 [(1, 1)], .clear 1,
     .bulk 1 [(1, 1), (1, 2), (4, 0)]]

example : ((runOps sampleCfg {} sampleHistory).map fun r => (r.1.t0.toList.length, r.1.t1.toList.length, r.2.1.length)) =
    some (24, 3, 35) := by decide +kernel

/-! ## non-vacuity -/

def natParams (leaf inner : Nat) (bin dup : Bool) : Params Nat :=
  { leafMax := leaf, innerMax := inner, bin := bin, dup := dup, lt := fun a b => decide (a < b) }

theorem natParams_valid : (natParams 4 4 true true).Valid := ⟨by decide, by decide⟩

theorem nat_strictWeak : StrictWeak (natParams 4 4 true true).lt := by
  refine ⟨?_, ?_, ?_⟩ <;> intros <;> simp_all [natParams] <;> omega

/-- a history that splits leaves and an inner node: the resulting tree has height 2 and satisfies the
hypotheses of every theorem above -/
def sampleOps : List (Nat × Unit) := (List.range 30).map (fun i => ((i * 7) % 11, ()))

example : ∃ t, runInserts (natParams 4 4 true true) ({} : Tree Nat Unit) sampleOps = some t ∧
    TreeInv (natParams 4 4 true true) t ∧ t.height = 2 ∧ t.toList.length = 30 := by
  obtain ⟨t, h1, h2, _⟩ := insert_history_refines (natParams 4 4 true true) natParams_valid
    nat_strictWeak sampleOps {} (treeInv_empty _)
  refine ⟨t, h1, h2, ?_, ?_⟩
  · have : (runInserts (natParams 4 4 true true) ({} : Tree Nat Unit) sampleOps).map Tree.height = some 2 := by decide +kernel
    rw [h1] at this; simpa using this
  · have : (runInserts (natParams 4 4 true true) ({} : Tree Nat Unit) sampleOps).map (fun t => t.toList.length) = some 30 := by
      decide +kernel
    rw [h1] at this; simpa using this

end TlxVerif.C01
