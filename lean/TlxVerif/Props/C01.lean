import TlxVerif.Model.C01Tree
import TlxVerif.Model.C01Erase
namespace TlxVerif.C01

theorem insertAt_length {α : Type} (l : List α) (i : Nat) (x : α) : (insertAt l i x).length = l.length + 1 := by
  simp [insertAt]; omega

end TlxVerif.C01
