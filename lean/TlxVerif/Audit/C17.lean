import TlxVerif.Props.C17
#print axioms TlxVerif.C17.lru_step_refines
#print axioms TlxVerif.C17.lru_refines
#print axioms TlxVerif.C17.ref_throws_iff_absent
#print axioms TlxVerif.C17.lru_no_dangling
#print axioms TlxVerif.C17.splay_preserves_inorder
#print axioms TlxVerif.C17.splay_preserves_bst
#print axioms TlxVerif.C17.splay_root_parts
#print axioms TlxVerif.C17.splay_step_refines
#print axioms TlxVerif.C17.splay_refines
#print axioms TlxVerif.C17.splay_clear_frees_all
#print axioms TlxVerif.C17.totalOrder_less
#print axioms TlxVerif.C17.totalOrder_greater
#print axioms TlxVerif.C17.splay_check_characterised
