import TlxVerif.Props.C17
#print axioms TlxVerif.C17.inorder_nil
