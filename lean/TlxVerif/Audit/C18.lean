import TlxVerif.Props.C18
#print axioms TlxVerif.C18.old_copy_ne_spec
#print axioms TlxVerif.C18.old_compare_ne_spec
#print axioms TlxVerif.C18.old_rfind_ne_spec
#print axioms TlxVerif.C18.old_lt_ne_spec
