import TlxVerif.Props.C20
#print axioms TlxVerif.C20.popcountGeneric8_table
