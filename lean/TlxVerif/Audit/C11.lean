import TlxVerif.Props.C11
#print axioms TlxVerif.C11.sem_init_value
