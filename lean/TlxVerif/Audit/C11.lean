import TlxVerif.Props.C11
#print axioms TlxVerif.C11.sem_conservation
#print axioms TlxVerif.C11.sem_take_only_when_covered
#print axioms TlxVerif.C11.sem_wait_return
#print axioms TlxVerif.C11.sem_no_lost_wakeup
#print axioms TlxVerif.C11.sem_at_rest_no_stranded_waiter
#print axioms TlxVerif.C11.barM_release_together
#print axioms TlxVerif.C11.barM_action_by_last_arriver
#print axioms TlxVerif.C11.barM_no_deadlock
#print axioms TlxVerif.C11.barM_actions_total
#print axioms TlxVerif.C11.barS_release_together
#print axioms TlxVerif.C11.barS_releaser_is_last_arriver
#print axioms TlxVerif.C11.barS_action_by_releaser
#print axioms TlxVerif.C11.barS_no_deadlock
#print axioms TlxVerif.C11.barS_actions_total
#print axioms TlxVerif.C11.sem_stuck_is_at_rest
#print axioms TlxVerif.C11.barM_stuck_is_at_rest
#print axioms TlxVerif.C11.barS_stuck_is_at_rest
