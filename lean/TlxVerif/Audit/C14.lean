import TlxVerif.Props.C14
#print axioms TlxVerif.C14.md5_tables
