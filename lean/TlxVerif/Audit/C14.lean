import TlxVerif.Props.C14
#print axioms TlxVerif.C14.digestOfChunks_eq
#print axioms TlxVerif.C14.chunking_independent
#print axioms TlxVerif.C14.curlen_in_bounds
#print axioms TlxVerif.C14.md5_tables
#print axioms TlxVerif.C14.sha1_tables
#print axioms TlxVerif.C14.sha256_tables
#print axioms TlxVerif.C14.sha512_tables
#print axioms TlxVerif.C14.hex_tables
#print axioms TlxVerif.C14.md5_compress_eq
#print axioms TlxVerif.C14.sha1_compress_eq
#print axioms TlxVerif.C14.sha256_compress_eq
#print axioms TlxVerif.C14.sha512_compress_eq
#print axioms TlxVerif.C14.md5_correct
#print axioms TlxVerif.C14.sha1_correct
#print axioms TlxVerif.C14.sha256_correct
#print axioms TlxVerif.C14.sha512_correct
#print axioms TlxVerif.C14.padZeros_smallest
