import TlxVerif.Props.C02
#print axioms TlxVerif.C02.ledger_add_zero
