import TlxVerif.Props.C02
#print axioms TlxVerif.C02.inv_init
#print axioms TlxVerif.C02.insert_defined
#print axioms TlxVerif.C02.inv_insert
#print axioms TlxVerif.C02.insert_ledger
#print axioms TlxVerif.C02.stats_eq_recount
#print axioms TlxVerif.C02.clear_ledger
#print axioms TlxVerif.C02.lifetime_balance
#print axioms TlxVerif.C02.erase_shape_ledger
#print axioms TlxVerif.C02.inv_erase_one_partial
#print axioms TlxVerif.C02.inv_erase
#print axioms TlxVerif.C02.inv_all_histories
#print axioms TlxVerif.C02.inv_bulk_load
#print axioms TlxVerif.C02.verify_passes
#print axioms TlxVerif.C02.verify_after_every_history
