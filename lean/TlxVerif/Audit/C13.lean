import TlxVerif.Props.C13
#print axioms TlxVerif.C13.push_heap
#print axioms TlxVerif.C13.pop_heap
#print axioms TlxVerif.C13.build_heap
#print axioms TlxVerif.C13.top_minimal
#print axioms TlxVerif.C13.dary_step
#print axioms TlxVerif.C13.dary_history
#print axioms TlxVerif.C13.drain_sorted
#print axioms TlxVerif.C13.weakOrd_prio
#print axioms TlxVerif.C13.weakOrd_prio_rev
#print axioms TlxVerif.C13.addr_step
#print axioms TlxVerif.C13.addr_history
#print axioms TlxVerif.C13.contains_iff
#print axioms TlxVerif.C13.aremove_spec
#print axioms TlxVerif.C13.abuild_spec
