import TlxVerif.Props.C13
#print axioms TlxVerif.C13.parent_lt_again
