import TlxVerif.Props.C07
#print axioms TlxVerif.C07.equally_split_spec
#print axioms TlxVerif.C07.stable_merge_characterisation
#print axioms TlxVerif.C07.exact_splitting_correct
#print axioms TlxVerif.C07.sampling_splitting_correct
#print axioms TlxVerif.C07.thread_target_position
#print axioms TlxVerif.C07.output_windows_tile
#print axioms TlxVerif.C07.inputs_advanced_exactly
#print axioms TlxVerif.C07.front_end_switch
#print axioms TlxVerif.C07.sliceChunk_eq
#print axioms TlxVerif.C07.equallySplit_zero_witness
#print axioms TlxVerif.C07.merge_phase_all_schedules
#print axioms TlxVerif.C07.model_splitters_nondecreasing
#print axioms TlxVerif.C07.model_refines_spec
#print axioms TlxVerif.C07.front_ends_refine_spec
