import TlxVerif.Props.C07
#print axioms TlxVerif.C07.usesParallel_table
