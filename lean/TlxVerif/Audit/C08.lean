import TlxVerif.Props.C08
#print axioms TlxVerif.C08.partition_nested
#print axioms TlxVerif.C08.partition_unique_at_rank
#print axioms TlxVerif.C08.checker_sound
#print axioms TlxVerif.C08.checker_complete
#print axioms TlxVerif.C08.certified_run_is_the_partition
#print axioms TlxVerif.C08.partition_exists_for_every_rank
#print axioms TlxVerif.C08.partition_rank_total
#print axioms TlxVerif.C08.ends_are_partition_at_total
#print axioms TlxVerif.C08.selection_characterised
#print axioms TlxVerif.C08.partition_is_weak
#print axioms TlxVerif.C08.model_roundUp_is_least_power_of_two
#print axioms TlxVerif.C08.model_sample_sort_determined
#print axioms TlxVerif.C08.refinement_correct
#print axioms TlxVerif.C08.refinement_correct_lists
#print axioms TlxVerif.C08.selection_model_correct
