import TlxVerif.Props.C08
#print axioms TlxVerif.C08.partition_nested
#print axioms TlxVerif.C08.partition_unique_at_rank
#print axioms TlxVerif.C08.checker_sound
#print axioms TlxVerif.C08.checker_complete
#print axioms TlxVerif.C08.certified_run_is_the_partition
