import TlxVerif.Props.C12
#print axioms TlxVerif.C12.inv_iff
#print axioms TlxVerif.C12.inv_init
#print axioms TlxVerif.C12.step_ok
#print axioms TlxVerif.C12.run_ok
#print axioms TlxVerif.C12.run_init_ok
#print axioms TlxVerif.C12.step_mono
#print axioms TlxVerif.C12.refcount_eq_handles
#print axioms TlxVerif.C12.destroyed_iff_no_handles
#print axioms TlxVerif.C12.no_dangling
#print axioms TlxVerif.C12.destroyed_exactly_when_last_handle_goes
#print axioms TlxVerif.C12.deleter_invoked_iff_last_handle_released
#print axioms TlxVerif.C12.deleter_runs_exactly_once
#print axioms TlxVerif.C12.reach_inv
#print axioms TlxVerif.C12.conc_safety
#print axioms TlxVerif.C12.conc_terminal_destroyed_once
#print axioms TlxVerif.C12.conc_progress
#print axioms TlxVerif.C12.runSched_reach
