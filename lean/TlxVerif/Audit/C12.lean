import TlxVerif.Props.C12
#print axioms TlxVerif.C12.init_no_handles
