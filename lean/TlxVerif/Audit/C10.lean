import TlxVerif.Props.C10
#print axioms TlxVerif.C10.init_owner
