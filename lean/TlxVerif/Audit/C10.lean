import TlxVerif.Props.C10
#print axioms TlxVerif.C10.pool_job_at_most_once
#print axioms TlxVerif.C10.pool_loop_until_empty_quiescent
#print axioms TlxVerif.C10.pool_loop_until_empty_predicate
#print axioms TlxVerif.C10.pool_mutex
