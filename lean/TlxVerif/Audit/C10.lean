import TlxVerif.Props.C10
#print axioms TlxVerif.C10.pool_job_at_most_once
#print axioms TlxVerif.C10.pool_loop_until_empty_quiescent
#print axioms TlxVerif.C10.pool_loop_until_empty_predicate
#print axioms TlxVerif.C10.pool_mutex
#print axioms TlxVerif.C10.pool_at_rest_workers
#print axioms TlxVerif.C10.pool_at_rest_busy
#print axioms TlxVerif.C10.pool_at_rest_waiter
#print axioms TlxVerif.C10.pool_at_rest_main
#print axioms TlxVerif.C10.pool_idle_count
#print axioms TlxVerif.C10.pool_stuck_is_at_rest
#print axioms TlxVerif.C10.pool_thrown_jobs_counted
#print axioms TlxVerif.C10.pool_done_le_destroyed
#print axioms TlxVerif.C10.pool_destroy_job_point
#print axioms TlxVerif.C10.pool_terminate_under_mutex
#print axioms TlxVerif.C10.pool_pick_under_mutex
