import TlxVerif.Props.C16
#print axioms TlxVerif.C16.roundUpPow2_ge
