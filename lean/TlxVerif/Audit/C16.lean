import TlxVerif.Props.C16
#print axioms TlxVerif.C16.history_refines
#print axioms TlxVerif.C16.ringbuffer_is_bounded_deque
#print axioms TlxVerif.C16.live_eq_stored
#print axioms TlxVerif.C16.slot_alive_iff_stored
#print axioms TlxVerif.C16.lifetimes_exact
#print axioms TlxVerif.C16.dtor_leaves_nothing
#print axioms TlxVerif.C16.roundUpPow2_ge
#print axioms TlxVerif.C16.step_refines
#print axioms TlxVerif.C16.sv_new
#print axioms TlxVerif.C16.sv_resize
#print axioms TlxVerif.C16.sv_resize_contents
#print axioms TlxVerif.C16.sv_destroy
#print axioms TlxVerif.C16.sv_moveAssign
#print axioms TlxVerif.C16.sv_fill_set
#print axioms TlxVerif.C16.sv_resize_throw
#print axioms TlxVerif.C16.sv_new_throw
#print axioms TlxVerif.C16.sv_resize_nothrow
