import TlxVerif.Props.C03
#print axioms TlxVerif.C03.sorted_iff_neighbours
#print axioms TlxVerif.C03.adjLcps_getElem
#print axioms TlxVerif.C03.lcp_is_longest
#print axioms TlxVerif.C03.lcp_positions
#print axioms TlxVerif.C03.insertion_sort_correct
#print axioms TlxVerif.C03.bucket_step
#print axioms TlxVerif.C03.border_loop_correct
#print axioms TlxVerif.C03.multikey_quicksort_correct_partial
#print axioms TlxVerif.C03.radixsort_CE0_correct_partial
#print axioms TlxVerif.C03.radix16_step
#print axioms TlxVerif.C03.radixsort_CE2_correct_partial
#print axioms TlxVerif.C03.radixsort_CE3_correct_partial
#print axioms TlxVerif.C03.radixsort_CI2_correct_partial
#print axioms TlxVerif.C03.radixsort_CI3_correct_partial
#print axioms TlxVerif.C03.sort_strings_correct_partial
#print axioms TlxVerif.C03.sort_strings_correct_of
