import TlxVerif.Props.C03
#print axioms TlxVerif.C03.lcp_comm
