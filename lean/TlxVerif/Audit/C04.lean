import TlxVerif.Props.C04
#print axioms TlxVerif.C04.proto_fixed_safe
#print axioms TlxVerif.C04.proto_refs_alive
#print axioms TlxVerif.C04.proto_counter_eq
#print axioms TlxVerif.C04.proto_delete_at_zero
#print axioms TlxVerif.C04.proto_quiescent_all_deleted
#print axioms TlxVerif.C04.proto_destroy_count
#print axioms TlxVerif.C04.proto_deleted_exactly_once
#print axioms TlxVerif.C04.proto_orig_D24_no_subjob
#print axioms TlxVerif.C04.proto_orig_D24_child_last
#print axioms TlxVerif.C04.proto_orig_loop_uaf
#print axioms TlxVerif.C04.key_order
#print axioms TlxVerif.C04.key_lcp
#print axioms TlxVerif.C04.key_equal_deeper
#print axioms TlxVerif.C04.key_equal_done
#print axioms TlxVerif.C04.key_read_in_bounds
#print axioms TlxVerif.C04.subjobs_write_disjoint
#print axioms TlxVerif.C04.subjobs_order_irrelevant
