import TlxVerif.Props.C04
#print axioms TlxVerif.C04.proto_fixed_safe
#print axioms TlxVerif.C04.proto_refs_alive
#print axioms TlxVerif.C04.proto_counter_eq
#print axioms TlxVerif.C04.proto_delete_at_zero
#print axioms TlxVerif.C04.proto_quiescent_all_deleted
#print axioms TlxVerif.C04.proto_destroy_count
#print axioms TlxVerif.C04.proto_deleted_exactly_once
#print axioms TlxVerif.C04.proto_orig_D24_no_subjob
#print axioms TlxVerif.C04.proto_orig_D24_child_last
#print axioms TlxVerif.C04.proto_orig_loop_uaf
