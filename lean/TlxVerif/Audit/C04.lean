import TlxVerif.Props.C04
#print axioms TlxVerif.C04.fillLcp_length
