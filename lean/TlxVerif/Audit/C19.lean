import TlxVerif.Props.C19
#print axioms TlxVerif.C19.dec64_enc64
