import TlxVerif.Props.C09
#print axioms TlxVerif.C09.placeholder
