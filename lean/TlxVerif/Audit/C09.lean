import TlxVerif.Props.C09
#print axioms TlxVerif.C09.start_TInv
#print axioms TlxVerif.C09.startPerm_TInv
#print axioms TlxVerif.C09.replace_TInv
#print axioms TlxVerif.C09.winner_guarded
#print axioms TlxVerif.C09.winner_unguarded
#print axioms TlxVerif.C09.reach_TInv
#print axioms TlxVerif.C09.reach_progress
#print axioms TlxVerif.C09.reach_winner_guarded
#print axioms TlxVerif.C09.reach_winner_unguarded
#print axioms TlxVerif.C09.initWinner_correct
#print axioms TlxVerif.C09.rrec_correct
#print axioms TlxVerif.C09.replay_leaf
#print axioms TlxVerif.C09.stepOK
#print axioms TlxVerif.C09.initOK
#print axioms TlxVerif.C09.source_types_ok
#print axioms TlxVerif.C09.deleteMinInsert_consumed_key_unread
#print axioms TlxVerif.C09.replace_TInv_recycled
