import TlxVerif.Props.C15
#print axioms TlxVerif.C15.zero_one_principle
#print axioms TlxVerif.C15.checkNet_sound
#print axioms TlxVerif.C15.table_ok
#print axioms TlxVerif.C15.dispatch_eq_direct
#print axioms TlxVerif.C15.network_inRange
#print axioms TlxVerif.C15.network_sorts
#print axioms TlxVerif.C15.network_sorts_adjacent
#print axioms TlxVerif.C15.dispatch_sorts
#print axioms TlxVerif.C15.dispatch_abort
