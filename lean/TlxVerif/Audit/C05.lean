import TlxVerif.Props.C05
#print axioms TlxVerif.C05.merge3_tableOK
#print axioms TlxVerif.C05.merge4_tableOK
#print axioms TlxVerif.C05.merge3_rows_ops
#print axioms TlxVerif.C05.merge4_rows_ops
#print axioms TlxVerif.C05.run_spec
#print axioms TlxVerif.C05.kMerge_spec
#print axioms TlxVerif.C05.stableRun_exists_unique
#print axioms TlxVerif.C05.mergeAdvance_spec
#print axioms TlxVerif.C05.merge3_guarded_run
#print axioms TlxVerif.C05.merge4_guarded_run
#print axioms TlxVerif.C05.merge3_sentinel_run
#print axioms TlxVerif.C05.merge4_sentinel_run
#print axioms TlxVerif.C05.loserTree_run
#print axioms TlxVerif.C05.multiwayMergeBase_partial
#print axioms TlxVerif.C05.machineMerge_run
#print axioms TlxVerif.C05.StableRun.kMerge_eq
#print axioms TlxVerif.C05.MinRun.sorted
