import TlxVerif.Props.C05
#print axioms TlxVerif.C05.placeholder
