import TlxVerif.Props.C01
#print axioms TlxVerif.C01.insertAt_length
