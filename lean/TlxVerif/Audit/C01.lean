import TlxVerif.Props.C01
#print axioms TlxVerif.C01.find_lower_binary_eq_linear
#print axioms TlxVerif.C01.find_upper_binary_eq_linear
#print axioms TlxVerif.C01.insert_refines
#print axioms TlxVerif.C01.descent_reaches_bound
#print axioms TlxVerif.C01.insert_history_refines_partial
#print axioms TlxVerif.C01.insertDescend_flatten
#print axioms TlxVerif.C01.insertDescend_sep
