import TlxVerif.Props.C01
#print axioms TlxVerif.C01.find_lower_binary_eq_linear
#print axioms TlxVerif.C01.find_upper_binary_eq_linear
#print axioms TlxVerif.C01.insert_refines
#print axioms TlxVerif.C01.insert_step_refines
#print axioms TlxVerif.C01.insert_history_refines
#print axioms TlxVerif.C01.descent_reaches_bound
#print axioms TlxVerif.C01.lower_bound_refines
#print axioms TlxVerif.C01.upper_bound_refines
#print axioms TlxVerif.C01.find_refines
#print axioms TlxVerif.C01.exists_refines
#print axioms TlxVerif.C01.insertDescend_flatten
#print axioms TlxVerif.C01.insertDescend_sep
#print axioms TlxVerif.C01.erase_one_refines
#print axioms TlxVerif.C01.erase_iter_refines_partial
#print axioms TlxVerif.C01.copy_assign_refine
#print axioms TlxVerif.C01.eraseTop_ok
#print axioms TlxVerif.C01.history_refines
