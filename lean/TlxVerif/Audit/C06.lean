import TlxVerif.Props.C06
#print axioms TlxVerif.C06.pmsort_small
