import TlxVerif.Props.C06
#print axioms TlxVerif.C06.starts_spec
#print axioms TlxVerif.C06.slices_tile_input
#print axioms TlxVerif.C06.stable_sort_characterisation
#print axioms TlxVerif.C06.exact_mergesort_is_stable_sort
#print axioms TlxVerif.C06.sampling_mergesort_is_stable_sort
#print axioms TlxVerif.C06.merge_windows_tile
#print axioms TlxVerif.C06.temporaries_ledger_balanced
#print axioms TlxVerif.C06.small_input_untouched
#print axioms TlxVerif.C06.unstable_mergesort_sorted_perm
#print axioms TlxVerif.C06.merge_back_all_schedules
#print axioms TlxVerif.C06.model_refines_spec
