/-
C03 — tlx/sort/strings/insertion_sort.hpp, both overloads.

The sorted prefix `strings[0..j-1]` is kept *reversed* (last element first): the inner `while`
walks from the hole at `j` towards the front, which is a walk along the reversed prefix.
-/
import TlxVerif.Model.C03Basic
namespace TlxVerif.C03

variable {α : Type} (str : α → Str)

/-- the comparison of the plain insertion sort (insertion_sort.hpp:57-64):
`s = get_chars(ss[j-1], depth); t = get_chars(tmp, depth); while (is_equal) ++s, ++t; is_leq(…)` -/
def leqFrom (depth : Nat) (p tmp : Str) : Bool :=
  let a := p.drop depth
  let b := tmp.drop depth
  let k := lcp a b
  isLeq (a.drop k) (b.drop k)

/-- inner `while (j != begin)` loop of the plain insertion sort on the reversed prefix -/
def insPlain (depth : Nat) (tmp : α) : List α → List α
  | [] => [tmp]
  | p :: rest =>
    if leqFrom depth (str p) (str tmp) then tmp :: p :: rest
    else p :: insPlain depth tmp rest

/-- `insertion_sort` without LCP (insertion_sort.hpp:32-72) -/
def insertionSortPlain (depth : Nat) (ss : List α) : List α :=
  (ss.foldl (fun r x => insPlain str depth x r) []).reverse

/-- inner `while (i > 0)` loop of the LCP insertion sort (insertion_sort.hpp:105-150) on the
reversed prefix.  An entry `(s, l)` stands for `strings[k] = s`, `lcp[k+1] = l`: every string
travels together with the LCP to its successor. -/
def insLcp (new : α) : Nat → List (α × Nat) → List (α × Nat)
  | newLcp, [] => [(new, newLcp)]
  | newLcp, (cur, curLcp) :: rest =>
    if curLcp < newLcp then
      -- CASE 1: lcp goes down -> insert string
      (new, newLcp) :: (cur, curLcp) :: rest
    else if curLcp = newLcp then
      -- CASE 2: compare more characters
      let c1 := (str new).drop newLcp
      let c2 := (str cur).drop newLcp
      let k := lcp c1 c2
      let newLcp' := newLcp + k
      if ¬ isLess (c1.drop k) (c2.drop k) then
        -- set_lcp(i, new_lcp); new_lcp = prev_lcp; insert
        (new, newLcp) :: (cur, newLcp') :: rest
      else
        (cur, curLcp) :: insLcp new newLcp' rest
    else
      -- CASE 3: nothing to do
      (cur, curLcp) :: insLcp new newLcp rest

/-- `insertion_sort` with LCP (insertion_sort.hpp:79-220).  The last iteration of the C++ code is
the same loop with the stores to `lcp[n]` suppressed, i.e. the LCP that travels with the last
string is dropped. -/
def insertionSortLcp (depth : Nat) (ss : List α) (l : List Nat) : List α × List Nat :=
  if ss.length ≤ 1 then (ss, l)
  else
    let r := (ss.foldl (fun r x => insLcp str x depth r) []).reverse
    (r.map Prod.fst, l.take 1 ++ (r.map Prod.snd).take (ss.length - 1) ++ l.drop ss.length)

/-- SFINAE dispatch on `StringPtr::with_lcp` -/
def insertionSort (withLcp : Bool) (depth : Nat) (ss : List α) (l : List Nat) : List α × List Nat :=
  if withLcp then insertionSortLcp str depth ss l else (insertionSortPlain str depth ss, l)

end TlxVerif.C03
