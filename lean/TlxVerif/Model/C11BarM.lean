/-
C11 — tlx::ThreadBarrierMutex as a labelled transition system (conventions of
Model/C10Pool.lean).  Thread 0 = main (spawns n threads, joins them); thread
i ≥ 1 calls `wait(action)` `gens` times.

    void wait(Lambda lambda) {
        std::unique_lock<std::mutex> lock(mutex_);
        size_t current = step_;
        counts_[current]++;
        if (counts_[current] < thread_count_) {
            while (counts_[current] < thread_count_) cv_.wait(lock);
        } else {                       // last thread has reached the barrier
            step_ = step_ ? 0 : 1;
            counts_[step_] = 0;
            lambda();
            cv_.notify_all();
        }
    }

Ghost state: per thread `arrived` (number of `counts_[current]++` executed) and
`left` (number of completed wait calls); `begun` / `actions` (number of lambda calls begun / ended).

The action is a multi-step action: it begins (`actB`) in the arrival step of the last arriver, takes
`actYields` scheduling points (`act j`, the mutex is held throughout) and ends (`actE`) before
`cv_.notify_all()`.
-/
import TlxVerif.Model.C10Sched
namespace TlxVerif.C11.BarM
open TlxVerif.Sched (StepOut)

inductive Pc
  | start | finished
  | mSpawn (i : Nat) | mJoin (i : Nat)
  | lock                     -- unique_lock lock(mutex_)
  | cvwait (cur : Nat)       -- cv_.wait(lock), local `current = cur`
  | waiting (cur : Nat)      -- woken (or spuriously), re-acquire
  | act (j : Nat)            -- inside lambda(): `j` more scheduling points of the action to go (mutex held)
  | notify                   -- cv_.notify_all() by the last arriver
  | unlock                   -- ~unique_lock, wait() returns
  deriving DecidableEq, Repr, Inhabited

structure Thread where
  pc : Pc
  arrived : Nat := 0
  left : Nat := 0
  deriving Repr, Inhabited

structure State where
  n : Nat
  gens : Nat
  c0 : Nat := 0
  c1 : Nat := 0
  step : Nat := 0
  owner : Option Nat := none
  ws : List Nat := []
  spawned : Nat := 0
  thr : List Thread
  /-- scheduling points inside the action -/
  actYields : Nat := 0
  /-- ghost: actions begun / actions ended -/
  begun : Nat := 0
  actions : Nat := 0
  deriving Repr

def init (n gens : Nat) (actYields : Nat := 0) : State :=
  { n := n, gens := gens, actYields := actYields, thr := { pc := .start } :: List.replicate n { pc := .start } }

def count (s : State) (i : Nat) : Nat := if i = 0 then s.c0 else s.c1
def setCount (s : State) (i v : Nat) : State :=
  { s with c0 := if i = 0 then v else s.c0, c1 := if i = 0 then s.c1 else v }

/-- `step_ ? 0 : 1` -/
def other (i : Nat) : Nat := if i = 0 then 1 else 0

def pcOf (s : State) (t : Nat) : Pc := (s.thr[t]?.map (·.pc)).getD .finished
/-- update the record of thread `t` -/
def upd (s : State) (t : Nat) (f : Thread → Thread) : State := { s with thr := s.thr.modify t f }
def setPc (s : State) (t : Nat) (pc : Pc) : State := upd s t fun th => { th with pc := pc }
def ev (t : Nat) (e : String) : String := s!"{t}:{e}"

def enabled (s : State) (t : Nat) : Bool :=
  match pcOf s t with
  | .finished => false
  | .start => t ≤ s.spawned
  | .lock => s.owner.isNone
  | .waiting _ => s.owner.isNone && !s.ws.contains t
  | .mJoin i => pcOf s (i + 1) == .finished
  | _ => true

def spurCand (s : State) (t : Nat) : Bool :=
  match pcOf s t with
  | .waiting _ => s.owner.isNone && s.ws.contains t
  | _ => false

def unfinished (s : State) (t : Nat) : Bool :=
  t < s.thr.length && t ≤ s.spawned && pcOf s t != .finished

/-- where the last arriver goes when the action begins: without scheduling points inside, the action also ends
    in the same step -/
def beginPc (s : State) : Pc := if s.actYields = 0 then .notify else .act s.actYields
def beginEnded (s : State) : Nat := if s.actYields = 0 then s.actions + 1 else s.actions
def beginEvs (s : State) (t : Nat) : List String := if s.actYields = 0 then [ev t s!"actE{s.actions}"] else []

def out (s : State) (evs : List String) : Option (StepOut State) := some { st := s, evs := evs }

def step (s : State) (t : Nat) (_c : Nat) : Option (StepOut State) :=
  match s.thr[t]? with
  | none => none
  | some th =>
  match th.pc with
  | .finished => none
  | .start =>
    if t > s.spawned then none
    else if t = 0 then out (setPc s t (.mSpawn 0)) [ev t "start"]
    else out (setPc s t (if s.gens = 0 then .finished else .lock)) [ev t "start"]
  | .mSpawn i =>
    out (setPc { s with spawned := i + 1 } t (if i + 1 < s.n then .mSpawn (i + 1) else .mJoin 0)) [ev t s!"spawn({i + 1})"]
  | .mJoin i =>
    if pcOf s (i + 1) == .finished then
      if i + 1 < s.n then out (setPc s t (.mJoin (i + 1))) [ev t s!"join({i + 1})"]
      else out (setPc s t .finished) [ev t s!"join({i + 1})", ev t "end"]
    else none
  | .lock =>
    if s.owner.isNone then
      let cur := s.step                    -- size_t current = step_;
      let cnt := count s cur + 1           -- counts_[current]++;
      if cnt < s.n then
        out (upd (setCount { s with owner := some t } cur cnt) t
              fun th => { th with pc := .cvwait cur, arrived := th.arrived + 1 }) [ev t "lock(m)"]
      else
        -- last thread has reached the barrier: step_ = step_ ? 0 : 1; counts_[step_] = 0; lambda();
        let st' := other s.step
        -- the action begins; without scheduling points inside it also ends in this step
        let s1 := setCount (setCount { s with owner := some t, step := st', begun := s.begun + 1,
                                              actions := beginEnded s } cur cnt) st' 0
        out (upd s1 t fun th => { th with pc := beginPc s, arrived := th.arrived + 1 })
            ([ev t "lock(m)", ev t s!"actB{s.begun}"] ++ beginEvs s t)
    else none
  | .cvwait cur => out (setPc { s with owner := none, ws := s.ws ++ [t] } t (.waiting cur)) [ev t "wait(cv)"]
  | .waiting cur =>
    if s.owner.isNone then
      let sp := s.ws.contains t
      let s1 := { s with owner := some t, ws := s.ws.erase t }
      some { st := setPc s1 t (if count s cur < s.n then .cvwait cur else .unlock),
             evs := [ev t (if sp then "wake!(cv)" else "wake(cv)")], spurious := sp }
    else none
  | .act j =>
    if j ≤ 1 then out (setPc { s with actions := s.actions + 1 } t .notify) [ev t "yield", ev t s!"actE{s.actions}"]
    else out (setPc s t (.act (j - 1))) [ev t "yield"]
  | .notify => out (setPc { s with ws := [] } t .unlock) [ev t s!"nall(cv)#{s.ws.length}"]
  | .unlock =>
    let nxt : Pc := if th.left + 1 < s.gens then .lock else .finished
    out (upd { s with owner := none } t fun th => { th with left := th.left + 1, pc := nxt })
        [ev t "unlock(m)", ev t s!"left{th.left}"]

def lts : TlxVerif.Sched.LTS State where
  nthreads := fun s => s.thr.length
  unfinished := unfinished
  enabled := enabled
  spurCand := spurCand
  step := step

end TlxVerif.C11.BarM
