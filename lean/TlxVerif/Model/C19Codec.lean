/-
C19 — executable model of the codecs: tlx/string/base64.cpp and tlx/string/hexdump.cpp.
The tables come from Gen/C19Tables.lean, regenerated from the sources on every run.
Each definition follows the loop of the C++ function it names (`std::uint8_t`
arithmetic = `UInt8`).
-/
import TlxVerif.Gen.C19Tables
import TlxVerif.Model.C18Spec
namespace TlxVerif.C19
open TlxVerif.C18 (Bytes)

/-- `encoding64[i]` -/
def enc64 (i : UInt8) : UInt8 := Gen.encoding64.getD i.toNat 0
/-- `decoding64[c]` -/
def dec64 (c : UInt8) : UInt8 := Gen.decoding64.getD c.toNat 255

/-- the `while (true)` loop of `base64_encode`; `col` is `out.size() - line_begin` -/
def encodeLoop (lb : Nat) : Bytes → Nat → Bytes
  | [], _ => []
  | [a], _ =>
    [enc64 ((a &&& 0xFC) >>> 2), enc64 ((a &&& 0x03) <<< 4), 61, 61]
  | [a, b], _ =>
    [enc64 ((a &&& 0xFC) >>> 2), enc64 (((a &&& 0x03) <<< 4) ||| ((b &&& 0xF0) >>> 4)),
     enc64 ((b &&& 0x0F) <<< 2), 61]
  | a :: b :: c :: rest, col =>
    let q := [enc64 ((a &&& 0xFC) >>> 2), enc64 (((a &&& 0x03) <<< 4) ||| ((b &&& 0xF0) >>> 4)),
              enc64 (((b &&& 0x0F) <<< 2) ||| ((c &&& 0xC0) >>> 6)), enc64 ((c &&& 0x3F) >>> 0)]
    if lb > 0 ∧ col + 4 ≥ lb then q ++ 10 :: encodeLoop lb rest 0
    else q ++ encodeLoop lb rest (col + 4)

/-- `base64_encode(data, size, line_break)` -/
def base64Encode (data : Bytes) (lb : Nat) : Bytes :=
  if data.isEmpty then [] else encodeLoop lb data 0

/-- the decoder: `phase` = which of the four `do … while (fragment >= ws)` blocks is
running, `oc` = `outchar`.  `none` = `std::runtime_error` (strict mode) -/
def decodeLoop (strict : Bool) : Bytes → Nat → UInt8 → Option Bytes
  | [], _, _ => some []
  | c :: rest, phase, oc =>
    let f := dec64 c
    if f == Gen.decEx && strict then none
    else if f ≥ Gen.decWs then decodeLoop strict rest phase oc
    else
      match phase with
      | 0 => decodeLoop strict rest 1 ((f &&& 0x3F) <<< 2)
      | 1 => (decodeLoop strict rest 2 ((f &&& 0x0F) <<< 4)).map ((oc ||| ((f &&& 0x30) >>> 4)) :: ·)
      | 2 => (decodeLoop strict rest 3 ((f &&& 0x03) <<< 6)).map ((oc ||| ((f &&& 0x3C) >>> 2)) :: ·)
      | _ => (decodeLoop strict rest 0 0).map ((oc ||| ((f &&& 0x3F) >>> 0)) :: ·)

/-- `base64_decode(data, size, strict)` -/
def base64Decode (data : Bytes) (strict : Bool) : Option Bytes := decodeLoop strict data 0 0

/-- `hexdump` / `hexdump_lc` with the given `xdigits` table -/
def hexdumpWith (xd : List UInt8) (data : Bytes) : Bytes :=
  data.flatMap fun (b : UInt8) => [xd.getD ((b &&& 0xF0) >>> 4).toNat 0, xd.getD (b &&& 0x0F).toNat 0]

def hexdump (data : Bytes) : Bytes := hexdumpWith Gen.xdigitsUC data
def hexdumpLc (data : Bytes) : Bytes := hexdumpWith Gen.xdigitsLC data

/-- one `switch (*si)`: the or-ed constant, `none` = `default: throw` -/
def switchLookup (tbl : List (UInt8 × UInt8)) (c : UInt8) : Option UInt8 :=
  (tbl.find? fun p => p.1 == c).map (·.2)

/-- `parse_hexdump`; `none` = `std::runtime_error` -/
def parseHexdump : Bytes → Option Bytes
  | [] => some []
  | [_] => none            -- either an invalid digit or `++si == str.end()`
  | h :: l :: rest =>
    match switchLookup Gen.parseHi h, switchLookup Gen.parseLo l with
    | some x, some y => (parseHexdump rest).map ((0 ||| x ||| y) :: ·)
    | _, _ => none

end TlxVerif.C19
