/-
Model of the eight loser tree classes of `tlx/container/loser_tree.hpp`:

  LoserTreeCopy<Stable>, LoserTreePointer<Stable>                    (guarded)
  LoserTreeCopyUnguarded<Stable>, LoserTreePointerUnguarded<Stable>  (unguarded)

State = the data members `ik_`, `k_`, `losers_` (an `Array`, every access is
bounds-checked: an out-of-bounds access makes the operation return `none`).
An entry is `{sup, source, key}`; for the pointer classes `sup` stands for
`keyp == nullptr`; the unguarded classes have no `sup` member (it is `false`
throughout, and their `swap(source); swap(key)` is a swap of the whole entry).
`Source` is `uint32_t`: `invalid_` is `2^32-1` and `(k_ + source) / 2` wraps.

Every member function is transliterated: the constructor's padding loop,
`insert_start`, the recursive `init_winner` (fuel = height, structural),
`init`, the leaf-to-root loop of `delete_min_insert` (the four variants of
its body are `step`), `min_source`, and `first_insert_` of `LoserTreeCopyBase` (the first
`insert_start` call copies its key into the `key` member of all `2*k_` nodes).  Not
modelled: the uninitialised state of nodes before they are written (a placeholder entry
that no theorem relies on).
-/
namespace TlxVerif.C09

/-- `Source(-1)` -/
def invalid : Nat := 4294967295

structure Entry (α : Type) where
  sup : Bool
  source : Nat
  key : α
  deriving Repr, DecidableEq, Inhabited

/-- which of the eight classes -/
structure Variant where
  copy : Bool       -- LoserTreeCopy… (keys stored) vs LoserTreePointer… (key pointers stored)
  guarded : Bool
  stable : Bool
  deriving Repr, DecidableEq, Inhabited

/-- bounds-checked read / write of `losers_[i]` -/
def rd {β : Type} (a : Array β) (i : Nat) : Option β := a[i]?
def wr {β : Type} (a : Array β) (i : Nat) (v : β) : Option (Array β) :=
  if i < a.size then some (a.setIfInBounds i v) else none

/-- height of the tree: least `h` with `n ≤ 2^h` -/
def ceilLog2 (n : Nat) : Nat := if n ≤ 1 then 0 else Nat.log2 (n - 1) + 1

/-- `round_up_to_power_of_two(n)` for `n ≥ 1` (the bit-smearing loop itself is verified in C20) -/
def roundUpPow2 (n : Nat) : Nat := 2 ^ ceilLog2 n

structure Tree (α : Type) where
  v : Variant
  ik : Nat                       -- ik_
  k : Nat                        -- k_
  losers : Array (Entry α)       -- losers_ (size 2*k_)
  firstInsert : Bool := true     -- first_insert_ (LoserTreeCopyBase only)
  deriving Repr

variable {α : Type}

/-- `for (i = start; i < k_; ++i) losers_[i + k_] = pad`, `n` = remaining iterations -/
def padLoop (k : Nat) (pad : Entry α) : Nat → Nat → Array (Entry α) → Option (Array (Entry α))
  | 0, _, a => some a
  | n + 1, i, a => do
    let a' ← wr a (i + k) pad
    padLoop k pad n (i + 1) a'

/-- the constructors.  `dflt` = `ValueType()`; `sentinel` is only used by the unguarded classes. -/
def construct (v : Variant) (ik : Nat) (sentinel dflt : α) : Option (Tree α) :=
  let k := roundUpPow2 ik
  let raw : Entry α := { sup := false, source := 0, key := dflt }     -- "uninitialised"
  if v.guarded then do
    -- LoserTreeCopyBase / LoserTreePointerBase: i = ik_-1 .. k_-1 : sup = true (keyp = nullptr), source = invalid_
    let a ← padLoop k { sup := true, source := invalid, key := dflt } (k - (ik - 1)) (ik - 1)
              (Array.replicate (2 * k) raw)
    pure { v := v, ik := ik, k := k, losers := a }
  else if v.copy then
    -- LoserTreeCopyUnguardedBase: all 2*k_ entries = (invalid_, sentinel)
    pure { v := v, ik := ik, k := k,
           losers := Array.replicate (2 * k) { sup := false, source := invalid, key := sentinel } }
  else do
    -- LoserTreePointerUnguardedBase: i = ik_-1 .. k_-1 : (invalid_, &sentinel)
    let a ← padLoop k { sup := false, source := invalid, key := sentinel } (k - (ik - 1)) (ik - 1)
              (Array.replicate (2 * k) raw)
    pure { v := v, ik := ik, k := k, losers := a }

/-- the entry made from the arguments `(keyp, sup)` of `insert_start` / `delete_min_insert`:
`key = none` ≙ `keyp == nullptr`, `sup == true` (`dflt` = `ValueType()`) -/
def mkEntry (dflt : α) (key : Option α) (source : Nat) : Entry α :=
  match key with
  | some x => { sup := false, source := source, key := x }
  | none => { sup := true, source := source, key := dflt }

/-- `insert_start(keyp, source, sup)`.
`LoserTreeCopyBase` (copy, guarded): `sup` and `source` of the leaf are set; on the first call
(`first_insert_`) the `key` member of **every** node becomes the inserted key (or `ValueType()`),
on later calls only the leaf's.  The other classes write the leaf only. -/
def Tree.insertStart (t : Tree α) (dflt : α) (key : Option α) (source : Nat) : Option (Tree α) := do
  let pos := t.k + source
  if t.v.copy && t.v.guarded then
    let old ← rd t.losers pos
    let kv := key.getD dflt
    let a ← wr t.losers pos { sup := key.isNone, source := source, key := old.key }
    if t.firstInsert then
      pure { t with losers := a.map (fun e => { e with key := kv }), firstInsert := false }
    else do
      let a' ← wr a pos { sup := key.isNone, source := source, key := kv }
      pure { t with losers := a' }
  else do
    let a ← wr t.losers pos (mkEntry dflt key source)
    pure { t with losers := a }

/-- a sequence of `insert_start(key, source, …)` calls in the given order -/
def insertList (dflt : α) : List (Nat × Option α) → Tree α → Option (Tree α)
  | [], t => some t
  | (source, key) :: rest, t => do
    let t' ← t.insertStart dflt key source
    insertList dflt rest t'

/-- `for (t = i; t < k; ++t) insert_start(key of player t, t, …)` as every user does -/
def insertFrom (dflt : α) : List (Option α) → Nat → Tree α → Option (Tree α)
  | [], _, t => some t
  | key :: ks, i, t => do
    let t' ← t.insertStart dflt key i
    insertFrom dflt ks (i + 1) t'

/-- the test of `init_winner`: "left one is less or equal" -/
def leftWins (guarded : Bool) (lt : α → α → Bool) (L R : Entry α) : Bool :=
  if guarded then R.sup || (!L.sup && !lt R.key L.key) else !lt R.key L.key

/-- `init_winner(root)`; returns the index of the winning leaf -/
def initWinner (guarded : Bool) (lt : α → α → Bool) (k : Nat) :
    Nat → Nat → Array (Entry α) → Option (Nat × Array (Entry α))
  | fuel, root, a =>
    if root ≥ k then some (root, a) else
    match fuel with
    | 0 => none
    | f + 1 => do
      let (left, a1) ← initWinner guarded lt k f (2 * root) a
      let (right, a2) ← initWinner guarded lt k f (2 * root + 1) a1
      let L ← rd a2 left
      let R ← rd a2 right
      if leftWins guarded lt L R then do
        let a3 ← wr a2 root R
        pure (left, a3)
      else do
        let a3 ← wr a2 root L
        pure (right, a3)

/-- `init()` -/
def Tree.init (t : Tree α) (lt : α → α → Bool) : Option (Tree α) :=
  if t.k = 0 then some t else do
    let (w, a) ← initWinner t.v.guarded lt t.k (ceilLog2 t.ik) 1 t.losers
    let W ← rd a w
    let a' ← wr a 0 W
    pure { t with losers := a' }

/-- One iteration of the `delete_min_insert` loop at a node holding `L`, candidate `c`.
`none`: "this candidate is smaller", nothing is written.
`some (stored, cand)`: the new content of the node and the new candidate. -/
def step (v : Variant) (lt : α → α → Bool) (L c : Entry α) : Option (Entry α × Entry α) :=
  match v.guarded, v.stable with
  | true, false =>
    if c.sup then some (c, L)                               -- swap sup, source, key
    else if L.sup then none
    else if lt L.key c.key then                             -- swap source, key
      some ({ L with source := c.source, key := c.key }, { c with source := L.source, key := L.key })
    else none
  | true, true =>
    if (c.sup && (!L.sup || L.source < c.source)) ||
       (!c.sup && !L.sup && (lt L.key c.key || (!lt c.key L.key && L.source < c.source)))
    then some (c, L) else none
  | false, false =>
    if lt L.key c.key then some (c, L) else none
  | false, true =>
    if lt L.key c.key || (!lt c.key L.key && L.source < c.source) then some (c, L) else none

/-- `for (pos = …; pos > 0; pos /= 2)` of `delete_min_insert` -/
def replay (v : Variant) (lt : α → α → Bool) :
    Nat → Entry α → Array (Entry α) → Option (Entry α × Array (Entry α))
  | pos, c, a =>
    if pos = 0 then some (c, a) else do
      let L ← rd a pos
      match step v lt L c with
      | none => replay v lt (pos / 2) c a
      | some (s, c') => do
        let a' ← wr a pos s
        replay v lt (pos / 2) c' a'
termination_by pos => pos
decreasing_by all_goals omega

/-- `delete_min_insert(keyp, sup)` -/
def Tree.deleteMinInsert (t : Tree α) (lt : α → α → Bool) (dflt : α) (key : Option α) : Option (Tree α) := do
  let W ← rd t.losers 0
  let source := W.source
  let pos := ((t.k + source) % 4294967296) / 2
  let (c, a) ← replay t.v lt pos (mkEntry dflt key source) t.losers
  let a' ← wr a 0 c
  pure { t with losers := a' }

/-- construct a tree for `keys.length` players, `insert_start` every player's first key
(`none` = the player starts exhausted), `init()` -/
def Tree.start (v : Variant) (lt : α → α → Bool) (sentinel dflt : α) (keys : List (Option α)) :
    Option (Tree α) := do
  let t ← construct v keys.length sentinel dflt
  let t ← insertFrom dflt keys 0 t
  t.init lt

/-- like `Tree.start`, with the players registered in the order of `regs` (source, first key) -/
def Tree.startPerm (v : Variant) (lt : α → α → Bool) (sentinel dflt : α) (ik : Nat)
    (regs : List (Nat × Option α)) : Option (Tree α) := do
  let t ← construct v ik sentinel dflt
  let t ← insertList dflt regs t
  t.init lt

/-- What the tree sees when the caller, having been handed the winner, overwrites or releases the
storage of the consumed key before it feeds the next one (a head slot refilled in place, a freed
node): for the pointer classes `losers_[0].keyp` then points to memory holding `x` (or garbage).
`delete_min_insert` must not depend on it — `Props/C09.lean`, `deleteMinInsert_ignores_winner_key`. -/
def Tree.clobberWinnerKey (t : Tree α) (x : α) : Tree α :=
  match t.losers[0]? with
  | some W => { t with losers := t.losers.setIfInBounds 0 { W with key := x } }
  | none => t

/-- `min_source()` -/
def Tree.minSource (t : Tree α) : Option Nat := do
  let W ← rd t.losers 0
  if t.v.guarded && !t.v.copy then
    pure (if W.sup then invalid else W.source)      -- keyp ? source : invalid_
  else pure W.source

end TlxVerif.C09
