/-
C19 — the functions that were defective on the pinned tree, transliterated as they were
*before* the `fix:` commits (DESIGN §5 D18–D22 and the two further findings), so that the
defects stay machine-checked facts (Props/C19.lean proves a concrete disagreement for each).
-/
import TlxVerif.Model.C19Split
import TlxVerif.Model.C19Helpers
namespace TlxVerif.C19
open TlxVerif.C18 (Bytes npos)
namespace Old

/-- `split(into, string_view sep, str, limit)`, main loop with explicit iterators `it`, `last`:
`for (; it + sep.size() < str.end(); ++it)`, after a match `last = it + sep.size()` but `it`
advances by one only.  `none` = `std::length_error` from `emplace_back(last, it)` with `it < last`. -/
def splitStrLoop (sep str : Bytes) (limit : Nat) : Nat → Nat → Nat → Nat → Option (List Bytes)
  | 0, _, last, _ => some [str.drop last]
  | fuel + 1, it, last, count =>
    if it + sep.length < str.length then
      if sep.isPrefixOf (str.drop it) then
        if count + 1 ≥ limit then some [str.drop last]
        else if it < last then none
        else (splitStrLoop sep str limit fuel (it + 1) (it + sep.length) (count + 1)).map
          (((str.drop last).take (it - last)) :: ·)
      else splitStrLoop sep str limit fuel (it + 1) last count
    else some [str.drop last]

def splitStr (sep str : Bytes) (limit : Nat) : Option (List Bytes) :=
  if limit = 0 then some []
  else if sep.isEmpty then some (str.map fun c => [c])          -- ignores `limit`
  else splitStrLoop sep str limit (str.length + 1) 0 0 0

/-- D20: only fields containing the separator were quoted -/
def quoteField (sep quote esc : UInt8) (s : Bytes) : Bytes :=
  if s.contains sep then quote :: (quoteBody quote esc s ++ [quote]) else s

def joinQuoted (strs : List Bytes) (sep quote esc : UInt8) : Bytes :=
  match strs with
  | [] => []
  | s :: ss => quoteField sep quote esc s ++ (ss.flatMap fun x => sep :: quoteField sep quote esc x)

/-- D21 + D22: `int ca = to_lower(*a++)` (signed), and the signs for a proper prefix inverted -/
def compareIcase : Bytes → Bytes → Int
  | a :: as, b :: bs =>
    let ca := charToInt (toLower a)
    let cb := charToInt (toLower b)
    if ca == cb then compareIcase as bs
    else if ca < cb then -1 else 1
  | [], _ :: _ => 1
  | _ :: _, [] => -1
  | [], [] => 0

/-- `equal_icase(string_view a, const char* b)`: `return ai == a.end() && *b != 0` -/
def equalIcaseViewCstr : Bytes → Bytes → Bool
  | a :: as, b :: bs => if toLower a == toLower b then equalIcaseViewCstr as bs else false
  | [], [] => false
  | [], _ :: _ => true
  | _ :: _, [] => false

/-- D22 in `less_icase`: `to_lower(c1) < to_lower(c2)` on plain char -/
def lessIcaseView (a b : Bytes) : Bool :=
  TlxVerif.C18.Model.lexCompare (fun x y => decide (charToInt (toLower x) < charToInt (toLower y))) a b

end Old
end TlxVerif.C19
