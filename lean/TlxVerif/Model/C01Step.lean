/-
C01/C02 — line-protocol front end of the B+ tree machine (Model/C01Machine.lean): parse an operation line
into an `Op`, execute `stepOp`, render the answer.  Operation list and answer format: see harness/c01.hpp.
Used by Driver/C01.lean and Driver/C02.lean.
-/
import TlxVerif.Model.Drv
import TlxVerif.Model.C01Machine
namespace TlxVerif.C01

/-- driver state: the configuration line and the machine state -/
structure St where
  cfg : Option Cfg := none
  m : MSt := {}
  a0 : Nat := 1            -- allocator instance held by register 0
  a1 : Nat := 2

/-! ### printing -/

def showEnt (isMap : Bool) (e : Ent) : String :=
  if isMap then s!"{e.1}:{e.2}" else s!"{e.1}"

partial def showNode (isMap : Bool) : BNode Nat Nat → String
  | .leaf es => "(" ++ " ".intercalate (es.map (showEnt isMap)) ++ ")"
  | .inner l keys kids =>
    s!"[{l}|" ++ " ".intercalate (keys.map toString) ++ "|" ++ String.join (kids.map (showNode isMap)) ++ "]"

def showTree (isMap : Bool) (t : T) : String :=
  s!"s={t.stats.size},{t.stats.leaves},{t.stats.inner} " ++
    match t.root with
    | none => "-"
    | some r => showNode isMap r

def showPos (t : T) : Pos → String
  | none => "@-"
  | some (li, s) => s!"@{li}.{s}={rankOf t.leafChain (some (li, s))}"

def showLedger (l : Ledger) : String := s!"a={l.leafAlloc},{l.leafFree},{l.innerAlloc},{l.innerFree}"

def showOptEnt (isMap : Bool) : Option Ent → String
  | some e => showEnt isMap e
  | none => "!"

/-- ` <instance>:<+leaf>,<-leaf>,<+inner>,<-inner>` for every allocator instance something went through,
ascending -/
def showParts (parts : List (Nat × Ledger)) : String :=
  let arenas := ((parts.map Prod.fst).eraseDups.toArray.qsort (· < ·)).toList
  String.join (arenas.map fun a =>
    let l := sumFor a parts
    if l = {} then "" else s!" {a}:{l.leafAlloc},{l.leafFree},{l.innerAlloc},{l.innerFree}")

def bit (b : Bool) : String := if b then "1" else "0"

/-! ### parsing (mirrors `num` / `parse_ent` / `reg` of the harness) -/

def num (s : String) : Option Nat :=
  if s.length = 0 ∨ s.length > 9 then none
  else if s.all Char.isDigit then s.toNat? else none

def reg (s : String) : Option Nat :=
  match num s with
  | some r => if r ≤ 1 then some r else none
  | none => none

def parseEnt (isMap : Bool) (s : String) : Option Ent :=
  match s.splitOn ":" with
  | [k] => if isMap then none else (num k).map (fun k => (k, 0))
  | [k, v] =>
    match num k, num v with
    | some k, some v => some (k, if isMap then v else 0)
    | _, _ => none
  | _ => none

/-- an operation line as an `Op`; `none` = not an operation of the protocol (`bad-op`) -/
def parseOp (isMap : Bool) (ts : List String) : Option Op :=
  match ts with
  | op :: r :: rest =>
    match reg r with
    | none => none
    | some r =>
      if op = "bulk" ∨ op = "insr" ∨ op = "rctor" then
        match rest.mapM (parseEnt isMap) with
        | none => none
        | some es => some (if op = "bulk" then .bulk r es else if op = "insr" then .insr r es else .rctor r es)
      else
        match rest with
        | [a, b] =>
          match num a, num b with
          | some k, some v =>
            if op = "ins" then some (.ins .plain r k v)
            else if op = "insh" then some (.ins .hint r k v)
            else if op = "ins2" then some (.ins .two r k v)
            else none
          | _, _ => none
        | [a] =>
          if op = "copy" ∨ op = "assign" ∨ op = "swap" ∨ op = "tswap" ∨ op = "cmp" then
            match reg a with
            | none => none
            | some q =>
              some (if op = "copy" then .copy r q else if op = "assign" then .assign r q
                    else if op = "swap" then .swap r q else if op = "tswap" then .tswap r q else .cmp r q)
          else
            match num a with
            | none => none
            | some k =>
              if op = "idx" then some (.idx r k)
              else if op = "er1" then some (.er1 r k)
              else if op = "era" then some (.era r k)
              else if op = "eri" then some (.eri r k)
              else if op = "find" then some (.find r k)
              else if op = "lb" then some (.lb r k)
              else if op = "ub" then some (.ub r k)
              else if op = "eqr" then some (.eqr r k)
              else if op = "exists" then some (.exists_ r k)
              else if op = "count" then some (.count r k)
              else if op = "iter" then some (.iter r k)
              else if op = "rconv" then some (.rconv r k)
              else if op = "fconv" then some (.fconv r k)
              else none
        | [] =>
          if op = "size" then some (.size r)
          else if op = "clear" then some (.clear r)
          else none
        | _ => none
  | _ => none

/-- the by-reference operations of the harness: `insref r rank` = `insert(x)` with `x` a reference to the
element stored at rank `rank` of the same container, likewise `inshref` (insert with hint), `er1ref` / `eraref`
(`erase_one(key)` / `erase(key)` with a reference to the stored key), `findref` / `lbref` / `ubref` / `countref`.
The model's operations take their arguments by value, so these lines are the plain operations with the
entry read from the register: the line is rewritten before `parseOp`; `none` = rank out of range (`bad-op`). -/
def resolveRef (isMap : Bool) (m : MSt) (ts : List String) : Option (List String) :=
  match ts with
  | [op, r, rank] =>
    let plain : Option String :=
      if op = "insref" then some "ins" else if op = "inshref" then some "insh"
      else if op = "er1ref" then some "er1" else if op = "eraref" then some "era"
      else if op = "findref" then some "find" else if op = "lbref" then some "lb"
      else if op = "ubref" then some "ub" else if op = "countref" then some "count" else none
    match plain with
    | none => some ts
    | some o =>
      match reg r, num rank with
      | some rr, some k =>
        match (m.get rr).toList[k]? with
        | none => none
        | some e =>
          if o = "ins" ∨ o = "insh" then some [o, r, toString e.1, toString (if isMap then e.2 else 0)]
          else some [o, r, toString e.1]
      | _, _ => none
  | _ => some ts

/-- does the harness print the ledger and both tree dumps after this operation -/
def Op.mutating : Op → Bool
  | .ins .. | .idx .. | .insr .. | .rctor .. | .er1 .. | .era .. | .eri .. | .clear .. | .bulk .. | .copy ..
  | .assign .. | .swap .. | .tswap .. => true
  | _ => false

/-- the `<ret>` part of the answer -/
def showOut (isMap : Bool) (op : Op) (before after : T) : MOut → String
  | .ins b pos => s!"ins {bit b} {showPos after (some pos)}"
  | .idx v => s!"idx {v}"
  | .unit =>
    match op with
    | .insr .. => "insr" | .rctor .. => "rctor" | .clear .. => "clear" | .bulk .. => "bulk" | .copy .. => "copy"
    | .assign .. => "assign" | .swap .. => "swap" | .tswap .. => "tswap" | _ => "ok"
  | .er1 b => s!"er1 {bit b}"
  | .era n => s!"era {n}"
  | .eri pos e => s!"eri {showPos before (some pos)} {showEnt isMap e}"
  | .pos p =>
    (match op with | .find .. => "find " | .lb .. => "lb " | _ => "ub ") ++ showPos before p
  | .pos2 a b => s!"eqr {showPos before a} {showPos before b}"
  | .bool b => s!"exists {bit b}"
  | .num n => s!"count {n}"
  | .size n e => s!"size {n} {bit e}"
  | .entries l => String.join ("iter" :: l.map (fun e => " " ++ showOptEnt isMap e))
  | .convEnd => (match op with | .rconv .. => "rconv rend" | _ => "fconv end")
  | .conv e n => (match op with | .rconv .. => "rconv " | _ => "fconv ") ++ s!"{showOptEnt isMap e} {n}"
  | .cmp eq lt gt => "cmp " ++ bit eq ++ bit (!eq) ++ bit lt ++ bit gt ++ bit (!gt) ++ bit (!lt)

/-- the slot pairs instantiated by the harness -/
def slotPairs : List (Nat × Nat) :=
  [(4, 4), (4, 5), (5, 4), (5, 5), (6, 6), (7, 7), (8, 8), (16, 16), (4, 7), (7, 4), (5, 16), (16, 5), (16, 4), (64, 21)]

/-- `cfg <kind> <leaf> <inner> <binsearch> <order of register 0> [<order of register 1>]` -/
def parseCfg (ts : List String) : Option (Cfg × Nat × Nat) :=
  match ts with
  | kind :: l :: i :: bin :: mode :: rest =>
    let kd : Option Nat := match kind with
      | "set" => some 0 | "mset" => some 1 | "map" => some 2 | "mmap" => some 3 | _ => none
    let mode1 : Option Nat := match rest with
      | [] => mode.toNat?
      | [m1] => m1.toNat?
      | _ => none
    match kd, l.toNat?, i.toNat?, bin.toNat?, mode.toNat?, mode1 with
    | some kd, some l, some i, some bin, some mode, some mode1 =>
      if mode > 2 ∨ mode1 > 2 ∨ !(slotPairs.contains (l, i)) then none
      else some ({ kind := kd, p := { leafMax := l, innerMax := i, bin := bin ≠ 0, dup := kd % 2 = 1, lt := orderLt mode } },
                 mode, mode1)
    | _, _, _, _, _, _ => none
  | _ => none

def step (s : St) (ts : List String) : St × String :=
  match ts with
  | "cfg" :: rest =>
    match s.cfg with
    | some _ => (s, "bad-op")
    | none =>
      match parseCfg rest with
      | some (c, m0, m1) => ({ cfg := some c, m := { m0 := m0, m1 := m1 }, a0 := 1, a1 := 2 }, "cfg")
      | none => (s, "bad-op")
  | _ =>
    match s.cfg with
    | none => (s, "bad-op")
    | some c =>
      match (resolveRef c.isMap s.m ts).bind (parseOp c.isMap) with
      | none => (s, "bad-op")
      | some op =>
        match stepA c { m := s.m, a0 := s.a0, a1 := s.a1 } op with
        | .bad => (s, "bad-op")
        | .ub => (s, "MODEL-UB")
        | .ok (s', mo, lg, parts) =>
          let ret := showOut c.isMap op (s.m.get op.reg) (s'.m.get op.reg) mo
          let st : St := { s with m := s'.m, a0 := s'.a0, a1 := s'.a1 }
          if op.mutating then
            (st, s!"{ret} ; {showLedger lg} ; T0 {showTree c.isMap s'.m.t0} ; T1 {showTree c.isMap s'.m.t1}" ++
                 s!" ; A={s'.a0},{s'.a1}{showParts parts}")
          else (st, ret)

end TlxVerif.C01
