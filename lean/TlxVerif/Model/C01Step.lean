/-
C01/C02 — line-protocol step function of the B+ tree model (keys and values are `Nat`).
Operation list and answer format: see harness/c01.hpp.  Used by Driver/C01.lean and Driver/C02.lean.
-/
import TlxVerif.Model.Drv
import TlxVerif.Model.C01Tree
import TlxVerif.Model.C01Erase
namespace TlxVerif.C01

abbrev T := Tree Nat Nat
abbrev Ent := Nat × Nat

/-- run-time selectable key order of the harness (`lessv`) -/
def orderLt (mode : Nat) (a b : Nat) : Bool :=
  match mode with
  | 0 => a < b
  | 1 => a > b
  | _ => a / 2 < b / 2

structure Cfg where
  kind : Nat               -- 0 set, 1 multiset, 2 map, 3 multimap
  p : Params Nat           -- `lt` is filled in per register (the comparator object travels with the container)

def Cfg.isMap (c : Cfg) : Bool := c.kind ≥ 2

structure St where
  cfg : Option Cfg := none
  t0 : T := {}
  t1 : T := {}
  m0 : Nat := 0            -- key order (`key_less_`) currently held by register 0
  m1 : Nat := 0

def St.get (s : St) (r : Nat) : T := if r = 0 then s.t0 else s.t1
def St.set (s : St) (r : Nat) (t : T) : St := if r = 0 then { s with t0 := t } else { s with t1 := t }
def St.mode (s : St) (r : Nat) : Nat := if r = 0 then s.m0 else s.m1
def St.setMode (s : St) (r : Nat) (m : Nat) : St := if r = 0 then { s with m0 := m } else { s with m1 := m }
/-- template parameters + the comparator of register `r` -/
def St.params (s : St) (c : Cfg) (r : Nat) : Params Nat := { c.p with lt := orderLt (s.mode r) }

/-! ### printing -/

def showEnt (isMap : Bool) (e : Ent) : String :=
  if isMap then s!"{e.1}:{e.2}" else s!"{e.1}"

partial def showNode (isMap : Bool) : BNode Nat Nat → String
  | .leaf es => "(" ++ " ".intercalate (es.map (showEnt isMap)) ++ ")"
  | .inner l keys kids =>
    s!"[{l}|" ++ " ".intercalate (keys.map toString) ++ "|" ++ String.join (kids.map (showNode isMap)) ++ "]"

def showTree (isMap : Bool) (t : T) : String :=
  s!"s={t.stats.size},{t.stats.leaves},{t.stats.inner} " ++
    match t.root with
    | none => "-"
    | some r => showNode isMap r

def showPos (t : T) : Pos → String
  | none => "@-"
  | some (li, s) => s!"@{li}.{s}={rankOf t.leafChain (some (li, s))}"

def showLedger (l : Ledger) : String := s!"a={l.leafAlloc},{l.leafFree},{l.innerAlloc},{l.innerFree}"

def mutAnswer (c : Cfg) (s : St) (ret : String) (l : Ledger) : St × String :=
  (s, s!"{ret} ; {showLedger l} ; T0 {showTree c.isMap s.t0} ; T1 {showTree c.isMap s.t1}")

/-! ### parsing (mirrors `num` / `parse_ent` / `reg` of the harness) -/

def num (s : String) : Option Nat :=
  if s.length = 0 ∨ s.length > 9 then none
  else if s.all Char.isDigit then s.toNat? else none

def reg (s : String) : Option Nat :=
  match num s with
  | some r => if r ≤ 1 then some r else none
  | none => none

def parseEnt (isMap : Bool) (s : String) : Option Ent :=
  match s.splitOn ":" with
  | [k] => if isMap then none else (num k).map (fun k => (k, 0))
  | [k, v] =>
    match num k, num v with
    | some k, some v => some (k, if isMap then v else 0)
    | _, _ => none
  | _ => none

/-! ### helper loops of the harness -/

def iterate {α : Type} (f : α → α) : Nat → α → α
  | 0, a => a
  | n + 1, a => iterate f n (f a)

/-- `walk_fwd`: `while (b != e) { if (out.size() > cap) break; out.push_back(*b); ++b; }` -/
def walkFwd (inc : Nat × Nat → Nat × Nat) (der : Nat × Nat → Option Ent) (e : Nat × Nat) (cap : Nat) :
    Nat → Nat × Nat → List (Option Ent) → List (Option Ent)
  | 0, _, out => out.reverse
  | fuel + 1, b, out =>
    if b = e then out.reverse
    else if out.length > cap then out.reverse
    else walkFwd inc der e cap fuel (inc b) (der b :: out)

/-- `walk_bwd`: `while (e != b) { if (out.size() > cap) break; --e; out.push_back(*e); }` -/
def walkBwd (dec : Nat × Nat → Nat × Nat) (der : Nat × Nat → Option Ent) (b : Nat × Nat) (cap : Nat) :
    Nat → Nat × Nat → List (Option Ent) → List (Option Ent)
  | 0, _, out => out.reverse
  | fuel + 1, e, out =>
    if e = b then out.reverse
    else if out.length > cap then out.reverse
    else
      let e' := dec e
      walkBwd dec der b cap fuel e' (der e' :: out)

def showOptEnt (isMap : Bool) : Option Ent → String
  | some e => showEnt isMap e
  | none => "!"

/-- steps of `inc` until `tgt` is reached, at most `lim + 1` -/
def stepsTo (inc : Nat × Nat → Nat × Nat) (tgt : Nat × Nat) (lim : Nat) : Nat → Nat × Nat → Nat → Nat
  | 0, _, n => n
  | fuel + 1, x, n => if x ≠ tgt ∧ n ≤ lim then stepsTo inc tgt lim fuel (inc x) (n + 1) else n

def lexLt : List Ent → List Ent → Bool
  | _, [] => false
  | [], _ :: _ => true
  | a :: as, b :: bs =>
    if a.1 < b.1 ∨ (a.1 = b.1 ∧ a.2 < b.2) then true
    else if b.1 < a.1 ∨ (b.1 = a.1 ∧ b.2 < a.2) then false
    else lexLt as bs

def bit (b : Bool) : String := if b then "1" else "0"

/-- fold of `insert` over a range (`insert(first,last)`, range constructor) -/
def insertMany (p : Params Nat) : List Ent → T → Ledger → Option (T × Ledger)
  | [], t, l => some (t, l)
  | e :: es, t, l =>
    match insert p t e.1 e.2 with
    | none => none
    | some r => insertMany p es r.tree (l.add r.ledger)

def sortedFor (p : Params Nat) : List Ent → Bool
  | a :: b :: rest =>
    (if p.dup then !p.lt b.1 a.1 else p.lt a.1 b.1) && sortedFor p (b :: rest)
  | _ => true

/-! ### the step function -/

/-- operations with a fixed number of arguments -/
def stepFixed (c : Cfg) (s : St) (ts : List String) : Option (St × String) :=
  let isMap := c.isMap
  let fail : Option (St × String) := some (s, "MODEL-UB")
  match ts with
  | [op, r, a, b] =>
    match reg r, num a, num b with
    | some r, some k, some v =>
      let p := s.params c r
      if op = "ins" ∨ op = "insh" ∨ op = "ins2" then
        if op = "ins2" ∧ !isMap then none else
        let v := if isMap then v else 0
        match insert p (s.get r) k v with
        | none => fail
        | some res =>
          let s' := s.set r res.tree
          some (mutAnswer c s' s!"ins {bit res.inserted} {showPos res.tree (some res.pos)}" res.ledger)
      else none
    | _, _, _ => none
  | [op, r, a] =>
    match reg r with
    | none => none
    | some r =>
      let p := s.params c r
      let t := s.get r
      let ch := t.leafChain
      if op = "copy" ∨ op = "assign" ∨ op = "swap" ∨ op = "tswap" ∨ op = "cmp" then
        match reg a with
        | none => none
        | some q =>
          let o := s.get q
          if op = "copy" then
            if q = r then none else
            let (_, l1) := clear t                    -- destructor of the old object
            let (t', l2) := copyCtor o
            some (mutAnswer c ((s.set r t').setMode r (s.mode q)) "copy" (l1.add l2))
          else if op = "assign" then
            if q = r then some (mutAnswer c s "assign" {}) else
            let (t', l) := assign t o
            some (mutAnswer c ((s.set r t').setMode r (s.mode q)) "assign" l)
          else if op = "swap" then
            -- std::swap(tree_, from.tree_): tmp(a); a = b; b = tmp; ~tmp
            let (tmp, l1) := copyCtor t
            if q = r then
              let (a', l2) := assign t tmp            -- `a = a` is skipped by the self-assignment guard
              let (_, l3) := clear tmp
              some (mutAnswer c (s.set r a') "swap" ((l1.add l2).add l3))
            else
              let (a', l2) := assign t o
              let (b', l3) := assign o tmp
              let (_, l4) := clear tmp
              some (mutAnswer c ((((s.set r a').set q b').setMode r (s.mode q)).setMode q (s.mode r)) "swap"
                (((l1.add l2).add l3).add l4))
          else if op = "tswap" then
            some (mutAnswer c ((((s.set r o).set q t).setMode r (s.mode q)).setMode q (s.mode r)) "tswap" {})
          else
            let x := t.toList
            let y := o.toList
            let eq := t.stats.size == o.stats.size && x == y
            let lt := lexLt x y
            let gt := lexLt y x
            some (s, "cmp " ++ bit eq ++ bit (!eq) ++ bit lt ++ bit gt ++ bit (!gt) ++ bit (!lt))
      else
      match num a with
      | none => none
      | some k =>
        if op = "idx" then
          if c.kind ≠ 2 then none else
          match insert p t k 0 with
          | none => fail
          | some res =>
            match deref res.tree.leafChain res.pos with
            | none => fail
            | some e => some (mutAnswer c (s.set r res.tree) s!"idx {e.2}" res.ledger)
        else if op = "er1" then
          match eraseOne p t k with
          | none => fail
          | some res => some (mutAnswer c (s.set r res.tree) s!"er1 {bit res.erased}" res.ledger)
        else if op = "era" then
          match eraseAll p k (t.stats.size + 2) t 0 {} with
          | none => fail
          | some (t', n, l) => some (mutAnswer c (s.set r t') s!"era {n}" l)
        else if op = "eri" then
          if k ≥ t.stats.size then none else
          match beginPos ch with
          | none => fail
          | some b =>
            let it := iterate (itInc ch) k b
            match deref ch it, eraseIter p t it.1 it.2 with
            | some e, some res =>
              some (mutAnswer c (s.set r res.tree) s!"eri {showPos t (some it)} {showEnt isMap e}" res.ledger)
            | _, _ => fail
        else if op = "find" then
          match find p t k with
          | none => fail
          | some pos => some (s, s!"find {showPos t pos}")
        else if op = "lb" then
          match lowerBound p t k with
          | none => fail
          | some pos => some (s, s!"lb {showPos t pos}")
        else if op = "ub" then
          match upperBound p t k with
          | none => fail
          | some pos => some (s, s!"ub {showPos t pos}")
        else if op = "eqr" then
          match lowerBound p t k, upperBound p t k with
          | some a, some b => some (s, s!"eqr {showPos t a} {showPos t b}")
          | _, _ => fail
        else if op = "exists" then
          match existsKey p t k with
          | none => fail
          | some b => some (s, s!"exists {bit b}")
        else if op = "count" then
          match count p t k with
          | none => fail
          | some n => some (s, s!"count {n}")
        else if op = "iter" then
          if k > 15 then none else
          let cap := t.stats.size + 2
          let fuel := cap + 3
          let out : List (Option Ent) :=
            match beginPos ch, endPos ch with
            | some b, some e =>
              let rb := toReverse ch e               -- rbegin() = reverse_iterator(end())
              let re := toReverse ch b               -- rend()   = reverse_iterator(begin())
              match k % 8 with
              | 0 | 2 => walkFwd (itInc ch) (deref ch) e cap fuel b []
              | 1 | 3 => walkBwd (itDec ch) (deref ch) b cap fuel e []
              | 4 | 6 => walkFwd (ritInc ch) (rderef ch) re cap fuel rb []
              | _ => walkBwd (ritDec ch) (rderef ch) rb cap fuel re []
            | _, _ => []
          some (s, String.join ("iter" :: out.map (fun e => " " ++ showOptEnt isMap e)))
        else if op = "rconv" ∨ op = "fconv" then
          if k > t.stats.size then none else
          match beginPos ch, endPos ch with
          | some b, some e =>
            let rb := toReverse ch e
            let re := toReverse ch b
            if op = "rconv" then
              if k = 0 then some (s, "rconv rend") else
              let it := iterate (itInc ch) k b
              let rit := toReverse ch it
              let steps := stepsTo (ritInc ch) re (t.stats.size + 1) (t.stats.size + 3) rit 0
              some (s, s!"rconv {showOptEnt isMap (rderef ch rit)} {steps}")
            else
              if k = 0 then some (s, "fconv end") else
              let rit := iterate (ritInc ch) k rb
              let it := toForward ch rit
              let steps := stepsTo (itInc ch) e (t.stats.size + 1) (t.stats.size + 3) it 0
              some (s, s!"fconv {showOptEnt isMap (deref ch it)} {steps}")
          | _, _ => if k = 0 then some (s, if op = "rconv" then "rconv rend" else "fconv end") else fail
        else none
  | [op, r] =>
    match reg r with
    | none => none
    | some r =>
      let t := s.get r
      if op = "size" then some (s, s!"size {t.stats.size} {bit (t.stats.size == 0)}")
      else if op = "clear" then
        let (t', l) := clear t
        some (mutAnswer c (s.set r t') "clear" l)
      else none
  | _ => none

def stepOp (c : Cfg) (s : St) (ts : List String) : Option (St × String) :=
  let isMap := c.isMap
  let fail : Option (St × String) := some (s, "MODEL-UB")
  match ts with
  | op :: r :: rest =>
    if op = "bulk" ∨ op = "insr" ∨ op = "rctor" then
      match reg r, rest.mapM (parseEnt isMap) with
      | some r, some es =>
        let p := s.params c r
        let t := s.get r
        if op = "bulk" then
          if t.stats.size ≠ 0 ∨ !sortedFor p es then none else
          match bulkLoad p es with
          | none => fail
          | some (t', l) => some (mutAnswer c (s.set r t') "bulk" l)
        else if op = "insr" then
          match insertMany p es t {} with
          | none => fail
          | some (t', l) => some (mutAnswer c (s.set r t') "insr" l)
        else
          let (_, l0) := clear t
          match insertMany p es {} l0 with
          | none => fail
          | some (t', l) => some (mutAnswer c (s.set r t') "rctor" l)
      | _, _ => none
    else stepFixed c s (op :: r :: rest)
  | _ => none

/-- the slot pairs instantiated by the harness -/
def slotPairs : List (Nat × Nat) :=
  [(4, 4), (5, 5), (6, 6), (7, 7), (8, 8), (16, 16), (4, 7), (7, 4), (5, 16), (16, 5)]

/-- `cfg <kind> <leaf> <inner> <binsearch> <order of register 0> [<order of register 1>]` -/
def parseCfg (ts : List String) : Option (Cfg × Nat × Nat) :=
  match ts with
  | kind :: l :: i :: bin :: mode :: rest =>
    let kd : Option Nat := match kind with
      | "set" => some 0 | "mset" => some 1 | "map" => some 2 | "mmap" => some 3 | _ => none
    let mode1 : Option Nat := match rest with
      | [] => mode.toNat?
      | [m1] => m1.toNat?
      | _ => none
    match kd, l.toNat?, i.toNat?, bin.toNat?, mode.toNat?, mode1 with
    | some kd, some l, some i, some bin, some mode, some mode1 =>
      if mode > 2 ∨ mode1 > 2 ∨ !(slotPairs.contains (l, i)) then none
      else some ({ kind := kd, p := { leafMax := l, innerMax := i, bin := bin ≠ 0, dup := kd % 2 = 1, lt := orderLt mode } },
                 mode, mode1)
    | _, _, _, _, _, _ => none
  | _ => none

def step (s : St) (ts : List String) : St × String :=
  match ts with
  | "cfg" :: rest =>
    match s.cfg with
    | some _ => (s, "bad-op")
    | none =>
      match parseCfg rest with
      | some (c, m0, m1) => ({ cfg := some c, m0 := m0, m1 := m1 }, "cfg")
      | none => (s, "bad-op")
  | _ =>
    match s.cfg with
    | none => (s, "bad-op")
    | some c =>
      match stepOp c s ts with
      | some r => r
      | none => (s, "bad-op")

end TlxVerif.C01
