/-
Model of `tlx::RingBuffer<T>` (tlx/container/ring_buffer.hpp).

State = the class' data members plus, for every slot of `data_`, whether an
element object is alive there (`some v`) or the storage is raw (`none`).
Every member function is transliterated: `alloc_traits::construct` becomes
`construct` (fails on a slot that already holds a live object or is out of the
allocation), `alloc_traits::destroy` becomes `destroy` (fails on raw storage).
Cursor arithmetic is the C++ one: 64-bit wrap-around followed by `& mask_`.
-/
namespace TlxVerif.C16

abbrev Elem := Int

structure RB where
  maxSize : Nat := 0
  cap : Nat := 0              -- capacity_
  mask : Nat := 0             -- mask_
  hasData : Bool := false     -- data_ != nullptr
  slots : List (Option Elem) := []   -- storage of data_[0..cap)
  b : Nat := 0                -- begin_
  e : Nat := 0                -- end_
  deriving Repr, DecidableEq, Inhabited

def W : Nat := 2 ^ 64

/-- `round_up_to_power_of_two(n)` for `n ≥ 1` (its bit-smearing loop is verified in C20) -/
def roundUpPow2 (n : Nat) : Nat := if n ≤ 1 then 1 else 2 ^ (Nat.log2 (n - 1) + 1)

/-- `++x &= mask` on `size_t` -/
def incr (x mask : Nat) : Nat := ((x + 1) % W) &&& mask
/-- `--x &= mask` on `size_t` -/
def decr (x mask : Nat) : Nat := ((x + W - 1) % W) &&& mask

/-- `size()`: `(end_ - begin_) & mask_` on `size_t` -/
def RB.size (r : RB) : Nat := ((r.e + W - r.b) % W) &&& r.mask
def RB.empty (r : RB) : Bool := r.size == 0

def construct (s : List (Option Elem)) (i : Nat) (v : Elem) : Option (List (Option Elem)) :=
  match s[i]? with
  | some none => some (s.set i (some v))
  | _ => none          -- live object already there, or outside the allocation

def destroy (s : List (Option Elem)) (i : Nat) : Option (List (Option Elem)) :=
  match s[i]? with
  | some (some _) => some (s.set i none)
  | _ => none          -- destroying raw storage, or outside the allocation

/-- `RingBuffer(size_t max_size)` / `allocate(max_size)` on a buffer without data.
`begin_`/`end_` keep their values in `allocate` (they are 0 after construction,
`deallocate` and a move). -/
def RB.allocate (r : RB) (max : Nat) : RB :=
  let c := roundUpPow2 (max + 1)
  { r with maxSize := max, cap := c, mask := c - 1, hasData := true,
           slots := List.replicate c none }

def RB.new (max : Nat) : RB := RB.allocate {} max

def RB.pushBack (r : RB) (v : Elem) : Option RB := do
  let s ← construct r.slots r.e v
  pure { r with slots := s, e := incr r.e r.mask }

def RB.pushFront (r : RB) (v : Elem) : Option RB := do
  let b' := decr r.b r.mask
  let s ← construct r.slots b' v
  pure { r with slots := s, b := b' }

def RB.popFront (r : RB) : Option RB := do
  let s ← destroy r.slots r.b
  pure { r with slots := s, b := incr r.b r.mask }

def RB.popBack (r : RB) : Option RB := do
  let e' := decr r.e r.mask
  let s ← destroy r.slots e'
  pure { r with slots := s, e := e' }

/-- `clear()`: `while (begin_ != end_) pop_front();` (fuel = number of slots + 1) -/
def RB.clearLoop : Nat → RB → Option RB
  | 0, r => if r.b = r.e then some r else none
  | n + 1, r => if r.b = r.e then some r else do
      let r' ← r.popFront
      RB.clearLoop n r'

def RB.clear (r : RB) : Option RB := RB.clearLoop (r.cap + 1) r

def RB.at? (r : RB) (i : Nat) : Option Elem := (r.slots[(r.b + i) &&& r.mask]?).join
def RB.front? (r : RB) : Option Elem := (r.slots[r.b]?).join
def RB.back? (r : RB) : Option Elem := (r.slots[((r.e + W - 1) % W) &&& r.mask]?).join

/-- elements `operator[](0..size)`, `none` if one of them is not a live object -/
def RB.toList? (r : RB) : Option (List Elem) := (List.range r.size).mapM r.at?

/-- the copy loops `for i < rb.size(): push_back(rb[i])` -/
def RB.pushAll (r : RB) : List Elem → Option RB
  | [] => some r
  | v :: vs => do let r' ← r.pushBack v; r'.pushAll vs

/-- copy constructor -/
def RB.copyCtor (src : RB) : Option RB := do
  let xs ← src.toList?
  let fresh : RB := { maxSize := src.maxSize, cap := src.cap, mask := src.mask, hasData := true,
                      slots := List.replicate src.cap none, b := 0, e := 0 }
  fresh.pushAll xs

/-- copy assignment `dst = src` (distinct objects, equal allocators) -/
def RB.copyAssign (dst src : RB) : Option RB := do
  let d ← dst.clear
  let d := if d.cap ≠ src.cap then
      { d with cap := src.cap, hasData := true, slots := List.replicate src.cap none } else d
  let d := { d with maxSize := src.maxSize, mask := src.mask, b := 0, e := 0 }
  let xs ← src.toList?
  d.pushAll xs

/-- what a move leaves behind in the source -/
def RB.movedFrom (src : RB) : RB :=
  { src with hasData := false, slots := [], b := 0, e := 0, cap := 0 }

/-- move constructor: (new object, source afterwards) -/
def RB.moveCtor (src : RB) : RB × RB := (src, src.movedFrom)

/-- move assignment `dst = std::move(src)` (distinct objects) -/
def RB.moveAssign (dst src : RB) : Option (RB × RB) := do
  let _ ← dst.clear        -- old elements destroyed, old storage released
  pure (src, src.movedFrom)

/-- `deallocate()` -/
def RB.deallocate (r : RB) : Option RB :=
  if r.hasData then do
    let r' ← r.clear
    pure { r' with hasData := false, slots := [], cap := 0, b := 0, e := 0 }
  else some r

/-- destructor: `clear(); deallocate` — returns the number of live objects left
behind in the released storage (must be 0) -/
def RB.dtor (r : RB) : Option Nat := do
  let r' ← r.clear
  pure (r'.slots.filter Option.isSome).length

end TlxVerif.C16
