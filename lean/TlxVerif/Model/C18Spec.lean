/-
C18 — specification side: the definitions of [string.view] (C++17/20 standard,
`std::basic_string_view<char>`) over `List UInt8`, written as directly as
possible ("the lowest position xpos such that …").  `char_traits<char>`
compares bytes as `unsigned char`; `npos = size_t(-1)`.

The executable spec is validated against libstdc++'s `std::string_view` by the
`s …` lines of the correspondence (harness/c18.cpp answers them with
`std::string_view`, Driver/C18.lean with these definitions).
-/
namespace TlxVerif.C18

abbrev Bytes := List UInt8

/-- `size_t(-1)` on the 64-bit target -/
def npos : Nat := 18446744073709551615

/-- `traits::length`: a `const char*` argument denotes the bytes before the first NUL -/
def cstr (z : Bytes) : Bytes := z.takeWhile (· != 0)

namespace Spec

/-- the lowest `x` in `[start, start+fuel)` with `p x` -/
def leastFrom (p : Nat → Bool) : Nat → Nat → Option Nat
  | _, 0 => none
  | start, fuel + 1 => if p start then some start else leastFrom p (start + 1) fuel

/-- the lowest `x < n` with `p x` -/
def least (p : Nat → Bool) (n : Nat) : Option Nat := leastFrom p 0 n

/-- the highest `x < n` with `p x` -/
def greatest (p : Nat → Bool) : Nat → Option Nat
  | 0 => none
  | n + 1 => if p n then some n else greatest p n

/-- the range `[x, x+len)` of `h` (clipped at the end) -/
def sub (h : Bytes) (x len : Nat) : Bytes := (h.drop x).take len

/-- `xpos + str.size() <= size()` and `at(xpos+I) == str.at(I)` for all `I` -/
def matchAt (h v : Bytes) (x : Nat) : Bool :=
  decide (x + v.length ≤ h.length) && sub h x v.length == v

/-- `at(xpos)` occurs in `v` -/
def isIn (h v : Bytes) (x : Nat) : Bool :=
  match h[x]? with
  | some c => v.contains c
  | none => false

/-- `xpos < size()` and `at(xpos)` does not occur in `v` -/
def notIn (h v : Bytes) (x : Nat) : Bool :=
  match h[x]? with
  | some c => !v.contains c
  | none => false

def find (h v : Bytes) (pos : Nat) : Nat :=
  (least (fun x => decide (pos ≤ x) && matchAt h v x) (h.length + 1)).getD npos

def rfind (h v : Bytes) (pos : Nat) : Nat :=
  (greatest (fun x => decide (x ≤ pos) && matchAt h v x) (h.length + 1)).getD npos

def findFirstOf (h v : Bytes) (pos : Nat) : Nat :=
  (least (fun x => decide (pos ≤ x) && isIn h v x) h.length).getD npos

def findLastOf (h v : Bytes) (pos : Nat) : Nat :=
  (greatest (fun x => decide (x ≤ pos) && isIn h v x) h.length).getD npos

def findFirstNotOf (h v : Bytes) (pos : Nat) : Nat :=
  (least (fun x => decide (pos ≤ x) && notIn h v x) h.length).getD npos

def findLastNotOf (h v : Bytes) (pos : Nat) : Nat :=
  (greatest (fun x => decide (x ≤ pos) && notIn h v x) h.length).getD npos

/-- `traits::compare(a, b, min(|a|,|b|))`: sign of the first differing byte, bytes
compared as `unsigned char` (the recursion stops at the shorter argument) -/
def cmpBytes : Bytes → Bytes → Int
  | a :: as, b :: bs => if a < b then -1 else if b < a then 1 else cmpBytes as bs
  | _, _ => 0

/-- `basic_string_view::compare(v)`, result normalised to its sign -/
def compare (a b : Bytes) : Int :=
  let c := cmpBytes a b
  if c ≠ 0 then c
  else if a.length < b.length then -1
  else if a.length = b.length then 0 else 1

/-- `substr(pos, n)`: `none` = `std::out_of_range`; the result is (offset of `data()`, bytes) -/
def substr (h : Bytes) (pos n : Nat) : Option (Nat × Bytes) :=
  if pos > h.length then none
  else some (pos, sub h pos (min n (h.length - pos)))

def compare3 (h : Bytes) (pos1 n1 : Nat) (x : Bytes) : Option Int :=
  (substr h pos1 n1).map fun a => compare a.2 x

def compare5 (h : Bytes) (pos1 n1 : Nat) (x : Bytes) (pos2 n2 : Nat) : Option Int := do
  let a ← substr h pos1 n1
  let b ← substr x pos2 n2
  pure (compare a.2 b.2)

/-- `copy(s, n, pos)`: returned count and the bytes written to `s` -/
def copy (h : Bytes) (n pos : Nat) : Option (Nat × Bytes) :=
  if pos > h.length then none
  else
    let rlen := min n (h.length - pos)
    some (rlen, sub h pos rlen)

def eq (a b : Bytes) : Bool := compare a b == 0
def ne (a b : Bytes) : Bool := compare a b != 0
def lt (a b : Bytes) : Bool := compare a b < 0
def gt (a b : Bytes) : Bool := compare a b > 0
def le (a b : Bytes) : Bool := compare a b ≤ 0
def ge (a b : Bytes) : Bool := compare a b ≥ 0

/-- C++20 `starts_with(x)`: `substr(0, x.size()) == x` -/
def startsWith (h x : Bytes) : Bool :=
  match substr h 0 x.length with
  | some r => eq r.2 x
  | none => false

/-- C++20 `ends_with(x)`: `size() >= x.size() && compare(size() - x.size(), npos, x) == 0` -/
def endsWith (h x : Bytes) : Bool :=
  decide (h.length ≥ x.length) && compare3 h (h.length - x.length) npos x == some 0

/-- `starts_with(charT c)`: `!empty() && traits::eq(front(), c)` -/
def startsWithC (h : Bytes) (c : UInt8) : Bool := !h.isEmpty && h.head? == some c
def endsWithC (h : Bytes) (c : UInt8) : Bool := !h.isEmpty && h.getLast? == some c

/-- `at(pos)`: `none` = `std::out_of_range` -/
def at? (h : Bytes) (pos : Nat) : Option UInt8 := if pos ≥ h.length then none else h[pos]?

/-- `remove_prefix(n)`, precondition `n ≤ size()`; (offset of the new `data()`, bytes) -/
def removePrefix (h : Bytes) (n : Nat) : Nat × Bytes := (n, h.drop n)
/-- `remove_suffix(n)`, precondition `n ≤ size()` -/
def removeSuffix (h : Bytes) (n : Nat) : Nat × Bytes := (0, h.take (h.length - n))

end Spec
end TlxVerif.C18
