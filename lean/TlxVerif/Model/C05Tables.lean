/-
Data types of the 3- and 4-way merge machines of tlx/algorithm/multiway_merge.hpp.

`multiway_merge_3_variant` / `multiway_merge_4_variant` keep the order of the
sequences in the program counter: label `s<a><b><c>[<d>]` means "the heads are
ordered a, b, c[, d]".  The labels and their comparison operators are written as
macro invocations (`TLX_MERGE3CASE(a,b,c,c0,c1)` rows); the translator
`tools/c05_extract.py` turns the macro bodies, the rows, `TLX_DECISION` and the
entry decision tree into values of the types below (`Gen/C05MergeTables.lean`).
-/
namespace TlxVerif.C05

/-- the two comparison operators used between iterators -/
inductive Op | le | lt
  deriving Repr, DecidableEq, Inhabited

/-- One `if (seq##x OP seq##y) goto s##…;` of a macro body.  `lhs`, `rhs` and the entries of
`target` are positions in the macro's parameter list (a=0, b=1, …).  The operator is either a
macro parameter (`opParam i` = `c<i>`) or written literally (`opLit`). -/
inductive OpRef | opParam (i : Nat) | opLit (o : Op)
  deriving Repr, DecidableEq, Inhabited

structure Test where
  lhs : Nat
  op : OpRef
  rhs : Nat
  target : List Nat
  deriving Repr, DecidableEq, Inhabited

/-- the chain of tests of a macro body and the final unconditional `goto` -/
structure Body where
  tests : List Test
  dflt : List Nat
  deriving Repr, DecidableEq, Inhabited

/-- a macro invocation `TLX_MERGEnCASE(perm…, ops…)` -/
structure Row where
  perm : List Nat
  ops : List Op
  deriving Repr, DecidableEq, Inhabited

/-- the entry decision tree: `if (seqL OP seqR) … else …`, `goto s…;`, `TLX_DECISION(args…);` -/
inductive DTree
  | goto (perm : List Nat)
  | ite (l : Nat) (op : Op) (r : Nat) (t e : DTree)
  | decision (args : List Nat)
  deriving Repr, DecidableEq, Inhabited

structure Machine where
  n : Nat
  /-- the macro body starts with `*target = *seq_a; ++target; --size; ++seq_a; if (size == 0) goto finish;` -/
  emitOK : Bool
  /-- `finish:` writes every iterator back to `seqs_begin[i].first` -/
  finishOK : Bool
  body : Body
  rows : List Row
  entry : DTree
  /-- body of `TLX_DECISION` (only used by the 4-way machine) -/
  decision : Body
  deriving Repr, DecidableEq, Inhabited

end TlxVerif.C05
