/-
C04 model, part 2: the splitter tree of the sample sort steps
(tlx/sort/strings/sample_sort_tools.hpp).

`build` transliterates `SSTreeBuilderLevelOrder::recurse` / `SSTreeBuilderPreAndLevelOrder::
recurse` (same recursion; the second one additionally stores the splitters in order):
middle sample as splitter, equal samples skipped on both sides, `splitter_lcp` entry
`clz(prev ^ key)/8 | (key & 0xFF ? 0 : 0x80)` emitted in in-order sequence.
`findBkt` is `find_bkt` (descent `i = 2i + (key <= tree[i] ? 0 : 1)`, then the equality
test against `get_splitter(i)`); `preToLevel` is `PerfectTreeCalculations::pre_to_levelorder`.
All array reads are `Option`: a read outside the array is a failure of the model.
-/
import TlxVerif.Model.C04Key
namespace TlxVerif.C04

/-- `(1 << treebits) - 1` -/
def numSplitters (tb : Nat) : Nat := 2 ^ tb - 1

structure Classifier where
  treebits : Nat
  /-- `splitter_tree_[0 .. num_splitters]` in level order, index 0 unused -/
  tree : Array Key
  /-- splitters in order (`splitter_[]` of the pre-and-level-order builder) -/
  splitters : List Key
  /-- `splitter_lcp[0 .. num_splitters]` -/
  slcp : List Nat
  deriving Repr

/-- `while (lo < midlo && *(midlo - 1) == mykey) midlo--;` -/
def midLo (samples : Array Key) (lo : Nat) (mykey : Key) : Nat → Nat
  | 0 => 0
  | m + 1 => if lo < m + 1 ∧ samples[m]? = some mykey then midLo samples lo mykey m else m + 1

/-- `while (midhi + 1 < hi && *midhi == mykey) midhi++;` (fuel = hi - mid) -/
def midHi (samples : Array Key) (hi : Nat) (mykey : Key) : Nat → Nat → Nat
  | 0, m => m
  | f + 1, m => if m + 1 < hi ∧ samples[m]? = some mykey then midHi samples hi mykey f (m + 1) else m

structure BuildSt where
  tree : Array Key
  splRev : List Key      -- splitters emitted so far, reversed
  lcpRev : List Nat      -- splitter_lcp entries emitted so far, reversed

/-- `*lcp_iter_++ = lcpKeyType(prevkey, mykey) | ((mykey & 0xFF) ? 0 : 0x80)` into `unsigned char splitter_lcp[]` -/
def lcpEntry (prev mykey : Key) : Nat :=
  u8 (lcpKeyType prev mykey + (if lowByte mykey = 0 then 128 else 0))

/-- `recurse(lo, hi, treeidx, rec_prevkey)`; fuel = remaining tree levels -/
def buildRec (samples : Array Key) (ns : Nat) :
    Nat → Nat → Nat → Nat → Key → BuildSt → Option (BuildSt × Key)
  | 0, _, _, _, _, _ => none
  | f + 1, lo, hi, treeidx, recPrev, st => do
    let mid := lo + (hi - lo) / 2
    let mykey ← samples[mid]?
    if treeidx ≥ st.tree.size then none else
    let st := { st with tree := st.tree.setIfInBounds treeidx mykey }
    let midlo := midLo samples lo mykey mid
    let midhi := midHi samples hi mykey (hi - mid) mid
    if 2 * treeidx < ns then
      let (st, prevkey) ← buildRec samples ns f lo midlo (2 * treeidx) recPrev st
      let st := { st with splRev := mykey :: st.splRev, lcpRev := lcpEntry prevkey mykey :: st.lcpRev }
      buildRec samples ns f midhi hi (2 * treeidx + 1) mykey st
    else
      let st := { st with splRev := mykey :: st.splRev, lcpRev := lcpEntry recPrev mykey :: st.lcpRev }
      pure (st, mykey)

/-- `classifier.build(samples, samplesize, splitter_lcp)` -/
def build (tb : Nat) (samples : Array Key) : Option Classifier := do
  let ns := numSplitters tb
  let st0 : BuildSt := { tree := Array.replicate (ns + 1) 0, splRev := [], lcpRev := [] }
  let (st, _) ← buildRec samples ns tb 0 samples.size 1 0 st0
  let lcps := st.lcpRev.reverse
  -- splitter_lcp[0] &= 0x80;  splitter_lcp[num_splitters] = 0;
  let lcps := match lcps with
    | [] => []
    | x :: xs => (if x ≥ 128 then 128 else 0) :: xs
  pure { treebits := tb, tree := st.tree, splitters := st.splRev.reverse, slcp := lcps ++ [0] }

/-- `PerfectTreeCalculations<treebits>::pre_to_levelorder(id)` -/
def preToLevel (tb id : Nat) : Nat :=
  let lo := (BitVec.ofNat 32 id).ctz.toNat + 1
  ((id >>> lo) &&& numSplitters tb) ||| (1 <<< (tb - lo))

/-- `get_splitter(i)` of `SSClassifyTreeCalcUnrollInterleave` (index calculation into the tree) -/
def Classifier.getSplitterCalc (c : Classifier) (i : Nat) : Option Key :=
  c.tree[preToLevel c.treebits (i + 1)]?

/-- `get_splitter(i)` of `SSClassifyTreeUnrollInterleave` (explicit splitter array) -/
def Classifier.getSplitterArr (c : Classifier) (i : Nat) : Option Key := c.splitters[i]?

/-- the descent `while (i <= num_splitters) i = 2*i + (key <= tree[i] ? 0 : 1);` -/
def descend (c : Classifier) (key : Key) : Nat → Nat → Option Nat
  | 0, i => if i ≤ numSplitters c.treebits then none else some i
  | f + 1, i =>
    if i ≤ numSplitters c.treebits then do
      let t ← c.tree[i]?
      descend c key f (2 * i + (if key ≤ t then 0 else 1))
    else some i

/-- `find_bkt(key)`; `calc` selects which `get_splitter` the class uses -/
def Classifier.findBkt (c : Classifier) (useCalc : Bool) (key : Key) : Option Nat := do
  let i ← descend c key c.treebits 1
  let i := i - (numSplitters c.treebits + 1)
  if i < numSplitters c.treebits then
    let s ← if useCalc then c.getSplitterCalc i else c.getSplitterArr i
    pure (if s = key then 2 * i + 1 else 2 * i)
  else pure (2 * i)

end TlxVerif.C04
