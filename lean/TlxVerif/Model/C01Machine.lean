/-
C01/C02 — the operation language of the B+ tree harness as a typed machine.

* `Op`: every operation line of the protocol (harness/c01.hpp) as a value; the driver
  (Model/C01Step.lean) parses a line into an `Op`, calls `stepOp` and renders the result, so the
  refinement theorems (Props/C01 `history_refines_full`, Props/C02 `inv_all_histories_full`) are
  about the function the driver executes.
* `stepOp`: the model machine: two container registers (trees + the comparator each currently
  holds), result `bad` (documented precondition violated: the harness answers `bad-op` without
  executing), `ub` (the model left defined behaviour) or the new state, the model-level answer
  `MOut` (positions as (leaf, slot)) and the allocation ledger of the operation.
* `specStep`: the same language on the abstract container: a key-ordered association list per
  register, new entries placed at the lower bound of their key (before the equivalent ones),
  `erase_one` removing the first equivalent entry.  Answers are `Out`: positions as ranks.
-/
import TlxVerif.Model.C01Tree
import TlxVerif.Model.C01Erase
namespace TlxVerif.C01

abbrev T := Tree Nat Nat
abbrev Ent := Nat × Nat

/-- run-time selectable key order of the harness (`lessv`) -/
def orderLt (mode : Nat) (a b : Nat) : Bool :=
  match mode with
  | 0 => a < b
  | 1 => a > b
  | _ => a / 2 < b / 2

structure Cfg where
  kind : Nat               -- 0 set, 1 multiset, 2 map, 3 multimap
  p : Params Nat           -- `lt` is filled in per register (the comparator object travels with the container)

def Cfg.isMap (c : Cfg) : Bool := c.kind ≥ 2
/-- template parameters + comparator `mode` -/
def Cfg.params (c : Cfg) (mode : Nat) : Params Nat := { c.p with lt := orderLt mode }

/-! ### operations -/

inductive InsKind where
  | plain | hint | two        -- insert(x) / insert(hint, x) / insert2(key, data)
  deriving DecidableEq, Repr

inductive Op where
  | ins (kind : InsKind) (r k v : Nat)
  | idx (r k : Nat)                       -- map::operator[]
  | insr (r : Nat) (es : List Ent)        -- insert(first, last)
  | rctor (r : Nat) (es : List Ent)       -- destroy, construct from a range
  | er1 (r k : Nat)                       -- erase_one(key)
  | era (r k : Nat)                       -- erase(key)
  | eri (r rank : Nat)                    -- erase(iterator `rank` steps behind begin())
  | find (r k : Nat)
  | lb (r k : Nat)
  | ub (r k : Nat)
  | eqr (r k : Nat)
  | exists_ (r k : Nat)
  | count (r k : Nat)
  | size (r : Nat)
  | iter (r mode : Nat)                   -- 16 iteration modes
  | rconv (r rank : Nat)                  -- iterator -> reverse_iterator
  | fconv (r rank : Nat)                  -- reverse_iterator -> iterator
  | clear (r : Nat)
  | bulk (r : Nat) (es : List Ent)
  | copy (r q : Nat)                      -- destroy r, copy-construct from q
  | assign (r q : Nat)
  | swap (r q : Nat)                      -- wrapper swap = std::swap of the trees
  | tswap (r q : Nat)                     -- BTree::swap
  | cmp (r q : Nat)
  deriving Repr

/-- the register an operation is addressed to -/
def Op.reg : Op → Nat
  | .ins _ r _ _ | .idx r _ | .insr r _ | .rctor r _ | .er1 r _ | .era r _ | .eri r _ | .find r _ | .lb r _
  | .ub r _ | .eqr r _ | .exists_ r _ | .count r _ | .size r | .iter r _ | .rconv r _ | .fconv r _ | .clear r
  | .bulk r _ | .copy r _ | .assign r _ | .swap r _ | .tswap r _ | .cmp r _ => r

/-- the second register of the two-register operations (else the addressed one) -/
def Op.reg2 : Op → Nat
  | .copy _ q | .assign _ q | .swap _ q | .tswap _ q | .cmp _ q => q
  | op => op.reg

/-- the harness has two registers, `0` and `1` -/
def Op.wf (op : Op) : Bool := op.reg ≤ 1 && op.reg2 ≤ 1

/-- model-level answers: positions as `(curr_leaf as chain index, curr_slot)` -/
inductive MOut where
  | ins (inserted : Bool) (pos : Nat × Nat)
  | idx (v : Nat)
  | unit
  | er1 (b : Bool)
  | era (n : Nat)
  | eri (pos : Nat × Nat) (e : Ent)
  | pos (p : Pos)
  | pos2 (a b : Pos)
  | bool (b : Bool)
  | num (n : Nat)
  | size (n : Nat) (empty : Bool)
  | entries (l : List (Option Ent))
  | convEnd
  | conv (e : Option Ent) (steps : Nat)
  | cmp (eq lt gt : Bool)
  deriving Repr

/-- abstract answers: positions as ranks (number of `++` steps from `begin()`) -/
inductive Out where
  | ins (inserted : Bool) (rank : Nat)
  | idx (v : Nat)
  | unit
  | er1 (b : Bool)
  | era (n : Nat)
  | eri (rank : Nat) (e : Ent)
  | rank (r : Nat)
  | rank2 (a b : Nat)
  | bool (b : Bool)
  | num (n : Nat)
  | size (n : Nat) (empty : Bool)
  | entries (l : List (Option Ent))
  | convEnd
  | conv (e : Option Ent) (steps : Nat)
  | cmp (eq lt gt : Bool)
  deriving Repr, DecidableEq

/-- three-valued result of a machine step -/
inductive Res (α : Type) where
  | bad : Res α            -- documented precondition does not hold (`bad-op`, nothing executed)
  | ub : Res α             -- the model left defined behaviour (`MODEL-UB`)
  | ok : α → Res α

/-! ### machine state -/

structure MSt where
  t0 : T := {}
  t1 : T := {}
  m0 : Nat := 0            -- key order (`key_less_`) currently held by register 0
  m1 : Nat := 0

namespace MSt
def get (s : MSt) (r : Nat) : T := if r = 0 then s.t0 else s.t1
def set (s : MSt) (r : Nat) (t : T) : MSt := if r = 0 then { s with t0 := t } else { s with t1 := t }
def mode (s : MSt) (r : Nat) : Nat := if r = 0 then s.m0 else s.m1
def setMode (s : MSt) (r : Nat) (m : Nat) : MSt := if r = 0 then { s with m0 := m } else { s with m1 := m }
end MSt

/-! ### helper loops of the harness -/

/-- `walk_fwd`: `while (b != e) { if (out.size() > cap) break; out.push_back(*b); ++b; }` -/
def walkFwd (inc : Nat × Nat → Nat × Nat) (der : Nat × Nat → Option Ent) (e : Nat × Nat) (cap : Nat) :
    Nat → Nat × Nat → List (Option Ent) → List (Option Ent)
  | 0, _, out => out.reverse
  | fuel + 1, b, out =>
    if b = e then out.reverse
    else if out.length > cap then out.reverse
    else walkFwd inc der e cap fuel (inc b) (der b :: out)

/-- `walk_bwd`: `while (e != b) { if (out.size() > cap) break; --e; out.push_back(*e); }` -/
def walkBwd (dec : Nat × Nat → Nat × Nat) (der : Nat × Nat → Option Ent) (b : Nat × Nat) (cap : Nat) :
    Nat → Nat × Nat → List (Option Ent) → List (Option Ent)
  | 0, _, out => out.reverse
  | fuel + 1, e, out =>
    if e = b then out.reverse
    else if out.length > cap then out.reverse
    else walkBwd dec der b cap fuel (dec e) (der (dec e) :: out)

/-- steps of `inc` until `tgt` is reached, at most `lim + 1` -/
def stepsTo (inc : Nat × Nat → Nat × Nat) (tgt : Nat × Nat) (lim : Nat) : Nat → Nat × Nat → Nat → Nat
  | 0, _, n => n
  | fuel + 1, x, n => if x ≠ tgt ∧ n ≤ lim then stepsTo inc tgt lim fuel (inc x) (n + 1) else n

/-- `operator<` of the containers: `std::lexicographical_compare` over the entries with the entries' own `<` -/
def lexLt : List Ent → List Ent → Bool
  | _, [] => false
  | [], _ :: _ => true
  | a :: as, b :: bs =>
    if a.1 < b.1 ∨ (a.1 = b.1 ∧ a.2 < b.2) then true
    else if b.1 < a.1 ∨ (b.1 = a.1 ∧ b.2 < a.2) then false
    else lexLt as bs

/-- fold of `insert` over a range (`insert(first,last)`, range constructor) -/
def insertMany (p : Params Nat) : List Ent → T → Ledger → Option (T × Ledger)
  | [], t, l => some (t, l)
  | e :: es, t, l =>
    match insert p t e.1 e.2 with
    | none => none
    | some r => insertMany p es r.tree (l.add r.ledger)

/-- the documented precondition of `bulk_load`: an ordered range (strictly for unique keys) -/
def sortedFor (p : Params Nat) : List Ent → Bool
  | a :: b :: rest =>
    (if p.dup then !p.lt b.1 a.1 else p.lt a.1 b.1) && sortedFor p (b :: rest)
  | _ => true

/-- the sequence visited by iteration mode `m % 8` (4 iterator classes × forward/backward) -/
def iterOut (t : T) (m : Nat) : List (Option Ent) :=
  let ch := t.leafChain
  let cap := t.stats.size + 2
  let fuel := cap + 3
  match beginPos ch, endPos ch with
  | some b, some e =>
    let rb := toReverse ch e               -- rbegin() = reverse_iterator(end())
    let re := toReverse ch b               -- rend()   = reverse_iterator(begin())
    if m % 8 = 0 ∨ m % 8 = 2 then walkFwd (itInc ch) (deref ch) e cap fuel b []
    else if m % 8 = 1 ∨ m % 8 = 3 then walkBwd (itDec ch) (deref ch) b cap fuel e []
    else if m % 8 = 4 ∨ m % 8 = 6 then walkFwd (ritInc ch) (rderef ch) re cap fuel rb []
    else walkBwd (ritDec ch) (rderef ch) rb cap fuel re []
  | _, _ => []

/-- `rconv`: iterator `k ≥ 1` steps behind begin() → reverse_iterator: (`*rit`, steps to rend()) -/
def rconvOut (t : T) (k : Nat) : Option MOut :=
  let ch := t.leafChain
  match beginPos ch, endPos ch with
  | some b, some _ =>
    let re := toReverse ch b
    let rit := toReverse ch (iterN (itInc ch) k b)
    some (.conv (rderef ch rit) (stepsTo (ritInc ch) re (t.stats.size + 1) (t.stats.size + 3) rit 0))
  | _, _ => none

/-- `fconv`: reverse_iterator `k ≥ 1` steps behind rbegin() → iterator: (`*it`, steps to end()) -/
def fconvOut (t : T) (k : Nat) : Option MOut :=
  let ch := t.leafChain
  match beginPos ch, endPos ch with
  | some _, some e =>
    let rb := toReverse ch e
    let it := toForward ch (iterN (ritInc ch) k rb)
    some (.conv (deref ch it) (stepsTo (itInc ch) e (t.stats.size + 1) (t.stats.size + 3) it 0))
  | _, _ => none

/-! ### one step of the model machine -/

abbrev MRes := Res (MSt × MOut × Ledger)

def liftOpt {α : Type} (o : Option α) (f : α → MRes) : MRes :=
  match o with
  | none => .ub
  | some a => f a

def doIns (c : Cfg) (s : MSt) (kind : InsKind) (r k v : Nat) : MRes :=
  if kind = .two ∧ !c.isMap then .bad else
  liftOpt (insert (c.params (s.mode r)) (s.get r) k (if c.isMap then v else 0)) fun res =>
    .ok (s.set r res.tree, .ins res.inserted res.pos, res.ledger)

def doIdx (c : Cfg) (s : MSt) (r k : Nat) : MRes :=
  if c.kind ≠ 2 then .bad else
  liftOpt (insert (c.params (s.mode r)) (s.get r) k 0) fun res =>
    liftOpt (deref res.tree.leafChain res.pos) fun e =>
      .ok (s.set r res.tree, .idx e.2, res.ledger)

def doInsr (c : Cfg) (s : MSt) (r : Nat) (es : List Ent) : MRes :=
  liftOpt (insertMany (c.params (s.mode r)) es (s.get r) {}) fun (t', l) => .ok (s.set r t', .unit, l)

def doRctor (c : Cfg) (s : MSt) (r : Nat) (es : List Ent) : MRes :=
  liftOpt (insertMany (c.params (s.mode r)) es {} (clear (s.get r)).2) fun (t', l) => .ok (s.set r t', .unit, l)

def doEr1 (c : Cfg) (s : MSt) (r k : Nat) : MRes :=
  liftOpt (eraseOne (c.params (s.mode r)) (s.get r) k) fun res => .ok (s.set r res.tree, .er1 res.erased, res.ledger)

def doEra (c : Cfg) (s : MSt) (r k : Nat) : MRes :=
  liftOpt (eraseAll (c.params (s.mode r)) k ((s.get r).stats.size + 2) (s.get r) 0 {}) fun (t', n, l) =>
    .ok (s.set r t', .era n, l)

def doEri (c : Cfg) (s : MSt) (r k : Nat) : MRes :=
  let t := s.get r
  if k ≥ t.stats.size then .bad else
  liftOpt (beginPos t.leafChain) fun b =>
    let it := iterN (itInc t.leafChain) k b
    liftOpt (deref t.leafChain it) fun e =>
      liftOpt (eraseIter (c.params (s.mode r)) t it.1 it.2) fun res =>
        .ok (s.set r res.tree, .eri it e, res.ledger)

def doQuery (s : MSt) (o : Option MOut) : MRes := liftOpt o fun mo => .ok (s, mo, {})

def doIter (s : MSt) (r m : Nat) : MRes :=
  if m > 15 then .bad else .ok (s, .entries (iterOut (s.get r) m), {})

def doConv (s : MSt) (r k : Nat) (f : T → Nat → Option MOut) : MRes :=
  if k > (s.get r).stats.size then .bad
  else if k = 0 then .ok (s, .convEnd, {})
  else doQuery s (f (s.get r) k)

def doBulk (c : Cfg) (s : MSt) (r : Nat) (es : List Ent) : MRes :=
  if (s.get r).stats.size ≠ 0 ∨ !sortedFor (c.params (s.mode r)) es then .bad else
  liftOpt (bulkLoad (c.params (s.mode r)) es) fun (t', l) => .ok (s.set r t', .unit, l)

def doCopy (s : MSt) (r q : Nat) : MRes :=
  if q = r then .bad else
  .ok ((s.set r (copyCtor (s.get q)).1).setMode r (s.mode q), .unit,
       (clear (s.get r)).2.add (copyCtor (s.get q)).2)

def doAssign (s : MSt) (r q : Nat) : MRes :=
  if q = r then .ok (s, .unit, {}) else
  .ok ((s.set r (assign (s.get r) (s.get q)).1).setMode r (s.mode q), .unit, (assign (s.get r) (s.get q)).2)

/-- wrapper `swap`: `std::swap(tree_, from.tree_)` = `tmp(a); a = b; b = tmp; ~tmp` -/
def doSwap (s : MSt) (r q : Nat) : MRes :=
  let a := s.get r
  let tmp := copyCtor a
  if q = r then
    -- `a = a` is skipped by the self-assignment guard, then `a = tmp`
    let a' := assign a tmp.1
    .ok (s.set r a'.1, .unit, (tmp.2.add a'.2).add (clear tmp.1).2)
  else
    let b := s.get q
    let a' := assign a b
    let b' := assign b tmp.1
    .ok ((((s.set r a'.1).set q b'.1).setMode r (s.mode q)).setMode q (s.mode r), .unit,
         ((tmp.2.add a'.2).add b'.2).add (clear tmp.1).2)

def doTswap (s : MSt) (r q : Nat) : MRes :=
  .ok ((((s.set r (s.get q)).set q (s.get r)).setMode r (s.mode q)).setMode q (s.mode r), .unit, {})

def cmpOut (sizeEq : Bool) (x y : List Ent) : Bool × Bool × Bool :=
  (sizeEq && x == y, lexLt x y, lexLt y x)

def doCmp (s : MSt) (r q : Nat) : MRes :=
  let t := s.get r
  let o := s.get q
  let (eq, lt, gt) := cmpOut (t.stats.size == o.stats.size) t.toList o.toList
  .ok (s, .cmp eq lt gt, {})

def stepCore (c : Cfg) (s : MSt) : Op → MRes
  | .ins kind r k v => doIns c s kind r k v
  | .idx r k => doIdx c s r k
  | .insr r es => doInsr c s r es
  | .rctor r es => doRctor c s r es
  | .er1 r k => doEr1 c s r k
  | .era r k => doEra c s r k
  | .eri r k => doEri c s r k
  | .find r k => doQuery s ((find (c.params (s.mode r)) (s.get r) k).map .pos)
  | .lb r k => doQuery s ((lowerBound (c.params (s.mode r)) (s.get r) k).map .pos)
  | .ub r k => doQuery s ((upperBound (c.params (s.mode r)) (s.get r) k).map .pos)
  | .eqr r k =>
    doQuery s ((lowerBound (c.params (s.mode r)) (s.get r) k).bind fun a =>
      (upperBound (c.params (s.mode r)) (s.get r) k).map fun b => .pos2 a b)
  | .exists_ r k => doQuery s ((existsKey (c.params (s.mode r)) (s.get r) k).map .bool)
  | .count r k => doQuery s ((count (c.params (s.mode r)) (s.get r) k).map .num)
  | .size r => .ok (s, .size (s.get r).stats.size ((s.get r).stats.size == 0), {})
  | .iter r m => doIter s r m
  | .rconv r k => doConv s r k rconvOut
  | .fconv r k => doConv s r k fconvOut
  | .clear r => .ok (s.set r (clear (s.get r)).1, .unit, (clear (s.get r)).2)
  | .bulk r es => doBulk c s r es
  | .copy r q => doCopy s r q
  | .assign r q => doAssign s r q
  | .swap r q => doSwap s r q
  | .tswap r q => doTswap s r q
  | .cmp r q => doCmp s r q

/-- one operation of the model machine -/
def stepOp (c : Cfg) (s : MSt) (op : Op) : MRes := if op.wf then stepCore c s op else .bad

/-- ranks instead of positions: `before` / `after` are the tree of the addressed register before
and after the step -/
def MOut.abs (before after : T) : MOut → Out
  | .ins b ps => .ins b (rankOf after.leafChain (some ps))
  | .idx v => .idx v
  | .unit => .unit
  | .er1 b => .er1 b
  | .era n => .era n
  | .eri ps e => .eri (rankOf before.leafChain (some ps)) e
  | .pos p => .rank (rankOf before.leafChain p)
  | .pos2 a b => .rank2 (rankOf before.leafChain a) (rankOf before.leafChain b)
  | .bool b => .bool b
  | .num n => .num n
  | .size n e => .size n e
  | .entries l => .entries l
  | .convEnd => .convEnd
  | .conv e n => .conv e n
  | .cmp a b c => .cmp a b c

/-- a history on the model machine: the final state, the answers (ranks; `none` for an operation the
harness refuses with `bad-op` — the state is unchanged) and the total ledger; `none` = some step
left defined behaviour -/
def runOps (c : Cfg) : MSt → List Op → Option (MSt × List (Option Out) × Ledger)
  | s, [] => some (s, [], {})
  | s, op :: ops =>
    match stepOp c s op with
    | .ub => none
    | .bad => (runOps c s ops).map fun (s', outs, lg) => (s', none :: outs, lg)
    | .ok (s1, mo, l1) =>
      (runOps c s1 ops).map fun (s', outs, lg) =>
        (s', some (mo.abs (s.get op.reg) (s1.get op.reg)) :: outs, l1.add lg)

/-! ### allocator instances

Every register's tree is constructed with its own allocator instance (the harness tags the instances; copies of
an instance compare equal, different tags compare unequal).  The copy constructor and `operator=` take the
source's instance (`allocator_ = other.get_allocator()`, unconditionally — no `allocator_traits` propagation
switches), `BTree::swap` exchanges them, everything else keeps the instance.  `stepA` is `stepOp` together with
the instance each register holds and the operation's ledger split by the instance each part goes through. -/

/-- the machine state together with the allocator instance each register's tree currently holds
(`allocator_`; instances are identified by the tag the harness gives them: copies compare equal,
different tags compare unequal) -/
structure ASt where
  m : MSt := {}
  a0 : Nat := 1
  a1 : Nat := 2

def ASt.arena (s : ASt) (r : Nat) : Nat := if r = 0 then s.a0 else s.a1

def ASt.setArena (s : ASt) (r : Nat) (a : Nat) : ASt := if r = 0 then { s with a0 := a } else { s with a1 := a }

/-- the allocator instance a register's container is constructed with (`cfg`, range constructor) -/
def homeArena (r : Nat) : Nat := if r = 0 then 1 else 2

/-- the nodes `operator=` allocates for the copy of `o` (after `clear()`) -/
def assignAlloc (o : T) : Ledger :=
  if o.stats.size ≠ 0 then
    match o.root with
    | some _ => { leafAlloc := o.nLeaves, innerAlloc := o.nInner }
    | none => {}
  else {}

/-- the ledger of an operation split by the allocator instance each part goes through, in execution
order: `(arena, nodes obtained from it / returned to it)` -/
def arenaParts (c : Cfg) (s : ASt) (op : Op) (lg : Ledger) : List (Nat × Ledger) :=
  match op with
  | .rctor r es =>
    -- the old container is destroyed, the new one is constructed with the register's own instance
    [(s.arena r, (clear (s.m.get r)).2),
     (homeArena r, ((insertMany (c.params (s.m.mode r)) es {} {}).map Prod.snd).getD {})]
  | .copy r q => [(s.arena r, (clear (s.m.get r)).2), (s.arena q, (copyCtor (s.m.get q)).2)]
  | .assign r q =>
    if q = r then [] else [(s.arena r, (clear (s.m.get r)).2), (s.arena q, assignAlloc (s.m.get q))]
  | .swap r q =>
    let a := s.m.get r
    let tmp := copyCtor a
    if q = r then
      [(s.arena r, tmp.2), (s.arena r, (clear a).2), (s.arena r, assignAlloc tmp.1), (s.arena r, (clear tmp.1).2)]
    else
      let b := s.m.get q
      [(s.arena r, tmp.2), (s.arena r, (clear a).2), (s.arena q, assignAlloc b), (s.arena q, (clear b).2),
       (s.arena r, assignAlloc tmp.1), (s.arena r, (clear tmp.1).2)]
  | .tswap _ _ => []
  | op => [(s.arena op.reg, lg)]

/-- which allocator instance each register holds afterwards: the copy constructor and `operator=` take
the source's (`allocator_ = other.get_allocator()`, unconditionally), the swaps exchange them -/
def arenaNext (s : ASt) (m' : MSt) (op : Op) : ASt :=
  match op with
  | .rctor r _ => ({ s with m := m' }).setArena r (homeArena r)
  | .copy r q => ({ s with m := m' }).setArena r (s.arena q)
  | .assign r q => if q = r then { s with m := m' } else ({ s with m := m' }).setArena r (s.arena q)
  | .swap r q | .tswap r q =>
    if q = r then { s with m := m' } else (({ s with m := m' }).setArena r (s.arena q)).setArena q (s.arena r)
  | _ => { s with m := m' }

def stepA (c : Cfg) (s : ASt) (op : Op) : Res (ASt × MOut × Ledger × List (Nat × Ledger)) :=
  match stepOp c s.m op with
  | .bad => .bad
  | .ub => .ub
  | .ok (m', mo, lg) => .ok (arenaNext s m' op, mo, lg, arenaParts c s op lg)

/-- what went through allocator instance `a` -/
def sumFor (a : Nat) : List (Nat × Ledger) → Ledger
  | [] => {}
  | p :: ps => if p.1 = a then p.2.add (sumFor a ps) else sumFor a ps

/-- everything that went through any allocator instance -/
def sumAll : List (Nat × Ledger) → Ledger
  | [] => {}
  | p :: ps => p.2.add (sumAll ps)

def ASt.liveL (s : ASt) (a : Nat) : Nat := (if s.a0 = a then s.m.t0.nLeaves else 0) + (if s.a1 = a then s.m.t1.nLeaves else 0)

def ASt.liveI (s : ASt) (a : Nat) : Nat := (if s.a0 = a then s.m.t0.nInner else 0) + (if s.a1 = a then s.m.t1.nInner else 0)

/-- per allocator instance: nodes of the trees holding it before + obtained from it = nodes after + returned to it -/
def ABal (s s' : ASt) (parts : List (Nat × Ledger)) : Prop :=
  ∀ a, s.liveL a + (sumFor a parts).leafAlloc = s'.liveL a + (sumFor a parts).leafFree ∧
       s.liveI a + (sumFor a parts).innerAlloc = s'.liveI a + (sumFor a parts).innerFree

/-- a history on the machine with allocator instances: final state and everything that went through the
allocators, tagged with the instance -/
def runA (c : Cfg) : ASt → List Op → Option (ASt × List (Nat × Ledger))
  | s, [] => some (s, [])
  | s, op :: ops =>
    match stepA c s op with
    | .ub => none
    | .bad => runA c s ops
    | .ok (s1, _, _, parts) => (runA c s1 ops).map fun sp => (sp.1, parts ++ sp.2)

/-! ### the abstract machine: key-ordered association lists -/

structure SSt where
  l0 : List Ent := []
  l1 : List Ent := []
  m0 : Nat := 0
  m1 : Nat := 0

namespace SSt
def get (s : SSt) (r : Nat) : List Ent := if r = 0 then s.l0 else s.l1
def set (s : SSt) (r : Nat) (l : List Ent) : SSt := if r = 0 then { s with l0 := l } else { s with l1 := l }
def mode (s : SSt) (r : Nat) : Nat := if r = 0 then s.m0 else s.m1
def setMode (s : SSt) (r : Nat) (m : Nat) : SSt := if r = 0 then { s with m0 := m } else { s with m1 := m }
end SSt

/-- lower bound: index of the first entry whose key is not less than `k` -/
def lbOf (p : Params Nat) (k : Nat) (l : List Ent) : Nat := l.findIdx (fun e => !p.lt e.1 k)
/-- upper bound: index of the first entry whose key is greater than `k` -/
def ubOf (p : Params Nat) (k : Nat) (l : List Ent) : Nat := l.findIdx (fun e => p.lt k e.1)
/-- is the entry at the lower bound equivalent to `k` (on an ordered list: is any entry) -/
def hasKey (p : Params Nat) (k : Nat) (l : List Ent) : Bool :=
  match l[lbOf p k l]? with
  | some e => p.eqv k e.1
  | none => false

/-- abstract insert: rejected for unique keys when an equivalent entry is present, otherwise placed
at the lower bound; answers (inserted, rank of the new / blocking entry) -/
def specIns (p : Params Nat) (l : List Ent) (k v : Nat) : List Ent × Bool :=
  if !p.dup && hasKey p k l then (l, false) else (insertAt l (lbOf p k l) (k, v), true)

def specInsMany (p : Params Nat) : List Ent → List Ent → List Ent
  | [], l => l
  | e :: es, l => specInsMany p es (specIns p l e.1 e.2).1

/-- abstract erase_one: the entry at the lower bound if it is equivalent -/
def specEr1 (p : Params Nat) (l : List Ent) (k : Nat) : List Ent × Bool :=
  if hasKey p k l then (l.eraseIdx (lbOf p k l), true) else (l, false)

/-- abstract erase(key): all equivalent entries (at most one for unique-key containers: the loop of
`erase()` stops after the first) -/
def specEra (p : Params Nat) (l : List Ent) (k : Nat) : List Ent × Nat :=
  if p.dup then (l.filter (fun e => !p.eqv k e.1), (l.filter (fun e => p.eqv k e.1)).length)
  else ((specEr1 p l k).1, if (specEr1 p l k).2 then 1 else 0)

def specCore (c : Cfg) (s : SSt) : Op → Option (SSt × Out)
  | .ins kind r k v =>
    if kind = .two ∧ !c.isMap then none else
    let p := c.params (s.mode r)
    let res := specIns p (s.get r) k (if c.isMap then v else 0)
    some (s.set r res.1, .ins res.2 (lbOf p k (s.get r)))
  | .idx r k =>
    if c.kind ≠ 2 then none else
    let p := c.params (s.mode r)
    let res := specIns p (s.get r) k 0
    some (s.set r res.1, .idx (((res.1[lbOf p k (s.get r)]?).map Prod.snd).getD 0))
  | .insr r es => some (s.set r (specInsMany (c.params (s.mode r)) es (s.get r)), .unit)
  | .rctor r es => some (s.set r (specInsMany (c.params (s.mode r)) es []), .unit)
  | .er1 r k =>
    let res := specEr1 (c.params (s.mode r)) (s.get r) k
    some (s.set r res.1, .er1 res.2)
  | .era r k =>
    let res := specEra (c.params (s.mode r)) (s.get r) k
    some (s.set r res.1, .era res.2)
  | .eri r k =>
    match (s.get r)[k]? with
    | some e => some (s.set r ((s.get r).eraseIdx k), .eri k e)
    | none => none
  | .find r k =>
    let p := c.params (s.mode r)
    some (s, .rank (if hasKey p k (s.get r) then lbOf p k (s.get r) else (s.get r).length))
  | .lb r k => some (s, .rank (lbOf (c.params (s.mode r)) k (s.get r)))
  | .ub r k => some (s, .rank (ubOf (c.params (s.mode r)) k (s.get r)))
  | .eqr r k => some (s, .rank2 (lbOf (c.params (s.mode r)) k (s.get r)) (ubOf (c.params (s.mode r)) k (s.get r)))
  | .exists_ r k => some (s, .bool (hasKey (c.params (s.mode r)) k (s.get r)))
  | .count r k => some (s, .num ((s.get r).filter (fun e => (c.params (s.mode r)).eqv k e.1)).length)
  | .size r => some (s, .size (s.get r).length ((s.get r).length == 0))
  | .iter r m =>
    if m > 15 then none
    else if m % 8 = 0 ∨ m % 8 = 2 ∨ m % 8 = 5 ∨ m % 8 = 7 then some (s, .entries ((s.get r).map some))
    else some (s, .entries ((s.get r).reverse.map some))
  | .rconv r k =>
    if k > (s.get r).length then none
    else if k = 0 then some (s, .convEnd)
    else some (s, .conv ((s.get r)[k - 1]?) k)              -- *reverse_iterator(it) = *prev(it)
  | .fconv r k =>
    if k > (s.get r).length then none
    else if k = 0 then some (s, .convEnd)
    else some (s, .conv ((s.get r)[(s.get r).length - k]?) k)  -- iterator(rit) = rit.base()
  | .clear r => some (s.set r [], .unit)
  | .bulk r es =>
    if (s.get r).length ≠ 0 ∨ !sortedFor (c.params (s.mode r)) es then none
    else some (s.set r es, .unit)
  | .copy r q => if q = r then none else some ((s.set r (s.get q)).setMode r (s.mode q), .unit)
  | .assign r q => if q = r then some (s, .unit) else some ((s.set r (s.get q)).setMode r (s.mode q), .unit)
  | .swap r q =>
    if q = r then some (s, .unit)
    else some ((((s.set r (s.get q)).set q (s.get r)).setMode r (s.mode q)).setMode q (s.mode r), .unit)
  | .tswap r q => some ((((s.set r (s.get q)).set q (s.get r)).setMode r (s.mode q)).setMode q (s.mode r), .unit)
  | .cmp r q =>
    let (eq, lt, gt) := cmpOut ((s.get r).length == (s.get q).length) (s.get r) (s.get q)
    some (s, .cmp eq lt gt)

/-- one operation of the abstract machine; `none`: not an operation the harness executes (`bad-op`) -/
def specStep (c : Cfg) (s : SSt) (op : Op) : Option (SSt × Out) := if op.wf then specCore c s op else none

/-- a history on the abstract machine: final state and answers -/
def specRun (c : Cfg) : SSt → List Op → SSt × List (Option Out)
  | s, [] => (s, [])
  | s, op :: ops =>
    match specStep c s op with
    | none => ((specRun c s ops).1, none :: (specRun c s ops).2)
    | some (s1, o) => ((specRun c s1 ops).1, some o :: (specRun c s1 ops).2)

end TlxVerif.C01
