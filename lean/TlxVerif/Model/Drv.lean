/-
Shared line-protocol plumbing for the per-property drivers (`Driver/Cnn.lean`).

Protocol: the driver reads operation lines from stdin and answers every line
with exactly one line on stdout.  Lines starting with `#` are comments: they are
answered with an identical echo so that line numbers stay aligned.
A line `case <anything>` resets the model state (answered with `case`).
-/
namespace TlxVerif.Drv

/-- split a protocol line into tokens (single spaces, surrounding blanks dropped) -/
def tokens (line : String) : List String :=
  (line.trimAscii.toString.splitOn " ").filter (· ≠ "")

def natList (ts : List String) : Option (List Nat) := ts.mapM String.toNat?

def intList (ts : List String) : Option (List Int) := ts.mapM String.toInt?

def showNats (l : List Nat) : String := " ".intercalate (l.map toString)

def showInts (l : List Int) : String := " ".intercalate (l.map toString)

/-- `"a,b,c"` → `[a,b,c]`, `"-"` → `[]` -/
def natCsv (s : String) : Option (List Nat) :=
  if s = "-" then some [] else (s.splitOn ",").mapM String.toNat?

def showCsv (l : List Nat) : String :=
  if l.isEmpty then "-" else ",".intercalate (l.map toString)

/-- Generic read-eval-print loop.  `init` is the state at every `case` line. -/
partial def loop {σ : Type} (init : σ) (step : σ → List String → σ × String) : IO Unit := do
  let stdin ← IO.getStdin
  let stdout ← IO.getStdout
  let rec go (s : σ) : IO Unit := do
    let line ← stdin.getLine
    if line.isEmpty then
      stdout.flush
      return ()
    let ts := tokens line
    match ts with
    | [] => stdout.putStrLn ""; go s
    | t :: _ =>
      if t.startsWith "#" then
        stdout.putStrLn line.trimAscii.toString; go s
      else if t = "case" then
        stdout.putStrLn "case"; go init
      else
        let (s', out) := step s ts
        stdout.putStrLn out
        go s'
  go init

end TlxVerif.Drv
