/-
C15 — sorting networks (tlx/sort/networks/{cswap,best,bose_nelson,bose_nelson_parameter}.hpp).

The three families are straight-line sequences of `cswap(a[i], a[j])` calls (written out in
best.hpp, produced by the recursive merge templates in the two Bose-Nelson headers).  The
comparator *sequences* are data: they are regenerated from the sources on every run by
`tools/c15_extract_networks.cpp` into `Gen/C15Networks.lean`.  What is modelled by hand is

  * `CS_IfSwap::operator()(left,right)`:  `if (cmp_(right, left)) std::swap(left, right);`
  * the `switch (end - begin)` of the three `sort(begin,end,cmp)` entry points
    (`case 0: case 1: break; case N: sortN(begin, cswap); default: abort();`).
-/
namespace TlxVerif.C15

/-- a comparator network: the sequence of `(i, j)` of `cswap(a[i], a[j])` -/
abbrev Net := List (Nat × Nat)

/-- `CS_IfSwap<Comparator>::operator()(a[i], a[j])` with `cmp_ = lt`:
    `if (cmp_(right, left)) std::swap(left, right)`.
    An index outside the array is undefined behaviour in C++; the model leaves the list
    unchanged and the theorems require `inRange` of every generated network instead. -/
def cswap {α : Type} (lt : α → α → Bool) (a : List α) (i j : Nat) : List α :=
  match a[i]?, a[j]? with
  | some x, some y => if lt y x then (a.set i y).set j x else a
  | _, _ => a

/-- run a comparator sequence -/
def applyNet {α : Type} (lt : α → α → Bool) (net : Net) (a : List α) : List α :=
  net.foldl (fun a c => cswap lt a c.1 c.2) a

/-- every comparator touches two positions of an `n`-element array -/
def inRange (n : Nat) (net : Net) : Bool :=
  net.all fun c => decide (c.1 < n) && decide (c.2 < n)

/-- `false < true` on `Bool` (the order of the zero-one principle) -/
def ltB (a b : Bool) : Bool := !a && b

/-! ### bit-parallel evaluation of all 2^n zero-one inputs at once

Wire `k` is a natural number whose bit `m` is the value on wire `k` for the `m`-th
zero-one input.  A comparator becomes `(x &&& y, x ||| y)`. -/

def cswapBP (ws : List Nat) (i j : Nat) : List Nat :=
  match ws[i]?, ws[j]? with
  | some x, some y => (ws.set i (x &&& y)).set j (x ||| y)
  | _, _ => ws

def applyNetBP (net : Net) (ws : List Nat) : List Nat :=
  net.foldl (fun ws c => cswapBP ws c.1 c.2) ws

/-- The `2^n`-bit wire constants by recursive doubling: the inputs `m < 2^n` are all
    `n`-bit patterns; going from `n` to `n+1` wires duplicates the universe
    (`w ||| w <<< 2^n`) and adds a new first wire that is 0 on the lower copy and 1 on the
    upper copy. -/
def wiresRec : Nat → List Nat
  | 0 => []
  | n + 1 => ((2 ^ 2 ^ n - 1) <<< 2 ^ n) :: (wiresRec n).map fun w => w ||| (w <<< 2 ^ n)

/-- for every input simultaneously: the value on each wire implies the value on the next -/
def sortedBP : List Nat → Bool
  | x :: y :: r => (x &&& y == x) && sortedBP (y :: r)
  | _ => true

/-- the finite check discharged by `decide +kernel` for every generated network -/
def checkNet (n : Nat) (net : Net) : Bool :=
  inRange n net && sortedBP (applyNetBP net (wiresRec n))

/-! ### the size dispatch `sort(begin, end, cmp)` -/

/-- `switch (end - begin) { case 0..16: sortN(begin, cswap); default: abort(); }` where
    `table[N]` is the comparator sequence the entry point executes for size `N`
    (`none` = `abort()`). -/
def sortDispatch {α : Type} (table : List Net) (lt : α → α → Bool) (a : List α) : Option (List α) :=
  if a.length ≤ 16 then
    match table[a.length]? with
    | some net => some (applyNet lt net a)
    | none => none
  else none

end TlxVerif.C15
